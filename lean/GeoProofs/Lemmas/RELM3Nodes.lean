/-
  RELM3 — two facts about the node map of the graph of one operand, and the node-insertion step of self-noding
  for LINE edges:
  * the coordinates of the nodes are pairwise distinct and every node has an `on` position in the operand's slot
    (`NInv`; the node map is keyed by coordinate, every insertion writes an `on` position), so "the node at `c`"
    (`Graph.nodeOn`, C17's `mod2_rule`) and "every node with coordinate `c`" are the same thing;
  * `add_self_intersection_node` for an edge whose `on` position is `Inside` keeps the invariant "every node carries
    the specification's location of its coordinate, and every point of the curves that is not a node is located
    `Inside`" (`LocInv`): a boundary node is left alone, any other node / a new node gets `Inside` — which is its
    location, because the end points of the curves are nodes already.
-/
import GeoProofs.Lemmas.RELM3LineString

namespace Geo.Proofs.RELM3
open Geo Geo.GG Geo.RI Geo.Proofs.Spec Geo.Proofs.RELM Geo.Proofs.RELM2 Geo.Proofs.Kernel

/-! ### distinct coordinates, labelled slots -/

theorem upsertNode_coords_eq (c : Pt) (f : Label → Label) : ∀ (ns : List Node),
    (upsertNode c f ns).map (·.coord) =
      if c ∈ ns.map (·.coord) then ns.map (·.coord) else ns.map (·.coord) ++ [c]
  | [] => by simp [upsertNode]
  | n :: ns => by
      simp only [upsertNode]
      by_cases h : n.coord = c
      · simp [h]
      · have h' : ¬ c = n.coord := fun e => h e.symm
        simp only [if_neg h, List.map_cons, List.mem_cons, h', false_or, upsertNode_coords_eq c f ns]
        split <;> simp

/-- distinct coordinates, every node labelled in slot `idx` -/
def NInv (idx : Nat) (ns : List Node) : Prop :=
  (ns.map (·.coord)).Nodup ∧ ∀ n ∈ ns, (n.label.onPos idx).isSome = true

theorem ninv_nil (idx : Nat) : NInv idx [] := ⟨List.nodup_nil, fun _ h => by cases h⟩

theorem ninv_upsert {idx : Nat} {ns : List Node} (h : NInv idx ns) (c : Pt) (f : Label → Label)
    (hf : ∀ l, ((f l).onPos idx).isSome = true) : NInv idx (upsertNode c f ns) := by
  refine ⟨?_, ?_⟩
  · rw [upsertNode_coords_eq]
    split
    · exact h.1
    · rename_i hc
      rw [List.nodup_append]
      refine ⟨h.1, List.nodup_singleton _, ?_⟩
      intro a ha b hb
      simp only [List.mem_singleton] at hb
      subst hb
      exact fun e => hc (e ▸ ha)
  · exact upsertNode_forall (P := fun n => (n.label.onPos idx).isSome = true) c f ns h.2 (fun n _ _ => hf _) (hf _)

theorem isSome_setOn (idx : Nat) (p : Pos) (l : Label) : ((l.setOn idx p).onPos idx).isSome = true := by
  rw [Geo.Proofs.C17L.onPos_setOn]; rfl

theorem isSome_boundaryUpdate (idx : Nat) (l : Label) : ((boundaryUpdate idx l).onPos idx).isSome = true := by
  unfold boundaryUpdate; exact isSome_setOn _ _ _

theorem ninv_insertPoint {idx : Nat} {G : Graph} (h : NInv idx G.nodes) (c : Pt) (p : Pos) :
    NInv idx (insertPoint idx c p G).nodes := ninv_upsert h c _ (isSome_setOn idx p)

theorem ninv_insertBoundaryPoint {idx : Nat} {G : Graph} (h : NInv idx G.nodes) (c : Pt) :
    NInv idx (insertBoundaryPoint idx c G).nodes := ninv_upsert h c _ (isSome_boundaryUpdate idx)

theorem ninv_addLineString {idx : Nat} {G : Graph} (h : NInv idx G.nodes) (cs : List Pt) :
    NInv idx (addLineString idx cs G).nodes := by
  unfold addLineString
  split
  · exact h
  · exact ninv_insertPoint h _ _
  · exact ninv_insertBoundaryPoint (ninv_insertBoundaryPoint h _) _

theorem ninv_addLineStrings {idx : Nat} : ∀ (ls : List (List Pt)) {G : Graph}, NInv idx G.nodes →
    NInv idx (addLineStrings idx ls G).nodes
  | [], _, h => h
  | l :: ls, _, h => ninv_addLineStrings ls (ninv_addLineString h l)

theorem ninv_addSelfIntersectionNode {idx : Nat} {G : Graph} (h : NInv idx G.nodes) (c : Pt) (p : Pos) :
    NInv idx (addSelfIntersectionNode idx c p G).nodes := by
  unfold addSelfIntersectionNode
  split
  · exact h
  · split
    · exact ninv_insertBoundaryPoint h c
    · exact ninv_insertPoint h c p

/-- with distinct coordinates, a node is the node `find` returns for its coordinate -/
theorem findNode_of_mem : ∀ {ns : List Node}, (ns.map (·.coord)).Nodup → ∀ {n : Node}, n ∈ ns →
    findNode n.coord ns = some n
  | [], _, _, h => by cases h
  | x :: xs, hnd, n, h => by
      simp only [List.map_cons, List.nodup_cons] at hnd
      rcases List.mem_cons.1 h with rfl | h
      · simp [findNode]
      · have : x.coord ≠ n.coord := fun e => hnd.1 (e ▸ List.mem_map_of_mem h)
        simp only [findNode, if_neg this]
        exact findNode_of_mem hnd.2 h

theorem findNode_none_of_not_mem {c : Pt} : ∀ {ns : List Node}, c ∉ ns.map (·.coord) → findNode c ns = none
  | [], _ => rfl
  | x :: xs, h => by
      simp only [List.map_cons, List.mem_cons, not_or] at h
      have hx : ¬ x.coord = c := fun e => h.1 e.symm
      simp only [findNode, if_neg hx]
      exact findNode_none_of_not_mem h.2

/-! ### the invariant of the node-insertion step, for line edges -/

/-- every node carries the location `loc` of its coordinate; a point with `R` that is not a node is `Inside` -/
def LocInv (idx : Nat) (loc : Pt → Pos) (R : Pt → Prop) (ns : List Node) : Prop :=
  (∀ n ∈ ns, n.label.onPos idx = some (loc n.coord)) ∧ (∀ c, R c → c ∉ ns.map (·.coord) → loc c = .inside)

theorem locInv_addSelfIntersectionNode {idx : Nat} {loc : Pt → Pos} {R : Pt → Prop} {G : Graph}
    (h : LocInv idx loc R G.nodes) {c : Pt} (hR : R c) (hout : loc c ≠ .outside) :
    LocInv idx loc R (addSelfIntersectionNode idx c .inside G).nodes := by
  unfold addSelfIntersectionNode
  split
  · exact h
  · rename_i hb
    have hfalse : ((Pos.inside = Pos.onBoundary) && G.useRule) = false := by simp
    have hloc : loc c = .inside := by
      cases hf : findNode c G.nodes with
      | none =>
        apply h.2 c hR
        intro hm
        obtain ⟨n, hn, hnc⟩ := List.mem_map.1 hm
        have : ∀ (ns : List Node), n ∈ ns → findNode c ns ≠ none := by
          intro ns
          induction ns with
          | nil => intro h; cases h
          | cons x xs ih =>
            intro hmem
            simp only [findNode]
            split
            · simp
            · rename_i hx
              rcases List.mem_cons.1 hmem with rfl | hmem
              · exact absurd hnc hx
              · exact ih hmem
        exact this _ hn hf
      | some n =>
        obtain ⟨hn, hnc⟩ := findNode_mem hf
        have hl := h.1 n hn
        rw [hnc] at hl
        have hnb : loc c ≠ .onBoundary := by
          intro e
          apply hb
          unfold isBoundaryNode
          rw [hf]
          simp only [hl, e, beq_self_eq_true]
        cases hlc : loc c with
        | inside => rfl
        | onBoundary => exact absurd hlc hnb
        | outside => exact absurd hlc hout
    have hins : LocInv idx loc R (insertPoint idx c .inside G).nodes := by
      refine ⟨?_, ?_⟩
      · apply upsertNode_forall (P := fun n => n.label.onPos idx = some (loc n.coord)) c _ G.nodes h.1
        · intro n _ hnc
          show (n.label.setOn idx .inside).onPos idx = some (loc n.coord)
          rw [Geo.Proofs.C17L.onPos_setOn, hnc, hloc]
        · show (Label.emptyLine.setOn idx .inside).onPos idx = some (loc c)
          rw [Geo.Proofs.C17L.onPos_setOn, hloc]
      · intro x hx hxn
        apply h.2 x hx
        intro hm
        exact hxn ((upsertNode_coords c _ x G.nodes).2 (Or.inr hm))
    split
    · rename_i h1
      simp at h1
    · exact hins

theorem locInv_addSelfIntersectionCoords {idx : Nat} {loc : Pt → Pos} {R : Pt → Prop} : ∀ (cs : List Pt) {G : Graph},
    LocInv idx loc R G.nodes → (∀ c ∈ cs, R c ∧ loc c ≠ .outside) →
    LocInv idx loc R (addSelfIntersectionCoords idx .inside cs G).nodes
  | [], _, h, _ => h
  | c :: cs, _, h, hc =>
      locInv_addSelfIntersectionCoords cs
        (locInv_addSelfIntersectionNode h (hc c (List.mem_cons_self ..)).1 (hc c (List.mem_cons_self ..)).2)
        (fun x hx => hc x (List.mem_cons_of_mem _ hx))

theorem locInv_addSelfIntersectionItems {idx : Nat} {loc : Pt → Pos} {R : Pt → Prop} :
    ∀ (items : List (Option Pos × List Pt)) {G : Graph}, LocInv idx loc R G.nodes →
      (∀ it ∈ items, it.1 = some .inside ∧ ∀ c ∈ it.2, R c ∧ loc c ≠ .outside) →
      LocInv idx loc R (addSelfIntersectionItems idx items G).nodes
  | [], _, h, _ => h
  | (none, _) :: rest, _, h, hi =>
      locInv_addSelfIntersectionItems rest h (fun it hit => hi it (List.mem_cons_of_mem _ hit))
  | (some p, cs) :: rest, G, h, hi => by
      have h0 := hi (some p, cs) (List.mem_cons_self ..)
      have hp : p = .inside := Option.some.inj h0.1
      subst hp
      exact locInv_addSelfIntersectionItems rest (locInv_addSelfIntersectionCoords cs h h0.2)
        (fun it hit => hi it (List.mem_cons_of_mem _ hit))

end Geo.Proofs.RELM3
