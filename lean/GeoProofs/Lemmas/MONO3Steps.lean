/-
  MONO3 (C10): step 3 of `process_next_pt` in terms of chain-index ownership — where the pair `in_chains` comes from.
-/
import GeoProofs.Lemmas.MONO3TokB

namespace Geo.Proofs.MONO3
open Geo Geo.Mono Geo.MonoBuild Geo.Proofs.C10 Geo.Proofs.MONO Geo.Proofs.MONO2

theorem takeChain_sl {st st' : St} {i : Nat} {c : List Pt} (h : st.takeChain i = some (c, st')) :
    st'.segs = st.segs ∧ st'.chains.length = st.chains.length := by
  obtain ⟨_, a, b, _⟩ := takeChain_sub h
  exact ⟨a, b⟩

theorem pushChain_sl {st st' : St} {i : Nat} {p : Pt} (h : st.pushChain i p = some st') :
    st'.segs = st.segs ∧ st'.chains.length = st.chains.length := by
  obtain ⟨c, _, e⟩ := pushChain_eq h
  subst e
  exact ⟨rfl, by simp⟩

/-- the chain index that `lastIdx` returns is held by the segment, and nothing is written to a payload -/
theorem lastIdx_own {pt : Pt} {seg : Nat} {st st' : St} {li : Nat} (h : lastIdx pt seg st = some (st', li)) :
    st'.segs = st.segs ∧ st'.chains.length = st.chains.length ∧
    ∃ s a, st.segs[seg]? = some s ∧ refOf s.info a = some li := by
  unfold lastIdx at h
  osplit h
  rename_i inf hinf
  obtain ⟨s, hs, hsi⟩ := infoOf_seg hinf
  split at h
  · rename_i h0 h1 hh
    osplit h
    rename_i fhc st1 e1
    osplit h
    rename_i fc st2 e2
    osplit h
    rename_i st3 e3
    osplit h
    simp only [Option.some.injEq, Prod.mk.injEq] at h
    obtain ⟨h, hli⟩ := h
    subst h hli
    obtain ⟨a1, b1⟩ := takeChain_sl e1
    obtain ⟨a2, b2⟩ := takeChain_sl e2
    obtain ⟨a3, b3⟩ := pushChain_sl e3
    refine ⟨by simp only; rw [a3, a2, a1], by simp only; rw [b3, b2, b1], s, 2, hs, ?_⟩
    simp only [refOf]; rw [hsi, hh]; rfl
  · simp only [Option.some.injEq, Prod.mk.injEq] at h
    obtain ⟨h, hli⟩ := h
    subst h hli
    exact ⟨rfl, rfl, s, 0, hs, by simp only [refOf]; rw [hsi]⟩

/-- where a component of `in_chains` comes from: a chain index held by an ending segment, or a component of the `help` of
the segment below -/
def Src (st : St) (bh : Option (Nat × Nat)) (inc : List Nat) (z : Nat) : Prop :=
  (∃ i ∈ inc, ∃ (s : Seg) (a : Nat), st.segs[i]? = some s ∧ refOf s.info a = some z) ∨
  (∃ h0 h1, bh = some (h0, h1) ∧ (z = h0 ∨ z = h1))

structure IcOwn (st st' : St) (bot : Option Nat) (bh : Option (Nat × Nat)) (inc : List Nat)
    (ic : Option Nat × Option Nat) : Prop where
  len : st'.chains.length = st.chains.length
  frame : ∀ j, bot ≠ some j → st'.segs[j]? = st.segs[j]?
  botn : bh = none → st'.segs = st.segs
  bots : bh ≠ none → ∃ b sb, bot = some b ∧ st.segs[b]? = some sb ∧
    st'.segs[b]? = some { sb with info := { sb.info with help := none } }
  src1 : ∀ x, ic.1 = some x → Src st bh inc x
  src2 : ∀ y, ic.2 = some y → Src st bh inc y
  ne : ∀ x y, ic.1 = some x → ic.2 = some y → x ≠ y

theorem inChains_own {pt : Pt} {bot : Option Nat} {bh : Option (Nat × Nat)} {inc : List Nat} {st st' : St}
    {ic : Option Nat × Option Nat}
    (hbh : ∀ h0 h1, bh = some (h0, h1) → ∃ b sb, bot = some b ∧ st.segs[b]? = some sb ∧ sb.info.help = some (h0, h1))
    (hnd : inc.Nodup) (hbI : ∀ b, bot = some b → b ∉ inc)
    (hinj : ∀ (i : Nat) (s : Seg) (j : Nat) (t : Seg), (i ∈ inc ∨ bot = some i) → (j ∈ inc ∨ bot = some j) →
      st.segs[i]? = some s → st.segs[j]? = some t →
      ∀ a b k, refOf s.info a = some k → refOf t.info b = some k → i = j ∧ a = b)
    (h : inChains pt bot bh inc st = some (st', ic)) : IcOwn st st' bot bh inc ic := by
  unfold inChains at h
  split at h
  · -- a registered help on the segment below
    rename_i h0 h1
    obtain ⟨b, sb, hb, hsb, hhelp⟩ := hbh h0 h1 rfl
    have r1 : refOf sb.info 1 = some h0 := by simp only [refOf]; rw [hhelp]; rfl
    have r2 : refOf sb.info 2 = some h1 := by simp only [refOf]; rw [hhelp]; rfl
    rw [hb] at h
    simp only at h
    osplit h
    rename_i st1 e1
    obtain ⟨sb', hsb', est1⟩ := setInfo_eq e1
    rw [hsb] at hsb'; cases hsb'
    have hbl : b < st.segs.length := (List.getElem?_eq_some_iff.1 hsb).1
    have seg1 : ∀ j, j ≠ b → st1.segs[j]? = st.segs[j]? := fun j hj => setInfo_other e1 hj
    have seg1b : st1.segs[b]? = some { sb with info := { sb.info with help := none } } := by
      rw [est1]; simp only; rw [List.getElem?_set]; simp [hbl]
    have len1 : st1.chains.length = st.chains.length := by rw [est1]
    have fin : ∀ (st2 : St) (ic : Option Nat × Option Nat), st2.segs = st1.segs →
        st2.chains.length = st1.chains.length →
        (∀ x, ic.1 = some x → Src st (some (h0, h1)) inc x) → (∀ y, ic.2 = some y → Src st (some (h0, h1)) inc y) →
        (∀ x y, ic.1 = some x → ic.2 = some y → x ≠ y) → IcOwn st st2 bot (some (h0, h1)) inc ic := by
      intro st2 ic hs hl s1 s2 hne
      refine ⟨by rw [hl, len1], ?_, (fun e => by cases e), ?_, s1, s2, hne⟩
      · intro j hj; rw [hs]; exact seg1 j (fun e => hj (by rw [hb, e]))
      · intro _; exact ⟨b, sb, hb, hsb, by rw [hs]; exact seg1b⟩
    have srcb0 : Src st (some (h0, h1)) inc h0 := Or.inr ⟨h0, h1, rfl, Or.inl rfl⟩
    have srcb1 : Src st (some (h0, h1)) inc h1 := Or.inr ⟨h0, h1, rfl, Or.inr rfl⟩
    split at h
    · rename_i in0 restIn
      osplit h
      rename_i i0 hi0
      osplit h
      rename_i sc st2 e2
      osplit h
      rename_i shc st3 e3
      osplit h
      rename_i st4 e4
      osplit h
      rename_i mm hm
      obtain ⟨a2, b2⟩ := takeChain_sl e2
      obtain ⟨a3, b3⟩ := takeChain_sl e3
      obtain ⟨a4, b4⟩ := pushChain_sl e4
      split at h
      · simp only [Option.some.injEq, Prod.mk.injEq] at h
        obtain ⟨h, hic⟩ := h
        subst h hic
        refine fin _ _ (by simp only; rw [a4, a3, a2]) (by simp only; rw [b4, b3, b2]) ?_ ?_ ?_
        · intro x hx; simp only [Option.some.injEq] at hx; rw [← hx]; exact srcb0
        · intro y hy; cases hy
        · intro x y _ hy; cases hy
      · rename_i in1 rest2
        osplit h
        rename_i st5 li e5
        simp only [Option.some.injEq, Prod.mk.injEq] at h
        obtain ⟨h, hic⟩ := h
        subst h hic
        obtain ⟨a5, b5, s5, r5, hs5, hr5⟩ := lastIdx_own e5
        have hin1 : in1 ∈ in0 :: in1 :: rest2 := by simp
        have hne1 : in1 ≠ b := fun e => hbI b hb (e ▸ hin1)
        have hs5' : st.segs[in1]? = some s5 := by
          simp only at hs5
          rw [a4, a3, a2] at hs5
          rw [← seg1 in1 hne1]; exact hs5
        refine fin _ _ (by rw [a5]; simp only; rw [a4, a3, a2]) (by rw [b5]; simp only; rw [b4, b3, b2]) ?_ ?_ ?_
        · intro x hx; simp only [Option.some.injEq] at hx; rw [← hx]; exact srcb0
        · intro y hy; simp only [Option.some.injEq] at hy; rw [← hy]
          exact Or.inl ⟨in1, hin1, s5, r5, hs5', hr5⟩
        · intro x y hx hy e
          simp only [Option.some.injEq] at hx hy
          rw [← hx, ← hy] at e
          have := hinj b sb in1 s5 (Or.inr hb) (Or.inl hin1) hsb hs5' 1 r5 h0 r1 (by rw [e]; exact hr5)
          exact hne1 this.1.symm
    · osplit h
      rename_i st2 e2
      osplit h
      rename_i st3 e3
      simp only [Option.some.injEq, Prod.mk.injEq] at h
      obtain ⟨h, hic⟩ := h
      subst h hic
      obtain ⟨a2, b2⟩ := pushChain_sl e2
      obtain ⟨a3, b3⟩ := pushChain_sl e3
      refine fin _ _ (by rw [a3, a2]) (by rw [b3, b2]) ?_ ?_ ?_
      · intro x hx; simp only [Option.some.injEq] at hx; rw [← hx]; exact srcb0
      · intro y hy; simp only [Option.some.injEq] at hy; rw [← hy]; exact srcb1
      · intro x y hx hy e
        simp only [Option.some.injEq] at hx hy
        rw [← hx, ← hy] at e
        have := hinj b sb b sb (Or.inr hb) (Or.inr hb) hsb hsb 1 2 h0 r1 (by rw [e]; exact r2)
        exact absurd this.2 (by decide)
  · -- no help on the segment below
    have fin : ∀ (st2 : St) (ic : Option Nat × Option Nat), st2.segs = st.segs →
        st2.chains.length = st.chains.length →
        (∀ x, ic.1 = some x → Src st none inc x) → (∀ y, ic.2 = some y → Src st none inc y) →
        (∀ x y, ic.1 = some x → ic.2 = some y → x ≠ y) → IcOwn st st2 bot none inc ic := by
      intro st2 ic hs hl s1 s2 hne
      exact ⟨hl, fun j _ => by rw [hs], fun _ => hs, fun e => absurd rfl e, s1, s2, hne⟩
    split at h
    · simp only [Option.some.injEq, Prod.mk.injEq] at h
      obtain ⟨h, hic⟩ := h
      subst h hic
      exact fin _ _ rfl rfl (fun x hx => by cases hx) (fun y hy => by cases hy) (fun x y hx _ => by cases hx)
    · rename_i lastIn hlast
      osplit h
      rename_i st2 li e2
      obtain ⟨a2, b2, s2, r2, hs2, hr2⟩ := lastIdx_own e2
      have hlin : lastIn ∈ inc := List.mem_of_getLast? hlast
      split at h
      · simp only [Option.some.injEq, Prod.mk.injEq] at h
        obtain ⟨h, hic⟩ := h
        subst h hic
        refine fin _ _ a2 b2 ?_ ?_ ?_
        · intro x hx; simp only [Option.some.injEq] at hx; rw [← hx]
          exact Or.inl ⟨lastIn, hlin, s2, r2, hs2, hr2⟩
        · intro y hy; cases hy
        · intro x y _ hy; cases hy
      · rename_i hlen
        osplit h
        rename_i in0 hhead
        osplit h
        rename_i i0 hi0
        simp only [Option.some.injEq, Prod.mk.injEq] at h
        obtain ⟨h, hic⟩ := h
        subst h hic
        obtain ⟨s0, hs0, hsi0⟩ := infoOf_seg hi0
        rw [a2] at hs0
        have hin0 : in0 ∈ inc := List.mem_of_mem_head? hhead
        have hr0 : refOf s0.info 0 = some i0.chainIdx := by simp only [refOf]; rw [hsi0]
        refine fin _ _ a2 b2 ?_ ?_ ?_
        · intro x hx; simp only [Option.some.injEq] at hx; rw [← hx]
          exact Or.inl ⟨in0, hin0, s0, 0, hs0, hr0⟩
        · intro y hy; simp only [Option.some.injEq] at hy; rw [← hy]
          exact Or.inl ⟨lastIn, hlin, s2, r2, hs2, hr2⟩
        · intro x y hx hy e
          simp only [Option.some.injEq] at hx hy
          rw [← hx, ← hy] at e
          have := hinj in0 s0 lastIn s2 (Or.inl hin0) (Or.inl hlin) hs0 hs2 0 r2 _ hr0 (by rw [e]; exact hr2)
          exact head_ne_last hnd hlen hhead hlast this.1

end Geo.Proofs.MONO3
