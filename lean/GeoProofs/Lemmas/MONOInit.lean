/-
  MONO (C10, builder of the monotone pieces): the initial state of the sweep satisfies the provenance invariant for
  `V p := p is a coordinate of an input polygon`, hence so does the final state of `monotone_subdivision`.
-/
import GeoProofs.Lemmas.MONOInvB
import GeoProofs.Lemmas.C10Mono

namespace Geo.Proofs.MONO
open Geo Geo.Mono Geo.MonoBuild Geo.Proofs.C10

/-- the coordinates of the input polygons (`coords_iter` of every polygon) -/
def inputCoords (ps : List Poly) : List Pt := ps.flatMap Poly.coords

variable {V : Pt → Prop}

theorem initGo_inv : ∀ (ls : List LoP) (st : St), InvV V st → (∀ l ∈ ls, LoPV V l) → InvV V (initGo ls st)
  | [], st, hi, _ => by simpa [initGo] using hi
  | l :: ls, st, hi, hl => by
    simp only [initGo]
    have hlV := hl l (List.mem_cons_self ..)
    refine initGo_inv ls _ ?_ (fun x hx => hl x (List.mem_cons_of_mem _ hx))
    refine ⟨?_, heapExtend2_forall hi.evs hlV.1 hlV.2, hi.chains, hi.outs⟩
    intro s hs
    simp only [List.mem_append, List.mem_singleton] at hs
    rcases hs with hs | hs
    · exact hi.segs s hs
    · rw [hs]; exact hlV

theorem inputLines_V (ps : List Poly) : ∀ l ∈ inputLines ps, LoPV (· ∈ inputCoords ps) l := by
  intro l hl
  unfold inputLines at hl
  simp only [List.mem_filterMap, List.mem_flatMap] at hl
  obtain ⟨⟨a, b⟩, ⟨p, hp, r, hr, hab⟩, hf⟩ := hl
  have hmem := mem_segs hab
  have hrc : ∀ q ∈ r, q ∈ inputCoords ps := by
    intro q hq
    unfold inputCoords
    refine List.mem_flatMap.2 ⟨p, hp, ?_⟩
    unfold Poly.coords
    rcases List.mem_cons.1 hr with e | e
    · rw [e] at hq; exact List.mem_append_left _ hq
    · exact List.mem_append_right _ (List.mem_flatten.2 ⟨r, e, hq⟩)
  simp only at hf
  split at hf
  · cases hf
  · cases hf
    exact lopV_from (hrc a hmem.1) (hrc b hmem.2)

theorem initState_inv (ps : List Poly) : InvV (· ∈ inputCoords ps) (initState ps) := by
  unfold initState
  refine initGo_inv _ _ ?_ (inputLines_V ps)
  refine ⟨?_, ?_, ?_, ?_⟩ <;> intro x hx <;> simp at hx

theorem buildState_inv {ps : List Poly} {st : St} (h : buildState ps = some st) :
    InvV (· ∈ inputCoords ps) st := by
  unfold buildState at h
  exact buildLoop_inv _ _ _ _ (initState_inv ps) h

end Geo.Proofs.MONO
