/-
  MONO3 (C10): the token view of chain-index ownership inside one `process_next_pt`. `Tok st H T m`: the chain indices
  held by the segments of `H` (as `chain_idx` or as a component of `help`) are below `m`, pairwise different, and different
  from the free tokens `T` (indices released by the segments that ended, not yet handed to a starting segment or to a
  `help` cell); `m` is at most the number of chain slots.
-/
import GeoProofs.Lemmas.MONO3KeepC
import GeoProofs.Lemmas.MONO2Glue

namespace Geo.Proofs.MONO3
open Geo Geo.Mono Geo.MonoBuild Geo.Proofs.C10 Geo.Proofs.MONO Geo.Proofs.MONO2

structure Tok (st : St) (H : Nat → Prop) (T : List Nat) (m : Nat) : Prop where
  le : m ≤ st.chains.length
  lt : ∀ (j : Nat) (s : Seg), st.segs[j]? = some s → H j →
    (∀ a k, refOf s.info a = some k → k < m) ∧ (∀ k, s.info.helperChain = some k → k < m)
  inj : ∀ (i : Nat) (s : Seg) (j : Nat) (t : Seg), st.segs[i]? = some s → st.segs[j]? = some t → H i → H j →
    ∀ a b k, refOf s.info a = some k → refOf t.info b = some k → i = j ∧ a = b
  tlt : ∀ t ∈ T, t < m
  tnd : T.Nodup
  tfree : ∀ t ∈ T, ∀ (j : Nat) (s : Seg), st.segs[j]? = some s → H j → ∀ a, refOf s.info a ≠ some t

theorem Tok.congr {st st' : St} {H : Nat → Prop} {T : List Nat} {m : Nat} (h : Tok st H T m)
    (hs : st'.segs = st.segs) (hc : st.chains.length ≤ st'.chains.length) : Tok st' H T m := by
  refine ⟨Nat.le_trans h.le hc, ?_, ?_, h.tlt, h.tnd, ?_⟩
  · intro j s hj; rw [hs] at hj; exact h.lt j s hj
  · intro i s j t hi hj; rw [hs] at hi hj; exact h.inj i s j t hi hj
  · intro t ht j s hj; rw [hs] at hj; exact h.tfree t ht j s hj

theorem Tok.relax {st : St} {H H' : Nat → Prop} {T T' : List Nat} {m m' : Nat} (h : Tok st H T m)
    (hH : ∀ j, H' j → H j) (hT : T'.Nodup) (hT' : ∀ t ∈ T', t ∈ T) (hm : m ≤ m') (hm' : m' ≤ st.chains.length) :
    Tok st H' T' m' := by
  refine ⟨hm', ?_, ?_, fun t ht => Nat.lt_of_lt_of_le (h.tlt t (hT' t ht)) hm, hT, ?_⟩
  · intro j s hj hh
    obtain ⟨a, b⟩ := h.lt j s hj (hH j hh)
    exact ⟨fun x k hr => Nat.lt_of_lt_of_le (a x k hr) hm, fun k hk => Nat.lt_of_lt_of_le (b k hk) hm⟩
  · intro i s j t hi hj h1 h2; exact h.inj i s j t hi hj (hH i h1) (hH j h2)
  · intro t ht j s hj hh; exact h.tfree t (hT' t ht) j s hj (hH j hh)

/-- one write to the payload of segment `o` -/
theorem Tok.update {st st' : St} {H H' : Nat → Prop} {T T' : List Nat} {m m' : Nat} {o : Nat} {s : Seg}
    {f : Info → Info} (h : Tok st H T m) (hset : st.setInfo o f = some st') (hs : st.segs[o]? = some s)
    (hH : ∀ j, H' j → H j ∨ j = o) (hm : m ≤ m') (hm' : m' ≤ st.chains.length)
    (hT : T'.Nodup) (hT' : ∀ t ∈ T', t ∈ T)
    (hnew : ∀ a k, refOf (f s.info) a = some k → k < m' ∧ (∀ t ∈ T', t ≠ k) ∧
      ((H o ∧ refOf s.info a = some k) ∨
       ((∀ (j : Nat) (sj : Seg), st.segs[j]? = some sj → H j → ∀ b, refOf sj.info b ≠ some k) ∧
         ∀ a', refOf (f s.info) a' = some k → a' = a)))
    (hhc : ∀ k, (f s.info).helperChain = some k → k < m') : Tok st' H' T' m' := by
  obtain ⟨s0, hs0, hst⟩ := setInfo_eq hset
  rw [hs] at hs0; cases hs0
  subst hst
  have hol : o < st.segs.length := (List.getElem?_eq_some_iff.1 hs).1
  have look : ∀ (j : Nat) (x : Seg), (st.segs.set o { s with info := f s.info })[j]? = some x →
      (j = o ∧ x = { s with info := f s.info }) ∨ (j ≠ o ∧ st.segs[j]? = some x) := by
    intro j x hx
    rw [List.getElem?_set] at hx
    by_cases e : o = j
    · subst e; simp only [hol, if_true, Option.some.injEq] at hx; exact Or.inl ⟨rfl, hx.symm⟩
    · simp only [e, if_false] at hx; exact Or.inr ⟨fun e' => e e'.symm, hx⟩
  refine ⟨hm', ?_, ?_, fun t ht => Nat.lt_of_lt_of_le (h.tlt t (hT' t ht)) hm, hT, ?_⟩
  · intro j x hx hh
    rcases look j x hx with ⟨e1, e2⟩ | ⟨e1, e2⟩
    · subst e2
      exact ⟨fun a k hr => (hnew a k hr).1, hhc⟩
    · rcases hH j hh with g | g
      · obtain ⟨a, b⟩ := h.lt j x e2 g
        exact ⟨fun y k hr => Nat.lt_of_lt_of_le (a y k hr) hm, fun k hk => Nat.lt_of_lt_of_le (b k hk) hm⟩
      · exact absurd g e1
  · intro i x j y hx hy h1 h2 a b k hr1 hr2
    rcases look i x hx with ⟨e1, e2⟩ | ⟨e1, e2⟩ <;> rcases look j y hy with ⟨e3, e4⟩ | ⟨e3, e4⟩
    · subst e2 e4
      refine ⟨by rw [e1, e3], ?_⟩
      simp only at hr1 hr2
      rcases (hnew a k hr1).2.2 with ⟨g1, g2⟩ | ⟨g1, g2⟩
      · rcases (hnew b k hr2).2.2 with ⟨g3, g4⟩ | ⟨g3, g4⟩
        · exact (h.inj o s o s hs hs g1 g1 a b k g2 g4).2
        · exact absurd g2 (g3 o s hs g1 a)
      · exact (g2 b hr2).symm
    · subst e2
      simp only at hr1
      have hj : H j := by
        rcases hH j h2 with g | g
        · exact g
        · exact absurd g e3
      rcases (hnew a k hr1).2.2 with ⟨g1, g2⟩ | ⟨g1, _⟩
      · have := h.inj o s j y hs e4 g1 hj a b k g2 hr2
        exact absurd this.1.symm (e1 ▸ e3)
      · exact absurd hr2 (g1 j y e4 hj b)
    · subst e4
      simp only at hr2
      have hi : H i := by
        rcases hH i h1 with g | g
        · exact g
        · exact absurd g e1
      rcases (hnew b k hr2).2.2 with ⟨g1, g2⟩ | ⟨g1, _⟩
      · have := h.inj i x o s e2 hs hi g1 a b k hr1 g2
        exact absurd this.1 (e3 ▸ e1)
      · exact absurd hr1 (g1 i x e2 hi a)
    · have hi : H i := by
        rcases hH i h1 with g | g
        · exact g
        · exact absurd g e1
      have hj : H j := by
        rcases hH j h2 with g | g
        · exact g
        · exact absurd g e3
      exact h.inj i x j y e2 e4 hi hj a b k hr1 hr2
  · intro t ht j x hx hh a hr
    rcases look j x hx with ⟨e1, e2⟩ | ⟨e1, e2⟩
    · subst e2
      exact (hnew a t hr).2.1 t ht rfl
    · rcases hH j hh with g | g
      · exact h.tfree t (hT' t ht) j x e2 g a hr
      · exact absurd g e1

theorem refOf_cases {inf : Info} {a x : Nat} (h : refOf inf a = some x) :
    (a = 0 ∧ x = inf.chainIdx) ∨ (a = 1 ∧ ∃ y, inf.help = some (x, y)) ∨ (a = 2 ∧ ∃ y, inf.help = some (y, x)) := by
  match a, h with
  | 0, h => simp only [refOf, Option.some.injEq] at h; exact Or.inl ⟨rfl, h.symm⟩
  | 1, h =>
    simp only [refOf, Option.map_eq_some_iff] at h
    obtain ⟨⟨p, q⟩, hp, e⟩ := h
    simp only at e; subst e
    exact Or.inr (Or.inl ⟨rfl, q, hp⟩)
  | 2, h =>
    simp only [refOf, Option.map_eq_some_iff] at h
    obtain ⟨⟨p, q⟩, hp, e⟩ := h
    simp only at e; subst e
    exact Or.inr (Or.inr ⟨rfl, p, hp⟩)
  | n + 3, h => simp [refOf] at h

theorem refOf_help_congr {inf inf' : Info} (hh : inf'.help = inf.help) {a : Nat} (ha : a ≠ 0) :
    refOf inf' a = refOf inf a := by
  match a, ha with
  | 1, _ => simp only [refOf, hh]
  | 2, _ => simp only [refOf, hh]
  | n + 3, _ => simp only [refOf]

end Geo.Proofs.MONO3
