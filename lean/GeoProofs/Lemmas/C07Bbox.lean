/-
  GeoProofs.Lemmas.C07Bbox — the bounding-box rejections inside `LineString: Intersects<…>` are
  sound (they never reject a pair with an intersecting segment pair), hence
  `LineString × LineString` intersects — and with it the distance — is symmetric.
-/
import GeoProofs.Lemmas.C07Kernels
import GeoProofs.Props.C19

namespace Geo.Proofs.C07
open Geo Geo.Proofs.Kernel

theorem segs_mem {cs : List Pt} {se : Pt × Pt} (h : se ∈ segs cs) : se.1 ∈ cs ∧ se.2 ∈ cs := by
  induction cs with
  | nil => simp [segs] at h
  | cons a rest ih =>
    cases rest with
    | nil => simp [segs] at h
    | cons b rest' =>
      simp only [segs, List.mem_cons] at h
      rcases h with rfl | h
      · exact ⟨List.mem_cons_self, List.mem_cons_of_mem _ List.mem_cons_self⟩
      · have := ih h
        exact ⟨List.mem_cons_of_mem _ this.1, List.mem_cons_of_mem _ this.2⟩

/-- a point of a segment lies in every axis-parallel box containing both end points -/
theorem SegMem_in_box {x a b mn mx : Pt} (h : SegMem x a b)
    (ha : mn.x ≤ a.x ∧ a.x ≤ mx.x ∧ mn.y ≤ a.y ∧ a.y ≤ mx.y)
    (hb : mn.x ≤ b.x ∧ b.x ≤ mx.x ∧ mn.y ≤ b.y ∧ b.y ≤ mx.y) :
    mn.x ≤ x.x ∧ x.x ≤ mx.x ∧ mn.y ≤ x.y ∧ x.y ≤ mx.y := by
  obtain ⟨t, h0, h1, hx, hy⟩ := h
  have h1' : 0 ≤ 1 - t := by linarith
  refine ⟨?_, ?_, ?_, ?_⟩
  · rw [hx]; nlinarith [mul_nonneg h0 (sub_nonneg.mpr hb.1), mul_nonneg h1' (sub_nonneg.mpr ha.1)]
  · rw [hx]; nlinarith [mul_nonneg h0 (sub_nonneg.mpr hb.2.1), mul_nonneg h1' (sub_nonneg.mpr ha.2.1)]
  · rw [hy]; nlinarith [mul_nonneg h0 (sub_nonneg.mpr hb.2.2.1), mul_nonneg h1' (sub_nonneg.mpr ha.2.2.1)]
  · rw [hy]; nlinarith [mul_nonneg h0 (sub_nonneg.mpr hb.2.2.2), mul_nonneg h1' (sub_nonneg.mpr ha.2.2.2)]

/-- `Rect::new(a, b)` contains `a` and `b` -/
theorem rectNewPts_bounds (a b : Pt) :
    let r := rectNewPts a b
    (r.1.x ≤ a.x ∧ a.x ≤ r.2.x ∧ r.1.y ≤ a.y ∧ a.y ≤ r.2.y) ∧
    (r.1.x ≤ b.x ∧ b.x ≤ r.2.x ∧ r.1.y ≤ b.y ∧ b.y ≤ r.2.y) := by
  simp only [rectNewPts, SM.rectNew]
  by_cases hx : a.x < b.x <;> by_cases hy : a.y < b.y <;> simp only [hx, hy, if_true, if_false] <;>
    (refine ⟨⟨?_, ?_, ?_, ?_⟩, ?_, ?_, ?_, ?_⟩ <;>
      first | exact le_refl _ | exact le_of_lt hx | exact le_of_lt hy | exact not_lt.mp hx | exact not_lt.mp hy)

/-- two boxes that both contain the point `x` are not disjoint -/
theorem not_bboxDisjoint_of_common {ra rb : Option (Pt × Pt)} {x : Pt}
    (ha : ∀ mn mx, ra = some (mn, mx) → mn.x ≤ x.x ∧ x.x ≤ mx.x ∧ mn.y ≤ x.y ∧ x.y ≤ mx.y)
    (hb : ∀ mn mx, rb = some (mn, mx) → mn.x ≤ x.x ∧ x.x ≤ mx.x ∧ mn.y ≤ x.y ∧ x.y ≤ mx.y) :
    bboxDisjoint ra rb = false := by
  unfold bboxDisjoint
  cases ra with
  | none => rfl
  | some r =>
    cases rb with
    | none => rfl
    | some r' =>
      obtain ⟨amn, amx⟩ := r
      obtain ⟨bmn, bmx⟩ := r'
      have h1 := ha amn amx rfl
      have h2 := hb bmn bmx rfl
      simp only [Bool.not_eq_false']
      rw [rectRect_eq]
      refine ⟨?_, ?_, ?_, ?_⟩ <;> linarith [h1.1, h1.2.1, h1.2.2.1, h1.2.2.2, h2.1, h2.2.1, h2.2.2.1, h2.2.2.2]

/-- a point of a segment of a line string lies in the line string's bounding box -/
theorem ls_box {cs : List Pt} {se : Pt × Pt} {x : Pt} (hse : se ∈ segs cs) (hx : SegMem x se.1 se.2) :
    ∀ mn mx, getBoundingRect cs = some (mn, mx) → mn.x ≤ x.x ∧ x.x ≤ mx.x ∧ mn.y ≤ x.y ∧ x.y ≤ mx.y := by
  intro mn mx h
  have hb := (Geo.Proofs.C19.getBoundingRect_bounds cs mn mx h).1
  have hm := segs_mem hse
  exact SegMem_in_box hx (hb _ hm.1) (hb _ hm.2)

/-- `LineString: Intersects<Line>` — the bounding-box rejection is sound -/
theorem lsLineIntersects_iff (cs : List Pt) (a b : Pt) :
    lsLineIntersects cs a b = true ↔ ∃ se ∈ segs cs, lineLine se.1 se.2 a b = true := by
  unfold lsLineIntersects
  constructor
  · intro h
    split at h
    · cases h
    · simpa using h
  · rintro ⟨se, hse, h⟩
    obtain ⟨x, hx1, hx2⟩ := (lineLine_iff _ _ _ _).mp h
    have hd : bboxDisjoint (getBoundingRect cs) (some (rectNewPts a b)) = false := by
      apply not_bboxDisjoint_of_common (x := x) (ls_box hse hx1)
      intro mn mx he
      have he' : rectNewPts a b = (mn, mx) := Option.some.inj he
      have hb := rectNewPts_bounds a b
      rw [he'] at hb
      exact SegMem_in_box hx2 hb.1 hb.2
    rw [hd]
    simp only [Bool.false_eq_true, if_false, List.any_eq_true]
    exact ⟨se, hse, h⟩

/-- `LineString: Intersects<LineString>` holds exactly when two of their segments intersect -/
theorem lsLsIntersects_iff (as bs : List Pt) :
    lsLsIntersects as bs = true ↔
      ∃ s ∈ segs as, ∃ t ∈ segs bs, lineLine t.1 t.2 s.1 s.2 = true := by
  unfold lsLsIntersects
  constructor
  · intro h
    split at h
    · cases h
    · simp only [List.any_eq_true] at h
      obtain ⟨s, hs, h⟩ := h
      exact ⟨s, hs, (lsLineIntersects_iff bs s.1 s.2).mp h⟩
  · rintro ⟨s, hs, t, ht, h⟩
    obtain ⟨x, hx1, hx2⟩ := (lineLine_iff _ _ _ _).mp h
    have hd : bboxDisjoint (getBoundingRect as) (getBoundingRect bs) = false :=
      not_bboxDisjoint_of_common (x := x) (ls_box hs hx2) (ls_box ht hx1)
    rw [hd]
    simp only [Bool.false_eq_true, if_false, List.any_eq_true]
    exact ⟨s, hs, (lsLineIntersects_iff bs s.1 s.2).mpr ⟨t, ht, h⟩⟩

theorem lsLsIntersects_symm (as bs : List Pt) : lsLsIntersects as bs = lsLsIntersects bs as := by
  rw [Bool.eq_iff_iff, lsLsIntersects_iff, lsLsIntersects_iff]
  constructor
  · rintro ⟨s, hs, t, ht, h⟩; exact ⟨t, ht, s, hs, by rw [lineLine_symm]; exact h⟩
  · rintro ⟨s, hs, t, ht, h⟩; exact ⟨t, ht, s, hs, by rw [lineLine_symm]; exact h⟩

end Geo.Proofs.C07
