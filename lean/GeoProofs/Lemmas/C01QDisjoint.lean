/-
  C01Q, part 2: the disjoint-envelope shortcut, full equality.

  `RowMax pa pb X d`: `d` is the largest dimension of an atom located `X` w.r.t. the first operand.
  For separated operands the cell `(X, Exterior)` of the specification *is* that maximum
  (`cell_of_rowMax`), so the whole matrix equals `computeDisjoint` of the four maxima
  (`relateParts_disjoint_eq`). The maxima are then computed for parts without areal members
  (points and curves, mod-2 rule included) — no separation needed for that.
-/
import GeoProofs.Lemmas.C01QAtoms

namespace Geo.Proofs.Spec
open Geo Geo.Proofs.Kernel

/-- `d` is the largest dimension of an atom located `X` w.r.t. `A` (`F` if there is none) -/
def RowMax (pa pb : Parts) (X : Pos) (d : Dim) : Prop :=
  (d = .empty ∨ ∃ x ∈ atomsOf pa pb, x.posA = X ∧ x.dim = d) ∧
  ∀ x ∈ atomsOf pa pb, x.posA = X → x.dim.rank ≤ d.rank

/-- for separated operands the cell `(X, Exterior)`, `X` interior or boundary, is the row maximum -/
theorem cell_of_rowMax {pa pb : Parts} (h : Sep pa pb) (ca : ClosedExt pa) (cb : ClosedExt pb) {X : Pos}
    (hX : X ≠ .outside) {d : Dim} (hm : RowMax pa pb X d) : (relateParts pa pb).get X .outside = d := by
  rw [relateParts_eq, get_set, if_neg (fun e => hX e.1.symm)]
  apply Dim.eq_of_le_iff
  intro e
  rw [fold_get]
  constructor
  · rintro (rfl | ⟨x, hx, h1, _, h3⟩)
    · simp [Dim.rank]
    · exact le_trans h3 (hm.2 x hx h1)
  · intro he
    rcases hm.1 with rfl | ⟨x, hx, h1, h2⟩
    · exact Or.inl (Dim.rank_le_zero.mp he)
    · refine Or.inr ⟨x, hx, h1, ?_, by rw [h2]; exact he⟩
      exact (atom_outside_of_sep h ca cb hx).resolve_left (by rw [h1]; exact hX)

theorem computeDisjoint_ie (da ba db bb : Dim) : (computeDisjoint da ba db bb).get .inside .outside = da := by
  cases da <;> cases ba <;> cases db <;> cases bb <;> rfl

theorem computeDisjoint_ei (da ba db bb : Dim) : (computeDisjoint da ba db bb).get .outside .inside = db := by
  cases da <;> cases ba <;> cases db <;> cases bb <;> rfl

theorem computeDisjoint_be (da ba db bb : Dim) (h : ba ≠ .empty → da ≠ .empty) :
    (computeDisjoint da ba db bb).get .onBoundary .outside = ba := by
  cases da <;> cases ba <;> cases db <;> cases bb <;> first | rfl | exact absurd rfl (h (by decide))

theorem computeDisjoint_eb (da ba db bb : Dim) (h : bb ≠ .empty → db ≠ .empty) :
    (computeDisjoint da ba db bb).get .outside .onBoundary = bb := by
  cases da <;> cases ba <;> cases db <;> cases bb <;> first | rfl | exact absurd rfl (h (by decide))

theorem computeDisjoint_ee (da ba db bb : Dim) : (computeDisjoint da ba db bb).get .outside .outside = .two := by
  cases da <;> cases ba <;> cases db <;> cases bb <;> rfl

theorem computeDisjoint_inner (da ba db bb : Dim) (x y : Pos) (hx : x ≠ .outside) (hy : y ≠ .outside) :
    (computeDisjoint da ba db bb).get x y = .empty := by
  cases da <;> cases ba <;> cases db <;> cases bb <;> cases x <;> cases y <;> first | rfl | contradiction

/-- **Disjoint-envelope shortcut, full equality (on parts)**: for separated operands the matrix of
the specification is `compute_disjoint` of the row maxima of the two operands. -/
theorem relateParts_disjoint_eq {pa pb : Parts} (h : Sep pa pb) (ca : ClosedExt pa) (cb : ClosedExt pb)
    {da ba db bb : Dim}
    (hia : RowMax pa pb .inside da) (hba : RowMax pa pb .onBoundary ba)
    (hib : RowMax pb pa .inside db) (hbb : RowMax pb pa .onBoundary bb)
    (hda : ba ≠ .empty → da ≠ .empty) (hdb : bb ≠ .empty → db ≠ .empty) :
    relateParts pa pb = computeDisjoint da ba db bb := by
  apply IM.ext_get
  intro x y
  have ht : relateParts pa pb = (relateParts pb pa).transpose := relateParts_transpose pb pa
  by_cases hx : x = .outside <;> by_cases hy : y = .outside
  · subst hx; subst hy
    rw [computeDisjoint_ee, relateParts_eq, get_set]; simp
  · subst hx
    rw [ht, transpose_get]
    cases y
    · rw [cell_of_rowMax h.symm cb ca (by decide) hbb, computeDisjoint_eb _ _ _ _ hdb]
    · rw [cell_of_rowMax h.symm cb ca (by decide) hib, computeDisjoint_ei]
    · exact absurd rfl hy
  · subst hy
    cases x
    · rw [cell_of_rowMax h ca cb (by decide) hba, computeDisjoint_be _ _ _ _ hda]
    · rw [cell_of_rowMax h ca cb (by decide) hia, computeDisjoint_ie]
    · exact absurd rfl hx
  · rw [relateParts_sep h ca cb x y hx hy, computeDisjoint_inner _ _ _ _ x y hx hy]

/-! ### parts without areal members -/

theorem locateFace_noAreas {pa : Parts} (ha : pa.areas = []) (e : EPt) : locateFace pa e = .outside := by
  simp [locateFace, ha]

theorem locateParts_lin {pa : Parts} (ha : pa.areas = []) (p : Pt) : locateParts pa p =
    if onAnyCurve pa.curves p then (if esum p pa.curves % 2 == 1 then .onBoundary else .inside)
    else if pa.pts.any (· == p) then .inside else .outside := by
  rw [locateParts_eq]; simp [ha, inAnyPoly, onAnyRing]

theorem exists_endC_of_esum {p : Pt} {cs : List (List Pt)} (h : esum p cs ≠ 0) : ∃ c ∈ cs, endC p c ≠ 0 := by
  induction cs with
  | nil => simp [esum] at h
  | cons c t ih =>
    simp only [esum] at h
    by_cases hc : endC p c = 0
    · obtain ⟨c', h1, h2⟩ := ih (by omega)
      exact ⟨c', List.mem_cons_of_mem _ h1, h2⟩
    · exact ⟨c, by simp, hc⟩

theorem endC_ne_zero {p : Pt} {c : List Pt} (h : endC p c ≠ 0) :
    c.head? ≠ c.getLast? ∧ (c.head? = some p ∨ c.getLast? = some p) := by
  unfold endC at h
  cases hf : c.head? with
  | none => simp [hf] at h
  | some f =>
    cases hl : c.getLast? with
    | none => simp [hf, hl] at h
    | some l =>
      simp only [hf, hl] at h
      by_cases hfl : f = l
      · simp [hfl] at h
      · refine ⟨by simpa using hfl, ?_⟩
        by_cases h1 : p = f
        · left; rw [h1]
        · by_cases h2 : p = l
          · right; rw [h2]
          · simp [hfl, h1, h2] at h

theorem endC_closed {p : Pt} {c : List Pt} (h : c.head? = c.getLast?) : endC p c = 0 := by
  by_contra hc
  exact (endC_ne_zero hc).1 h

theorem length_of_head_ne_last {c : List Pt} (h : c.head? ≠ c.getLast?) : 2 ≤ c.length := by
  match c, h with
  | [], h => simp at h
  | [x], h => simp at h
  | _ :: _ :: _, _ => simp

/-- every coordinate of a curve with at least two coordinates is an end of one of its segments -/
theorem mem_seg_end {c : List Pt} (h2 : 2 ≤ c.length) {x : Pt} (hx : x ∈ c) :
    ∃ s ∈ segs c, x = s.1 ∨ x = s.2 := by
  induction c with
  | nil => cases hx
  | cons a t ih =>
    cases t with
    | nil => simp at h2
    | cons b rest =>
      rcases List.mem_cons.mp hx with rfl | hx
      · exact ⟨(x, b), by simp [segs], Or.inl rfl⟩
      · cases rest with
        | nil =>
          have : x = b := by simpa using hx
          exact ⟨(a, b), by simp [segs], Or.inr this⟩
        | cons c' r =>
          obtain ⟨s, hs, he⟩ := ih (by simp) hx
          exact ⟨s, by simp only [segs, List.mem_cons] at hs ⊢; exact Or.inr hs, he⟩

theorem mem_curveSegs {pa : Parts} {c : List Pt} (hc : c ∈ pa.curves) {s : Pt × Pt} (hs : s ∈ segs c) :
    s ∈ pa.curveSegs := by
  unfold Parts.curveSegs
  exact List.mem_flatMap.mpr ⟨c, hc, hs⟩

theorem curveSegs_sub_allSegs {pa : Parts} {s : Pt × Pt} (hs : s ∈ pa.curveSegs) (pb : Parts) :
    s ∈ pa.allSegs ++ pb.allSegs := by
  unfold Parts.allSegs
  exact List.mem_append_left _ (List.mem_append_left _ hs)

theorem onAnyCurve_of_seg {pa : Parts} {s : Pt × Pt} (hs : s ∈ pa.curveSegs) {p : Pt}
    (hp : SegMem p s.1 s.2) : onAnyCurve pa.curves p = true := by
  rw [← onAnySeg_curveSegs, onAnySeg_iff]
  exact ⟨s, hs, (lineCoord_iff _ _ _).mpr hp⟩

theorem seg_of_onAnyCurve {pa : Parts} {p : Pt} (h : onAnyCurve pa.curves p = true) :
    ∃ s ∈ pa.curveSegs, SegMem p s.1 s.2 := by
  rw [← onAnySeg_curveSegs, onAnySeg_iff] at h
  obtain ⟨s, hs, hl⟩ := h
  exact ⟨s, hs, (lineCoord_iff _ _ _).mp hl⟩

/-- a point counted as an end point of an open curve is a vertex of the arrangement, on a curve -/
theorem of_esum_ne_zero {pa : Parts} (pb : Parts) {p : Pt} (h : esum p pa.curves ≠ 0) :
    p ∈ vertsOf pa pb ∧ onAnyCurve pa.curves p = true := by
  obtain ⟨c, hc, he⟩ := exists_endC_of_esum h
  obtain ⟨hne, hp⟩ := endC_ne_zero he
  have hpc : p ∈ c := by
    rcases hp with hp | hp
    · exact List.mem_of_mem_head? hp
    · exact List.mem_of_mem_getLast? hp
  obtain ⟨s, hs, hps⟩ := mem_seg_end (length_of_head_ne_last hne) hpc
  have hs' := mem_curveSegs hc hs
  obtain ⟨v1, v2⟩ := ends_mem_vertsOf (curveSegs_sub_allSegs hs' pb)
  rcases hps with rfl | rfl
  · exact ⟨v1, onAnyCurve_of_seg hs' (SegMem_left _ _)⟩
  · exact ⟨v2, onAnyCurve_of_seg hs' (SegMem_right _ _)⟩

theorem boundary_lin {pa : Parts} (ha : pa.areas = []) {p : Pt} (h : locateParts pa p = .onBoundary) :
    esum p pa.curves % 2 = 1 := by
  rw [locateParts_lin ha] at h
  split_ifs at h with h1 h2 h3
  simpa using h2

/-- row Boundary of a curve / point operand: `0` if some point is an end point of an odd number of
open curves … -/
theorem rowMax_boundary_lin_zero {pa : Parts} (pb : Parts) (ha : pa.areas = []) {p : Pt}
    (hp : esum p pa.curves % 2 = 1) : RowMax pa pb .onBoundary .zero := by
  obtain ⟨hv, hon⟩ := of_esum_ne_zero (pa := pa) pb (p := p) (by omega)
  constructor
  · right
    refine ⟨_, vertex_atom_mem hv, ?_, rfl⟩
    simp only
    rw [locateParts_lin ha]
    simp [hon, hp]
  · intro x hx hX
    rcases mem_atomsOf_cases hx with ⟨v, _, rfl⟩ | ⟨s, _, _, m, _, hnv, rfl | rfl | rfl⟩
    · simp [Dim.rank]
    · exfalso
      have := boundary_lin ha hX
      exact hnv (of_esum_ne_zero (pa := pa) pb (p := m) (by omega)).1
    · simp only [locateFace_noAreas ha] at hX; cases hX
    · simp only [locateFace_noAreas ha] at hX; cases hX

/-- … and `F` otherwise. -/
theorem rowMax_boundary_lin_empty {pa : Parts} (pb : Parts) (ha : pa.areas = [])
    (h : ∀ p, esum p pa.curves % 2 = 0) : RowMax pa pb .onBoundary .empty := by
  refine ⟨Or.inl rfl, ?_⟩
  intro x hx hX
  exfalso
  rcases mem_atomsOf_cases hx with ⟨v, _, rfl⟩ | ⟨s, _, _, m, _, hnv, rfl | rfl | rfl⟩
  · have := boundary_lin ha hX; have := h v; omega
  · have := boundary_lin ha hX; have := h m; omega
  · simp only [locateFace_noAreas ha] at hX; cases hX
  · simp only [locateFace_noAreas ha] at hX; cases hX

/-- row Interior of a curve / point operand: `1` if it has a non-degenerate segment … -/
theorem rowMax_inside_lin_one {pa : Parts} (pb : Parts) (ha : pa.areas = []) {s : Pt × Pt}
    (hs : s ∈ pa.curveSegs) (hne : s.1 ≠ s.2) : RowMax pa pb .inside .one := by
  obtain ⟨m, hm, hnv, hall⟩ := exists_atoms_of_seg (curveSegs_sub_allSegs hs pb) hne
  constructor
  · right
    refine ⟨_, hall _ (Or.inl rfl), ?_, rfl⟩
    simp only
    rw [locateParts_lin ha]
    have h0 : esum m pa.curves = 0 := by
      by_contra hc
      exact hnv (of_esum_ne_zero pb hc).1
    simp [onAnyCurve_of_seg hs hm, h0]
  · intro x hx hX
    rcases mem_atomsOf_cases hx with ⟨v, _, rfl⟩ | ⟨s, _, _, m, _, hnv, rfl | rfl | rfl⟩
    · simp [Dim.rank]
    · simp [Dim.rank]
    · simp only [locateFace_noAreas ha] at hX; cases hX
    · simp only [locateFace_noAreas ha] at hX; cases hX

theorem head_eq_last_of_deg {c : List Pt} (h : ∀ s ∈ segs c, s.1 = s.2) : c.head? = c.getLast? := by
  induction c with
  | nil => rfl
  | cons a t ih =>
    cases t with
    | nil => rfl
    | cons b rest =>
      have hab : a = b := h (a, b) (by simp [segs])
      have := ih (fun s hs => h s (by simp only [segs, List.mem_cons]; exact Or.inr hs))
      rw [List.getLast?_cons_cons, ← this, hab]
      rfl

theorem esum_zero_of_deg {pa : Parts} (h : ∀ s ∈ pa.curveSegs, s.1 = s.2) (p : Pt) : esum p pa.curves = 0 := by
  by_contra hc
  obtain ⟨c, hcm, he⟩ := exists_endC_of_esum hc
  exact (endC_ne_zero he).1 (head_eq_last_of_deg (fun s hs => h s (mem_curveSegs hcm hs)))

/-- with degenerate segments only, a point that is not a vertex is exterior -/
theorem outside_of_deg {pa : Parts} (pb : Parts) (ha : pa.areas = []) (h : ∀ s ∈ pa.curveSegs, s.1 = s.2)
    {m : Pt} (hnv : m ∉ vertsOf pa pb) : locateParts pa m = .outside := by
  rw [locateParts_lin ha]
  have h1 : ¬ onAnyCurve pa.curves m = true := by
    intro hon
    obtain ⟨s, hs, hm⟩ := seg_of_onAnyCurve hon
    rw [← h s hs, SegMem_degenerate] at hm
    exact hnv (hm ▸ (ends_mem_vertsOf (curveSegs_sub_allSegs hs pb)).1)
  have h2 : ¬ pa.pts.any (· == m) = true := by
    intro hp
    rw [List.any_eq_true] at hp
    obtain ⟨c, hc, hcm⟩ := hp
    rw [beq_iff_eq] at hcm
    exact hnv (hcm ▸ pts_mem_vertsOf hc)
  simp [h1, h2]

/-- … `0` if all its segments are degenerate and it has a point or a (degenerate) segment … -/
theorem rowMax_inside_lin_zero {pa : Parts} (pb : Parts) (ha : pa.areas = [])
    (h : ∀ s ∈ pa.curveSegs, s.1 = s.2) (hne : (∃ c, c ∈ pa.pts) ∨ ∃ s, s ∈ pa.curveSegs) :
    RowMax pa pb .inside .zero := by
  constructor
  · right
    rcases hne with ⟨c, hc⟩ | ⟨s, hs⟩
    · refine ⟨_, vertex_atom_mem (pts_mem_vertsOf (pb := pb) hc), ?_, rfl⟩
      simp only
      rw [locateParts_lin ha, esum_zero_of_deg h]
      have : pa.pts.any (· == c) = true := List.any_eq_true.mpr ⟨c, hc, by simp⟩
      simp [this]
    · refine ⟨_, vertex_atom_mem (ends_mem_vertsOf (curveSegs_sub_allSegs hs pb)).1, ?_, rfl⟩
      simp only
      rw [locateParts_lin ha, esum_zero_of_deg h]
      simp [onAnyCurve_of_seg hs (SegMem_left _ _)]
  · intro x hx hX
    rcases mem_atomsOf_cases hx with ⟨v, _, rfl⟩ | ⟨s, _, _, m, _, hnv, rfl | rfl | rfl⟩
    · simp [Dim.rank]
    · simp only [outside_of_deg pb ha h hnv] at hX; cases hX
    · simp only [locateFace_noAreas ha] at hX; cases hX
    · simp only [locateFace_noAreas ha] at hX; cases hX

/-- … and `F` if it has neither points nor segments. -/
theorem rowMax_inside_lin_empty {pa : Parts} (pb : Parts) (ha : pa.areas = [])
    (hp : pa.pts = []) (hs : pa.curveSegs = []) : RowMax pa pb .inside .empty := by
  refine ⟨Or.inl rfl, ?_⟩
  intro x hx hX
  exfalso
  have hout : ∀ p, locateParts pa p = .outside := by
    intro p
    rw [locateParts_lin ha]
    have h1 : ¬ onAnyCurve pa.curves p = true := by
      intro hon
      obtain ⟨s, hs', _⟩ := seg_of_onAnyCurve hon
      rw [hs] at hs'; cases hs'
    simp [h1, hp]
  rcases mem_atomsOf_cases hx with ⟨v, _, rfl⟩ | ⟨s, _, _, m, _, hnv, rfl | rfl | rfl⟩
  · simp only [hout] at hX; cases hX
  · simp only [hout] at hX; cases hX
  · simp only [locateFace_noAreas ha] at hX; cases hX
  · simp only [locateFace_noAreas ha] at hX; cases hX

end Geo.Proofs.Spec
