/-
  C02X — table of the 100 ordered type pairs (placeholder header, replaced below)
-/
import GeoModel.Intersects
import GeoModel.Contains

namespace Geo.Proofs.C02X
end Geo.Proofs.C02X
