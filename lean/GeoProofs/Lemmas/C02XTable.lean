/-
  C02X — the 100 ordered type pairs × {intersects, contains}: which model term `intersectsM` / `containsM`
  (GeoModel/{Intersects,Contains}.lean, one term per Rust impl body) the dispatch reaches, and whether
  "model = the documented mask on the DE-9IM specification `relateSpec`, on the validity domain
  (`inDomain` of GeoModel/Valid.lean)" is PROVED (theorem of GeoProofs/Props/C02.lean), or OPEN (decided by the
  three-way correspondence only: implementation = model and implementation = specification on every generated case).

  Types: Pt Ln LS Pg MPt MLS MPg Rc Tr GC.   `within(a, b) = contains(b, a)` (`within_def`), so the within table is
  the transpose of the contains table.

  Status codes
    P*  proved for all inputs (no validity hypothesis)
    P   proved on the validity domain
    P°  proved on the domain when the collection operand has no areal member (`thin`), else OPEN
    O   open (correspondence only); every bounding-box early return on the path is proved sound
        (`disjointBB_sound_point` / `disjointBB_sound_spec` / `polyPoly_shortcut_sound`); for the areal pairs one
        direction is proved (`intersectsM_areal_sound`: `true` ⇒ the mask holds), what the body computes is characterised
        exactly (`polyPoly_iff_boundary`), and the equality is proved modulo one named step
        (`intersectsM_polygon_polygon_partial`)

  ──────────────────────────────────────────────────────────────────────────────────────────────────────────────
  INTERSECTS   `intersectsM a b`: the left operand is split into pieces, each piece asks `Y: Intersects<piece>`
               (`vsPiece b piece`) of the right operand, which splits `Y` and reaches a kernel.
  ──────────────────────────────────────────────────────────────────────────────────────────────────────────────
  a \ b │ Pt          Ln          LS          Pg          MPt         MLS         MPg         Rc          Tr          GC
  ──────┼───────────────────────────────────────────────────────────────────────────────────────────────────────
  Pt    │ c'==c       lineCoord   lsCoord     polyCoord   any ==      any lsCoord any polyCo. rectCoord   triCoord    isxColl
        │ P           P           P           P           P           P           P           P           P           P
        │   `intersectsM_point_geom` (through `intersectsM_point_symm` [P*] and `intersectsM_geom_point`)
  Ln    │ lineCoord   lineLine    lsLine      polyLine    any lineCo. any lsLine  any polyLi. rectLine    polyLine∘   isxColl
        │ P           P*          P*          P           P           P*          P           P           P           P
  LS    │ bbox; any segment s of a: the Ln row with s        (per cell the same kernels as the Ln row)
        │ P           P*          P*          P           P           P*          P           P           P           P
  MLS   │ bbox; any member (bbox; any segment): the Ln row
        │ P           P*          P*          P           P           P*          P           P           P           P
  MPt   │ any point c of a: the Pt row with c
        │ P           P           P           P           P           P           P           P           P           P
        │   rows Ln, LS, MLS, MPt: `intersectsM_eq_spec_partial` (left operand thin); the nine linear cells also
        │   `intersectsM_linear_eq_spec` [P*], as segment pairs `intersectsM_linear_iff`
  Pg    │ polyCoord   polyLine    lsPoly      polyPoly    any polyCo. any lsPoly  any polyPo. polyPoly◦   polyPoly∘   isxColl
        │ P           P           P           O           P           P           O           O           O           P°
  Rc    │ rectCoord   rectLine    any rectLi. polyPoly◦   any rectCo. any(rectLi) any polyPo◦ rectRect    polyPoly∘◦  isxColl
        │ P           P           P           O           P           P           O           P           O           P°
  Tr    │ triCoord    polyLine∘   any polyL∘  polyPoly∘   any triCo.  any(polyL∘) any polyPo∘ polyPoly∘◦  polyPoly∘∘  isxColl
        │ P           P           P           O           P           P           O           O           O           P°
  MPg   │ bbox; any member polygon q of a: the Pg row with q
        │ P           P           P           O           P           P           O           O           O           P°
  GC    │ bbox; any member g of a: `intersectsM g b` (nested collections recurse)
        │ P           P           P           P°          P           P           P°          P°          P°          P°
        │   rows Pg, Rc, Tr, MPg, GC with a thin right operand: `intersectsM_eq_spec_partial` (right operand thin);
        │   Rc × Rc: `intersectsM_rect_rect_eq_spec`
  (∘ = through `Triangle::to_polygon`, ◦ = through `Rect::to_polygon`; lsCoord = `lineStringCoord`;
   polyPoly p q = bbox; lsPoly q.ext p || any hole r of q: lsPoly r p || lsPoly p.ext q;  lsPoly cs p = bbox; any polyLine p s)

  Summary intersects: 76 cells P / P* (all pairs with an operand among Pt, Ln, LS, MPt, MLS; Rc × Rc), 9 cells P°
  (collection operand), 15 cells O = {Pg, MPg, Rc, Tr}² \ {Rc × Rc}, the pairs that run the `Polygon × Polygon` body.
  What makes the proved cells work: "not `FF*FF****`" on the specification ⇔ the operands have a common point
  (`isIntersects_iff_common_point_dom`), and every kernel except `polyPoly` is a point-set statement
  (`lineCoord_iff`, `lineLine_iff`, `polyLine_iff`, `rectLine_iff`, `triLine_iff`, `rectRect_iff`, the `coordinate_position`
  theorems). For `polyPoly` the missing step is "two valid polygons with a common point and disjoint boundaries: the
  shell of one has a vertex in the other" (connectedness of a valid polygon), not attempted.

  ──────────────────────────────────────────────────────────────────────────────────────────────────────────────
  CONTAINS     `containsM a b`
  ──────────────────────────────────────────────────────────────────────────────────────────────────────────────
  b = Pt (10 cells)            `containsCoord a c` (per type: ==, lineContainsCoord, lsContainsCoord, polyContainsCoord,
                               any ==, mlsContainsPoint, any polyContainsCoord, rectContainsCoord, triContainsCoord,
                               any member)                                        P   `containsM_geom_point`
                               (and `Point.is_within(a)`:                         P   `withinM_point_geom`)
  a = Pt, b ≠ Pt (9 cells)     `pointContains p b` ("b non-empty, every coordinate = p")      O  (would follow from the containment
                               analogue of `isIntersects_iff_common_point`: "`EI = EB = F` ⇔ every point of b lies in a"; that needs
                               a real point beside a face sample, not attempted)
  Ln × Ln                      `lineContainsLine`      O as a mask; point-set form P* (`lineContainsLine_iff_subset`,
                                                       `lineContainsLine_degenerate`)
  Ln × LS, LS × Ln, LS × LS    `lineContainsLineString`, `lsContainsLine`, `lsContainsLs`     O
  MPg × MPt                    `mpolyContainsMultiPoint` (no point Outside, one Inside)       O
  MPg × {Ln LS Pg MLS MPg Rc Tr GC} (8 cells)  `rhs.relate(self).is_within()`                 P*  `containsM_multiPolygon_via_relate`
  Rc × Rc                      `rectContainsRect`      O as a mask (false for degenerate operands, K7:
                                                       `rectContainsRect_degenerate_witness`); point-set form P (`rectContainsRect_iff`)
  Rc × Pg                      `rectContainsPolygon`                                          O
  the remaining 66 cells       `impl_contains_from_relate!`: `relate(a, b).is_contains()`     P*  `containsM_via_relate`
                               (the mask on the matrix by definition; that `relate` computes the specification's matrix is C01)

  coordinate_position (10 types): P `coordPos_eq_locate_dom_partial` — every type and every collection of the domain, away from
  the open known finding K9 (MultiLineString end point shared by an even number of open members).
-/
import GeoProofs.Lemmas.C02XPairs

set_option linter.unusedSimpArgs false
set_option linter.unusedVariables false

namespace Geo.Proofs.C02X
open Geo Geo.Proofs.Kernel Geo.Proofs.Spec

/-! ### the kernel terms of the fifteen open `intersects` cells -/

/-- the pairs of areal types all run the `Polygon × Polygon` body (through `to_polygon` for Rect and Triangle) -/
theorem dispatch_areal (p q : Poly) (mn mx bmn bmx t0 t1 t2 u0 u1 u2 : Pt) :
    intersectsM (.polygon p) (.polygon q) = polyPoly q p ∧
    intersectsM (.polygon p) (.rect mn mx) = polyPoly p (rectPoly mn mx) ∧
    intersectsM (.polygon p) (.triangle t0 t1 t2) = polyPoly p (triPoly t0 t1 t2) ∧
    intersectsM (.rect mn mx) (.polygon p) = polyPoly p (rectPoly mn mx) ∧
    intersectsM (.rect mn mx) (.triangle t0 t1 t2) = polyPoly (triPoly t0 t1 t2) (rectPoly mn mx) ∧
    intersectsM (.rect mn mx) (.rect bmn bmx) = rectRect bmn bmx mn mx ∧
    intersectsM (.triangle t0 t1 t2) (.polygon p) = polyPoly p (triPoly t0 t1 t2) ∧
    intersectsM (.triangle t0 t1 t2) (.rect mn mx) = polyPoly (triPoly t0 t1 t2) (rectPoly mn mx) ∧
    intersectsM (.triangle t0 t1 t2) (.triangle u0 u1 u2) = polyPoly (triPoly u0 u1 u2) (triPoly t0 t1 t2) := by
  refine ⟨?_, ?_, ?_, ?_, ?_, ?_, ?_, ?_, ?_⟩ <;>
    simp only [intersectsM, vsPiece, isxFlat, polyX, rectX, triX]

/-! ### the bounding-box shortcut of `Polygon × Polygon`, also through `to_polygon` -/

/-- a hole-free polygon on a closed ring has the facts the bounding-box soundness needs -/
theorem domFacts_ringPoly (r : List Pt) (hc : r.head? = r.getLast?) : DomFacts (.polygon ⟨r, []⟩) where
  rects := rfl
  boxed := by
    intro c hc'
    apply Hull.self
    simpa [allCoords, parts, Poly.rings, exteriorCoords] using hc'
  closed := by
    intro q hq r' hr'
    simp only [parts, List.mem_singleton] at hq
    subst hq
    simp only [Poly.rings, List.mem_singleton] at hr'
    rw [hr']; exact hc

theorem domFacts_rectPoly (mn mx : Pt) : DomFacts (.polygon (rectPoly mn mx)) := domFacts_ringPoly _ rfl
theorem domFacts_triPoly (a b c : Pt) : DomFacts (.polygon (triPoly a b c)) := domFacts_ringPoly _ rfl

/-- **the early return of `Polygon: Intersects<Polygon>` loses nothing**: when it fires, `polyPoly` is `false` and
the two polygons have no common point (operands: polygons of the domain, `Rect::to_polygon`, `Triangle::to_polygon`) -/
theorem polyPoly_shortcut (p q : Poly) (fp : DomFacts (.polygon p)) (fq : DomFacts (.polygon q))
    (h : disjointBB (.polygon p) (.polygon q) = true) :
    polyPoly p q = false ∧ ∀ x, locate (.polygon p) x = .outside ∨ locate (.polygon q) x = .outside := by
  refine ⟨?_, disjointBB_facts fp fq h⟩
  unfold polyPoly
  rw [if_pos h]

/-! ### `contains` through `relate` -/

/-- the pairs whose `Contains` impl is `impl_contains_from_relate!` -/
def viaRelate : Geom → Geom → Bool
  | _, .point _ => false
  | .point _, _ => false
  | .line _ _, .line _ _ => false
  | .line _ _, .lineString _ => false
  | .lineString _, .line _ _ => false
  | .lineString _, .lineString _ => false
  | .multiPolygon _, _ => false
  | .rect _ _, .rect _ _ => false
  | .rect _ _, .polygon _ => false
  | _, _ => true

/-- the 66 cells of `impl_contains_from_relate!`: the mask `T*****FF*` on the matrix, by definition -/
theorem containsM_via_relate (a b : Geom) (h : viaRelate a b = true) :
    containsM a b = Gen.isContains (relateSpec a b) := by
  cases a <;> cases b <;> simp only [viaRelate, Bool.false_eq_true] at h <;> rfl

/-- `MultiPolygon: Contains<X>` for linear / areal `X` is `rhs.relate(self).is_within()`: the mask `T*****FF*` on the
matrix of `(self, rhs)` (within is contains on the transpose) -/
theorem containsM_multiPolygon_via_relate (ps : List Poly) (b : Geom)
    (hb : match b with | .point _ | .multiPoint _ => false | _ => true) :
    containsM (.multiPolygon ps) b = Gen.isContains (relateSpec (.multiPolygon ps) b) := by
  have ht : relateSpec (.multiPolygon ps) b = (relateSpec b (.multiPolygon ps)).transpose :=
    relateParts_transpose (parts b) (parts (.multiPolygon ps))
  have hw : ∀ m : IM, Gen.isWithin m = Gen.isContains m.transpose := by intro m; cases m; rfl
  rw [ht, ← hw]
  cases b <;> simp only [Bool.false_eq_true] at hb <;> rfl

end Geo.Proofs.C02X
