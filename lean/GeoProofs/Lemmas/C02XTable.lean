/-
  C02X — the 100 ordered type pairs × {intersects, contains}: which model term `intersectsM` / `containsM`
  (GeoModel/{Intersects,Contains}.lean, one term per Rust impl body) the dispatch reaches, and whether
  "model = the documented mask on the DE-9IM specification `relateSpec`, on the validity domain
  (`inDomain` of GeoModel/Valid.lean)" is PROVED (theorem of GeoProofs/Props/C02.lean), or OPEN (decided by the
  three-way correspondence only: implementation = model and implementation = specification on every generated case).

  Types: Pt Ln LS Pg MPt MLS MPg Rc Tr GC.   `within(a, b) = contains(b, a)` (`within_def`), so the within table is
  the transpose of the contains table.

  Status codes
    P*  proved for all inputs (no validity hypothesis)
    P   proved on the validity domain
    P°  proved on the validity domain outside one named class of inputs (stated with the cell; `…_partial` theorems)
    O   open (correspondence only)
  (C02Y: the cells that were O / P° for `intersects` — the 15 areal × areal pairs and collections with areal members — are
   now P: `Geo.Proofs.C02Y.polyPoly_common` proves the connectedness step from `polyValid` through C07X
   (`disjoint_of_ext_disjoint`), `Geo.Proofs.C02Y.intersectsM_common_all` repeats the dispatch without the `thin` hypothesis.)

  ──────────────────────────────────────────────────────────────────────────────────────────────────────────────
  INTERSECTS   `intersectsM a b`: the left operand is split into pieces, each piece asks `Y: Intersects<piece>`
               (`vsPiece b piece`) of the right operand, which splits `Y` and reaches a kernel.
  ──────────────────────────────────────────────────────────────────────────────────────────────────────────────
  a \ b │ Pt          Ln          LS          Pg          MPt         MLS         MPg         Rc          Tr          GC
  ──────┼───────────────────────────────────────────────────────────────────────────────────────────────────────
  Pt    │ c'==c       lineCoord   lsCoord     polyCoord   any ==      any lsCoord any polyCo. rectCoord   triCoord    isxColl
        │ P           P           P           P           P           P           P           P           P           P
        │   `intersectsM_point_geom` (through `intersectsM_point_symm` [P*] and `intersectsM_geom_point`)
  Ln    │ lineCoord   lineLine    lsLine      polyLine    any lineCo. any lsLine  any polyLi. rectLine    polyLine∘   isxColl
        │ P           P*          P*          P           P           P*          P           P           P           P
  LS    │ bbox; any segment s of a: the Ln row with s        (per cell the same kernels as the Ln row)
        │ P           P*          P*          P           P           P*          P           P           P           P
  MLS   │ bbox; any member (bbox; any segment): the Ln row
        │ P           P*          P*          P           P           P*          P           P           P           P
  MPt   │ any point c of a: the Pt row with c
        │ P           P           P           P           P           P           P           P           P           P
        │   rows Ln, LS, MLS, MPt: `intersectsM_eq_spec_partial` (left operand thin); the nine linear cells also
        │   `intersectsM_linear_eq_spec` [P*], as segment pairs `intersectsM_linear_iff`
  Pg    │ polyCoord   polyLine    lsPoly      polyPoly    any polyCo. any lsPoly  any polyPo. polyPoly◦   polyPoly∘   isxColl
        │ P           P           P           P           P           P           P           P           P           P
  Rc    │ rectCoord   rectLine    any rectLi. polyPoly◦   any rectCo. any(rectLi) any polyPo◦ rectRect    polyPoly∘◦  isxColl
        │ P           P           P           P           P           P           P           P           P           P
  Tr    │ triCoord    polyLine∘   any polyL∘  polyPoly∘   any triCo.  any(polyL∘) any polyPo∘ polyPoly∘◦  polyPoly∘∘  isxColl
        │ P           P           P           P           P           P           P           P           P           P
  MPg   │ bbox; any member polygon q of a: the Pg row with q
        │ P           P           P           P           P           P           P           P           P           P
  GC    │ bbox; any member g of a: `intersectsM g b` (nested collections recurse)
        │ P           P           P           P           P           P           P           P           P           P
        │   all rows: `intersectsM_eq_spec` / `intersectsM_iff_common` / `intersectsM_symm` (Props/C02, from
        │   `Geo.Proofs.C02Y.intersectsM_all_eq_spec`); Rc × Rc also `intersectsM_rect_rect_eq_spec`
  (∘ = through `Triangle::to_polygon`, ◦ = through `Rect::to_polygon`; lsCoord = `lineStringCoord`;
   polyPoly p q = bbox; lsPoly q.ext p || any hole r of q: lsPoly r p || lsPoly p.ext q;  lsPoly cs p = bbox; any polyLine p s)

  Summary intersects: 100 cells P / P* — every pair of the validity domain, collections (nested, with areal members) included.
  What makes it work: "not `FF*FF****`" on the specification ⇔ the operands have a common point
  (`isIntersects_iff_common_point_dom`), and every kernel is a point-set statement (`lineCoord_iff`, `lineLine_iff`,
  `polyLine_iff`, `rectLine_iff`, `triLine_iff`, `rectRect_iff`, the `coordinate_position` theorems, and for `polyPoly`
  `polyPoly_iff_common`: what the body computes is `polyPoly_iff_boundary`, and "two valid polygons (or `to_polygon` of a
  Rect / Triangle) with a common point: a ring point of one lies in the other or a shell point of the other in the first"
  is `valid_polygons_boundary_meets`, the contrapositive of C07X's `disjoint_of_ext_disjoint` — `nested_rings`,
  `exterior_rings`, `windingE_const`).

  ──────────────────────────────────────────────────────────────────────────────────────────────────────────────
  CONTAINS     `containsM a b`
  ──────────────────────────────────────────────────────────────────────────────────────────────────────────────
  b = Pt (10 cells)            `containsCoord a c` (per type: ==, lineContainsCoord, lsContainsCoord, polyContainsCoord,
                               any ==, mlsContainsPoint, any polyContainsCoord, rectContainsCoord, triContainsCoord,
                               any member)                                        P   `containsM_geom_point`
                               (and `Point.is_within(a)`:                         P   `withinM_point_geom`)
  a = Pt, b ≠ Pt (9 cells)     `pointContains p b` ("b non-empty, every coordinate = p")      P   `containsM_point_geom`
                               (nested collections included; outside the domain false: a one-coordinate LineString `[p]` is
                               "contained" by the code and has no point in the specification, `pointContains_one_coordinate_witness`)
  Ln × Ln                      `lineContainsLine`                                             P   `containsM_line_line`
                               (point-set form P*: `lineContainsLine_iff_subset`, `lineContainsLine_degenerate`)
  Ln × LS                      `lineContainsLineString`                                       P   `containsM_line_lineString`
  LS × Ln                      `lsContainsLine` (two-pass truncation loop)                    P°  `containsM_lineString_line_noWrap_partial`
                               (C02Z) the specification side is P* (`isContains_lineString_line`: the mask ⇔ every point of the
                               segment is on the line string); the loop has no false positive (P*, `containsM_lineString_line_sound`,
                               invariant `Geo.Proofs.C02Y.Inv` of `cutStep`); COMPLETENESS (`lsContainsLine_iff_partial`,
                               `Geo.Proofs.C02Z.sweep`): on a valid line string the FIRST pass answers `true` whenever the segment lies
                               on the line string — for every open line string (`containsM_lineString_line_open_partial`) and every
                               closed one whose first coordinate is not strictly inside the query (`Geo.Proofs.C02Z.noWrap`).
                               ° excluded, correspondence only: closed line string whose first edge continues the last, the query
                               through the closure point — only the second pass (`i < num_lines + first_cut`) finishes there
                               (`lineString_line_wrap_witness`: the class is not empty, the code is right on the witness)
  LS × LS                      `lsContainsLs` (proper segments of the argument → LS × Ln)     P°  `containsM_lineString_lineString_noWrap_partial`
                               (C02Z) reduced to the loop for ALL valid operands (`containsM_lineString_lineString_loop_partial`:
                               the mask ⇔ a point interior to both and every point of `ds` on `cs`; zero-length segments of the argument
                               add no point, fix f55ddeac); ° the same exclusion per proper segment of the argument (`noWrapLs`)
  MPg × MPt                    `mpolyContainsMultiPoint` (no point Outside, one Inside)       P   `containsM_multiPolygon_multiPoint`
  MPg × {Ln LS Pg MLS MPg Rc Tr GC} (8 cells)  `rhs.relate(self).is_within()`                 P*  `containsM_multiPolygon_via_relate`
  Rc × Rc                      `rectContainsRect`                                             P   `containsM_rect_rect`
                               (false for degenerate operands, K7: `rectContainsRect_degenerate_witness`; point-set form
                               `rectContainsRect_iff`)
  Rc × Pg                      `rectContainsPolygon`                                          P°  `containsM_rect_polygon_partial`
                               (C02Z) Rect of positive width and height (K7), polygon empty or OGC-valid (holes included): exterior
                               coordinate outside the Rect ⇒ a vertex located in B and outside A; all inside ⇒ every point and every
                               face sample of the polygon is in the Rect (`windingE_in_box`: winding number about a perturbed point
                               beside the coordinate box) and a face sample beside a shell edge is interior to both.
                               P at full strength when some exterior coordinate is strictly inside the Rect
                               (`containsM_rect_polygon_inner_partial`); ° otherwise (all exterior coordinates on the boundary of the
                               Rect) under the hypothesis "valid ⇒ signed area ≠ 0" (`harea`; not proved, correspondence only)
  the remaining 66 cells       `impl_contains_from_relate!`: `relate(a, b).is_contains()`     P*  `containsM_via_relate`
                               (the mask on the matrix by definition; that `relate` computes the specification's matrix is C01)

  Summary contains: 97 cells P / P* (74 by definition through `relate`), 3 cells P° (C02Z: LS × Ln, LS × LS — all inputs but
  "closed line string, query through the closure point"; Rc × Pg — all inputs but "every exterior coordinate on the boundary of the
  Rect", there modulo `valid ⇒ signed area ≠ 0`); no cell is left to the correspondence alone.
  What makes the proved hand-written cells work: for a second operand without areal member the mask `T*****FF*` on the
  specification is a point-set statement (`isContains_iff_point_set`: some point interior to both, every point of B in A —
  face samples are outside such a B); for Rect × Rect the face samples are located exactly (`rect_windingE`).

  coordinate_position (10 types): P `coordPos_eq_locate_dom_partial` — every type and every collection of the domain, away from
  the open known finding K9 (MultiLineString end point shared by an even number of open members).
-/
import GeoProofs.Lemmas.C02XPairs

set_option linter.unusedSimpArgs false
set_option linter.unusedVariables false

namespace Geo.Proofs.C02X
open Geo Geo.Proofs.Kernel Geo.Proofs.Spec

/-! ### the kernel terms of the fifteen open `intersects` cells -/

/-- the pairs of areal types all run the `Polygon × Polygon` body (through `to_polygon` for Rect and Triangle) -/
theorem dispatch_areal (p q : Poly) (mn mx bmn bmx t0 t1 t2 u0 u1 u2 : Pt) :
    intersectsM (.polygon p) (.polygon q) = polyPoly q p ∧
    intersectsM (.polygon p) (.rect mn mx) = polyPoly p (rectPoly mn mx) ∧
    intersectsM (.polygon p) (.triangle t0 t1 t2) = polyPoly p (triPoly t0 t1 t2) ∧
    intersectsM (.rect mn mx) (.polygon p) = polyPoly p (rectPoly mn mx) ∧
    intersectsM (.rect mn mx) (.triangle t0 t1 t2) = polyPoly (triPoly t0 t1 t2) (rectPoly mn mx) ∧
    intersectsM (.rect mn mx) (.rect bmn bmx) = rectRect bmn bmx mn mx ∧
    intersectsM (.triangle t0 t1 t2) (.polygon p) = polyPoly p (triPoly t0 t1 t2) ∧
    intersectsM (.triangle t0 t1 t2) (.rect mn mx) = polyPoly (triPoly t0 t1 t2) (rectPoly mn mx) ∧
    intersectsM (.triangle t0 t1 t2) (.triangle u0 u1 u2) = polyPoly (triPoly u0 u1 u2) (triPoly t0 t1 t2) := by
  refine ⟨?_, ?_, ?_, ?_, ?_, ?_, ?_, ?_, ?_⟩ <;>
    simp only [intersectsM, vsPiece, isxFlat, polyX, rectX, triX]

/-! ### the bounding-box shortcut of `Polygon × Polygon`, also through `to_polygon` -/

/-- a hole-free polygon on a closed ring has the facts the bounding-box soundness needs -/
theorem domFacts_ringPoly (r : List Pt) (hc : r.head? = r.getLast?) : DomFacts (.polygon ⟨r, []⟩) where
  rects := rfl
  boxed := by
    intro c hc'
    apply Hull.self
    simpa [allCoords, parts, Poly.rings, exteriorCoords] using hc'
  closed := by
    intro q hq r' hr'
    simp only [parts, List.mem_singleton] at hq
    subst hq
    simp only [Poly.rings, List.mem_singleton] at hr'
    rw [hr']; exact hc

theorem domFacts_rectPoly (mn mx : Pt) : DomFacts (.polygon (rectPoly mn mx)) := domFacts_ringPoly _ rfl
theorem domFacts_triPoly (a b c : Pt) : DomFacts (.polygon (triPoly a b c)) := domFacts_ringPoly _ rfl

/-- **the early return of `Polygon: Intersects<Polygon>` loses nothing**: when it fires, `polyPoly` is `false` and
the two polygons have no common point (operands: polygons of the domain, `Rect::to_polygon`, `Triangle::to_polygon`) -/
theorem polyPoly_shortcut (p q : Poly) (fp : DomFacts (.polygon p)) (fq : DomFacts (.polygon q))
    (h : disjointBB (.polygon p) (.polygon q) = true) :
    polyPoly p q = false ∧ ∀ x, locate (.polygon p) x = .outside ∨ locate (.polygon q) x = .outside := by
  refine ⟨?_, disjointBB_facts fp fq h⟩
  unfold polyPoly
  rw [if_pos h]

/-! ### `contains` through `relate` -/

/-- the pairs whose `Contains` impl is `impl_contains_from_relate!` -/
def viaRelate : Geom → Geom → Bool
  | _, .point _ => false
  | .point _, _ => false
  | .line _ _, .line _ _ => false
  | .line _ _, .lineString _ => false
  | .lineString _, .line _ _ => false
  | .lineString _, .lineString _ => false
  | .multiPolygon _, _ => false
  | .rect _ _, .rect _ _ => false
  | .rect _ _, .polygon _ => false
  | _, _ => true

/-- the 66 cells of `impl_contains_from_relate!`: the mask `T*****FF*` on the matrix, by definition -/
theorem containsM_via_relate (a b : Geom) (h : viaRelate a b = true) :
    containsM a b = Gen.isContains (relateSpec a b) := by
  cases a <;> cases b <;> simp only [viaRelate, Bool.false_eq_true] at h <;> rfl

/-- `MultiPolygon: Contains<X>` for linear / areal `X` is `rhs.relate(self).is_within()`: the mask `T*****FF*` on the
matrix of `(self, rhs)` (within is contains on the transpose) -/
theorem containsM_multiPolygon_via_relate (ps : List Poly) (b : Geom)
    (hb : match b with | .point _ | .multiPoint _ => false | _ => true) :
    containsM (.multiPolygon ps) b = Gen.isContains (relateSpec (.multiPolygon ps) b) := by
  have ht : relateSpec (.multiPolygon ps) b = (relateSpec b (.multiPolygon ps)).transpose :=
    relateParts_transpose (parts b) (parts (.multiPolygon ps))
  have hw : ∀ m : IM, Gen.isWithin m = Gen.isContains m.transpose := by intro m; cases m; rfl
  rw [ht, ← hw]
  cases b <;> simp only [Bool.false_eq_true] at hb <;> rfl

end Geo.Proofs.C02X
