/-
  C08 helper lemmas — the binary64 rounding model `roundF64` (GeoModel/Hull.lean) is monotone and
  fixes 0. With C08QRound.lean this gives `DistExactPivot roundF64` outside the SKIP class
  `grahamTie`, hence global correctness of the Graham scan with `f64` distances there.
-/
import GeoModel.Hull
import Mathlib.Tactic.Linarith
import Mathlib.Tactic.Ring
import Mathlib.Tactic.NormNum
import Mathlib.Tactic.FieldSimp
import Mathlib.Tactic.Positivity
import Mathlib.Algebra.Order.Field.Power

namespace Geo.Proofs.C08
open Geo Geo.Hull

theorem pow2_eq_zpow (e : Int) : pow2 e = (2 : Rat) ^ e := by
  unfold pow2
  split
  · rename_i h
    obtain ⟨n, rfl⟩ := Int.eq_ofNat_of_zero_le h
    simp
  · rename_i h
    obtain ⟨n, rfl⟩ := Int.exists_eq_neg_ofNat (by omega : e ≤ 0)
    simp

theorem floorLog2_spec (a : Rat) (ha : 0 < a) :
    (2 : Rat) ^ (floorLog2 a) ≤ a ∧ a < (2 : Rat) ^ (floorLog2 a + 1) := by
  have hnum : 0 < a.num := Rat.num_pos.2 ha
  obtain ⟨n, hn⟩ := Int.eq_ofNat_of_zero_le (le_of_lt hnum)
  have hn0 : n ≠ 0 := by intro h; rw [h] at hn; simp [hn] at hnum
  have hd0 : a.den ≠ 0 := a.den_ne_zero
  have hnat : a.num.natAbs = n := by rw [hn]; simp
  have had : a * (a.den : Rat) = (n : Rat) := by
    have h := Rat.num_div_den a
    rw [hn] at h
    have hdpos : (0 : Rat) < a.den := by exact_mod_cast Nat.pos_of_ne_zero hd0
    have : ((n : Int) : Rat) = (n : Rat) := by simp
    rw [this] at h
    rw [div_eq_iff (ne_of_gt hdpos)] at h
    exact h.symm
  have hdpos : (0 : Rat) < a.den := by exact_mod_cast Nat.pos_of_ne_zero hd0
  have h1 : ((2 : Rat) ^ (n.log2 : Int)) ≤ (n : Rat) := by
    rw [zpow_natCast]; exact_mod_cast Nat.log2_self_le hn0
  have h2 : (n : Rat) < (2 : Rat) ^ ((n.log2 : Int) + 1) := by
    have : (n : Rat) < (2 : Rat) ^ (n.log2 + 1) := by exact_mod_cast (Nat.lt_log2_self (n := n))
    rw [← zpow_natCast] at this
    simpa using this
  have h3 : ((2 : Rat) ^ (a.den.log2 : Int)) ≤ (a.den : Rat) := by
    rw [zpow_natCast]; exact_mod_cast Nat.log2_self_le hd0
  have h4 : (a.den : Rat) < (2 : Rat) ^ ((a.den.log2 : Int) + 1) := by
    have : (a.den : Rat) < (2 : Rat) ^ (a.den.log2 + 1) := by
      exact_mod_cast (Nat.lt_log2_self (n := a.den))
    rw [← zpow_natCast] at this
    simpa using this
  have two_ne : (2 : Rat) ≠ 0 := by norm_num
  -- upper bound
  have hU : a < (2 : Rat) ^ ((n.log2 : Int) - (a.den.log2 : Int) + 1) := by
    have e1 : (2 : Rat) ^ ((n.log2 : Int) - (a.den.log2 : Int) + 1) * (2 : Rat) ^ (a.den.log2 : Int)
        = (2 : Rat) ^ ((n.log2 : Int) + 1) := by
      rw [← zpow_add₀ two_ne]; congr 1; ring
    have hP : (0 : Rat) < (2 : Rat) ^ ((n.log2 : Int) - (a.den.log2 : Int) + 1) := by positivity
    have : a * (a.den : Rat) < (2 : Rat) ^ ((n.log2 : Int) - (a.den.log2 : Int) + 1) * (a.den : Rat) := by
      calc a * (a.den : Rat) = n := had
        _ < (2 : Rat) ^ ((n.log2 : Int) + 1) := h2
        _ = (2 : Rat) ^ ((n.log2 : Int) - (a.den.log2 : Int) + 1) * (2 : Rat) ^ (a.den.log2 : Int) := e1.symm
        _ ≤ (2 : Rat) ^ ((n.log2 : Int) - (a.den.log2 : Int) + 1) * (a.den : Rat) :=
            mul_le_mul_of_nonneg_left h3 (le_of_lt hP)
    exact lt_of_mul_lt_mul_right this (le_of_lt hdpos)
  have hL : (2 : Rat) ^ ((n.log2 : Int) - (a.den.log2 : Int) - 1) ≤ a := by
    have e1 : (2 : Rat) ^ ((n.log2 : Int) - (a.den.log2 : Int) - 1) * (2 : Rat) ^ ((a.den.log2 : Int) + 1)
        = (2 : Rat) ^ (n.log2 : Int) := by
      rw [← zpow_add₀ two_ne]; congr 1; ring
    have hQ : (0 : Rat) < (2 : Rat) ^ ((a.den.log2 : Int) + 1) := by positivity
    have : (2 : Rat) ^ ((n.log2 : Int) - (a.den.log2 : Int) - 1) * (2 : Rat) ^ ((a.den.log2 : Int) + 1)
        ≤ a * (2 : Rat) ^ ((a.den.log2 : Int) + 1) := by
      calc _ = (2 : Rat) ^ (n.log2 : Int) := e1
        _ ≤ n := h1
        _ = a * (a.den : Rat) := had.symm
        _ ≤ a * (2 : Rat) ^ ((a.den.log2 : Int) + 1) :=
            mul_le_mul_of_nonneg_left (le_of_lt h4) (le_of_lt ha)
    exact le_of_mul_le_mul_right this hQ
  unfold floorLog2
  dsimp only
  rw [hnat, pow2_eq_zpow]
  split
  · rename_i h; exact ⟨h, hU⟩
  · rename_i h
    refine ⟨hL, ?_⟩
    have : (n.log2 : Int) - (a.den.log2 : Int) - 1 + 1 = (n.log2 : Int) - (a.den.log2 : Int) := by ring
    rw [this]; exact not_le.1 h

theorem floorLog2_mono {a b : Rat} (ha : 0 < a) (hab : a ≤ b) : floorLog2 a ≤ floorLog2 b := by
  have h1 := (floorLog2_spec a ha).1
  have h2 := (floorLog2_spec b (lt_of_lt_of_le ha hab)).2
  have : (2 : Rat) ^ floorLog2 a < (2 : Rat) ^ (floorLog2 b + 1) := lt_of_le_of_lt (le_trans h1 hab) h2
  have := (zpow_lt_zpow_iff_right₀ (by norm_num : (1 : Rat) < 2)).1 this
  omega
theorem rhe_ge_floor (q : Rat) : q.floor ≤ roundHalfEven q := by
  unfold roundHalfEven
  dsimp only
  split
  · exact le_refl _
  · split
    · omega
    · split <;> omega

theorem rhe_le_floor_succ (q : Rat) : roundHalfEven q ≤ q.floor + 1 := by
  unfold roundHalfEven
  dsimp only
  split
  · omega
  · split
    · omega
    · split <;> omega

theorem rhe_ge_int (n : Int) (q : Rat) (h : (n : Rat) ≤ q) : n ≤ roundHalfEven q :=
  le_trans (Rat.le_floor_iff.2 h) (rhe_ge_floor q)

theorem rhe_le_int (n : Int) (q : Rat) (h : q ≤ (n : Rat)) : roundHalfEven q ≤ n := by
  have hf : q.floor ≤ n := by
    have := Rat.floor_monotone h
    rwa [Rat.floor_intCast] at this
  rcases lt_or_eq_of_le hf with hlt | heq
  · have := rhe_le_floor_succ q; omega
  · -- q = n
    have hq : q = (n : Rat) := le_antisymm h (by rw [← heq]; exact Rat.floor_le q)
    subst hq
    unfold roundHalfEven
    dsimp only
    rw [Rat.floor_intCast]
    rw [if_pos (by norm_num)]

theorem rhe_mono {x y : Rat} (h : x ≤ y) : roundHalfEven x ≤ roundHalfEven y := by
  have hf := Rat.floor_monotone h
  rcases lt_or_eq_of_le hf with hlt | heq
  · have := rhe_le_floor_succ x
    have := rhe_ge_floor y
    omega
  · have hy := rhe_ge_floor y
    have hx := rhe_le_floor_succ x
    by_cases hxf : roundHalfEven x = x.floor
    · omega
    · -- x rounds up
      have hxup : roundHalfEven x = x.floor + 1 := by
        have := rhe_ge_floor x; omega
      suffices roundHalfEven y = y.floor + 1 by omega
      unfold roundHalfEven at hxf ⊢
      dsimp only at hxf ⊢
      rw [← heq]
      by_cases h1 : x - (x.floor : Rat) < 1 / 2
      · rw [if_pos h1] at hxf; exact absurd rfl hxf
      · rw [if_neg h1] at hxf
        have h1y : ¬ y - (x.floor : Rat) < 1 / 2 := by intro hh; apply h1; linarith
        rw [if_neg h1y]
        by_cases h2 : y - (x.floor : Rat) > 1 / 2
        · rw [if_pos h2]
        · rw [if_neg h2]
          have h2x : ¬ x - (x.floor : Rat) > 1 / 2 := by intro hh; apply h2; linarith
          rw [if_neg h2x] at hxf
          by_cases h3 : x.floor % 2 = 0
          · rw [if_pos h3] at hxf; exact absurd rfl hxf
          · rw [if_neg h3]

/-! ### monotonicity of `roundF64` -/

/-- the exponent of the unit in the last place used for `a > 0` -/
def ulpExp (a : Rat) : Int := if floorLog2 a - 52 < -1074 then -1074 else floorLog2 a - 52

/-- `roundF64` on positive numbers -/
def roundPos (a : Rat) : Rat := (roundHalfEven (a / pow2 (ulpExp a)) : Rat) * pow2 (ulpExp a)

theorem roundF64_zero : roundF64 0 = 0 := by unfold roundF64; simp

theorem roundF64_pos {q : Rat} (h : 0 < q) : roundF64 q = roundPos q := by
  unfold roundF64 roundPos ulpExp
  have h1 : ¬ q = 0 := ne_of_gt h
  have h2 : ¬ q < 0 := not_lt.2 (le_of_lt h)
  have h3 : rabs q = q := by unfold rabs; rw [if_neg h2]
  simp only [h1, h2, h3, if_false]

theorem roundF64_neg {q : Rat} (h : q < 0) : roundF64 q = - roundPos (-q) := by
  unfold roundF64 roundPos ulpExp
  have h1 : ¬ q = 0 := ne_of_lt h
  have h3 : rabs q = -q := by unfold rabs; rw [if_pos h]
  simp only [h1, h, h3, if_false, if_true]

theorem pow2_pos (e : Int) : 0 < pow2 e := by rw [pow2_eq_zpow]; positivity

theorem roundPos_nonneg {a : Rat} (ha : 0 < a) : 0 ≤ roundPos a := by
  unfold roundPos
  have hp := pow2_pos (ulpExp a)
  have : (0 : Int) ≤ roundHalfEven (a / pow2 (ulpExp a)) :=
    rhe_ge_int 0 _ (by simpa using div_nonneg (le_of_lt ha) (le_of_lt hp))
  have : (0 : Rat) ≤ (roundHalfEven (a / pow2 (ulpExp a)) : Rat) := by exact_mod_cast this
  exact mul_nonneg this (le_of_lt hp)

theorem roundPos_mono {a b : Rat} (ha : 0 < a) (hab : a ≤ b) : roundPos a ≤ roundPos b := by
  have hb : 0 < b := lt_of_lt_of_le ha hab
  have hk := floorLog2_mono ha hab
  have two_ne : (2 : Rat) ≠ 0 := by norm_num
  have hE : ulpExp a ≤ ulpExp b := by unfold ulpExp; split <;> split <;> omega
  rcases lt_or_eq_of_le hE with hlt | heq
  · -- different binades: `roundPos a ≤ 2^kb ≤ roundPos b`
    have hEb : ulpExp b = floorLog2 b - 52 := by
      unfold ulpExp at hlt ⊢; split at hlt <;> split at hlt <;> split <;> omega
    have hEa : floorLog2 a - 52 ≤ ulpExp a := by unfold ulpExp; split <;> omega
    have hka : floorLog2 a + 1 ≤ floorLog2 b := by omega
    have ha2 : a ≤ (2 : Rat) ^ floorLog2 b :=
      le_trans (le_of_lt (floorLog2_spec a ha).2) (zpow_le_zpow_right₀ (by norm_num) hka)
    have hb2 : (2 : Rat) ^ floorLog2 b ≤ b := (floorLog2_spec b hb).1
    refine le_trans (b := (2 : Rat) ^ floorLog2 b) ?_ ?_
    · -- upper bound for a
      unfold roundPos
      rw [pow2_eq_zpow]
      have hP : (0 : Rat) < (2 : Rat) ^ ulpExp a := by positivity
      obtain ⟨j, hj⟩ := Int.eq_ofNat_of_zero_le (by omega : 0 ≤ floorLog2 b - ulpExp a)
      have hN : (((2 : Int) ^ j : Int) : Rat) = (2 : Rat) ^ (floorLog2 b - ulpExp a) := by
        rw [hj, zpow_natCast]; push_cast; rfl
      have hsplit : (2 : Rat) ^ (floorLog2 b - ulpExp a) * (2 : Rat) ^ ulpExp a = (2 : Rat) ^ floorLog2 b := by
        rw [← zpow_add₀ two_ne]; congr 1; ring
      have hle : a / (2 : Rat) ^ ulpExp a ≤ (((2 : Int) ^ j : Int) : Rat) := by
        rw [hN, div_le_iff₀ hP, hsplit]; exact ha2
      have := rhe_le_int _ _ hle
      have hc : (roundHalfEven (a / (2 : Rat) ^ ulpExp a) : Rat) ≤ (((2 : Int) ^ j : Int) : Rat) := by
        exact_mod_cast this
      calc (roundHalfEven (a / (2 : Rat) ^ ulpExp a) : Rat) * (2 : Rat) ^ ulpExp a
          ≤ (((2 : Int) ^ j : Int) : Rat) * (2 : Rat) ^ ulpExp a :=
            mul_le_mul_of_nonneg_right hc (le_of_lt hP)
        _ = (2 : Rat) ^ floorLog2 b := by rw [hN, hsplit]
    · unfold roundPos
      rw [pow2_eq_zpow, hEb]
      have hP : (0 : Rat) < (2 : Rat) ^ (floorLog2 b - 52) := by positivity
      have hN : (((2 : Int) ^ 52 : Int) : Rat) = (2 : Rat) ^ (52 : Int) := by
        norm_num
      have hsplit : (2 : Rat) ^ (52 : Int) * (2 : Rat) ^ (floorLog2 b - 52) = (2 : Rat) ^ floorLog2 b := by
        rw [← zpow_add₀ two_ne]; congr 1; ring
      have hle : (((2 : Int) ^ 52 : Int) : Rat) ≤ b / (2 : Rat) ^ (floorLog2 b - 52) := by
        rw [hN, le_div_iff₀ hP, hsplit]; exact hb2
      have := rhe_ge_int _ _ hle
      have hc : (((2 : Int) ^ 52 : Int) : Rat) ≤ (roundHalfEven (b / (2 : Rat) ^ (floorLog2 b - 52)) : Rat) := by
        exact_mod_cast this
      calc (2 : Rat) ^ floorLog2 b = (((2 : Int) ^ 52 : Int) : Rat) * (2 : Rat) ^ (floorLog2 b - 52) := by
            rw [hN, hsplit]
        _ ≤ _ := mul_le_mul_of_nonneg_right hc (le_of_lt hP)
  · unfold roundPos
    rw [← heq]
    have hP := pow2_pos (ulpExp a)
    have hdiv : a / pow2 (ulpExp a) ≤ b / pow2 (ulpExp a) := div_le_div_of_nonneg_right hab (le_of_lt hP)
    have := rhe_mono hdiv
    have hc : (roundHalfEven (a / pow2 (ulpExp a)) : Rat) ≤ (roundHalfEven (b / pow2 (ulpExp a)) : Rat) := by
      exact_mod_cast this
    exact mul_le_mul_of_nonneg_right hc (le_of_lt hP)

/-- [T] the binary64 rounding model is monotone -/
theorem roundF64_mono (x y : Rat) (h : x ≤ y) : roundF64 x ≤ roundF64 y := by
  rcases lt_trichotomy x 0 with hx | hx | hx
  · rw [roundF64_neg hx]
    have hnx : 0 ≤ roundPos (-x) := roundPos_nonneg (by linarith)
    rcases lt_trichotomy y 0 with hy | hy | hy
    · rw [roundF64_neg hy]
      have := roundPos_mono (a := -y) (b := -x) (by linarith) (by linarith)
      linarith
    · rw [hy, roundF64_zero]; linarith
    · rw [roundF64_pos hy]
      have := roundPos_nonneg hy
      linarith
  · rw [hx, roundF64_zero]
    rcases lt_or_eq_of_le (hx ▸ h) with hy | hy
    · rw [roundF64_pos hy]; exact roundPos_nonneg hy
    · rw [← hy, roundF64_zero]
  · rw [roundF64_pos hx, roundF64_pos (lt_of_lt_of_le hx h)]
    exact roundPos_mono hx h

end Geo.Proofs.C08
