/-
  C02X, part 11: the segment-against-area kernels as point-set statements.

  `seg_poly_iff`: a segment `[x, y]` has a point in a polygon (interior ∪ boundary, closed rings) iff it
  meets a ring segment or one of its end points is in the polygon — if the segment misses every ring, the
  winding numbers are constant along it (`located_along`). Hence
  * `polyLine_iff`  — `Polygon: Intersects<Line>` (ring tests + the two `coordinate_position` tests),
  * `rectLine_iff`  — `Rect: Intersects<Line>` (two corner tests + the four side tests),
  * `triLine_iff`   — `Triangle: Intersects<Line>` (through `to_polygon`),
  * `rectRect_iff`  — `Rect: Intersects<Rect>`
  hold exactly when the operands have a common point.
-/
import GeoProofs.Lemmas.C02XPoint

set_option linter.unusedSimpArgs false
set_option linter.unusedVariables false

namespace Geo.Proofs.C02X
open Geo Geo.Proofs.Kernel Geo.Proofs.Spec Geo.Proofs.C02Q Geo.Proofs.WIND

/-- the operands have a common point (interior ∪ boundary of each) -/
def Common (a b : Geom) : Prop := ∃ p, locate a p ≠ .outside ∧ locate b p ≠ .outside

theorem Common.symm {a b : Geom} (h : Common a b) : Common b a := by
  obtain ⟨p, h1, h2⟩ := h; exact ⟨p, h2, h1⟩

/-- some ring segment of the polygon meets the segment `[x, y]` -/
def MeetsRing (q : Poly) (x y : Pt) : Prop :=
  ∃ r ∈ q.rings, ∃ s ∈ segs r, ∃ p, SegMem p s.1 s.2 ∧ SegMem p x y

/-- **segment against one polygon with closed rings of at least two coordinates** -/
theorem seg_poly_iff (q : Poly) (hok : ∀ r ∈ q.rings, Geo.Proofs.Loc.RingOK r) (x y : Pt) :
    (∃ p, SegMem p x y ∧ locate (.polygon q) p ≠ .outside) ↔
      MeetsRing q x y ∨ locate (.polygon q) x ≠ .outside ∨ locate (.polygon q) y ≠ .outside := by
  have hq : q ∈ (parts (.polygon q)).areas := by simp [parts]
  constructor
  · rintro ⟨p, hp, hloc⟩
    by_cases hm : MeetsRing q x y
    · exact Or.inl hm
    · right; left
      -- `p` is off every ring, hence strictly inside
      have hoff : ∀ r ∈ q.rings, onAnySeg p (segs r) = false := by
        intro r hr
        cases hc : onAnySeg p (segs r) with
        | false => rfl
        | true =>
          exfalso
          rw [Geo.Proofs.Spec.onAnySeg_iff] at hc
          obtain ⟨s, hs, hl⟩ := hc
          exact hm ⟨r, hr, s, hs, p, (lineCoord_iff _ _ _).mp hl, hp⟩
      have hins : insidePolyE (EPt.ofPt p) q = true := by
        have hl : locate (.polygon q) p = locateParts ⟨[], [], [q]⟩ p := rfl
        rw [hl, Geo.Proofs.Loc.locateParts_poly] at hloc
        have hany : (q.rings.any fun r => onAnySeg p (segs r)) = false := by
          rw [List.any_eq_false]; intro r hr; rw [hoff r hr]; simp
        have hsing : (q.rings.any fun r => r == [p]) = false := by
          rw [List.any_eq_false]; intro r hr; rw [Geo.Proofs.Loc.ring_ne_single (hok r hr)]; simp
        rw [hany, hsing] at hloc
        simp only [Bool.not_false, Bool.true_and, Bool.or_self, Bool.false_eq_true, if_false] at hloc
        unfold insidePolyE
        by_contra hne
        rw [if_neg hne] at hloc
        exact hloc rfl
      apply located_along (ps := parts (.polygon q)) hq (fun r hr => (hok r hr).1) hoff hins
      intro z hz _ r hr s hs hzs
      exact hm ⟨r, hr, s, hs, z, hzs, SegMem_convex (SegMem_left x y) hp hz⟩
  · rintro (⟨r, hr, s, hs, p, h1, h2⟩ | h | h)
    · refine ⟨p, h2, located_of_on_ring (ps := parts (.polygon q)) hq hr ?_⟩
      rw [Geo.Proofs.Spec.onAnySeg_iff]
      exact ⟨s, hs, (lineCoord_iff _ _ _).mpr h1⟩
    · exact ⟨x, SegMem_left x y, h⟩
    · exact ⟨y, SegMem_right x y, h⟩

theorem lsLine_iff (cs : List Pt) (x y : Pt) :
    lsLine cs x y = true ↔ ∃ s ∈ segs cs, ∃ p, SegMem p s.1 s.2 ∧ SegMem p x y := by
  rw [Geo.Proofs.Loc.lsLine_eq, List.any_eq_true]
  constructor
  · rintro ⟨s, hs, h⟩; exact ⟨s, hs, (lineLine_iff _ _ _ _).mp h⟩
  · rintro ⟨s, hs, h⟩; exact ⟨s, hs, (lineLine_iff _ _ _ _).mpr h⟩

theorem meetsRing_iff (q : Poly) (x y : Pt) :
    MeetsRing q x y ↔ (lsLine q.ext x y || q.ints.any (fun r => lsLine r x y)) = true := by
  unfold MeetsRing
  rw [Bool.or_eq_true, List.any_eq_true, lsLine_iff]
  constructor
  · rintro ⟨r, hr, h⟩
    rcases List.mem_cons.mp hr with rfl | hr
    · exact Or.inl h
    · exact Or.inr ⟨r, hr, (lsLine_iff r x y).mpr h⟩
  · rintro (h | ⟨r, hr, h⟩)
    · exact ⟨q.ext, by simp [Poly.rings], h⟩
    · exact ⟨r, by simp [Poly.rings, hr], (lsLine_iff r x y).mp h⟩

/-- **`Polygon: Intersects<Line>`** for a polygon with closed rings whose `coordinate_position` is the
specification's at the two end points (every polygon of the domain; `to_polygon` of a Rect / Triangle) -/
theorem polyLine_iff (q : Poly) (hok : ∀ r ∈ q.rings, Geo.Proofs.Loc.RingOK r) (x y : Pt)
    (hx : coordPos (.polygon q) x = locate (.polygon q) x)
    (hy : coordPos (.polygon q) y = locate (.polygon q) y) :
    polyLine q x y = true ↔ ∃ p, SegMem p x y ∧ locate (.polygon q) p ≠ .outside := by
  rw [seg_poly_iff q hok, meetsRing_iff]
  unfold polyLine polyCoord
  rw [hx, hy]
  simp only [Bool.or_eq_true, bne_iff_ne, ne_eq, or_assoc]

theorem polygon_rings_ok {q : Poly} (h : polyValid q = true) : ∀ r ∈ q.rings, Geo.Proofs.Loc.RingOK r :=
  rings_ok h

/-- a hole-free polygon on one closed ring: `coordinate_position` is the specification's -/
theorem coordPos_ringPoly (r : List Pt) (hr : Geo.Proofs.Loc.RingOK r) (p : Pt) :
    coordPos (.polygon ⟨r, []⟩) p = locate (.polygon ⟨r, []⟩) p :=
  Geo.Proofs.Loc.coordPos_polygon_eq_locate_at ⟨r, []⟩ p hr (fun h hh => by cases hh)
    (fun h hh => by cases hh) (fun h hh => by cases hh)

theorem triPoly_ok (a b c : Pt) : ∀ r ∈ (triPoly a b c).rings, Geo.Proofs.Loc.RingOK r := by
  intro r hr
  simp only [triPoly, Poly.rings, List.mem_singleton] at hr
  rw [hr]; exact ⟨rfl, by simp⟩

theorem rectPoly_ok (mn mx : Pt) : ∀ r ∈ (rectPoly mn mx).rings, Geo.Proofs.Loc.RingOK r := by
  intro r hr
  simp only [rectPoly, Poly.rings, List.mem_singleton] at hr
  rw [hr]; exact ⟨rfl, by simp [SM.rectToPolygon]⟩

theorem locate_triPoly (a b c p : Pt) : locate (.polygon (triPoly a b c)) p = locate (.triangle a b c) p := rfl
theorem locate_rectPoly (mn mx p : Pt) : locate (.polygon (rectPoly mn mx)) p = locate (.rect mn mx) p := rfl

/-- **`Triangle: Intersects<Line>`** (through `to_polygon`), any triangle -/
theorem triLine_iff (a b c x y : Pt) :
    polyLine (triPoly a b c) x y = true ↔ ∃ p, SegMem p x y ∧ locate (.triangle a b c) p ≠ .outside := by
  rw [polyLine_iff (triPoly a b c) (triPoly_ok a b c) x y
    (coordPos_ringPoly _ (triPoly_ok a b c _ (by simp [triPoly, Poly.rings])) x)
    (coordPos_ringPoly _ (triPoly_ok a b c _ (by simp [triPoly, Poly.rings])) y)]
  rfl

theorem lineLine_swap_left (a b c d : Pt) : lineLine b a c d = lineLine a b c d := by
  rw [Bool.eq_iff_iff, lineLine_iff, lineLine_iff]
  constructor <;> rintro ⟨p, h1, h2⟩ <;> exact ⟨p, SegMem_symm h1, h2⟩

/-- **`Rect: Intersects<Line>`**, Rect of positive width and height: either end point in the closed
rect or one of the four sides met ⇔ the segment has a point in the rect -/
theorem rectLine_iff (mn mx x y : Pt) (hx : mn.x < mx.x) (hy : mn.y < mx.y) :
    rectLine mn mx x y = true ↔ ∃ p, SegMem p x y ∧ locate (.rect mn mx) p ≠ .outside := by
  have hcoord : ∀ c, rectCoord mn mx c = true ↔ locate (.rect mn mx) c ≠ .outside := by
    intro c
    rw [Geo.Proofs.Loc.rectCoord_eq_pos, Geo.Proofs.Loc.coordPos_rect_eq_locate mn mx c hx hy]
    simp
  have hsp := seg_poly_iff (rectPoly mn mx) (rectPoly_ok mn mx) x y
  simp only [locate_rectPoly] at hsp
  rw [hsp, meetsRing_iff, ← hcoord x, ← hcoord y]
  obtain ⟨a, b⟩ := mn
  obtain ⟨c, d⟩ := mx
  have hring : (lsLine (rectPoly ⟨a, b⟩ ⟨c, d⟩).ext x y ||
        (rectPoly ⟨a, b⟩ ⟨c, d⟩).ints.any (fun r => lsLine r x y)) =
      (lineLine ⟨c, b⟩ ⟨c, d⟩ x y || (lineLine ⟨c, d⟩ ⟨a, d⟩ x y || (lineLine ⟨a, d⟩ ⟨a, b⟩ x y ||
        lineLine ⟨a, b⟩ ⟨c, b⟩ x y))) := by
    rw [Geo.Proofs.Loc.lsLine_eq]
    simp only [rectPoly, SM.rectToPolygon, segs, List.any_cons, List.any_nil, Bool.or_false]
  rw [hring]
  have e1 : lineLine ⟨c, d⟩ ⟨a, d⟩ x y = lineLine ⟨a, d⟩ ⟨c, d⟩ x y := lineLine_swap_left _ _ _ _
  have e2 : lineLine ⟨a, d⟩ ⟨a, b⟩ x y = lineLine ⟨a, b⟩ ⟨a, d⟩ x y := lineLine_swap_left _ _ _ _
  rw [e1, e2]
  unfold rectLine
  simp only
  generalize rectCoord ⟨a, b⟩ ⟨c, d⟩ x = r1
  generalize rectCoord ⟨a, b⟩ ⟨c, d⟩ y = r2
  generalize lineLine ⟨a, b⟩ ⟨c, b⟩ x y = l1
  generalize lineLine ⟨c, b⟩ ⟨c, d⟩ x y = l2
  generalize lineLine ⟨a, d⟩ ⟨c, d⟩ x y = l3
  generalize lineLine ⟨a, b⟩ ⟨a, d⟩ x y = l4
  cases r1 <;> cases r2 <;> cases l1 <;> cases l2 <;> cases l3 <;> cases l4 <;> simp

/-- **`Rect: Intersects<Rect>`**, both of positive width and height: not separated along an axis ⇔ a
common point -/
theorem rectRect_iff (amn amx bmn bmx : Pt) (hax : amn.x < amx.x) (hay : amn.y < amx.y)
    (hbx : bmn.x < bmx.x) (hby : bmn.y < bmx.y) :
    rectRect amn amx bmn bmx = true ↔ Common (.rect amn amx) (.rect bmn bmx) := by
  have hcoord : ∀ (mn mx : Pt), mn.x < mx.x → mn.y < mx.y → ∀ c,
      locate (.rect mn mx) c ≠ .outside ↔ mn.x ≤ c.x ∧ c.x ≤ mx.x ∧ mn.y ≤ c.y ∧ c.y ≤ mx.y := by
    intro mn mx h1 h2 c
    rw [← rectCoord_iff, Geo.Proofs.Loc.rectCoord_eq_pos, Geo.Proofs.Loc.coordPos_rect_eq_locate mn mx c h1 h2]
    simp
  rw [rectRect_eq]
  unfold Common
  constructor
  · rintro ⟨h1, h2, h3, h4⟩
    refine ⟨⟨max amn.x bmn.x, max amn.y bmn.y⟩, ?_, ?_⟩
    · rw [hcoord amn amx hax hay]
      exact ⟨le_max_left _ _, max_le hax.le h1, le_max_left _ _, max_le hay.le h2⟩
    · rw [hcoord bmn bmx hbx hby]
      exact ⟨le_max_right _ _, max_le h3 hbx.le, le_max_right _ _, max_le h4 hby.le⟩
  · rintro ⟨p, h1, h2⟩
    rw [hcoord amn amx hax hay] at h1
    rw [hcoord bmn bmx hbx hby] at h2
    exact ⟨by linarith [h1.2.1, h2.1], by linarith [h1.2.2.2, h2.2.2.1], by linarith [h1.1, h2.2.1],
      by linarith [h1.2.2.1, h2.2.2.2]⟩

end Geo.Proofs.C02X
