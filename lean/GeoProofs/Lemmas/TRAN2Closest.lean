/-
  Translator tie for geo/src/algorithm/closest_point.rs and `Closest::best_of_two` (geo/src/types.rs): the hand-written
  model `GeoModel/Closest.lean` equals the terms regenerated from the Rust bodies (`GeoModel/Gen/ClosestGen.lean`).

  Square roots enter the Rust code in two places, both as *parameters* of the regenerated terms:
  * `Euclidean.distance(a, p) <= Euclidean.distance(b, p)` in `best_of_two` — parameter `dist`, assumed only to order
    pairs like the squared distance (`DistOk`);
  * `Euclidean.length(line) == 0` in `Line::closest_point` — parameter `len`, assumed only to vanish exactly on
    zero-length lines (`LenOk`).
  Both hold for the exact Euclidean distance; the model compares squared distances / end points.
-/
import GeoModel.Closest
import GeoModel.Gen.ClosestGen
import GeoProofs.Lemmas.GenKernel
import GeoProofs.Lemmas.TRANArea
import GeoProofs.Lemmas.C07Psd

namespace Geo.Proofs.TRAN2Closest
open Geo Geo.CP

/-- `dist` orders pairs of points as the squared Euclidean distance does -/
def DistOk (dist : Pt → Pt → Rat) : Prop := ∀ a b p : Pt, dist a p ≤ dist b p ↔ dist2 a p ≤ dist2 b p

/-- `len` vanishes exactly on zero-length lines -/
def LenOk (len : Pt × Pt → Rat) : Prop := ∀ a b : Pt, len (a, b) = 0 ↔ a = b

theorem distOk_dist2 : DistOk (fun a p => dist2 a p) := fun _ _ _ => Iff.rfl

theorem lenOk_dist2 : LenOk (fun s => dist2 s.1 s.2) := fun a b => Geo.Proofs.C07.dist2_eq_zero_iff a b

theorem bestOfTwo_eq (dist : Pt → Pt → Rat) (h : DistOk dist) (s o : Closest) (p : Pt) :
    Gen.closestBestOfTwo dist s o p = bestOfTwo s o p := by
  unfold Gen.closestBestOfTwo bestOfTwo
  cases s <;> cases o <;> simp only [h _ _ _, decide_eq_true_eq]

theorem pointClosest_eq (q p : Pt) : Gen.pointClosestPoint q p = pointClosest q p := by
  unfold Gen.pointClosestPoint pointClosest
  by_cases h : q = p <;> simp [h]

theorem lineClosest_eq (len : Pt × Pt → Rat) (h : LenOk len) (a b p : Pt) :
    Gen.lineClosestPoint len a b p = lineClosest a b p := by
  unfold Gen.lineClosestPoint lineClosest
  by_cases hab : a = b
  · subst hab
    have : len (a, a) = 0 := (h a a).2 rfl
    simp [this]
  · have hl : ¬ len (a, b) = 0 := fun e => hab ((h a b).1 e)
    have ht : Gen.pointDot (p - a) (b - a) / Gen.pointDot (b - a) (b - a) = lineParam a b p := rfl
    simp only [beq_iff_eq, hl, hab, if_false, ht, decide_eq_true_eq, ← Geo.Proofs.GenKernel.lineCoord_eq]
    rfl

/-- the loop of `closest_of` from a running `best`, for any loop body that does what the source's body does -/
theorem loop_fold {α : Type} (f : α → Pt → Closest) (p : Pt) (body : α → Closest → Gen.Step Closest Closest)
    (hbody : ∀ x s, body x s = if (bestOfTwo (f x p) s p).isIntersection then .ret (bestOfTwo (f x p) s p)
      else .next (bestOfTwo (f x p) s p)) :
    ∀ (l : List α) (best : Closest),
      (match Gen.loop l body best with
        | .ret r => r
        | .next s => s) = closestFold p (l.map (fun x => f x p)) best := by
  intro l
  induction l with
  | nil => intro best; rfl
  | cons x xs ih =>
    intro best
    simp only [Gen.loop, List.map, closestFold, hbody]
    by_cases hi : (bestOfTwo (f x p) best p).isIntersection = true
    · simp [hi]
    · simp only [hi, Bool.false_eq_true, if_false]
      exact ih _

theorem closestOf_eq {α : Type} (dist : Pt → Pt → Rat) (h : DistOk dist) (f : α → Pt → Closest) (l : List α) (p : Pt) :
    Gen.closestOf dist f l p = closestOf (fun x => f x p) p l := by
  unfold Gen.closestOf closestOf
  refine loop_fold f p _ ?_ l .indeterminate
  intro x s
  simp only [bestOfTwo_eq dist h]
  cases bestOfTwo (f x p) s p <;> rfl

/-! ### the per-type impls; `lineFn` is the regenerated `Line::closest_point` -/

/-- `Line::closest_point` as the element function handed to `closest_of` by the LineString / Triangle / Rect impls -/
def lineFn (len : Pt × Pt → Rat) : Pt × Pt → Pt → Closest := fun s p => Gen.lineClosestPoint len s.1 s.2 p

theorem lineFn_eq (len : Pt × Pt → Rat) (hl : LenOk len) :
    lineFn len = fun s p => lineClosest s.1 s.2 p := by
  funext s p; exact lineClosest_eq len hl s.1 s.2 p

theorem lsClosest_eq (dist : Pt → Pt → Rat) (len : Pt × Pt → Rat) (hd : DistOk dist) (hl : LenOk len) (cs : List Pt) (p : Pt) :
    Gen.lineStringClosestPoint dist (lineFn len) cs p = lsClosest cs p := by
  unfold Gen.lineStringClosestPoint lsClosest
  rw [closestOf_eq dist hd, lineFn_eq len hl]

theorem polyClosest_eq (dist : Pt → Pt → Rat) (hd : DistOk dist) (poly : Poly) (p : Pt) :
    Gen.polygonClosestPoint dist (fun q p => coordPos (.polygon q) p != .outside) (fun r p => lsClosest r p) poly p
      = polyClosest poly p := by
  unfold Gen.polygonClosestPoint polyClosest
  rw [closestOf_eq dist hd]

theorem triClosest_eq (dist : Pt → Pt → Rat) (len : Pt × Pt → Rat) (hd : DistOk dist) (hl : LenOk len) (a b c p : Pt) :
    Gen.triangleClosestPoint dist (lineFn len) a b c p = triClosest a b c p := by
  unfold Gen.triangleClosestPoint triClosest triLines
  rw [closestOf_eq dist hd, lineFn_eq len hl, ← Geo.Proofs.TRANArea.triCoord_eq]

theorem rectClosest_eq (dist : Pt → Pt → Rat) (len : Pt × Pt → Rat) (hd : DistOk dist) (hl : LenOk len) (mn mx p : Pt) :
    Gen.rectClosestPoint dist (lineFn len) mn mx p = rectClosest mn mx p := by
  unfold Gen.rectClosestPoint rectClosest SM.rectToLines
  rw [closestOf_eq dist hd, lineFn_eq len hl, ← Geo.Proofs.GenKernel.rectCoord_eq]

theorem closestList_eq_map (gs : List Geom) (p : Pt) : closestList gs p = gs.map (fun g => closest g p) := by
  induction gs with
  | nil => rfl
  | cons g gs ih => simp [closestList, ih]

/-- the four `closest_of(self.iter(), *p)` impls with the model's member functions -/
theorem multi_eq (dist : Pt → Pt → Rat) (hd : DistOk dist) (p : Pt) :
    (∀ qs, Gen.multiPointClosestPoint dist pointClosest qs p = closest (.multiPoint qs) p) ∧
    (∀ ls, Gen.multiLineStringClosestPoint dist lsClosest ls p = closest (.multiLineString ls) p) ∧
    (∀ ps, Gen.multiPolygonClosestPoint dist polyClosest ps p = closest (.multiPolygon ps) p) ∧
    (∀ gs, Gen.geometryCollectionClosestPoint dist closest gs p = closest (.collection gs) p) := by
  refine ⟨fun qs => ?_, fun ls => ?_, fun ps => ?_, fun gs => ?_⟩
  · simp only [Gen.multiPointClosestPoint, closestOf_eq dist hd, closest]
  · simp only [Gen.multiLineStringClosestPoint, closestOf_eq dist hd, closest]
  · simp only [Gen.multiPolygonClosestPoint, closestOf_eq dist hd, closest]
  · simp only [Gen.geometryCollectionClosestPoint, closestOf_eq dist hd, closest, closestList_eq_map, closestOf]

end Geo.Proofs.TRAN2Closest
