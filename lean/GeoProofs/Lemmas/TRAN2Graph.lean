/-
  Translator tie for relate/geomgraph: `TopologyPosition` (topology_position.rs) and `IntersectionMatrix::{set, set_at_least,
  set_at_least_if_in_both}` (intersection_matrix.rs): the hand-written model (`GeoModel/GeomGraph.lean`, `RelateImpl.lean`,
  `RelateSpec.lean`, `RelateImplNodes.lean`) and `Label` (label.rs) equal the terms regenerated from the Rust bodies (`GeoModel/Gen/GraphGen.lean`).
  `Direction` is regenerated from its declaration; the model has one accessor / setter per direction.
-/
import GeoModel.GeomGraph
import GeoModel.RelateImpl
import GeoModel.RelateImplNodes
import GeoModel.Gen.GraphGen

namespace Geo.Proofs.TRAN2Graph
open Geo Geo.GG

theorem tpCtors_eq :
    (∀ o l r : Pos, Gen.tpArea o l r = TopoPos.area (some o) (some l) (some r)) ∧ Gen.tpEmptyArea = TopoPos.emptyArea ∧
    (∀ o : Pos, Gen.tpLineOrPoint o = TopoPos.lineOrPoint (some o)) ∧ Gen.tpEmptyLineOrPoint = TopoPos.emptyLine :=
  ⟨fun _ _ _ => rfl, rfl, fun _ => rfl, rfl⟩

theorem tpGet_eq (t : TopoPos) :
    Gen.tpGet t .on = t.on ∧ Gen.tpGet t .left = t.left ∧ Gen.tpGet t .right = t.right := by
  cases t <;> exact ⟨rfl, rfl, rfl⟩

theorem tpIsEmpty_eq (t : TopoPos) : Gen.tpIsEmpty t = t.isEmpty := by
  cases t with
  | area o l r => cases o <;> cases l <;> cases r <;> rfl
  | lineOrPoint o => cases o <;> rfl

theorem tpIsAnyEmpty_eq (t : TopoPos) : Gen.tpIsAnyEmpty t = t.isAnyEmpty := by
  cases t with
  | area o l r => cases o <;> cases l <;> cases r <;> rfl
  | lineOrPoint o => cases o <;> rfl

theorem tpIsArea_eq (t : TopoPos) : Gen.tpIsArea t = t.isArea := by cases t <;> rfl
theorem tpIsLine_eq (t : TopoPos) : Gen.tpIsLine t = t.isLine := by cases t <;> rfl
theorem tpFlip_eq (t : TopoPos) : Gen.tpFlip t = t.flip := by cases t <;> rfl
theorem tpSetAll_eq (t : TopoPos) (p : Pos) : Gen.tpSetAllPositions t p = t.setAll p := by cases t <;> rfl

theorem tpSetAllIfEmpty_eq (t : TopoPos) (p : Pos) : Gen.tpSetAllPositionsIfEmpty t p = t.setAllIfEmpty p := by
  cases t with
  | area o l r => cases o <;> cases l <;> cases r <;> rfl
  | lineOrPoint o => cases o <;> rfl

theorem tpSetPosition_eq (t : TopoPos) (p : Pos) :
    Gen.tpSetPosition t .on p = t.setOn p ∧ Gen.tpSetPosition t .left p = t.setLeft p ∧
    Gen.tpSetPosition t .right p = t.setRight p := by
  cases t <;> exact ⟨rfl, rfl, rfl⟩

theorem tpSetOn_eq (t : TopoPos) (p : Pos) : Gen.tpSetOnPosition t p = t.setOn p := by cases t <;> rfl

theorem imSet_eq (m : IM) (a b : Pos) (d : Dim) : Gen.imSet m a b d = m.set a b d := rfl

theorem imSetAtLeast_eq (m : IM) (a b : Pos) (d : Dim) : Gen.imSetAtLeast m a b d = m.setAtLeast a b d := by
  unfold Gen.imSetAtLeast IM.setAtLeast
  by_cases h : (m.get a b).rank < d.rank <;> simp [h]

theorem imSetAtLeastIfInBoth_eq (m : IM) (pa pb : Option Pos) (d : Dim) :
    Gen.imSetAtLeastIfInBoth m pa pb d = RI.setAtLeastIfBoth m pa pb d := by
  cases pa <;> cases pb <;> simp [Gen.imSetAtLeastIfInBoth, RI.setAtLeastIfBoth, imSetAtLeast_eq]

/-! ### `Label` -/

theorem label_eq (l : Label) (idx : Nat) (p : Pos) :
    Gen.labelSwapArgs l = l.swap ∧ Gen.labelEmptyLineOrPoint = Label.emptyLine ∧ Gen.labelEmptyArea = Label.emptyArea ∧
    Gen.labelFlip l = l.flip ∧
    Gen.labelPosition l idx .on = l.onPos idx ∧ Gen.labelPosition l idx .left = l.leftPos idx ∧
    Gen.labelPosition l idx .right = l.rightPos idx ∧ Gen.labelOnPosition l idx = l.onPos idx ∧
    Gen.labelSetPosition l idx .on p = l.setOn idx p ∧ Gen.labelSetPosition l idx .left p = l.setLeft idx p ∧
    Gen.labelSetPosition l idx .right p = l.setRight idx p ∧ Gen.labelSetOnPosition l idx p = l.setOn idx p ∧
    Gen.labelSetAllPositions l idx p = l.setAll idx p ∧ Gen.labelSetAllPositionsIfEmpty l idx p = l.setAllIfEmpty idx p ∧
    Gen.labelGeometryCount l = l.geometryCount ∧ Gen.labelIsEmpty l idx = l.isEmptyAt idx ∧
    Gen.labelIsAnyEmpty l idx = l.isAnyEmptyAt idx ∧ Gen.labelIsArea l = l.isArea ∧ Gen.labelIsGeomArea l idx = l.isGeomArea idx ∧
    Gen.labelIsLine l idx = l.isLineAt idx := by
  refine ⟨rfl, rfl, rfl, ?_, ?_, ?_, ?_, ?_, ?_, ?_, ?_, ?_, ?_, ?_, ?_, ?_, ?_, ?_, ?_, ?_⟩
  · cases l; simp [Gen.labelFlip, Label.set, Label.get, Label.flip, tpFlip_eq]
  · exact (tpGet_eq _).1
  · exact (tpGet_eq _).2.1
  · exact (tpGet_eq _).2.2
  · exact (tpGet_eq _).1
  · simp [Gen.labelSetPosition, Label.setOn, (tpSetPosition_eq _ _).1]
  · simp [Gen.labelSetPosition, Label.setLeft, (tpSetPosition_eq _ _).2.1]
  · simp [Gen.labelSetPosition, Label.setRight, (tpSetPosition_eq _ _).2.2]
  · simp [Gen.labelSetOnPosition, Label.setOn, (tpSetPosition_eq _ _).1]
  · simp [Gen.labelSetAllPositions, Label.setAll, tpSetAll_eq]
  · simp [Gen.labelSetAllPositionsIfEmpty, Label.setAllIfEmpty, tpSetAllIfEmpty_eq]
  · simp only [Gen.labelGeometryCount, Label.geometryCount, tpIsEmpty_eq]
    simp only [List.filter]
    cases ha : l.a.isEmpty <;> cases hb : l.b.isEmpty <;> simp
  · simp [Gen.labelIsEmpty, Label.isEmptyAt, tpIsEmpty_eq]
  · simp [Gen.labelIsAnyEmpty, Label.isAnyEmptyAt, tpIsAnyEmpty_eq]
  · simp [Gen.labelIsArea, Label.isArea, tpIsArea_eq, Label.get]
  · simp [Gen.labelIsGeomArea, Label.isGeomArea, tpIsArea_eq]
  · simp [Gen.labelIsLine, Label.isLineAt, tpIsLine_eq]

theorem labelNew_eq (idx : Nat) (t : TopoPos) : Gen.labelNew idx t = Label.new idx t := by
  cases t <;> rfl

end Geo.Proofs.TRAN2Graph
