/-
  Translator tie for relate/geomgraph: `TopologyPosition` (topology_position.rs) and `IntersectionMatrix::{set, set_at_least,
  set_at_least_if_in_both}` (intersection_matrix.rs): the hand-written model (`GeoModel/GeomGraph.lean`, `RelateImpl.lean`,
  `RelateSpec.lean`, `RelateImplNodes.lean`) equals the terms regenerated from the Rust bodies (`GeoModel/Gen/GraphGen.lean`).
  `Direction` is regenerated from its declaration; the model has one accessor / setter per direction.
-/
import GeoModel.GeomGraph
import GeoModel.RelateImpl
import GeoModel.RelateImplNodes
import GeoModel.Gen.GraphGen

namespace Geo.Proofs.TRAN2Graph
open Geo Geo.GG

theorem tpCtors_eq :
    (∀ o l r : Pos, Gen.tpArea o l r = TopoPos.area (some o) (some l) (some r)) ∧ Gen.tpEmptyArea = TopoPos.emptyArea ∧
    (∀ o : Pos, Gen.tpLineOrPoint o = TopoPos.lineOrPoint (some o)) ∧ Gen.tpEmptyLineOrPoint = TopoPos.emptyLine :=
  ⟨fun _ _ _ => rfl, rfl, fun _ => rfl, rfl⟩

theorem tpGet_eq (t : TopoPos) :
    Gen.tpGet t .on = t.on ∧ Gen.tpGet t .left = t.left ∧ Gen.tpGet t .right = t.right := by
  cases t <;> exact ⟨rfl, rfl, rfl⟩

theorem tpIsEmpty_eq (t : TopoPos) : Gen.tpIsEmpty t = t.isEmpty := by
  cases t with
  | area o l r => cases o <;> cases l <;> cases r <;> rfl
  | lineOrPoint o => cases o <;> rfl

theorem tpIsAnyEmpty_eq (t : TopoPos) : Gen.tpIsAnyEmpty t = t.isAnyEmpty := by
  cases t with
  | area o l r => cases o <;> cases l <;> cases r <;> rfl
  | lineOrPoint o => cases o <;> rfl

theorem tpIsArea_eq (t : TopoPos) : Gen.tpIsArea t = t.isArea := by cases t <;> rfl
theorem tpIsLine_eq (t : TopoPos) : Gen.tpIsLine t = t.isLine := by cases t <;> rfl
theorem tpFlip_eq (t : TopoPos) : Gen.tpFlip t = t.flip := by cases t <;> rfl
theorem tpSetAll_eq (t : TopoPos) (p : Pos) : Gen.tpSetAllPositions t p = t.setAll p := by cases t <;> rfl

theorem tpSetAllIfEmpty_eq (t : TopoPos) (p : Pos) : Gen.tpSetAllPositionsIfEmpty t p = t.setAllIfEmpty p := by
  cases t with
  | area o l r => cases o <;> cases l <;> cases r <;> rfl
  | lineOrPoint o => cases o <;> rfl

theorem tpSetPosition_eq (t : TopoPos) (p : Pos) :
    Gen.tpSetPosition t .on p = t.setOn p ∧ Gen.tpSetPosition t .left p = t.setLeft p ∧
    Gen.tpSetPosition t .right p = t.setRight p := by
  cases t <;> exact ⟨rfl, rfl, rfl⟩

theorem tpSetOn_eq (t : TopoPos) (p : Pos) : Gen.tpSetOnPosition t p = t.setOn p := by cases t <;> rfl

theorem imSet_eq (m : IM) (a b : Pos) (d : Dim) : Gen.imSet m a b d = m.set a b d := rfl

theorem imSetAtLeast_eq (m : IM) (a b : Pos) (d : Dim) : Gen.imSetAtLeast m a b d = m.setAtLeast a b d := by
  unfold Gen.imSetAtLeast IM.setAtLeast
  by_cases h : (m.get a b).rank < d.rank <;> simp [h]

theorem imSetAtLeastIfInBoth_eq (m : IM) (pa pb : Option Pos) (d : Dim) :
    Gen.imSetAtLeastIfInBoth m pa pb d = RI.setAtLeastIfBoth m pa pb d := by
  cases pa <;> cases pb <;> simp [Gen.imSetAtLeastIfInBoth, RI.setAtLeastIfBoth, imSetAtLeast_eq]

end Geo.Proofs.TRAN2Graph
