/-
  GeoProofs.Lemmas.SegmentSpec — the executable segment kernel (GeoModel/Segment.lean) against the
  point-set definition of a segment.
-/
import GeoModel.Segment
import Mathlib.Tactic.Linarith
import Mathlib.Tactic.Ring
import Mathlib.Tactic.FieldSimp
import Mathlib.Tactic.Positivity
import Mathlib.Tactic.NormNum

namespace Geo.Proofs.Kernel
open Geo

/-- The point-set specification of the closed segment `[a, b]`. -/
def SegMem (p a b : Pt) : Prop :=
  ∃ t : Rat, 0 ≤ t ∧ t ≤ 1 ∧ p.x = a.x + t * (b.x - a.x) ∧ p.y = a.y + t * (b.y - a.y)

/-! ### orientation as the sign of the determinant -/

theorem orient_def (p q r : Pt) :
    orient p q r = if cross p q r > 0 then .ccw else if cross p q r < 0 then .cw else .col := rfl

theorem orient_col_iff (p q r : Pt) : orient p q r = .col ↔ cross p q r = 0 := by
  rw [orient_def]
  rcases lt_trichotomy (cross p q r) 0 with h | h | h
  · have : ¬ (cross p q r > 0) := by linarith
    simp [h, this, h.ne]
  · simp [h]
  · simp [h, h.ne']

theorem orient_ccw_iff (p q r : Pt) : orient p q r = .ccw ↔ 0 < cross p q r := by
  rw [orient_def]
  rcases lt_trichotomy (cross p q r) 0 with h | h | h
  · have : ¬ (cross p q r > 0) := by linarith
    simp [h, this]
  · simp [h]
  · simp [h]

theorem orient_cw_iff (p q r : Pt) : orient p q r = .cw ↔ cross p q r < 0 := by
  rw [orient_def]
  rcases lt_trichotomy (cross p q r) 0 with h | h | h
  · have : ¬ (cross p q r > 0) := by linarith
    simp [h, this]
  · simp [h]
  · have : ¬ (cross p q r < 0) := by linarith
    simp [h, this]

/-! ### ranges and boxes -/

theorem valueInRange_iff (v mn mx : Rat) : valueInRange v mn mx = true ↔ mn ≤ v ∧ v ≤ mx := by
  simp [valueInRange]

/-- `value_in_between` is symmetric in its bounds: `min b1 b2 ≤ v ≤ max b1 b2`. -/
theorem valueInBetween_iff (v b1 b2 : Rat) :
    valueInBetween v b1 b2 = true ↔ (b1 ≤ v ∧ v ≤ b2) ∨ (b2 ≤ v ∧ v ≤ b1) := by
  unfold valueInBetween
  split
  · rw [valueInRange_iff]
    constructor
    · intro h; exact Or.inl h
    · rintro (h | h)
      · exact h
      · constructor <;> linarith
  · rw [valueInRange_iff]
    constructor
    · intro h; exact Or.inr h
    · rintro (h | h)
      · constructor <;> linarith
      · exact h

theorem valueInBetween_iff_min_max (v b1 b2 : Rat) :
    valueInBetween v b1 b2 = true ↔ min b1 b2 ≤ v ∧ v ≤ max b1 b2 := by
  rw [valueInBetween_iff]
  rcases le_total b1 b2 with h | h
  · rw [min_eq_left h, max_eq_right h]
    constructor
    · rintro (h' | h')
      · exact h'
      · constructor <;> linarith
    · intro h'; exact Or.inl h'
  · rw [min_eq_right h, max_eq_left h]
    constructor
    · rintro (h' | h')
      · constructor <;> linarith
      · exact h'
    · intro h'; exact Or.inr h'

theorem valueInBetween_symm (v b1 b2 : Rat) : valueInBetween v b1 b2 = valueInBetween v b2 b1 := by
  rw [Bool.eq_iff_iff, valueInBetween_iff, valueInBetween_iff, or_comm]

theorem pointInRect_iff (p b1 b2 : Pt) :
    pointInRect p b1 b2 = true ↔
      ((b1.x ≤ p.x ∧ p.x ≤ b2.x) ∨ (b2.x ≤ p.x ∧ p.x ≤ b1.x)) ∧
      ((b1.y ≤ p.y ∧ p.y ≤ b2.y) ∨ (b2.y ≤ p.y ∧ p.y ≤ b1.y)) := by
  unfold pointInRect
  rw [Bool.and_eq_true, valueInBetween_iff, valueInBetween_iff]

theorem pointInRect_iff_min_max (p b1 b2 : Pt) :
    pointInRect p b1 b2 = true ↔
      (min b1.x b2.x ≤ p.x ∧ p.x ≤ max b1.x b2.x) ∧ (min b1.y b2.y ≤ p.y ∧ p.y ≤ max b1.y b2.y) := by
  unfold pointInRect
  rw [Bool.and_eq_true, valueInBetween_iff_min_max, valueInBetween_iff_min_max]

theorem pointInRect_symm (p b1 b2 : Pt) : pointInRect p b1 b2 = pointInRect p b2 b1 := by
  unfold pointInRect
  rw [valueInBetween_symm p.x, valueInBetween_symm p.y]

/-! ### point on segment -/

theorem SegMem_symm {p a b : Pt} (h : SegMem p a b) : SegMem p b a := by
  obtain ⟨t, h0, h1, hx, hy⟩ := h
  refine ⟨1 - t, by linarith, by linarith, ?_, ?_⟩
  · rw [hx]; ring
  · rw [hy]; ring

theorem SegMem_comm (p a b : Pt) : SegMem p a b ↔ SegMem p b a := ⟨SegMem_symm, SegMem_symm⟩

theorem SegMem_left (a b : Pt) : SegMem a a b := ⟨0, le_refl _, by norm_num, by ring, by ring⟩
theorem SegMem_right (a b : Pt) : SegMem b a b := ⟨1, by norm_num, le_refl _, by ring, by ring⟩

theorem Pt.ext' {p q : Pt} (hx : p.x = q.x) (hy : p.y = q.y) : p = q := by
  cases p; cases q; simp_all

theorem SegMem_degenerate (p a : Pt) : SegMem p a a ↔ p = a := by
  constructor
  · rintro ⟨t, _, _, hx, hy⟩
    apply Pt.ext'
    · rw [hx]; ring
    · rw [hy]; ring
  · rintro rfl; exact SegMem_left _ _

/-- A point of the segment is collinear with it. -/
theorem SegMem.cross_eq_zero {p a b : Pt} (h : SegMem p a b) : cross a b p = 0 := by
  obtain ⟨t, _, _, hx, hy⟩ := h
  unfold cross; rw [hx, hy]; ring

/-- A point of the segment lies in its bounding box. -/
theorem SegMem.inRect {p a b : Pt} (h : SegMem p a b) : pointInRect p a b = true := by
  obtain ⟨t, h0, h1, hx, hy⟩ := h
  rw [pointInRect_iff]
  have h1' : 0 ≤ 1 - t := by linarith
  constructor
  · rcases le_total a.x b.x with hab | hab
    · left
      have := mul_nonneg h0 (sub_nonneg.mpr hab)
      have := mul_nonneg h1' (sub_nonneg.mpr hab)
      constructor <;> nlinarith
    · right
      have := mul_nonneg h0 (sub_nonneg.mpr hab)
      have := mul_nonneg h1' (sub_nonneg.mpr hab)
      constructor <;> nlinarith
  · rcases le_total a.y b.y with hab | hab
    · left
      have := mul_nonneg h0 (sub_nonneg.mpr hab)
      have := mul_nonneg h1' (sub_nonneg.mpr hab)
      constructor <;> nlinarith
    · right
      have := mul_nonneg h0 (sub_nonneg.mpr hab)
      have := mul_nonneg h1' (sub_nonneg.mpr hab)
      constructor <;> nlinarith

/-- parameter extraction along a coordinate with `a ≠ b` -/
theorem param_of_between {u a b : Rat} (hne : a ≠ b)
    (h : (a ≤ u ∧ u ≤ b) ∨ (b ≤ u ∧ u ≤ a)) :
    0 ≤ (u - a) / (b - a) ∧ (u - a) / (b - a) ≤ 1 := by
  rcases lt_or_gt_of_ne hne with hlt | hgt
  · have hpos : 0 < b - a := by linarith
    rcases h with ⟨h1, h2⟩ | ⟨h1, h2⟩
    · exact ⟨div_nonneg (by linarith) hpos.le, (div_le_one hpos).mpr (by linarith)⟩
    · exfalso; linarith
  · have hneg : b - a < 0 := by linarith
    rcases h with ⟨h1, h2⟩ | ⟨h1, h2⟩
    · exfalso; linarith
    · exact ⟨div_nonneg_of_nonpos (by linarith) hneg.le, (div_le_one_of_neg hneg).mpr (by linarith)⟩

/-- Collinear and inside the bounding box ⇒ on the segment. -/
theorem SegMem_of_cross_of_inRect {p a b : Pt} (hc : cross a b p = 0)
    (hr : pointInRect p a b = true) : SegMem p a b := by
  rw [pointInRect_iff] at hr
  obtain ⟨hx, hy⟩ := hr
  unfold cross at hc
  by_cases hxe : a.x = b.x
  · by_cases hye : a.y = b.y
    · -- zero length
      refine ⟨0, le_refl _, by norm_num, ?_, ?_⟩
      · rw [← hxe] at hx; rcases hx with ⟨h1, h2⟩ | ⟨h1, h2⟩ <;> linarith
      · rw [← hye] at hy; rcases hy with ⟨h1, h2⟩ | ⟨h1, h2⟩ <;> linarith
    · -- vertical
      obtain ⟨t0, t1⟩ := param_of_between hye hy
      have hd : b.y - a.y ≠ 0 := fun h => hye (by linarith)
      refine ⟨(p.y - a.y) / (b.y - a.y), t0, t1, ?_, ?_⟩
      · have hpx : p.x = a.x := by
          rw [← hxe] at hx; rcases hx with ⟨h1, h2⟩ | ⟨h1, h2⟩ <;> linarith
        rw [hpx, ← hxe]; ring
      · field_simp; ring
  · obtain ⟨t0, t1⟩ := param_of_between hxe hx
    have hd : b.x - a.x ≠ 0 := fun h => hxe (by linarith)
    refine ⟨(p.x - a.x) / (b.x - a.x), t0, t1, ?_, ?_⟩
    · field_simp; ring
    · field_simp
      linarith

theorem lineCoord_eq (a b p : Pt) :
    lineCoord a b p = true ↔ cross a b p = 0 ∧ pointInRect p a b = true := by
  unfold lineCoord
  rw [Bool.and_eq_true, beq_iff_eq, orient_col_iff]

/-- `Line: Intersects<Coord>` is exactly membership in the closed segment. -/
theorem lineCoord_iff (a b p : Pt) : lineCoord a b p = true ↔ SegMem p a b := by
  rw [lineCoord_eq]
  exact ⟨fun h => SegMem_of_cross_of_inRect h.1 h.2, fun h => ⟨h.cross_eq_zero, h.inRect⟩⟩

example : lineCoord ⟨0, 0⟩ ⟨4, 2⟩ ⟨2, 1⟩ = true := by
  rw [lineCoord_iff]; exact ⟨1/2, by norm_num, by norm_num, by norm_num, by norm_num⟩


/-! ### segment × segment -/

/-- the sign classes of `orient`, as a function of the determinant -/
def oriOf (x : Rat) : Ori := if x > 0 then .ccw else if x < 0 then .cw else .col

/-- the reversed orientation (`Orientation` after exchanging two arguments of `orient2d`) -/
def oriRev : Ori → Ori
  | .ccw => .cw
  | .cw => .ccw
  | .col => .col

theorem orient_oriOf (p q r : Pt) : orient p q r = oriOf (cross p q r) := rfl

theorem oriOf_pos {x : Rat} (h : 0 < x) : oriOf x = .ccw := by simp [oriOf, h]
theorem oriOf_neg {x : Rat} (h : x < 0) : oriOf x = .cw := by
  have : ¬ (x > 0) := by linarith
  simp [oriOf, h, this]
theorem oriOf_zero : oriOf 0 = .col := by simp [oriOf]

theorem oriOf_eq_iff (x y : Rat) :
    oriOf x = oriOf y ↔ (0 < x ∧ 0 < y) ∨ (x < 0 ∧ y < 0) ∨ (x = 0 ∧ y = 0) := by
  rcases lt_trichotomy x 0 with hx | hx | hx <;> rcases lt_trichotomy y 0 with hy | hy | hy
  · rw [oriOf_neg hx, oriOf_neg hy]; simp [hx, hy]
  · subst hy; rw [oriOf_neg hx, oriOf_zero]; simp [hx.ne]
  · rw [oriOf_neg hx, oriOf_pos hy]
    have : ¬ (0 < x) := by linarith
    have : ¬ (y < 0) := by linarith
    simp [*, hx.ne]
  · subst hx; rw [oriOf_neg hy, oriOf_zero]; simp [hy.ne]
  · subst hx; subst hy; simp
  · subst hx; rw [oriOf_pos hy, oriOf_zero]; simp [hy.ne']
  · rw [oriOf_pos hx, oriOf_neg hy]
    have : ¬ (x < 0) := by linarith
    have : ¬ (0 < y) := by linarith
    simp [*, hx.ne']
  · subst hy; rw [oriOf_pos hx, oriOf_zero]; simp [hx.ne']
  · rw [oriOf_pos hx, oriOf_pos hy]; simp [hx, hy]

theorem oriOf_ne_iff (x y : Rat) : oriOf x ≠ oriOf y ↔ x * y ≤ 0 ∧ x ≠ y := by
  rw [Ne, oriOf_eq_iff]
  constructor
  · intro h
    constructor
    · by_contra hc
      have hc : 0 < x * y := lt_of_not_ge hc
      rcases lt_trichotomy x 0 with hx | hx | hx
      · have : y < 0 := by nlinarith
        exact h (Or.inr (Or.inl ⟨hx, this⟩))
      · subst hx; simp at hc
      · have : 0 < y := by nlinarith
        exact h (Or.inl ⟨hx, this⟩)
    · intro hxy
      subst hxy
      rcases lt_trichotomy x 0 with hx | hx | hx
      · exact h (Or.inr (Or.inl ⟨hx, hx⟩))
      · exact h (Or.inr (Or.inr ⟨hx, hx⟩))
      · exact h (Or.inl ⟨hx, hx⟩)
  · rintro ⟨hm, hne⟩ (⟨hx, hy⟩ | ⟨hx, hy⟩ | ⟨hx, hy⟩)
    · nlinarith
    · nlinarith
    · exact hne (by rw [hx, hy])

/-- `x / (x - y) ∈ [0, 1]` when `x` and `y` have (weakly) opposite signs and differ. -/
theorem ratio_mem {x y : Rat} (h : x * y ≤ 0) (hne : x ≠ y) :
    0 ≤ x / (x - y) ∧ x / (x - y) ≤ 1 := by
  rcases lt_or_gt_of_ne hne with hlt | hgt
  · have hx : x ≤ 0 := by
      by_contra hc
      have hc : 0 < x := lt_of_not_ge hc
      nlinarith
    have hd : x - y < 0 := by linarith
    exact ⟨div_nonneg_of_nonpos hx hd.le, (div_le_one_of_neg hd).mpr (by nlinarith)⟩
  · have hx : 0 ≤ x := by
      by_contra hc
      have hc : x < 0 := lt_of_not_ge hc
      nlinarith
    have hd : 0 < x - y := by linarith
    exact ⟨div_nonneg hx hd.le, (div_le_one hd).mpr (by nlinarith)⟩

/-- the determinant is affine in its last argument -/
theorem cross_affine (a b c d p : Pt) (s : Rat) (hx : p.x = c.x + s * (d.x - c.x))
    (hy : p.y = c.y + s * (d.y - c.y)) :
    cross a b p = (1 - s) * cross a b c + s * cross a b d := by
  unfold cross; rw [hx, hy]; ring

/-- the two "denominators" of the crossing case are opposite -/
theorem cross_diff (a b c d : Pt) :
    cross c d a - cross c d b = -(cross a b c - cross a b d) := by
  unfold cross; ring

/-- a convex combination of two numbers of one strict sign is not zero -/
theorem convex_pos {t x y : Rat} (h0 : 0 ≤ t) (h1 : t ≤ 1) (hx : 0 < x) (hy : 0 < y) :
    0 < (1 - t) * x + t * y := by
  rcases le_total x y with h | h
  · have := mul_nonneg h0 (sub_nonneg.mpr h); nlinarith
  · have := mul_nonneg (sub_nonneg.mpr h1) (sub_nonneg.mpr h); nlinarith

theorem convex_neg {t x y : Rat} (h0 : 0 ≤ t) (h1 : t ≤ 1) (hx : x < 0) (hy : y < 0) :
    (1 - t) * x + t * y < 0 := by
  have := convex_pos h0 h1 (neg_pos.mpr hx) (neg_pos.mpr hy)
  nlinarith

/-- The Cramer point of the two supporting lines, written from `a` along `ab`. -/
def crossPt (a b c d : Pt) : Pt :=
  ⟨a.x + cross c d a / (cross c d a - cross c d b) * (b.x - a.x),
   a.y + cross c d a / (cross c d a - cross c d b) * (b.y - a.y)⟩

/-- … is the same point written from `c` along `cd` (lines not parallel). -/
theorem crossPt_on_cd {a b c d : Pt} (hD : cross a b c ≠ cross a b d) :
    (crossPt a b c d).x = c.x + cross a b c / (cross a b c - cross a b d) * (d.x - c.x) ∧
    (crossPt a b c d).y = c.y + cross a b c / (cross a b c - cross a b d) * (d.y - c.y) := by
  have hD1 : cross a b c - cross a b d ≠ 0 := sub_ne_zero.mpr hD
  constructor
  · show a.x + cross c d a / (cross c d a - cross c d b) * (b.x - a.x)
        = c.x + cross a b c / (cross a b c - cross a b d) * (d.x - c.x)
    rw [cross_diff a b c d]
    field_simp
    unfold cross; ring
  · show a.y + cross c d a / (cross c d a - cross c d b) * (b.y - a.y)
        = c.y + cross a b c / (cross a b c - cross a b d) * (d.y - c.y)
    rw [cross_diff a b c d]
    field_simp
    unfold cross; ring

theorem crossPt_mem {a b c d : Pt}
    (hf : cross a b c * cross a b d ≤ 0 ∧ cross a b c ≠ cross a b d)
    (hg : cross c d a * cross c d b ≤ 0 ∧ cross c d a ≠ cross c d b) :
    SegMem (crossPt a b c d) a b ∧ SegMem (crossPt a b c d) c d := by
  obtain ⟨t0, t1⟩ := ratio_mem hg.1 hg.2
  obtain ⟨s0, s1⟩ := ratio_mem hf.1 hf.2
  obtain ⟨ex, ey⟩ := crossPt_on_cd hf.2
  exact ⟨⟨_, t0, t1, rfl, rfl⟩, ⟨_, s0, s1, ex, ey⟩⟩

/-- Crossing case, constructive direction: if the end points of each segment are on (weakly)
different sides of the other, the Cramer point is common to both. -/
theorem crossing_point {a b c d : Pt}
    (hf : cross a b c * cross a b d ≤ 0 ∧ cross a b c ≠ cross a b d)
    (hg : cross c d a * cross c d b ≤ 0 ∧ cross c d a ≠ cross c d b) :
    ∃ p, SegMem p a b ∧ SegMem p c d :=
  ⟨crossPt a b c d, crossPt_mem hf hg⟩

/-- Crossing case, other direction. -/
theorem sides_of_common {a b c d p : Pt} (hab : SegMem p a b) (hcd : SegMem p c d)
    (hf : cross a b c ≠ cross a b d) :
    cross c d a * cross c d b ≤ 0 ∧ cross c d a ≠ cross c d b := by
  obtain ⟨t, t0, t1, hx, hy⟩ := hab
  have hz := hcd.cross_eq_zero
  rw [cross_affine c d a b p t hx hy] at hz
  have hne : cross c d a ≠ cross c d b := by
    intro h
    apply hf
    have := cross_diff a b c d
    rw [h] at this
    linarith
  refine ⟨?_, hne⟩
  by_contra hc
  have hc : 0 < cross c d a * cross c d b := lt_of_not_ge hc
  rcases lt_trichotomy (cross c d a) 0 with ha | ha | ha
  · have hb : cross c d b < 0 := by nlinarith
    have := convex_neg t0 t1 ha hb
    linarith
  · rw [ha] at hc; simp at hc
  · have hb : 0 < cross c d b := by nlinarith
    have := convex_pos t0 t1 ha hb
    linarith

/-- a point collinear with a non-degenerate segment has a parameter on its supporting line -/
theorem exists_param {a b x : Pt} (hab : a ≠ b) (h : cross a b x = 0) :
    ∃ τ : Rat, x.x = a.x + τ * (b.x - a.x) ∧ x.y = a.y + τ * (b.y - a.y) := by
  unfold cross at h
  by_cases hxe : a.x = b.x
  · have hye : a.y ≠ b.y := fun hy => hab (Pt.ext' hxe hy)
    have hd : b.y - a.y ≠ 0 := fun h => hye (by linarith)
    refine ⟨(x.y - a.y) / (b.y - a.y), ?_, ?_⟩
    · have h2 : (b.y - a.y) * (x.x - b.x) = 0 := by rw [hxe] at h; linarith
      rcases mul_eq_zero.mp h2 with h3 | h3
      · exact absurd h3 hd
      · rw [hxe]; linarith
    · field_simp; ring
  · have hd : b.x - a.x ≠ 0 := fun h => hxe (by linarith)
    refine ⟨(x.x - a.x) / (b.x - a.x), ?_, ?_⟩
    · field_simp; ring
    · field_simp; linarith

theorem param_inj {a b : Pt} (hab : a ≠ b) {t t' : Rat}
    (hx : t * (b.x - a.x) = t' * (b.x - a.x)) (hy : t * (b.y - a.y) = t' * (b.y - a.y)) : t = t' := by
  by_cases hxe : a.x = b.x
  · have hye : a.y ≠ b.y := fun hy => hab (Pt.ext' hxe hy)
    exact mul_right_cancel₀ (fun h => hye (by linarith)) hy
  · exact mul_right_cancel₀ (fun h => hxe (by linarith)) hx

/-- with `a ≠ b` and `c`, `d` on the line `ab`, the point `b` is on the line `cd` -/
theorem cross_of_collinear {a b c d : Pt} (hab : a ≠ b) (hc : cross a b c = 0)
    (hd : cross a b d = 0) (x : Pt) (hx : cross a b x = 0) : cross c d x = 0 := by
  obtain ⟨γ, hcx, hcy⟩ := exists_param hab hc
  obtain ⟨δ, hdx, hdy⟩ := exists_param hab hd
  obtain ⟨ξ, hxx, hxy⟩ := exists_param hab hx
  unfold cross; rw [hcx, hcy, hdx, hdy, hxx, hxy]; ring

/-- All-collinear case: the three box tests that the code performs (`c`, `d` in the box of
`ab`; `b` in the box of `cd` — twice) decide whether the segments share a point; the test of
`a` against `cd`, which the code never performs, is implied. -/
theorem collinear_case {a b c d : Pt} (hab : a ≠ b) (hc : cross a b c = 0) (hd : cross a b d = 0) :
    (pointInRect c a b = true ∨ pointInRect d a b = true ∨ pointInRect b c d = true) ↔
      ∃ p, SegMem p a b ∧ SegMem p c d := by
  constructor
  · rintro (h | h | h)
    · exact ⟨c, SegMem_of_cross_of_inRect hc h, SegMem_left _ _⟩
    · exact ⟨d, SegMem_of_cross_of_inRect hd h, SegMem_right _ _⟩
    · have hb : cross a b b = 0 := by unfold cross; ring
      exact ⟨b, SegMem_right _ _, SegMem_of_cross_of_inRect (cross_of_collinear hab hc hd b hb) h⟩
  · rintro ⟨p, ⟨t, t0, t1, hpx, hpy⟩, ⟨s, s0, s1, hqx, hqy⟩⟩
    obtain ⟨γ, hcx, hcy⟩ := exists_param hab hc
    obtain ⟨δ, hdx, hdy⟩ := exists_param hab hd
    have ht : t = γ + s * (δ - γ) := by
      apply param_inj hab
      · rw [hpx, hcx, hdx] at hqx; linarith
      · rw [hpy, hcy, hdy] at hqy; linarith
    by_cases hγ : 0 ≤ γ ∧ γ ≤ 1
    · exact Or.inl (SegMem.inRect ⟨γ, hγ.1, hγ.2, hcx, hcy⟩)
    by_cases hδ : 0 ≤ δ ∧ δ ≤ 1
    · exact Or.inr (Or.inl (SegMem.inRect ⟨δ, hδ.1, hδ.2, hdx, hdy⟩))
    right; right
    apply SegMem.inRect
    have key : ∃ s' : Rat, 0 ≤ s' ∧ s' ≤ 1 ∧ 1 = γ + s' * (δ - γ) := by
      rcases lt_or_ge γ 0 with g0 | g0
      · rcases lt_or_ge δ 0 with d0 | d0
        · exfalso
          have := mul_nonneg s0 (le_of_lt (neg_pos.mpr d0))
          have := mul_nonneg (sub_nonneg.mpr s1) (le_of_lt (neg_pos.mpr g0))
          nlinarith
        · have d1 : 1 < δ := by
            by_contra hc'; exact hδ ⟨d0, le_of_not_gt hc'⟩
          have hpos : 0 < δ - γ := by linarith
          refine ⟨(1 - γ) / (δ - γ), div_nonneg (by linarith) hpos.le,
            (div_le_one hpos).mpr (by linarith), ?_⟩
          field_simp; ring
      · have g1 : 1 < γ := by
          by_contra hc'; exact hγ ⟨g0, le_of_not_gt hc'⟩
        rcases lt_or_ge δ 0 with d0 | d0
        · have hneg : δ - γ < 0 := by linarith
          have hne : δ - γ ≠ 0 := hneg.ne
          refine ⟨(1 - γ) / (δ - γ), div_nonneg_of_nonpos (by linarith) hneg.le,
            (div_le_one_of_neg hneg).mpr (by linarith), ?_⟩
          field_simp; ring
        · have d1 : 1 < δ := by
            by_contra hc'; exact hδ ⟨d0, le_of_not_gt hc'⟩
          exfalso
          have := mul_nonneg s0 (sub_nonneg.mpr d1.le)
          have := mul_nonneg (sub_nonneg.mpr s1) (sub_nonneg.mpr g1.le)
          nlinarith
    obtain ⟨s', s0', s1', hs'⟩ := key
    refine ⟨s', s0', s1', ?_, ?_⟩
    · have : b.x = a.x + (γ + s' * (δ - γ)) * (b.x - a.x) := by rw [← hs']; ring
      rw [hcx, hdx]; linarith
    · have : b.y = a.y + (γ + s' * (δ - γ)) * (b.y - a.y) := by rw [← hs']; ring
      rw [hcy, hdy]; linarith

/-- reversing the base segment negates the determinant -/
theorem cross_rev (c d x : Pt) : cross d c x = - cross c d x := by
  unfold cross; ring

/-- Two non-parallel lines have at most one common point. -/
theorem unique_common {a b c d x y : Pt} (hD : cross a b c ≠ cross a b d)
    (hx1 : cross a b x = 0) (hx2 : cross c d x = 0) (hy1 : cross a b y = 0) (hy2 : cross c d y = 0) :
    x = y := by
  have hD1 : cross a b c - cross a b d ≠ 0 := sub_ne_zero.mpr hD
  have ex : (x.x - y.x) * (cross a b c - cross a b d) =
      (b.x - a.x) * (cross c d x - cross c d y) - (d.x - c.x) * (cross a b x - cross a b y) := by
    unfold cross; ring
  have ey : (x.y - y.y) * (cross a b c - cross a b d) =
      (b.y - a.y) * (cross c d x - cross c d y) - (d.y - c.y) * (cross a b x - cross a b y) := by
    unfold cross; ring
  rw [hx1, hx2, hy1, hy2] at ex ey
  apply Pt.ext'
  · have : (x.x - y.x) * (cross a b c - cross a b d) = 0 := by rw [ex]; ring
    rcases mul_eq_zero.mp this with h | h
    · linarith
    · exact absurd h hD1
  · have : (x.y - y.y) * (cross a b c - cross a b d) = 0 := by rw [ey]; ring
    rcases mul_eq_zero.mp this with h | h
    · linarith
    · exact absurd h hD1

/-- An end point of `cd` that lies on the line `ab` while the other one does not, with `a`, `b`
on weakly different sides of `cd`, lies on the segment `ab`. -/
theorem endpoint_mem {a b c d : Pt} (hc : cross a b c = 0) (hd : cross a b d ≠ 0)
    (hg : cross c d a * cross c d b ≤ 0) : SegMem c a b := by
  have hf : cross a b c * cross a b d ≤ 0 ∧ cross a b c ≠ cross a b d := by
    rw [hc]; exact ⟨by simp, fun h => hd h.symm⟩
  have hg' : cross c d a ≠ cross c d b := by
    intro h
    have := cross_diff a b c d
    rw [h, hc] at this
    apply hd; linarith
  have hm := (crossPt_mem hf ⟨hg, hg'⟩).1
  obtain ⟨ex, ey⟩ := crossPt_on_cd hf.2
  rw [hc] at ex ey
  have : crossPt a b c d = c := by
    apply Pt.ext'
    · rw [ex]; simp
    · rw [ey]; simp
  rw [this] at hm
  exact hm

/-- the same for the second end point -/
theorem endpoint_mem' {a b c d : Pt} (hd : cross a b d = 0) (hc : cross a b c ≠ 0)
    (hg : cross c d a * cross c d b ≤ 0) : SegMem d a b := by
  apply endpoint_mem (c := d) (d := c) hd hc
  rw [cross_rev c d a, cross_rev c d b, neg_mul_neg]
  exact hg

/-- Membership in a segment of the line `ab` (`a ≠ b`), in terms of parameters along `ab`. -/
theorem SegMem_param {a b c d x : Pt} (hab : a ≠ b) {γ δ ξ : Rat}
    (hcx : c.x = a.x + γ * (b.x - a.x)) (hcy : c.y = a.y + γ * (b.y - a.y))
    (hdx : d.x = a.x + δ * (b.x - a.x)) (hdy : d.y = a.y + δ * (b.y - a.y))
    (hxx : x.x = a.x + ξ * (b.x - a.x)) (hxy : x.y = a.y + ξ * (b.y - a.y)) :
    SegMem x c d ↔ (γ ≤ ξ ∧ ξ ≤ δ) ∨ (δ ≤ ξ ∧ ξ ≤ γ) := by
  constructor
  · rintro ⟨s, s0, s1, hx, hy⟩
    have hξ : ξ = γ + s * (δ - γ) := by
      apply param_inj hab
      · rw [hxx, hcx, hdx] at hx; linarith
      · rw [hxy, hcy, hdy] at hy; linarith
    rcases le_total γ δ with h | h
    · left
      have := mul_nonneg s0 (sub_nonneg.mpr h)
      have := mul_nonneg (sub_nonneg.mpr s1) (sub_nonneg.mpr h)
      constructor <;> nlinarith
    · right
      have := mul_nonneg s0 (sub_nonneg.mpr h)
      have := mul_nonneg (sub_nonneg.mpr s1) (sub_nonneg.mpr h)
      constructor <;> nlinarith
  · intro h
    by_cases hγδ : γ = δ
    · subst hγδ
      have : ξ = γ := by rcases h with ⟨h1, h2⟩ | ⟨h1, h2⟩ <;> linarith
      subst this
      refine ⟨0, le_refl _, by norm_num, ?_, ?_⟩
      · rw [hxx, hcx]; ring
      · rw [hxy, hcy]; ring
    · obtain ⟨s0, s1⟩ := param_of_between hγδ h
      have hne : δ - γ ≠ 0 := fun h' => hγδ (by linarith)
      have hs : (ξ - γ) / (δ - γ) * (δ - γ) = ξ - γ := div_mul_cancel₀ _ hne
      refine ⟨(ξ - γ) / (δ - γ), s0, s1, ?_, ?_⟩
      · rw [hxx, hcx, hdx]
        have : (ξ - γ) / (δ - γ) * (a.x + δ * (b.x - a.x) - (a.x + γ * (b.x - a.x)))
            = (ξ - γ) / (δ - γ) * (δ - γ) * (b.x - a.x) := by ring
        rw [this, hs]; ring
      · rw [hxy, hcy, hdy]
        have : (ξ - γ) / (δ - γ) * (a.y + δ * (b.y - a.y) - (a.y + γ * (b.y - a.y)))
            = (ξ - γ) / (δ - γ) * (δ - γ) * (b.y - a.y) := by ring
        rw [this, hs]; ring

theorem lineLine_def (a b c d : Pt) :
    lineLine a b c d =
      if a == b then lineCoord c d a
      else if orient a b c != orient a b d then orient c d a != orient c d b
      else if orient a b c == .col then
        pointInRect c a b || pointInRect d a b || pointInRect b c d || pointInRect b c d
      else false := rfl

/-- `Line: Intersects<Line>` decides whether the two closed segments share a point. -/
theorem lineLine_iff (a b c d : Pt) :
    lineLine a b c d = true ↔ ∃ p, SegMem p a b ∧ SegMem p c d := by
  rw [lineLine_def]
  by_cases hab : a = b
  · subst hab
    simp only [beq_self_eq_true, if_true]
    rw [lineCoord_iff]
    constructor
    · intro h; exact ⟨a, SegMem_left _ _, h⟩
    · rintro ⟨p, h1, h2⟩
      rw [SegMem_degenerate] at h1
      rw [← h1]; exact h2
  · have hab' : (a == b) = false := by simp [hab]
    rw [hab', if_neg (by simp)]
    by_cases hne : orient a b c = orient a b d
    · have : (orient a b c != orient a b d) = false := by simp [hne]
      rw [this, if_neg (by simp)]
      by_cases hcol : orient a b c = .col
      · have hc := (orient_col_iff _ _ _).mp hcol
        have hd := (orient_col_iff _ _ _).mp (hne ▸ hcol)
        have : (orient a b c == Ori.col) = true := by simp [hcol]
        rw [this, if_pos rfl, ← collinear_case hab hc hd]
        simp only [Bool.or_eq_true]
        tauto
      · have : (orient a b c == Ori.col) = false := by simp [hcol]
        rw [this, if_neg (by simp)]
        constructor
        · intro h; cases h
        · rintro ⟨p, hp, ⟨s, s0, s1, hx, hy⟩⟩
          exfalso
          have hz := hp.cross_eq_zero
          rw [cross_affine a b c d p s hx hy] at hz
          rw [orient_oriOf, orient_oriOf, oriOf_eq_iff] at hne
          rcases hne with ⟨h1, h2⟩ | ⟨h1, h2⟩ | ⟨h1, h2⟩
          · have := convex_pos s0 s1 h1 h2; linarith
          · have := convex_neg s0 s1 h1 h2; linarith
          · exact hcol ((orient_col_iff _ _ _).mpr h1)
    · have : (orient a b c != orient a b d) = true := by simp [hne]
      rw [this, if_pos rfl]
      have hf : cross a b c * cross a b d ≤ 0 ∧ cross a b c ≠ cross a b d := by
        rw [← oriOf_ne_iff]; exact hne
      rw [bne_iff_ne, orient_oriOf, orient_oriOf, oriOf_ne_iff]
      constructor
      · intro hg; exact crossing_point hf hg
      · rintro ⟨p, h1, h2⟩; exact sides_of_common h1 h2 hf.2

example : lineLine ⟨0, 0⟩ ⟨2, 2⟩ ⟨0, 2⟩ ⟨2, 0⟩ = true := by
  rw [lineLine_iff]
  exact ⟨⟨1, 1⟩, ⟨1/2, by norm_num, by norm_num, by norm_num, by norm_num⟩,
    ⟨1/2, by norm_num, by norm_num, by norm_num, by norm_num⟩⟩

/-- `Line: Intersects<Line>` is symmetric in its operands (although the code is not). -/
theorem lineLine_symm (a b c d : Pt) : lineLine a b c d = lineLine c d a b := by
  rw [Bool.eq_iff_iff, lineLine_iff, lineLine_iff]
  constructor <;> rintro ⟨p, h1, h2⟩ <;> exact ⟨p, h2, h1⟩


/-! ### rectangles -/

theorem rectCoord_iff (mn mx p : Pt) :
    rectCoord mn mx p = true ↔ mn.x ≤ p.x ∧ p.x ≤ mx.x ∧ mn.y ≤ p.y ∧ p.y ≤ mx.y := by
  simp only [rectCoord, Bool.and_eq_true, decide_eq_true_eq, ge_iff_le]
  tauto

/-- `Rect: Contains<Coord>` is the strict version of `rectCoord`. -/
theorem rectContainsCoord_iff (mn mx p : Pt) :
    rectContainsCoord mn mx p = true ↔ mn.x < p.x ∧ p.x < mx.x ∧ mn.y < p.y ∧ p.y < mx.y := by
  simp only [rectContainsCoord, Bool.and_eq_true, decide_eq_true_eq, gt_iff_lt]
  tauto

theorem rectContainsCoord_imp_rectCoord (mn mx p : Pt) (h : rectContainsCoord mn mx p = true) :
    rectCoord mn mx p = true := by
  rw [rectContainsCoord_iff] at h
  rw [rectCoord_iff]
  exact ⟨h.1.le, h.2.1.le, h.2.2.1.le, h.2.2.2.le⟩

theorem rectRect_eq (amn amx bmn bmx : Pt) :
    rectRect amn amx bmn bmx = true ↔
      bmn.x ≤ amx.x ∧ bmn.y ≤ amx.y ∧ amn.x ≤ bmx.x ∧ amn.y ≤ bmx.y := by
  unfold rectRect
  constructor
  · intro h
    split at h
    · cases h
    · split at h
      · cases h
      · split at h
        · cases h
        · split at h
          · cases h
          · refine ⟨?_, ?_, ?_, ?_⟩ <;> linarith
  · rintro ⟨h1, h2, h3, h4⟩
    rw [if_neg (by linarith), if_neg (by linarith), if_neg (by linarith), if_neg (by linarith)]

/-- `Rect: Intersects<Rect>` on valid rectangles (`min ≤ max` component-wise) decides whether the
two closed rectangles share a point. -/
theorem rectRect_iff (amn amx bmn bmx : Pt)
    (hax : amn.x ≤ amx.x) (hay : amn.y ≤ amx.y) (hbx : bmn.x ≤ bmx.x) (hby : bmn.y ≤ bmx.y) :
    rectRect amn amx bmn bmx = true ↔
      ∃ p, rectCoord amn amx p = true ∧ rectCoord bmn bmx p = true := by
  rw [rectRect_eq]
  constructor
  · rintro ⟨h1, h2, h3, h4⟩
    refine ⟨⟨max amn.x bmn.x, max amn.y bmn.y⟩, ?_, ?_⟩
    · rw [rectCoord_iff]
      exact ⟨le_max_left _ _, max_le hax h1, le_max_left _ _, max_le hay h2⟩
    · rw [rectCoord_iff]
      exact ⟨le_max_right _ _, max_le h3 hbx, le_max_right _ _, max_le h4 hby⟩
  · rintro ⟨p, hp, hq⟩
    rw [rectCoord_iff] at hp hq
    refine ⟨?_, ?_, ?_, ?_⟩ <;> linarith [hp.1, hp.2.1, hp.2.2.1, hp.2.2.2, hq.1, hq.2.1, hq.2.2.1, hq.2.2.2]

example : rectRect ⟨0, 0⟩ ⟨2, 2⟩ ⟨2, 1⟩ ⟨3, 5⟩ = true := by
  rw [rectRect_iff _ _ _ _ (by norm_num) (by norm_num) (by norm_num) (by norm_num)]
  exact ⟨⟨2, 1⟩, by norm_num [rectCoord], by norm_num [rectCoord]⟩

/-! ### triangles -/

/-- `Triangle: Contains<Coord>`: the three edge determinants are strictly of one sign. -/
theorem triContainsCoord_iff (a b c p : Pt) :
    triContainsCoord a b c p = true ↔
      (0 < cross a b p ∧ 0 < cross b c p ∧ 0 < cross c a p) ∨
      (cross a b p < 0 ∧ cross b c p < 0 ∧ cross c a p < 0) := by
  have key : ∀ x y z : Ori, ((x == y && x != .col) && (y == z && y != .col)) = true ↔
      (x = .ccw ∧ y = .ccw ∧ z = .ccw) ∨ (x = .cw ∧ y = .cw ∧ z = .cw) := by
    intro x y z; cases x <;> cases y <;> cases z <;> decide
  show ((orient a b p == orient b c p && orient a b p != .col) &&
        (orient b c p == orient c a p && orient b c p != .col)) = true ↔ _
  rw [key, orient_ccw_iff, orient_ccw_iff, orient_ccw_iff, orient_cw_iff, orient_cw_iff, orient_cw_iff]

/-- What the sorted-window test of `Triangle: Intersects<Coord>` computes on three orientations:
"not both a counter-clockwise and a clockwise one". -/
theorem triWindow_iff (x y z : Ori) :
    (let (o0, o1, o2) := sort3 x y z
     !((o0 != o1 && o1 != .col) || (o1 != o2 && o2 != .col))) = true ↔
      ¬ ((x = .ccw ∨ y = .ccw ∨ z = .ccw) ∧ (x = .cw ∨ y = .cw ∨ z = .cw)) := by
  cases x <;> cases y <;> cases z <;> decide

/-- `Triangle: Intersects<Coord>`: no two edge determinants have strictly opposite signs. -/
theorem triCoord_iff (a b c p : Pt) :
    triCoord a b c p = true ↔
      ¬ ((0 < cross a b p ∨ 0 < cross b c p ∨ 0 < cross c a p) ∧
         (cross a b p < 0 ∨ cross b c p < 0 ∨ cross c a p < 0)) := by
  unfold triCoord
  rw [triWindow_iff, orient_ccw_iff, orient_ccw_iff, orient_ccw_iff, orient_cw_iff, orient_cw_iff,
    orient_cw_iff]

/-- the same, as "all weakly of one sign" -/
theorem triCoord_iff_weak (a b c p : Pt) :
    triCoord a b c p = true ↔
      (0 ≤ cross a b p ∧ 0 ≤ cross b c p ∧ 0 ≤ cross c a p) ∨
      (cross a b p ≤ 0 ∧ cross b c p ≤ 0 ∧ cross c a p ≤ 0) := by
  rw [triCoord_iff]
  constructor
  · intro h
    by_cases hpos : 0 < cross a b p ∨ 0 < cross b c p ∨ 0 < cross c a p
    · left
      refine ⟨?_, ?_, ?_⟩ <;> (by_contra hc; exact h ⟨hpos, by simp only [not_le] at hc; tauto⟩)
    · right
      simp only [not_or, not_lt] at hpos
      exact hpos
  · rintro (⟨h1, h2, h3⟩ | ⟨h1, h2, h3⟩) ⟨hp, hn⟩
    · rcases hn with h | h | h <;> linarith
    · rcases hp with h | h | h <;> linarith

theorem triContainsCoord_imp_triCoord (a b c p : Pt) (h : triContainsCoord a b c p = true) :
    triCoord a b c p = true := by
  rw [triContainsCoord_iff] at h
  rw [triCoord_iff_weak]
  rcases h with ⟨h1, h2, h3⟩ | ⟨h1, h2, h3⟩
  · exact Or.inl ⟨h1.le, h2.le, h3.le⟩
  · exact Or.inr ⟨h1.le, h2.le, h3.le⟩

example : triContainsCoord ⟨0, 0⟩ ⟨4, 0⟩ ⟨0, 4⟩ ⟨1, 1⟩ = true := by
  rw [triContainsCoord_iff]; left; norm_num [cross]

/-- The point-set specification of the closed triangle (barycentric coordinates). -/
def TriMem (p a b c : Pt) : Prop :=
  ∃ u v w : Rat, 0 ≤ u ∧ 0 ≤ v ∧ 0 ≤ w ∧ u + v + w = 1 ∧
    p.x = u * a.x + v * b.x + w * c.x ∧ p.y = u * a.y + v * b.y + w * c.y

/-- … and of its interior. -/
def TriInterior (p a b c : Pt) : Prop :=
  ∃ u v w : Rat, 0 < u ∧ 0 < v ∧ 0 < w ∧ u + v + w = 1 ∧
    p.x = u * a.x + v * b.x + w * c.x ∧ p.y = u * a.y + v * b.y + w * c.y

theorem cross_sum (a b c p : Pt) : cross b c p + cross c a p + cross a b p = cross a b c := by
  unfold cross; ring

theorem bary_x (a b c p : Pt) :
    cross a b c * p.x = cross b c p * a.x + cross c a p * b.x + cross a b p * c.x := by
  unfold cross; ring

theorem bary_y (a b c p : Pt) :
    cross a b c * p.y = cross b c p * a.y + cross c a p * b.y + cross a b p * c.y := by
  unfold cross; ring

private theorem bary_cross {a b c p : Pt} {u v w : Rat} (hs : u + v + w = 1)
    (hx : p.x = u * a.x + v * b.x + w * c.x) (hy : p.y = u * a.y + v * b.y + w * c.y) :
    cross b c p = u * cross a b c ∧ cross c a p = v * cross a b c ∧ cross a b p = w * cross a b c := by
  have hu : u = 1 - v - w := by linarith
  subst hu
  refine ⟨?_, ?_, ?_⟩ <;> (unfold cross; rw [hx, hy]; ring)

private theorem bary_witness {a b c p : Pt} (hD : cross a b c ≠ 0) :
    cross b c p / cross a b c + cross c a p / cross a b c + cross a b p / cross a b c = 1 ∧
    p.x = cross b c p / cross a b c * a.x + cross c a p / cross a b c * b.x
            + cross a b p / cross a b c * c.x ∧
    p.y = cross b c p / cross a b c * a.y + cross c a p / cross a b c * b.y
            + cross a b p / cross a b c * c.y := by
  have h1 := cross_sum a b c p
  have h2 := bary_x a b c p
  have h3 := bary_y a b c p
  refine ⟨?_, ?_, ?_⟩
  · field_simp; linarith
  · field_simp; linarith
  · field_simp; linarith

/-- For a non-degenerate triangle `Triangle: Intersects<Coord>` is membership in the closed
triangle. -/
theorem triCoord_iff_mem (a b c p : Pt) (hD : cross a b c ≠ 0) :
    triCoord a b c p = true ↔ TriMem p a b c := by
  rw [triCoord_iff_weak]
  obtain ⟨w1, w2, w3⟩ := bary_witness (p := p) hD
  have hsum := cross_sum a b c p
  constructor
  · rintro (⟨h1, h2, h3⟩ | ⟨h1, h2, h3⟩)
    · have hpos : 0 < cross a b c := lt_of_le_of_ne (by linarith) (Ne.symm hD)
      exact ⟨_, _, _, div_nonneg h2 hpos.le, div_nonneg h3 hpos.le, div_nonneg h1 hpos.le, w1, w2, w3⟩
    · have hneg : cross a b c < 0 := lt_of_le_of_ne (by linarith) hD
      exact ⟨_, _, _, div_nonneg_of_nonpos h2 hneg.le, div_nonneg_of_nonpos h3 hneg.le,
        div_nonneg_of_nonpos h1 hneg.le, w1, w2, w3⟩
  · rintro ⟨u, v, w, hu, hv, hw, hs, hx, hy⟩
    obtain ⟨e1, e2, e3⟩ := bary_cross hs hx hy
    rw [e1, e2, e3]
    rcases lt_or_gt_of_ne hD with hneg | hpos
    · right
      exact ⟨mul_nonpos_of_nonneg_of_nonpos hw hneg.le, mul_nonpos_of_nonneg_of_nonpos hu hneg.le,
        mul_nonpos_of_nonneg_of_nonpos hv hneg.le⟩
    · left
      exact ⟨mul_nonneg hw hpos.le, mul_nonneg hu hpos.le, mul_nonneg hv hpos.le⟩

/-- For a non-degenerate triangle `Triangle: Contains<Coord>` is membership in the interior. -/
theorem triContainsCoord_iff_interior (a b c p : Pt) (hD : cross a b c ≠ 0) :
    triContainsCoord a b c p = true ↔ TriInterior p a b c := by
  rw [triContainsCoord_iff]
  obtain ⟨w1, w2, w3⟩ := bary_witness (p := p) hD
  have hsum := cross_sum a b c p
  constructor
  · rintro (⟨h1, h2, h3⟩ | ⟨h1, h2, h3⟩)
    · have hpos : 0 < cross a b c := by linarith
      exact ⟨_, _, _, div_pos h2 hpos, div_pos h3 hpos, div_pos h1 hpos, w1, w2, w3⟩
    · have hneg : cross a b c < 0 := by linarith
      exact ⟨_, _, _, div_pos_of_neg_of_neg h2 hneg, div_pos_of_neg_of_neg h3 hneg,
        div_pos_of_neg_of_neg h1 hneg, w1, w2, w3⟩
  · rintro ⟨u, v, w, hu, hv, hw, hs, hx, hy⟩
    obtain ⟨e1, e2, e3⟩ := bary_cross hs hx hy
    rw [e1, e2, e3]
    rcases lt_or_gt_of_ne hD with hneg | hpos
    · right
      exact ⟨mul_neg_of_pos_of_neg hw hneg, mul_neg_of_pos_of_neg hu hneg, mul_neg_of_pos_of_neg hv hneg⟩
    · left
      exact ⟨mul_pos hw hpos, mul_pos hu hpos, mul_pos hv hpos⟩

example : triCoord ⟨0, 0⟩ ⟨4, 0⟩ ⟨0, 4⟩ ⟨2, 2⟩ = true := by
  rw [triCoord_iff_mem _ _ _ _ (by norm_num [cross])]
  exact ⟨0, 1/2, 1/2, by norm_num, by norm_num, by norm_num, by norm_num, by norm_num, by norm_num⟩

end Geo.Proofs.Kernel
