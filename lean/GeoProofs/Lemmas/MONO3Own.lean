/-
  MONO3 (C10): chain-index ownership is an invariant of the run of the builder model — for all inputs.
-/
import GeoProofs.Lemmas.MONO3AsmB
import GeoProofs.Lemmas.MONO3Glue

namespace Geo.Proofs.MONO3
open Geo Geo.Mono Geo.MonoBuild Geo.Proofs.C10 Geo.Proofs.MONO Geo.Proofs.MONO2

/-- the invariants carried between two calls of `process_next_pt` -/
structure RunInv (st : St) : Prop where
  s : SInv st
  e : EInv st
  l : LB st
  o : OwnB st

/-- the facts in the state that `next_point` returns -/
structure MidFacts (pt : Pt) (st1 : St) : Prop where
  s : SInv st1
  after : After pt st1
  io : IO pt st1
  own : OwnM pt st1
  nd : st1.incoming.Nodup
  lefts : ∀ (j : Nat) (s : Seg), st1.segs[j]? = some s →
    (⟨s.line.left, .lineLeft, j⟩ : Ev) ∈ st1.events ∨ lexLt s.line.left pt = true ∨ j ∈ st1.outgoing
  outs : ∀ o ∈ st1.outgoing, ∀ s : Seg, st1.segs[o]? = some s → s.info.help = none ∧ s.info.helperChain = none
  einv : EInv st1

theorem nextPoint_mid {fuel : Nat} {st st1 : St} {pt : Pt} (hr : RunInv st)
    (e1 : nextPoint fuel { st with incoming := [], outgoing := [] } = some (st1, some pt)) : MidFacts pt st1 := by
  have hi0 : SInv { st with incoming := [], outgoing := [] } :=
    ⟨hr.s.heap, hr.s.lines, fun e he => (hr.s.evs e he).congr rfl⟩
  have hlb0 : LB { st with incoming := [], outgoing := [] } := hr.l
  have ho0 : OwnB { st with incoming := [], outgoing := [] } := ⟨hr.o.lt, hr.o.hc, hr.o.inj⟩
  obtain ⟨i1, _, a1, _⟩ := nextPoint_sinv hi0 e1
  have ha := nextPoint_ainv hi0 hlb0 ⟨rfl, rfl⟩ e1
  have n1 := nextPoint_ninv hi0 ⟨hr.e.nd, hr.e.ge⟩ ⟨rfl, rfl⟩ e1
  refine ⟨i1, a1, nextPoint_io hi0 ⟨rfl, rfl⟩ e1, ownM_of_ownB hi0 hlb0 ho0 ⟨rfl, rfl⟩ e1, n1.inc, ?_, ha.outs,
    n1.einv⟩
  intro j s hj
  rcases ha.lefts j s hj with g | g | g | g
  · exact Or.inl g
  · exact Or.inr (Or.inl g)
  · exact Or.inr (Or.inr g)
  · exact absurd g (fun h => h)

theorem refs_sub {s s' : Seg} (hc : s'.info.chainIdx = s.info.chainIdx)
    (hh : s'.info.help = s.info.help ∨ s'.info.help = none) {a k : Nat} (h : refOf s'.info a = some k) :
    refOf s.info a = some k := refOf_sub hc hh h

/-- one `process_next_pt` keeps the invariants -/
theorem processNextPt_own {fuel : Nat} {st st' : St} (hr : RunInv st)
    (h : processNextPt fuel st = some (st', true)) : RunInv st' := by
  have hs' := processNextPt_sinv hr.s h
  have he' := processNextPt_einv hr.s hr.e h
  obtain ⟨st1, pt, incoming, outgoing, si, st2, st3, ic, st4, e1, hin, hout, hsi, e2, e3, e4, e5⟩ :=
    processNextPt_factor h
  have mf := nextPoint_mid hr e1
  have pin := sortBy_perm hin
  have pout := sortBy_perm hout
  have hi0 : SInv { st with incoming := [], outgoing := [] } :=
    ⟨hr.s.heap, hr.s.lines, fun e he => (hr.s.evs e he).congr rfl⟩
  generalize hbd : st1.prevActive pt = bot at e3 e5
  have hbnot : ∀ b, bot = some b → b ∉ st1.incoming ∧ b ∉ st1.outgoing := fun b hb =>
    prevActive_not_hand hi0 ⟨rfl, rfl⟩ e1 (hbd.trans hb)
  have hbac : ∀ b, bot = some b → ∃ sb : Seg, st1.segs[b]? = some sb ∧ lexLt sb.line.left pt = true ∧
      lexLt pt sb.line.right = true := fun b hb => prevActive_across mf.s (hbd.trans hb)
  -- the segments that continue through `pt`
  let C : Nat → Prop := fun j => ∃ s : Seg, st1.segs[j]? = some s ∧ lexLt s.line.left pt = true ∧
    lexLt pt s.line.right = true
  have hCM : ∀ j (s : Seg), st1.segs[j]? = some s → lexLt s.line.left pt = true → lexLt pt s.line.right = true →
      InM pt st1 j s := fun j s hj h1 h2 => ⟨hj, h1, lexLt_asymm h2⟩
  have hIM : ∀ i ∈ st1.incoming, ∃ s : Seg, st1.segs[i]? = some s ∧ InM pt st1 i s ∧ s.line.right = pt := by
    intro i hi
    obtain ⟨l, hl, e⟩ := mf.io.inc i hi
    obtain ⟨s, hs, hsl⟩ := lineOf_seg hl
    have hlt := lineOk_lt (mf.s.lines s (mem_of_getElem? hs))
    rw [hsl, e] at hlt
    refine ⟨s, hs, ⟨hs, by rw [hsl]; exact hlt, by rw [hsl, e]; exact lexLt_irrefl _⟩, by rw [hsl]; exact e⟩
  have hCI : ∀ j, C j → j ∉ st1.incoming := by
    intro j ⟨s, hs, _, h2⟩ hm
    obtain ⟨s', hs', _, e⟩ := hIM j hm
    rw [hs] at hs'; cases hs'
    rw [e, lexLt_irrefl] at h2; cases h2
  have hbC : ∀ b, bot = some b → C b := fun b hb => hbac b hb
  -- Step 3a
  obtain ⟨d1, d2, d3, d4⟩ := drain_facts incoming si hsi
  have hin1 : ∀ x ∈ incoming, x ∈ st1.incoming := fun x hx => pin.mem_iff.1 hx
  have ndin : incoming.Nodup := pin.nodup_iff.2 mf.nd
  have is2 : InfoSub st1 st2 ∧ st2.chains.length = st1.chains.length := by
    split at e2
    · cases e2; exact ⟨InfoSub.refl _, rfl⟩
    · exact reduceIncoming_isub pt _ _ _ e2
  have oth2 : ∀ j, j ∉ st1.incoming → st2.segs[j]? = st1.segs[j]? := by
    intro j hj
    split at e2
    · cases e2; rfl
    · exact reduceIncoming_other pt _ _ _ e2 j (fun hm => hj (hin1 j (d1 j hm)))
  have q2 : Quiet st1 st2 := by
    split at e2
    · cases e2; exact Quiet.refl _
    · exact reduceIncoming_quiet pt _ _ _ e2
  -- Step 3b
  have own3 := inChains_own (st := st2) (by
      intro h0 h1 ebh
      cases hb : bot with
      | none => rw [hb] at ebh; cases ebh
      | some b =>
        rw [hb] at ebh
        simp only [Option.bind_some] at ebh
        cases hbi : st1.infoOf b with
        | none => rw [hbi] at ebh; cases ebh
        | some bi =>
          rw [hbi] at ebh
          simp only [Option.bind_some] at ebh
          obtain ⟨sb, hsb, hsbi⟩ := infoOf_seg hbi
          exact ⟨b, sb, rfl, by rw [oth2 b (hbnot b hb).1]; exact hsb, by rw [hsbi]; exact ebh⟩)
    (d3 ndin) (fun b hb hm => (hbnot b hb).1 (hin1 b (d2 b hm)))
    (by
      intro i s j t hi hj hs ht a b k hra hrb
      obtain ⟨s1, hs1, _, c1, p1⟩ := is2.1 i s hs
      obtain ⟨t1, ht1, _, c2, p2⟩ := is2.1 j t ht
      have m1 : InM pt st1 i s1 := by
        rcases hi with hi | hi
        · obtain ⟨s', hs', hm, _⟩ := hIM i (hin1 i (d2 i hi))
          rw [hs1] at hs'; cases hs'; exact hm
        · obtain ⟨s', hs', h1, h2⟩ := hbac i hi
          rw [hs1] at hs'; cases hs'; exact hCM i s1 hs1 h1 h2
      have m2 : InM pt st1 j t1 := by
        rcases hj with hj | hj
        · obtain ⟨s', hs', hm, _⟩ := hIM j (hin1 j (d2 j hj))
          rw [ht1] at hs'; cases hs'; exact hm
        · obtain ⟨s', hs', h1, h2⟩ := hbac j hj
          rw [ht1] at hs'; cases hs'; exact hCM j t1 ht1 h1 h2
      exact mf.own.inj i s1 j t1 m1 m2 a b k (refs_sub c1 p1 hra) (refs_sub c2 p2 hrb)) e3
  have q3 := q2.trans (inChains_quiet e3)
  -- the payload of a continuing segment after step 3
  have seg3 : ∀ j, C j → ∀ s3 : Seg, st3.segs[j]? = some s3 → ∃ s1 : Seg, st1.segs[j]? = some s1 ∧
      InM pt st1 j s1 ∧ s3.info.chainIdx = s1.info.chainIdx ∧ s3.info.helperChain = s1.info.helperChain ∧
      (s3.info.help = s1.info.help ∨ s3.info.help = none) ∧
      (((bot.bind st1.infoOf).bind (·.help)) ≠ none → bot = some j → s3.info.help = none) := by
    intro j hC s3 hs3
    obtain ⟨s1, hs1, h1, h2⟩ := hC
    have hm := hCM j s1 hs1 h1 h2
    have e21 : st2.segs[j]? = some s1 := by rw [oth2 j (hCI j ⟨s1, hs1, h1, h2⟩)]; exact hs1
    by_cases hb : bot = some j
    · by_cases hbh : ((bot.bind st1.infoOf).bind (·.help)) = none
      · rw [own3.botn hbh, e21] at hs3; cases hs3
        exact ⟨_, hs1, hm, rfl, rfl, Or.inl rfl, fun hne => absurd hbh hne⟩
      · obtain ⟨b, sb, hb', hsb, hsb3⟩ := own3.bots hbh
        rw [hb] at hb'; cases hb'
        rw [e21] at hsb; cases hsb
        rw [hs3] at hsb3; cases hsb3
        exact ⟨s1, hs1, hm, rfl, rfl, Or.inr rfl, fun _ _ => rfl⟩
    · rw [own3.frame j hb, e21] at hs3; cases hs3
      exact ⟨_, hs1, hm, rfl, rfl, Or.inl rfl, fun _ hb' => absurd hb' hb⟩
  -- the tokens after step 3: where they come from in the state returned by `next_point`
  have src3 : ∀ z, Src st2 ((bot.bind st1.infoOf).bind (·.help))
      (if incoming.isEmpty then incoming else (drainRange incoming si (ubOf incoming si)).2) z →
      (∃ i ∈ st1.incoming, ∃ (s : Seg) (a : Nat), st1.segs[i]? = some s ∧ refOf s.info a = some z) ∨
      (∃ b sb a, bot = some b ∧ st1.segs[b]? = some sb ∧ a ≠ 0 ∧ refOf sb.info a = some z ∧
        ((bot.bind st1.infoOf).bind (·.help)) ≠ none) := by
    intro z hz
    rcases hz with ⟨i, hi, s, a, hs, hr⟩ | ⟨h0, h1, ebh, hz⟩
    · obtain ⟨s1, hs1, _, c1, p1⟩ := is2.1 i s hs
      exact Or.inl ⟨i, hin1 i (d2 i hi), s1, a, hs1, refs_sub c1 p1 hr⟩
    · right
      cases hb : bot with
      | none => rw [hb] at ebh; cases ebh
      | some b =>
        rw [hb] at ebh
        simp only [Option.bind_some] at ebh
        cases hbi : st1.infoOf b with
        | none => rw [hbi] at ebh; cases ebh
        | some bi =>
          rw [hbi] at ebh
          simp only [Option.bind_some] at ebh
          obtain ⟨sb, hsb, hsbi⟩ := infoOf_seg hbi
          have hne : ((some b).bind st1.infoOf).bind (·.help) ≠ none := by
            simp only [Option.bind_some, hbi, ebh]; exact fun e => by cases e
          rcases hz with e | e
          · exact ⟨b, sb, 1, rfl, hsb, by decide, by simp only [refOf]; rw [hsbi, ebh, e]; rfl, hne⟩
          · exact ⟨b, sb, 2, rfl, hsb, by decide, by simp only [refOf]; rw [hsbi, ebh, e]; rfl, hne⟩
  have len3 : st3.chains.length = st1.chains.length := by rw [own3.len, is2.2]
  have tok3 : Tok st3 C (ic.1.toList ++ ic.2.toList) st3.chains.length := by
    have hsrc : ∀ z ∈ ic.1.toList ++ ic.2.toList, Src st2 ((bot.bind st1.infoOf).bind (·.help))
        (if incoming.isEmpty then incoming else (drainRange incoming si (ubOf incoming si)).2) z := by
      intro z hz
      simp only [List.mem_append, Option.mem_toList] at hz
      rcases hz with hz | hz
      · exact own3.src1 z hz
      · exact own3.src2 z hz
    refine ⟨Nat.le_refl _, ?_, ?_, ?_, ?_, ?_⟩
    · intro j s3 hs3 hC
      obtain ⟨s1, hs1, hm, c, hcc, p, _⟩ := seg3 j hC s3 hs3
      rw [len3]
      refine ⟨fun a k hr => mf.own.lt j s1 hm a k (refs_sub c p hr), fun k hk => ?_⟩
      rw [hcc] at hk
      exact mf.own.hc j s1 hm k hk
    · intro i s3 j t3 hs3 ht3 hCi hCj a b k hra hrb
      obtain ⟨s1, _, hm1, c1, _, p1, _⟩ := seg3 i hCi s3 hs3
      obtain ⟨t1, _, hm2, c2, _, p2, _⟩ := seg3 j hCj t3 ht3
      exact mf.own.inj i s1 j t1 hm1 hm2 a b k (refs_sub c1 p1 hra) (refs_sub c2 p2 hrb)
    · intro z hz
      rw [len3]
      rcases src3 z (hsrc z hz) with ⟨i, hi, s, a, hs, hr⟩ | ⟨b, sb, a, hb, hsb, _, hr, _⟩
      · obtain ⟨s', hs', hm, _⟩ := hIM i hi
        rw [hs] at hs'; cases hs'
        exact mf.own.lt i s hm a z hr
      · obtain ⟨s', hs', h1, h2⟩ := hbac b hb
        rw [hsb] at hs'; cases hs'
        exact mf.own.lt b sb (hCM b sb hsb h1 h2) a z hr
    · cases h1 : ic.1 with
      | none => cases h2 : ic.2 <;> simp
      | some x =>
        cases h2 : ic.2 with
        | none => simp
        | some y =>
          have := own3.ne x y h1 h2
          simp [this]
    · intro z hz j s3 hs3 hC a hr
      obtain ⟨s1, hs1, hm, c, _, p, hclr⟩ := seg3 j hC s3 hs3
      have hr1 := refs_sub c p hr
      rcases src3 z (hsrc z hz) with ⟨i, hi, s, a', hs, hr'⟩ | ⟨b, sb, a', hb, hsb, ha', hr', hne⟩
      · obtain ⟨s', hs', hm', _⟩ := hIM i hi
        rw [hs] at hs'; cases hs'
        have := mf.own.inj j s1 i s hm hm' a a' z hr1 hr'
        exact hCI j hC (this.1 ▸ hi)
      · obtain ⟨s', hs', h1, h2⟩ := hbac b hb
        rw [hsb] at hs'; cases hs'
        have := mf.own.inj j s1 b sb hm (hCM b sb hsb h1 h2) a a' z hr1 hr'
        obtain ⟨e1', e2'⟩ := this
        subst e1' e2'
        have hnone := hclr hne hb
        rcases refOf_cases hr with ⟨e, _⟩ | ⟨_, y, e⟩ | ⟨_, y, e⟩
        · exact ha' e
        · rw [hnone] at e; cases e
        · rw [hnone] at e; cases e
  -- Step 4
  obtain ⟨o1, o2, _, o4⟩ := drain_facts outgoing si hsi
  have hout1 : ∀ x ∈ outgoing, x ∈ st1.outgoing := fun x hx => pout.mem_iff.1 hx
  have plain3 : ∀ l : List Nat, (∀ x ∈ l, x ∈ outgoing) → Plain st3 C l := by
    intro l hl o ho s3 hs3
    right
    have hoo := hout1 o (hl o ho)
    have hnb : bot ≠ some o := fun e => (hbnot o e).2 hoo
    have hni : o ∉ st1.incoming := by
      intro hm
      obtain ⟨s, hs, _, e⟩ := hIM o hm
      obtain ⟨l', hl', e'⟩ := mf.io.out o hoo
      obtain ⟨s', hs', hsl'⟩ := lineOf_seg hl'
      rw [hs] at hs'; cases hs'
      have hlt := lineOk_lt (mf.s.lines s (mem_of_getElem? hs))
      rw [e, hsl', e', lexLt_irrefl] at hlt; cases hlt
    rw [own3.frame o hnb, oth2 o hni] at hs3
    exact mf.outs o hoo s3 hs3
  have tok4 : Tok st4 (fun j => C j ∨ j ∈ (if outgoing.isEmpty then [] else (drainRange outgoing si (ubOf outgoing si)).1))
        (ic.1.toList ++ ic.2.toList) st4.chains.length ∧
      Plain st4 (fun j => C j ∨ j ∈ (if outgoing.isEmpty then [] else (drainRange outgoing si (ubOf outgoing si)).1))
        (if outgoing.isEmpty then outgoing else (drainRange outgoing si (ubOf outgoing si)).2) := by
    split at e4
    · rename_i hemp
      cases e4
      simp only [hemp, if_true]
      refine ⟨tok3.relax (fun j hj => by simpa using hj) tok3.tnd (fun _ h => h) (Nat.le_refl _) (Nat.le_refl _), ?_⟩
      intro o ho s hs
      rcases plain3 outgoing (fun _ h => h) o ho s hs with g | g
      · exact Or.inl (Or.inl g)
      · exact Or.inr g
    · rename_i hemp
      simp only [hemp]
      exact startOutgoing_tok pt _ st3 st4 C _ _ tok3
        (plain3 _ (fun x hx => by
          rcases List.mem_append.1 hx with g | g
          · exact o1 x g
          · have := o2 x (by simp only [hemp]; exact g)
            exact this)) e4
  have q4 : Quiet st1 st4 := by
    split at e4
    · cases e4; exact q3
    · exact q3.trans (startOutgoing_quiet pt _ _ _ e4)
  -- Step 5
  obtain ⟨T5, tok5⟩ := tieUp_tok tok4.1 (fun b hb => Or.inl (hbC b hb)) tok4.2 e5
  have q5 := q4.trans (tieUp_quiet e5)
  -- every segment that has started and not ended is counted
  have hcount : ∀ j (s5 : Seg), InB st' j s5 →
      (C j ∨ j ∈ (if outgoing.isEmpty then [] else (drainRange outgoing si (ubOf outgoing si)).1)) ∨
        j ∈ (if outgoing.isEmpty then outgoing else (drainRange outgoing si (ubOf outgoing si)).2) := by
    intro j s5 ⟨hs5, hst, e, he, hre⟩
    obtain ⟨s1, hs1, hl1⟩ := sameLines_back q5.1 hs5
    rw [q5.2.1] at hst he
    rw [← hl1] at hst hre
    have hafter := mf.after e he
    have hr : lexLt pt s1.line.right = true := by
      cases hx : lexLt pt s1.line.right with
      | true => rfl
      | false =>
        have := lexLe_lt_trans (a := s1.line.right) (b := pt) (c := e.pt) hx hafter
        rw [hre] at this; cases this
    rcases mf.lefts j s1 hs1 with g | g | g
    · exact absurd g hst
    · exact Or.inl (Or.inl ⟨s1, hs1, g, hr⟩)
    · have hjo : j ∈ outgoing := pout.mem_iff.2 g
      by_cases hemp : outgoing.isEmpty = true
      · simp only [hemp, if_true]; exact Or.inr hjo
      · simp only [hemp]
        rcases o4 (by simpa using hemp) j hjo with g' | g'
        · exact Or.inl (Or.inr g')
        · exact Or.inr g'
  refine ⟨hs'.choose_spec.2.1, he', ?_, ⟨?_, ?_, ?_⟩⟩
  · -- LB
    intro j s5 hs5
    obtain ⟨s1, hs1, hl1⟩ := sameLines_back q5.1 hs5
    rw [q5.2.1, ← hl1]
    rcases mf.lefts j s1 hs1 with g | g | g
    · exact Or.inl g
    · exact Or.inr (fun e he => lexLt_trans g (mf.after e he))
    · right
      intro e he
      obtain ⟨l', hl', e'⟩ := mf.io.out j g
      obtain ⟨s', hs', hsl'⟩ := lineOf_seg hl'
      rw [hs1] at hs'; cases hs'
      rw [hsl', e']; exact mf.after e he
  · intro j s5 hb a k hr
    exact (tok5.lt j s5 hb.1 (hcount j s5 hb)).1 a k hr
  · intro j s5 hb k hk
    exact (tok5.lt j s5 hb.1 (hcount j s5 hb)).2 k hk
  · intro i s5 j t5 hb1 hb2 a b k hra hrb
    exact tok5.inj i s5 j t5 hb1.1 hb2.1 (hcount i s5 hb1) (hcount j t5 hb2) a b k hra hrb

end Geo.Proofs.MONO3
