/-
  Helper lemmas for C05 (area): telescoping of the shifted shoelace sum, reversal, rotation,
  folds.
-/
import GeoModel.Area
import Mathlib.Tactic.Ring
import Mathlib.Tactic.Linarith

namespace Geo.Proofs.C05L
open Geo

@[simp] theorem sub_x (a s : Pt) : (a - s).x = a.x - s.x := rfl
@[simp] theorem sub_y (a s : Pt) : (a - s).y = a.y - s.y := rfl
@[simp] theorem add_x (a s : Pt) : (a + s).x = a.x + s.x := rfl
@[simp] theorem add_y (a s : Pt) : (a + s).y = a.y + s.y := rfl

theorem foldl_add (l : List Rat) (a : Rat) : l.foldl (· + ·) a = a + sumRat l := by
  induction l generalizing a with
  | nil => simp [sumRat]
  | cons b t ih => simp only [List.foldl_cons, ih, sumRat]; ring

theorem foldl_add_map {α} (f : α → Rat) (l : List α) (a : Rat) :
    l.foldl (fun total next => total + f next) a = a + sumRat (l.map f) := by
  induction l generalizing a with
  | nil => simp [sumRat]
  | cons b t ih => simp only [List.foldl_cons, ih, sumRat, List.map_cons]; ring

theorem foldl_sub_map {α} (f : α → Rat) (l : List α) (a : Rat) :
    l.foldl (fun total next => total - f next) a = a - sumRat (l.map f) := by
  induction l generalizing a with
  | nil => simp [sumRat]
  | cons b t ih => simp only [List.foldl_cons, ih, sumRat, List.map_cons]; ring

/-- last element of `a :: t` -/
def lastD : Pt → List Pt → Pt
  | a, [] => a
  | _, b :: t => lastD b t

theorem getLast?_cons (a : Pt) (t : List Pt) : (a :: t).getLast? = some (lastD a t) := by
  induction t generalizing a with
  | nil => rfl
  | cons b t ih => rw [List.getLast?_cons_cons, ih]; rfl

theorem det_shift (a b s : Pt) :
    det (a - s) (b - s) = det a b - s.x * (b.y - a.y) + s.y * (b.x - a.x) := by
  simp only [det, sub_x, sub_y]; ring

theorem det_self (a : Pt) : det a a = 0 := by simp only [det]; ring

theorem det_swap (a b : Pt) : det b a = - det a b := by simp only [det]; ring

/-- telescoping: the shifted sum differs from the plain shoelace sum by a boundary term -/
theorem sum_shiftedDets (s a : Pt) (t : List Pt) :
    sumRat (shiftedDets s (a :: t)) =
      shoelace2 (a :: t) - s.x * ((lastD a t).y - a.y) + s.y * ((lastD a t).x - a.x) := by
  induction t generalizing a with
  | nil => simp [shiftedDets, shoelace2, sumRat, lastD]
  | cons b t ih =>
    simp only [shiftedDets, shoelace2, sumRat, lastD, ih b, det_shift]; ring

/-- a closed list `a :: t` ends in `a` -/
theorem lastD_of_closed {a : Pt} {t : List Pt} (h : (a :: t).head? = (a :: t).getLast?) :
    lastD a t = a := by
  rw [getLast?_cons] at h
  simpa using h.symm

/-- `twice_signed_ring_area` by cases: the plain shoelace sum on closed lists, zero on open ones. -/
theorem twice_closed (r : List Pt) (hc : r.head? = r.getLast?) :
    twiceSignedRingArea r = shoelace2 r := by
  unfold twiceSignedRingArea
  match r, hc with
  | [], _ => simp [shoelace2]
  | [a], _ => simp [shoelace2]
  | [a, b], hc =>
    have : a = b := by simpa using hc
    subst this
    simp [shoelace2, det_self]
  | a :: b :: c :: t, hc =>
    have hl : ¬ (a :: b :: c :: t).length < 3 := by simp
    rw [if_neg hl, if_neg (by simpa using hc)]
    simp only []
    rw [foldl_add, sum_shiftedDets, lastD_of_closed hc]; ring

theorem twice_open (r : List Pt) (hc : r.head? ≠ r.getLast?) : twiceSignedRingArea r = 0 := by
  unfold twiceSignedRingArea
  split
  · rfl
  · rfl

/-- appending one coordinate adds one determinant -/
theorem shoelace2_snoc (l : List Pt) (c : Pt) :
    shoelace2 (l ++ [c]) = shoelace2 l + (match l.getLast? with | some z => det z c | none => 0) := by
  induction l with
  | nil => simp [shoelace2]
  | cons a t ih =>
    cases t with
    | nil => simp [shoelace2]
    | cons b t' =>
      have : (a :: b :: t').getLast? = (b :: t').getLast? := List.getLast?_cons_cons
      rw [this]
      simp only [List.cons_append, shoelace2] at ih ⊢
      rw [ih]; ring

theorem shoelace2_reverse (l : List Pt) : shoelace2 l.reverse = - shoelace2 l := by
  induction l with
  | nil => simp [shoelace2]
  | cons a t ih =>
    cases t with
    | nil => simp [shoelace2]
    | cons b t' =>
      rw [List.reverse_cons, shoelace2_snoc, ih]
      have : (b :: t').reverse.getLast? = some b := by simp
      rw [this]
      simp only [shoelace2, det_swap a b]; ring

theorem shoelace2_map_sub (s : Pt) (l : List Pt) :
    shoelace2 (l.map (· - s)) = sumRat (shiftedDets s l) := by
  induction l with
  | nil => simp [shoelace2, shiftedDets, sumRat]
  | cons a t ih =>
    cases t with
    | nil => simp [shoelace2, shiftedDets, sumRat]
    | cons b t' =>
      simp only [List.map_cons, shoelace2, shiftedDets, sumRat] at ih ⊢
      rw [ih]

theorem head?_map_inj {f : Pt → Pt} (hf : Function.Injective f) (r : List Pt) :
    (r.map f).head? = (r.map f).getLast? ↔ r.head? = r.getLast? := by
  rw [List.head?_map, List.getLast?_map]
  constructor
  · intro h
    cases h1 : r.head? <;> cases h2 : r.getLast? <;> simp_all
    exact hf h
  · intro h; rw [h]

theorem rabs_neg (x : Rat) : rabs (-x) = rabs x := by
  unfold rabs
  split <;> split <;> linarith

theorem rabs_nonneg (x : Rat) : 0 ≤ rabs x := by
  unfold rabs; split <;> linarith

theorem rabs_of_nonneg {x : Rat} (h : 0 ≤ x) : rabs x = x := by
  unfold rabs; rw [if_neg (by linarith)]

theorem rabs_of_neg {x : Rat} (h : x < 0) : rabs x = -x := by
  unfold rabs; rw [if_pos h]

/-- moving the start of a closed ring to its second vertex -/
def rotate1 : List Pt → List Pt
  | _ :: b :: t => b :: t ++ [b]
  | r => r


mutual
/-- every `Rect` in the tree satisfies the `Rect::new` invariant `min ≤ max` (C18) -/
def RectsOrdered : Geom → Prop
  | .rect mn mx => mn.x ≤ mx.x ∧ mn.y ≤ mx.y
  | .collection gs => RectsOrderedList gs
  | _ => True
def RectsOrderedList : List Geom → Prop
  | [] => True
  | g :: gs => RectsOrdered g ∧ RectsOrderedList gs
end

/-- the ring invariant of `Polygon` (C18): every ring is closed -/
def PolyClosed (p : Poly) : Prop :=
  p.ext.head? = p.ext.getLast? ∧ ∀ h ∈ p.ints, h.head? = h.getLast?

mutual
/-- the geo-types invariants (C18) everywhere in the tree: polygon rings closed, `Rect` corners
ordered -/
def TypeInv : Geom → Prop
  | .polygon p => PolyClosed p
  | .multiPolygon ps => ∀ p ∈ ps, PolyClosed p
  | .rect mn mx => mn.x ≤ mx.x ∧ mn.y ≤ mx.y
  | .collection gs => TypeInvList gs
  | _ => True
def TypeInvList : List Geom → Prop
  | [] => True
  | g :: gs => TypeInv g ∧ TypeInvList gs
end

end Geo.Proofs.C05L
