/-
  Helper lemmas for C05 (area): telescoping of the shifted shoelace sum, reversal, rotation.
-/
import GeoModel.Area
import Mathlib.Tactic.Ring
import Mathlib.Tactic.Linarith

namespace Geo.Proofs.C05L
open Geo

@[simp] theorem sub_x (a s : Pt) : (a - s).x = a.x - s.x := rfl
@[simp] theorem sub_y (a s : Pt) : (a - s).y = a.y - s.y := rfl

theorem foldl_add (l : List Rat) (a : Rat) : l.foldl (· + ·) a = a + sumRat l := by
  induction l generalizing a with
  | nil => simp [sumRat]
  | cons b t ih => simp only [List.foldl_cons, ih, sumRat]; ring

/-- last element of `a :: t` -/
def lastD : Pt → List Pt → Pt
  | a, [] => a
  | _, b :: t => lastD b t

theorem getLast?_cons (a : Pt) (t : List Pt) : (a :: t).getLast? = some (lastD a t) := by
  induction t generalizing a with
  | nil => rfl
  | cons b t ih => rw [List.getLast?_cons_cons, ih]; rfl

theorem det_shift (a b s : Pt) :
    det (a - s) (b - s) = det a b - s.x * (b.y - a.y) + s.y * (b.x - a.x) := by
  simp only [det, sub_x, sub_y]; ring

/-- telescoping: the shifted sum differs from the plain shoelace sum by a boundary term -/
theorem sum_shiftedDets (s a : Pt) (t : List Pt) :
    sumRat (shiftedDets s (a :: t)) =
      shoelace2 (a :: t) - s.x * ((lastD a t).y - a.y) + s.y * ((lastD a t).x - a.x) := by
  induction t generalizing a with
  | nil => simp [shiftedDets, shoelace2, sumRat, lastD]
  | cons b t ih =>
    simp only [shiftedDets, shoelace2, sumRat, lastD, ih b, det_shift]; ring

end Geo.Proofs.C05L
