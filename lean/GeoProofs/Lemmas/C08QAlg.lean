/-
  C08 helper lemmas (Graham scan, global correctness) — the polynomial facts.

  `HP x y` is the open half-plane "lexicographically greater than the origin" (`x > 0`, or `x = 0`
  and `y > 0`): where all points other than the pivot lie, as seen from the lexicographically least
  point. In it the orientation order around the origin is transitive.
-/
import GeoModel.Orient
import Mathlib.Tactic.Linarith
import Mathlib.Tactic.Ring
import Mathlib.Tactic.FieldSimp
import Mathlib.Tactic.Positivity

namespace Geo.Proofs.C08
open Geo

/-- the vector `(x, y)` is lexicographically greater than `(0, 0)` -/
def HP (x y : Rat) : Prop := 0 < x ∨ (x = 0 ∧ 0 < y)

theorem HP.x_nonneg {x y : Rat} (h : HP x y) : 0 ≤ x := by
  rcases h with h | ⟨h, _⟩
  · exact le_of_lt h
  · exact le_of_eq h.symm

/-- transitivity of the (weak) orientation order in the half-plane -/
theorem hp_trans_nonneg {a b c d e f : Rat} (hu : HP a b) (hv : HP c d) (hw : HP e f)
    (h1 : 0 ≤ a * d - b * c) (h2 : 0 ≤ c * f - d * e) : 0 ≤ a * f - b * e := by
  have ha := hu.x_nonneg
  have he := hw.x_nonneg
  rcases hv with hc | ⟨hc, hd⟩
  · have hid : (a * f - b * e) * c = (a * d - b * c) * e + (c * f - d * e) * a := by ring
    have h3 : 0 ≤ (a * f - b * e) * c := by
      rw [hid]; exact add_nonneg (mul_nonneg h1 he) (mul_nonneg h2 ha)
    by_contra hneg
    have hneg' : a * f - b * e < 0 := not_le.1 hneg
    have := mul_neg_of_neg_of_pos hneg' hc
    linarith
  · subst hc
    have he0 : e ≤ 0 := by
      by_contra hcon
      have : 0 < d * e := mul_pos hd (not_le.1 hcon)
      linarith
    have he1 : e = 0 := le_antisymm he0 he
    subst he1
    rcases hw with hw | ⟨_, hf⟩
    · exact absurd hw (lt_irrefl _)
    · have : 0 ≤ a * f := mul_nonneg ha (le_of_lt hf)
      linarith

/-- strict on the left: `u` strictly before `v`, `v` before-or-with `w` -/
theorem hp_trans_pos_left {a b c d e f : Rat} (hu : HP a b) (hv : HP c d) (hw : HP e f)
    (h1 : 0 < a * d - b * c) (h2 : 0 ≤ c * f - d * e) : 0 < a * f - b * e := by
  have ha := hu.x_nonneg
  have he := hw.x_nonneg
  rcases hv with hc | ⟨hc, hd⟩
  · have hid : (a * f - b * e) * c = (a * d - b * c) * e + (c * f - d * e) * a := by ring
    have key : 0 < (a * f - b * e) * c := by
      rw [hid]
      rcases hw with hw | ⟨hw0, hf⟩
      · have : 0 < (a * d - b * c) * e := mul_pos h1 hw
        have := mul_nonneg h2 ha
        linarith
      · subst hw0
        rcases hu with hu | ⟨hu0, hb⟩
        · have hcf : 0 < c * f := mul_pos hc hf
          have : 0 < (c * f - d * 0) * a := by
            have : 0 < c * f * a := mul_pos hcf hu
            linarith
          linarith [mul_zero (a * d - b * c)]
        · subst hu0
          have : 0 < b * c := mul_pos hb hc
          linarith
    by_contra hneg
    have hneg' : a * f - b * e ≤ 0 := not_lt.1 hneg
    have := mul_nonpos_of_nonpos_of_nonneg hneg' (le_of_lt hc)
    linarith
  · subst hc
    have he0 : e ≤ 0 := by
      by_contra hcon
      have : 0 < d * e := mul_pos hd (not_le.1 hcon)
      linarith
    have he1 : e = 0 := le_antisymm he0 he
    subst he1
    rcases hw with hw | ⟨_, hf⟩
    · exact absurd hw (lt_irrefl _)
    · have had : 0 < a * d := by linarith
      have ha' : 0 < a := by
        rcases lt_or_eq_of_le ha with h | h
        · exact h
        · rw [← h] at had; simp at had
      have : 0 < a * f := mul_pos ha' hf
      linarith

/-- strict on the right -/
theorem hp_trans_pos_right {a b c d e f : Rat} (hu : HP a b) (hv : HP c d) (hw : HP e f)
    (h1 : 0 ≤ a * d - b * c) (h2 : 0 < c * f - d * e) : 0 < a * f - b * e := by
  have ha := hu.x_nonneg
  have he := hw.x_nonneg
  rcases hv with hc | ⟨hc, hd⟩
  · have hid : (a * f - b * e) * c = (a * d - b * c) * e + (c * f - d * e) * a := by ring
    have key : 0 < (a * f - b * e) * c := by
      rw [hid]
      rcases hu with hu | ⟨hu0, hb⟩
      · have : 0 < (c * f - d * e) * a := mul_pos h2 hu
        have := mul_nonneg h1 he
        linarith
      · subst hu0
        -- `0 ≤ -b c` is impossible
        have : 0 < b * c := mul_pos hb hc
        linarith
    by_contra hneg
    have hneg' : a * f - b * e ≤ 0 := not_lt.1 hneg
    have := mul_nonpos_of_nonpos_of_nonneg hneg' (le_of_lt hc)
    linarith
  · subst hc
    have : 0 ≤ d * e := mul_nonneg (le_of_lt hd) he
    linarith

/-- two vectors of the half-plane that are parallel point the same way: the one that is not
shorter is a multiple `t ≥ 1` of the other -/
theorem hp_ray {a b c d : Rat} (hu : HP a b) (hv : HP c d) (h0 : a * d - b * c = 0)
    (hd : a * a + b * b ≤ c * c + d * d) : ∃ t : Rat, 1 ≤ t ∧ c = t * a ∧ d = t * b := by
  rcases hu with ha | ⟨ha, hb⟩
  · have hane : a ≠ 0 := ne_of_gt ha
    refine ⟨c / a, ?_, ?_, ?_⟩
    · have hc : 0 < c := by
        rcases hv with hc | ⟨hc, hd'⟩
        · exact hc
        · subst hc
          have : a * d = 0 := by linarith
          rcases mul_eq_zero.1 this with h | h
          · exact absurd h hane
          · rw [h] at hd'; exact absurd hd' (lt_irrefl _)
      rw [le_div_iff₀ ha]
      by_contra hlt
      have hlt' : c < a := by linarith [not_le.1 hlt]
      -- `d a = b c`, so `d² a² = b² c² `
      have hda : d * a = b * c := by linarith
      have h1 : c * c < a * a := by nlinarith
      have h2 : (d * a) * (d * a) = (b * c) * (b * c) := by rw [hda]
      have h3 : d * d * (a * a) ≤ b * b * (a * a) := by
        have : b * b * (c * c) ≤ b * b * (a * a) :=
          mul_le_mul_of_nonneg_left (le_of_lt h1) (mul_self_nonneg b)
        nlinarith
      have haa : 0 < a * a := mul_pos ha ha
      have h4 : d * d ≤ b * b := le_of_mul_le_mul_right h3 haa
      linarith
    · field_simp
    · field_simp; linarith
  · subst ha
    have hbne : b ≠ 0 := ne_of_gt hb
    have hc0 : c = 0 := by
      have : b * c = 0 := by linarith
      rcases mul_eq_zero.1 this with h | h
      · exact absurd h hbne
      · exact h
    subst hc0
    have hd' : 0 < d := by
      rcases hv with h | ⟨_, h⟩
      · exact absurd h (lt_irrefl _)
      · exact h
    refine ⟨d / b, ?_, by simp, by field_simp⟩
    rw [le_div_iff₀ hb]
    by_contra hlt
    have hlt' : d < b := by linarith [not_le.1 hlt]
    nlinarith

/-! ### cross-product identities -/

theorem cross_vec (o a b : Pt) :
    cross o a b = (a.x - o.x) * (b.y - o.y) - (a.y - o.y) * (b.x - o.x) := by
  unfold cross; ring

theorem cross_cyc (a b c : Pt) : cross a b c = cross b c a := by
  unfold cross; ring

theorem cross_swap (a b c : Pt) : cross a c b = - cross a b c := by
  unfold cross; ring

theorem cross_self_left (a b : Pt) : cross a a b = 0 := by unfold cross; ring
theorem cross_self_right (a b : Pt) : cross a b b = 0 := by unfold cross; ring
theorem cross_self_outer (a b : Pt) : cross a b a = 0 := by unfold cross; ring

/-- `cross a b c` through the pivot `o` -/
theorem cross_via (o a b c : Pt) : cross a b c = cross o a b + cross o b c - cross o a c := by
  unfold cross; ring

/-- Grassmann–Plücker relation with apex `b` (five points) -/
theorem plucker_apex (o a b c d : Pt) :
    cross a b c * cross o b d = cross o b c * cross a b d - cross o a b * cross b c d := by
  unfold cross; ring

/-- Grassmann–Plücker relation for the four directions from `b` to `p, o, i, a` -/
theorem plucker_fan (b p o i a : Pt) :
    cross b p i * cross b o a = cross b p o * cross b i a + cross b p a * cross b o i := by
  unfold cross; ring

/-- an affine function of `q`, interpolated by the barycentric coordinates of `q` in `o s t` -/
theorem bary (u v o s t q : Pt) :
    cross u v q * cross o s t =
      cross u v o * cross s t q + cross u v s * cross t o q + cross u v t * cross o s q := by
  unfold cross; ring

end Geo.Proofs.C08
