/-
  C02Z, part 3: completeness of the FIRST pass of the truncation loop of `LineString: Contains<Line>`.

  `sweep`: the loop runs over a list of segments that is a `SimpleChain` and covers the current query `[lerp σ, lerp ε]`,
  and the exceptional point `w` of the chain is not strictly inside the query: the loop answers `true`. Each iteration
    * leaves the query alone — then the segment has no point on the query that the later segments do not have (closedness
      of the later segments, and `SimpleChain` when the segment lies in the middle of the query), or
    * cuts the query at an end point of the segment — what is left is covered by the later segments, or
    * answers `true`.
-/
import GeoProofs.Lemmas.C02ZTrace

set_option linter.unusedSimpArgs false
set_option linter.unusedVariables false

namespace Geo.Proofs.C02Z
open Geo Geo.Proofs.Kernel Geo.Proofs.Spec Geo.Proofs.C02Y

/-- one iteration of the first pass (no exit test) -/
def stepF (st : CutState) (y : (Pt × Pt) × Nat) : CutState :=
  if st.result.isSome then st else cutCore st y.2 y.1

theorem foldl_stepF_true : ∀ (L : List ((Pt × Pt) × Nat)) (st : CutState), st.result = some true →
    (L.foldl stepF st).result = some true
  | [], _, h => h
  | y :: L, st, h => by
      rw [List.foldl_cons]
      have : stepF st y = st := by simp [stepF, h]
      rw [this]
      exact foldl_stepF_true L st h

/-! ### the branches of `cutCore` -/

section
variable {st : CutState} {seg : Pt × Pt} {i : Nat}

theorem cutCore_skip (hS : lineCoord seg.1 seg.2 st.s = false) (hE : lineCoord seg.1 seg.2 st.e = false) :
    cutCore st i seg = st := by
  simp [cutCore, hS, hE]

theorem cutCore_true (hS : lineCoord seg.1 seg.2 st.s = true) (hE : lineCoord seg.1 seg.2 st.e = true) :
    (cutCore st i seg).result = some true := by
  simp [cutCore, hS, hE]

theorem cutCore_S_none (hS : lineCoord seg.1 seg.2 st.s = true) (hE : lineCoord seg.1 seg.2 st.e = false)
    (h1 : lineContainsCoord st.s st.e seg.1 = false) (h2 : lineContainsCoord st.s st.e seg.2 = false) :
    cutCore st i seg = st := by
  simp [cutCore, hS, hE, h1, h2]

theorem cutCore_E_none (hS : lineCoord seg.1 seg.2 st.s = false) (hE : lineCoord seg.1 seg.2 st.e = true)
    (h1 : lineContainsCoord st.s st.e seg.1 = false) (h2 : lineContainsCoord st.s st.e seg.2 = false) :
    cutCore st i seg = st := by
  simp [cutCore, hS, hE, h1, h2]

theorem cutCore_S_cut (hne : st.s ≠ st.e) (hS : lineCoord seg.1 seg.2 st.s = true)
    (hE : lineCoord seg.1 seg.2 st.e = false) {ni : Pt}
    (h : (lineContainsCoord st.s st.e seg.1 = true ∧ ni = seg.1) ∨
      (lineContainsCoord st.s st.e seg.1 = false ∧ lineContainsCoord st.s st.e seg.2 = true ∧ ni = seg.2)) :
    ∃ fc, cutCore st i seg = ⟨ni, st.e, fc, st.result⟩ := by
  have hes : (st.e == st.s) = false := by
    rw [beq_eq_false_iff_ne]; exact fun e => hne e.symm
  rcases h with ⟨h1, rfl⟩ | ⟨h1, h2, rfl⟩
  · exact (by
    cases hfc : st.firstCut with
    | none => exact ⟨some i, by simp [cutCore, hS, hE, h1, hes, hfc]⟩
    | some x => exact ⟨some x, by simp [cutCore, hS, hE, h1, hes, hfc]⟩)
  · exact (by
    cases hfc : st.firstCut with
    | none => exact ⟨some i, by simp [cutCore, hS, hE, h1, h2, hes, hfc]⟩
    | some x => exact ⟨some x, by simp [cutCore, hS, hE, h1, h2, hes, hfc]⟩)

theorem cutCore_E_cut (hS : lineCoord seg.1 seg.2 st.s = false) (hE : lineCoord seg.1 seg.2 st.e = true) {ni : Pt}
    (h : (lineContainsCoord st.s st.e seg.1 = true ∧ ni = seg.1) ∨
      (lineContainsCoord st.s st.e seg.1 = false ∧ lineContainsCoord st.s st.e seg.2 = true ∧ ni = seg.2)) :
    ∃ fc, cutCore st i seg = ⟨st.s, ni, fc, st.result⟩ := by
  rcases h with ⟨h1, rfl⟩ | ⟨h1, h2, rfl⟩
  · exact (by
    cases hfc : st.firstCut with
    | none => exact ⟨some i, by simp [cutCore, hS, hE, h1, hfc]⟩
    | some x => exact ⟨some x, by simp [cutCore, hS, hE, h1, hfc]⟩)
  · exact (by
    cases hfc : st.firstCut with
    | none => exact ⟨some i, by simp [cutCore, hS, hE, h1, h2, hfc]⟩
    | some x => exact ⟨some x, by simp [cutCore, hS, hE, h1, h2, hfc]⟩)

end

/-! ### the sweep -/

theorem Cover.mono {a b : Pt} {L : List (Pt × Pt)} {σ ε σ' ε' : Rat} (h : Cover a b L σ ε) (h1 : σ ≤ σ') (h2 : ε' ≤ ε) :
    Cover a b L σ' ε' :=
  fun τ g1 g2 => h τ (le_trans h1 g1) (le_trans g2 h2)

theorem sweep {a b : Pt} (hab : a ≠ b) (w : Pt) : ∀ (L : List ((Pt × Pt) × Nat)) (st : CutState) (σ ε : Rat),
    st.result = none → st.s = lerp a b σ → st.e = lerp a b ε → σ < ε →
    SimpleChain w (L.map Prod.fst) → Cover a b (L.map Prod.fst) σ ε →
    (∀ γ, σ < γ → γ < ε → w ≠ lerp a b γ) →
    (L.foldl stepF st).result = some true
  | [], st, σ, ε, _, _, _, hlt, _, hcov, _ => by
      obtain ⟨g, hg, _⟩ := hcov σ (le_refl _) (le_of_lt hlt)
      cases hg
  | y :: rest, st, σ, ε, hres, hs, he, hlt, hchain, hcov, hw => by
      obtain ⟨seg, i⟩ := y
      simp only [List.map_cons] at hchain hcov
      rw [List.foldl_cons]
      have hstep : stepF st (seg, i) = cutCore st i seg := by simp [stepF, hres]
      rw [hstep]
      have hne : st.s ≠ st.e := by
        rw [hs, he]; intro e
        have := lerp_inj hab e; linarith
      have hchain' := hchain.tail
      -- the state is unchanged and the later segments cover the query
      have same : Cover a b (rest.map Prod.fst) σ ε → cutCore st i seg = st →
          (rest.foldl stepF (cutCore st i seg)).result = some true := by
        intro hc e
        rw [e]
        exact sweep hab w rest st σ ε hres hs he hlt hchain' hc hw
      rcases trace_cases hab seg with hE | ⟨α, β, hT⟩
      · -- the segment does not meet the line of the query
        have hS : lineCoord seg.1 seg.2 st.s = false := by
          rw [hs]; cases h : lineCoord seg.1 seg.2 (lerp a b σ) with
          | false => rfl
          | true => exact absurd ((lineCoord_iff _ _ _).mp h) (hE σ)
        have hE' : lineCoord seg.1 seg.2 st.e = false := by
          rw [he]; cases h : lineCoord seg.1 seg.2 (lerp a b ε) with
          | false => rfl
          | true => exact absurd ((lineCoord_iff _ _ _).mp h) (hE ε)
        apply same _ (cutCore_skip hS hE')
        intro τ h1 h2
        obtain ⟨g, hg, hm⟩ := hcov τ h1 h2
        rcases List.mem_cons.mp hg with rfl | h
        · exact absurd hm (hE τ)
        · exact ⟨g, h, hm⟩
      · obtain ⟨hle, hmem, hend⟩ := hT
        have hT : Trace a b seg α β := ⟨hle, hmem, hend⟩
        have after : ∀ t, 0 < t → ¬ SegMem (lerp a b (β + t)) seg.1 seg.2 := by
          intro t ht hm; have := (hmem _).mp hm; linarith
        have before : ∀ t, 0 < t → ¬ SegMem (lerp a b (α - t)) seg.1 seg.2 := by
          intro t ht hm; have := (hmem _).mp hm; linarith
        have hSiff : lineCoord seg.1 seg.2 st.s = true ↔ α ≤ σ ∧ σ ≤ β := by rw [hs]; exact hT.lineCoord σ
        have hEiff : lineCoord seg.1 seg.2 st.e = true ↔ α ≤ ε ∧ ε ≤ β := by rw [he]; exact hT.lineCoord ε
        have lcc : ∀ c, lineContainsCoord st.s st.e c = true ↔ ∃ γ, σ < γ ∧ γ < ε ∧ c = lerp a b γ := by
          intro c; rw [hs, he]; exact lcc_param hab hlt c
        have lccF : ∀ c, (∀ γ, σ < γ → γ < ε → c ≠ lerp a b γ) → lineContainsCoord st.s st.e c = false := by
          intro c h
          cases hc : lineContainsCoord st.s st.e c with
          | false => rfl
          | true =>
            obtain ⟨γ, g1, g2, e⟩ := (lcc c).mp hc
            exact absurd e (h γ g1 g2)
        cases hS : lineCoord seg.1 seg.2 st.s with
        | false =>
          cases hE : lineCoord seg.1 seg.2 st.e with
          | false =>
            -- (a) neither end of the query on the segment
            have nS : ¬ (α ≤ σ ∧ σ ≤ β) := fun h => by rw [hSiff.mpr h] at hS; cases hS
            have nE : ¬ (α ≤ ε ∧ ε ≤ β) := fun h => by rw [hEiff.mpr h] at hE; cases hE
            apply same _ (cutCore_skip hS hE)
            intro τ h1 h2
            obtain ⟨g, hg, hm⟩ := hcov τ h1 h2
            rcases List.mem_cons.mp hg with hgs | h
            · rw [hgs] at hm
              obtain ⟨ha, hb⟩ := (hmem τ).mp hm
              have hσα : σ < α := by
                by_contra hc; exact nS ⟨not_lt.mp hc, by linarith⟩
              have hβε : β < ε := by
                by_contra hc; exact nE ⟨by linarith, not_lt.mp hc⟩
              obtain ⟨g1, hg1, hm1⟩ := covered_minus hab hcov hσα (by linarith) before
              obtain ⟨g2, hg2, hm2⟩ := covered_plus hab hcov (by linarith) hβε after
              have e1 : lerp a b α = seg.2 := by
                rcases hchain.head _ ((hmem α).mpr ⟨le_refl _, hle⟩) ⟨g1, hg1, hm1⟩ with e | e
                · exact e
                · exact absurd e.symm (hw α hσα (by linarith))
              have e2 : lerp a b β = seg.2 := by
                rcases hchain.head _ ((hmem β).mpr ⟨hle, le_refl _⟩) ⟨g2, hg2, hm2⟩ with e | e
                · exact e
                · exact absurd e.symm (hw β (by linarith) hβε)
              have hαβ : α = β := lerp_inj hab (e1.trans e2.symm)
              have hτ : τ = α := by linarith
              rw [hτ]
              exact ⟨g1, hg1, hm1⟩
            · exact ⟨g, h, hm⟩
          | true =>
            -- (d) the end of the query on the segment
            have nS : ¬ (α ≤ σ ∧ σ ≤ β) := fun h => by rw [hSiff.mpr h] at hS; cases hS
            obtain ⟨hαε, hεβ⟩ := hEiff.mp hE
            have hσα : σ < α := by
              by_contra hc; exact nS ⟨not_lt.mp hc, by linarith⟩
            have hcovα : ∃ g ∈ rest.map Prod.fst, SegMem (lerp a b α) g.1 g.2 :=
              covered_minus hab hcov hσα hαε before
            have hcov' : Cover a b (rest.map Prod.fst) σ α := by
              intro τ h1 h2
              obtain ⟨g, hg, hm⟩ := hcov τ h1 (by linarith)
              rcases List.mem_cons.mp hg with rfl | h
              · have := ((hmem τ).mp hm).1
                have hτ : τ = α := by linarith
                rw [hτ]; exact hcovα
              · exact ⟨g, h, hm⟩
            by_cases hcut : α < ε
            · have hαβ : α < β := by linarith
              have t1 : lineContainsCoord st.s st.e (lerp a b α) = true := (lcc _).mpr ⟨α, hσα, hcut, rfl⟩
              have t2 : lineContainsCoord st.s st.e (lerp a b β) = false :=
                lccF _ (fun γ g1 g2 e => by have := lerp_inj hab e; linarith)
              have hni : (lineContainsCoord st.s st.e seg.1 = true ∧ lerp a b α = seg.1) ∨
                  (lineContainsCoord st.s st.e seg.1 = false ∧ lineContainsCoord st.s st.e seg.2 = true ∧
                    lerp a b α = seg.2) := by
                rcases hend hαβ with ⟨e1, e2⟩ | ⟨e1, e2⟩
                · left; rw [e1]; exact ⟨t1, rfl⟩
                · right; rw [e1, e2]; exact ⟨t2, t1, rfl⟩
              obtain ⟨fc, e⟩ := cutCore_E_cut (i := i) hS hE hni
              rw [e]
              exact sweep hab w rest ⟨st.s, lerp a b α, fc, st.result⟩ σ α hres hs rfl hσα hchain' hcov'
                (fun γ g1 g2 => hw γ g1 (by linarith))
            · have hαε' : α = ε := by linarith
              have n1 : lineContainsCoord st.s st.e seg.1 = false :=
                lccF _ (fun γ g1 g2 e => by have := (hT.end1 e).1; linarith)
              have n2 : lineContainsCoord st.s st.e seg.2 = false :=
                lccF _ (fun γ g1 g2 e => by have := (hT.end2 e).1; linarith)
              apply same _ (cutCore_E_none hS hE n1 n2)
              rw [← hαε']; exact hcov'
        | true =>
          cases hE : lineCoord seg.1 seg.2 st.e with
          | true =>
            -- (b) both ends of the query on the segment
            exact foldl_stepF_true rest _ (cutCore_true hS hE)
          | false =>
            -- (c) the start of the query on the segment
            have nE : ¬ (α ≤ ε ∧ ε ≤ β) := fun h => by rw [hEiff.mpr h] at hE; cases hE
            obtain ⟨hασ, hσβ⟩ := hSiff.mp hS
            have hβε : β < ε := by
              by_contra hc; exact nE ⟨by linarith, not_lt.mp hc⟩
            have hcovβ : ∃ g ∈ rest.map Prod.fst, SegMem (lerp a b β) g.1 g.2 :=
              covered_plus hab hcov hσβ hβε after
            have hcov' : Cover a b (rest.map Prod.fst) β ε := by
              intro τ h1 h2
              obtain ⟨g, hg, hm⟩ := hcov τ (by linarith) h2
              rcases List.mem_cons.mp hg with rfl | h
              · have := ((hmem τ).mp hm).2
                have hτ : τ = β := by linarith
                rw [hτ]; exact hcovβ
              · exact ⟨g, h, hm⟩
            by_cases hcut : σ < β
            · have hαβ : α < β := by linarith
              have t1 : lineContainsCoord st.s st.e (lerp a b β) = true := (lcc _).mpr ⟨β, hcut, hβε, rfl⟩
              have t2 : lineContainsCoord st.s st.e (lerp a b α) = false :=
                lccF _ (fun γ g1 g2 e => by have := lerp_inj hab e; linarith)
              have hni : (lineContainsCoord st.s st.e seg.1 = true ∧ lerp a b β = seg.1) ∨
                  (lineContainsCoord st.s st.e seg.1 = false ∧ lineContainsCoord st.s st.e seg.2 = true ∧
                    lerp a b β = seg.2) := by
                rcases hend hαβ with ⟨e1, e2⟩ | ⟨e1, e2⟩
                · right; rw [e1, e2]; exact ⟨t2, t1, rfl⟩
                · left; rw [e1]; exact ⟨t1, rfl⟩
              obtain ⟨fc, e⟩ := cutCore_S_cut (i := i) hne hS hE hni
              rw [e]
              exact sweep hab w rest ⟨lerp a b β, st.e, fc, st.result⟩ β ε hres rfl he hβε hchain' hcov'
                (fun γ g1 g2 => hw γ (by linarith) g2)
            · have hσβ' : σ = β := by linarith
              have n1 : lineContainsCoord st.s st.e seg.1 = false :=
                lccF _ (fun γ g1 g2 e => by have := (hT.end1 e).2; linarith)
              have n2 : lineContainsCoord st.s st.e seg.2 = false :=
                lccF _ (fun γ g1 g2 e => by have := (hT.end2 e).2; linarith)
              apply same _ (cutCore_S_none hS hE n1 n2)
              rw [hσβ']; exact hcov'

end Geo.Proofs.C02Z
