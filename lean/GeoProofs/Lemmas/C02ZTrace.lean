/-
  C02Z, part 2: the trace of a segment on the line of the query segment `[a, b]` (`a ≠ b`), in the parameter `τ` of
  `lerp a b τ`:

    * `trace_cases`: the set `{τ | lerp a b τ ∈ seg}` is empty or a closed interval `[α, β]`, and when `α < β` the end points
      of `seg` are `lerp a b α`, `lerp a b β` (in one of the two orders);
    * `lcc_param`: `Line::contains(Coord)` of the current query `[lerp σ, lerp ε]` is "strictly between";
    * `near_plus` / `near_minus`: finitely many segments are a closed set (a point approached along the line by points
      of the segments is on one of them), `covered_plus` / `covered_minus`: a point of a covered stretch from which the
      first segment is left is on one of the other segments.
-/
import GeoProofs.Lemmas.C02ZChain
import Mathlib.Tactic.FieldSimp
import Mathlib.Tactic.Linarith
import Mathlib.Tactic.LinearCombination

set_option linter.unusedSimpArgs false
set_option linter.unusedVariables false

namespace Geo.Proofs.C02Z
open Geo Geo.Proofs.Kernel Geo.Proofs.Spec Geo.Proofs.C02Y

theorem lerp_zero (a b : Pt) : lerp a b 0 = a := by
  apply Geo.Proofs.C02Y.Pt.ext' <;> simp [lerp]

theorem lerp_one (a b : Pt) : lerp a b 1 = b := by
  apply Geo.Proofs.C02Y.Pt.ext' <;> simp [lerp]

/-- membership among three points of the line, in parameters -/
theorem segMem_lerp {a b : Pt} (hab : a ≠ b) (γ δ ξ : Rat) :
    SegMem (lerp a b ξ) (lerp a b γ) (lerp a b δ) ↔ (γ ≤ ξ ∧ ξ ≤ δ) ∨ (δ ≤ ξ ∧ ξ ≤ γ) :=
  SegMem_param hab rfl rfl rfl rfl rfl rfl

/-- a segment through two different points of the line has its end points on the line -/
theorem collinear_params {a b p q : Pt} (hab : a ≠ b) {t1 t0 : Rat} (hlt : t1 < t0)
    (h1 : SegMem (lerp a b t1) p q) (h0 : SegMem (lerp a b t0) p q) :
    ∃ φp φq : Rat, p = lerp a b φp ∧ q = lerp a b φq := by
  obtain ⟨l1, _, _, h1x, h1y⟩ := h1
  obtain ⟨l0, _, _, h0x, h0y⟩ := h0
  simp only [lerp] at h1x h1y h0x h0y
  have hl : l0 - l1 ≠ 0 := by
    intro e
    have e' : l0 = l1 := by linarith
    subst e'
    have : lerp a b t1 = lerp a b t0 := by
      apply Geo.Proofs.C02Y.Pt.ext' <;> simp only [lerp] <;> linarith
    have := lerp_inj hab this
    linarith
  have ex : q.x - p.x = (t0 - t1) / (l0 - l1) * (b.x - a.x) := by
    field_simp
    linear_combination h1x - h0x
  have ey : q.y - p.y = (t0 - t1) / (l0 - l1) * (b.y - a.y) := by
    field_simp
    linear_combination h1y - h0y
  refine ⟨t1 - l1 * ((t0 - t1) / (l0 - l1)), t1 - l1 * ((t0 - t1) / (l0 - l1)) + (t0 - t1) / (l0 - l1), ?_, ?_⟩
  · apply Geo.Proofs.C02Y.Pt.ext' <;> simp only [lerp]
    · rw [ex] at h1x; linear_combination (-1 : Rat) * h1x
    · rw [ey] at h1y; linear_combination (-1 : Rat) * h1y
  · apply Geo.Proofs.C02Y.Pt.ext' <;> simp only [lerp]
    · have h := h1x
      rw [ex] at h
      linear_combination (-1 : Rat) * h + ex
    · have h := h1y
      rw [ey] at h
      linear_combination (-1 : Rat) * h + ey

/-- the trace of `seg` on the line is the parameter interval `[α, β]` -/
def Trace (a b : Pt) (seg : Pt × Pt) (α β : Rat) : Prop :=
  α ≤ β ∧ (∀ τ, SegMem (lerp a b τ) seg.1 seg.2 ↔ α ≤ τ ∧ τ ≤ β) ∧
  (α < β → (seg.1 = lerp a b α ∧ seg.2 = lerp a b β) ∨ (seg.1 = lerp a b β ∧ seg.2 = lerp a b α))

theorem trace_cases {a b : Pt} (hab : a ≠ b) (seg : Pt × Pt) :
    (∀ τ, ¬ SegMem (lerp a b τ) seg.1 seg.2) ∨ ∃ α β, Trace a b seg α β := by
  by_cases h2 : ∃ t1 t0 : Rat, t1 < t0 ∧ SegMem (lerp a b t1) seg.1 seg.2 ∧ SegMem (lerp a b t0) seg.1 seg.2
  · right
    obtain ⟨t1, t0, hlt, h1, h0⟩ := h2
    obtain ⟨φp, φq, hp, hq⟩ := collinear_params hab hlt h1 h0
    have key : ∀ τ, SegMem (lerp a b τ) seg.1 seg.2 ↔ (φp ≤ τ ∧ τ ≤ φq) ∨ (φq ≤ τ ∧ τ ≤ φp) := by
      intro τ
      rw [hp, hq]
      exact segMem_lerp hab _ _ _
    have hne : φp ≠ φq := by
      intro e
      have e1 := (key t1).mp h1
      have e0 := (key t0).mp h0
      rw [e] at e1 e0
      have : t1 = φq := by rcases e1 with ⟨u, v⟩ | ⟨u, v⟩ <;> linarith
      have : t0 = φq := by rcases e0 with ⟨u, v⟩ | ⟨u, v⟩ <;> linarith
      linarith
    rcases lt_or_gt_of_ne hne with hlt' | hlt'
    · refine ⟨φp, φq, le_of_lt hlt', fun τ => (key τ).trans ⟨?_, Or.inl⟩, fun _ => Or.inl ⟨hp, hq⟩⟩
      rintro (h | ⟨u, v⟩)
      · exact h
      · constructor <;> linarith
    · refine ⟨φq, φp, le_of_lt hlt', fun τ => (key τ).trans ⟨?_, Or.inr⟩, fun _ => Or.inr ⟨hp, hq⟩⟩
      rintro (⟨u, v⟩ | h)
      · constructor <;> linarith
      · exact h
  · by_cases h1 : ∃ t : Rat, SegMem (lerp a b t) seg.1 seg.2
    · right
      obtain ⟨t, ht⟩ := h1
      refine ⟨t, t, le_refl _, fun τ => ⟨fun hτ => ?_, fun hτ => ?_⟩, fun h => absurd h (lt_irrefl _)⟩
      · by_contra hn
        rcases lt_trichotomy τ t with h | h | h
        · exact h2 ⟨τ, t, h, hτ, ht⟩
        · exact hn ⟨le_of_eq h.symm, le_of_eq h⟩
        · exact h2 ⟨t, τ, h, ht, hτ⟩
      · have : τ = t := le_antisymm hτ.2 hτ.1
        rw [this]; exact ht
    · left
      intro τ hτ
      exact h1 ⟨τ, hτ⟩

theorem Trace.lineCoord {a b : Pt} {seg : Pt × Pt} {α β : Rat} (h : Trace a b seg α β) (τ : Rat) :
    lineCoord seg.1 seg.2 (lerp a b τ) = true ↔ α ≤ τ ∧ τ ≤ β := by
  rw [lineCoord_iff]; exact h.2.1 τ

/-- an end point of the segment that is on the line has its parameter in the trace -/
theorem Trace.end1 {a b : Pt} {seg : Pt × Pt} {α β γ : Rat} (h : Trace a b seg α β) (e : seg.1 = lerp a b γ) :
    α ≤ γ ∧ γ ≤ β := by
  have h2 : SegMem seg.1 seg.1 seg.2 := SegMem_left seg.1 seg.2
  have h3 : SegMem (lerp a b γ) seg.1 seg.2 := by rw [← e]; exact h2
  exact (h.2.1 γ).mp h3

theorem Trace.end2 {a b : Pt} {seg : Pt × Pt} {α β γ : Rat} (h : Trace a b seg α β) (e : seg.2 = lerp a b γ) :
    α ≤ γ ∧ γ ≤ β := by
  have h2 : SegMem seg.2 seg.1 seg.2 := SegMem_right seg.1 seg.2
  have h3 : SegMem (lerp a b γ) seg.1 seg.2 := by rw [← e]; exact h2
  exact (h.2.1 γ).mp h3

/-! ### `Line: Contains<Coord>` of the current query -/

theorem lcc_param {a b : Pt} (hab : a ≠ b) {σ ε : Rat} (hlt : σ < ε) (c : Pt) :
    lineContainsCoord (lerp a b σ) (lerp a b ε) c = true ↔ ∃ γ, σ < γ ∧ γ < ε ∧ c = lerp a b γ := by
  have hse : lerp a b σ ≠ lerp a b ε := fun e => by have := lerp_inj hab e; linarith
  have hb : (lerp a b σ == lerp a b ε) = false := by simpa using hse
  unfold lineContainsCoord
  rw [hb]
  simp only [Bool.false_eq_true, if_false, Bool.and_eq_true, bne_iff_ne, ne_eq]
  constructor
  · rintro ⟨⟨h1, h2⟩, h3⟩
    obtain ⟨l, l0, l1, cx, cy⟩ := (lineCoord_iff _ _ _).mp h3
    have hc : c = lerp a b (σ + l * (ε - σ)) := by
      apply Geo.Proofs.C02Y.Pt.ext'
      · rw [cx]; simp only [lerp]; ring
      · rw [cy]; simp only [lerp]; ring
    have hd : 0 < ε - σ := by linarith
    have g1 : σ ≤ σ + l * (ε - σ) := by nlinarith [mul_nonneg l0 hd.le]
    have g2 : σ + l * (ε - σ) ≤ ε := by nlinarith [mul_nonneg (sub_nonneg.mpr l1) hd.le]
    refine ⟨σ + l * (ε - σ), lt_of_le_of_ne g1 ?_, lt_of_le_of_ne g2 ?_, hc⟩
    · intro e; apply h1; rw [hc, ← e]
    · intro e; apply h2; rw [hc, e]
  · rintro ⟨γ, g1, g2, rfl⟩
    refine ⟨⟨fun e => ?_, fun e => ?_⟩, ?_⟩
    · have := lerp_inj hab e; linarith
    · have := lerp_inj hab e; linarith
    · rw [lineCoord_iff, segMem_lerp hab]
      exact Or.inl ⟨le_of_lt g1, le_of_lt g2⟩

/-! ### finitely many segments are a closed set -/

theorem near_plus {a b : Pt} (hab : a ≠ b) : ∀ (R : List (Pt × Pt)) (τ0 : Rat),
    ∃ δ : Rat, 0 < δ ∧ ∀ t, 0 < t → t < δ → ∀ g ∈ R, SegMem (lerp a b (τ0 + t)) g.1 g.2 → SegMem (lerp a b τ0) g.1 g.2
  | [], _ => ⟨1, by norm_num, fun _ _ _ g hg => by cases hg⟩
  | g :: R', τ0 => by
      obtain ⟨δ', hδ', hR⟩ := near_plus hab R' τ0
      rcases trace_cases hab g with hE | ⟨α, β, hT⟩
      · refine ⟨δ', hδ', fun t t0 t1 g' hg' hm => ?_⟩
        rcases List.mem_cons.mp hg' with rfl | h
        · exact absurd hm (hE _)
        · exact hR t t0 t1 g' h hm
      · by_cases hτ : τ0 < α
        · refine ⟨min δ' (α - τ0), lt_min hδ' (by linarith), fun t t0 t1 g' hg' hm => ?_⟩
          rcases List.mem_cons.mp hg' with rfl | h
          · have := (hT.2.1 _).mp hm
            have := lt_of_lt_of_le t1 (min_le_right _ _)
            linarith
          · exact hR t t0 (lt_of_lt_of_le t1 (min_le_left _ _)) g' h hm
        · refine ⟨δ', hδ', fun t t0 t1 g' hg' hm => ?_⟩
          rcases List.mem_cons.mp hg' with rfl | h
          · have := (hT.2.1 _).mp hm
            exact (hT.2.1 _).mpr ⟨not_lt.mp hτ, by linarith⟩
          · exact hR t t0 t1 g' h hm

theorem near_minus {a b : Pt} (hab : a ≠ b) : ∀ (R : List (Pt × Pt)) (τ0 : Rat),
    ∃ δ : Rat, 0 < δ ∧ ∀ t, 0 < t → t < δ → ∀ g ∈ R, SegMem (lerp a b (τ0 - t)) g.1 g.2 → SegMem (lerp a b τ0) g.1 g.2
  | [], _ => ⟨1, by norm_num, fun _ _ _ g hg => by cases hg⟩
  | g :: R', τ0 => by
      obtain ⟨δ', hδ', hR⟩ := near_minus hab R' τ0
      rcases trace_cases hab g with hE | ⟨α, β, hT⟩
      · refine ⟨δ', hδ', fun t t0 t1 g' hg' hm => ?_⟩
        rcases List.mem_cons.mp hg' with rfl | h
        · exact absurd hm (hE _)
        · exact hR t t0 t1 g' h hm
      · by_cases hτ : β < τ0
        · refine ⟨min δ' (τ0 - β), lt_min hδ' (by linarith), fun t t0 t1 g' hg' hm => ?_⟩
          rcases List.mem_cons.mp hg' with rfl | h
          · have := (hT.2.1 _).mp hm
            have := lt_of_lt_of_le t1 (min_le_right _ _)
            linarith
          · exact hR t t0 (lt_of_lt_of_le t1 (min_le_left _ _)) g' h hm
        · refine ⟨δ', hδ', fun t t0 t1 g' hg' hm => ?_⟩
          rcases List.mem_cons.mp hg' with rfl | h
          · have := (hT.2.1 _).mp hm
            exact (hT.2.1 _).mpr ⟨by linarith, not_lt.mp hτ⟩
          · exact hR t t0 t1 g' h hm

/-- the stretch `[σ, ε]` of the query is covered by the segments of `L` -/
def Cover (a b : Pt) (L : List (Pt × Pt)) (σ ε : Rat) : Prop :=
  ∀ τ, σ ≤ τ → τ ≤ ε → ∃ g ∈ L, SegMem (lerp a b τ) g.1 g.2

/-- a point of the covered stretch behind which (towards `ε`) the first segment is left is on another segment -/
theorem covered_plus {a b : Pt} (hab : a ≠ b) {seg : Pt × Pt} {R : List (Pt × Pt)} {σ ε τ0 : Rat}
    (hcov : Cover a b (seg :: R) σ ε) (h1 : σ ≤ τ0) (h2 : τ0 < ε)
    (hseg : ∀ t, 0 < t → ¬ SegMem (lerp a b (τ0 + t)) seg.1 seg.2) :
    ∃ g ∈ R, SegMem (lerp a b τ0) g.1 g.2 := by
  obtain ⟨δ, hδ, hR⟩ := near_plus hab R τ0
  have ht0 : 0 < min δ (ε - τ0) / 2 := by
    have : 0 < min δ (ε - τ0) := lt_min hδ (by linarith)
    linarith
  have ht1 : min δ (ε - τ0) / 2 < δ := by
    have := min_le_left δ (ε - τ0)
    have : 0 < min δ (ε - τ0) := lt_min hδ (by linarith)
    linarith
  have ht2 : τ0 + min δ (ε - τ0) / 2 ≤ ε := by
    have := min_le_right δ (ε - τ0)
    have : 0 < min δ (ε - τ0) := lt_min hδ (by linarith)
    linarith
  obtain ⟨g, hg, hm⟩ := hcov (τ0 + min δ (ε - τ0) / 2) (by linarith) ht2
  rcases List.mem_cons.mp hg with rfl | h
  · exact absurd hm (hseg _ ht0)
  · exact ⟨g, h, hR _ ht0 ht1 g h hm⟩

theorem covered_minus {a b : Pt} (hab : a ≠ b) {seg : Pt × Pt} {R : List (Pt × Pt)} {σ ε τ0 : Rat}
    (hcov : Cover a b (seg :: R) σ ε) (h1 : σ < τ0) (h2 : τ0 ≤ ε)
    (hseg : ∀ t, 0 < t → ¬ SegMem (lerp a b (τ0 - t)) seg.1 seg.2) :
    ∃ g ∈ R, SegMem (lerp a b τ0) g.1 g.2 := by
  obtain ⟨δ, hδ, hR⟩ := near_minus hab R τ0
  have ht0 : 0 < min δ (τ0 - σ) / 2 := by
    have : 0 < min δ (τ0 - σ) := lt_min hδ (by linarith)
    linarith
  have ht1 : min δ (τ0 - σ) / 2 < δ := by
    have := min_le_left δ (τ0 - σ)
    have : 0 < min δ (τ0 - σ) := lt_min hδ (by linarith)
    linarith
  have ht2 : σ ≤ τ0 - min δ (τ0 - σ) / 2 := by
    have := min_le_right δ (τ0 - σ)
    have : 0 < min δ (τ0 - σ) := lt_min hδ (by linarith)
    linarith
  obtain ⟨g, hg, hm⟩ := hcov (τ0 - min δ (τ0 - σ) / 2) ht2 (by linarith)
  rcases List.mem_cons.mp hg with rfl | h
  · exact absurd hm (hseg _ ht0)
  · exact ⟨g, h, hR _ ht0 ht1 g h hm⟩

end Geo.Proofs.C02Z
