/-
  MONO (C10, builder of the monotone pieces): the initial state satisfies the sweep invariant, and the sequence of
  points handled by `process_next_pt` during `build` is strictly increasing in the lexicographic order.
-/
import GeoProofs.Lemmas.MONOSweepB

namespace Geo.Proofs.MONO
open Geo Geo.Mono Geo.MonoBuild Geo.Proofs.C10

theorem from_lineOk {a b : Pt} (h : a ≠ b) : LineOk (LoP.from a b) := by
  unfold LoP.from
  cases hab : lexLt a b with
  | true => exact ⟨a, b, by simp, hab⟩
  | false =>
    have hne : (a == b) = false := by simpa using h
    cases hba : lexLt b a with
    | true => exact ⟨b, a, by simp [hne], hba⟩
    | false => exact absurd (lex_antisymm hab hba) h

theorem inputLines_ok (ps : List Poly) : ∀ l ∈ inputLines ps, LineOk l := by
  intro l hl
  unfold inputLines at hl
  simp only [List.mem_filterMap] at hl
  obtain ⟨⟨a, b⟩, _, hf⟩ := hl
  simp only at hf
  split at hf
  · cases hf
  · rename_i hne
    cases hf
    exact from_lineOk (by simpa using hne)

theorem initGo_sinv : ∀ (ls : List LoP) (st : St), SInv st → (∀ l ∈ ls, LineOk l) → SInv (initGo ls st)
  | [], st, hi, _ => by simpa [initGo] using hi
  | l :: ls, st, hi, hl => by
    simp only [initGo]
    obtain ⟨a, b, hab, hlt⟩ := hl l (List.mem_cons_self ..)
    refine initGo_sinv ls _ ?_ (fun x hx => hl x (List.mem_cons_of_mem _ hx))
    have hx : Ext st { st with segs := st.segs ++ [⟨l, {}⟩] } := by
      intro i s hs
      have : i < st.segs.length := (List.getElem?_eq_some_iff.1 hs).1
      exact ⟨s, by simp only; rw [List.getElem?_append_left this]; exact hs, rfl⟩
    have hnew : ({ st with segs := st.segs ++ [⟨l, {}⟩] } : St).segs[st.segs.length]? = some ⟨l, {}⟩ := by simp
    refine ⟨(heapExtend2_heap _ _ _ hi.heap).2, ?_, ?_⟩
    · intro s hs
      simp only [List.mem_append, List.mem_singleton] at hs
      rcases hs with hs | hs
      · exact hi.lines s hs
      · rw [hs]; exact ⟨a, b, hab, hlt⟩
    · have o1 : EvOk { st with segs := st.segs ++ [⟨l, {}⟩] }
          ⟨l.left, if l.isLine then .lineLeft else .pointLeft, st.segs.length⟩ :=
        ⟨_, hnew, Or.inl ⟨by rw [hab]; rfl, rfl⟩⟩
      have o2 : EvOk { st with segs := st.segs ++ [⟨l, {}⟩] }
          ⟨l.right, if l.isLine then .lineRight else .pointRight, st.segs.length⟩ :=
        ⟨_, hnew, Or.inr ⟨by rw [hab]; rfl, by rw [hab]; exact hlt⟩⟩
      intro e he
      have := heapExtend2_forall (P := EvOk { st with segs := st.segs ++ [⟨l, {}⟩] })
        (fun x hx' => (hi.evs x hx').ext hx) o1 o2 e he
      exact this.congr rfl

theorem initState_sinv (ps : List Poly) : SInv (initState ps) := by
  unfold initState
  refine initGo_sinv _ _ ⟨?_, ?_, ?_⟩ (inputLines_ok ps)
  · intro i _ hin _; simp at hin
  · intro s hs; simp at hs
  · intro e he; simp at he

/-- the points handled by the successive calls of `process_next_pt` (ghost trace of `buildLoop`): the point of a call
is the point of the first queued event (`nextPoint_sinv`) -/
def sweepTrace (hf : Nat) : Nat → St → List Pt
  | 0, _ => []
  | f + 1, st =>
    match processNextPt hf st with
    | some (st', true) =>
      match st.events.head? with
      | some e => e.pt :: sweepTrace hf f st'
      | none => []
    | _ => []

/-- the event points of `monotone_subdivision(ps)` in the order in which `build` handles them -/
def sweepPoints (ps : List Poly) : List Pt :=
  let st := initState ps
  sweepTrace (fuelFor st.segs.length) (fuelFor st.segs.length) st

theorem sweepTrace_sorted (hf : Nat) : ∀ (f : Nat) (st : St), SInv st →
    lexSorted (sweepTrace hf f st) = true ∧
    ∀ lo, After lo st → ∀ p ∈ sweepTrace hf f st, lexLt lo p = true
  | 0, st, _ => by simp [sweepTrace, lexSorted]
  | f + 1, st, hi => by
    unfold sweepTrace
    split
    · rename_i st' hp
      obtain ⟨pt, hd, i1, a1⟩ := processNextPt_sinv hi hp
      split
      · rename_i e he
        have hpt : e.pt = pt := by rw [he] at hd; simpa using hd
        obtain ⟨s1, b1⟩ := sweepTrace_sorted hf f st' i1
        rw [hpt]
        refine ⟨?_, ?_⟩
        · cases hr : sweepTrace hf f st' with
          | nil => simp [lexSorted]
          | cons q r =>
            rw [hr] at s1 b1
            simp only [lexSorted, Bool.and_eq_true]
            exact ⟨b1 pt a1 q (List.mem_cons_self ..), s1⟩
        · intro lo hlo p hp'
          have hlt : lexLt lo pt = true := by rw [← hpt]; exact hlo e (List.mem_of_mem_head? he)
          rcases List.mem_cons.1 hp' with g | g
          · rw [g]; exact hlt
          · exact lexLt_trans hlt (b1 pt a1 p g)
      · simp [lexSorted]
    · simp [lexSorted]

end Geo.Proofs.MONO
