/-
  GeoProofs.Lemmas.RingSpec — the boundary short-circuit of `coord_pos_relative_to_ring`
  (GeoModel/Segment.lean: `ringEdge`, `ringWinding`, `ringPos`) against `lineCoord`.
-/
import GeoModel.Segment
import GeoProofs.Lemmas.SegmentSpec

namespace Geo.Proofs.Kernel
open Geo

/-- What one edge visit reports as "on boundary": collinear, x within the edge's x-range, and y
within the half-open y-range that the crossing rules visit (an upward or horizontal edge with
`s.y ≤ p.y ≤ e.y`, or a downward edge with `e.y ≤ p.y < s.y`). -/
theorem ringEdge_none_iff (p s e : Pt) :
    ringEdge p s e = none ↔
      cross s e p = 0 ∧ valueInBetween p.x s.x e.x = true ∧
        ((s.y ≤ p.y ∧ p.y ≤ e.y) ∨ (p.y < s.y ∧ e.y ≤ p.y)) := by
  unfold ringEdge
  by_cases h1 : s.y ≤ p.y
  · rw [if_pos h1]
    by_cases h2 : e.y ≥ p.y
    · rw [if_pos h2]
      rcases lt_trichotomy (cross s e p) 0 with hc | hc | hc
      · have ho : orient s e p = .cw := (orient_cw_iff _ _ _).mpr hc
        simp [ho, hc.ne]
      · have ho : orient s e p = .col := (orient_col_iff _ _ _).mpr hc
        simp [ho, hc, h1, ge_iff_le.mp h2]
      · have ho : orient s e p = .ccw := (orient_ccw_iff _ _ _).mpr hc
        simp [ho, hc.ne']
        split <;> simp
    · rw [if_neg h2]
      have h2' : ¬ p.y ≤ e.y := h2
      have h1' : ¬ p.y < s.y := not_lt.mpr h1
      simp [h2', h1']
  · rw [if_neg h1]
    have h1' : p.y < s.y := lt_of_not_ge h1
    by_cases h2 : e.y ≤ p.y
    · rw [if_pos h2]
      rcases lt_trichotomy (cross s e p) 0 with hc | hc | hc
      · have ho : orient s e p = .cw := (orient_cw_iff _ _ _).mpr hc
        simp [ho, hc.ne]
      · have ho : orient s e p = .col := (orient_col_iff _ _ _).mpr hc
        simp [ho, hc, h1, h1', h2]
      · have ho : orient s e p = .ccw := (orient_ccw_iff _ _ _).mpr hc
        simp [ho, hc.ne']
    · rw [if_neg h2]
      simp [h1, h2]


/-- An edge that reports "on boundary" contains the point. -/
theorem lineCoord_of_ringEdge_none {p s e : Pt} (h : ringEdge p s e = none) :
    lineCoord s e p = true := by
  rw [ringEdge_none_iff] at h
  obtain ⟨hc, hx, hy⟩ := h
  rw [lineCoord_eq]
  refine ⟨hc, ?_⟩
  unfold pointInRect
  rw [hx, Bool.true_and, valueInBetween_iff]
  rcases hy with ⟨h1, h2⟩ | ⟨h1, h2⟩
  · exact Or.inl ⟨h1, h2⟩
  · exact Or.inr ⟨h2, h1.le⟩

/-- An edge containing the point reports "on boundary", except for the start vertex of a downward
edge (which the crossing rules leave to the preceding edge). -/
theorem ringEdge_none_of_lineCoord {p s e : Pt} (h : lineCoord s e p = true) :
    ringEdge p s e = none ∨ p = s := by
  rw [lineCoord_eq] at h
  obtain ⟨hc, hr⟩ := h
  have hr' := hr
  unfold pointInRect at hr'
  rw [Bool.and_eq_true] at hr'
  obtain ⟨hx, hy⟩ := hr'
  rw [valueInBetween_iff] at hy
  by_cases hcase : (s.y ≤ p.y ∧ p.y ≤ e.y) ∨ (p.y < s.y ∧ e.y ≤ p.y)
  · exact Or.inl ((ringEdge_none_iff p s e).mpr ⟨hc, hx, hcase⟩)
  · right
    -- then `e.y < p.y = s.y`; a collinear point at the height of `s` on a non-horizontal edge is `s`
    have hys : p.y = s.y := by
      rcases hy with ⟨h1, h2⟩ | ⟨h1, h2⟩
      · exact absurd (Or.inl ⟨h1, h2⟩) hcase
      · by_contra hne
        exact hcase (Or.inr ⟨lt_of_le_of_ne h2 hne, h1⟩)
    have hes : e.y < s.y := by
      by_contra hge
      exact hcase (Or.inl ⟨hys.ge, by linarith [not_lt.mp hge]⟩)
    apply Pt.ext' _ hys
    unfold cross at hc
    rw [hys] at hc
    have h2 : (e.y - s.y) * (p.x - s.x) = 0 := by linarith
    rcases mul_eq_zero.mp h2 with h3 | h3
    · linarith
    · linarith

/-- The end vertex of an edge always reports "on boundary". -/
theorem ringEdge_end (s e : Pt) : ringEdge e s e = none := by
  rw [ringEdge_none_iff]
  refine ⟨by unfold cross; ring, ?_, ?_⟩
  · rw [valueInBetween_iff]
    rcases le_total s.x e.x with h | h
    · exact Or.inl ⟨h, le_refl _⟩
    · exact Or.inr ⟨le_refl _, h⟩
  · rcases le_or_gt s.y e.y with h | h
    · exact Or.inl ⟨h, le_refl _⟩
    · exact Or.inr ⟨h, le_refl _⟩

/-! ### the edge list -/

theorem ringWinding_none_iff (p : Pt) (es : List (Pt × Pt)) (w : Int) :
    ringWinding p es w = none ↔ ∃ edge ∈ es, ringEdge p edge.1 edge.2 = none := by
  induction es generalizing w with
  | nil => simp [ringWinding]
  | cons hd tl ih =>
    obtain ⟨s, e⟩ := hd
    unfold ringWinding
    cases hre : ringEdge p s e with
    | none =>
      simp only [true_iff]
      exact ⟨(s, e), List.mem_cons_self, hre⟩
    | some d =>
      simp only []
      rw [ih]
      constructor
      · rintro ⟨edge, hm, he⟩
        exact ⟨edge, List.mem_cons_of_mem _ hm, he⟩
      · rintro ⟨edge, hm, he⟩
        rcases List.mem_cons.mp hm with h | h
        · rw [h] at he; rw [hre] at he; cases he
        · exact ⟨edge, h, he⟩

/-- every edge start is the first coordinate or the end of another edge -/
theorem segs_start (l : List Pt) (a s e : Pt) (h : (s, e) ∈ segs (a :: l)) :
    s = a ∨ ∃ s', (s', s) ∈ segs (a :: l) := by
  induction l generalizing a with
  | nil => simp [segs] at h
  | cons b rest ih =>
    rw [segs] at h ⊢
    rcases List.mem_cons.mp h with h | h
    · left; injection h
    · right
      rcases ih b h with h' | ⟨s', h'⟩
      · exact ⟨a, by rw [h']; exact List.mem_cons_self⟩
      · exact ⟨s', List.mem_cons_of_mem _ h'⟩

/-- the last coordinate is the end of an edge -/
theorem segs_last (l : List Pt) (a b : Pt) :
    ∃ s', (s', (a :: b :: l).getLast (by simp)) ∈ segs (a :: b :: l) := by
  induction l generalizing a b with
  | nil => exact ⟨a, by simp [segs]⟩
  | cons c rest ih =>
    obtain ⟨s', h⟩ := ih b c
    refine ⟨s', ?_⟩
    rw [segs]
    apply List.mem_cons_of_mem
    rw [List.getLast_cons (by simp)]
    exact h

theorem ringPos_two (p a b : Pt) (rest : List Pt) :
    ringPos p (a :: b :: rest) = .onBoundary ↔ ringWinding p (segs (a :: b :: rest)) 0 = none := by
  unfold ringPos
  cases ringWinding p (segs (a :: b :: rest)) 0 with
  | none => simp
  | some w =>
    simp only []
    split <;> simp

/-- Without any assumption on the ring: "on boundary" means the point lies on some edge. -/
theorem ringPos_boundary_sub (p : Pt) (ring : List Pt) (h2 : 2 ≤ ring.length)
    (h : ringPos p ring = .onBoundary) : ∃ edge ∈ segs ring, lineCoord edge.1 edge.2 p = true := by
  match ring, h2 with
  | a :: b :: rest, _ =>
    rw [ringPos_two, ringWinding_none_iff] at h
    obtain ⟨edge, hm, he⟩ := h
    exact ⟨edge, hm, lineCoord_of_ringEdge_none he⟩

/-- For a closed ring (the function's precondition, `debug_assert!(linestring.is_closed())`) with at
least two coordinates, the boundary short-circuit fires exactly for the points of the edges. -/
theorem ringPos_boundary_iff_closed (p : Pt) (ring : List Pt) (h2 : 2 ≤ ring.length)
    (hclosed : ring.head? = ring.getLast?) :
    ringPos p ring = .onBoundary ↔ ∃ edge ∈ segs ring, lineCoord edge.1 edge.2 p = true := by
  refine ⟨ringPos_boundary_sub p ring h2, ?_⟩
  match ring, h2, hclosed with
  | a :: b :: rest, _, hclosed =>
    rintro ⟨⟨s, e⟩, hm, hl⟩
    rw [ringPos_two, ringWinding_none_iff]
    rcases ringEdge_none_of_lineCoord hl with h | h
    · exact ⟨(s, e), hm, h⟩
    · -- `p` is the start vertex `s`: it is the end vertex of another edge
      have hlast : (a :: b :: rest).getLast (by simp) = a := by
        rw [List.head?_cons, List.getLast?_eq_getLast_of_ne_nil (by simp)] at hclosed
        injection hclosed with hc
        exact hc.symm
      have : ∃ s', (s', s) ∈ segs (a :: b :: rest) := by
        rcases segs_start _ a s e hm with h' | h'
        · obtain ⟨s', hs'⟩ := segs_last rest a b
          rw [hlast] at hs'
          exact ⟨s', by rw [h']; exact hs'⟩
        · exact h'
      obtain ⟨s', hs'⟩ := this
      refine ⟨(s', s), hs', ?_⟩
      rw [h]
      exact ringEdge_end s' s

end Geo.Proofs.Kernel
