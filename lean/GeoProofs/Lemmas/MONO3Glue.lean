/-
  MONO3 (C10): the ownership hypothesis of `monotone_pieces_wellFormed_partial` reduced to its chain-reference part.
  The structural clauses of `handsB` (every ending segment is reported once; the segment below the point is neither
  ending nor starting) hold on every run (MONO3Bot, MONO3Once, MONO3OnceB), so `ownedSteps` follows from `ownedRefs`.
-/
import GeoProofs.Lemmas.MONO3OnceB

namespace Geo.Proofs.MONO3
open Geo Geo.Mono Geo.MonoBuild Geo.Proofs.C10 Geo.Proofs.MONO Geo.Proofs.MONO2

/-- the chain-reference part of `handsB`: for the segments reported as ending at `pt` and the active segment below `pt`,
the chain indices held as `chain_idx` or as a component of a registered `help` are in range and pairwise different, a live
chain held as `help` has its tip strictly before `pt`, and the `helper_chain` of the segment below is in range -/
def refsB (pt : Pt) (st : St) : Bool :=
  let R := refsOf st (handSegs pt st)
  (st.prevActive pt).all (fun b =>
    (match st.infoOf b with
     | some bi => (match bi.helperChain with | some k => decide (k < st.chains.length) | none => true)
     | none => true)) &&
  R.all (fun r => decide (r.2.2 < st.chains.length)) &&
  R.all (fun r => r.2.1 == 0 ||
    (match (chainAt st r.2.2).bind List.getLast? with
     | some t => lexLt t pt
     | none => true)) &&
  R.all (fun r => R.all (fun r' => !(r.2.2 == r'.2.2) || (r.1 == r'.1 && r.2.1 == r'.2.1)))

/-- `refsB` holds after every `next_point` of `monotone_subdivision(ps)` -/
def ownedRefs (ps : List Poly) : Bool :=
  let st := initState ps
  (midStates (fuelFor st.segs.length) (fuelFor st.segs.length) st).all (fun r => refsB r.1 r.2)

theorem handsB_of_refsB {pt : Pt} {st : St} (hnd : st.incoming.Nodup)
    (hb : ∀ b, st.prevActive pt = some b → b ∉ st.incoming ∧ b ∉ st.outgoing) (h : refsB pt st = true) :
    handsB pt st = true := by
  unfold refsB at h
  unfold handsB
  simp only [Bool.and_eq_true] at h ⊢
  obtain ⟨⟨⟨h1, h2⟩, h3⟩, h4⟩ := h
  refine ⟨⟨⟨⟨?_, ?_⟩, h2⟩, h3⟩, h4⟩
  · simp only [decide_eq_true_eq]
    unfold handSegs
    cases hp : st.prevActive pt with
    | none => simpa using hnd
    | some b =>
      simp only [Option.toList_some]
      refine List.nodup_append.2 ⟨hnd, by simp, ?_⟩
      intro a ha c hc
      simp only [List.mem_singleton] at hc
      subst hc
      intro e
      exact (hb c hp).1 (e ▸ ha)
  · cases hp : st.prevActive pt with
    | none => simp
    | some b =>
      rw [hp] at h1
      simp only [Option.all_some] at h1 ⊢
      simp only [Bool.and_eq_true]
      refine ⟨?_, h1⟩
      simpa using (hb b hp).2

/-- [T] on every input, `ownedRefs` is all that `ownedSteps` asks for -/
theorem ownedSteps_of_ownedRefs (ps : List Poly) (h : ownedRefs ps = true) : ownedSteps ps = true := by
  unfold ownedRefs at h
  unfold ownedSteps
  simp only [List.all_eq_true] at h ⊢
  intro r hr
  obtain ⟨nd, hb⟩ := midStates_incoming_nodup _ _ _ (initState_sinv ps) (initState_einv ps) r hr
  exact handsB_of_refsB nd hb (h r hr)

end Geo.Proofs.MONO3
