/-
  RELM — the labelling of a star is slot-wise: `EdgeEndBundle::into_labeled`,
  `propagate_side_labels`, the dimensional-collapse flag and the fill from `coordinate_position`
  read and write one slot of the labels at a time, through functions of that slot alone. Hence they
  commute across the two slots, are exchanged by `Label::swap_args`, and the label of a bundle does
  not depend on the order of its edge ends.
-/
import GeoProofs.Lemmas.RELMNodes
import GeoProofs.Lemmas.C17Graph
import Mathlib.Data.List.Perm.Basic

namespace Geo.Proofs.RELM
open Geo Geo.GG Geo.RI

/-! ### slot-wise operations on labels -/

/-- apply `f` to slot `idx` -/
def mapSlot (l : Label) (idx : Nat) (f : TopoPos → TopoPos) : Label := l.set idx (f (l.get idx))

theorem set_get (l : Label) (idx : Nat) : l.set idx (l.get idx) = l := by
  cases l; unfold Label.set Label.get; split <;> rfl

theorem mapSlot_id (l : Label) (idx : Nat) : mapSlot l idx (fun t => t) = l := set_get l idx

@[simp] theorem mapSlot0_a (l : Label) (f : TopoPos → TopoPos) : (mapSlot l 0 f).a = f l.a := rfl
@[simp] theorem mapSlot0_b (l : Label) (f : TopoPos → TopoPos) : (mapSlot l 0 f).b = l.b := rfl
@[simp] theorem mapSlot1_a (l : Label) (f : TopoPos → TopoPos) : (mapSlot l 1 f).a = l.a := rfl
@[simp] theorem mapSlot1_b (l : Label) (f : TopoPos → TopoPos) : (mapSlot l 1 f).b = f l.b := rfl

theorem mapSlot_comm (l : Label) (f g : TopoPos → TopoPos) :
    mapSlot (mapSlot l 0 f) 1 g = mapSlot (mapSlot l 1 g) 0 f := rfl

theorem mapSlot0_swap (l : Label) (f : TopoPos → TopoPos) : (mapSlot l 0 f).swap = mapSlot l.swap 1 f := rfl
theorem mapSlot1_swap (l : Label) (f : TopoPos → TopoPos) : (mapSlot l 1 f).swap = mapSlot l.swap 0 f := rfl

theorem mapSlot_mapSlot (l : Label) (idx : Nat) (f g : TopoPos → TopoPos) :
    mapSlot (mapSlot l idx f) idx g = mapSlot l idx (fun t => g (f t)) := by
  cases l; unfold mapSlot Label.set Label.get; split <;> rfl

/-- the other slot index -/
def other (idx : Nat) : Nat := if idx = 0 then 1 else 0

theorem swap_get (l : Label) (idx : Nat) : l.swap.get idx = l.get (other idx) := by
  cases l; unfold Label.swap Label.get other; split <;> rfl

theorem swap_isArea (l : Label) : l.swap.isArea = l.isArea := by
  cases l; simp [Label.swap, Label.isArea, Bool.or_comm]

theorem mapSlot_swap (l : Label) (idx : Nat) (f : TopoPos → TopoPos) :
    (mapSlot l idx f).swap = mapSlot l.swap (other idx) f := by
  cases l; unfold mapSlot Label.set Label.get Label.swap other
  by_cases h : idx = 0
  · simp [h]
  · simp [h]

theorem other_other (idx : Nat) (h : idx = 0 ∨ idx = 1) : other (other idx) = idx := by
  rcases h with rfl | rfl <;> rfl

/-! ### the label of a bundle -/

/-- what `into_labeled` reads of an edge end for slot `idx` -/
def dataOf (idx : Nat) (ends : List EdgeEnd) : List (Bool × TopoPos) :=
  ends.map (fun e => (e.label.isArea, e.label.get idx))

/-- `compute_label_on` on the slots -/
def onT (d : List (Bool × TopoPos)) : Option Pos :=
  let bc := (d.filter (fun x => x.2.on == some .onBoundary)).length
  if bc > 0 then some (determineBoundary bc) else if d.any (fun x => x.2.on == some .inside) then some .inside else none

/-- `compute_label_side` on the slots: `Inside` if any area edge end says so, else `Outside` if any -/
def sideT (side : TopoPos → Option Pos) (d : List (Bool × TopoPos)) : Option Pos :=
  if d.any (fun x => x.1 && side x.2 == some .inside) then some .inside
  else if d.any (fun x => x.1 && side x.2 == some .outside) then some .outside else none

theorem sideLoop_eq (side : Label → Nat → Option Pos) (sideS : TopoPos → Option Pos) (idx : Nat)
    (hside : ∀ l, side l idx = sideS (l.get idx)) : ∀ (ends : List EdgeEnd) (acc : Option Pos),
    sideLoop side idx ends acc =
      if (dataOf idx ends).any (fun x => x.1 && sideS x.2 == some .inside) then some .inside
      else if (dataOf idx ends).any (fun x => x.1 && sideS x.2 == some .outside) then some .outside else acc
  | [], acc => by simp [sideLoop, dataOf]
  | e :: es, acc => by
      simp only [sideLoop, dataOf, List.map_cons, List.any_cons]
      have ih := sideLoop_eq side sideS idx hside es
      unfold dataOf at ih
      by_cases ha : e.label.isArea = true
      · rw [if_pos ha, hside]
        cases hs : sideS (e.label.get idx) with
        | none => simp [ih, ha]
        | some p =>
          cases p with
          | inside => simp [ha]
          | outside =>
            simp only [ih, ha, Bool.true_and, beq_self_eq_true, Bool.true_or]
            simp
          | onBoundary => simp [ih, ha]
      · have ha' : e.label.isArea = false := by simpa using ha
        rw [if_neg ha]
        simp [ih, ha']

/-- the new content of slot `idx` of the bundle label -/
def stepT (isArea : Bool) (d : List (Bool × TopoPos)) (t : TopoPos) : TopoPos :=
  let t := match onT d with
    | some p => t.setOn p
    | none => t
  if isArea then
    let t := match sideT TopoPos.left d with
      | some p => t.setLeft p
      | none => t
    match sideT TopoPos.right d with
    | some p => t.setRight p
    | none => t
  else t

theorem computeLabelOn_eq (ends : List EdgeEnd) (l : Label) (idx : Nat) :
    computeLabelOn ends l idx = mapSlot l idx (fun t => match onT (dataOf idx ends) with
      | some p => t.setOn p
      | none => t) := by
  have hf : (ends.filter (fun e => e.label.onPos idx == some .onBoundary)).length =
      ((dataOf idx ends).filter (fun x => x.2.on == some .onBoundary)).length := by
    unfold dataOf
    rw [List.filter_map, List.length_map]
    rfl
  have ha : ends.any (fun e => e.label.onPos idx == some .inside) =
      (dataOf idx ends).any (fun x => x.2.on == some .inside) := by
    unfold dataOf
    rw [List.any_map]
    rfl
  unfold computeLabelOn onT
  simp only [hf, ha]
  split
  · rename_i p hp
    simp only [hp]
    rfl
  · rename_i hp
    simp only [hp]
    exact (mapSlot_id l idx).symm

theorem bundleLabelStep_eq (ends : List EdgeEnd) (isArea : Bool) (l : Label) (idx : Nat) :
    bundleLabelStep ends isArea l idx = mapSlot l idx (stepT isArea (dataOf idx ends)) := by
  unfold bundleLabelStep
  simp only [computeLabelOn_eq]
  cases isArea with
  | false =>
    simp only [Bool.false_eq_true, if_false]
    unfold stepT
    simp only [Bool.false_eq_true, if_false]
  | true =>
    have hL : sideLoop Label.leftPos idx ends none = sideT TopoPos.left (dataOf idx ends) := by
      rw [sideLoop_eq Label.leftPos TopoPos.left idx (fun _ => rfl)]; rfl
    have hR : sideLoop Label.rightPos idx ends none = sideT TopoPos.right (dataOf idx ends) := by
      rw [sideLoop_eq Label.rightPos TopoPos.right idx (fun _ => rfl)]; rfl
    have sl : ∀ (l : Label) (p : Pos), l.setLeft idx p = mapSlot l idx (fun t => t.setLeft p) := fun _ _ => rfl
    have sr : ∀ (l : Label) (p : Pos), l.setRight idx p = mapSlot l idx (fun t => t.setRight p) := fun _ _ => rfl
    simp only [if_true, hL, hR]
    unfold stepT
    simp only [if_true]
    cases sideT TopoPos.left (dataOf idx ends) <;> cases sideT TopoPos.right (dataOf idx ends) <;>
      simp only [sl, sr, mapSlot_mapSlot]

/-- `into_labeled` in slot-wise form -/
theorem bundleLabel_eq (ends : List EdgeEnd) :
    bundleLabel ends =
      let isArea := ends.any (fun e => e.label.isArea)
      let t0 : TopoPos := if isArea then .emptyArea else .emptyLine
      ⟨stepT isArea (dataOf 0 ends) t0, stepT isArea (dataOf 1 ends) t0⟩ := by
  unfold bundleLabel
  simp only [bundleLabelStep_eq]
  split <;> rfl

/-- exchange the slots of the label of an edge end -/
def swapE (e : EdgeEnd) : EdgeEnd := { e with label := e.label.swap }

theorem dataOf_swap (idx : Nat) (ends : List EdgeEnd) :
    dataOf idx (ends.map swapE) = dataOf (other idx) ends := by
  unfold dataOf
  rw [List.map_map]
  apply List.map_congr_left
  intro e _
  simp only [Function.comp, swapE, swap_isArea, swap_get]

/-- **the label of the bundle of the swapped edge ends is the swapped label** -/
theorem bundleLabel_swap (ends : List EdgeEnd) : bundleLabel (ends.map swapE) = (bundleLabel ends).swap := by
  rw [bundleLabel_eq, bundleLabel_eq]
  have ha : (ends.map swapE).any (fun e => e.label.isArea) = ends.any (fun e => e.label.isArea) := by
    rw [List.any_map]
    congr 1
    funext e
    simp only [Function.comp, swapE, swap_isArea]
  simp only [ha, dataOf_swap]
  rfl

theorem onT_perm {d d' : List (Bool × TopoPos)} (h : d.Perm d') : onT d = onT d' := by
  unfold onT
  rw [(h.filter _).length_eq]
  have : d.any (fun x => x.2.on == some .inside) = d'.any (fun x => x.2.on == some .inside) := by
    rw [Bool.eq_iff_iff]
    simp only [List.any_eq_true]
    exact ⟨fun ⟨x, hx, hp⟩ => ⟨x, h.mem_iff.1 hx, hp⟩, fun ⟨x, hx, hp⟩ => ⟨x, h.mem_iff.2 hx, hp⟩⟩
  rw [this]

theorem any_perm {α} {p : α → Bool} {d d' : List α} (h : d.Perm d') : d.any p = d'.any p := by
  rw [Bool.eq_iff_iff]
  simp only [List.any_eq_true]
  exact ⟨fun ⟨x, hx, hp⟩ => ⟨x, h.mem_iff.1 hx, hp⟩, fun ⟨x, hx, hp⟩ => ⟨x, h.mem_iff.2 hx, hp⟩⟩

theorem sideT_perm (side : TopoPos → Option Pos) {d d' : List (Bool × TopoPos)} (h : d.Perm d') :
    sideT side d = sideT side d' := by
  unfold sideT
  rw [any_perm h, any_perm (p := fun x => x.1 && side x.2 == some .outside) h]

theorem stepT_perm (isArea : Bool) {d d' : List (Bool × TopoPos)} (h : d.Perm d') :
    stepT isArea d = stepT isArea d' := by
  funext t
  unfold stepT
  rw [onT_perm h, sideT_perm _ h, sideT_perm _ h]

/-- **the label of a bundle does not depend on the order of its edge ends** -/
theorem bundleLabel_perm {ends ends' : List EdgeEnd} (h : ends.Perm ends') : bundleLabel ends = bundleLabel ends' := by
  rw [bundleLabel_eq, bundleLabel_eq]
  have ha : ends.any (fun e => e.label.isArea) = ends'.any (fun e => e.label.isArea) := any_perm h
  simp only [ha]
  rw [stepT_perm _ (show (dataOf 0 ends).Perm (dataOf 0 ends') from h.map _),
    stepT_perm _ (show (dataOf 1 ends).Perm (dataOf 1 ends') from h.map _)]

/-! ### `fill` -/

/-- the fill of one slot from `coordinate_position` -/
def fillT (g : Geom) (collapsed : Bool) (c : Pt) (t : TopoPos) : TopoPos :=
  if t.isAnyEmpty then
    t.setAllIfEmpty (if collapsed then .outside else if dims g == .two then coordPos g c else .outside)
  else t

theorem fillEmpty_eq (g : Geom) (collapsed : Bool) (c : Pt) (l : Label) (idx : Nat) :
    fillEmpty g collapsed c l idx = mapSlot l idx (fillT g collapsed c) := by
  unfold fillEmpty
  by_cases h : l.isAnyEmptyAt idx = true
  · have h' : (l.get idx).isAnyEmpty = true := h
    rw [if_pos h]
    unfold fillT mapSlot
    simp only [h', if_true]
    rfl
  · have h' : ¬ (l.get idx).isAnyEmpty = true := h
    rw [if_neg h]
    unfold fillT mapSlot
    simp only [h', if_false]
    exact (set_get l idx).symm

end Geo.Proofs.RELM
