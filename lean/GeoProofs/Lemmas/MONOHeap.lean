/-
  MONO (C10, builder of the monotone pieces): the mirror of `std::collections::BinaryHeap<Event>` in
  GeoModel/MonoBuildSweep.lean (`heapPush`/`sift_up`, `heapPop`/`sift_down_to_bottom`, `heapExtend2`/`rebuild`) keeps the
  heap order and only permutes its entries. Port of GeoProofs/Lemmas/C09PHeap.lean (same mirror on `VScore`) to events
  under the sweep order of MONOOrder.lean: `Event::cmp` is reversed, so the max-heap of the standard library has the
  *first* event of the sweep order at its root.
-/
import GeoModel.MonoBuildSweep
import GeoProofs.Lemmas.MONOOrder
import Mathlib.Tactic.Order

namespace Geo.Proofs.MONO
open Geo Geo.MonoBuild

/-! ### the vector as a function -/

/-- the entry at position `i` (a default past the end) -/
def val (d : Heap) (i : Nat) : Ev :=
  match d[i]? with
  | some v => v
  | none => default

/-- pointwise update -/
def upd (g : Nat → Ev) (i : Nat) (x : Ev) : Nat → Ev := fun j => if j = i then x else g j

theorem val_get {d : Heap} {i : Nat} {v : Ev} (h : d[i]? = some v) : val d i = v := by
  simp [val, h]

theorem val_set (d : Heap) (i : Nat) (v : Ev) (h : i < d.length) :
    val (d.set i v) = upd (val d) i v := by
  funext j
  unfold val upd
  rw [List.getElem?_set]
  by_cases e : i = j
  · subst e; simp [h]
  · have e' : ¬ j = i := fun x => e x.symm
    simp [e, e']


/-! ### heap order, with and without a hole -/

/-- heap order on all edges whose parent index is at least `k` -/
def HeapK (k : Nat) (g : Nat → Ev) (n : Nat) : Prop :=
  ∀ i, 0 < i → i < n → k ≤ (i - 1) / 2 → g ((i - 1) / 2) ≤ g i

/-- heap order around a hole at `pos` (the value at `pos` is not looked at): every edge that does
not touch `pos` is in order, and the parent of `pos` is below the children of `pos`. -/
structure HoleInv (k : Nat) (g : Nat → Ev) (n pos : Nat) : Prop where
  E : ∀ i, 0 < i → i < n → k ≤ (i - 1) / 2 → i ≠ pos → (i - 1) / 2 ≠ pos → g ((i - 1) / 2) ≤ g i
  G : ∀ j, 0 < j → j < n → (j - 1) / 2 = pos → 0 < pos → k ≤ (pos - 1) / 2 → g ((pos - 1) / 2) ≤ g j

/-- The heap-order invariant of the `BinaryHeap` mirror: every parent's area is at most its
children's (the smallest area is at the root). -/
def HeapInv (d : Heap) : Prop := HeapK 0 (val d) d.length

/-- filling the hole with a value that fits between the parent and the children -/
theorem fill_heapK {k : Nat} {g : Nat → Ev} {n pos : Nat} {x : Ev} (h : HoleInv k g n pos)
    (hc : ∀ j, 0 < j → j < n → (j - 1) / 2 = pos → x ≤ g j)
    (hp : 0 < pos → k ≤ (pos - 1) / 2 → g ((pos - 1) / 2) ≤ x) :
    HeapK k (upd g pos x) n := by
  intro i hi0 hin hk
  simp only [upd]
  by_cases e1 : i = pos
  · subst e1
    have e2 : ¬ (i - 1) / 2 = i := by omega
    simp only [e2, if_false, if_true]
    exact hp hi0 hk
  · by_cases e2 : (i - 1) / 2 = pos
    · simp only [e1, e2, if_false, if_true]
      exact hc i hi0 hin e2
    · simp only [e1, e2, if_false]
      exact h.E i hi0 hin hk e1 e2

/-- a heap with any position opened as a hole -/
theorem heapK_hole {k : Nat} {g : Nat → Ev} {n : Nat} (h : HeapK k g n) (pos : Nat) :
    HoleInv k g n pos := by
  constructor
  · intro i hi0 hin hk _ _
    exact h i hi0 hin hk
  · intro j hj0 hjn hjp hp0 hk
    have h1 := h j hj0 hjn (by omega)
    have h2 := h pos hp0 (by omega) hk
    rw [hjp] at h1
    order

/-- `sift_up` step: the parent's value moves down into the hole, the hole moves up -/
theorem up_step {g : Nat → Ev} {n pos : Nat} {x : Ev} (h : HoleInv 0 g n pos) (hp0 : 0 < pos)
    (hpn : pos < n) (hx : x < g ((pos - 1) / 2)) :
    HoleInv 0 (upd g pos (g ((pos - 1) / 2))) n ((pos - 1) / 2) ∧
    (∀ j, 0 < j → j < n → (j - 1) / 2 = (pos - 1) / 2 →
      x ≤ upd g pos (g ((pos - 1) / 2)) j) := by
  refine ⟨⟨?_, ?_⟩, ?_⟩
  · intro i hi0 hin _ e1 e2
    simp only [upd]
    have e3 : i ≠ pos := fun e => e2 (by rw [e])
    by_cases e4 : (i - 1) / 2 = pos
    · simp only [e3, e4, if_false, if_true]
      exact h.G i hi0 hin e4 hp0 (Nat.zero_le _)
    · simp only [e3, e4, if_false]
      exact h.E i hi0 hin (Nat.zero_le _) e3 e4
  · intro j hj0 hjn hjp hpp _
    simp only [upd]
    have e1 : ¬ ((pos - 1) / 2 - 1) / 2 = pos := by omega
    have hgp := h.E ((pos - 1) / 2) hpp (by omega) (Nat.zero_le _) (by omega) e1
    by_cases e2 : j = pos
    · simp only [e1, e2, if_false, if_true]
      exact hgp
    · simp only [e1, e2, if_false]
      have := h.E j hj0 hjn (Nat.zero_le _) e2 (by omega)
      rw [hjp] at this
      order
  · intro j hj0 hjn hjp
    simp only [upd]
    by_cases e2 : j = pos
    · simp only [e2, if_true]; order
    · simp only [e2, if_false]
      have := h.E j hj0 hjn (Nat.zero_le _) e2 (by omega)
      rw [hjp] at this
      order

/-- `sift_down` step: the smallest child `c` moves up into the hole, the hole moves down -/
theorem down_step {k : Nat} {g : Nat → Ev} {n pos c : Nat} (h : HoleInv k g n pos) (hk : k ≤ pos)
    (hc0 : 0 < c) (hcn : c < n) (hcp : (c - 1) / 2 = pos)
    (hmin : ∀ j, 0 < j → j < n → (j - 1) / 2 = pos → g c ≤ g j) :
    HoleInv k (upd g pos (g c)) n c := by
  constructor
  · intro i hi0 hin hki e1 e2
    simp only [upd]
    by_cases e3 : i = pos
    · subst e3
      have e4 : ¬ (i - 1) / 2 = i := by omega
      simp only [e4, if_false, if_true]
      exact h.G c hc0 hcn hcp hi0 hki
    · by_cases e4 : (i - 1) / 2 = pos
      · simp only [e3, e4, if_false, if_true]
        exact hmin i hi0 hin e4
      · simp only [e3, e4, if_false]
        exact h.E i hi0 hin hki e3 e4
  · intro j hj0 hjn hjp _ _
    simp only [upd]
    have e1 : ¬ j = pos := by omega
    simp only [hcp, e1, if_false, if_true]
    have := h.E j hj0 hjn (by omega) e1 (by omega)
    rw [hjp] at this
    exact this

/-! ### `sift_up` -/

theorem siftUpGo_heap (elt : Ev) : ∀ (f : Nat) (d : Heap) (pos : Nat),
    pos < d.length → pos < f → HoleInv 0 (val d) d.length pos →
    (∀ j, 0 < j → j < d.length → (j - 1) / 2 = pos → elt ≤ val d j) →
    (siftUpGo elt 0 f d pos).length = d.length ∧
    HeapK 0 (val (siftUpGo elt 0 f d pos)) d.length
  | 0, d, pos, _, hf, _, _ => by omega
  | f + 1, d, pos, hpos, hf, hh, hc => by
    simp only [siftUpGo]
    by_cases hp0 : pos > 0
    · simp only [hp0, if_true]
      have hpar : (pos - 1) / 2 < d.length := by omega
      obtain ⟨p, hp⟩ : ∃ p, d[(pos - 1) / 2]? = some p := ⟨d[(pos - 1) / 2], List.getElem?_eq_getElem hpar⟩
      simp only [hp]
      have hvp : val d ((pos - 1) / 2) = p := val_get hp
      by_cases hle : elt.le p = true
      · simp only [hle, if_true]
        refine ⟨List.length_set, ?_⟩
        rw [val_set d pos elt hpos]
        refine fill_heapK hh hc (fun _ _ => ?_)
        rw [hvp]; exact (le_iff _ _).1 hle
      · simp only [hle]
        have hlt : elt < p := by
          rw [le_iff] at hle; exact ev_not_le.1 hle
        have hl : (d.set pos p).length = d.length := List.length_set
        obtain ⟨s1, s2⟩ := up_step hh hp0 hpos (by rw [hvp]; exact hlt)
        rw [hvp, ← val_set d pos p hpos] at s1 s2
        have ih := siftUpGo_heap elt f (d.set pos p) ((pos - 1) / 2) (by omega) (by omega)
          (by rw [hl]; exact s1) (by rw [hl]; exact s2)
        rw [hl] at ih
        exact ih
    · simp only [hp0, if_false]
      refine ⟨List.length_set, ?_⟩
      rw [val_set d pos elt hpos]
      exact fill_heapK hh hc (fun h => absurd h hp0)

/-! ### `sift_down_range` (used by `rebuild`) -/

theorem children_two {pos j : Nat} (hj0 : 0 < j) (hjp : (j - 1) / 2 = pos) :
    j = 2 * pos + 1 ∨ j = 2 * pos + 1 + 1 := by omega

theorem siftDownGo_heap (k : Nat) (elt : Ev) (en : Nat) : ∀ (f : Nat) (d : Heap) (pos : Nat),
    d.length = en → pos < en → en ≤ pos + f → k ≤ pos → HoleInv k (val d) en pos →
    (0 < pos → k ≤ (pos - 1) / 2 → val d ((pos - 1) / 2) ≤ elt) →
    (siftDownGo elt en f d pos).length = en ∧ HeapK k (val (siftDownGo elt en f d pos)) en
  | 0, d, pos, _, hpos, hf, _, _, _ => by omega
  | f + 1, d, pos, hen, hpos, hf, hk, hh, hpar => by
    have hposd : pos < d.length := by omega
    have hls : ∀ v, (d.set pos v).length = en := fun v => by rw [List.length_set]; exact hen
    simp only [siftDownGo]
    split
    · rename_i hch
      have h0 : 2 * pos + 1 < d.length := by omega
      have h1 : 2 * pos + 1 + 1 < d.length := by omega
      split
      · rename_i c0 c1 hc0 hc1
        have v0 : val d (2 * pos + 1) = c0 := val_get hc0
        have v1 : val d (2 * pos + 1 + 1) = c1 := val_get hc1
        by_cases hle : c0.le c1 = true
        · simp only [hle, if_true]
          have hle' : c1 ≤ c0 := (le_iff _ _).1 hle
          show ((if c1.le elt = true then d.set pos elt
            else siftDownGo elt en f (d.set pos c1) (2 * pos + 1 + 1)).length = en) ∧
            HeapK k (val (if c1.le elt = true then d.set pos elt
            else siftDownGo elt en f (d.set pos c1) (2 * pos + 1 + 1))) en
          have hmin : ∀ j, 0 < j → j < en → (j - 1) / 2 = pos → val d (2 * pos + 1 + 1) ≤ val d j := by
            intro j hj0 _ hjp
            rcases children_two hj0 hjp with e | e
            · rw [e, v0, v1]; exact hle'
            · subst e; exact le_refl _
          by_cases h2 : c1.le elt = true
          · simp only [h2, if_true]
            refine ⟨hls _, ?_⟩
            rw [val_set d pos elt hposd]
            refine fill_heapK hh (fun j hj0 hjn hjp => ?_) hpar
            have := hmin j hj0 hjn hjp
            rw [v1] at this
            have := (le_iff _ _).1 h2
            order
          · simp only [h2]
            have hlt : c1 < elt := by rw [le_iff] at h2; exact ev_not_le.1 h2
            have s1 := down_step (c := 2 * pos + 1 + 1) hh hk (by omega) (by omega) (by omega) hmin
            rw [v1, ← val_set d pos c1 hposd] at s1
            refine siftDownGo_heap k elt en f (d.set pos c1) (2 * pos + 1 + 1) (hls _) (by omega)
              (by omega) (by omega) s1 (fun _ _ => ?_)
            have e : (2 * pos + 1 + 1 - 1) / 2 = pos := by omega
            rw [e, val_set d pos c1 hposd]
            simp only [upd, if_true]
            exact le_of_lt hlt
        · simp only [hle]
          have hle' : c0 < c1 := by rw [le_iff] at hle; exact ev_not_le.1 hle
          show ((if c0.le elt = true then d.set pos elt
            else siftDownGo elt en f (d.set pos c0) (2 * pos + 1)).length = en) ∧
            HeapK k (val (if c0.le elt = true then d.set pos elt
            else siftDownGo elt en f (d.set pos c0) (2 * pos + 1))) en
          have hmin : ∀ j, 0 < j → j < en → (j - 1) / 2 = pos → val d (2 * pos + 1) ≤ val d j := by
            intro j hj0 _ hjp
            rcases children_two hj0 hjp with e | e
            · subst e; exact le_refl _
            · rw [e, v0, v1]; exact le_of_lt hle'
          by_cases h2 : c0.le elt = true
          · simp only [h2, if_true]
            refine ⟨hls _, ?_⟩
            rw [val_set d pos elt hposd]
            refine fill_heapK hh (fun j hj0 hjn hjp => ?_) hpar
            have := hmin j hj0 hjn hjp
            rw [v0] at this
            have := (le_iff _ _).1 h2
            order
          · simp only [h2]
            have hlt : c0 < elt := by rw [le_iff] at h2; exact ev_not_le.1 h2
            have s1 := down_step (c := 2 * pos + 1) hh hk (by omega) (by omega) (by omega) hmin
            rw [v0, ← val_set d pos c0 hposd] at s1
            refine siftDownGo_heap k elt en f (d.set pos c0) (2 * pos + 1) (hls _) (by omega)
              (by omega) (by omega) s1 (fun _ _ => ?_)
            have e : (2 * pos + 1 - 1) / 2 = pos := by omega
            rw [e, val_set d pos c0 hposd]
            simp only [upd, if_true]
            exact le_of_lt hlt
      · rename_i hno
        exact absurd (List.getElem?_eq_getElem h1) (fun e => hno _ _ (List.getElem?_eq_getElem h0) e)
    · rename_i hch
      split
      · rename_i c hc
        have hcl : 2 * pos + 1 < d.length := (List.getElem?_eq_some_iff.1 hc).1
        have hlast : 2 * pos + 1 = en - 1 := by omega
        have vc : val d (2 * pos + 1) = c := val_get hc
        have hmin : ∀ j, 0 < j → j < en → (j - 1) / 2 = pos → val d (2 * pos + 1) ≤ val d j := by
          intro j hj0 hjn hjp
          rcases children_two hj0 hjp with e | e
          · subst e; exact le_refl _
          · omega
        by_cases h2 : elt.lt c = true
        · simp only [hlast, h2, and_self, if_true]
          rw [← hlast]
          have hlt : c < elt := (lt_iff _ _).1 h2
          refine ⟨by rw [List.length_set]; exact hls _, ?_⟩
          have s1 := down_step (c := 2 * pos + 1) hh hk (by omega) (by omega) (by omega) hmin
          rw [vc, ← val_set d pos c hposd] at s1
          rw [val_set (d.set pos c) (2 * pos + 1) elt (by rw [hls]; omega)]
          refine fill_heapK s1 (fun j _ hjn hjp => by omega) (fun _ _ => ?_)
          have e : (2 * pos + 1 - 1) / 2 = pos := by omega
          rw [e, val_set d pos c hposd]
          simp only [upd, if_true]
          exact le_of_lt hlt
        · have hge : elt ≤ c := by rw [lt_iff] at h2; exact ev_not_lt.1 h2
          simp only [h2, Bool.false_eq_true, and_false, if_false]
          refine ⟨hls _, ?_⟩
          rw [val_set d pos elt hposd]
          refine fill_heapK hh (fun j hj0 hjn hjp => ?_) hpar
          have := hmin j hj0 hjn hjp
          rw [vc] at this
          order
      · rename_i hno
        have hcl : ¬ 2 * pos + 1 < d.length := fun h => by
          rw [List.getElem?_eq_getElem h] at hno; exact absurd hno (by simp)
        refine ⟨hls _, ?_⟩
        rw [val_set d pos elt hposd]
        exact fill_heapK hh (fun j hj0 hjn hjp => by omega) hpar

/-- `sift_down(n)` extends the heap order from the edges below `n + 1` to the edges below `n` -/
theorem siftDown_heap (d : Heap) (n : Nat) (hn : n < d.length) (h : HeapK (n + 1) (val d) d.length) :
    (siftDown d n).length = d.length ∧ HeapK n (val (siftDown d n)) d.length := by
  unfold siftDown
  rw [List.getElem?_eq_getElem hn]
  simp only
  refine siftDownGo_heap n d[n] d.length d.length d n rfl hn (by omega) (le_refl _) ⟨?_, ?_⟩
    (fun _ hk => by omega)
  · intro i hi0 hin hk _ e2
    exact h i hi0 hin (by omega)
  · intro j _ _ _ _ hk
    omega

theorem rebuildGo_heap : ∀ (n : Nat) (d : Heap), n ≤ d.length → HeapK n (val d) d.length →
    (rebuildGo n d).length = d.length ∧ HeapInv (rebuildGo n d)
  | 0, d, _, h => ⟨rfl, h⟩
  | n + 1, d, hn, h => by
    simp only [rebuildGo]
    obtain ⟨hl, hh⟩ := siftDown_heap d n (by omega) h
    have ih := rebuildGo_heap n (siftDown d n) (by omega) (by rw [hl]; exact hh)
    rw [hl] at ih
    exact ih

/-- a full `rebuild` establishes the heap order -/
theorem rebuild_heap (v : Heap) :
    (rebuildGo (v.length / 2) v).length = v.length ∧ HeapInv (rebuildGo (v.length / 2) v) := by
  refine rebuildGo_heap (v.length / 2) v (by omega) ?_
  intro i _ hin hk
  omega

/-! ### `push` -/

theorem heapInv_append (d : Heap) (item : Ev) (h : HeapInv d) :
    HoleInv 0 (val (d ++ [item])) (d.length + 1) d.length := by
  have hv : ∀ i, i < d.length → val (d ++ [item]) i = val d i := by
    intro i hi
    unfold val
    rw [List.getElem?_append_left hi]
  constructor
  · intro i hi0 hin _ e1 _
    have hi : i < d.length := by omega
    rw [hv i hi, hv _ (by omega)]
    exact h i hi0 hi (Nat.zero_le _)
  · intro j _ hjn hjp _ _
    omega

theorem heapPush_heap (d : Heap) (item : Ev) (h : HeapInv d) :
    (heapPush d item).length = d.length + 1 ∧ HeapInv (heapPush d item) := by
  unfold heapPush siftUp
  have hg : (d ++ [item])[d.length]? = some item := by simp
  rw [hg]
  simp only
  have hl : (d ++ [item]).length = d.length + 1 := by simp
  have := siftUpGo_heap item (d.length + 1) (d ++ [item]) d.length (by omega) (by omega)
    (by rw [hl]; exact heapInv_append d item h) (fun j _ hjn hjp => by omega)
  rw [hl] at this
  refine ⟨this.1, ?_⟩
  unfold HeapInv
  rw [this.1]
  exact this.2

/-! ### `pop` (`sift_down_to_bottom` then `sift_up`) -/

theorem toBottomGo_hole (en : Nat) : ∀ (f : Nat) (d : Heap) (pos : Nat),
    d.length = en → pos < en → en ≤ pos + f → HoleInv 0 (val d) en pos →
    (toBottomGo en f d pos).1.length = en ∧ (toBottomGo en f d pos).2 < en ∧
    en ≤ 2 * (toBottomGo en f d pos).2 + 1 ∧
    HoleInv 0 (val (toBottomGo en f d pos).1) en (toBottomGo en f d pos).2
  | 0, d, pos, _, hpos, hf, _ => by omega
  | f + 1, d, pos, hen, hpos, hf, hh => by
    have hposd : pos < d.length := by omega
    have hls : ∀ v, (d.set pos v).length = en := fun v => by rw [List.length_set]; exact hen
    simp only [toBottomGo]
    split
    · rename_i hch
      have h0 : 2 * pos + 1 < d.length := by omega
      have h1 : 2 * pos + 1 + 1 < d.length := by omega
      split
      · rename_i c0 c1 hc0 hc1
        have v0 : val d (2 * pos + 1) = c0 := val_get hc0
        have v1 : val d (2 * pos + 1 + 1) = c1 := val_get hc1
        by_cases hle : c0.le c1 = true
        · simp only [hle, if_true]
          have hle' : c1 ≤ c0 := (le_iff _ _).1 hle
          have hmin : ∀ j, 0 < j → j < en → (j - 1) / 2 = pos → val d (2 * pos + 1 + 1) ≤ val d j := by
            intro j hj0 _ hjp
            rcases children_two hj0 hjp with e | e
            · rw [e, v0, v1]; exact hle'
            · subst e; exact le_refl _
          have s1 := down_step (c := 2 * pos + 1 + 1) hh (Nat.zero_le _) (by omega) (by omega) (by omega) hmin
          rw [v1, ← val_set d pos c1 hposd] at s1
          exact toBottomGo_hole en f (d.set pos c1) (2 * pos + 1 + 1) (hls _) (by omega) (by omega) s1
        · simp only [hle]
          have hle' : c0 < c1 := by rw [le_iff] at hle; exact ev_not_le.1 hle
          have hmin : ∀ j, 0 < j → j < en → (j - 1) / 2 = pos → val d (2 * pos + 1) ≤ val d j := by
            intro j hj0 _ hjp
            rcases children_two hj0 hjp with e | e
            · subst e; exact le_refl _
            · rw [e, v0, v1]; exact le_of_lt hle'
          have s1 := down_step (c := 2 * pos + 1) hh (Nat.zero_le _) (by omega) (by omega) (by omega) hmin
          rw [v0, ← val_set d pos c0 hposd] at s1
          exact toBottomGo_hole en f (d.set pos c0) (2 * pos + 1) (hls _) (by omega) (by omega) s1
      · rename_i hno
        exact absurd (List.getElem?_eq_getElem h1) (fun e => hno _ _ (List.getElem?_eq_getElem h0) e)
    · rename_i hch
      split
      · rename_i c hc
        have hcl : 2 * pos + 1 < d.length := (List.getElem?_eq_some_iff.1 hc).1
        have hlast : 2 * pos + 1 = en - 1 := by omega
        have vc : val d (2 * pos + 1) = c := val_get hc
        have hmin : ∀ j, 0 < j → j < en → (j - 1) / 2 = pos → val d (2 * pos + 1) ≤ val d j := by
          intro j hj0 hjn hjp
          rcases children_two hj0 hjp with e | e
          · subst e; exact le_refl _
          · omega
        simp only [hlast, if_true]
        rw [← hlast]
        have s1 := down_step (c := 2 * pos + 1) hh (Nat.zero_le _) (by omega) (by omega) (by omega) hmin
        rw [vc, ← val_set d pos c hposd] at s1
        exact ⟨hls _, by omega, by omega, s1⟩
      · rename_i hno
        have hcl : ¬ 2 * pos + 1 < d.length := fun h => by
          rw [List.getElem?_eq_getElem h] at hno; exact absurd hno (by simp)
        exact ⟨hen, hpos, by omega, hh⟩

theorem siftDownToBottom_heap (d : Heap) (h : HoleInv 0 (val d) d.length 0) :
    (siftDownToBottom d).length = d.length ∧ HeapInv (siftDownToBottom d) := by
  unfold siftDownToBottom
  split
  · rename_i hno
    have : d.length = 0 := by
      by_contra hne
      have hlt : 0 < d.length := by omega
      rw [List.getElem?_eq_getElem hlt] at hno
      exact absurd hno (by simp)
    refine ⟨rfl, ?_⟩
    intro i _ hin _
    omega
  · rename_i elt helt
    have hlt : 0 < d.length := (List.getElem?_eq_some_iff.1 helt).1
    obtain ⟨b1, b2, b3, b4⟩ := toBottomGo_hole d.length d.length d 0 rfl hlt (by omega) h
    generalize toBottomGo d.length d.length d 0 = r at b1 b2 b3 b4
    obtain ⟨d', pos⟩ := r
    simp only at b1 b2 b3 b4 ⊢
    have := siftUpGo_heap elt (pos + 1) d' pos (by omega) (by omega) (by rw [b1]; exact b4)
      (fun j _ hjn hjp => by omega)
    rw [b1] at this
    refine ⟨this.1, ?_⟩
    unfold HeapInv
    rw [this.1]
    exact this.2

/-- the root of a heap is a minimum -/
theorem heapK_root_min {g : Nat → Ev} {n : Nat} (h : HeapK 0 g n) : ∀ i, i < n → g 0 ≤ g i := by
  intro i
  induction i using Nat.strong_induction_on with
  | _ i ih =>
    intro hin
    by_cases hi0 : i = 0
    · subst hi0; exact le_refl _
    · have h1 := h i (by omega) hin (Nat.zero_le _)
      have h2 := ih ((i - 1) / 2) (by omega) (by omega)
      order

theorem heapInv_root_min {d : Heap} (h : HeapInv d) {top : Ev} (ht : d[0]? = some top) :
    ∀ x ∈ d, top ≤ x := by
  intro x hx
  obtain ⟨i, hi, hxi⟩ := List.getElem_of_mem hx
  have := heapK_root_min h i hi
  rw [val_get ht, val_get (v := x) (by rw [List.getElem?_eq_getElem hi, hxi])] at this
  exact this

theorem val_dropLast (d : Heap) (i : Nat) (hi : i < d.length - 1) : val d.dropLast i = val d i := by
  unfold val
  rw [List.getElem?_dropLast]
  simp [hi]

/-- `BinaryHeap::pop` keeps the heap order and returns an entry of minimal area -/
theorem heapPop_heap {d : Heap} (h : HeapInv d) {s : Ev} {d' : Heap}
    (hp : heapPop d = some (s, d')) :
    d'.length + 1 = d.length ∧ HeapInv d' ∧ ∀ x ∈ d, s ≤ x := by
  unfold heapPop at hp
  split at hp
  · exact absurd hp (by simp)
  · rename_i item hitem
    have hne : d ≠ [] := by intro e; rw [e] at hitem; simp at hitem
    have hlen : 0 < d.length := List.length_pos_iff.2 hne
    have hdl : d.dropLast.length = d.length - 1 := List.length_dropLast
    dsimp only at hp
    split at hp
    · rename_i hnone
      simp only [Option.some.injEq, Prod.mk.injEq] at hp
      have hd0 : d.dropLast = [] := List.head?_eq_none_iff.1 hnone
      have hl1 : d.length = 1 := by
        have : d.dropLast.length = 0 := by rw [hd0]; rfl
        omega
      rw [← hp.1, ← hp.2, hd0]
      refine ⟨by simp [hl1], ?_, ?_⟩
      · intro i _ hin _; simp at hin
      · intro x hx
        obtain ⟨i, hi, hxi⟩ := List.getElem_of_mem hx
        have hi0 : i = 0 := by omega
        subst hi0
        have : d.getLast? = some x := by
          rw [List.getLast?_eq_getElem?]
          have : d.length - 1 = 0 := by omega
          rw [this, List.getElem?_eq_getElem hi, hxi]
        rw [this] at hitem
        simp only [Option.some.injEq] at hitem
        subst hitem; exact le_refl _
    · rename_i top htop
      simp only [Option.some.injEq, Prod.mk.injEq] at hp
      have hl2 : 0 < d.dropLast.length := by
        by_contra hh
        have : d.dropLast = [] := List.length_eq_zero_iff.1 (by omega)
        rw [this] at htop; simp at htop
      have htop0 : d[0]? = some top := by
        rw [List.head?_eq_getElem?, List.getElem?_dropLast] at htop
        have : 0 < d.length - 1 := by omega
        simpa [this] using htop
      have hhole : HoleInv 0 (val (d.dropLast.set 0 item)) (d.dropLast.set 0 item).length 0 := by
        rw [List.length_set, val_set _ 0 item hl2]
        constructor
        · intro i hi0 hin _ e1 e2
          simp only [upd, e1, e2, if_false]
          rw [val_dropLast d i (by omega), val_dropLast d _ (by omega)]
          exact h i hi0 (by omega) (Nat.zero_le _)
        · intro j _ _ _ hpos _
          omega
      obtain ⟨l1, l2⟩ := siftDownToBottom_heap _ hhole
      rw [← hp.1, ← hp.2]
      refine ⟨?_, l2, heapInv_root_min h htop0⟩
      rw [l1, List.length_set]
      omega

/-! ### the operations only permute the entries -/

/-- indicator used to count entries -/
def ind (x a : Ev) : Nat := if x = a then 1 else 0

theorem cnt_set (a : Ev) : ∀ (d : Heap) (i : Nat) (v x : Ev), d[i]? = some x →
    (d.set i v).count a + ind x a = d.count a + ind v a
  | [], i, v, x, h => by simp at h
  | y :: t, 0, v, x, h => by
    simp only [List.getElem?_cons_zero, Option.some.injEq] at h
    subst h
    simp only [List.set_cons_zero, List.count_cons, ind, beq_iff_eq]
    omega
  | y :: t, i + 1, v, x, h => by
    simp only [List.getElem?_cons_succ] at h
    have := cnt_set a t i v x h
    simp only [List.set_cons_succ, List.count_cons]
    omega

theorem siftUpGo_cnt (a elt : Ev) (start : Nat) : ∀ (f : Nat) (d : Heap) (pos : Nat) (x : Ev),
    d[pos]? = some x →
    (siftUpGo elt start f d pos).count a + ind x a = d.count a + ind elt a
  | 0, d, pos, x, hx => by simp only [siftUpGo]; exact cnt_set a d pos elt x hx
  | f + 1, d, pos, x, hx => by
    simp only [siftUpGo]
    split
    · rename_i hps
      split
      · exact cnt_set a d pos elt x hx
      · rename_i p hp
        split
        · exact cnt_set a d pos elt x hx
        · have hne : pos ≠ (pos - 1) / 2 := by omega
          have hp' : (d.set pos p)[(pos - 1) / 2]? = some p := by
            rw [List.getElem?_set_ne hne]; exact hp
          have ih := siftUpGo_cnt a elt start f (d.set pos p) ((pos - 1) / 2) p hp'
          have := cnt_set a d pos p x hx
          omega
    · exact cnt_set a d pos elt x hx

theorem siftDownGo_cnt (a elt : Ev) (en : Nat) : ∀ (f : Nat) (d : Heap) (pos : Nat) (x : Ev),
    d[pos]? = some x →
    (siftDownGo elt en f d pos).count a + ind x a = d.count a + ind elt a
  | 0, d, pos, x, hx => by simp only [siftDownGo]; exact cnt_set a d pos elt x hx
  | f + 1, d, pos, x, hx => by
    simp only [siftDownGo]
    split
    · split
      · rename_i c0 c1 hc0 hc1
        by_cases hle : c0.le c1 = true
        · simp only [hle, if_true]
          show (if c1.le elt = true then d.set pos elt
            else siftDownGo elt en f (d.set pos c1) (2 * pos + 1 + 1)).count a + ind x a = _
          by_cases h2 : c1.le elt = true
          · simp only [h2, if_true]; exact cnt_set a d pos elt x hx
          · simp only [h2, Bool.false_eq_true, if_false]
            have hp' : (d.set pos c1)[2 * pos + 1 + 1]? = some c1 := by
              rw [List.getElem?_set_ne (by omega)]; exact hc1
            have ih := siftDownGo_cnt a elt en f (d.set pos c1) (2 * pos + 1 + 1) c1 hp'
            have := cnt_set a d pos c1 x hx
            omega
        · simp only [hle]
          show (if c0.le elt = true then d.set pos elt
            else siftDownGo elt en f (d.set pos c0) (2 * pos + 1)).count a + ind x a = _
          by_cases h2 : c0.le elt = true
          · simp only [h2, if_true]; exact cnt_set a d pos elt x hx
          · simp only [h2, Bool.false_eq_true, if_false]
            have hp' : (d.set pos c0)[2 * pos + 1]? = some c0 := by
              rw [List.getElem?_set_ne (by omega)]; exact hc0
            have ih := siftDownGo_cnt a elt en f (d.set pos c0) (2 * pos + 1) c0 hp'
            have := cnt_set a d pos c0 x hx
            omega
      · exact cnt_set a d pos elt x hx
    · split
      · rename_i c hc
        split
        · have hp' : (d.set pos c)[2 * pos + 1]? = some c := by
            rw [List.getElem?_set_ne (by omega)]; exact hc
          have h1 := cnt_set a (d.set pos c) (2 * pos + 1) elt c hp'
          have h2 := cnt_set a d pos c x hx
          omega
        · exact cnt_set a d pos elt x hx
      · exact cnt_set a d pos elt x hx

/-- whatever is put into the final hole of `sift_down_to_bottom`, the entries are those of the
start vector with the start hole refilled -/
theorem toBottomGo_cnt (a elt : Ev) (en : Nat) : ∀ (f : Nat) (d : Heap) (pos : Nat) (x : Ev),
    d[pos]? = some x →
    (∃ y, (toBottomGo en f d pos).1[(toBottomGo en f d pos).2]? = some y) ∧
    ((toBottomGo en f d pos).1.set (toBottomGo en f d pos).2 elt).count a + ind x a
      = d.count a + ind elt a
  | 0, d, pos, x, hx => by simp only [toBottomGo]; exact ⟨⟨x, hx⟩, cnt_set a d pos elt x hx⟩
  | f + 1, d, pos, x, hx => by
    simp only [toBottomGo]
    split
    · split
      · rename_i c0 c1 hc0 hc1
        by_cases hle : c0.le c1 = true
        · simp only [hle, if_true]
          have hp' : (d.set pos c1)[2 * pos + 1 + 1]? = some c1 := by
            rw [List.getElem?_set_ne (by omega)]; exact hc1
          obtain ⟨e, ih⟩ := toBottomGo_cnt a elt en f (d.set pos c1) (2 * pos + 1 + 1) c1 hp'
          have := cnt_set a d pos c1 x hx
          exact ⟨e, by omega⟩
        · simp only [hle, Bool.false_eq_true, if_false]
          have hp' : (d.set pos c0)[2 * pos + 1]? = some c0 := by
            rw [List.getElem?_set_ne (by omega)]; exact hc0
          obtain ⟨e, ih⟩ := toBottomGo_cnt a elt en f (d.set pos c0) (2 * pos + 1) c0 hp'
          have := cnt_set a d pos c0 x hx
          exact ⟨e, by omega⟩
      · exact ⟨⟨x, hx⟩, cnt_set a d pos elt x hx⟩
    · split
      · rename_i c hc
        split
        · have hp' : (d.set pos c)[2 * pos + 1]? = some c := by
            rw [List.getElem?_set_ne (by omega)]; exact hc
          have h1 := cnt_set a (d.set pos c) (2 * pos + 1) elt c hp'
          have h2 := cnt_set a d pos c x hx
          dsimp only
          exact ⟨⟨c, hp'⟩, by omega⟩
        · exact ⟨⟨x, hx⟩, cnt_set a d pos elt x hx⟩
      · exact ⟨⟨x, hx⟩, cnt_set a d pos elt x hx⟩

theorem siftDownToBottom_cnt (a : Ev) (d : Heap) : (siftDownToBottom d).count a = d.count a := by
  unfold siftDownToBottom
  split
  · rfl
  · rename_i elt helt
    obtain ⟨⟨y, hy⟩, h⟩ := toBottomGo_cnt a elt d.length d.length d 0 elt helt
    generalize toBottomGo d.length d.length d 0 = r at hy h
    obtain ⟨d', pos⟩ := r
    simp only at hy h ⊢
    have h1 := siftUpGo_cnt a elt 0 (pos + 1) d' pos y hy
    have h2 := cnt_set a d' pos elt y hy
    omega

theorem siftDown_cnt (a : Ev) (d : Heap) (n : Nat) : (siftDown d n).count a = d.count a := by
  unfold siftDown
  split
  · rfl
  · rename_i elt helt
    have := siftDownGo_cnt a elt d.length d.length d n elt helt
    omega

theorem rebuildGo_cnt (a : Ev) : ∀ (n : Nat) (d : Heap), (rebuildGo n d).count a = d.count a
  | 0, d => rfl
  | n + 1, d => by
    simp only [rebuildGo]
    rw [rebuildGo_cnt a n, siftDown_cnt]

/-- a full `rebuild` holds exactly the entries of the vector -/
theorem rebuild_perm (v : Heap) : (rebuildGo (v.length / 2) v).Perm v :=
  List.perm_iff_count.2 (fun a => rebuildGo_cnt a _ v)

/-- `push` adds exactly one entry -/
theorem heapPush_perm (d : Heap) (item : Ev) : (heapPush d item).Perm (item :: d) := by
  refine List.perm_iff_count.2 (fun a => ?_)
  unfold heapPush siftUp
  have hg : (d ++ [item])[d.length]? = some item := by simp
  rw [hg]
  simp only
  have := siftUpGo_cnt a item 0 (d.length + 1) (d ++ [item]) d.length item hg
  simp only [List.count_append, List.count_cons, List.count_nil] at this ⊢
  omega

/-- `pop` removes exactly the entry it returns -/
theorem heapPop_perm {d : Heap} {s : Ev} {d' : Heap} (hp : heapPop d = some (s, d')) :
    d.Perm (s :: d') := by
  refine List.perm_iff_count.2 (fun a => ?_)
  unfold heapPop at hp
  split at hp
  · exact absurd hp (by simp)
  · rename_i item hitem
    have hne : d ≠ [] := by intro e; rw [e] at hitem; simp at hitem
    have hd : d = d.dropLast ++ [item] := by
      have := List.dropLast_concat_getLast hne
      rw [List.getLast?_eq_some_getLast hne] at hitem
      simp only [Option.some.injEq] at hitem
      rw [hitem] at this
      exact this.symm
    have hcd : d.count a = d.dropLast.count a + ind item a := by
      conv => lhs; rw [hd]
      simp only [List.count_append, List.count_cons, List.count_nil, ind, beq_iff_eq]
      omega
    dsimp only at hp
    split at hp
    · rename_i hnone
      simp only [Option.some.injEq, Prod.mk.injEq] at hp
      have hd0 : d.dropLast = [] := List.head?_eq_none_iff.1 hnone
      rw [← hp.1, ← hp.2, hcd, hd0]
      simp only [List.count_cons, List.count_nil, ind, beq_iff_eq]
    · rename_i top htop
      simp only [Option.some.injEq, Prod.mk.injEq] at hp
      have htop0 : d.dropLast[0]? = some top := by rw [← List.head?_eq_getElem?]; exact htop
      have h1 := siftDownToBottom_cnt a (d.dropLast.set 0 item)
      have h2 := cnt_set a d.dropLast 0 item top htop0
      rw [← hp.1, ← hp.2, hcd]
      simp only [List.count_cons, beq_iff_eq]
      simp only [ind] at h2 ⊢
      omega

theorem heapPop_none {d : Heap} (hp : heapPop d = none) : d = [] := by
  unfold heapPop at hp
  split at hp
  · rename_i h; exact List.getLast?_eq_none_iff.1 h
  · dsimp only at hp
    split at hp <;> exact absurd hp (by simp)

/-! ### `extend` with the two events of a segment -/

theorem siftUpGo_append (elt : Ev) (start : Nat) (t : Heap) : ∀ (f : Nat) (d : Heap) (pos : Nat), pos < d.length →
    siftUpGo elt start f (d ++ t) pos = siftUpGo elt start f d pos ++ t
  | 0, d, pos, h => by simp only [siftUpGo]; exact List.set_append_left _ _ h
  | f + 1, d, pos, h => by
    simp only [siftUpGo]
    by_cases hp : pos > start
    · simp only [hp, if_true]
      have hpar : (pos - 1) / 2 < d.length := by omega
      rw [List.getElem?_append_left hpar, List.getElem?_eq_getElem hpar]
      simp only
      split
      · exact List.set_append_left _ _ h
      · rw [List.set_append_left _ _ h]
        exact siftUpGo_append elt start t f _ _ (by rw [List.length_set]; omega)
    · simp only [hp, if_false]; exact List.set_append_left _ _ h

/-- beyond the first segment, `extend([a, b])` is two pushes -/
theorem heapExtend2_eq (d : Heap) (a b : Ev) (h : 2 ≤ d.length) :
    heapExtend2 d a b = heapPush (heapPush d a) b := by
  have hlen : (heapPush d a).length = d.length + 1 := by
    have := (heapPush_perm d a).length_eq
    simpa using this
  unfold heapExtend2
  have h2 : ¬ d.length < 2 := by omega
  simp only [h2, if_false]
  have e1 : siftUp (d ++ [a, b]) 0 d.length = heapPush d a ++ [b] := by
    unfold heapPush siftUp
    have g1 : (d ++ [a, b])[d.length]? = some a := by simp
    have g2 : (d ++ [a])[d.length]? = some a := by simp
    rw [g1, g2]
    simp only
    have : d ++ [a, b] = (d ++ [a]) ++ [b] := by simp
    rw [this]
    exact siftUpGo_append a 0 [b] _ _ _ (by simp)
  rw [e1]
  show _ = siftUp (heapPush d a ++ [b]) 0 (heapPush d a).length
  rw [hlen]

theorem heapExtend2_heap (d : Heap) (a b : Ev) (h : HeapInv d) :
    (heapExtend2 d a b).length = d.length + 2 ∧ HeapInv (heapExtend2 d a b) := by
  by_cases h2 : d.length < 2
  · unfold heapExtend2
    simp only [h2, if_true]
    have := rebuild_heap (d ++ [a, b])
    refine ⟨by rw [this.1]; simp, this.2⟩
  · rw [heapExtend2_eq d a b (by omega)]
    obtain ⟨l1, i1⟩ := heapPush_heap d a h
    obtain ⟨l2, i2⟩ := heapPush_heap (heapPush d a) b i1
    exact ⟨by rw [l2, l1], i2⟩

theorem heapExtend2_perm (d : Heap) (a b : Ev) : (heapExtend2 d a b).Perm (a :: b :: d) := by
  by_cases h2 : d.length < 2
  · unfold heapExtend2
    simp only [h2, if_true]
    refine (rebuild_perm (d ++ [a, b])).trans ?_
    exact List.perm_append_comm
  · rw [heapExtend2_eq d a b (by omega)]
    refine (heapPush_perm _ b).trans ?_
    refine (List.Perm.cons b (heapPush_perm d a)).trans ?_
    exact List.Perm.swap a b d

end Geo.Proofs.MONO
