/-
  C06P helper layer 3: every geometry's contribution list is interchangeable with the
  specification's atoms; the accumulator's centroid is `centroidSpec`.
-/
import GeoProofs.Lemmas.C06PPoly

namespace Geo.Proofs.C06
open Geo Geo.Cen

/-- a contribution below the dimension of something that follows never survives -/
theorem equiv_cons_low (w : WC) (l : List WC) (h : ∃ v ∈ l, w.dim < v.dim) : Equiv (w :: l) l := by
  obtain ⟨v, hv, hlt⟩ := h
  have hvm := dim_le_mDim l v hv
  apply equiv_of_sums
  · simp only [mDim]; omega
  · constructor
    · intro h'; cases h'
    · intro h'; subst h'; simp at hv
  · intro m hm
    simp only [mDim] at hm
    have hne : w.dim ≠ m := by omega
    simp [wSum, aSum, hne]

theorem rectC_equiv_atoms (len : Pt → Pt → Rat) (mn mx : Pt) :
    Equiv (rectC len mn mx) ((rectAtoms len mn mx).map Atom.toWC) := by
  unfold rectC rectAtoms rectDims
  by_cases h1 : mn = mx
  · simp only [if_pos h1]; exact Equiv.refl _
  · simp only [if_neg h1]
    by_cases h2 : mn.x = mx.x ∨ mn.y = mx.y
    · simp only [if_pos h2]
      have hne : ¬ mx = mn := fun h => h1 h.symm
      have a : lineC len mn mn = coordC mn := by simp [lineC]
      have b : lineC len mx mx = coordC mx := by simp [lineC]
      have c : (lineC len mn mx).dim = 2 := by simp [lineC, h1]
      have d : (lineC len mx mn).dim = 2 := by simp [lineC, hne]
      rw [a, b]
      simp only [List.map_cons, List.map_nil, ← lineC_eq_atom]
      refine Equiv.trans (equiv_cons_low _ _ ⟨lineC len mn mx, by simp, by rw [c]; simp [coordC]⟩) ?_
      exact Equiv.append (a := [lineC len mn mx]) (Equiv.refl _)
        (equiv_cons_low _ _ ⟨lineC len mx mn, by simp, by rw [d]; simp [coordC]⟩)
    · simp only [if_neg h2]; exact Equiv.refl _

theorem det_sub_eq_crossProd (a b c : Pt) : det (b - a) (c - a) = crossProd a b c := by
  simp only [det, crossProd, sub_x, sub_y]

theorem triC_equiv_atoms (len : Pt → Pt → Rat) (a b c : Pt) :
    Equiv (triC len a b c) ((triAtoms len a b c).map Atom.toWC) := by
  unfold triC triAtoms triDims
  by_cases h0 : crossProd a b c = 0
  · simp only [if_pos h0]
    by_cases h1 : a = b ∧ b = c
    · simp only [if_pos h1]; exact Equiv.refl _
    · simp only [if_neg h1, List.map_cons, List.map_nil, ← lineC_eq_atom]; exact Equiv.refl _
  · simp only [if_neg h0, List.map_cons, List.map_nil]
    apply Equiv.of_eq
    have : rabs (triArea a b c) = rabs (crossProd a b c) / 2 := by
      rw [triArea, det_sub_eq_crossProd, rabs_half]
    rw [this]
    rfl

mutual
/-- [T] for every geometry, every nesting: the code's contribution list and the specification's atoms
lead every accumulator to the same state. -/
theorem contribs_equiv_atoms (len : Pt → Pt → Rat) :
    ∀ g : Geom, Equiv (contribs len g) ((atoms len g).map Atom.toWC)
  | .point p => by simp only [contribs, atoms]; exact Equiv.refl _
  | .line a b => by
      simp only [contribs, atoms, List.map_cons, List.map_nil, ← lineC_eq_atom]; exact Equiv.refl _
  | .lineString cs => by simp only [contribs, atoms]; exact Equiv.of_eq (lineStringC_eq_atoms len cs)
  | .polygon p => by simp only [contribs, atoms]; exact polyC_equiv_atoms len p
  | .multiPoint ps => by
      simp only [contribs, atoms, List.map_map]
      apply Equiv.of_eq
      apply List.map_congr_left
      intro p _; rfl
  | .multiLineString ls => by
      simp only [contribs, atoms, List.map_flatten, List.map_map]
      apply Equiv.of_eq
      congr 1
      apply List.map_congr_left
      intro l _; exact lineStringC_eq_atoms len l
  | .multiPolygon ps => by
      simp only [contribs, atoms, List.map_flatten, List.map_map]
      exact Equiv.flatten_map _ _ _ (fun p _ => polyC_equiv_atoms len p)
  | .rect mn mx => by simp only [contribs, atoms]; exact rectC_equiv_atoms len mn mx
  | .triangle a b c => by simp only [contribs, atoms]; exact triC_equiv_atoms len a b c
  | .collection gs => by simp only [contribs, atoms]; exact contribsList_equiv_atoms len gs
theorem contribsList_equiv_atoms (len : Pt → Pt → Rat) :
    ∀ gs : List Geom, Equiv (contribsList len gs) ((atomsList len gs).map Atom.toWC)
  | [] => Equiv.refl _
  | g :: gs => by
      simp only [contribsList, atomsList, List.map_append]
      exact Equiv.append (contribs_equiv_atoms len g) (contribsList_equiv_atoms len gs)
end

/-! ### the fold over atoms is the specification's weighted mean -/

theorem mDim_atoms (as : List Atom) : mDim (as.map Atom.toWC) = maxDim as := by
  induction as with
  | nil => rfl
  | cons a t ih => simp only [List.map_cons, mDim, maxDim, ih]; rfl

theorem wSum_atoms (m : Nat) (as : List Atom) :
    wSum m (as.map Atom.toWC) = sumR ((as.filter (fun a => a.dim = m)).map (·.w)) := by
  induction as with
  | nil => rfl
  | cons a t ih =>
    simp only [List.map_cons, wSum, List.filter_cons, ih]
    have hd : (Atom.toWC a).dim = a.dim := rfl
    rw [hd]
    by_cases h : a.dim = m
    · simp [h, Atom.toWC, sumR]
    · simp [h]

theorem aSum_atoms (m : Nat) (as : List Atom) :
    aSum m (as.map Atom.toWC) = sumP ((as.filter (fun a => a.dim = m)).map (fun a => Pt.smul a.w a.c)) := by
  induction as with
  | nil => rfl
  | cons a t ih =>
    simp only [List.map_cons, aSum, List.filter_cons, ih]
    have hd : (Atom.toWC a).dim = a.dim := rfl
    rw [hd]
    by_cases h : a.dim = m
    · simp [h, Atom.toWC, sumP]
    · simp [h]

theorem fold_atoms_centroid (as : List Atom) :
    (foldWC none (as.map Atom.toWC)).centroid =
      if as.isEmpty then none else some (weightedMean (topAtoms as)) := by
  cases as with
  | nil => rfl
  | cons a t =>
    rw [foldWC_none]
    simp only [List.map_cons, dominant, Op.centroid, Option.map_some, List.isEmpty_cons, Bool.false_eq_true, if_false]
    rw [← List.map_cons (f := Atom.toWC), mDim_atoms, wSum_atoms, aSum_atoms]
    rfl

/-- [T] the centroid of the accumulator after a whole geometry is the specification's centroid:
no hypothesis on the geometry (any rings, any holes, any nesting) and none on `len`. -/
theorem acc_centroid_eq_spec (len : Pt → Pt → Rat) (g : Geom) :
    (addGeom len none g).centroid = centroidSpec len g := by
  rw [addGeom_eq, contribs_equiv_atoms len g none, fold_atoms_centroid]
  rfl

end Geo.Proofs.C06
