/-
  C08 helper lemmas: the slice operations of the hull code never invent coordinates.
-/
import GeoModel.Hull

namespace Geo.Proofs.C08
open Geo Geo.Hull

theorem close_subset (r : List Pt) : ∀ x ∈ close r, x ∈ r := by
  intro x hx
  cases r with
  | nil => simpa [close] using hx
  | cons a t =>
    simp only [close] at hx
    split at hx
    · exact hx
    · rcases List.mem_append.1 hx with h | h
      · exact h
      · simp at h; subst h; simp

theorem subset_close (r : List Pt) : ∀ x ∈ r, x ∈ close r := by
  intro x hx
  cases r with
  | nil => simpa [close] using hx
  | cons a t =>
    simp only [close]
    split
    · exact hx
    · exact List.mem_append_left _ hx

theorem swapRemove_fst_mem (l : List Pt) (i : Nat) (h : l ≠ []) : (swapRemove l i).1 ∈ l := by
  cases l with
  | nil => exact absurd rfl h
  | cons a t =>
    simp only [swapRemove]
    split
    · simp
    · simp only [List.getD_eq_getElem?_getD]
      cases hg : t[i - 1]? with
      | none => simp
      | some v => simp [List.mem_of_getElem? hg]

theorem swapRemove_snd_subset (l : List Pt) (i : Nat) : ∀ x ∈ (swapRemove l i).2, x ∈ l := by
  intro x hx
  cases l with
  | nil => simpa [swapRemove] using hx
  | cons a t =>
    simp only [swapRemove] at hx
    split at hx
    · exact List.mem_cons_of_mem _ hx
    · rcases List.mem_or_eq_of_mem_set hx with h | h
      · exact List.mem_cons_of_mem _ h
      · subst h; simp

theorem partitionSlice_subset (pred : Pt → Bool) (fuel : Nat) :
    ∀ xs : List Pt, ∀ x, x ∈ (partitionSlice pred fuel xs).1 ∨ x ∈ (partitionSlice pred fuel xs).2 → x ∈ xs := by
  induction fuel with
  | zero => intro xs x h; simpa [partitionSlice] using h
  | succ n ih =>
    intro xs x h
    have hsplit : xs.takeWhile pred ++ xs.dropWhile pred = xs := List.takeWhile_append_dropWhile
    have hpre : ∀ y ∈ xs.takeWhile pred, y ∈ xs := fun y hy => by
      rw [← hsplit]; exact List.mem_append_left _ hy
    have hrest : ∀ y ∈ xs.dropWhile pred, y ∈ xs := fun y hy => by
      rw [← hsplit]; exact List.mem_append_right _ hy
    have hrr : (xs.dropWhile pred).reverse.takeWhile (fun p => !pred p) ++
        (xs.dropWhile pred).reverse.dropWhile (fun p => !pred p) = (xs.dropWhile pred).reverse :=
      List.takeWhile_append_dropWhile
    have hsuf : ∀ y ∈ ((xs.dropWhile pred).reverse.takeWhile (fun p => !pred p)).reverse, y ∈ xs := by
      intro y hy
      apply hrest
      have : y ∈ (xs.dropWhile pred).reverse := by
        rw [← hrr]; exact List.mem_append_left _ (List.mem_reverse.1 hy)
      exact List.mem_reverse.1 this
    have hbody : ∀ y ∈ ((xs.dropWhile pred).reverse.dropWhile (fun p => !pred p)).reverse, y ∈ xs := by
      intro y hy
      apply hrest
      have : y ∈ (xs.dropWhile pred).reverse := by
        rw [← hrr]; exact List.mem_append_right _ (List.mem_reverse.1 hy)
      exact List.mem_reverse.1 this
    simp only [partitionSlice] at h
    split at h
    · rcases h with h | h
      · exact hpre x h
      · exact hrest x h
    · rename_i f body' hb
      split at h
      · rcases h with h | h
        · exact hpre x h
        · exact hrest x h
      · rename_i t innerRev hrev
        have hb' : body' = innerRev.reverse ++ [t] := by
          have := congrArg List.reverse hrev
          simpa using this
        have hf : f ∈ xs := hbody f (by rw [hb]; simp)
        have ht : t ∈ xs := hbody t (by rw [hb, hb']; simp)
        have hin : ∀ y ∈ innerRev.reverse, y ∈ xs := fun y hy =>
          hbody y (by rw [hb, hb']; simp [List.mem_reverse.1 hy])
        rcases h with h | h
        · rcases List.mem_append.1 h with h | h
          · exact hpre x h
          · rcases List.mem_cons.1 h with h | h
            · subst h; exact ht
            · exact hin x (ih _ x (Or.inl h))
        · rcases List.mem_append.1 h with h | h
          · exact hin x (ih _ x (Or.inr h))
          · rcases List.mem_cons.1 h with h | h
            · subst h; exact hf
            · exact hsuf x h

theorem partition_subset (pred : Pt → Bool) (xs : List Pt) :
    ∀ x, x ∈ (partition pred xs).1 ∨ x ∈ (partition pred xs).2 → x ∈ xs :=
  partitionSlice_subset pred _ xs


theorem hullSet_subset (rnd : Rat → Rat) (fuel : Nat) : ∀ (a b : Pt) (set : List Pt),
    (∀ x ∈ (hullSet rnd fuel a b set).1, x ∈ set) ∧ (∀ x ∈ (hullSet rnd fuel a b set).2, x ∈ set) := by
  induction fuel with
  | zero => intro a b set; simp [hullSet]
  | succ n ih =>
    intro a b set
    unfold hullSet
    split
    · simp
    · simp
    · rename_i hne1 hne2
      have hne : set ≠ [] := fun h => hne1 h
      dsimp only
      generalize hsr : swapRemove set (argmaxLast (set.map (score rnd a b))) = sr
      have hf : sr.1 ∈ set := by rw [← hsr]; exact swapRemove_fst_mem _ _ hne
      have hs2 : ∀ x ∈ sr.2, x ∈ set := by rw [← hsr]; exact swapRemove_snd_subset _ _
      generalize hp1 : partition (isCcw sr.1 b) sr.2 = p1
      have hp1s := partition_subset (isCcw sr.1 b) sr.2
      rw [hp1] at hp1s
      have ih1 := ih sr.1 b p1.1
      generalize hr1 : hullSet rnd n sr.1 b p1.1 = r1 at ih1
      generalize hp2 : partition (isCcw a sr.1) (r1.1 ++ p1.2) = p2
      have hp2s := partition_subset (isCcw a sr.1) (r1.1 ++ p1.2)
      rw [hp2] at hp2s
      have ih2 := ih a sr.1 p2.1
      generalize hr2 : hullSet rnd n a sr.1 p2.1 = r2 at ih2
      have hmid : ∀ x ∈ r1.1 ++ p1.2, x ∈ set := by
        intro x hx
        rcases List.mem_append.1 hx with h | h
        · exact hs2 x (hp1s x (Or.inl (ih1.1 x h)))
        · exact hs2 x (hp1s x (Or.inr h))
      constructor
      · intro x hx
        rcases List.mem_cons.1 hx with h | h
        · subst h; exact hf
        · rcases List.mem_append.1 h with h | h
          · exact hmid x (hp2s x (Or.inl (ih2.1 x h)))
          · exact hmid x (hp2s x (Or.inr h))
      · intro x hx
        rcases List.mem_append.1 hx with h | h
        · exact hs2 x (hp1s x (Or.inl (ih1.2 x h)))
        · rcases List.mem_cons.1 h with h | h
          · subst h; exact hf
          · exact hmid x (hp2s x (Or.inl (ih2.2 x h)))

/-- the ring and the permuted slice of `quickHullRaw` consist of input coordinates -/
theorem quickHullRaw_subset (rnd : Rat → Rat) (pts : List Pt) (hne : 2 ≤ pts.length) :
    (∀ x ∈ (quickHullRaw rnd pts).1, x ∈ pts) ∧ (∀ x ∈ (quickHullRaw rnd pts).2, x ∈ pts) := by
  unfold quickHullRaw
  dsimp only
  generalize hs1 : swapRemove pts (leastGreatest pts).1 = s1
  have hpne : pts ≠ [] := by intro h; simp [h] at hne
  have hmn : s1.1 ∈ pts := by rw [← hs1]; exact swapRemove_fst_mem _ _ hpne
  have h1 : ∀ x ∈ s1.2, x ∈ pts := by rw [← hs1]; exact swapRemove_snd_subset _ _
  have hs1ne : s1.2 ≠ [] := by
    rw [← hs1]
    cases pts with
    | nil => exact absurd rfl hpne
    | cons a t =>
      cases t with
      | nil => simp at hne
      | cons b u => simp only [swapRemove]; split <;> simp
  generalize hs2 : swapRemove s1.2 ((if (leastGreatest pts).2 = 0 then (leastGreatest pts).1 else (leastGreatest pts).2) - 1) = s2
  have hmx : s2.1 ∈ pts := by rw [← hs2]; exact h1 _ (swapRemove_fst_mem _ _ hs1ne)
  have h2 : ∀ x ∈ s2.2, x ∈ pts := by rw [← hs2]; exact fun x hx => h1 x (swapRemove_snd_subset _ _ x hx)
  generalize hp1 : partition (isCcw s2.1 s1.1) s2.2 = p1
  have hp1s := partition_subset (isCcw s2.1 s1.1) s2.2
  rw [hp1] at hp1s
  have ih1 := hullSet_subset rnd p1.1.length s2.1 s1.1 p1.1
  generalize hr1 : hullSet rnd p1.1.length s2.1 s1.1 p1.1 = r1 at ih1
  generalize hp2 : partition (isCcw s1.1 s2.1) (r1.1 ++ p1.2) = p2
  have hp2s := partition_subset (isCcw s1.1 s2.1) (r1.1 ++ p1.2)
  rw [hp2] at hp2s
  have ih2 := hullSet_subset rnd p2.1.length s1.1 s2.1 p2.1
  generalize hr2 : hullSet rnd p2.1.length s1.1 s2.1 p2.1 = r2 at ih2
  have hmid : ∀ x ∈ r1.1 ++ p1.2, x ∈ pts := by
    intro x hx
    rcases List.mem_append.1 hx with h | h
    · exact h2 x (hp1s x (Or.inl (ih1.1 x h)))
    · exact h2 x (hp1s x (Or.inr h))
  constructor
  · intro x hx
    rcases List.mem_cons.1 hx with h | h
    · subst h; exact hmn
    · rcases List.mem_cons.1 h with h | h
      · subst h; exact hmx
      · rcases List.mem_append.1 h with h | h
        · exact hmid x (hp2s x (Or.inl (ih2.1 x h)))
        · exact hmid x (hp2s x (Or.inr h))
  · intro x hx
    have hx := close_subset _ x hx
    rcases List.mem_append.1 hx with h | h
    · exact h2 x (hp1s x (Or.inl (ih1.2 x h)))
    · rcases List.mem_cons.1 h with h | h
      · subst h; exact hmx
      · rcases List.mem_append.1 h with h | h
        · exact hmid x (hp2s x (Or.inl (ih2.2 x h)))
        · simp at h; subst h; exact hmn


/-! ### closedness -/

theorem close_closed (r : List Pt) : (close r).head? = (close r).getLast? := by
  cases r with
  | nil => simp [close]
  | cons a t =>
    simp only [close]
    split
    · rename_i h; rw [h]; simp
    · rw [List.getLast?_append]; simp

theorem makeCcw_closed (r : List Pt) (h : r.head? = r.getLast?) : (makeCcw r).head? = (makeCcw r).getLast? := by
  unfold makeCcw
  split
  · rw [List.head?_reverse, List.getLast?_reverse]; exact h.symm
  · exact h

theorem makeCcw_mem (r : List Pt) (x : Pt) : x ∈ makeCcw r ↔ x ∈ r := by
  unfold makeCcw
  split
  · exact List.mem_reverse
  · exact Iff.rfl

/-! ### `trivial_hull` -/

theorem lexInsert_mem (p : Pt) (l : List Pt) (x : Pt) : x ∈ lexInsert p l ↔ x = p ∨ x ∈ l := by
  induction l with
  | nil => simp [lexInsert]
  | cons q t ih =>
    simp only [lexInsert]
    split
    · simp [ih, or_left_comm]
    · simp

theorem lexSort_mem (l : List Pt) (x : Pt) : x ∈ lexSort l ↔ x ∈ l := by
  unfold lexSort
  induction l with
  | nil => simp
  | cons q t ih => simp [List.foldr, lexInsert_mem, ih]

theorem lexInsert_length (p : Pt) (l : List Pt) : (lexInsert p l).length = l.length + 1 := by
  induction l with
  | nil => simp [lexInsert]
  | cons q t ih =>
    simp only [lexInsert]
    split
    · simp [ih]
    · simp

theorem lexSort_length (l : List Pt) : (lexSort l).length = l.length := by
  unfold lexSort
  induction l with
  | nil => simp
  | cons q t ih => simp [List.foldr, lexInsert_length, ih]

theorem trivialDedup_subset (pts : List Pt) (incl : Bool) : ∀ y ∈ trivialDedup pts incl, y ∈ pts := by
  intro y hy
  unfold trivialDedup at hy
  split at hy
  · exact hy
  · split at hy
    · rename_i a b c hs
      have hm : ∀ z, z ∈ [a, b, c] → z ∈ pts := fun z hz => (lexSort_mem pts z).1 (by rw [hs]; exact hz)
      split at hy
      · apply hm; simp at hy ⊢; rcases hy with h | h <;> simp [h]
      · exact hm y hy
    · exact (lexSort_mem pts y).1 hy

theorem trivialPad_mem (l : List Pt) (x : Pt) : x ∈ trivialPad l ↔ x ∈ l := by
  unfold trivialPad
  split <;> simp

theorem trivialHull_subset' (pts : List Pt) (incl : Bool) : ∀ x ∈ trivialHull pts incl, x ∈ pts := by
  intro x hx
  unfold trivialHull at hx
  rw [makeCcw_mem] at hx
  have hx := close_subset _ x hx
  rw [trivialPad_mem] at hx
  exact trivialDedup_subset _ _ x hx

theorem trivialHull_closed' (pts : List Pt) (incl : Bool) :
    (trivialHull pts incl).head? = (trivialHull pts incl).getLast? := by
  unfold trivialHull
  exact makeCcw_closed _ (close_closed _)

/-! ### `graham_hull` -/

theorem grahamInsert_mem (rnd : Rat → Rat) (head p : Pt) (l : List Pt) (x : Pt) :
    x ∈ grahamInsert rnd head p l ↔ x = p ∨ x ∈ l := by
  induction l with
  | nil => simp [grahamInsert]
  | cons q t ih =>
    simp only [grahamInsert]
    split
    · simp
    · simp [ih, or_left_comm]

theorem grahamSort_mem (rnd : Rat → Rat) (head : Pt) (l : List Pt) (x : Pt) :
    x ∈ grahamSort rnd head l ↔ x ∈ l := by
  unfold grahamSort
  induction l with
  | nil => simp
  | cons q t ih => simp [List.foldr, grahamInsert_mem, ih]

theorem popWhile_subset (incl : Bool) (pt : Pt) : ∀ st : List Pt, ∀ x ∈ popWhile incl pt st, x ∈ st := by
  intro st
  induction st with
  | nil => intro x hx; simp [popWhile] at hx
  | cons top t ih =>
    intro x hx
    cases t with
    | nil => simpa [popWhile] using hx
    | cons snd rest =>
      simp only [popWhile] at hx
      split at hx
      · exact hx
      · exact List.mem_cons_of_mem _ (ih x hx)
      · split at hx
        · exact hx
        · exact List.mem_cons_of_mem _ (ih x hx)

theorem grahamStep_subset (incl : Bool) (st : List Pt) (pt : Pt) :
    ∀ x ∈ grahamStep incl st pt, x = pt ∨ x ∈ st := by
  intro x hx
  unfold grahamStep at hx
  dsimp only at hx
  split at hx
  · rcases List.mem_cons.1 hx with h | h
    · exact Or.inl h
    · exact Or.inr (popWhile_subset _ _ _ x h)
  · exact Or.inr (popWhile_subset _ _ _ x hx)

theorem grahamFold_subset (incl : Bool) (l : List Pt) : ∀ (st : List Pt),
    ∀ x ∈ l.foldl (grahamStep incl) st, x ∈ l ∨ x ∈ st := by
  induction l with
  | nil => intro st x hx; exact Or.inr hx
  | cons p t ih =>
    intro st x hx
    simp only [List.foldl] at hx
    rcases ih _ x hx with h | h
    · exact Or.inl (List.mem_cons_of_mem _ h)
    · rcases grahamStep_subset _ _ _ x h with h | h
      · subst h; simp
      · exact Or.inr h

theorem grahamHull_subset' (rnd : Rat → Rat) (pts : List Pt) (incl : Bool) :
    ∀ x ∈ grahamHull rnd pts incl, x ∈ pts := by
  intro x hx
  unfold grahamHull at hx
  split at hx
  · exact trivialHull_subset' _ _ x hx
  · rename_i hlen
    dsimp only at hx
    have hne : pts ≠ [] := by intro h; simp [h] at hlen
    have hx := close_subset _ x hx
    rw [List.mem_reverse] at hx
    rcases grahamFold_subset _ _ _ x hx with h | h
    · rw [grahamSort_mem] at h
      exact swapRemove_snd_subset _ _ x h
    · simp at h; subst h; exact swapRemove_fst_mem _ _ hne

theorem grahamHull_closed' (rnd : Rat → Rat) (pts : List Pt) (incl : Bool) :
    (grahamHull rnd pts incl).head? = (grahamHull rnd pts incl).getLast? := by
  unfold grahamHull
  split
  · exact trivialHull_closed' _ _
  · exact close_closed _

end Geo.Proofs.C08
