/-
  C04X, part 4: from the ring-level facts of a valid polygon (`Layered`) to the region statements
  the fill rules need:

  * `evenOdd_of_layered`: even-odd parity over all rings = inside (S2 for one polygon);
  * `windRings_of_layered`: the winding function is `σ ·` the indicator when the shell is wound `σ`
    and every hole `−σ` (what `unary_union`'s Positive / Negative rule needs);
  * `evenOdd_multi`: S2 for a multipolygon whose members do not overlap at the point;
  * `layered_of_valid`: every `polyValid` polygon is `Layered` at every point whose level avoids
    its coordinates (C04XScan).
-/
import GeoModel.BoolGlue
import GeoModel.BoolSpec
import GeoProofs.Lemmas.C04Locate
import GeoProofs.Lemmas.C04XScan

set_option linter.unusedSimpArgs false
set_option linter.unusedVariables false

namespace Geo.Proofs.C04X
open Geo Geo.BoolGlue Geo.BoolSpec Geo.Proofs.C04L

/-- **the ring-level content of S2 at the point `p`**: every ring winds `0` or by the sign of its
exact area; where a hole winds the shell winds; no two holes wind together. -/
structure Layered (q : Poly) (p : Pt) : Prop where
  unit : ∀ r ∈ q.rings, windRing p r = 0 ∨ (windRing p r = 1 ∧ 0 < shoelace2 r) ∨
    (windRing p r = -1 ∧ shoelace2 r < 0)
  holeInShell : ∀ h ∈ q.ints, windRing p h ≠ 0 → windRing p q.ext ≠ 0
  holesApart : q.ints.Pairwise (fun h1 h2 => windRing p h1 = 0 ∨ windRing p h2 = 0)

/-- the level of `p` avoids every coordinate of the polygon (decidable; excludes finitely many
horizontal lines) -/
def levelFree (p : Pt) (q : Poly) : Bool := q.coords.all (fun v => v.y != p.y)

theorem levelFree_spec {p : Pt} {q : Poly} (h : levelFree p q = true) : ∀ v ∈ q.coords, v.y ≠ p.y := by
  intro v hv
  unfold levelFree at h
  rw [List.all_eq_true] at h
  simpa using h v hv

/-- **every valid polygon is layered** at every point whose level avoids its coordinates -/
theorem layered_of_valid {q : Poly} (hv : polyValid q = true) {p : Pt} (hy : levelFree p q = true) :
    Layered q p := by
  have hy' := levelFree_spec hy
  obtain ⟨x, y⟩ := p
  simp only at hy'
  obtain ⟨hse, hsimple, _⟩ := Geo.Proofs.C02Q.polyValid_unpack hv
  refine ⟨?_, ?_, ?_⟩
  · intro r hr
    have hs : ringSimple r = true := by
      unfold Poly.rings at hr
      rcases List.mem_cons.1 hr with rfl | hr
      · exact hse
      · exact hsimple r hr
    have := simple_wind_level hs x y (fun v hv' => hy' v (Geo.Proofs.C12.mem_rings_coords hr hv'))
    rw [windingE_eq] at this
    exact this
  · intro h hh hw
    have := hole_in_shell_level hv x y hy' h hh (by rw [windingE_eq]; exact hw)
    rw [windingE_eq] at this
    exact this
  · rw [List.pairwise_iff_getElem]
    intro i j hi hj hij
    have m1 : q.ints[i] ∈ q.ints := List.getElem_mem hi
    have m2 : q.ints[j] ∈ q.ints := List.getElem_mem hj
    obtain ⟨hii, hbb⟩ := Geo.Proofs.WIND.polyValid_hole_pairs hv hij (List.getElem?_eq_getElem hi)
      (List.getElem?_eq_getElem hj)
    have hr1 : q.ints[i] ∈ q.rings := by simp [Poly.rings, m1]
    have hr2 : q.ints[j] ∈ q.rings := by simp [Poly.rings, m2]
    have := rings_apart_level (hsimple _ m1) (hsimple _ m2) hii hbb x y
      (fun v hv' => hy' v (Geo.Proofs.C12.mem_rings_coords hr1 hv'))
      (fun v hv' => hy' v (Geo.Proofs.C12.mem_rings_coords hr2 hv'))
    rw [windingE_eq, windingE_eq] at this
    exact this

/-! ### sums of winding numbers -/

theorem windRings_append' (p : Pt) (r1 r2 : List (List Pt)) :
    windRings p (r1 ++ r2) = windRings p r1 + windRings p r2 := by
  induction r1 with
  | nil => simp [windRings]
  | cons r t ih => simp only [List.cons_append, windRings, ih]; omega

theorem windRings_zero (p : Pt) : ∀ hs : List (List Pt), (∀ h ∈ hs, windRing p h = 0) → windRings p hs = 0
  | [], _ => rfl
  | h :: t, hz => by
    simp only [windRings]
    rw [hz h List.mem_cons_self, windRings_zero p t (fun g hg => hz g (List.mem_cons_of_mem _ hg))]
    rfl

/-- rings that never wind together: their total winding number is that of the one that winds -/
theorem windRings_apart (p : Pt) : ∀ hs : List (List Pt),
    hs.Pairwise (fun h1 h2 => windRing p h1 = 0 ∨ windRing p h2 = 0) →
    (hs.all (fun h => windRing p h == 0) = true ∧ windRings p hs = 0) ∨
    (hs.all (fun h => windRing p h == 0) = false ∧
      ∃ h ∈ hs, windRing p h ≠ 0 ∧ windRings p hs = windRing p h)
  | [], _ => Or.inl ⟨rfl, rfl⟩
  | h :: t, hp => by
    rw [List.pairwise_cons] at hp
    obtain ⟨hh, ht⟩ := hp
    by_cases h0 : windRing p h = 0
    · rcases windRings_apart p t ht with ⟨ha, hs⟩ | ⟨ha, g, hg, hgn, hs⟩
      · left
        refine ⟨by simp [List.all_cons, h0, ha], ?_⟩
        simp only [windRings, h0, hs]; rfl
      · right
        refine ⟨by simp [List.all_cons, h0, ha], g, List.mem_cons_of_mem _ hg, hgn, ?_⟩
        simp only [windRings, h0, hs]; omega
    · right
      have hz : ∀ g ∈ t, windRing p g = 0 := fun g hg => (hh g hg).resolve_left h0
      have hs : windRings p t = 0 := windRings_zero p t hz
      refine ⟨by simp [List.all_cons, h0], h, List.mem_cons_self, h0, ?_⟩
      simp only [windRings, hs]; omega

/-! ### one polygon -/

/-- **S2 for one layered polygon**: even-odd parity over all rings = inside -/
theorem evenOdd_of_layered {q : Poly} {p : Pt} (h : Layered q p) :
    evenOddRings p q.rings = polyInside p q := by
  have hs := h.unit q.ext (by simp [Poly.rings])
  unfold evenOddRings polyInside Poly.rings
  simp only [windRings]
  rcases windRings_apart p q.ints h.holesApart with ⟨ha, hH⟩ | ⟨ha, g, hg, hgn, hH⟩
  · rw [ha, hH]
    rcases hs with h1 | ⟨h1, _⟩ | ⟨h1, _⟩ <;> rw [h1] <;> decide
  · have hgu := h.unit g (by simp [Poly.rings, hg])
    have hsn := h.holeInShell g hg hgn
    rw [ha, hH]
    rcases hgu with g0 | ⟨g1, _⟩ | ⟨g1, _⟩
    · exact absurd g0 hgn
    · rcases hs with h1 | ⟨h1, _⟩ | ⟨h1, _⟩
      · exact absurd h1 hsn
      · rw [h1, g1]; decide
      · rw [h1, g1]; decide
    · rcases hs with h1 | ⟨h1, _⟩ | ⟨h1, _⟩
      · exact absurd h1 hsn
      · rw [h1, g1]; decide
      · rw [h1, g1]; decide

theorem unit_sigma {w : Int} {A : Rat} {σ : Int} (hσ : σ = 1 ∨ σ = -1)
    (hu : w = 0 ∨ (w = 1 ∧ 0 < A) ∨ (w = -1 ∧ A < 0)) (hs : 0 < (σ : Rat) * A) : w = 0 ∨ w = σ := by
  rcases hσ with rfl | rfl
  · have hA : 0 < A := by push_cast at hs; linarith
    rcases hu with h | ⟨h, _⟩ | ⟨_, h⟩
    · exact Or.inl h
    · exact Or.inr h
    · exact absurd h (not_lt.2 (le_of_lt hA))
  · have hA : A < 0 := by push_cast at hs; linarith
    rcases hu with h | ⟨_, h⟩ | ⟨h, _⟩
    · exact Or.inl h
    · exact absurd h (not_lt.2 (le_of_lt hA))
    · exact Or.inr h

/-- **the winding function of a layered polygon whose shell is wound `σ` and whose holes are wound
`−σ` is `σ ·` its indicator** -/
theorem windRings_of_layered {q : Poly} {p : Pt} (h : Layered q p) {σ : Int} (hσ : σ = 1 ∨ σ = -1)
    (he : 0 < (σ : Rat) * shoelace2 q.ext) (hh : ∀ g ∈ q.ints, (σ : Rat) * shoelace2 g < 0) :
    windRings p q.rings = if polyInside p q = true then σ else 0 := by
  have hs := unit_sigma hσ (h.unit q.ext (by simp [Poly.rings])) he
  have hσ0 : σ ≠ 0 := by rcases hσ with rfl | rfl <;> decide
  unfold polyInside Poly.rings
  simp only [windRings]
  rcases windRings_apart p q.ints h.holesApart with ⟨ha, hH⟩ | ⟨ha, g, hg, hgn, hH⟩
  · rw [ha, hH]
    rcases hs with h1 | h1
    · rw [h1]; simp
    · rw [h1]; simp [hσ0]
  · have hneg : σ = 1 ∨ σ = -1 → (-σ = 1 ∨ -σ = -1) := by
      rintro (rfl | rfl) <;> decide
    have hgu := unit_sigma (σ := -σ) (hneg hσ) (h.unit g (by simp [Poly.rings, hg]))
      (by have := hh g hg; push_cast; linarith)
    have hsn := h.holeInShell g hg hgn
    rw [ha, hH]
    rcases hgu with g0 | g1
    · exact absurd g0 hgn
    · rcases hs with h1 | h1
      · exact absurd h1 hsn
      · rw [h1, g1]; simp

/-! ### multipolygons -/

/-- **S2 for a multipolygon** whose members are layered and of which at most one contains the point -/
theorem evenOdd_multi (p : Pt) : ∀ ps : List Poly, (∀ q ∈ ps, Layered q p) →
    ps.Pairwise (fun a b => polyInside p a = false ∨ polyInside p b = false) →
    evenOddRings p (rings ps) = mpInside p ps
  | [], _, _ => rfl
  | q :: t, hl, hp => by
    rw [List.pairwise_cons] at hp
    obtain ⟨hpair, ht⟩ := hp
    have ih := evenOdd_multi p t (fun m hm => hl m (List.mem_cons_of_mem _ hm)) ht
    have e1 := evenOdd_of_layered (hl q List.mem_cons_self)
    unfold evenOddRings at ih e1 ⊢
    have hr : rings (q :: t) = q.rings ++ rings t := by simp [rings]
    rw [hr, windRings_append']
    show ((windRings p q.rings + windRings p (rings t)) % 2 != 0) = (polyInside p q || mpInside p t)
    cases hq : polyInside p q
    · rw [hq] at e1
      have h1 : windRings p q.rings % 2 = 0 := by simpa using e1
      rw [Bool.false_or, ← ih]
      have : (windRings p q.rings + windRings p (rings t)) % 2 = windRings p (rings t) % 2 := by omega
      rw [this]
    · have htf : mpInside p t = false := by
        unfold mpInside
        rw [List.any_eq_false]
        intro m hm
        have := (hpair m hm).resolve_left (by simp [hq])
        simp [this]
      rw [htf] at ih
      rw [hq] at e1
      have h1 : windRings p q.rings % 2 ≠ 0 := by simpa using e1
      have h2 : windRings p (rings t) % 2 = 0 := by simpa using ih
      have : (windRings p q.rings + windRings p (rings t)) % 2 ≠ 0 := by omega
      simpa using this

end Geo.Proofs.C04X
