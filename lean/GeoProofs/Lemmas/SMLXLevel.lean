/-
  SMLX (C05), part 3: the shoelace sum of a closed ring as a sum over horizontal slabs.

  * `shoelace2_trapezoid`: on a closed ring `Σ det(a, b) = Σ (a.x + b.x)(b.y − a.y)` (the difference
    telescopes).
  * `levelF y es = Σ_e sgnE y e · xAt y e`: the signed sum of the crossing abscissae of the level `y`.
  * `edge_slabs`: for one edge and a strictly increasing list `Y` of levels containing the ordinates of
    both end points, `(a.x + b.x)(b.y − a.y) = Σ_{(u, v) consecutive in Y} 2 (v − u) · sgnE m e · xAt m e`,
    `m = (u + v)/2` — the trapezoid under the edge cut at the levels of `Y`; the crossing abscissa is
    linear in the level, so the midpoint rule is exact.
  * `shoelace2_slabs`: summing over the edges and exchanging the sums,
    `shoelace2 r = Σ_{(u, v)} 2 (v − u) · levelF ((u + v)/2) (segs r)`.
-/
import GeoProofs.Lemmas.C12QScan
import GeoProofs.Lemmas.C05PConvex
import Mathlib.Tactic.Linarith
import Mathlib.Tactic.Ring
import Mathlib.Tactic.FieldSimp

set_option linter.unusedSimpArgs false
set_option linter.unusedVariables false

namespace Geo.Proofs.SMLX
open Geo Geo.IP Geo.Proofs.Kernel Geo.Proofs.C12 Geo.Proofs.C05L

/-! ### sums -/

theorem sumRat_append (l1 l2 : List Rat) : sumRat (l1 ++ l2) = sumRat l1 + sumRat l2 := by
  induction l1 with
  | nil => simp [sumRat]
  | cons a t ih => simp only [List.cons_append, sumRat, ih]; ring

theorem sumRat_map_add {α} (f g : α → Rat) (l : List α) :
    sumRat (l.map (fun e => f e + g e)) = sumRat (l.map f) + sumRat (l.map g) := by
  induction l with
  | nil => simp [sumRat]
  | cons a t ih => simp only [List.map_cons, sumRat, ih]; ring

theorem sumRat_map_congr {α} {f g : α → Rat} {l : List α} (h : ∀ e ∈ l, f e = g e) :
    sumRat (l.map f) = sumRat (l.map g) := by
  induction l with
  | nil => rfl
  | cons a t ih =>
    simp only [List.map_cons, sumRat]
    rw [h a List.mem_cons_self, ih (fun e he => h e (List.mem_cons_of_mem _ he))]

/-- exchange of two finite sums -/
theorem sumRat_comm {α β} (f : α → β → Rat) (l1 : List α) (l2 : List β) :
    sumRat (l1.map (fun a => sumRat (l2.map (fun b => f a b)))) =
      sumRat (l2.map (fun b => sumRat (l1.map (fun a => f a b)))) := by
  induction l1 with
  | nil =>
    simp only [List.map_nil, sumRat]
    rw [sumRat_map_zero _ _ (fun _ _ => rfl)]
  | cons a t ih =>
    simp only [List.map_cons, sumRat]
    rw [ih, ← sumRat_map_add]

/-! ### trapezoid form of the shoelace sum -/

theorem shoelace2_trapezoid_open (a : Pt) (t : List Pt) :
    sumRat ((segs (a :: t)).map (fun e => (e.1.x + e.2.x) * (e.2.y - e.1.y))) =
      shoelace2 (a :: t) + ((lastD a t).x * (lastD a t).y - a.x * a.y) := by
  induction t generalizing a with
  | nil => simp [segs, shoelace2, sumRat, lastD]
  | cons b t ih =>
    simp only [segs, List.map_cons, sumRat, shoelace2, lastD, ih b, det]
    ring

/-- on a closed ring the shoelace sum is the sum of the trapezoids under the edges -/
theorem shoelace2_trapezoid (r : List Pt) (hc : r.head? = r.getLast?) :
    shoelace2 r = sumRat ((segs r).map (fun e => (e.1.x + e.2.x) * (e.2.y - e.1.y))) := by
  cases r with
  | nil => simp [segs, shoelace2, sumRat]
  | cons a t => rw [shoelace2_trapezoid_open, lastD_of_closed hc]; ring

/-! ### consecutive levels -/

/-- consecutive pairs of a list of levels -/
def pairsQ : List Rat → List (Rat × Rat)
  | a :: b :: t => (a, b) :: pairsQ (b :: t)
  | _ => []

def lastQ : Rat → List Rat → Rat
  | a, [] => a
  | _, b :: t => lastQ b t

theorem lastQ_mem (a : Rat) (t : List Rat) : lastQ a t ∈ a :: t := by
  induction t generalizing a with
  | nil => simp [lastQ]
  | cons b t ih => exact List.mem_cons_of_mem _ (ih b)

theorem pairsQ_telescope (g : Rat → Rat) (a : Rat) (t : List Rat) :
    sumRat ((pairsQ (a :: t)).map (fun s => g s.2 - g s.1)) = g (lastQ a t) - g a := by
  induction t generalizing a with
  | nil => simp [pairsQ, sumRat, lastQ]
  | cons b t ih =>
    simp only [pairsQ, List.map_cons, sumRat, lastQ, ih b]; ring

theorem pairsQ_mem : ∀ (Y : List Rat) (s : Rat × Rat), s ∈ pairsQ Y → s.1 ∈ Y ∧ s.2 ∈ Y
  | [], s, h => by simp [pairsQ] at h
  | [_], s, h => by simp [pairsQ] at h
  | a :: b :: t, s, h => by
    simp only [pairsQ, List.mem_cons] at h
    rcases h with rfl | h
    · simp
    · obtain ⟨h1, h2⟩ := pairsQ_mem (b :: t) s h
      exact ⟨List.mem_cons_of_mem _ h1, List.mem_cons_of_mem _ h2⟩

/-- consecutive entries of a strictly increasing list: increasing, and no entry strictly between -/
theorem pairsQ_gap : ∀ (Y : List Rat), Y.Pairwise (· < ·) → ∀ s ∈ pairsQ Y,
    s.1 < s.2 ∧ ∀ w ∈ Y, ¬ (s.1 < w ∧ w < s.2)
  | [], _, s, h => by simp [pairsQ] at h
  | [_], _, s, h => by simp [pairsQ] at h
  | a :: b :: t, hs, s, h => by
    rw [List.pairwise_cons] at hs
    obtain ⟨ha, hs'⟩ := hs
    simp only [pairsQ, List.mem_cons] at h
    rcases h with rfl | h
    · refine ⟨ha b (by simp), ?_⟩
      intro w hw ⟨h1, h2⟩
      simp only at h1 h2
      rcases List.mem_cons.mp hw with rfl | hw
      · exact lt_irrefl _ h1
      · rcases List.mem_cons.mp hw with rfl | hw
        · exact lt_irrefl _ h2
        · have := (List.pairwise_cons.mp hs').1 w hw
          linarith
    · obtain ⟨g1, g2⟩ := pairsQ_gap (b :: t) hs' s h
      refine ⟨g1, ?_⟩
      intro w hw ⟨h1, h2⟩
      rcases List.mem_cons.mp hw with rfl | hw
      · have := ha s.1 (pairsQ_mem _ s h).1
        linarith
      · exact g2 w hw ⟨h1, h2⟩

/-- the first entry of a strictly increasing list is the least, the last one the greatest -/
theorem sorted_first_le : ∀ (a : Rat) (t : List Rat), (a :: t).Pairwise (· < ·) → ∀ w ∈ a :: t, a ≤ w := by
  intro a t hs w hw
  rcases List.mem_cons.mp hw with rfl | hw
  · exact le_refl _
  · exact le_of_lt ((List.pairwise_cons.mp hs).1 w hw)

theorem sorted_le_last : ∀ (a : Rat) (t : List Rat), (a :: t).Pairwise (· < ·) → ∀ w ∈ a :: t, w ≤ lastQ a t
  | a, [], _, w, hw => by
    have : w = a := by simpa using hw
    rw [this]; exact le_refl _
  | a, b :: t, hs, w, hw => by
    have hs' := (List.pairwise_cons.mp hs).2
    show w ≤ lastQ b t
    rcases List.mem_cons.mp hw with rfl | hw
    · have h1 := (List.pairwise_cons.mp hs).1 b (by simp)
      have h2 := sorted_le_last b t hs' b (by simp)
      linarith
    · exact sorted_le_last b t hs' w hw

/-! ### one edge -/

/-- signed sum of the crossing abscissae of the level `y` -/
def levelF (y : Rat) (es : List (Pt × Pt)) : Rat :=
  sumRat (es.map (fun e => ((sgnE y e : Int) : Rat) * xAt y e))

/-- the part of the trapezoid under the edge `e` between the levels of the slab `s` -/
def slabTerm (e : Pt × Pt) (s : Rat × Rat) : Rat :=
  2 * (s.2 - s.1) * (((sgnE ((s.1 + s.2) / 2) e : Int) : Rat) * xAt ((s.1 + s.2) / 2) e)

theorem xAt_swap (y : Rat) (s e : Pt) (h : s.y ≠ e.y) : xAt y (e, s) = xAt y (s, e) := by
  have h1 : e.y - s.y ≠ 0 := fun h0 => h (by linarith)
  have h2 : s.y - e.y ≠ 0 := fun h0 => h (by linarith)
  simp only [xAt]
  field_simp
  ring

theorem slabTerm_swap (a b : Pt) (s : Rat × Rat) : slabTerm (b, a) s = - slabTerm (a, b) s := by
  unfold slabTerm
  rw [sgnE_swap]
  by_cases h : a.y = b.y
  · have : sgnE ((s.1 + s.2) / 2) (a, b) = 0 := by
      unfold sgnE; simp only [h]
      have h1 : ¬ (b.y < (s.1 + s.2) / 2 ∧ (s.1 + s.2) / 2 < b.y) := fun hh => by linarith [hh.1, hh.2]
      simp [h1]
    simp [this]
  · rw [xAt_swap _ a b h]; push_cast; ring

/-- cumulative trapezoid under an upward edge `(a, b)` below the level `y` -/
def cumUp (a b : Pt) (y : Rat) : Rat :=
  if y ≤ a.y then 0
  else if b.y ≤ y then (a.x + b.x) * (b.y - a.y)
  else (a.x + xAt y (a, b)) * (y - a.y)

theorem slab_up (a b : Pt) (hab : a.y < b.y) (u v : Rat) (huv : u < v)
    (h1 : ¬ (u < a.y ∧ a.y < v)) (h2 : ¬ (u < b.y ∧ b.y < v)) :
    slabTerm (a, b) (u, v) = cumUp a b v - cumUp a b u := by
  have hd : b.y - a.y ≠ 0 := by linarith
  unfold slabTerm cumUp
  simp only
  by_cases c1 : v ≤ a.y
  · -- below the edge
    have c2 : u ≤ a.y := by linarith
    have hs : sgnE ((u + v) / 2) (a, b) = 0 := by
      unfold sgnE
      have n1 : ¬ (a.y < (u + v) / 2 ∧ (u + v) / 2 < b.y) := fun hh => by linarith [hh.1]
      have n2 : ¬ (b.y < (u + v) / 2 ∧ (u + v) / 2 < a.y) := fun hh => by linarith [hh.1, hh.2]
      simp [n1, n2]
    simp [hs, c1, c2]
  · have c1' : a.y < v := not_le.mp c1
    have c2 : a.y ≤ u := by
      by_contra hh
      exact h1 ⟨not_le.mp hh, c1'⟩
    by_cases c3 : b.y ≤ u
    · -- above the edge
      have c4 : b.y ≤ v := by linarith
      have hs : sgnE ((u + v) / 2) (a, b) = 0 := by
        unfold sgnE
        have n1 : ¬ (a.y < (u + v) / 2 ∧ (u + v) / 2 < b.y) := fun hh => by linarith [hh.2]
        have n2 : ¬ (b.y < (u + v) / 2 ∧ (u + v) / 2 < a.y) := fun hh => by linarith [hh.1, hh.2]
        simp [n1, n2]
      have c5 : ¬ u ≤ a.y := by linarith
      simp [hs, c1, c4, c3, c5]
    · -- inside the ordinate range of the edge
      have c3' : u < b.y := not_le.mp c3
      have c4 : v ≤ b.y := by
        by_contra hh
        exact h2 ⟨c3', not_le.mp hh⟩
      have hs : sgnE ((u + v) / 2) (a, b) = 1 := by
        unfold sgnE
        have n1 : a.y < (u + v) / 2 ∧ (u + v) / 2 < b.y := ⟨by linarith, by linarith⟩
        simp [n1]
      rw [hs]
      simp only [Int.cast_one, one_mul, if_neg c1]
      by_cases c5 : u ≤ a.y
      · have e5 : u = a.y := le_antisymm c5 c2
        subst e5
        simp only [if_pos (le_refl _), sub_zero]
        by_cases c6 : b.y ≤ v
        · have e6 : v = b.y := le_antisymm c4 c6
          subst e6
          simp only [if_pos (le_refl _), xAt]
          field_simp
          ring
        · simp only [if_neg c6, xAt]
          field_simp
          ring
      · simp only [if_neg c5, if_neg c3]
        by_cases c6 : b.y ≤ v
        · have e6 : v = b.y := le_antisymm c4 c6
          subst e6
          simp only [if_pos (le_refl _), xAt]
          field_simp
          ring
        · simp only [if_neg c6, xAt]
          field_simp
          ring

theorem edge_slabs_up (a b : Pt) (hab : a.y < b.y) (Y : List Rat) (hs : Y.Pairwise (· < ·))
    (h1 : a.y ∈ Y) (h2 : b.y ∈ Y) :
    sumRat ((pairsQ Y).map (slabTerm (a, b))) = (a.x + b.x) * (b.y - a.y) := by
  have hcongr : sumRat ((pairsQ Y).map (slabTerm (a, b))) =
      sumRat ((pairsQ Y).map (fun s => cumUp a b s.2 - cumUp a b s.1)) := by
    apply sumRat_map_congr
    rintro ⟨u, v⟩ hm
    obtain ⟨g1, g2⟩ := pairsQ_gap Y hs (u, v) hm
    exact slab_up a b hab u v g1 (g2 _ h1) (g2 _ h2)
  rw [hcongr]
  match Y, hs, h1, h2 with
  | y0 :: t, hs, h1, h2 =>
    rw [pairsQ_telescope]
    have hlo : y0 ≤ a.y := sorted_first_le y0 t hs _ h1
    have hhi : b.y ≤ lastQ y0 t := sorted_le_last y0 t hs _ h2
    unfold cumUp
    have n1 : ¬ lastQ y0 t ≤ a.y := by linarith
    simp [hlo, hhi, n1]

/-- **one edge, cut at the levels of `Y`** -/
theorem edge_slabs (e : Pt × Pt) (Y : List Rat) (hs : Y.Pairwise (· < ·))
    (h1 : e.1.y ∈ Y) (h2 : e.2.y ∈ Y) :
    sumRat ((pairsQ Y).map (slabTerm e)) = (e.1.x + e.2.x) * (e.2.y - e.1.y) := by
  obtain ⟨a, b⟩ := e
  simp only at h1 h2 ⊢
  rcases lt_trichotomy a.y b.y with h | h | h
  · exact edge_slabs_up a b h Y hs h1 h2
  · rw [h, sub_self, mul_zero]
    apply sumRat_map_zero
    intro s _
    unfold slabTerm
    have : sgnE ((s.1 + s.2) / 2) (a, b) = 0 := by
      unfold sgnE; simp only [h]
      have n1 : ¬ (b.y < (s.1 + s.2) / 2 ∧ (s.1 + s.2) / 2 < b.y) := fun hh => by linarith [hh.1, hh.2]
      simp [n1]
    simp [this]
  · have := edge_slabs_up b a h Y hs h2 h1
    have hsw : sumRat ((pairsQ Y).map (slabTerm (a, b))) =
        - sumRat ((pairsQ Y).map (slabTerm (b, a))) := by
      have : ∀ s ∈ pairsQ Y, slabTerm (a, b) s = (-1) * slabTerm (b, a) s := by
        intro s _; rw [slabTerm_swap b a s]; ring
      rw [sumRat_map_congr this, sumRat_map_mul]; ring
    rw [hsw, this]; ring

/-! ### the whole ring -/

/-- **the shoelace sum as a sum over slabs**: `Y` strictly increasing, containing the ordinates of all
coordinates of the closed ring -/
theorem shoelace2_slabs (r : List Pt) (hc : r.head? = r.getLast?) (Y : List Rat)
    (hs : Y.Pairwise (· < ·)) (hY : ∀ v ∈ r, v.y ∈ Y) :
    shoelace2 r = sumRat ((pairsQ Y).map (fun s => 2 * (s.2 - s.1) * levelF ((s.1 + s.2) / 2) (segs r))) := by
  rw [shoelace2_trapezoid r hc]
  have h1 : sumRat ((segs r).map (fun e => (e.1.x + e.2.x) * (e.2.y - e.1.y))) =
      sumRat ((segs r).map (fun e => sumRat ((pairsQ Y).map (fun s => slabTerm e s)))) := by
    apply sumRat_map_congr
    intro e he
    obtain ⟨m1, m2⟩ := Geo.Proofs.Spec.mem_of_mem_segs he
    exact (edge_slabs e Y hs (hY _ m1) (hY _ m2)).symm
  rw [h1, sumRat_comm]
  apply sumRat_map_congr
  intro s _
  unfold levelF slabTerm
  rw [← sumRat_map_mul]

end Geo.Proofs.SMLX
