/-
  C04X, part 6: the members of a valid MultiPolygon. `multiPolyValid` demands `II = F`, `dim BB ≤ 0`
  for every pair of members; for members *without holes* that is the ring-level statement of
  C04XScan, so at most one member contains a point off the rings.
-/
import GeoProofs.Lemmas.C04XGeneric

set_option linter.unusedSimpArgs false
set_option linter.unusedVariables false

namespace Geo.Proofs.C04X
open Geo Geo.BoolGlue Geo.BoolSpec Geo.Proofs.C04L

/-- two simple rings with `II = F`, `dim BB ≤ 0` never both wind around a point off both of them -/
theorem rings_apart_off {ra rb : List Pt} (hsa : ringSimple ra = true) (hsb : ringSimple rb = true)
    (hii : (relateParts (polyOf ra) (polyOf rb)).ii = .empty)
    (hbb : dimLe0 (relateParts (polyOf ra) (polyOf rb)).bb = true) (p : Pt)
    (hoa : onAnySeg p (segs ra) = false) (hob : onAnySeg p (segs rb) = false) :
    windRing p ra = 0 ∨ windRing p rb = 0 := by
  obtain ⟨p', hw, hlev⟩ := exists_generic p [ra, rb] (by
    intro r hr
    simp only [List.mem_cons, List.not_mem_nil, or_false] at hr
    rcases hr with rfl | rfl
    · exact hoa
    · exact hob)
  obtain ⟨x, y⟩ := p'
  have := rings_apart_level hsa hsb hii hbb x y (hlev ra (by simp)) (hlev rb (by simp))
  rw [windingE_eq, windingE_eq, hw ra (by simp), hw rb (by simp)] at this
  exact this

/-- the member-pair clause of `multiPolyValid` -/
theorem multiPolyValid_pairs {ps : List Poly} (h : multiPolyValid ps = true) {i j : Nat} (hij : i < j)
    {p1 p2 : Poly} (e1 : ps[i]? = some p1) (e2 : ps[j]? = some p2) :
    (relateParts (partsOfPoly p1) (partsOfPoly p2)).ii = .empty ∧
      dimLe0 (relateParts (partsOfPoly p1) (partsOfPoly p2)).bb = true := by
  unfold multiPolyValid at h
  simp only [Bool.and_eq_true] at h
  obtain ⟨_, hp⟩ := h
  have hs1 : (ps.map (fun _ => ((⟨0, 0⟩ : Pt), (⟨0, 0⟩ : Pt))))[i]? = some (⟨0, 0⟩, ⟨0, 0⟩) := by
    rw [List.getElem?_map, e1]; rfl
  have hs2 : (ps.map (fun _ => ((⟨0, 0⟩ : Pt), (⟨0, 0⟩ : Pt))))[j]? = some (⟨0, 0⟩, ⟨0, 0⟩) := by
    rw [List.getElem?_map, e2]; rfl
  have := Geo.Proofs.C12.allPairs_spec hp hij hs1 hs2
  simp only [e1, e2, Bool.and_eq_true, beq_iff_eq] at this
  exact this

theorem multiPolyValid_members {ps : List Poly} (h : multiPolyValid ps = true) :
    ∀ q ∈ ps, polyValid q = true := by
  unfold multiPolyValid at h
  simp only [Bool.and_eq_true, List.all_eq_true] at h
  exact h.1

theorem partsOfPoly_holefree {m : Poly} (h : m.ints = []) : partsOfPoly m = polyOf m.ext := by
  obtain ⟨e, i⟩ := m
  simp only at h
  subst h
  rfl

theorem polyInside_holefree {m : Poly} (h : m.ints = []) (p : Pt) :
    polyInside p m = (windRing p m.ext != 0) := by
  unfold polyInside
  rw [h]; simp

/-- **at most one member without holes of a valid MultiPolygon contains a point off the rings** -/
theorem members_apart_holefree {ps : List Poly} (hv : multiPolyValid ps = true)
    (hh : ∀ m ∈ ps, m.ints = []) (p : Pt)
    (hoff : ∀ r ∈ rings ps, onAnySeg p (segs r) = false) :
    ps.Pairwise (fun m1 m2 => polyInside p m1 = false ∨ polyInside p m2 = false) := by
  rw [List.pairwise_iff_getElem]
  intro i j hi hj hij
  have m1 : ps[i] ∈ ps := List.getElem_mem hi
  have m2 : ps[j] ∈ ps := List.getElem_mem hj
  obtain ⟨hii, hbb⟩ := multiPolyValid_pairs hv hij (List.getElem?_eq_getElem hi) (List.getElem?_eq_getElem hj)
  rw [partsOfPoly_holefree (hh _ m1), partsOfPoly_holefree (hh _ m2)] at hii hbb
  have hs1 := (Geo.Proofs.C02Q.polyValid_unpack (multiPolyValid_members hv _ m1)).1
  have hs2 := (Geo.Proofs.C02Q.polyValid_unpack (multiPolyValid_members hv _ m2)).1
  have ho1 : onAnySeg p (segs ps[i].ext) = false :=
    hoff _ (List.mem_flatMap.2 ⟨ps[i], m1, by simp [Poly.rings]⟩)
  have ho2 : onAnySeg p (segs ps[j].ext) = false :=
    hoff _ (List.mem_flatMap.2 ⟨ps[j], m2, by simp [Poly.rings]⟩)
  rw [polyInside_holefree (hh _ m1), polyInside_holefree (hh _ m2)]
  rcases rings_apart_off hs1 hs2 hii hbb p ho1 ho2 with h | h
  · left; simp [h]
  · right; simp [h]

end Geo.Proofs.C04X
