/-
  GeoProofs.Lemmas.C12QCross — crossing structure of a horizontal line with a closed ring.

  For a level `y` that is the ordinate of no vertex of the ring:
   * an edge contributes to the winding number of `(x, y)` exactly when it straddles `y` and its
     crossing abscissa `xAt` is `> x`, with sign `sgnE` (+1 upward, −1 downward) (`ptInc_level`);
   * the signs of all edges of a closed ring sum to 0 (`sum_sgnE_closed`, telescoping);
   * hence the winding number is minus the signed count of crossings `≤ x` (`winding_level`) and
     its parity is the parity of the number of crossings `≤ x` (`psum_parity`);
   * a point of the level lying on an edge is a crossing (`lineCoord_level`);
   * a ring with a vertex above and a vertex below the level has a straddling edge
     (`exists_straddle`), and a closed one an even number of them (`crossings_even`).
-/
import GeoModel.RelateSpec
import GeoProofs.Lemmas.LocateLemmas
import GeoProofs.Lemmas.RelateSpecBBox
import Mathlib.Tactic.Linarith
import Mathlib.Tactic.Ring
import Mathlib.Tactic.FieldSimp

namespace Geo.Proofs.C12
open Geo Geo.Proofs.Kernel

/-- sign of the crossing of the level `y` by the edge: `+1` upward, `-1` downward, `0` none -/
def sgnE (y : Rat) (e : Pt × Pt) : Int :=
  if e.1.y < y ∧ y < e.2.y then 1 else if e.2.y < y ∧ y < e.1.y then -1 else 0

/-- abscissa at which the supporting line of the (non-horizontal) edge meets the level `y` -/
def xAt (y : Rat) (e : Pt × Pt) : Rat := e.1.x + (y - e.1.y) * (e.2.x - e.1.x) / (e.2.y - e.1.y)

/-- crossing abscissae of one edge with the level `y` -/
def crossXs (y : Rat) (e : Pt × Pt) : List Rat := if sgnE y e ≠ 0 then [xAt y e] else []

/-- `1` above the level, `0` below -/
def aboveL (y : Rat) (v : Pt) : Int := if y < v.y then 1 else 0

theorem sgnE_ne_zero_iff (y : Rat) (e : Pt × Pt) :
    sgnE y e ≠ 0 ↔ (e.1.y < y ∧ y < e.2.y) ∨ (e.2.y < y ∧ y < e.1.y) := by
  unfold sgnE
  by_cases h1 : e.1.y < y ∧ y < e.2.y
  · simp [h1]
  · by_cases h2 : e.2.y < y ∧ y < e.1.y
    · simp [h1, h2]
    · simp [h1, h2]

theorem sgnE_ne_zero_ne {y : Rat} {e : Pt × Pt} (h : sgnE y e ≠ 0) : e.2.y - e.1.y ≠ 0 := by
  rcases (sgnE_ne_zero_iff y e).1 h with ⟨a, b⟩ | ⟨a, b⟩ <;> intro h0 <;> linarith

theorem cross_eq_xAt (s e : Pt) (x y : Rat) (hd : e.y - s.y ≠ 0) :
    cross s e ⟨x, y⟩ = (e.y - s.y) * (xAt y (s, e) - x) := by
  simp only [cross, xAt]
  field_simp
  ring

/-- the contribution of one edge to the winding number of a point of the level -/
theorem ptInc_level {x y : Rat} {s e : Pt} (hs : s.y ≠ y) (he : e.y ≠ y) :
    Geo.Proofs.Loc.ptInc ⟨x, y⟩ s e = if x < xAt y (s, e) then sgnE y (s, e) else 0 := by
  unfold Geo.Proofs.Loc.ptInc sgnE
  simp only
  rcases lt_or_gt_of_ne hs with hs' | hs' <;> rcases lt_or_gt_of_ne he with he' | he'
  · -- both below
    have n1 : ¬ y < e.y := by linarith
    have n2 : ¬ y < s.y := by linarith
    simp [hs'.le, n1, n2]
  · -- upward
    have hd : e.y - s.y ≠ 0 := by intro h; linarith
    have n2 : ¬ y < s.y := by linarith
    rw [cross_eq_xAt s e x y hd]
    have hpos : 0 < e.y - s.y := by linarith
    have hiff : 0 < (e.y - s.y) * (xAt y (s, e) - x) ↔ x < xAt y (s, e) := by
      constructor
      · intro h
        by_contra hc
        have : xAt y (s, e) - x ≤ 0 := by linarith
        have := mul_nonpos_of_nonneg_of_nonpos hpos.le this
        linarith
      · intro h; exact mul_pos hpos (by linarith)
    by_cases hx : x < xAt y (s, e)
    · simp [hs'.le, he', hs', hx, hiff.2 hx]
    · have : ¬ 0 < (e.y - s.y) * (xAt y (s, e) - x) := fun h => hx (hiff.1 h)
      simp [hs'.le, he', hx, this]
  · -- downward
    have hd : e.y - s.y ≠ 0 := by intro h; linarith
    have n1 : ¬ s.y ≤ y := by linarith
    have n3 : ¬ (s.y < y ∧ y < e.y) := fun h => by linarith [h.1]
    rw [cross_eq_xAt s e x y hd]
    have hneg : e.y - s.y < 0 := by linarith
    have hiff : (e.y - s.y) * (xAt y (s, e) - x) < 0 ↔ x < xAt y (s, e) := by
      constructor
      · intro h
        by_contra hc
        have : xAt y (s, e) - x ≤ 0 := by linarith
        have := mul_nonneg_of_nonpos_of_nonpos hneg.le this
        linarith
      · intro h; exact mul_neg_of_neg_of_pos hneg (by linarith)
    by_cases hx : x < xAt y (s, e)
    · simp [n1, he'.le, n3, he', hs', hx, hiff.2 hx]
    · have : ¬ (e.y - s.y) * (xAt y (s, e) - x) < 0 := fun h => hx (hiff.1 h)
      simp [n1, he'.le, hx, this]
  · -- both above
    have n1 : ¬ s.y ≤ y := by linarith
    have n2 : ¬ e.y ≤ y := by linarith
    have n3 : ¬ e.y < y := by linarith
    have n4 : ¬ s.y < y := by linarith
    simp [n1, n2, n3, n4]

/-- the sign of an edge is the difference of the levels of its end points -/
theorem sgnE_eq_diff {y : Rat} {s e : Pt} (hs : s.y ≠ y) (he : e.y ≠ y) :
    sgnE y (s, e) = aboveL y e - aboveL y s := by
  unfold sgnE aboveL
  simp only
  rcases lt_or_gt_of_ne hs with hs' | hs' <;> rcases lt_or_gt_of_ne he with he' | he'
  · have n1 : ¬ y < e.y := by linarith
    have n2 : ¬ y < s.y := by linarith
    simp [n1, n2]
  · have n2 : ¬ y < s.y := by linarith
    simp [hs', he', n2]
  · have n1 : ¬ y < e.y := by linarith
    have n3 : ¬ s.y < y := by linarith
    simp [hs', he', n1, n3]
  · have n3 : ¬ e.y < y := by linarith
    have n4 : ¬ s.y < y := by linarith
    simp [hs', he', n3, n4]

/-! ### sums over the edges -/

/-- telescoping of a sum of differences along consecutive pairs -/
theorem sum_telescope (f : Pt × Pt → Int) (g : Pt → Int) (a : Pt) (t : List Pt)
    (h : ∀ s ∈ segs (a :: t), f s = g s.2 - g s.1) :
    ((segs (a :: t)).map f).sum = g ((a :: t).getLast (List.cons_ne_nil _ _)) - g a := by
  induction t generalizing a with
  | nil => simp [segs]
  | cons b t' ih =>
    have hb := ih b (fun s hs => h s (by simp only [segs, List.mem_cons]; exact Or.inr hs))
    have ha := h (a, b) (by simp [segs])
    simp only [segs, List.map_cons, List.sum_cons, hb, ha, List.getLast_cons_cons]
    omega

/-- A closed polyline crosses a level that avoids its vertices upward as often as downward. -/
theorem sum_sgnE_closed (y : Rat) (r : List Pt) (hc : r.head? = r.getLast?)
    (hy : ∀ v ∈ r, v.y ≠ y) : ((segs r).map (sgnE y)).sum = 0 := by
  cases r with
  | nil => rfl
  | cons a t =>
    rw [sum_telescope (sgnE y) (aboveL y) a t]
    · rw [List.head?_cons, List.getLast?_eq_getLast_of_ne_nil (List.cons_ne_nil _ _)] at hc
      injection hc with hc
      rw [← hc]; omega
    · rintro ⟨s, e⟩ hs
      obtain ⟨h1, h2⟩ := Geo.Proofs.Spec.mem_of_mem_segs hs
      exact sgnE_eq_diff (hy s h1) (hy e h2)

/-- signed count of the crossings whose abscissa satisfies `P` -/
def psum (y : Rat) (P : Rat → Bool) (es : List (Pt × Pt)) : Int :=
  (es.map (fun e => if P (xAt y e) then sgnE y e else 0)).sum

theorem psum_nil (y : Rat) (P : Rat → Bool) : psum y P [] = 0 := rfl

theorem psum_cons (y : Rat) (P : Rat → Bool) (e : Pt × Pt) (es : List (Pt × Pt)) :
    psum y P (e :: es) = (if P (xAt y e) then sgnE y e else 0) + psum y P es := by
  simp [psum]

theorem sgnE_cases (y : Rat) (e : Pt × Pt) : sgnE y e = 1 ∨ sgnE y e = -1 ∨ sgnE y e = 0 := by
  unfold sgnE; split
  · exact Or.inl rfl
  · split
    · exact Or.inr (Or.inl rfl)
    · exact Or.inr (Or.inr rfl)

/-- parity: the signed count and the plain count of the selected crossings differ by an even
number -/
theorem psum_parity (y : Rat) (P : Rat → Bool) (es : List (Pt × Pt)) :
    ∃ k : Int, psum y P es = (((es.flatMap (crossXs y)).filter P).length : Int) + 2 * k := by
  induction es with
  | nil => exact ⟨0, by simp [psum]⟩
  | cons e es ih =>
    obtain ⟨k, hk⟩ := ih
    rw [psum_cons, List.flatMap_cons, List.filter_append, List.length_append, hk]
    by_cases h0 : sgnE y e = 0
    · refine ⟨k, ?_⟩
      simp [crossXs, h0]
    · by_cases hp : P (xAt y e) = true
      · have : ((crossXs y e).filter P).length = 1 := by simp [crossXs, h0, hp]
        rw [this]
        simp only [hp, if_true]
        rcases sgnE_cases y e with h | h | h
        · exact ⟨k, by rw [h]; push_cast; ring⟩
        · exact ⟨k - 1, by rw [h]; push_cast; ring⟩
        · exact absurd h h0
      · have : ((crossXs y e).filter P).length = 0 := by simp [crossXs, h0, hp]
        rw [this]
        simp only [hp]
        exact ⟨k, by simp⟩

/-- the signed count is bounded by the plain count -/
theorem psum_abs_le (y : Rat) (P : Rat → Bool) (es : List (Pt × Pt)) :
    - (((es.flatMap (crossXs y)).filter P).length : Int) ≤ psum y P es ∧
      psum y P es ≤ (((es.flatMap (crossXs y)).filter P).length : Int) := by
  induction es with
  | nil => simp [psum]
  | cons e es ih =>
    rw [psum_cons, List.flatMap_cons, List.filter_append, List.length_append]
    by_cases h0 : sgnE y e = 0
    · have : ((crossXs y e).filter P).length = 0 := by simp [crossXs, h0]
      rw [this, h0]
      simp only [ite_self]
      omega
    · by_cases hp : P (xAt y e) = true
      · have : ((crossXs y e).filter P).length = 1 := by simp [crossXs, h0, hp]
        rw [this]
        simp only [hp, if_true]
        rcases sgnE_cases y e with h | h | h
        · rw [h]; omega
        · rw [h]; omega
        · exact absurd h h0
      · have : ((crossXs y e).filter P).length = 0 := by simp [crossXs, h0, hp]
        rw [this]
        simp only [hp]
        simp only [Bool.false_eq_true, if_false]
        omega

/-- no selected crossing: the signed count vanishes -/
theorem psum_zero (y : Rat) (P : Rat → Bool) (es : List (Pt × Pt))
    (h : ∀ t ∈ es.flatMap (crossXs y), P t = false) : psum y P es = 0 := by
  induction es with
  | nil => rfl
  | cons e es ih =>
    rw [psum_cons, ih (fun t ht => h t (by simp only [List.flatMap_cons, List.mem_append]; exact Or.inr ht))]
    by_cases h0 : sgnE y e = 0
    · simp [h0]
    · have := h (xAt y e) (by simp [List.flatMap_cons, crossXs, h0])
      simp [this]

theorem psum_split (y : Rat) (P : Rat → Bool) (es : List (Pt × Pt)) :
    ((es.map (sgnE y)).sum : Int) = psum y P es + psum y (fun t => !P t) es := by
  induction es with
  | nil => rfl
  | cons e es ih =>
    rw [psum_cons, psum_cons, List.map_cons, List.sum_cons, ih]
    by_cases hp : P (xAt y e) = true
    · simp [hp]; omega
    · simp [hp]; omega

/-- **winding number on a level avoiding the vertices**: minus the signed count of the crossings
at or left of the point -/
theorem winding_level (x y : Rat) (r : List Pt) (hc : r.head? = r.getLast?)
    (hy : ∀ v ∈ r, v.y ≠ y) :
    windingE (EPt.ofPt ⟨x, y⟩) r = - psum y (fun t => decide (t ≤ x)) (segs r) := by
  rw [Geo.Proofs.Loc.windingE_ofPt]
  have h1 : (segs r).map (fun se => Geo.Proofs.Loc.ptInc ⟨x, y⟩ se.1 se.2) =
      (segs r).map (fun e => if (fun t => !decide (t ≤ x)) (xAt y e) then sgnE y e else 0) := by
    apply List.map_congr_left
    rintro ⟨s, e⟩ hs
    obtain ⟨m1, m2⟩ := Geo.Proofs.Spec.mem_of_mem_segs hs
    rw [ptInc_level (hy s m1) (hy e m2)]
    by_cases hx : x < xAt y (s, e)
    · have : ¬ xAt y (s, e) ≤ x := by linarith
      simp [hx, this]
    · have : xAt y (s, e) ≤ x := by linarith
      simp [hx, this]
  rw [h1]
  have h2 := psum_split y (fun t => decide (t ≤ x)) (segs r)
  rw [sum_sgnE_closed y r hc hy] at h2
  unfold psum at h2 ⊢
  omega

/-- an odd number of crossings at or left of the point: the ring winds around it -/
theorem winding_ne_zero_of_odd (x y : Rat) (r : List Pt) (hc : r.head? = r.getLast?)
    (hy : ∀ v ∈ r, v.y ≠ y)
    (hodd : (((segs r).flatMap (crossXs y)).filter (fun t => decide (t ≤ x))).length % 2 = 1) :
    windingE (EPt.ofPt ⟨x, y⟩) r ≠ 0 := by
  rw [winding_level x y r hc hy]
  obtain ⟨k, hk⟩ := psum_parity y (fun t => decide (t ≤ x)) (segs r)
  rw [hk]
  omega

/-- exactly one crossing at or left of the point (between the first and the second crossing):
the winding number is `±1` -/
theorem winding_pm_one_of_one (x y : Rat) (r : List Pt) (hc : r.head? = r.getLast?)
    (hy : ∀ v ∈ r, v.y ≠ y)
    (hone : (((segs r).flatMap (crossXs y)).filter (fun t => decide (t ≤ x))).length = 1) :
    windingE (EPt.ofPt ⟨x, y⟩) r = 1 ∨ windingE (EPt.ofPt ⟨x, y⟩) r = -1 := by
  rw [winding_level x y r hc hy]
  obtain ⟨k, hk⟩ := psum_parity y (fun t => decide (t ≤ x)) (segs r)
  obtain ⟨h1, h2⟩ := psum_abs_le y (fun t => decide (t ≤ x)) (segs r)
  rw [hone] at hk h1 h2
  omega

/-- moving the point to the right across exactly the crossings in `(x, x']` changes the winding
number by their signed count; across exactly one crossing by `±1` -/
theorem winding_step (x x' y : Rat) (r : List Pt) (hc : r.head? = r.getLast?)
    (hy : ∀ v ∈ r, v.y ≠ y) (hxx : x ≤ x')
    (hone : (((segs r).flatMap (crossXs y)).filter (fun t => decide (x < t) && decide (t ≤ x'))).length = 1) :
    windingE (EPt.ofPt ⟨x', y⟩) r = windingE (EPt.ofPt ⟨x, y⟩) r + 1 ∨
    windingE (EPt.ofPt ⟨x', y⟩) r = windingE (EPt.ofPt ⟨x, y⟩) r - 1 := by
  rw [winding_level x y r hc hy, winding_level x' y r hc hy]
  have hsplit : psum y (fun t => decide (t ≤ x')) (segs r) =
      psum y (fun t => decide (t ≤ x)) (segs r) +
      psum y (fun t => decide (x < t) && decide (t ≤ x')) (segs r) := by
    unfold psum
    induction segs r with
    | nil => rfl
    | cons e es ih =>
      simp only [List.map_cons, List.sum_cons, ih]
      by_cases h1 : xAt y e ≤ x
      · have h2 : xAt y e ≤ x' := le_trans h1 hxx
        have h3 : ¬ x < xAt y e := not_lt.2 h1
        simp [h1, h2, h3]; omega
      · have h3 : x < xAt y e := not_le.1 h1
        by_cases h2 : xAt y e ≤ x'
        · simp [h1, h2, h3]; omega
        · simp [h1, h2, h3]
  obtain ⟨k, hk⟩ := psum_parity y (fun t => decide (x < t) && decide (t ≤ x')) (segs r)
  obtain ⟨h1, h2⟩ := psum_abs_le y (fun t => decide (x < t) && decide (t ≤ x')) (segs r)
  rw [hone] at hk h1 h2
  omega

/-- a non-zero winding number needs a crossing at or left of the point -/
theorem exists_crossing_le_of_winding (x y : Rat) (r : List Pt) (hc : r.head? = r.getLast?)
    (hy : ∀ v ∈ r, v.y ≠ y) (hw : windingE (EPt.ofPt ⟨x, y⟩) r ≠ 0) :
    ∃ t ∈ (segs r).flatMap (crossXs y), t ≤ x := by
  by_contra hno
  apply hw
  rw [winding_level x y r hc hy, psum_zero]
  · rfl
  · intro t ht
    have : ¬ t ≤ x := fun h => hno ⟨t, ht, h⟩
    simpa using this

/-- no crossing at or left of the point: winding number 0 -/
theorem winding_zero_of_none (x y : Rat) (r : List Pt) (hc : r.head? = r.getLast?)
    (hy : ∀ v ∈ r, v.y ≠ y)
    (hnone : ∀ t ∈ (segs r).flatMap (crossXs y), ¬ t ≤ x) :
    windingE (EPt.ofPt ⟨x, y⟩) r = 0 := by
  rw [winding_level x y r hc hy, psum_zero]
  · rfl
  · intro t ht; simpa using hnone t ht

/-- a closed ring crosses a level avoiding its vertices an even number of times -/
theorem crossings_even (y : Rat) (r : List Pt) (hc : r.head? = r.getLast?)
    (hy : ∀ v ∈ r, v.y ≠ y) : ((segs r).flatMap (crossXs y)).length % 2 = 0 := by
  obtain ⟨k, hk⟩ := psum_parity y (fun _ => true) (segs r)
  have h2 := psum_split y (fun _ => true) (segs r)
  rw [sum_sgnE_closed y r hc hy] at h2
  have h3 : psum y (fun t => !(fun _ => true) t) (segs r) = 0 :=
    psum_zero y _ _ (fun _ _ => rfl)
  rw [h3] at h2
  rw [List.filter_true] at hk
  omega

/-! ### points of the level on an edge -/

/-- a point of the level lying on an edge whose end points are off the level is the crossing of
that edge -/
theorem lineCoord_level {x y : Rat} {s e : Pt} (hs : s.y ≠ y) (he : e.y ≠ y)
    (h : lineCoord s e ⟨x, y⟩ = true) : x ∈ crossXs y (s, e) := by
  obtain ⟨hc, hr⟩ := (lineCoord_eq s e ⟨x, y⟩).1 h
  rw [pointInRect_iff] at hr
  have hst : sgnE y (s, e) ≠ 0 := by
    rw [sgnE_ne_zero_iff]
    rcases hr.2 with ⟨a, b⟩ | ⟨a, b⟩
    · exact Or.inl ⟨lt_of_le_of_ne a hs, lt_of_le_of_ne b (Ne.symm he)⟩
    · exact Or.inr ⟨lt_of_le_of_ne a he, lt_of_le_of_ne b (Ne.symm hs)⟩
  have hd := sgnE_ne_zero_ne hst
  rw [cross_eq_xAt s e x y hd] at hc
  have : xAt y (s, e) - x = 0 := by
    rcases mul_eq_zero.1 hc with h0 | h0
    · exact absurd h0 hd
    · exact h0
  simp only [crossXs, hst, ne_eq, not_false_eq_true, if_true, List.mem_singleton]
  linarith

theorem onAnySeg_level {x y : Rat} {es : List (Pt × Pt)} (hy : ∀ e ∈ es, e.1.y ≠ y ∧ e.2.y ≠ y)
    (h : onAnySeg ⟨x, y⟩ es = true) : x ∈ es.flatMap (crossXs y) := by
  obtain ⟨e, he, hl⟩ := (Geo.Proofs.Spec.onAnySeg_iff _ _).1 h
  rw [List.mem_flatMap]
  exact ⟨e, he, lineCoord_level (hy e he).1 (hy e he).2 hl⟩

/-- the crossing point of a straddling edge lies on the edge, between the abscissae of its ends -/
theorem xAt_segMem {y : Rat} {s e : Pt} (h : sgnE y (s, e) ≠ 0) : SegMem ⟨xAt y (s, e), y⟩ s e := by
  have hd := sgnE_ne_zero_ne h
  simp only at hd
  refine ⟨(y - s.y) / (e.y - s.y), ?_, ?_, ?_, ?_⟩
  · rcases (sgnE_ne_zero_iff y (s, e)).1 h with ⟨a, b⟩ | ⟨a, b⟩
    · exact div_nonneg (by simp only at a; linarith) (by simp only at a b; linarith)
    · exact div_nonneg_of_nonpos (by simp only at b; linarith) (by simp only at a b; linarith)
  · rcases (sgnE_ne_zero_iff y (s, e)).1 h with ⟨a, b⟩ | ⟨a, b⟩
    · simp only at a b
      rw [div_le_one (by linarith)]; linarith
    · simp only at a b
      rw [div_le_one_of_neg (by linarith)]; linarith
  · simp only [xAt]; field_simp
  · simp only; field_simp; ring

/-- the only point of a straddling edge on the level is its crossing point -/
theorem segMem_level_unique {y : Rat} {s e z : Pt} (h : sgnE y (s, e) ≠ 0) (hz : SegMem z s e)
    (hzy : z.y = y) : z.x = xAt y (s, e) := by
  have hd := sgnE_ne_zero_ne h
  simp only at hd
  have hc := hz.cross_eq_zero
  have : z = ⟨z.x, y⟩ := by cases z; simp only at hzy; rw [hzy]
  rw [this, cross_eq_xAt s e z.x y hd] at hc
  rcases mul_eq_zero.1 hc with h0 | h0
  · exact absurd h0 hd
  · linarith

/-! ### a crossing exists (discrete intermediate value) -/

/-- along a polyline none of whose edges straddles the level, every vertex is on the side of the
first one -/
theorem same_side_of_no_straddle (y : Rat) :
    ∀ (t : List Pt) (a : Pt), (∀ v ∈ a :: t, v.y ≠ y) → (∀ e ∈ segs (a :: t), sgnE y e = 0) →
      ∀ v ∈ a :: t, (v.y < y ↔ a.y < y)
  | [], a, _, _ => by intro v hv; simp only [List.mem_singleton] at hv; rw [hv]
  | b :: t, a, hy, hs => by
    have ih := same_side_of_no_straddle y t b (fun v hv => hy v (List.mem_cons_of_mem _ hv))
      (fun e he => hs e (by simp only [segs, List.mem_cons]; exact Or.inr he))
    have hab : sgnE y (a, b) = 0 := hs (a, b) (by simp [segs])
    have ha := hy a (by simp)
    have hb := hy b (by simp)
    have hside : b.y < y ↔ a.y < y := by
      by_contra hne
      apply (sgnE_ne_zero_iff y (a, b)).2 _ hab
      simp only
      rcases lt_or_gt_of_ne ha with ha' | ha' <;> rcases lt_or_gt_of_ne hb with hb' | hb'
      · exact absurd (iff_of_true hb' ha') hne
      · exact Or.inl ⟨ha', hb'⟩
      · exact Or.inr ⟨hb', ha'⟩
      · exact absurd (iff_of_false (by linarith) (by linarith)) hne
    intro v hv
    rcases List.mem_cons.1 hv with rfl | hv
    · exact Iff.rfl
    · exact (ih v hv).trans hside

/-- a polyline with a vertex below and a vertex above a level that avoids its vertices has an edge
that straddles the level -/
theorem exists_straddle (y : Rat) (r : List Pt) (hy : ∀ v ∈ r, v.y ≠ y)
    (hlo : ∃ v ∈ r, v.y < y) (hhi : ∃ v ∈ r, y < v.y) : ∃ e ∈ segs r, sgnE y e ≠ 0 := by
  by_contra hno
  have hno' : ∀ e ∈ segs r, sgnE y e = 0 := by
    intro e he
    by_contra h
    exact hno ⟨e, he, h⟩
  cases r with
  | nil => obtain ⟨v, hv, _⟩ := hlo; simp at hv
  | cons a t =>
    have hs := same_side_of_no_straddle y t a hy hno'
    obtain ⟨v, hv, hvl⟩ := hlo
    obtain ⟨w, hw, hwh⟩ := hhi
    have h1 := (hs v hv).1 hvl
    have h2 := (hs w hw).2 h1
    linarith

/-- … and, if closed, at least two crossings -/
theorem two_crossings (y : Rat) (r : List Pt) (hc : r.head? = r.getLast?) (hy : ∀ v ∈ r, v.y ≠ y)
    (hlo : ∃ v ∈ r, v.y < y) (hhi : ∃ v ∈ r, y < v.y) :
    2 ≤ ((segs r).flatMap (crossXs y)).length := by
  obtain ⟨e, he, hs⟩ := exists_straddle y r hy hlo hhi
  have hm : xAt y e ∈ (segs r).flatMap (crossXs y) := by
    rw [List.mem_flatMap]; exact ⟨e, he, by simp [crossXs, hs]⟩
  have hpos : 0 < ((segs r).flatMap (crossXs y)).length := List.length_pos_of_mem hm
  have := crossings_even y r hc hy
  omega

end Geo.Proofs.C12
