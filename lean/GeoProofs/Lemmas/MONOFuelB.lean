/-
  MONO (C10, builder of the monotone pieces): `handle_event` never increases the measure `mu`, and every event
  popped decreases it.
-/
import GeoProofs.Lemmas.MONOFuel

namespace Geo.Proofs.MONO
open Geo Geo.Mono Geo.MonoBuild Geo.Proofs.C10

/-- both invariants of the sweep state, for coordinates in `V` -/
structure Good (V : List Pt) (st : St) : Prop where
  s : SInv st
  v : InvV (· ∈ V) st

theorem Good.events {V : List Pt} {st : St} (g : Good V st) {evs : Heap} (hs : SInv { st with events := evs })
    (hv : ∀ e ∈ evs, e.pt ∈ V) : Good V { st with events := evs } :=
  ⟨hs, ⟨g.v.segs, hv, g.v.chains, g.v.outs⟩⟩

theorem heapPush_length (d : Heap) (e : Ev) : (heapPush d e).length = d.length + 1 := by
  have := (heapPush_perm d e).length_eq; simpa using this

theorem heapExtend2_length (d : Heap) (a b : Ev) : (heapExtend2 d a b).length = d.length + 2 := by
  have := (heapExtend2_perm d a b).length_eq; simpa using this

theorem heapPop_length {d d' : Heap} {e : Ev} (h : heapPop d = some (e, d')) : d'.length + 1 = d.length := by
  have := (heapPop_perm h).length_eq; simp at this; omega

theorem applySplit_mu {V : List Pt} {st st' : St} {act seg : Nat} {la lb : LoP} (g : Good V st)
    (hla : st.lineOf act = some la) (hlb : st.lineOf seg = some lb)
    (h : st.applySplit act seg (checkInterior la lb) = some st') : mu V st' ≤ mu V st := by
  have vA := lineOf_V g.v hla
  have vB := lineOf_V g.v hlb
  obtain ⟨sa, hsa, hsal⟩ := lineOf_seg hla
  obtain ⟨sb, hsb, hsbl⟩ := lineOf_seg hlb
  obtain ⟨a1, a2, ea, _⟩ : LineOk la := by rw [← hsal]; exact g.s.lines sa (mem_of_getElem? hsa)
  obtain ⟨b1, b2, eb, _⟩ : LineOk lb := by rw [← hsbl]; exact g.s.lines sb (mem_of_getElem? hsb)
  unfold St.applySplit at h
  split at h
  · cases h; exact Nat.le_refl _
  · rename_i pt hck
    obtain ⟨c1, c2, _⟩ := checkInterior_spec_a hck
    have hp : pt ∈ V := checkInterior_a vA vB hck
    split at h
    · cases h
    · rename_i st1 nw h1
      rw [ea] at hla c1 c2
      obtain ⟨p1, p2⟩ := splitAt_phi (V := V) h1 hla c1 c2 hp
      split at h
      · cases h
        unfold mu at *
        simp only [heapExtend2_length, heapPush_length]
        rw [p2]
        show st.events.length + 1 + 2 + 3 * phi V st1 ≤ _
        omega
      · cases h
  · rename_i pt hck
    obtain ⟨c1, c2⟩ := checkInterior_spec_b hck
    have hp : pt ∈ V := checkInterior_b vA vB hck
    split at h
    · cases h
    · rename_i st1 nw h1
      rw [eb] at hlb c1 c2
      obtain ⟨p1, p2⟩ := splitAt_phi (V := V) h1 hlb c1 c2 hp
      split at h
      · cases h
        unfold mu at *
        simp only [heapExtend2_length, heapPush_length]
        rw [p2]
        show st.events.length + 1 + 2 + 3 * phi V st1 ≤ _
        omega
      · cases h

theorem onEvent_mu {V : List Pt} {st st' : St} {ev : Ev} (h : st.onEvent ev = some st') : mu V st' = mu V st := by
  obtain ⟨a, b, _⟩ := onEvent_same h
  exact mu_same V a b

theorem mu_active (V : List Pt) (st : St) (a : List Nat) : mu V { st with active := a } = mu V st := rfl

/-- what is known about the event being handled -/
structure Cur (st : St) (ev : Ev) : Prop where
  ok : EvOk st ev
  lo : Lo ev.pt st

theorem handle_mu (V : List Pt) : ∀ (fuel : Nat),
    (∀ (st st' : St) (ev : Ev), Good V st → Cur st ev → handleEvent fuel st ev = some st' → mu V st' ≤ mu V st) ∧
    (∀ (st st' : St) (ev : Ev) (b : Bool) (idx idx' : Nat), Good V st → Cur st ev → ev.ty = .lineLeft →
        neighbour fuel st ev b idx = some (st', idx') → mu V st' ≤ mu V st) ∧
    (∀ (st st' : St) (ev : Ev) (b : Bool) (idx idx' : Nat), Good V st → Cur st ev →
        drain fuel st ev b idx = some (st', idx') → mu V st' ≤ mu V st)
  | 0 => by
    refine ⟨?_, ?_, ?_⟩ <;> intros <;> rename_i h <;> simp [handleEvent, neighbour, drain] at h
  | fuel + 1 => by
    obtain ⟨ihH, ihN, ihD⟩ := handle_mu V fuel
    refine ⟨?_, ?_, ?_⟩
    · intro st st' ev g c h
      unfold handleEvent at h
      split at h
      · cases h
      · split at h
        · cases h; exact Nat.le_refl _
        · split at h
          · rename_i hty
            split at h
            · cases h
            · split at h
              · cases h
              · rename_i st1 idx1 hn1
                have m1 := ihN _ _ _ _ _ _ g c hty hn1
                obtain ⟨i1, x1, l1⟩ := (handle_sinv fuel).2.1 _ _ _ _ _ _ g.s c.ok hty c.lo hn1
                have v1 := (handle_inv fuel).2.1 _ _ _ _ _ _ g.v hn1
                split at h
                · cases h
                · rename_i st2 idx2 hn2
                  have m2 := ihN _ _ _ _ _ _ ⟨i1, v1⟩ ⟨c.ok.ext x1, l1⟩ hty hn2
                  split at h
                  · cases h
                  · rw [onEvent_mu h, mu_active]; omega
          · split at h
            · cases h
            · rw [onEvent_mu h, mu_active]
          · rw [onEvent_mu h]
    · intro st st' ev b idx idx' g c hty h
      unfold neighbour at h
      simp only at h
      split at h
      · cases h; exact Nat.le_refl _
      · split at h
        · cases h
        · split at h
          · rename_i la lb hla hlb
            obtain ⟨s, hs, hc⟩ := c.ok
            obtain ⟨sb, hsb, hsbl⟩ := lineOf_seg hlb
            rw [hs] at hsb; cases hsb
            have hpt : lb.left = ev.pt := by
              rcases hc with ⟨_, e⟩ | ⟨e, _⟩
              · rw [← hsbl]; exact e.symm
              · rw [hty] at e; cases e
            split at h
            · cases h
            · rename_i st1 hs1
              have m1 := applySplit_mu g hla hlb hs1
              obtain ⟨i1, x1, l1⟩ := applySplit_sinv g.s hla hlb (by rw [hpt]; exact c.lo) hs1
              rw [hpt] at l1
              have v1 : InvV (· ∈ V) st1 := applySplit_inv g.v (by
                intro p hp
                rcases hp with hp | hp
                · exact checkInterior_a (lineOf_V g.v hla) (lineOf_V g.v hlb) hp
                · exact checkInterior_b (lineOf_V g.v hla) (lineOf_V g.v hlb) hp) hs1
              have m2 := ihD _ _ _ _ _ _ ⟨i1, v1⟩ ⟨EvOk.ext ⟨s, hs, hc⟩ x1, l1⟩ h
              omega
          · cases h
    · intro st st' ev b idx idx' g c h
      unfold drain at h
      split at h
      · cases h
      · rename_i top htop
        split at h
        · rename_i hlt
          split at h
          · cases h
          · rename_i e evs hpop
            obtain ⟨i0, ok0, lo0, hd0⟩ := popped_sinv g.s hpop
            rw [htop] at hd0; cases hd0
            have hle : lexLt ev.pt top.pt = false := pt_le_of_ev_le (le_of_lt ((ev_lt_iff _ _).2 hlt))
            have hge : lexLt top.pt ev.pt = false := c.lo top (List.mem_of_mem_head? htop)
            have hpt : top.pt = ev.pt := lex_antisymm hge hle
            have g0 : Good V { st with events := evs } :=
              g.events i0 (heapPop_forall (P := fun e => e.pt ∈ V) g.v.evs hpop).2
            have hm0 : mu V { st with events := evs } + 1 = mu V st := by
              unfold mu
              have := heapPop_length hpop
              show evs.length + 3 * phi V st + 1 = _
              omega
            split at h
            · cases h
            · rename_i st1 hh
              have m1 := ihH _ _ _ g0 ⟨ok0.congr rfl, lo0⟩ hh
              obtain ⟨i1, x1, l1⟩ := (handle_sinv fuel).1 _ _ _ i0 (ok0.congr rfl) lo0 hh
              have v1 := (handle_inv fuel).1 _ _ _ g0.v hh
              rw [hpt] at l1
              have x1' : Ext st st1 := fun i s hs => x1 i s hs
              split at h
              · have := ihD _ _ _ _ _ _ ⟨i1, v1⟩ ⟨c.ok.ext x1', l1⟩ h
                omega
              · split at h
                · cases h
                · have := ihD _ _ _ _ _ _ ⟨i1, v1⟩ ⟨c.ok.ext x1', l1⟩ h
                  omega
        · cases h; exact Nat.le_refl _

end Geo.Proofs.MONO
