/-
  MONO (C10, builder of the monotone pieces): the coordinate-provenance invariant, part B (`Builder::process_next_pt`,
  `build`, `from_polygons_iter`): every operation of the builder keeps `InvV`, and every piece it emits is closed.
-/
import GeoProofs.Lemmas.MONOInvA

namespace Geo.Proofs.MONO
open Geo Geo.Mono Geo.MonoBuild

variable {V : Pt → Prop}

/-- split a hypothesis `match … = some _` and discard the branches that returned `none` -/
macro "osplit" h:ident : tactic => `(tactic| (split at $h:ident <;> try (cases $h:ident; done)))

theorem setInfo_inv {st st' : St} {i : Nat} {f : Info → Info} (hi : InvV V st)
    (h : st.setInfo i f = some st') : InvV V st' := by
  unfold St.setInfo at h
  osplit h
  rename_i s hs
  cases h
  refine inv_of_same hi ?_ rfl rfl rfl
  intro x hx
  rcases List.mem_or_eq_of_mem_set hx with hx | hx
  · exact ⟨x, hx, rfl⟩
  · exact ⟨s, mem_of_getElem? hs, by rw [hx]⟩

theorem setInfo_outputs {st st' : St} {i : Nat} {f : Info → Info}
    (h : st.setInfo i f = some st') : st'.outputs = st.outputs ∧ st'.chains = st.chains := by
  unfold St.setInfo at h
  osplit h
  cases h
  exact ⟨rfl, rfl⟩

theorem takeChain_inv {st st' : St} {i : Nat} {c : List Pt} (hi : InvV V st)
    (h : st.takeChain i = some (c, st')) : ChainOk V c ∧ InvV V st' := by
  unfold St.takeChain at h
  osplit h
  rename_i c0 hc
  cases h
  refine ⟨hi.chains _ (mem_of_getElem? hc) c rfl, hi.segs, hi.evs, ?_, hi.outs⟩
  refine forall_mem_set hi.chains ?_
  intro l hl; cases hl

theorem forall_append_singleton {c : List Pt} {pt : Pt} (hc : ChainOk V c) (hp : V pt) : ChainOk V (c ++ [pt]) := by
  refine ⟨?_, by have := hc.2; simp only [List.length_append, List.length_cons, List.length_nil]; omega⟩
  intro p hp'
  simp only [List.mem_append, List.mem_singleton] at hp'
  rcases hp' with h1 | h1
  · exact hc.1 p h1
  · rw [h1]; exact hp

theorem pushChain_inv {st st' : St} {i : Nat} {pt : Pt} (hi : InvV V st) (hp : V pt)
    (h : st.pushChain i pt = some st') : InvV V st' := by
  unfold St.pushChain at h
  refine modifyChain_inv hi ?_ h
  intro c c' hc hf
  cases hf
  exact forall_append_singleton hc hp

theorem forall_pair {a b : Pt} (ha : V a) (hb : V b) : ChainOk V [a, b] := by
  refine ⟨?_, by simp⟩
  intro p hp'
  simp only [List.mem_cons, List.not_mem_nil, or_false] at hp'
  rcases hp' with e | e <;> rw [e] <;> assumption

theorem finishWith_ok {a b : List Pt} {m : MonoPoly} (ha : ChainOk V a) (hb : ChainOk V b)
    (h : finishWith a b = some m) : PieceOk V m := by
  unfold finishWith at h
  osplit h
  rename_i x y z w h1 h2 h3 h4
  osplit h
  rename_i hc
  cases h
  simp only [Bool.and_eq_true, beq_iff_eq] at hc
  refine ⟨hb, ha, ?_, ?_, ?_, ?_⟩
  · intro e; simp only at e; rw [e] at h2; cases h2
  · intro e; simp only at e; rw [e] at h1; cases h1
  · simp only; rw [h1, h2, hc.1]
  · simp only; rw [h3, h4, hc.2]

theorem add_output {st : St} {ms : List MonoPoly} (hi : InvV V st) (hm : ∀ m ∈ ms, PieceOk V m) :
    InvV V { st with outputs := st.outputs ++ ms } := by
  refine ⟨hi.segs, hi.evs, hi.chains, ?_⟩
  intro m h
  rcases List.mem_append.1 h with h | h
  · exact hi.outs m h
  · exact hm m h

theorem rightOf_V {st : St} (hi : InvV V st) {i : Nat} {r : Pt} (h : st.rightOf i = some r) : V r := by
  unfold St.rightOf at h
  cases hl : st.lineOf i with
  | none => rw [hl] at h; cases h
  | some l =>
    rw [hl] at h
    simp only [Option.map_some, Option.some.injEq] at h
    rw [← h]
    exact (lineOf_V hi hl).2

theorem swapAtTop_V {c a b d : List Pt} {pt : Pt} (hc : ChainOk V c) (hp : V pt)
    (h : swapAtTop c pt = some (a, b, d)) : ChainOk V a ∧ ChainOk V b ∧ ChainOk V d := by
  unfold swapAtTop at h
  osplit h
  rename_i top htop
  simp only at h
  osplit h
  rename_i prev hprev
  have vtop : V top := hc.1 top (List.mem_of_getLast? htop)
  have vdl : ∀ p ∈ c.dropLast, V p := fun p hp => hc.1 p (List.dropLast_subset _ hp)
  have vprev : V prev := vdl prev (List.mem_of_getLast? hprev)
  have v1 : ChainOk V [prev, top] := forall_pair vprev vtop
  have v2 : ChainOk V [prev, pt] := forall_pair vprev hp
  have v3 : ChainOk V (c.dropLast ++ [pt]) := by
    refine ⟨?_, ?_⟩
    · intro p hp'
      simp only [List.mem_append, List.mem_singleton] at hp'
      rcases hp' with h1 | h1
      · exact vdl p h1
      · rw [h1]; exact hp
    · have := hc.2
      simp only [List.length_append, List.length_dropLast, List.length_cons, List.length_nil]
      omega
  split at h
  · cases h; exact ⟨v1, v3, v2⟩
  · cases h; exact ⟨v1, v2, v3⟩

/-! ### Step 3 -/

theorem reduceIncoming_inv (pt : Pt) (hp : V pt) : ∀ (l : List Nat) (st st' : St), InvV V st →
    reduceIncoming pt l st = some st' → InvV V st'
  | [], st, st', hi, h => by
    simp only [reduceIncoming] at h; cases h; exact hi
  | [_], st, st', hi, h => by
    simp only [reduceIncoming] at h; cases h
  | first :: second :: rest, st, st', hi, h => by
    simp only [reduceIncoming] at h
    osplit h
    rename_i fi si hfi hsi
    osplit h
    rename_i fc st1 h1
    obtain ⟨vfc, i1⟩ := takeChain_inv hi h1
    osplit h
    rename_i sc st2 h2
    obtain ⟨vsc, i2⟩ := takeChain_inv i1 h2
    osplit h
    · rename_i h0 h1' hh
      osplit h
      rename_i st3 h3
      have i3 := setInfo_inv i2 h3
      osplit h
      rename_i fhc st4 h4
      obtain ⟨vfhc, i4⟩ := takeChain_inv i3 h4
      osplit h
      rename_i shc st5 h5
      obtain ⟨vshc, i5⟩ := takeChain_inv i4 h5
      osplit h
      rename_i m1 m2 hm1 hm2
      have o1 := finishWith_ok vfc (forall_append_singleton vfhc hp) hm1
      have o2 := finishWith_ok (forall_append_singleton vshc hp) vsc hm2
      refine reduceIncoming_inv pt hp rest _ _ (add_output i5 ?_) h
      intro m hm
      simp only [List.mem_cons, List.not_mem_nil, or_false] at hm
      rcases hm with e | e <;> rw [e] <;> assumption
    · osplit h
      rename_i m hm
      have o1 := finishWith_ok vfc vsc hm
      refine reduceIncoming_inv pt hp rest _ _ (add_output i2 ?_) h
      intro m' hm'
      simp only [List.mem_cons, List.not_mem_nil, or_false] at hm'
      rw [hm']; exact o1

theorem lastIdx_inv {pt : Pt} (hp : V pt) {seg : Nat} {st st' : St} {k : Nat} (hi : InvV V st)
    (h : lastIdx pt seg st = some (st', k)) : InvV V st' := by
  unfold lastIdx at h
  osplit h
  rename_i inf hinf
  osplit h
  · rename_i h0 h1 hh
    osplit h
    rename_i fhc st1 e1
    obtain ⟨vfhc, i1⟩ := takeChain_inv hi e1
    osplit h
    rename_i fc st2 e2
    obtain ⟨vfc, i2⟩ := takeChain_inv i1 e2
    osplit h
    rename_i st3 e3
    have i3 := pushChain_inv i2 hp e3
    osplit h
    rename_i m hm
    cases h
    refine add_output i3 ?_
    intro m' hm'
    simp only [List.mem_cons, List.not_mem_nil, or_false] at hm'
    rw [hm']; exact finishWith_ok vfc (forall_append_singleton vfhc hp) hm
  · cases h; exact hi

theorem inChains_inv {pt : Pt} (hp : V pt) {bot : Option Nat} {bh : Option (Nat × Nat)} {incoming : List Nat}
    {st st' : St} {ic : Option Nat × Option Nat} (hi : InvV V st)
    (h : inChains pt bot bh incoming st = some (st', ic)) : InvV V st' := by
  unfold inChains at h
  osplit h
  · rename_i h0 h1
    osplit h
    rename_i b
    osplit h
    rename_i st1 e1
    have i1 := setInfo_inv hi e1
    osplit h
    · rename_i in0 restIn
      osplit h
      rename_i i0 hi0
      osplit h
      rename_i sc st2 e2
      obtain ⟨vsc, i2⟩ := takeChain_inv i1 e2
      osplit h
      rename_i shc st3 e3
      obtain ⟨vshc, i3⟩ := takeChain_inv i2 e3
      osplit h
      rename_i st4 e4
      have i4 := pushChain_inv i3 hp e4
      osplit h
      rename_i m hm
      have i5 : InvV V { st4 with outputs := st4.outputs ++ [m] } := by
        refine add_output i4 ?_
        intro m' hm'
        simp only [List.mem_cons, List.not_mem_nil, or_false] at hm'
        rw [hm']; exact finishWith_ok (forall_append_singleton vshc hp) vsc hm
      simp only at h
      osplit h
      · cases h; exact i5
      · osplit h
        rename_i st6 li e6
        cases h
        exact lastIdx_inv hp i5 e6
    · osplit h
      rename_i st2 e2
      have i2 := pushChain_inv i1 hp e2
      osplit h
      rename_i st3 e3
      cases h
      exact pushChain_inv i2 hp e3
  · osplit h
    · cases h; exact hi
    · rename_i lastIn hl
      osplit h
      rename_i st1 li e1
      have i1 := lastIdx_inv hp hi e1
      split at h
      · cases h; exact i1
      · osplit h
        osplit h
        cases h; exact i1

theorem startOutgoing_inv (pt : Pt) (hp : V pt) : ∀ (l : List Nat) (st st' : St), InvV V st →
    startOutgoing pt l st = some st' → InvV V st'
  | [], st, st', hi, h => by
    simp only [startOutgoing] at h; cases h; exact hi
  | [_], st, st', hi, h => by
    simp only [startOutgoing] at h; cases h
  | first :: second :: rest, st, st', hi, h => by
    simp only [startOutgoing] at h
    osplit h
    rename_i bot top hb ht
    have vb := rightOf_V hi hb
    have vt := rightOf_V hi ht
    have i0 : InvV V { st with chains := st.chains ++ [some [pt, bot], some [pt, top]] } := by
      refine ⟨hi.segs, hi.evs, ?_, hi.outs⟩
      intro c hc l hl
      rcases List.mem_append.1 hc with hc | hc
      · exact hi.chains c hc l hl
      · simp only [List.mem_cons, List.not_mem_nil, or_false] at hc
        rcases hc with e | e
        · rw [e] at hl; cases hl; exact forall_pair hp vb
        · rw [e] at hl; cases hl; exact forall_pair hp vt
    osplit h
    rename_i st1 e1
    have i1 := setInfo_inv i0 e1
    osplit h
    rename_i st2 e2
    have i2 := setInfo_inv i1 e2
    exact startOutgoing_inv pt hp rest _ _ i2 h

theorem setHelper_inv {bot : Option Nat} {idx : Nat} {st st' : St} (hi : InvV V st)
    (h : setHelper bot idx st = some st') : InvV V st' := by
  unfold setHelper at h
  split at h
  · exact setInfo_inv hi h
  · cases h; exact hi

theorem tieUp_inv {pt : Pt} (hp : V pt) {bot : Option Nat} {br : Bool} {outgoing : List Nat} {st st' : St}
    {ic : Option Nat × Option Nat} (hi : InvV V st)
    (h : tieUp pt bot br outgoing st ic = some st') : InvV V st' := by
  unfold tieUp at h
  split at h
  · -- (none, none)
    osplit h
    · cases h; exact hi
    · rename_i first second
      osplit h
      rename_i b
      osplit h
      rename_i bi r1 r2 hbi hr1 hr2
      have v1 := rightOf_V hi hr1
      have v2 := rightOf_V hi hr2
      simp only at h
      osplit h
      rename_i c hc
      osplit h
      rename_i self' n0 n1 hsw
      have vc := hi.chains _ (mem_of_getElem? hc) c rfl
      obtain ⟨w1, w2, w3⟩ := swapAtTop_V vc hp hsw
      have i0 : InvV V { st with chains := st.chains.set (bi.helperChain.getD bi.chainIdx) (some self') ++
          [some (n0 ++ [r1]), some (n1 ++ [r2])] } := by
        refine ⟨hi.segs, hi.evs, ?_, hi.outs⟩
        intro c' hc' l hl
        rcases List.mem_append.1 hc' with hc' | hc'
        · rcases List.mem_or_eq_of_mem_set hc' with g | g
          · exact hi.chains c' g l hl
          · rw [g] at hl; cases hl; exact w1
        · simp only [List.mem_cons, List.not_mem_nil, or_false] at hc'
          rcases hc' with e | e
          · rw [e] at hl; cases hl; exact forall_append_singleton w2 v1
          · rw [e] at hl; cases hl; exact forall_append_singleton w3 v2
      osplit h
      rename_i st1 e1
      have i1 := setInfo_inv i0 e1
      osplit h
      rename_i st2 e2
      have i2 := setInfo_inv i1 e2
      exact setInfo_inv i2 h
  · -- (some idx, none)
    rename_i idx
    osplit h
    rename_i first
    osplit h
    rename_i r hr
    have vr := rightOf_V hi hr
    osplit h
    rename_i st1 e1
    have i1 := pushChain_inv hi vr e1
    osplit h
    rename_i st2 e2
    have i2 := setInfo_inv i1 e2
    exact setHelper_inv i2 h
  · -- (some idx, some jdx)
    rename_i idx jdx
    osplit h
    · osplit h
      rename_i b
      osplit h
      rename_i st1 e1
      have i1 := setInfo_inv hi e1
      exact setHelper_inv i1 h
    · rename_i first second
      osplit h
      rename_i r1 r2 hr1 hr2
      have v1 := rightOf_V hi hr1
      have v2 := rightOf_V hi hr2
      osplit h
      rename_i st1 e1
      have i1 := pushChain_inv hi v1 e1
      osplit h
      rename_i st2 e2
      have i2 := pushChain_inv i1 v2 e2
      osplit h
      rename_i st3 e3
      have i3 := setInfo_inv i2 e3
      osplit h
      rename_i st4 e4
      have i4 := setInfo_inv i3 e4
      exact setHelper_inv i4 h
  · cases h

theorem processNextPt_inv {fuel : Nat} {st st' : St} {b : Bool} (hi : InvV V st)
    (h : processNextPt fuel st = some (st', b)) : InvV V st' := by
  unfold processNextPt at h
  osplit h
  · rename_i st1 e1
    cases h
    exact (nextPoint_inv (st := { st with incoming := [], outgoing := [] }) ⟨hi.segs, hi.evs, hi.chains, hi.outs⟩ e1).1
  · rename_i st1 pt e1
    obtain ⟨i1, vp⟩ := nextPoint_inv (st := { st with incoming := [], outgoing := [] }) ⟨hi.segs, hi.evs, hi.chains, hi.outs⟩ e1
    have hp : V pt := vp pt rfl
    osplit h
    rename_i incoming outgoing hin hout
    simp only at h
    osplit h
    rename_i st2 e2
    have i2 : InvV V st2 := by
      split at e2
      · cases e2; exact i1
      · exact reduceIncoming_inv pt hp _ _ _ i1 e2
    osplit h
    rename_i st3 ic e3
    have i3 := inChains_inv hp i2 e3
    osplit h
    rename_i st4 e4
    have i4 : InvV V st4 := by
      split at e4
      · cases e4; exact i3
      · exact startOutgoing_inv pt hp _ _ _ i3 e4
    osplit h
    rename_i st5 e5
    cases h
    exact tieUp_inv hp i4 e5

theorem buildLoop_inv (hf : Nat) : ∀ (fuel : Nat) (st st' : St), InvV V st → buildLoop hf fuel st = some st' → InvV V st'
  | 0, st, st', _, h => by simp [buildLoop] at h
  | fuel + 1, st, st', hi, h => by
    unfold buildLoop at h
    osplit h
    · rename_i st1 e1
      cases h
      exact processNextPt_inv hi e1
    · rename_i st1 e1
      exact buildLoop_inv hf fuel _ _ (processNextPt_inv hi e1) h

end Geo.Proofs.MONO
