/-
  C02Y, part 1: the step that was missing for the areal × areal pairs of `intersects`.

      two polygons (`PolyOk`: OGC-valid, or a closed ring without holes such as `to_polygon` of a Rect / Triangle)
      with a common point have a ring point of the second in the first or a shell point of the first in the second

  (`boundaryMeets_of_common`; this is `hgap` of `intersectsM_polygon_polygon_partial`). It is the contrapositive
  of `Geo.Proofs.C07.disjoint_of_ext_disjoint` (C07X: if neither exterior ring has a point in the other polygon, the
  exterior rings are disjoint closed curves, outside each other or one inside a hole of the other polygon, and the
  closed regions are disjoint — `nested_rings`, `exterior_rings`). Hence

      polyPoly p q = true  ⇔  the polygons have a common point                      (`polyPoly_common`)

  for polygons of the validity domain (the empty polygon included) and `to_polygon` of a Rect / Triangle.
-/
import GeoProofs.Lemmas.C02XAreal
import GeoProofs.Lemmas.C07XPoly

set_option linter.unusedSimpArgs false
set_option linter.unusedVariables false

namespace Geo.Proofs.C02Y
open Geo Geo.Proofs.Kernel Geo.Proofs.Spec Geo.Proofs.C02X Geo.Proofs.C07

/-- **connectedness step**: two polygons with a common point — a ring point of `q` lies in `p`, or a shell point
of `p` lies in `q` -/
theorem boundaryMeets_of_common {p q : Poly} (hp : PolyOk p) (hq : PolyOk q)
    (h : Common (.polygon p) (.polygon q)) : BoundaryMeets p q := by
  by_contra hn
  obtain ⟨x, hx1, hx2⟩ := h
  have H1 : ∀ z, LsPts q.ext z → ¬ PolyPts p z := by
    rintro z ⟨s, hs, hz⟩ hpz
    exact hn (Or.inl ⟨q.ext, by simp [Poly.rings], s, hs, z, hz, hpz⟩)
  have H3 : ∀ z, LsPts p.ext z → ¬ PolyPts q z := by
    rintro z ⟨s, hs, hz⟩ hqz
    exact hn (Or.inr ⟨s, hs, z, hz, hqz⟩)
  exact disjoint_of_ext_disjoint hp hq H1 H3 x hx1 hx2

/-- what `polyPoly_common` needs of an operand: the kernel facts of the dispatch, and either the polygon facts of
C07X or "no point at all" (the empty polygon) -/
structure ArealFacts (p : Poly) : Prop where
  pf : PieceFacts (.polygon p)
  ok : PolyOk p ∨ ∀ x, locate (.polygon p) x = .outside

theorem arealFacts_polygon (q : Poly) (hd : inDomain (.polygon q) = true) : ArealFacts q where
  pf := pieceFacts_polygon q hd
  ok := by
    rcases polygon_dom_cases hd with ⟨he, hi⟩ | hv
    · right
      obtain ⟨ext, ints⟩ := q
      simp only at he hi
      subst he; subst hi
      exact locate_empty_polygon
    · exact Or.inl (PolyOk_of_valid hv)

theorem arealFacts_rectPoly (mn mx : Pt) : ArealFacts (rectPoly mn mx) where
  pf := pieceFacts_rectPoly mn mx
  ok := Or.inl (dRectPoly_PolyOk mn mx)

theorem arealFacts_triPoly (a b c : Pt) : ArealFacts (triPoly a b c) where
  pf := pieceFacts_triPoly a b c
  ok := Or.inl (PolyOk_of_noholes rfl ⟨rfl, by simp [triPoly]⟩)

/-- **`Polygon: Intersects<Polygon>` ⇔ the closed polygons share a point** -/
theorem polyPoly_common (p q : Poly) (fp : ArealFacts p) (fq : ArealFacts q) :
    polyPoly p q = true ↔ Common (.polygon p) (.polygon q) := by
  refine ⟨polyPoly_sound p q fp.pf fq.pf, fun h => (polyPoly_iff p q fp.pf fq.pf).mpr ?_⟩
  rcases fp.ok with hp | hp
  · rcases fq.ok with hq | hq
    · exact boundaryMeets_of_common hp hq h
    · obtain ⟨x, _, hx⟩ := h
      exact absurd (hq x) hx
  · obtain ⟨x, hx, _⟩ := h
    exact absurd (hp x) hx

end Geo.Proofs.C02Y
