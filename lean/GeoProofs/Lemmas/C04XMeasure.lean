/-
  C04X, part 2: the area identities of the property at the level of the specification.

  * A *measure* is any finitely additive functional on regions (`Pt → Bool`) that ignores what
    happens outside a set `dom` of points (for the engine theorems: the points farther from the input
    boundaries than the snapping tolerance). `AdditiveOn dom μ` — the exact area restricted to `dom`
    is one, every weighted finite sample of `dom` (`sampleMeasure`) is one.
  * For every such `μ` and all regions `A`, `B`: `μ(A∪B) + μ(A∩B) = μ(A) + μ(B)`,
    `μ(A−B) = μ(A) − μ(A∩B)`, `μ(A xor B) = μ(A∪B) − μ(A∩B)`, and `μ(A op B)` is the
    `expectedArea op μ(A) μ(B) μ(A∩B)` the driver's oracle demands.
  * The driver's exact area functional: `|A| = Σ w·|T|` over the signed fan triangles of the oracle
    (`mpFan_area`: the fan the intersection area is computed from carries exactly the shoelace area).
  * Length conservation of a partition of a line (for `clip`).
-/
import GeoModel.BoolGlue
import GeoModel.BoolSpec
import GeoProofs.Lemmas.C05PConvex
import Mathlib.Tactic.Ring
import Mathlib.Tactic.Linarith

namespace Geo.Proofs.C04X
open Geo Geo.BoolGlue Geo.BoolSpec

/-- a region of the plane, as its indicator -/
abbrev Region := Pt → Bool

/-- the region `A op B` of the specification -/
def opRegion (op : OpType) (A B : Region) : Region := fun p => opCombine op (A p) (B p)

/-- **a measure**: a functional on regions that depends only on the part of a region inside `dom` and
is additive on regions that are disjoint inside `dom`. -/
structure AdditiveOn (dom : Pt → Prop) (μ : Region → Rat) : Prop where
  congr : ∀ f g : Region, (∀ p, dom p → f p = g p) → μ f = μ g
  add : ∀ f g : Region, (∀ p, dom p → (f p && g p) = false) → μ (fun p => f p || g p) = μ f + μ g

section
variable {dom : Pt → Prop} {μ : Region → Rat} (hμ : AdditiveOn dom μ)
include hμ

/-- `A = (A − B) ⊔ (A ∩ B)` -/
theorem measure_split (A B : Region) :
    μ A = μ (opRegion .difference A B) + μ (opRegion .intersection A B) := by
  rw [← hμ.add (opRegion .difference A B) (opRegion .intersection A B)]
  · apply hμ.congr
    intro p _
    simp only [opRegion, opCombine]
    cases A p <;> cases B p <;> rfl
  · intro p _
    simp only [opRegion, opCombine]
    cases A p <;> cases B p <;> rfl

/-- `A ∪ B = (A − B) ⊔ B` -/
theorem measure_union_split (A B : Region) :
    μ (opRegion .union A B) = μ (opRegion .difference A B) + μ B := by
  rw [← hμ.add (opRegion .difference A B) B]
  · apply hμ.congr
    intro p _
    simp only [opRegion, opCombine]
    cases A p <;> cases B p <;> rfl
  · intro p _
    simp only [opRegion, opCombine]
    cases A p <;> cases B p <;> rfl

/-- `A xor B = (A − B) ⊔ (B − A)` -/
theorem measure_xor_split (A B : Region) :
    μ (opRegion .xor A B) = μ (opRegion .difference A B) + μ (opRegion .difference B A) := by
  rw [← hμ.add (opRegion .difference A B) (opRegion .difference B A)]
  · apply hμ.congr
    intro p _
    simp only [opRegion, opCombine]
    cases A p <;> cases B p <;> rfl
  · intro p _
    simp only [opRegion, opCombine]
    cases A p <;> cases B p <;> rfl

theorem measure_inter_comm (A B : Region) :
    μ (opRegion .intersection A B) = μ (opRegion .intersection B A) := by
  apply hμ.congr
  intro p _
  simp only [opRegion, opCombine]
  cases A p <;> cases B p <;> rfl

/-- **area(A∪B) + area(A∩B) = area(A) + area(B)** for the region semantics, every measure -/
theorem measure_union_add_inter (A B : Region) :
    μ (opRegion .union A B) + μ (opRegion .intersection A B) = μ A + μ B := by
  have h1 := measure_split hμ A B
  have h2 := measure_union_split hμ A B
  linarith

/-- **area(A−B) = area(A) − area(A∩B)** -/
theorem measure_difference (A B : Region) :
    μ (opRegion .difference A B) = μ A - μ (opRegion .intersection A B) := by
  have h1 := measure_split hμ A B
  linarith

/-- **area(A xor B) = area(A∪B) − area(A∩B)** -/
theorem measure_xor (A B : Region) :
    μ (opRegion .xor A B) = μ (opRegion .union A B) - μ (opRegion .intersection A B) := by
  have h1 := measure_split hμ A B
  have h2 := measure_union_split hμ A B
  have h3 := measure_xor_split hμ A B
  have h4 := measure_split hμ B A
  have h5 := measure_inter_comm hμ A B
  linarith

/-- **the expected areas of the driver's oracle are forced by additivity**: for every measure the
area of `A op B` is `expectedArea op |A| |B| |A∩B|`. -/
theorem measure_eq_expectedArea (op : OpType) (A B : Region) :
    μ (opRegion op A B) = expectedArea op (μ A) (μ B) (μ (opRegion .intersection A B)) := by
  have h1 := measure_split hμ A B
  have h2 := measure_union_split hμ A B
  have h3 := measure_xor_split hμ A B
  have h4 := measure_split hμ B A
  have h5 := measure_inter_comm hμ A B
  cases op <;> simp only [expectedArea] <;> linarith

/-- a partition of a region inside `dom`: the measures of the parts add up to the measure of the whole
(`clip`: inside part + outside part = the line) -/
theorem measure_partition (T I O : Region) (hpart : ∀ p, dom p → (I p || O p) = T p)
    (hdisj : ∀ p, dom p → (I p && O p) = false) : μ I + μ O = μ T := by
  rw [← hμ.add I O hdisj]
  exact hμ.congr _ _ hpart

end

/-! ### the measures exist: weighted finite samples -/

/-- `Σ w · 1[p ∈ f]` over a finite weighted sample -/
def sampleMeasure (S : List (Pt × Rat)) (f : Region) : Rat :=
  sumR (S.map (fun s => if f s.1 then s.2 else 0))

theorem sampleMeasure_additive (dom : Pt → Prop) (S : List (Pt × Rat)) (hS : ∀ s ∈ S, dom s.1) :
    AdditiveOn dom (sampleMeasure S) where
  congr := by
    intro f g h
    unfold sampleMeasure
    congr 1
    apply List.map_congr_left
    intro s hs
    rw [h s.1 (hS s hs)]
  add := by
    intro f g h
    unfold sampleMeasure
    induction S with
    | nil => simp [sumR]
    | cons s t ih =>
      simp only [List.map_cons, sumR]
      rw [ih (fun s' hs' => hS s' (List.mem_cons_of_mem _ hs'))]
      have hd := h s.1 (hS s List.mem_cons_self)
      rcases Bool.eq_false_or_eq_true (f s.1) with hf | hf <;>
      rcases Bool.eq_false_or_eq_true (g s.1) with hg | hg <;>
      simp only [hf, hg, Bool.and_self, Bool.and_true, Bool.and_false, Bool.true_eq_false,
        Bool.or_self, Bool.or_true, Bool.or_false, if_true, if_false, Bool.false_eq_true] at hd ⊢ <;> ring

/-! ### the identities of the expected areas themselves -/

theorem expectedArea_union_add_inter (aA aB aI : Rat) :
    expectedArea .union aA aB aI + expectedArea .intersection aA aB aI = aA + aB := by
  simp only [expectedArea]; ring

theorem expectedArea_difference (aA aB aI : Rat) :
    expectedArea .difference aA aB aI = aA - expectedArea .intersection aA aB aI := rfl

theorem expectedArea_xor (aA aB aI : Rat) :
    expectedArea .xor aA aB aI = expectedArea .union aA aB aI - expectedArea .intersection aA aB aI := by
  simp only [expectedArea]; ring

/-! ### the driver's area functional: the signed fan carries the shoelace area -/

/-- area of a (counter-clockwise) fan triangle -/
def triArea (t : WTri) : Rat := cross t.a t.b t.c / 2

/-- `∫ Σ w·1[T]` -/
def fanArea (F : List WTri) : Rat := sumR (F.map (fun t => t.w * triArea t))

theorem sumR_append (l1 l2 : List Rat) : sumR (l1 ++ l2) = sumR l1 + sumR l2 := by
  induction l1 with
  | nil => simp [sumR]
  | cons a t ih => simp only [List.cons_append, sumR, ih]; ring

theorem fanArea_append (F G : List WTri) : fanArea (F ++ G) = fanArea F + fanArea G := by
  unfold fanArea
  rw [List.map_append, sumR_append]

theorem sumR_eq_sumRat (l : List Rat) : sumR l = sumRat l := by
  induction l with
  | nil => rfl
  | cons a t ih => simp only [sumR, sumRat, ih]

theorem edges_eq_segs' : ∀ r : List Pt, Geo.Proofs.C05L.edges r = segs r
  | [] => rfl
  | [_] => rfl
  | a :: b :: t => by
    rw [Geo.Proofs.C05L.edges_cons_cons, edges_eq_segs' (b :: t)]; rfl

theorem cross_swap23 (o a b : Pt) : cross o b a = - cross o a b := by
  unfold cross; ring

private theorem ringFan_area_aux (o : Pt) (sgn : Rat) (es : List (Pt × Pt)) :
    fanArea (es.filterMap (fun (e : Pt × Pt) =>
      let d := cross o e.1 e.2
      if d > 0 then some (⟨o, e.1, e.2, sgn⟩ : WTri) else if d < 0 then some ⟨o, e.2, e.1, -sgn⟩ else none))
    = sgn / 2 * sumRat (es.map (fun e => cross o e.1 e.2)) := by
  induction es with
  | nil => simp [fanArea, sumR, sumRat]
  | cons e t ih =>
    rw [List.filterMap_cons]
    simp only [List.map_cons, sumRat]
    by_cases h1 : cross o e.1 e.2 > 0
    · simp only [h1, if_true]
      rw [show ∀ (x : WTri) (l : List WTri), fanArea (x :: l) = x.w * triArea x + fanArea l from fun _ _ => rfl, ih]
      simp only [triArea]; ring
    · by_cases h2 : cross o e.1 e.2 < 0
      · simp only [h1, if_false, h2, if_true]
        rw [show ∀ (x : WTri) (l : List WTri), fanArea (x :: l) = x.w * triArea x + fanArea l from fun _ _ => rfl, ih]
        simp only [triArea, cross_swap23 o e.1 e.2]; ring
      · simp only [h1, if_false, h2]
        rw [ih]
        have : cross o e.1 e.2 = 0 := by
          have a1 := not_lt.1 h1
          have a2 := not_lt.1 h2
          exact le_antisymm a1 a2
        rw [this]; ring

/-- the fan of a closed ring carries `sgn ·` its signed area, from any apex -/
theorem ringFan_area (o : Pt) (sgn : Rat) (r : List Pt) (hc : r.head? = r.getLast?) :
    fanArea (ringFan o sgn r) = sgn * (shoelace2 r / 2) := by
  have h := ringFan_area_aux o sgn (segs r)
  rw [Geo.Proofs.C05L.shoelace2_eq_fan o r hc, edges_eq_segs']
  unfold ringFan
  rw [show (fun (x : Pt × Pt) => match x with
      | (a, b) =>
        let d := cross o a b
        if d > 0 then some (⟨o, a, b, sgn⟩ : WTri) else if d < 0 then some ⟨o, b, a, -sgn⟩ else none) =
      (fun (e : Pt × Pt) =>
        let d := cross o e.1 e.2
        if d > 0 then some (⟨o, e.1, e.2, sgn⟩ : WTri) else if d < 0 then some ⟨o, e.2, e.1, -sgn⟩ else none) from rfl]
  rw [h]; ring

theorem dirSign_mul (r : List Pt) : dirSign r * shoelace2 r = rabs (shoelace2 r) := by
  unfold dirSign rabs
  split <;> ring

theorem sumR_map_neg_fan (o : Pt) (hs : List (List Pt)) (hc : ∀ h ∈ hs, h.head? = h.getLast?) :
    fanArea (hs.flatMap (fun h => ringFan o (-(dirSign h)) h)) =
      - (sumR (hs.map (fun h => rabs (shoelace2 h)))) / 2 := by
  induction hs with
  | nil => simp [fanArea, sumR]
  | cons h t ih =>
    rw [List.flatMap_cons, fanArea_append, ih (fun h' hh' => hc h' (List.mem_cons_of_mem _ hh')),
      ringFan_area o _ h (hc h List.mem_cons_self)]
    simp only [List.map_cons, sumR]
    have := dirSign_mul h
    linarith

/-- **the oracle's fan of a polygon carries exactly its area** (`|shell| − Σ|hole|`), from any apex -/
theorem polyFan_area (o : Pt) (p : Poly) (hc : ∀ r ∈ p.rings, r.head? = r.getLast?) :
    fanArea (polyFan o p) = polyArea p := by
  unfold polyFan polyArea
  rw [fanArea_append, ringFan_area o _ p.ext (hc _ (by simp [Poly.rings])),
    sumR_map_neg_fan o p.ints (fun h hh => hc h (by simp [Poly.rings, hh]))]
  have := dirSign_mul p.ext
  linarith

theorem mpFan_area (o : Pt) (ps : List Poly) (hc : ∀ p ∈ ps, ∀ r ∈ p.rings, r.head? = r.getLast?) :
    fanArea (mpFan o ps) = mpArea ps := by
  unfold mpFan mpArea
  induction ps with
  | nil => simp [fanArea, sumR]
  | cons p t ih =>
    rw [List.flatMap_cons, fanArea_append, ih (fun p' hp' => hc p' (List.mem_cons_of_mem _ hp')),
      polyFan_area o p (hc p List.mem_cons_self)]
    simp only [List.map_cons, sumR]

end Geo.Proofs.C04X
