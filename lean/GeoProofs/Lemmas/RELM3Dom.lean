/-
  RELM3 — `Point × B` on the validity domain, rows Interior / Boundary, for every `B` that is not a
  GeometryCollection: LineString (RELM3LineString) and MultiLineString (RELM3Multi) join the types of RELM2Dom.
  For a MultiLineString `coordinate_position` differs from the specification at a common end point of several
  members (open finding K9) — but `relate` never asks `coordinate_position` there: such a point is a node of the
  graph and carries the mod-2 label.  So the rows are the specification's at EVERY point, K9 points included.
-/
import GeoProofs.Lemmas.RELM3Multi

namespace Geo.Proofs.RELM3
open Geo Geo.GG Geo.RI Geo.Proofs.Spec Geo.Proofs.RELM Geo.Proofs.RELM2 Geo.Proofs.Kernel

/-- `point_rows_eq_spec_of_nodesLocate` with `coordinate_position = locate` asked only where `relate` calls
`coordinate_position`: at a point that is not a node of `B`'s graph -/
theorem point_rows_eq_spec_of_nodesLocate_off (ar : Arith) (p : Pt) (b : Geom) {m : IM}
    (h : relateGraph ar (.point p) b = some m) (hN : NodesLocate ar b) (hE : EisAreNodes ar b)
    (hloc : p ∉ (freshGraph ar 1 b).nodes.map (·.coord) → coordPos b p = locate b p) (X Y : Pos) (hX : X ≠ .outside) :
    m.get X Y = (relateSpec (.point p) b).get X Y := by
  have hs : (relateSpec (.point p) b).get X Y = if X = .inside ∧ locate b p = Y then .zero else .empty :=
    Spec.relate_point_left p (parts b) X Y hX
  rw [hs]
  by_cases hex : p ∈ (freshGraph ar 1 b).nodes.map (·.coord)
  · exact point_rows_node ar p b (locate b p) h (fun g hg hc => by rw [hN g hg, hc]) hex X Y hX
  · rw [point_rows_isolated ar p b h (fun e he hc => by
        obtain ⟨r, hr, hrc⟩ := List.mem_map.1 hc
        exact hex (hrc ▸ hE e he r hr)) hex X Y hX, hloc hex]

/-- every type but GeometryCollection -/
def notCollection : Geom → Bool
  | .collection _ => false
  | _ => true

theorem nodesLocate_dom3 (b : Geom) (hd : inDomain b = true) (ht : notCollection b = true) :
    NodesLocate Arith.exact b ∧ EisAreNodes Arith.exact b := by
  cases b with
  | lineString cs => exact nodesLocate_lineString_dom _ cs hd
  | multiLineString ls => exact ⟨nodesLocate_linear (linearAs_mls hd), eisAreNodes_linear _ (linearAs_mls hd)⟩
  | collection _ => cases ht
  | point q => exact nodesLocate_dom _ hd rfl
  | multiPoint qs => exact nodesLocate_dom _ hd rfl
  | line a b => exact nodesLocate_dom _ hd rfl
  | polygon q => exact nodesLocate_dom _ hd rfl
  | multiPolygon ps => exact nodesLocate_dom _ hd rfl
  | rect mn mx => exact nodesLocate_dom _ hd rfl
  | triangle a b c => exact nodesLocate_dom _ hd rfl

theorem coordPos_off_nodes (p : Pt) (b : Geom) (hd : inDomain b = true) (ht : notCollection b = true)
    (hp : p ∉ (freshGraph Arith.exact 1 b).nodes.map (·.coord)) : coordPos b p = locate b p := by
  apply Geo.Proofs.C02X.coordPos_dom b p hd
  cases b with
  | multiLineString ls =>
    have := esum_zero_of_not_node Arith.exact (linearAs_mls hd) p hp
    simp [Geo.Proofs.C02X.noK9, this]
  | collection _ => cases ht
  | _ => rfl

/-- **rows Interior / Boundary of `relate(Point p, B)` are the specification's, at every `p`, for every `B` of the
domain that is not a GeometryCollection** -/
theorem point_rows_eq_spec_dom3 (p : Pt) (b : Geom) (hd : inDomain b = true) (ht : notCollection b = true) {m : IM}
    (h : relateGraph Arith.exact (.point p) b = some m) (X Y : Pos) (hX : X ≠ .outside) :
    m.get X Y = (relateSpec (.point p) b).get X Y :=
  point_rows_eq_spec_of_nodesLocate_off _ p b h (nodesLocate_dom3 b hd ht).1 (nodesLocate_dom3 b hd ht).2
    (coordPos_off_nodes p b hd ht) X Y hX

end Geo.Proofs.RELM3
