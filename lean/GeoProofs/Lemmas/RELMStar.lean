/-
  RELM — the star of a node does not depend on the order in which its edge ends are inserted
  (exact arithmetic, edge ends of non-zero length): the bundles come out in the same order of
  directions, each with the same edge ends up to their order.
-/
import GeoProofs.Lemmas.RELMDir
import Mathlib.Data.List.Perm.Basic

namespace Geo.Proofs.RELM
open Geo Geo.GG Geo.RI Geo.Proofs.Kernel

/-- an edge end that starts at `o` and has a direction -/
def GoodEnd (o : Pt) (e : EdgeEnd) : Prop := e.c0 = o ∧ NonZero (dirOf e)

def C (x y : EdgeEnd) : Ordering := cmpDir Arith.exact x y

section order
variable {o : Pt} {x y z : EdgeEnd}

theorem C_spec (hx : GoodEnd o x) (hy : GoodEnd o y) :
    (C x y = .lt ↔ DirLt (dirOf x) (dirOf y)) ∧ (C x y = .eq ↔ DirEq (dirOf x) (dirOf y)) ∧
      (C x y = .gt ↔ DirLt (dirOf y) (dirOf x)) :=
  cmpDir_spec x y (hx.1.trans hy.1.symm) hx.2 hy.2

theorem C_gt_iff (hx : GoodEnd o x) (hy : GoodEnd o y) : C x y = .gt ↔ C y x = .lt :=
  (C_spec hx hy).2.2.trans (C_spec hy hx).1.symm

theorem C_eq_iff (hx : GoodEnd o x) (hy : GoodEnd o y) : C x y = .eq ↔ C y x = .eq :=
  (C_spec hx hy).2.1.trans ((Iff.intro DirEq.symm DirEq.symm).trans (C_spec hy hx).2.1.symm)

theorem C_lt_iff (hx : GoodEnd o x) (hy : GoodEnd o y) : C x y = .lt ↔ C y x = .gt :=
  (C_gt_iff hy hx).symm

theorem C_lt_trans (hx : GoodEnd o x) (hy : GoodEnd o y) (hz : GoodEnd o z)
    (h1 : C x y = .lt) (h2 : C y z = .lt) : C x z = .lt :=
  (C_spec hx hz).1.2 (((C_spec hx hy).1.1 h1).trans hx.2 hy.2 hz.2 ((C_spec hy hz).1.1 h2))

theorem C_eq_lt (hx : GoodEnd o x) (hy : GoodEnd o y) (hz : GoodEnd o z)
    (h1 : C x y = .eq) (h2 : C y z = .lt) : C x z = .lt :=
  (C_spec hx hz).1.2 (DirLt.of_eq_left hx.2 hy.2 hz.2 ((C_spec hx hy).2.1.1 h1) ((C_spec hy hz).1.1 h2))

theorem C_lt_eq (hx : GoodEnd o x) (hy : GoodEnd o y) (hz : GoodEnd o z)
    (h1 : C x y = .lt) (h2 : C y z = .eq) : C x z = .lt :=
  (C_spec hx hz).1.2 (DirLt.of_eq_right hx.2 hy.2 hz.2 ((C_spec hx hy).1.1 h1) ((C_spec hy hz).2.1.1 h2))

theorem C_eq_trans (hx : GoodEnd o x) (hy : GoodEnd o y) (hz : GoodEnd o z)
    (h1 : C x y = .eq) (h2 : C y z = .eq) : C x z = .eq :=
  (C_spec hx hz).2.1.2 (DirEq.trans hx.2 hy.2 hz.2 ((C_spec hx hy).2.1.1 h1) ((C_spec hy hz).2.1.1 h2))

/-- comparing with two keys of the same direction gives the same answer -/
theorem C_congr_right (hx : GoodEnd o x) (hy : GoodEnd o y) (hz : GoodEnd o z)
    (h : DirEq (dirOf y) (dirOf z)) : C x y = C x z := by
  have hyz : C y z = .eq := (C_spec hy hz).2.1.2 h
  have hzy : C z y = .eq := (C_eq_iff hy hz).1 hyz
  cases hc : C x y with
  | lt => exact (C_lt_eq hx hy hz hc hyz).symm
  | eq => exact (C_eq_trans hx hy hz hc hyz).symm
  | gt =>
    have := C_eq_lt hz hy hx hzy ((C_gt_iff hx hy).1 hc)
    exact ((C_gt_iff hx hz).2 this).symm

end order

/-! ### equivalence of stars -/

def BundleEq (b b' : Bundle) : Prop := DirEq (dirOf b.key) (dirOf b'.key) ∧ b.ends.Perm b'.ends

def StarEq (s s' : List Bundle) : Prop := List.Forall₂ BundleEq s s'

/-- all keys start at `o` and have a direction -/
def GoodStar (o : Pt) (s : List Bundle) : Prop := ∀ b ∈ s, GoodEnd o b.key

theorem BundleEq.refl (b : Bundle) : BundleEq b b := ⟨DirEq.refl _, List.Perm.refl _⟩

theorem StarEq.refl : ∀ (s : List Bundle), StarEq s s
  | [] => List.Forall₂.nil
  | b :: bs => List.Forall₂.cons (BundleEq.refl b) (StarEq.refl bs)

theorem StarEq.trans {o : Pt} {s1 s2 : List Bundle} (h12 : StarEq s1 s2) : ∀ {s3 : List Bundle},
    GoodStar o s1 → GoodStar o s2 → GoodStar o s3 → StarEq s2 s3 → StarEq s1 s3 := by
  induction h12 with
  | nil => intro s3 _ _ _ h23; cases h23; exact List.Forall₂.nil
  | @cons b1 b2 r1 r2 hb12 _ ih =>
    intro s3 g1 g2 g3 h23
    cases h23 with
    | @cons _ b3 _ r3 hb23 hr23 =>
      refine List.Forall₂.cons ⟨?_, hb12.2.trans hb23.2⟩ ?_
      · exact DirEq.trans (g1 b1 (List.mem_cons_self ..)).2 (g2 b2 (List.mem_cons_self ..)).2
          (g3 b3 (List.mem_cons_self ..)).2 hb12.1 hb23.1
      · exact ih (fun b hb => g1 b (List.mem_cons_of_mem _ hb))
          (fun b hb => g2 b (List.mem_cons_of_mem _ hb)) (fun b hb => g3 b (List.mem_cons_of_mem _ hb)) hr23

def ins (x : EdgeEnd) (s : List Bundle) : List Bundle := starInsert Arith.exact x s

theorem ins_nil (x : EdgeEnd) : ins x [] = [⟨x, [x]⟩] := rfl

theorem ins_cons (x : EdgeEnd) (b : Bundle) (s : List Bundle) :
    ins x (b :: s) = match C x b.key with
      | .gt => b :: ins x s
      | .eq => ⟨b.key, b.ends ++ [x]⟩ :: s
      | .lt => ⟨x, [x]⟩ :: b :: s := rfl

theorem goodStar_ins {o : Pt} {x : EdgeEnd} (hx : GoodEnd o x) : ∀ {s : List Bundle}, GoodStar o s → GoodStar o (ins x s)
  | [], _ => by
      intro b hb
      rw [ins_nil, List.mem_singleton] at hb
      subst hb; exact hx
  | b :: bs, hs => by
      intro b' hb'
      rw [ins_cons] at hb'
      cases hc : C x b.key <;> rw [hc] at hb' <;> simp only [List.mem_cons] at hb'
      · rcases hb' with rfl | rfl | hb'
        · exact hx
        · exact hs _ (List.mem_cons_self ..)
        · exact hs b' (List.mem_cons_of_mem _ hb')
      · rcases hb' with rfl | hb'
        · exact hs b (List.mem_cons_self ..)
        · exact hs b' (List.mem_cons_of_mem _ hb')
      · rcases hb' with rfl | hb'
        · exact hs _ (List.mem_cons_self ..)
        · exact goodStar_ins hx (fun b hb => hs b (List.mem_cons_of_mem _ hb)) b' hb'

/-- inserting the same edge end into equivalent stars -/
theorem ins_congr {o : Pt} {x : EdgeEnd} (hx : GoodEnd o x) {s s' : List Bundle} (h : StarEq s s') :
    GoodStar o s → GoodStar o s' → StarEq (ins x s) (ins x s') := by
  induction h with
  | nil => intro _ _; exact StarEq.refl _
  | @cons b b' bs bs' hb hr ih =>
    intro g g'
    have gb := g b (List.mem_cons_self ..)
    have gb' := g' b' (List.mem_cons_self ..)
    have hc : C x b.key = C x b'.key := C_congr_right hx gb gb' hb.1
    rw [ins_cons, ins_cons, ← hc]
    cases C x b.key with
    | gt =>
      exact List.Forall₂.cons hb (ih (fun b hb => g b (List.mem_cons_of_mem _ hb))
        (fun b hb => g' b (List.mem_cons_of_mem _ hb)))
    | eq => exact List.Forall₂.cons ⟨hb.1, List.Perm.append hb.2 (List.Perm.refl _)⟩ hr
    | lt => exact List.Forall₂.cons (BundleEq.refl _) (List.Forall₂.cons hb hr)

/-- **two insertions commute** (up to the order of the edge ends inside a bundle) -/
theorem ins_comm {o : Pt} {x y : EdgeEnd} (hx : GoodEnd o x) (hy : GoodEnd o y) : ∀ {s : List Bundle},
    GoodStar o s → StarEq (ins x (ins y s)) (ins y (ins x s))
  | [], _ => by
      rw [ins_nil, ins_nil, ins_cons, ins_cons, ins_nil, ins_nil]
      cases hc : C x y with
      | gt => rw [(C_gt_iff hx hy).1 hc]; exact StarEq.refl _
      | eq =>
        rw [(C_eq_iff hx hy).1 hc]
        exact List.Forall₂.cons ⟨((C_spec hy hx).2.1.1 ((C_eq_iff hx hy).1 hc)),
          List.Perm.swap _ _ _⟩ List.Forall₂.nil
      | lt => rw [(C_lt_iff hx hy).1 hc]; exact StarEq.refl _
  | b :: bs, g => by
      have gb := g b (List.mem_cons_self ..)
      have gbs : GoodStar o bs := fun b hb => g b (List.mem_cons_of_mem _ hb)
      -- unfold one step of each insertion, by the comparisons with the key of `b`
      have ex : ∀ (s' : List Bundle), ins x (b :: s') = match C x b.key with
          | .gt => b :: ins x s'
          | .eq => ⟨b.key, b.ends ++ [x]⟩ :: s'
          | .lt => ⟨x, [x]⟩ :: b :: s' := fun s' => ins_cons x b s'
      have ey : ∀ (s' : List Bundle), ins y (b :: s') = match C y b.key with
          | .gt => b :: ins y s'
          | .eq => ⟨b.key, b.ends ++ [y]⟩ :: s'
          | .lt => ⟨y, [y]⟩ :: b :: s' := fun s' => ins_cons y b s'
      cases hcx : C x b.key <;> cases hcy : C y b.key
      · -- lt, lt
        rw [ey, ex, hcx, hcy]
        simp only
        have e1 : ins x (⟨y, [y]⟩ :: b :: bs) = match C x y with
            | .gt => ⟨y, [y]⟩ :: ins x (b :: bs)
            | .eq => ⟨y, [y] ++ [x]⟩ :: b :: bs
            | .lt => ⟨x, [x]⟩ :: ⟨y, [y]⟩ :: b :: bs := ins_cons _ _ _
        have e2 : ins y (⟨x, [x]⟩ :: b :: bs) = match C y x with
            | .gt => ⟨x, [x]⟩ :: ins y (b :: bs)
            | .eq => ⟨x, [x] ++ [y]⟩ :: b :: bs
            | .lt => ⟨y, [y]⟩ :: ⟨x, [x]⟩ :: b :: bs := ins_cons _ _ _
        rw [e1, e2, ex, ey, hcx, hcy]
        cases hc : C x y with
        | gt => rw [(C_gt_iff hx hy).1 hc]; exact StarEq.refl _
        | eq =>
          rw [(C_eq_iff hx hy).1 hc]
          exact List.Forall₂.cons ⟨((C_spec hy hx).2.1.1 ((C_eq_iff hx hy).1 hc)), List.Perm.swap _ _ _⟩
            (StarEq.refl _)
        | lt => rw [(C_lt_iff hx hy).1 hc]; exact StarEq.refl _
      · -- lt, eq
        rw [ey, ex, hcx, hcy]
        simp only
        have hyx : C y x = .gt := by
          have : C x y = .lt := C_lt_eq hx gb hy hcx ((C_eq_iff hy gb).1 hcy)
          exact (C_lt_iff hx hy).1 this
        have e1 : ins x (⟨b.key, b.ends ++ [y]⟩ :: bs) = ⟨x, [x]⟩ :: ⟨b.key, b.ends ++ [y]⟩ :: bs := by
          rw [ins_cons, hcx]
        have e2 : ins y (⟨x, [x]⟩ :: b :: bs) = ⟨x, [x]⟩ :: ins y (b :: bs) := by
          rw [ins_cons, hyx]
        rw [e1, e2, ey, hcy]
        exact StarEq.refl _
      · -- lt, gt
        rw [ey, ex, hcx, hcy]
        simp only
        have hyx : C y x = .gt := by
          have : C x y = .lt := C_lt_trans hx gb hy hcx ((C_gt_iff hy gb).1 hcy)
          exact (C_lt_iff hx hy).1 this
        have e1 : ins x (b :: ins y bs) = ⟨x, [x]⟩ :: b :: ins y bs := by rw [ex, hcx]
        have e2 : ins y (⟨x, [x]⟩ :: b :: bs) = ⟨x, [x]⟩ :: ins y (b :: bs) := by
          rw [ins_cons, hyx]
        rw [e1, e2, ey, hcy]
        exact StarEq.refl _
      · -- eq, lt
        rw [ey, ex, hcx, hcy]
        simp only
        have hxy : C x y = .gt := by
          have : C y x = .lt := C_lt_eq hy gb hx hcy ((C_eq_iff hx gb).1 hcx)
          exact (C_gt_iff hx hy).2 this
        have e1 : ins x (⟨y, [y]⟩ :: b :: bs) = ⟨y, [y]⟩ :: ins x (b :: bs) := by
          rw [ins_cons, hxy]
        have e2 : ins y (⟨b.key, b.ends ++ [x]⟩ :: bs) = ⟨y, [y]⟩ :: ⟨b.key, b.ends ++ [x]⟩ :: bs := by
          rw [ins_cons, hcy]
        rw [e1, e2, ex, hcx]
        exact StarEq.refl _
      · -- eq, eq
        rw [ey, ex, hcx, hcy]
        simp only
        have e1 : ins x (⟨b.key, b.ends ++ [y]⟩ :: bs) = ⟨b.key, (b.ends ++ [y]) ++ [x]⟩ :: bs := by
          rw [ins_cons, hcx]
        have e2 : ins y (⟨b.key, b.ends ++ [x]⟩ :: bs) = ⟨b.key, (b.ends ++ [x]) ++ [y]⟩ :: bs := by
          rw [ins_cons, hcy]
        rw [e1, e2]
        refine List.Forall₂.cons ⟨DirEq.refl _, ?_⟩ (StarEq.refl _)
        simp only [List.append_assoc, List.singleton_append]
        exact List.Perm.append_left _ (List.Perm.swap _ _ _)
      · -- eq, gt
        rw [ey, ex, hcx, hcy]
        simp only
        have e1 : ins x (b :: ins y bs) = ⟨b.key, b.ends ++ [x]⟩ :: ins y bs := by rw [ex, hcx]
        have e2 : ins y (⟨b.key, b.ends ++ [x]⟩ :: bs) = ⟨b.key, b.ends ++ [x]⟩ :: ins y bs := by
          rw [ins_cons, hcy]
        rw [e1, e2]
        exact StarEq.refl _
      · -- gt, lt
        rw [ey, ex, hcx, hcy]
        simp only
        have hxy : C x y = .gt := by
          have : C y x = .lt := C_lt_trans hy gb hx hcy ((C_gt_iff hx gb).1 hcx)
          exact (C_gt_iff hx hy).2 this
        have e1 : ins x (⟨y, [y]⟩ :: b :: bs) = ⟨y, [y]⟩ :: ins x (b :: bs) := by
          rw [ins_cons, hxy]
        have e2 : ins y (b :: ins x bs) = ⟨y, [y]⟩ :: b :: ins x bs := by rw [ey, hcy]
        rw [e1, e2, ex, hcx]
        exact StarEq.refl _
      · -- gt, eq
        rw [ey, ex, hcx, hcy]
        simp only
        have e1 : ins x (⟨b.key, b.ends ++ [y]⟩ :: bs) = ⟨b.key, b.ends ++ [y]⟩ :: ins x bs := by
          rw [ins_cons, hcx]
        have e2 : ins y (b :: ins x bs) = ⟨b.key, b.ends ++ [y]⟩ :: ins x bs := by rw [ey, hcy]
        rw [e1, e2]
        exact StarEq.refl _
      · -- gt, gt
        rw [ey, ex, hcx, hcy]
        simp only
        have e1 : ins x (b :: ins y bs) = b :: ins x (ins y bs) := by rw [ex, hcx]
        have e2 : ins y (b :: ins x bs) = b :: ins y (ins x bs) := by rw [ey, hcy]
        rw [e1, e2]
        exact List.Forall₂.cons (BundleEq.refl b) (ins_comm hx hy gbs)

/-- inserting a list of edge ends -/
def insAll (s : List Bundle) (l : List EdgeEnd) : List Bundle := l.foldl (fun s x => ins x s) s

theorem goodStar_insAll {o : Pt} : ∀ {l : List EdgeEnd} {s : List Bundle}, (∀ x ∈ l, GoodEnd o x) → GoodStar o s →
    GoodStar o (insAll s l)
  | [], _, _, hs => hs
  | x :: l, s, hl, hs =>
      goodStar_insAll (l := l) (fun y hy => hl y (List.mem_cons_of_mem _ hy))
        (goodStar_ins (hl x (List.mem_cons_self ..)) hs)

theorem insAll_congr {o : Pt} : ∀ {l : List EdgeEnd} {s s' : List Bundle}, (∀ x ∈ l, GoodEnd o x) →
    GoodStar o s → GoodStar o s' → StarEq s s' → StarEq (insAll s l) (insAll s' l)
  | [], _, _, _, _, _, h => h
  | x :: l, s, s', hl, g, g', h => by
      have hx := hl x (List.mem_cons_self ..)
      exact insAll_congr (l := l) (fun y hy => hl y (List.mem_cons_of_mem _ hy)) (goodStar_ins hx g)
        (goodStar_ins hx g') (ins_congr hx h g g')

/-- **the star depends on the multiset of edge ends only** -/
theorem insAll_perm {o : Pt} {l l' : List EdgeEnd} (hp : l.Perm l') : ∀ {s s' : List Bundle},
    (∀ x ∈ l, GoodEnd o x) → GoodStar o s → GoodStar o s' → StarEq s s' →
    StarEq (insAll s l) (insAll s' l') := by
  induction hp with
  | nil => intro s s' _ _ _ h; exact h
  | cons x _ ih =>
    intro s s' hl g g' h
    have hx := hl x (List.mem_cons_self ..)
    exact ih (fun y hy => hl y (List.mem_cons_of_mem _ hy)) (goodStar_ins hx g) (goodStar_ins hx g')
      (ins_congr hx h g g')
  | swap x y l =>
    intro s s' hl g g' h
    have hy := hl y (List.mem_cons_self ..)
    have hx := hl x (List.mem_cons_of_mem _ (List.mem_cons_self ..))
    have hl' : ∀ z ∈ l, GoodEnd o z := fun z hz => hl z (List.mem_cons_of_mem _ (List.mem_cons_of_mem _ hz))
    show StarEq (insAll (ins x (ins y s)) l) (insAll (ins y (ins x s')) l)
    apply insAll_congr hl' (goodStar_ins hx (goodStar_ins hy g)) (goodStar_ins hy (goodStar_ins hx g'))
    exact StarEq.trans (ins_comm hx hy g) (goodStar_ins hx (goodStar_ins hy g)) (goodStar_ins hy (goodStar_ins hx g))
      (goodStar_ins hy (goodStar_ins hx g'))
      (ins_congr hy (ins_congr hx h g g') (goodStar_ins hx g) (goodStar_ins hx g'))
  | trans p1 _ ih1 ih2 =>
    intro s s' hl g g' h
    have hl2 : ∀ x ∈ _, GoodEnd o x := fun x hx => hl x (p1.mem_iff.2 hx)
    exact StarEq.trans (ih1 hl g g' h) (goodStar_insAll hl g) (goodStar_insAll hl2 g') (goodStar_insAll
      (fun x hx => hl2 x ((List.Perm.mem_iff (by assumption)).2 hx)) g')
      (ih2 hl2 g' g' (StarEq.refl _))

end Geo.Proofs.RELM
