/-
  RELM — the node map before the edge ends are inserted, for the operands in the other order:
  the same nodes with swapped labels. (A sorted node map is determined by its look-ups; updates of
  slot 0 commute with updates of slot 1; every update is exchanged with its mirror image by the swap.)
-/
import GeoProofs.Lemmas.RELMSym2
import GeoProofs.Lemmas.RELMPoint2

namespace Geo.Proofs.RELM
open Geo Geo.GG Geo.RI Geo.Proofs.C05L

/-! ### a sorted node map is determined by its look-ups -/

theorem sortedR_ext : ∀ {l l' : List RNode}, SortedR l → SortedR l' → (∀ c, findR c l = findR c l') → l = l'
  | [], [], _, _, _ => rfl
  | [], y :: ys, _, _, h => by
      have := h y.coord; simp [findR] at this
  | x :: xs, [], _, _, h => by
      have := h x.coord; simp [findR] at this
  | x :: xs, y :: ys, h1, h2, h => by
      have hx := List.pairwise_cons.1 h1
      have hy := List.pairwise_cons.1 h2
      have hxy : x = y := by
        have a := h x.coord
        have b := h y.coord
        simp only [findR, if_true] at a b
        by_cases hc : y.coord = x.coord
        · rw [if_pos hc] at a; exact Option.some.inj a
        · rw [if_neg hc] at a
          have hmem := (findR_mem a.symm).1
          by_cases hc' : x.coord = y.coord
          · exact absurd hc'.symm hc
          · rw [if_neg hc'] at b
            have hmem' := (findR_mem b).1
            have l1 := hy.1 x hmem
            have l2 := hx.1 y hmem'
            have := lexLt_trans l1 l2
            rw [lexLt_irrefl] at this; cases this
      subst hxy
      congr 1
      apply sortedR_ext hx.2 hy.2
      intro c
      have hc := h c
      simp only [findR] at hc
      by_cases hcx : x.coord = c
      · subst hcx
        rw [findR_none_of_lt hx.1, findR_none_of_lt hy.1]
      · rw [if_neg hcx, if_neg hcx] at hc; exact hc

/-! ### sequences of updates -/

abbrev Upd := Pt × (RNode → RNode)

def applyU (ns : List RNode) (us : List Upd) : List RNode := us.foldl (fun ns u => upsertR u.1 u.2 ns) ns

/-- every update keeps the coordinate -/
def CoordPres (us : List Upd) : Prop := ∀ u ∈ us, ∀ n, (u.2 n).coord = n.coord

theorem applyU_sorted : ∀ (us : List Upd) (ns : List RNode), CoordPres us → SortedR ns → SortedR (applyU ns us)
  | [], _, _, h => h
  | u :: us, ns, hp, h =>
      applyU_sorted us _ (fun v hv => hp v (List.mem_cons_of_mem _ hv))
        (upsertR_sorted u.1 u.2 (hp u (List.mem_cons_self ..)) ns h)

/-- effect of one update on the look-up of `c` -/
def stepF (c : Pt) (o : Option RNode) (u : Upd) : Option RNode :=
  if c = u.1 then some (u.2 (o.getD (RNode.new c))) else o

theorem findR_applyU (c : Pt) : ∀ (us : List Upd) (ns : List RNode), CoordPres us → SortedR ns →
    findR c (applyU ns us) = us.foldl (stepF c) (findR c ns)
  | [], _, _, _ => rfl
  | u :: us, ns, hp, h => by
      have hu := hp u (List.mem_cons_self ..)
      show findR c (applyU (upsertR u.1 u.2 ns) us) = _
      rw [findR_applyU c us _ (fun v hv => hp v (List.mem_cons_of_mem _ hv)) (upsertR_sorted u.1 u.2 hu ns h),
        findR_upsertR u.1 c u.2 hu ns h]
      simp only [List.foldl_cons, stepF]
      by_cases hc : c = u.1
      · subst hc; simp
      · simp [hc]

theorem applyU_append (ns : List RNode) (a b : List Upd) : applyU ns (a ++ b) = applyU (applyU ns a) b := by
  unfold applyU; rw [List.foldl_append]

/-- two blocks of updates whose functions commute can be exchanged -/
theorem applyU_comm (us vs : List Upd) (hu : CoordPres us) (hv : CoordPres vs)
    (hcomm : ∀ u ∈ us, ∀ v ∈ vs, u.1 = v.1 → ∀ n, u.2 (v.2 n) = v.2 (u.2 n)) {ns : List RNode} (h : SortedR ns) :
    applyU (applyU ns us) vs = applyU (applyU ns vs) us := by
  apply sortedR_ext (applyU_sorted vs _ hv (applyU_sorted us _ hu h)) (applyU_sorted us _ hu (applyU_sorted vs _ hv h))
  intro c
  rw [findR_applyU c vs _ hv (applyU_sorted us _ hu h), findR_applyU c us _ hu h,
    findR_applyU c us _ hu (applyU_sorted vs _ hv h), findR_applyU c vs _ hv h]
  generalize findR c ns = o
  -- commute the two folds
  have one : ∀ (vs : List Upd) (u : Upd), (∀ v ∈ vs, u.1 = v.1 → ∀ n, u.2 (v.2 n) = v.2 (u.2 n)) →
      (∀ n, (u.2 n).coord = n.coord) → (∀ v ∈ vs, ∀ n, (v.2 n).coord = n.coord) →
      ∀ o, vs.foldl (stepF c) (stepF c o u) = stepF c (vs.foldl (stepF c) o) u := by
    intro vs
    induction vs with
    | nil => intro _ _ _ _ _; rfl
    | cons v vs ih =>
      intro u hc hcu hcv o
      simp only [List.foldl_cons]
      have hswap : stepF c (stepF c o u) v = stepF c (stepF c o v) u := by
        unfold stepF
        by_cases h1 : c = u.1
        · by_cases h2 : c = v.1
          · simp only [if_pos h1, if_pos h2, Option.getD_some]
            rw [hc v (List.mem_cons_self ..) (h1.symm.trans h2)]
          · simp only [if_pos h1, if_neg h2]
        · by_cases h2 : c = v.1
          · simp only [if_neg h1, if_pos h2]
          · simp only [if_neg h1, if_neg h2]
      rw [hswap]
      exact ih u (fun w hw => hc w (List.mem_cons_of_mem _ hw)) hcu
        (fun w hw => hcv w (List.mem_cons_of_mem _ hw)) _
  induction us generalizing o with
  | nil => rfl
  | cons u us ih =>
    simp only [List.foldl_cons]
    rw [← one vs u (hcomm u (List.mem_cons_self ..)) (hu u (List.mem_cons_self ..)) hv]
    exact ih (fun w hw => hu w (List.mem_cons_of_mem _ hw))
      (fun w hw => hcomm w (List.mem_cons_of_mem _ hw)) _

/-! ### the swap on nodes -/

def swapN (n : RNode) : RNode := ⟨n.coord, n.label.swap, n.star.map swapB⟩

theorem swapE_swapE (e : EdgeEnd) : swapE (swapE e) = e := by
  cases e; simp [swapE, Geo.Proofs.C17L.label_swap_swap]

theorem swapB_swapB (b : Bundle) : swapB (swapB b) = b := by
  cases b with | mk k es =>
  simp only [swapB, swapE_swapE, List.map_map]
  congr 1
  conv_rhs => rw [← List.map_id es]
  exact List.map_congr_left fun e _ => swapE_swapE e

theorem swapN_swapN (n : RNode) : swapN (swapN n) = n := by
  cases n with | mk c l st =>
  simp only [swapN, Geo.Proofs.C17L.label_swap_swap, List.map_map]
  congr 1
  conv_rhs => rw [← List.map_id st]
  exact List.map_congr_left fun b _ => swapB_swapB b

theorem swapN_new (c : Pt) : swapN (RNode.new c) = RNode.new c := rfl

theorem upsertR_map_swapN (c : Pt) (f f' : RNode → RNode) (hf : ∀ n, f' (swapN n) = swapN (f n)) :
    ∀ ns : List RNode, upsertR c f' (ns.map swapN) = (upsertR c f ns).map swapN
  | [] => by simp only [upsertR, List.map_nil, List.map_cons, ← hf, swapN_new]
  | n :: ns => by
      simp only [List.map_cons, upsertR]
      have hc : (swapN n).coord = n.coord := rfl
      rw [hc]
      split
      · simp only [List.map_cons, hf]
      · split
        · simp only [List.map_cons, ← hf, swapN_new]
        · simp only [List.map_cons, upsertR_map_swapN c f f' hf ns]

/-- conjugate an update with the swap -/
def conj (u : Upd) : Upd := (u.1, fun n => swapN (u.2 (swapN n)))

theorem applyU_conj : ∀ (us : List Upd) (ns : List RNode),
    applyU (ns.map swapN) (us.map conj) = (applyU ns us).map swapN
  | [], _ => rfl
  | u :: us, ns => by
      show applyU (upsertR u.1 (conj u).2 (ns.map swapN)) (us.map conj) = _
      rw [upsertR_map_swapN u.1 u.2 (conj u).2 (fun n => by simp [conj, swapN_swapN]) ns]
      exact applyU_conj us _

/-! ### updates of one slot -/

/-- update of slot `idx` of the label of a node -/
def slotUpd (idx : Nat) (f : TopoPos → TopoPos) (n : RNode) : RNode := { n with label := mapSlot n.label idx f }

theorem slotUpd_comm (f g : TopoPos → TopoPos) (n : RNode) :
    slotUpd 0 f (slotUpd 1 g n) = slotUpd 1 g (slotUpd 0 f n) := rfl

theorem slotUpd_swap (idx : Nat) (f : TopoPos → TopoPos) (n : RNode) :
    swapN (slotUpd idx f (swapN n)) = slotUpd (other idx) f n := by
  cases n with | mk c l st =>
  simp only [swapN, slotUpd, mapSlot_swap, Geo.Proofs.C17L.label_swap_swap, List.map_map]
  congr 1
  conv_rhs => rw [← List.map_id st]
  exact List.map_congr_left fun b _ => swapB_swapB b

/-- the slot function of `compute_intersection_nodes` -/
def inT (ep : Option Pos) (t : TopoPos) : TopoPos :=
  if ep == some .onBoundary then
    (match t.on with
     | some .onBoundary => t.setOn .inside
     | some .inside => t.setOn .onBoundary
     | _ => t.setOn .onBoundary)
  else if t.isEmpty then t.setOn .inside else t

theorem intersectionNodeUpdate_eq (ep : Option Pos) (idx : Nat) :
    intersectionNodeUpdate ep idx = slotUpd idx (inT ep) := by
  funext n
  unfold intersectionNodeUpdate slotUpd inT setLabelBoundary
  by_cases h : (ep == some Pos.onBoundary) = true
  · simp only [h, if_true]
    congr 1
    show (match (n.label.get idx).on with
      | some .onBoundary => n.label.setOn idx .inside
      | some .inside => n.label.setOn idx .onBoundary
      | _ => n.label.setOn idx .onBoundary) = _
    unfold mapSlot
    cases hq : (n.label.get idx).on with
    | none => simp only [hq]; rfl
    | some p => cases p <;> simp only [hq] <;> rfl
  · simp only [h, Bool.false_eq_true, if_false]
    by_cases he : n.label.isEmptyAt idx = true
    · have he' : (n.label.get idx).isEmpty = true := he
      simp only [he, if_true, mapSlot, he']
      rfl
    · have he' : ¬ (n.label.get idx).isEmpty = true := he
      simp only [he, Bool.false_eq_true, if_false, mapSlot, he']
      cases n with | mk c l st => simp only [set_get]

theorem setOn_upd_eq (idx : Nat) (p : Pos) :
    (fun n : RNode => { n with label := n.label.setOn idx p }) = slotUpd idx (fun t => t.setOn p) := rfl

/-- the updates of `compute_intersection_nodes(graph, idx)` -/
def inUpds (idx : Nat) (es : List REdge) : List Upd :=
  es.flatMap (fun e => e.eis.map (fun ei => (ei.coord, slotUpd idx (inT (e.label.onPos idx)))))

theorem intersectionNodesOfEdge_eq (ep : Option Pos) (idx : Nat) : ∀ (eis : List EI) (ns : List RNode),
    intersectionNodesOfEdge ep idx eis ns = applyU ns (eis.map (fun ei => (ei.coord, slotUpd idx (inT ep))))
  | [], _ => rfl
  | ei :: rest, ns => by
      simp only [intersectionNodesOfEdge, List.map_cons]
      rw [intersectionNodesOfEdge_eq ep idx rest, intersectionNodeUpdate_eq]
      rfl

theorem intersectionNodes_eq (idx : Nat) : ∀ (es : List REdge) (ns : List RNode),
    intersectionNodes idx es ns = applyU ns (inUpds idx es)
  | [], _ => rfl
  | e :: es, ns => by
      simp only [intersectionNodes, inUpds, List.flatMap_cons]
      rw [intersectionNodes_eq idx es, intersectionNodesOfEdge_eq, applyU_append]
      rfl

/-- the updates of `copy_nodes_and_labels(graph, idx)` -/
def cpUpds (idx : Nat) (gs : List Node) : List Upd :=
  gs.filterMap (fun g => (g.label.onPos idx).map (fun p => (g.coord, slotUpd idx (fun t => t.setOn p))))

theorem copyNodes_eq (idx : Nat) : ∀ (gs : List Node) (ns : List RNode),
    copyNodes idx gs ns =
      if gs.all (fun g => (g.label.onPos idx).isSome) then some (applyU ns (cpUpds idx gs)) else none
  | [], _ => rfl
  | g :: gs, ns => by
      simp only [copyNodes]
      split
      · rename_i hg
        simp [List.all_cons, hg]
      · rename_i p hg
        rw [copyNodes_eq idx gs]
        simp only [List.all_cons, hg, Option.isSome_some, Bool.true_and, cpUpds, List.filterMap_cons,
          Option.map_some]
        rfl

/-- lists of updates of one slot -/
def SlotUpds (idx : Nat) (us : List Upd) : Prop := ∀ u ∈ us, ∃ f, u.2 = slotUpd idx f

theorem slotUpds_in (idx : Nat) (es : List REdge) : SlotUpds idx (inUpds idx es) := by
  intro u hu
  simp only [inUpds, List.mem_flatMap, List.mem_map] at hu
  obtain ⟨e, _, ei, _, rfl⟩ := hu
  exact ⟨_, rfl⟩

theorem slotUpds_cp (idx : Nat) (gs : List Node) : SlotUpds idx (cpUpds idx gs) := by
  intro u hu
  simp only [cpUpds, List.mem_filterMap, Option.map_eq_some_iff] at hu
  obtain ⟨g, _, p, _, rfl⟩ := hu
  exact ⟨_, rfl⟩

theorem SlotUpds.append {idx : Nat} {a b : List Upd} (ha : SlotUpds idx a) (hb : SlotUpds idx b) :
    SlotUpds idx (a ++ b) := by
  intro u hu
  rcases List.mem_append.1 hu with h | h
  · exact ha u h
  · exact hb u h

theorem SlotUpds.coordPres {idx : Nat} {us : List Upd} (h : SlotUpds idx us) : CoordPres us := by
  intro u hu n
  obtain ⟨f, hf⟩ := h u hu
  rw [hf]; rfl

theorem slotUpds_comm {us vs : List Upd} (hu : SlotUpds 0 us) (hv : SlotUpds 1 vs) {ns : List RNode}
    (h : SortedR ns) : applyU (applyU ns us) vs = applyU (applyU ns vs) us := by
  apply applyU_comm us vs hu.coordPres hv.coordPres _ h
  intro u hu' v hv' _ n
  obtain ⟨f, hf⟩ := hu u hu'
  obtain ⟨g, hg⟩ := hv v hv'
  rw [hf, hg]
  exact slotUpd_comm f g n

/-- the updates for the swapped graph in the other slot are the conjugated updates -/
theorem inUpds_swap (idx : Nat) (es : List REdge) :
    inUpds (other idx) (es.map REdge.swap) = (inUpds idx es).map conj := by
  unfold inUpds
  rw [List.flatMap_map, List.map_flatMap]
  congr 1
  funext e
  rw [List.map_map]
  apply List.map_congr_left
  intro ei _
  simp only [Function.comp, conj, REdge.swap]
  congr 1
  funext n
  rw [slotUpd_swap]
  have : e.label.swap.onPos (other idx) = e.label.onPos idx ∨ True := Or.inr trivial
  by_cases h : idx = 0
  · subst h
    show slotUpd 1 (inT (e.label.swap.onPos 1)) n = slotUpd 1 (inT (e.label.onPos 0)) n
    rw [Geo.Proofs.C17L.onPos_swap01]
  · have ho : other idx = 0 := by simp [other, h]
    rw [ho]
    have h1 : e.label.swap.onPos 0 = e.label.onPos idx := by
      cases hl : e.label with | mk a b => simp [Label.swap, Label.onPos, Label.get, h]
    rw [h1]

theorem cpUpds_swap (idx : Nat) (gs : List Node) :
    cpUpds (other idx) (gs.map Node.swap) = (cpUpds idx gs).map conj := by
  unfold cpUpds
  rw [List.filterMap_map, List.map_filterMap]
  congr 1
  funext g
  have h1 : (Node.swap g).label.onPos (other idx) = g.label.onPos idx := by
    cases hl : g.label with | mk a b =>
    unfold Node.swap other Label.swap Label.onPos Label.get
    by_cases h : idx = 0 <;> simp [h, hl]
  simp only [Function.comp, h1]
  cases g.label.onPos idx with
  | none => rfl
  | some p =>
    simp only [Option.map_some, conj, Node.swap]
    congr 2
    funext n
    rw [slotUpd_swap]

theorem all_onPos_swap (idx : Nat) (gs : List Node) :
    (gs.map Node.swap).all (fun g => (g.label.onPos (other idx)).isSome) =
      gs.all (fun g => (g.label.onPos idx).isSome) := by
  rw [List.all_map]
  congr 1
  funext g
  cases hl : g.label with | mk a b =>
  unfold Node.swap other Label.swap Label.onPos Label.get
  by_cases h : idx = 0 <;> simp [h, hl]

theorem geometryCount_swap (l : Label) : l.swap.geometryCount = l.geometryCount := by
  cases l; simp only [Label.swap, Label.geometryCount]; exact Nat.add_comm _ _

/-- `label_isolated_nodes` for the operands in the other order -/
theorem iso_swap (a b : Geom) (n : RNode) : labelIsolatedNode b a (swapN n) = swapN (labelIsolatedNode a b n) := by
  cases n with | mk c l st =>
  cases l with | mk ta tb =>
  unfold labelIsolatedNode swapN
  simp only [geometryCount_swap]
  by_cases hc : (Label.mk ta tb).geometryCount = 1
  · have hc' : ((Label.mk ta tb).geometryCount == 1) = true := by simp [hc]
    simp only [hc', if_true]
    unfold Label.geometryCount at hc
    simp only at hc
    unfold Label.isEmptyAt Label.swap Label.get
    simp only [if_true]
    by_cases ha : ta.isEmpty = true <;> by_cases hb : tb.isEmpty = true <;> simp [ha, hb] at hc ⊢ <;> rfl
  · have hc' : ((Label.mk ta tb).geometryCount == 1) = false := by simp [hc]
    simp only [hc', Bool.false_eq_true, if_false]

/-- a graph with the label slots of all its nodes and edges exchanged, for operand position `idx` -/
def swapGraph (r : RGraph) (idx : Nat) : RGraph := { r.swapLabels with idx := idx }

/-- **the node map (before the edge ends) for the operands in the other order** -/
theorem labeledNodes_swap (a b : Geom) (ga gb : RGraph) :
    labeledNodes b a (swapGraph gb 0) (swapGraph ga 1) = (labeledNodes a b ga gb).map (·.map swapN) := by
  unfold labeledNodes
  simp only [copyNodes_eq, intersectionNodes_eq]
  have e1 : (swapGraph gb 0).edges = gb.edges.map REdge.swap := rfl
  have e2 : (swapGraph ga 1).edges = ga.edges.map REdge.swap := rfl
  have n1 : sortNodes (swapGraph gb 0).nodes = (sortNodes gb.nodes).map Node.swap :=
    Geo.Proofs.C17L.sortNodes_swap gb.nodes
  have n2 : sortNodes (swapGraph ga 1).nodes = (sortNodes ga.nodes).map Node.swap :=
    Geo.Proofs.C17L.sortNodes_swap ga.nodes
  rw [e1, e2, n1, n2]
  have o0 : other 1 = 0 := rfl
  have o1 : other 0 = 1 := rfl
  -- conditions
  have c0 : ((sortNodes gb.nodes).map Node.swap).all (fun g => (g.label.onPos 0).isSome) =
      (sortNodes gb.nodes).all (fun g => (g.label.onPos 1).isSome) := all_onPos_swap 1 _
  have c1 : ((sortNodes ga.nodes).map Node.swap).all (fun g => (g.label.onPos 1).isSome) =
      (sortNodes ga.nodes).all (fun g => (g.label.onPos 0).isSome) := all_onPos_swap 0 _
  rw [c0, c1]
  -- update lists
  have u1 : inUpds 0 (gb.edges.map REdge.swap) = (inUpds 1 gb.edges).map conj := inUpds_swap 1 _
  have u2 : inUpds 1 (ga.edges.map REdge.swap) = (inUpds 0 ga.edges).map conj := inUpds_swap 0 _
  have u3 : cpUpds 0 ((sortNodes gb.nodes).map Node.swap) = (cpUpds 1 (sortNodes gb.nodes)).map conj :=
    cpUpds_swap 1 _
  have u4 : cpUpds 1 ((sortNodes ga.nodes).map Node.swap) = (cpUpds 0 (sortNodes ga.nodes)).map conj :=
    cpUpds_swap 0 _
  rw [u1, u2, u3, u4]
  -- the two intersection-node blocks
  have hin : applyU (applyU [] ((inUpds 1 gb.edges).map conj)) ((inUpds 0 ga.edges).map conj) =
      (applyU (applyU [] (inUpds 0 ga.edges)) (inUpds 1 gb.edges)).map swapN := by
    have := applyU_conj (inUpds 1 gb.edges) []
    rw [List.map_nil] at this
    rw [this, applyU_conj,
      slotUpds_comm (slotUpds_in 0 ga.edges) (slotUpds_in 1 gb.edges) sortedR_nil]
  rw [hin]
  have sIn : SortedR (applyU (applyU [] (inUpds 0 ga.edges)) (inUpds 1 gb.edges)) :=
    applyU_sorted _ _ (slotUpds_in 1 gb.edges).coordPres
      (applyU_sorted _ _ (slotUpds_in 0 ga.edges).coordPres sortedR_nil)
  generalize applyU (applyU [] (inUpds 0 ga.edges)) (inUpds 1 gb.edges) = ns2 at sIn ⊢
  cases hA : (sortNodes ga.nodes).all (fun g => (g.label.onPos 0).isSome) <;>
    cases hB : (sortNodes gb.nodes).all (fun g => (g.label.onPos 1).isSome) <;>
    simp only [if_true, Bool.false_eq_true, if_false, Option.map_none, Option.map_some]
  rw [applyU_conj, applyU_conj,
    slotUpds_comm (slotUpds_cp 0 (sortNodes ga.nodes)) (slotUpds_cp 1 (sortNodes gb.nodes)) sIn,
    List.map_map, List.map_map]
  congr 1
  apply List.map_congr_left
  intro n _
  exact iso_swap a b n

end Geo.Proofs.RELM
