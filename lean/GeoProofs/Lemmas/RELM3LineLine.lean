/-
  RELM3 — the specification for two LINEAR operands (any two lists of curves; Line × Line in particular): every cell
  that involves a BOUNDARY — IB, BI, BB, BE, EB — is `0` or `F`, and `0` exactly when some point has that pair of
  locations.  (A boundary point of a linear operand is an end point of a curve, hence a vertex of the arrangement;
  elementary midpoints are not vertices; face samples are outside of linear operands.)
-/
import GeoProofs.Lemmas.RELM3PointMP

namespace Geo.Proofs.RELM3
open Geo Geo.GG Geo.RI Geo.Proofs.Spec Geo.Proofs.RELM Geo.Proofs.RELM2 Geo.Proofs.Kernel

theorem boundary_mem_verts_left {ls : List (List Pt)} {pb : Parts} {v : Pt}
    (h : locateParts ⟨[], ls, []⟩ v = .onBoundary) : v ∈ vertsOf ⟨[], ls, []⟩ pb := by
  obtain ⟨c, hc, hv⟩ := boundary_mem_curve h
  exact Geo.Proofs.C02X.allCoords_mem_verts_left (mem_allCoords_curve (ps := ⟨[], ls, []⟩) hc hv)

/-- **linear × linear: a cell with a boundary in it** -/
theorem linear_cell_boundary (ls ms : List (List Pt)) (X Y : Pos) (hXY : X = .onBoundary ∨ Y = .onBoundary) (d : Dim) :
    d.rank ≤ ((relateParts ⟨[], ls, []⟩ ⟨[], ms, []⟩).get X Y).rank ↔
      d = .empty ∨ (d.rank ≤ Dim.zero.rank ∧
        ∃ v, locateParts ⟨[], ls, []⟩ v = X ∧ locateParts ⟨[], ms, []⟩ v = Y) := by
  have hne : ¬ (X = .outside ∧ Y = .outside) := by
    rintro ⟨rfl, rfl⟩
    rcases hXY with h | h <;> cases h
  rw [cell_le_iff hne]
  constructor
  · rintro (rfl | ⟨x, hx, hxa, hxb, hd⟩)
    · exact Or.inl rfl
    · right
      rcases mem_atomsOf_cases hx with ⟨v, _, rfl⟩ | ⟨s, _, _, m, _, hnv, rfl | rfl | rfl⟩
      · exact ⟨hd, v, hxa, hxb⟩
      · exfalso
        rcases hXY with h | h
        · rw [h] at hxa; exact hnv (boundary_mem_verts_left hxa)
        · rw [h] at hxb; exact hnv (boundary_mem_verts hxb)
      · exfalso
        simp only [locateFace_linear] at hxa hxb
        rcases hXY with h | h
        · rw [h] at hxa; cases hxa
        · rw [h] at hxb; cases hxb
      · exfalso
        simp only [locateFace_linear] at hxa hxb
        rcases hXY with h | h
        · rw [h] at hxa; cases hxa
        · rw [h] at hxb; cases hxb
  · rintro (rfl | ⟨hd, v, hva, hvb⟩)
    · exact Or.inl rfl
    · right
      have hv : v ∈ vertsOf ⟨[], ls, []⟩ ⟨[], ms, []⟩ := by
        rcases hXY with h | h
        · rw [h] at hva; exact boundary_mem_verts_left hva
        · rw [h] at hvb; exact boundary_mem_verts hvb
      exact ⟨_, vertex_atom_mem hv, hva, hvb, hd⟩

set_option linter.unnecessarySeqFocus false in
/-- … as a value: `0` if some point has the two locations, `F` otherwise -/
theorem linear_cell_boundary_zero (ls ms : List (List Pt)) (X Y : Pos) (hXY : X = .onBoundary ∨ Y = .onBoundary) :
    ((relateParts ⟨[], ls, []⟩ ⟨[], ms, []⟩).get X Y = .zero ↔
      ∃ v, locateParts ⟨[], ls, []⟩ v = X ∧ locateParts ⟨[], ms, []⟩ v = Y) ∧
    ((relateParts ⟨[], ls, []⟩ ⟨[], ms, []⟩).get X Y = .empty ↔
      ¬ ∃ v, locateParts ⟨[], ls, []⟩ v = X ∧ locateParts ⟨[], ms, []⟩ v = Y) := by
  have key := linear_cell_boundary ls ms X Y hXY
  generalize (relateParts ⟨[], ls, []⟩ ⟨[], ms, []⟩).get X Y = c at key
  by_cases hex : ∃ v, locateParts ⟨[], ls, []⟩ v = X ∧ locateParts ⟨[], ms, []⟩ v = Y
  · have h0 : Dim.zero.rank ≤ c.rank := (key .zero).2 (Or.inr ⟨Nat.le_refl _, hex⟩)
    have h1 : ¬ Dim.one.rank ≤ c.rank := by
      intro h
      rcases (key .one).1 h with h' | ⟨h', _⟩
      · cases h'
      · exact absurd h' (by decide)
    cases c <;> simp [Dim.rank] at h0 h1 ⊢ <;> exact hex
  · have h0 : ¬ Dim.zero.rank ≤ c.rank := by
      intro h
      rcases (key .zero).1 h with h' | ⟨_, h'⟩
      · cases h'
      · exact hex h'
    cases c <;> simp [Dim.rank] at h0 ⊢ <;> (first | exact hex | exact fun x hx hy => hex ⟨x, hx, hy⟩)

/-! ### Line × Line -/

theorem locate_line_boundary_iff (a b p : Pt) (hab : a ≠ b) :
    locateParts ⟨[], [[a, b]], []⟩ p = .onBoundary ↔ p = a ∨ p = b := by
  constructor
  · intro h
    obtain ⟨c, hc, hp⟩ := boundary_mem_curve h
    simp only [List.mem_singleton] at hc
    subst hc
    simpa using hp
  · rintro (rfl | rfl)
    · exact (locate_line_end _ b hab).1
    · exact (locate_line_end a _ hab).2

/-- **Line × Line, the cell BB**: `0` iff the segments share an end point, `F` otherwise -/
theorem line_line_bb (a b c d : Pt) (hab : a ≠ b) (hcd : c ≠ d) :
    ((relateSpec (.line a b) (.line c d)).bb = .zero ↔ (a = c ∨ a = d ∨ b = c ∨ b = d)) ∧
    ((relateSpec (.line a b) (.line c d)).bb = .empty ↔ ¬ (a = c ∨ a = d ∨ b = c ∨ b = d)) := by
  have h := linear_cell_boundary_zero [[a, b]] [[c, d]] .onBoundary .onBoundary (Or.inl rfl)
  have hiff : (∃ v, locateParts ⟨[], [[a, b]], []⟩ v = .onBoundary ∧ locateParts ⟨[], [[c, d]], []⟩ v = .onBoundary) ↔
      (a = c ∨ a = d ∨ b = c ∨ b = d) := by
    constructor
    · rintro ⟨v, h1, h2⟩
      rw [locate_line_boundary_iff a b v hab] at h1
      rw [locate_line_boundary_iff c d v hcd] at h2
      rcases h1 with rfl | rfl <;> rcases h2 with rfl | rfl <;> simp
    · rintro (rfl | rfl | rfl | rfl)
      · exact ⟨a, (locate_line_boundary_iff a b a hab).2 (Or.inl rfl), (locate_line_boundary_iff a d a hcd).2 (Or.inl rfl)⟩
      · exact ⟨a, (locate_line_boundary_iff a b a hab).2 (Or.inl rfl), (locate_line_boundary_iff c a a hcd).2 (Or.inr rfl)⟩
      · exact ⟨b, (locate_line_boundary_iff a b b hab).2 (Or.inr rfl), (locate_line_boundary_iff b d b hcd).2 (Or.inl rfl)⟩
      · exact ⟨b, (locate_line_boundary_iff a b b hab).2 (Or.inr rfl), (locate_line_boundary_iff c b b hcd).2 (Or.inr rfl)⟩
  rw [← hiff]
  exact h

/-- **Line × Line, the cell IB**: `0` iff an end point of the second segment lies in the open first segment -/
theorem line_line_ib (a b c d : Pt) (hab : a ≠ b) (hcd : c ≠ d) :
    ((relateSpec (.line a b) (.line c d)).ib = .zero ↔ (SegInt c a b ∨ SegInt d a b)) ∧
    ((relateSpec (.line a b) (.line c d)).ib = .empty ↔ ¬ (SegInt c a b ∨ SegInt d a b)) := by
  have h := linear_cell_boundary_zero [[a, b]] [[c, d]] .inside .onBoundary (Or.inr rfl)
  have hiff : (∃ v, locateParts ⟨[], [[a, b]], []⟩ v = .inside ∧ locateParts ⟨[], [[c, d]], []⟩ v = .onBoundary) ↔
      (SegInt c a b ∨ SegInt d a b) := by
    constructor
    · rintro ⟨v, h1, h2⟩
      rw [locate_line_inside a b v hab] at h1
      rw [locate_line_boundary_iff c d v hcd] at h2
      rcases h2 with rfl | rfl
      · exact Or.inl h1
      · exact Or.inr h1
    · rintro (h1 | h1)
      · exact ⟨c, (locate_line_inside a b c hab).2 h1, (locate_line_boundary_iff c d c hcd).2 (Or.inl rfl)⟩
      · exact ⟨d, (locate_line_inside a b d hab).2 h1, (locate_line_boundary_iff c d d hcd).2 (Or.inr rfl)⟩
  rw [← hiff]
  exact h

/-- **Line × Line, the cell BE**: `0` iff an end point of the first segment is off the second segment -/
theorem line_line_be (a b c d : Pt) (hab : a ≠ b) :
    ((relateSpec (.line a b) (.line c d)).be = .zero ↔
      (locate (.line c d) a = .outside ∨ locate (.line c d) b = .outside)) ∧
    ((relateSpec (.line a b) (.line c d)).be = .empty ↔
      ¬ (locate (.line c d) a = .outside ∨ locate (.line c d) b = .outside)) := by
  have h := linear_cell_boundary_zero [[a, b]] [[c, d]] .onBoundary .outside (Or.inl rfl)
  have hiff : (∃ v, locateParts ⟨[], [[a, b]], []⟩ v = .onBoundary ∧ locateParts ⟨[], [[c, d]], []⟩ v = .outside) ↔
      (locate (.line c d) a = .outside ∨ locate (.line c d) b = .outside) := by
    constructor
    · rintro ⟨v, h1, h2⟩
      rw [locate_line_boundary_iff a b v hab] at h1
      rcases h1 with rfl | rfl
      · exact Or.inl h2
      · exact Or.inr h2
    · rintro (h1 | h1)
      · exact ⟨a, (locate_line_boundary_iff a b a hab).2 (Or.inl rfl), h1⟩
      · exact ⟨b, (locate_line_boundary_iff a b b hab).2 (Or.inr rfl), h1⟩
  rw [← hiff]
  exact h

end Geo.Proofs.RELM3
