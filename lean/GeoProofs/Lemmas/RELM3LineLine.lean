/-
  RELM3 — the specification for two LINEAR operands (any two lists of curves; Line × Line in particular): every cell
  that involves a BOUNDARY — IB, BI, BB, BE, EB — is `0` or `F`, and `0` exactly when some point has that pair of
  locations.  (A boundary point of a linear operand is an end point of a curve, hence a vertex of the arrangement;
  elementary midpoints are not vertices; face samples are outside of linear operands.)
-/
import GeoProofs.Lemmas.RELM3PointMP

namespace Geo.Proofs.RELM3
open Geo Geo.GG Geo.RI Geo.Proofs.Spec Geo.Proofs.RELM Geo.Proofs.RELM2 Geo.Proofs.Kernel

theorem boundary_mem_verts_left {ls : List (List Pt)} {pb : Parts} {v : Pt}
    (h : locateParts ⟨[], ls, []⟩ v = .onBoundary) : v ∈ vertsOf ⟨[], ls, []⟩ pb := by
  obtain ⟨c, hc, hv⟩ := boundary_mem_curve h
  exact Geo.Proofs.C02X.allCoords_mem_verts_left (mem_allCoords_curve (ps := ⟨[], ls, []⟩) hc hv)

/-- **linear × linear: a cell with a boundary in it** -/
theorem linear_cell_boundary (ls ms : List (List Pt)) (X Y : Pos) (hXY : X = .onBoundary ∨ Y = .onBoundary) (d : Dim) :
    d.rank ≤ ((relateParts ⟨[], ls, []⟩ ⟨[], ms, []⟩).get X Y).rank ↔
      d = .empty ∨ (d.rank ≤ Dim.zero.rank ∧
        ∃ v, locateParts ⟨[], ls, []⟩ v = X ∧ locateParts ⟨[], ms, []⟩ v = Y) := by
  have hne : ¬ (X = .outside ∧ Y = .outside) := by
    rintro ⟨rfl, rfl⟩
    rcases hXY with h | h <;> cases h
  rw [cell_le_iff hne]
  constructor
  · rintro (rfl | ⟨x, hx, hxa, hxb, hd⟩)
    · exact Or.inl rfl
    · right
      rcases mem_atomsOf_cases hx with ⟨v, _, rfl⟩ | ⟨s, _, _, m, _, hnv, rfl | rfl | rfl⟩
      · exact ⟨hd, v, hxa, hxb⟩
      · exfalso
        rcases hXY with h | h
        · rw [h] at hxa; exact hnv (boundary_mem_verts_left hxa)
        · rw [h] at hxb; exact hnv (boundary_mem_verts hxb)
      · exfalso
        simp only [locateFace_linear] at hxa hxb
        rcases hXY with h | h
        · rw [h] at hxa; cases hxa
        · rw [h] at hxb; cases hxb
      · exfalso
        simp only [locateFace_linear] at hxa hxb
        rcases hXY with h | h
        · rw [h] at hxa; cases hxa
        · rw [h] at hxb; cases hxb
  · rintro (rfl | ⟨hd, v, hva, hvb⟩)
    · exact Or.inl rfl
    · right
      have hv : v ∈ vertsOf ⟨[], ls, []⟩ ⟨[], ms, []⟩ := by
        rcases hXY with h | h
        · rw [h] at hva; exact boundary_mem_verts_left hva
        · rw [h] at hvb; exact boundary_mem_verts hvb
      exact ⟨_, vertex_atom_mem hv, hva, hvb, hd⟩

set_option linter.unnecessarySeqFocus false in
/-- … as a value: `0` if some point has the two locations, `F` otherwise -/
theorem linear_cell_boundary_zero (ls ms : List (List Pt)) (X Y : Pos) (hXY : X = .onBoundary ∨ Y = .onBoundary) :
    ((relateParts ⟨[], ls, []⟩ ⟨[], ms, []⟩).get X Y = .zero ↔
      ∃ v, locateParts ⟨[], ls, []⟩ v = X ∧ locateParts ⟨[], ms, []⟩ v = Y) ∧
    ((relateParts ⟨[], ls, []⟩ ⟨[], ms, []⟩).get X Y = .empty ↔
      ¬ ∃ v, locateParts ⟨[], ls, []⟩ v = X ∧ locateParts ⟨[], ms, []⟩ v = Y) := by
  have key := linear_cell_boundary ls ms X Y hXY
  generalize (relateParts ⟨[], ls, []⟩ ⟨[], ms, []⟩).get X Y = c at key
  by_cases hex : ∃ v, locateParts ⟨[], ls, []⟩ v = X ∧ locateParts ⟨[], ms, []⟩ v = Y
  · have h0 : Dim.zero.rank ≤ c.rank := (key .zero).2 (Or.inr ⟨Nat.le_refl _, hex⟩)
    have h1 : ¬ Dim.one.rank ≤ c.rank := by
      intro h
      rcases (key .one).1 h with h' | ⟨h', _⟩
      · cases h'
      · exact absurd h' (by decide)
    cases c <;> simp [Dim.rank] at h0 h1 ⊢ <;> exact hex
  · have h0 : ¬ Dim.zero.rank ≤ c.rank := by
      intro h
      rcases (key .zero).1 h with h' | ⟨_, h'⟩
      · cases h'
      · exact hex h'
    cases c <;> simp [Dim.rank] at h0 ⊢ <;> (first | exact hex | exact fun x hx hy => hex ⟨x, hx, hy⟩)

/-! ### Line × Line -/

theorem locate_line_boundary_iff (a b p : Pt) (hab : a ≠ b) :
    locateParts ⟨[], [[a, b]], []⟩ p = .onBoundary ↔ p = a ∨ p = b := by
  constructor
  · intro h
    obtain ⟨c, hc, hp⟩ := boundary_mem_curve h
    simp only [List.mem_singleton] at hc
    subst hc
    simpa using hp
  · rintro (rfl | rfl)
    · exact (locate_line_end _ b hab).1
    · exact (locate_line_end a _ hab).2

/-- **Line × Line, the cell BB**: `0` iff the segments share an end point, `F` otherwise -/
theorem line_line_bb (a b c d : Pt) (hab : a ≠ b) (hcd : c ≠ d) :
    ((relateSpec (.line a b) (.line c d)).bb = .zero ↔ (a = c ∨ a = d ∨ b = c ∨ b = d)) ∧
    ((relateSpec (.line a b) (.line c d)).bb = .empty ↔ ¬ (a = c ∨ a = d ∨ b = c ∨ b = d)) := by
  have h := linear_cell_boundary_zero [[a, b]] [[c, d]] .onBoundary .onBoundary (Or.inl rfl)
  have hiff : (∃ v, locateParts ⟨[], [[a, b]], []⟩ v = .onBoundary ∧ locateParts ⟨[], [[c, d]], []⟩ v = .onBoundary) ↔
      (a = c ∨ a = d ∨ b = c ∨ b = d) := by
    constructor
    · rintro ⟨v, h1, h2⟩
      rw [locate_line_boundary_iff a b v hab] at h1
      rw [locate_line_boundary_iff c d v hcd] at h2
      rcases h1 with rfl | rfl <;> rcases h2 with rfl | rfl <;> simp
    · rintro (rfl | rfl | rfl | rfl)
      · exact ⟨a, (locate_line_boundary_iff a b a hab).2 (Or.inl rfl), (locate_line_boundary_iff a d a hcd).2 (Or.inl rfl)⟩
      · exact ⟨a, (locate_line_boundary_iff a b a hab).2 (Or.inl rfl), (locate_line_boundary_iff c a a hcd).2 (Or.inr rfl)⟩
      · exact ⟨b, (locate_line_boundary_iff a b b hab).2 (Or.inr rfl), (locate_line_boundary_iff b d b hcd).2 (Or.inl rfl)⟩
      · exact ⟨b, (locate_line_boundary_iff a b b hab).2 (Or.inr rfl), (locate_line_boundary_iff c b b hcd).2 (Or.inr rfl)⟩
  rw [← hiff]
  exact h

/-- **Line × Line, the cell IB**: `0` iff an end point of the second segment lies in the open first segment -/
theorem line_line_ib (a b c d : Pt) (hab : a ≠ b) (hcd : c ≠ d) :
    ((relateSpec (.line a b) (.line c d)).ib = .zero ↔ (SegInt c a b ∨ SegInt d a b)) ∧
    ((relateSpec (.line a b) (.line c d)).ib = .empty ↔ ¬ (SegInt c a b ∨ SegInt d a b)) := by
  have h := linear_cell_boundary_zero [[a, b]] [[c, d]] .inside .onBoundary (Or.inr rfl)
  have hiff : (∃ v, locateParts ⟨[], [[a, b]], []⟩ v = .inside ∧ locateParts ⟨[], [[c, d]], []⟩ v = .onBoundary) ↔
      (SegInt c a b ∨ SegInt d a b) := by
    constructor
    · rintro ⟨v, h1, h2⟩
      rw [locate_line_inside a b v hab] at h1
      rw [locate_line_boundary_iff c d v hcd] at h2
      rcases h2 with rfl | rfl
      · exact Or.inl h1
      · exact Or.inr h1
    · rintro (h1 | h1)
      · exact ⟨c, (locate_line_inside a b c hab).2 h1, (locate_line_boundary_iff c d c hcd).2 (Or.inl rfl)⟩
      · exact ⟨d, (locate_line_inside a b d hab).2 h1, (locate_line_boundary_iff c d d hcd).2 (Or.inr rfl)⟩
  rw [← hiff]
  exact h

/-- **Line × Line, the cell BE**: `0` iff an end point of the first segment is off the second segment -/
theorem line_line_be (a b c d : Pt) (hab : a ≠ b) :
    ((relateSpec (.line a b) (.line c d)).be = .zero ↔
      (locate (.line c d) a = .outside ∨ locate (.line c d) b = .outside)) ∧
    ((relateSpec (.line a b) (.line c d)).be = .empty ↔
      ¬ (locate (.line c d) a = .outside ∨ locate (.line c d) b = .outside)) := by
  have h := linear_cell_boundary_zero [[a, b]] [[c, d]] .onBoundary .outside (Or.inl rfl)
  have hiff : (∃ v, locateParts ⟨[], [[a, b]], []⟩ v = .onBoundary ∧ locateParts ⟨[], [[c, d]], []⟩ v = .outside) ↔
      (locate (.line c d) a = .outside ∨ locate (.line c d) b = .outside) := by
    constructor
    · rintro ⟨v, h1, h2⟩
      rw [locate_line_boundary_iff a b v hab] at h1
      rcases h1 with rfl | rfl
      · exact Or.inl h2
      · exact Or.inr h2
    · rintro (h1 | h1)
      · exact ⟨a, (locate_line_boundary_iff a b a hab).2 (Or.inl rfl), h1⟩
      · exact ⟨b, (locate_line_boundary_iff a b b hab).2 (Or.inr rfl), h1⟩
  rw [← hiff]
  exact h

end Geo.Proofs.RELM3

namespace Geo.Proofs.RELM3
open Geo Geo.GG Geo.RI Geo.Proofs.Spec Geo.Proofs.RELM Geo.Proofs.RELM2 Geo.Proofs.Kernel
open Geo.Proofs.C02X Geo.Proofs.C02Q

/-! ### Line × Line, the cells IE / EI -/

/-- a point of a segment of the arrangement that is not a vertex is represented by a ONE-dimensional atom with its
pair of locations (the midpoint of its elementary sub-segment) -/
theorem atom_one_of_nonvertex {pa pb : Parts} (ca : ClosedRings pa) (cb : ClosedRings pb) {p : Pt}
    (hv : p ∉ vertsOf pa pb) {s : Pt × Pt} (hs : s ∈ pa.allSegs ++ pb.allSegs) (hpm : SegMem p s.1 s.2) :
    ∃ x ∈ atomsOf pa pb, x.dim = .one ∧ x.posA = locateParts pa p ∧ x.posB = locateParts pb p := by
  obtain ⟨a, b⟩ := s
  obtain ⟨ha, hb⟩ := ends_mem_vertsOf hs
  have hab : a ≠ b := by
    intro e
    subst e
    rw [SegMem_degenerate] at hpm
    exact hv (hpm ▸ ha)
  obtain ⟨u, v, E, hw⟩ := exists_elem hab ha hb hpm hv
  have hmw := E.midpoint_within
  obtain ⟨_, _, hall⟩ := segAtoms_of_pair pa pb hab E.pair E.ne
  refine ⟨⟨.one, locateParts pa (midpoint u v), locateParts pb (midpoint u v)⟩, ?_, rfl, ?_, ?_⟩
  · unfold atomsOf
    exact List.mem_append_right _ (List.mem_flatMap.mpr ⟨(a, b), hs, hall _ (Or.inl rfl)⟩)
  · exact locate_const (fun s hs' => List.mem_append_left _ hs') (fun c hc => allCoords_mem_verts_left hc)
      ca hs E hw hmw
  · exact locate_const (fun s hs' => List.mem_append_right _ hs') (fun c hc => allCoords_mem_verts_right hc)
      cb hs E hw hmw

/-- a vertex of the arrangement of two segments is an end point of the first or lies on the second -/
theorem verts_line_line {a b c d v : Pt} (hv : v ∈ vertsOf ⟨[], [[a, b]], []⟩ ⟨[], [[c, d]], []⟩) :
    v = a ∨ v = b ∨ SegMem v c d := by
  unfold vertsOf at hv
  rw [Geo.Proofs.Spec.mem_dedupPts, allSegs_line, allSegs_line] at hv
  simp only [List.mem_append] at hv
  rcases hv with (((hv | hv) | hv) | hv) | hv
  · simp only [endsOf, List.cons_append, List.nil_append, List.flatMap_cons, List.flatMap_nil, List.append_nil,
      List.mem_cons, List.not_mem_nil, or_false] at hv
    rcases hv with rfl | rfl | rfl | rfl
    · exact Or.inl rfl
    · exact Or.inr (Or.inl rfl)
    · exact Or.inr (Or.inr (SegMem_left _ _))
    · exact Or.inr (Or.inr (SegMem_right _ _))
  · simp [singleOf] at hv
  · cases hv
  · cases hv
  · rw [mem_pairVertices_iff] at hv
    obtain ⟨s, hs, t, ht, hx⟩ := hv
    have hon : ∀ (p1 p2 q1 q2 : Pt), v ∈ segVertex (p1, p2) (q1, q2) → SegMem v p1 p2 ∧ SegMem v q1 q2 := by
      intro p1 p2 q1 q2 h
      unfold segVertex at h
      split at h
      · rename_i q f hli
        simp only [List.mem_singleton] at h
        subst h
        exact (Geo.Proofs.C11.li_single_exact p1 p2 q1 q2 v f hli v).2 rfl
      · cases h
    simp only [List.cons_append, List.nil_append, List.mem_cons, List.not_mem_nil, or_false] at hs ht
    rcases hs with rfl | rfl <;> rcases ht with rfl | rfl
    · rw [segVertex_self] at hx; cases hx
    · exact Or.inr (Or.inr (hon _ _ _ _ hx).2)
    · exact Or.inr (Or.inr (hon _ _ _ _ hx).1)
    · rw [segVertex_self] at hx; cases hx

theorem locate_line_outside_iff (c d p : Pt) :
    locateParts ⟨[], [[c, d]], []⟩ p = .outside ↔ ¬ SegMem p c d := by
  rw [locateParts_linear _ _ rfl rfl]
  have hon : onAnySeg p (Parts.curveSegs ⟨[], [[c, d]], []⟩) = lineCoord c d p := by
    simp [Parts.curveSegs, onAnySeg, segs]
  rw [hon, ← lineCoord_iff]
  cases lineCoord c d p
  · simp
  · simp only [if_true]
    constructor
    · intro h; split at h <;> cases h
    · intro h; exact absurd trivial h

theorem dim_value_of_iff {c k : Dim} {P : Prop}
    (key : ∀ d : Dim, d.rank ≤ c.rank ↔ d = .empty ∨ (d.rank ≤ k.rank ∧ P)) (hk : k ≠ .empty) :
    (c = k ↔ P) ∧ (c = .empty ↔ ¬ P) := by
  by_cases hP : P
  · have h1 : k.rank ≤ c.rank := (key k).2 (Or.inr ⟨Nat.le_refl _, hP⟩)
    have h2 : c.rank ≤ k.rank := by
      rcases (key c).1 (Nat.le_refl _) with h | ⟨h, _⟩
      · rw [h]; exact Nat.zero_le _
      · exact h
    have hck : c = k := by
      cases c <;> cases k <;> simp [Dim.rank] at h1 h2 ⊢
    refine ⟨⟨fun _ => hP, fun _ => hck⟩, ⟨fun h => ?_, fun h => absurd hP h⟩⟩
    rw [hck] at h
    exact absurd h hk
  · have hc : c = .empty := by
      rcases (key c).1 (Nat.le_refl _) with h | ⟨_, h⟩
      · exact h
      · exact absurd h hP
    refine ⟨⟨fun h => ?_, fun h => absurd h hP⟩, ⟨fun _ => hP, fun _ => hc⟩⟩
    rw [hc] at h
    exact absurd h.symm hk

/-- **Line × Line, the cell IE**: `1` iff some point of the open first segment is off the second segment, `F`
otherwise (never `0`) -/
theorem line_line_ie (a b c d : Pt) (hab : a ≠ b) :
    ((relateSpec (.line a b) (.line c d)).ie = .one ↔ ∃ x, SegInt x a b ∧ ¬ SegMem x c d) ∧
    ((relateSpec (.line a b) (.line c d)).ie = .empty ↔ ¬ ∃ x, SegInt x a b ∧ ¬ SegMem x c d) := by
  apply dim_value_of_iff _ (by decide)
  intro e
  show e.rank ≤ ((relateParts ⟨[], [[a, b]], []⟩ ⟨[], [[c, d]], []⟩).get .inside .outside).rank ↔ _
  rw [cell_le_iff (by simp)]
  constructor
  · rintro (rfl | ⟨x, hx, hxa, hxb, hd⟩)
    · exact Or.inl rfl
    · right
      rcases mem_atomsOf_cases hx with ⟨v, _, rfl⟩ | ⟨s, _, _, m, _, _, rfl | rfl | rfl⟩
      · exact ⟨Nat.le_trans hd (show Dim.zero.rank ≤ Dim.one.rank by decide), v,
          (locate_line_inside a b v hab).1 hxa, (locate_line_outside_iff c d v).1 hxb⟩
      · exact ⟨hd, m, (locate_line_inside a b m hab).1 hxa, (locate_line_outside_iff c d m).1 hxb⟩
      · simp only [locateFace_linear] at hxa; cases hxa
      · simp only [locateFace_linear] at hxa; cases hxa
  · rintro (rfl | ⟨hd, x, hxi, hxo⟩)
    · exact Or.inl rfl
    · right
      have hnv : x ∉ vertsOf ⟨[], [[a, b]], []⟩ ⟨[], [[c, d]], []⟩ := by
        intro hv
        rcases verts_line_line hv with h | h | h
        · exact hxi.2.1 h
        · exact hxi.2.2 h
        · exact hxo h
      obtain ⟨y, hy, hyd, hya, hyb⟩ := atom_one_of_nonvertex (closedRings_of_noAreas rfl) (closedRings_of_noAreas rfl)
        hnv (s := (a, b)) (by rw [allSegs_line, allSegs_line]; simp) hxi.1
      refine ⟨y, hy, ?_, ?_, by rw [hyd]; exact hd⟩
      · rw [hya]; exact (locate_line_inside a b x hab).2 hxi
      · rw [hyb]; exact (locate_line_outside_iff c d x).2 hxo

end Geo.Proofs.RELM3
