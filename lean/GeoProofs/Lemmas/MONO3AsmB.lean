/-
  MONO3 (C10): `process_next_pt` cut into its steps, with names.
-/
import GeoProofs.Lemmas.MONO3Asm

namespace Geo.Proofs.MONO3
open Geo Geo.Mono Geo.MonoBuild Geo.Proofs.C10 Geo.Proofs.MONO Geo.Proofs.MONO2

/-- the upper bound of the `drain` of steps 3 and 4 -/
def ubOf (v : List Nat) (si : Nat) : Nat := v.length - (v.length - si) % 2

theorem processNextPt_factor {fuel : Nat} {st st' : St} (h : processNextPt fuel st = some (st', true)) :
    ∃ (st1 : St) (pt : Pt) (incoming outgoing : List Nat) (si : Nat) (st2 st3 : St)
      (ic : Option Nat × Option Nat) (st4 : St),
      nextPoint fuel { st with incoming := [], outgoing := [] } = some (st1, some pt) ∧
      sortBy st1.segCmp? st1.incoming = some incoming ∧ sortBy st1.segCmp? st1.outgoing = some outgoing ∧ si ≤ 1 ∧
      (if incoming.isEmpty then some st1
        else reduceIncoming pt (drainRange incoming si (ubOf incoming si)).1 st1) = some st2 ∧
      inChains pt (st1.prevActive pt) (((st1.prevActive pt).bind st1.infoOf).bind (·.help))
        (if incoming.isEmpty then incoming else (drainRange incoming si (ubOf incoming si)).2) st2 = some (st3, ic) ∧
      (if outgoing.isEmpty then some st3
        else startOutgoing pt (drainRange outgoing si (ubOf outgoing si)).1 st3) = some st4 ∧
      tieUp pt (st1.prevActive pt) ((((st1.prevActive pt).bind st1.infoOf).map (·.nextIsInside)).getD false)
        (if outgoing.isEmpty then outgoing else (drainRange outgoing si (ubOf outgoing si)).2) st4 ic = some st' := by
  unfold processNextPt at h
  osplit h
  rename_i st1 pt e1
  osplit h
  rename_i incoming outgoing hin hout
  simp only at h
  osplit h
  rename_i st2 e2
  osplit h
  rename_i st3 ic e3
  osplit h
  rename_i st4 e4
  osplit h
  rename_i st5 e5
  simp only [Option.some.injEq, Prod.mk.injEq, and_true] at h
  subst h
  exact ⟨st1, pt, incoming, outgoing, _, st2, st3, ic, st4, e1, hin, hout, by split <;> omega, e2, e3, e4, e5⟩

/-- what is drained and what is left, for a non-empty vector -/
theorem drain_facts (v : List Nat) (si : Nat) (hsi : si ≤ 1) :
    (∀ x ∈ (drainRange v si (ubOf v si)).1, x ∈ v) ∧
    (∀ x ∈ (if v.isEmpty then v else (drainRange v si (ubOf v si)).2), x ∈ v) ∧
    (v.Nodup → (if v.isEmpty then v else (drainRange v si (ubOf v si)).2).Nodup) ∧
    (v.isEmpty = false → ∀ x ∈ v, x ∈ (drainRange v si (ubOf v si)).1 ∨ x ∈ (drainRange v si (ubOf v si)).2) := by
  refine ⟨fun x hx => (drainRange_drained_sublist _ _ _).subset hx, ?_, ?_, ?_⟩
  · intro x hx
    split at hx
    · exact hx
    · rename_i hne
      refine (drainRange_rest_sublist _ _ _ ?_).subset hx
      have : v.length ≠ 0 := by intro e0; apply hne; simp [List.length_eq_zero_iff.1 e0]
      unfold ubOf; omega
  · intro hnd
    split
    · exact hnd
    · rename_i hne
      refine (drainRange_rest_sublist _ _ _ ?_).nodup hnd
      have : v.length ≠ 0 := by intro e0; apply hne; simp [List.length_eq_zero_iff.1 e0]
      unfold ubOf; omega
  · intro hne x hx
    refine drainRange_mem v _ _ ?_ hx
    have : v.length ≠ 0 := by intro e0; simp [List.length_eq_zero_iff.1 e0] at hne
    unfold ubOf; omega

end Geo.Proofs.MONO3
