/-
  RELM2 — the nodes of the self-noded graph of an areal operand carry the specification's location:
  a point on a ring of a Polygon / Rect / Triangle is located `OnBoundary` (any polygon whose rings
  have at least two coordinates), on a ring of an OGC-valid MultiPolygon as well (members apart,
  C02X `multiPolyValid_apart`).  Hence `NodesLocate` for the areal types, and rows Interior /
  Boundary of `relate(Point, B)` = the specification's for every `B` with `NodesLocate`.
-/
import GeoProofs.Lemmas.RELM2Areal
import GeoProofs.Lemmas.C02XMulti
import GeoProofs.Lemmas.C01QPoint

namespace Geo.Proofs.RELM2
open Geo Geo.GG Geo.RI Geo.Proofs.Spec Geo.Proofs.RELM Geo.Proofs.Kernel

/-- **the nodes of `B`'s self-noded graph carry the specification's location of their coordinate** -/
def NodesLocate (ar : Arith) (b : Geom) : Prop :=
  ∀ n ∈ (freshGraph ar 1 b).nodes, n.label.onPos 1 = some (locate b n.coord)

/-- every intersection self-noding records on an edge of `B` is a node of `B`'s graph -/
def EisAreNodes (ar : Arith) (b : Geom) : Prop :=
  ∀ e ∈ (freshGraph ar 1 b).edges, ∀ r ∈ e.eis, r.coord ∈ (freshGraph ar 1 b).nodes.map (·.coord)

/-- **Rows Interior / Boundary of `relate(Point p, B)` = rows of the specification**, for every `B`
whose graph nodes carry the specification's location, at every `p` where `coordinate_position` is the
specification's location. -/
theorem point_rows_eq_spec_of_nodesLocate (ar : Arith) (p : Pt) (b : Geom) {m : IM}
    (h : relateGraph ar (.point p) b = some m) (hN : NodesLocate ar b) (hE : EisAreNodes ar b)
    (hloc : coordPos b p = locate b p) (X Y : Pos) (hX : X ≠ .outside) :
    m.get X Y = (relateSpec (.point p) b).get X Y := by
  have hs : (relateSpec (.point p) b).get X Y = if X = .inside ∧ locate b p = Y then .zero else .empty :=
    Spec.relate_point_left p (parts b) X Y hX
  rw [hs]
  by_cases hex : p ∈ (freshGraph ar 1 b).nodes.map (·.coord)
  · exact point_rows_node ar p b (locate b p) h (fun g hg hc => by rw [hN g hg, hc]) hex X Y hX
  · rw [point_rows_isolated ar p b h (fun e he hc => by
        obtain ⟨r, hr, hrc⟩ := List.mem_map.1 hc
        exact hex (hrc ▸ hE e he r hr)) hex X Y hX, hloc]

/-! ### points on rings are located on the boundary -/

theorem onAnySeg_of_onRing {r : List Pt} {c : Pt} (h : OnRing r c) (hl : 2 ≤ r.length) :
    onAnySeg c (segs r) = true := by
  rcases h with h | h
  · exact h
  · rw [h] at hl; simp at hl

theorem onAnySeg_flatMap {rings : List (List Pt)} {r : List Pt} {c : Pt} (hr : r ∈ rings)
    (h : onAnySeg c (segs r) = true) : onAnySeg c (rings.flatMap segs) = true := by
  unfold onAnySeg at h ⊢
  rw [List.any_eq_true] at h ⊢
  obtain ⟨s, hs, hl⟩ := h
  exact ⟨s, List.mem_flatMap.2 ⟨r, hr, hs⟩, hl⟩

/-- a point on a ring of a polygon (rings with at least two coordinates) is on its boundary -/
theorem locateParts_single_onRings (q : Poly) (c : Pt) (h : OnRings q.rings c) (hl : ∀ r ∈ q.rings, 2 ≤ r.length) :
    locateParts ⟨[], [], [q]⟩ c = .onBoundary := by
  obtain ⟨r, hr, ho⟩ := h
  have hon : onAnySeg c (q.rings.flatMap segs) = true := onAnySeg_flatMap hr (onAnySeg_of_onRing ho (hl r hr))
  unfold locateParts
  simp only [List.any_cons, List.any_nil, Bool.or_false, hon, Bool.not_true, Bool.false_and, Bool.false_eq_true,
    if_false, Parts.areaSegs, List.flatMap_cons, List.flatMap_nil, List.append_nil, Bool.true_or, if_true]

/-- … of an OGC-valid MultiPolygon as well -/
theorem locate_multiPolygon_onRings (ps : List Poly) (hv : multiPolyValid ps = true) (c : Pt)
    (h : OnRings (ps.flatMap Poly.rings) c) : locate (.multiPolygon ps) c = .onBoundary := by
  obtain ⟨r, hr, ho⟩ := h
  obtain ⟨m', hm', hr'⟩ := List.mem_flatMap.1 hr
  have hlong : ∀ m ∈ ps, ∀ r ∈ m.rings, 2 ≤ r.length := by
    intro m hm r hr
    obtain ⟨h1, h2, _⟩ := Geo.Proofs.C02Q.polyValid_unpack (Geo.Proofs.C02X.multiPolyValid_members hv m hm)
    rcases List.mem_cons.1 hr with rfl | hr
    · exact (Geo.Proofs.C02Q.ringOK_of_simple h1).2
    · exact (Geo.Proofs.C02Q.ringOK_of_simple (h2 r hr)).2
  have hb' : locate (.polygon m') c = .onBoundary :=
    locateParts_single_onRings m' c ⟨r, hr', ho⟩ (hlong m' hm')
  have hon : onAnySeg c ((ps.flatMap Poly.rings).flatMap segs) = true :=
    onAnySeg_flatMap hr (onAnySeg_of_onRing ho (hlong m' hm' r hr'))
  have hfirst : ps.any (fun poly => !(onAnySeg c (poly.rings.flatMap segs)) && insidePolyE (EPt.ofPt c) poly) = false := by
    rw [Bool.eq_false_iff]
    intro hany
    rw [List.any_eq_true] at hany
    obtain ⟨m, hm, hcond⟩ := hany
    have hin : locate (.polygon m) c = .inside := by
      unfold locate parts locateParts
      simp only [List.any_cons, List.any_nil, Bool.or_false, hcond, if_true]
    exact Geo.Proofs.C02X.multiPolyValid_apart hv c m hm m' hm' hin hb'
  unfold locate parts locateParts
  simp only [hfirst, Bool.false_eq_true, if_false, Parts.areaSegs, hon, Bool.true_or, if_true]

/-- Polygon (empty or OGC-valid), OGC-valid MultiPolygon, any Rect, any Triangle -/
def arealOk : Geom → Bool
  | .polygon q => (q.ext.isEmpty && q.ints.isEmpty) || polyValid q
  | .multiPolygon ps => multiPolyValid ps
  | .rect _ _ => true
  | .triangle _ _ _ => true
  | _ => false

theorem isAreal_of_arealOk {g : Geom} (h : arealOk g = true) : isAreal g = true := by
  cases g <;> first | rfl | cases h

/-- a point on a ring of an areal operand is located on its boundary -/
theorem locate_onRings_areal (g : Geom) (hg : arealOk g = true) (c : Pt) (h : OnRings (ringsOf g) c) :
    locate g c = .onBoundary := by
  cases g with
  | polygon q =>
    have h' : OnRings q.rings c := by simpa [ringsOf, parts] using h
    simp only [arealOk, Bool.or_eq_true, Bool.and_eq_true, List.isEmpty_iff] at hg
    rcases hg with ⟨he, hi⟩ | hv
    · exfalso
      obtain ⟨r, hr, ho⟩ := h'
      have : r = [] := by simpa [Poly.rings, he, hi] using hr
      subst this
      rcases ho with ho | ho
      · simp [onAnySeg, segs] at ho
      · cases ho
    · apply locateParts_single_onRings q c h'
      intro r hr
      obtain ⟨h1, h2, _⟩ := Geo.Proofs.C02Q.polyValid_unpack hv
      rcases List.mem_cons.1 hr with rfl | hr
      · exact (Geo.Proofs.C02Q.ringOK_of_simple h1).2
      · exact (Geo.Proofs.C02Q.ringOK_of_simple (h2 r hr)).2
  | multiPolygon ps =>
    exact locate_multiPolygon_onRings ps hg c (by simpa [ringsOf, parts] using h)
  | rect mn mx =>
    apply locateParts_single_onRings ⟨SM.rectToPolygon ⟨mn, mx⟩, []⟩ c (by simpa [ringsOf, parts] using h)
    intro r hr
    have : r = SM.rectToPolygon ⟨mn, mx⟩ := by simpa [Poly.rings] using hr
    subst this
    simp [SM.rectToPolygon]
  | triangle a b d =>
    apply locateParts_single_onRings ⟨[a, b, d, a], []⟩ c (by simpa [ringsOf, parts] using h)
    intro r hr
    have : r = [a, b, d, a] := by simpa [Poly.rings] using hr
    subst this
    simp
  | point _ => cases hg
  | line _ _ => cases hg
  | lineString _ => cases hg
  | multiPoint _ => cases hg
  | multiLineString _ => cases hg
  | collection _ => cases hg

/-- **`NodesLocate` for the areal types** (exact arithmetic) -/
theorem nodesLocate_areal (g : Geom) (hg : arealOk g = true) : NodesLocate Arith.exact g := by
  intro n hn
  obtain ⟨h1, h2⟩ := fresh_nodes_areal 1 g (isAreal_of_arealOk hg) n hn
  rw [h1, locate_onRings_areal g hg n.coord h2]

theorem eisAreNodes_areal (ar : Arith) (g : Geom) (hg : isAreal g = true) : EisAreNodes ar g :=
  fresh_eis_sub_nodes ar 1 g (fresh_edges_onPos_areal ar 1 g hg)

end Geo.Proofs.RELM2
