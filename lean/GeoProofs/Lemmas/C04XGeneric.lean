/-
  C04X, part 5: every point off a finite set of rings has a point just above it with the same winding
  number around each of the rings and on a level that avoids all their coordinates. (The crossing
  rule of `edgeW` is half-open in `y`, so moving up by a small `δ` changes no increment.) This removes
  the level hypothesis from the Jordan-type facts of C04XScan / C04XLayer.
-/
import GeoModel.BoolSpec
import GeoProofs.Lemmas.C04Wind
import GeoProofs.Lemmas.C04XLayer
import GeoProofs.Lemmas.SegmentSpec
import Mathlib.Tactic.Linarith
import Mathlib.Tactic.Ring
import Mathlib.Tactic.FieldSimp
import Mathlib.Tactic.LinearCombination

set_option linter.unusedSimpArgs false
set_option linter.unusedVariables false

namespace Geo.Proofs.C04X
open Geo Geo.BoolGlue Geo.BoolSpec Geo.Proofs.C04L Geo.Proofs.Kernel

/-! ### small steps -/

theorem gap_exists (a b : Rat) : ∃ d : Rat, 0 < d ∧ ∀ δ, 0 < δ → δ ≤ d →
    ((b ≤ a + δ ↔ b ≤ a) ∧ (a + δ < b ↔ a < b)) := by
  by_cases h : a < b
  · refine ⟨(b - a) / 2, by linarith, fun δ h0 h1 => ⟨⟨fun h' => by linarith, fun h' => by linarith⟩,
      ⟨fun _ => h, fun _ => by linarith⟩⟩⟩
  · have h' := not_lt.1 h
    refine ⟨1, one_pos, fun δ h0 h1 => ⟨⟨fun _ => h', fun _ => by linarith⟩,
      ⟨fun h'' => by linarith, fun h'' => by linarith⟩⟩⟩

theorem sign_stable (c k : Rat) : ∃ d : Rat, 0 < d ∧ ∀ δ, 0 < δ → δ ≤ d →
    ((0 < c → 0 < c + k * δ) ∧ (c < 0 → c + k * δ < 0)) := by
  by_cases hc : c = 0
  · exact ⟨1, one_pos, fun δ _ _ => ⟨fun h => by linarith, fun h => by linarith⟩⟩
  · have hK : 0 < |k| + 1 := by have := abs_nonneg k; linarith
    have hcp : 0 < |c| := abs_pos.2 hc
    refine ⟨|c| / (2 * (|k| + 1)), by positivity, fun δ h0 h1 => ?_⟩
    have hd : |c| / (2 * (|k| + 1)) * (|k| + 1) = |c| / 2 := by field_simp
    have h2 : (|k| + 1) * δ ≤ |c| / 2 := by
      have := mul_le_mul_of_nonneg_right h1 (le_of_lt hK)
      linarith
    have h3 : -(|k| * δ) ≤ k * δ := by
      have := neg_abs_le k
      nlinarith
    have h4 : k * δ ≤ |k| * δ := by
      have := le_abs_self k
      nlinarith
    constructor
    · intro hpos
      have : |c| = c := abs_of_pos hpos
      nlinarith
    · intro hneg
      have : |c| = -c := abs_of_neg hneg
      nlinarith

theorem segMem_of_cross_zero_up {p s e : Pt} (hc : cross s e p = 0) (h1 : s.y ≤ p.y) (h2 : p.y < e.y) :
    SegMem p s e := by
  have hd : 0 < e.y - s.y := by linarith
  have hne : e.y - s.y ≠ 0 := ne_of_gt hd
  refine ⟨(p.y - s.y) / (e.y - s.y), div_nonneg (by linarith) hd.le, (div_le_one hd).2 (by linarith), ?_, ?_⟩
  · unfold cross at hc
    field_simp
    linear_combination (-1 : Rat) * hc
  · field_simp
    ring

theorem segMem_of_cross_zero_down {p s e : Pt} (hc : cross s e p = 0) (h1 : e.y ≤ p.y) (h2 : p.y < s.y) :
    SegMem p s e := by
  have : cross e s p = 0 := by rw [Geo.Proofs.C04L.cross_rev, hc]; ring
  exact SegMem_symm (segMem_of_cross_zero_up this h1 h2)

/-! ### one edge, one ring, several rings -/

theorem edgeW_up_stable (p s e : Pt) (hoff : ¬ SegMem p s e) :
    ∃ d : Rat, 0 < d ∧ ∀ δ, 0 < δ → δ ≤ d → edgeW ⟨p.x, p.y + δ⟩ s e = edgeW p s e := by
  obtain ⟨d1, hd1, g1⟩ := gap_exists p.y s.y
  obtain ⟨d2, hd2, g2⟩ := gap_exists p.y e.y
  obtain ⟨d3, hd3, g3⟩ := sign_stable (cross s e p) (e.x - s.x)
  refine ⟨min d1 (min d2 d3), lt_min hd1 (lt_min hd2 hd3), fun δ h0 h1 => ?_⟩
  have hc : cross s e ⟨p.x, p.y + δ⟩ = cross s e p + (e.x - s.x) * δ := by unfold cross; ring
  obtain ⟨a1, a2⟩ := g1 δ h0 (le_trans h1 (min_le_left _ _))
  obtain ⟨b1, b2⟩ := g2 δ h0 (le_trans h1 (le_trans (min_le_right _ _) (min_le_left _ _)))
  obtain ⟨c1, c2⟩ := g3 δ h0 (le_trans h1 (le_trans (min_le_right _ _) (min_le_right _ _)))
  unfold edgeW
  simp only [hc, gt_iff_lt]
  by_cases hs : s.y ≤ p.y
  · have hs' : s.y ≤ p.y + δ := a1.2 hs
    rw [if_pos hs, if_pos hs']
    by_cases he : p.y < e.y
    · have he' : p.y + δ < e.y := b2.2 he
      rw [if_pos he, if_pos he']
      rcases lt_trichotomy (cross s e p) 0 with hneg | hz | hpos
      · have h' := c2 hneg
        rw [if_neg (not_lt.2 (le_of_lt h')), if_neg (not_lt.2 (le_of_lt hneg))]
      · exact absurd (segMem_of_cross_zero_up hz hs he) hoff
      · rw [if_pos (c1 hpos), if_pos hpos]
    · have he' : ¬ p.y + δ < e.y := fun h => he (b2.1 h)
      rw [if_neg he, if_neg he']
  · have hs' : ¬ s.y ≤ p.y + δ := fun h => hs (a1.1 h)
    rw [if_neg hs, if_neg hs']
    by_cases he : e.y ≤ p.y
    · have he' : e.y ≤ p.y + δ := b1.2 he
      rw [if_pos he, if_pos he']
      rcases lt_trichotomy (cross s e p) 0 with hneg | hz | hpos
      · rw [if_pos (c2 hneg), if_pos hneg]
      · exact absurd (segMem_of_cross_zero_down hz he (not_le.1 hs)) hoff
      · have h' := c1 hpos
        rw [if_neg (not_lt.2 (le_of_lt h')), if_neg (not_lt.2 (le_of_lt hpos))]
    · have he' : ¬ e.y ≤ p.y + δ := fun h => he (b1.1 h)
      rw [if_neg he, if_neg he']

theorem wind_up_stable (p : Pt) : ∀ es : List (Pt × Pt), (∀ se ∈ es, ¬ SegMem p se.1 se.2) →
    ∃ d : Rat, 0 < d ∧ ∀ δ, 0 < δ → δ ≤ d → wind ⟨p.x, p.y + δ⟩ es = wind p es
  | [], _ => ⟨1, one_pos, fun _ _ _ => rfl⟩
  | (s, e) :: t, h => by
    obtain ⟨d1, hd1, g1⟩ := edgeW_up_stable p s e (h (s, e) List.mem_cons_self)
    obtain ⟨d2, hd2, g2⟩ := wind_up_stable p t (fun se hse => h se (List.mem_cons_of_mem _ hse))
    refine ⟨min d1 d2, lt_min hd1 hd2, fun δ h0 h1 => ?_⟩
    simp only [wind]
    rw [g1 δ h0 (le_trans h1 (min_le_left _ _)), g2 δ h0 (le_trans h1 (min_le_right _ _))]

theorem off_ring_segs {p : Pt} {r : List Pt} (h : onAnySeg p (segs r) = false) :
    ∀ se ∈ segs r, ¬ SegMem p se.1 se.2 := by
  intro se hse hm
  have : onAnySeg p (segs r) = true := by
    rw [Geo.Proofs.Loc.onAnySeg_iff]
    exact ⟨se, hse, (lineCoord_iff _ _ _).mpr hm⟩
  rw [h] at this; cases this

theorem rings_up_stable (p : Pt) : ∀ R : List (List Pt), (∀ r ∈ R, onAnySeg p (segs r) = false) →
    ∃ d : Rat, 0 < d ∧ ∀ δ, 0 < δ → δ ≤ d → ∀ r ∈ R, windRing ⟨p.x, p.y + δ⟩ r = windRing p r
  | [], _ => ⟨1, one_pos, fun _ _ _ _ hr => by cases hr⟩
  | r :: t, h => by
    obtain ⟨d1, hd1, g1⟩ := wind_up_stable p (segs r) (off_ring_segs (h r List.mem_cons_self))
    obtain ⟨d2, hd2, g2⟩ := rings_up_stable p t (fun r' hr' => h r' (List.mem_cons_of_mem _ hr'))
    refine ⟨min d1 d2, lt_min hd1 hd2, fun δ h0 h1 r' hr' => ?_⟩
    rcases List.mem_cons.1 hr' with rfl | hr'
    · exact g1 δ h0 (le_trans h1 (min_le_left _ _))
    · exact g2 δ h0 (le_trans h1 (min_le_right _ _)) r' hr'

theorem level_up_free (y : Rat) : ∀ vs : List Pt,
    ∃ d : Rat, 0 < d ∧ ∀ δ, 0 < δ → δ ≤ d → ∀ v ∈ vs, v.y ≠ y + δ
  | [] => ⟨1, one_pos, fun _ _ _ _ hv => by cases hv⟩
  | v :: t => by
    obtain ⟨d1, hd1, g1⟩ := gap_exists y v.y
    obtain ⟨d2, hd2, g2⟩ := level_up_free y t
    refine ⟨min d1 d2, lt_min hd1 hd2, fun δ h0 h1 w hw => ?_⟩
    rcases List.mem_cons.1 hw with rfl | hw
    · intro heq
      have := (g1 δ h0 (le_trans h1 (min_le_left _ _))).1.1 (le_of_eq heq)
      linarith
    · exact g2 δ h0 (le_trans h1 (min_le_right _ _)) w hw

/-- **a point off the rings has a point with the same winding numbers on a level that avoids all
their coordinates** -/
theorem exists_generic (p : Pt) (R : List (List Pt)) (hoff : ∀ r ∈ R, onAnySeg p (segs r) = false) :
    ∃ p' : Pt, (∀ r ∈ R, windRing p' r = windRing p r) ∧ ∀ r ∈ R, ∀ v ∈ r, v.y ≠ p'.y := by
  obtain ⟨d1, hd1, g1⟩ := rings_up_stable p R hoff
  obtain ⟨d2, hd2, g2⟩ := level_up_free p.y R.flatten
  have hm : 0 < min d1 d2 := lt_min hd1 hd2
  refine ⟨⟨p.x, p.y + min d1 d2⟩, g1 _ hm (min_le_left _ _), ?_⟩
  intro r hr v hv
  exact g2 _ hm (min_le_right _ _) v (List.mem_flatten.2 ⟨r, hr, hv⟩)

/-! ### the layered facts at every point off the rings -/

/-- **every valid polygon is layered at every point off its rings** -/
theorem layered_of_valid_off {q : Poly} (hv : polyValid q = true) {p : Pt}
    (hoff : ∀ r ∈ q.rings, onAnySeg p (segs r) = false) : Layered q p := by
  obtain ⟨p', hw, hlev⟩ := exists_generic p q.rings hoff
  have hfree : levelFree p' q = true := by
    unfold levelFree
    rw [List.all_eq_true]
    intro v hv'
    have : ∃ r ∈ q.rings, v ∈ r := by
      unfold Poly.coords at hv'
      rcases List.mem_append.1 hv' with h | h
      · exact ⟨q.ext, by simp [Poly.rings], h⟩
      · obtain ⟨r, hr, hvr⟩ := List.mem_flatten.1 h
        exact ⟨r, by simp [Poly.rings, hr], hvr⟩
    obtain ⟨r, hr, hvr⟩ := this
    simpa using hlev r hr v hvr
  have L := layered_of_valid hv hfree
  have hext : q.ext ∈ q.rings := by simp [Poly.rings]
  have hint : ∀ h ∈ q.ints, h ∈ q.rings := fun h hh => by simp [Poly.rings, hh]
  refine ⟨?_, ?_, ?_⟩
  · intro r hr
    rw [← hw r hr]
    exact L.unit r hr
  · intro h hh
    rw [← hw h (hint h hh), ← hw q.ext hext]
    exact L.holeInShell h hh
  · refine List.Pairwise.imp_of_mem ?_ L.holesApart
    intro a b ha hb hab
    rw [← hw a (hint a ha), ← hw b (hint b hb)]
    exact hab

end Geo.Proofs.C04X
