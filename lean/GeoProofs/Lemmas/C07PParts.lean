/-
  GeoProofs.Lemmas.C07PParts — the dispatch recursion visits every pair (part of `a`, part of `b`)
  exactly up to the order of the two operands: `calls a b` and `parts a × parts b` cover each other.
  With `C07PBase.lean` this turns "minimum over the calls" into "minimum over all pairs of points of
  the two geometries" for geometries of dimension ≤ 1.
-/
import GeoProofs.Lemmas.C07Dispatch
import GeoProofs.Lemmas.C07PBase

namespace Geo.Proofs.C07
open Geo Geo.Proofs.Kernel

mutual
/-- the single-part members of a geometry, collections flattened -/
def parts : Geom → List Base
  | .point p => [.pt p]
  | .line a b => [.ln a b]
  | .lineString cs => [.ls cs]
  | .polygon p => [.pg p]
  | .rect mn mx => [.rc mn mx]
  | .triangle a b c => [.tr a b c]
  | .multiPoint ps => ps.map .pt
  | .multiLineString ls => ls.map .ls
  | .multiPolygon ps => ps.map .pg
  | .collection gs => partsList gs
def partsList : List Geom → List Base
  | [] => []
  | g :: gs => parts g ++ partsList gs
end

theorem partsList_eq (gs : List Geom) : partsList gs = gs.flatMap parts := by
  induction gs with
  | nil => simp [partsList]
  | cons g gs ih => simp [partsList, ih]

theorem parts_collection (gs : List Geom) : parts (.collection gs) = gs.flatMap parts := by
  rw [parts, partsList_eq]

theorem parts_multiPoint (ps : List Pt) : parts (.multiPoint ps) = (ps.map Geom.point).flatMap parts := by
  induction ps with
  | nil => simp [parts]
  | cons p ps ih => simp [parts] at ih ⊢; exact ih

theorem parts_multiLineString (ls : List (List Pt)) :
    parts (.multiLineString ls) = (ls.map Geom.lineString).flatMap parts := by
  induction ls with
  | nil => simp [parts]
  | cons p ps ih => simp [parts] at ih ⊢; exact ih

theorem parts_multiPolygon (ps : List Poly) :
    parts (.multiPolygon ps) = (ps.map Geom.polygon).flatMap parts := by
  induction ps with
  | nil => simp [parts]
  | cons p ps ih => simp [parts] at ih ⊢; exact ih

/-! ### one dispatch step covers the pairs of parts -/

/-- the delegated operand pairs `subs` cover `parts a × parts b` up to the order of the operands -/
def Cover (a b : Geom) (subs : List (Geom × Geom)) : Prop :=
  (∀ s ∈ subs, ((∀ z ∈ parts s.1, z ∈ parts a) ∧ (∀ z ∈ parts s.2, z ∈ parts b)) ∨
               ((∀ z ∈ parts s.1, z ∈ parts b) ∧ (∀ z ∈ parts s.2, z ∈ parts a))) ∧
  (∀ x ∈ parts a, ∀ y ∈ parts b, ∃ s ∈ subs,
      (x ∈ parts s.1 ∧ y ∈ parts s.2) ∨ (y ∈ parts s.1 ∧ x ∈ parts s.2))

theorem cover_left {a b : Geom} {M : List Geom} (hM : parts a = M.flatMap parts) :
    Cover a b (M.map (fun p => (p, b))) := by
  constructor
  · intro s hs
    obtain ⟨p, hp, rfl⟩ := List.mem_map.mp hs
    exact Or.inl ⟨fun z hz => by rw [hM]; exact List.mem_flatMap.mpr ⟨p, hp, hz⟩, fun z hz => hz⟩
  · intro x hx y hy
    rw [hM] at hx
    obtain ⟨p, hp, hxp⟩ := List.mem_flatMap.mp hx
    exact ⟨(p, b), List.mem_map.mpr ⟨p, hp, rfl⟩, Or.inl ⟨hxp, hy⟩⟩

theorem cover_left_swapped {a b : Geom} {M : List Geom} (hM : parts a = M.flatMap parts) :
    Cover a b (M.map (fun g => (b, g))) := by
  constructor
  · intro s hs
    obtain ⟨p, hp, rfl⟩ := List.mem_map.mp hs
    exact Or.inr ⟨fun z hz => hz, fun z hz => by rw [hM]; exact List.mem_flatMap.mpr ⟨p, hp, hz⟩⟩
  · intro x hx y hy
    rw [hM] at hx
    obtain ⟨p, hp, hxp⟩ := List.mem_flatMap.mp hx
    exact ⟨(b, p), List.mem_map.mpr ⟨p, hp, rfl⟩, Or.inr ⟨hy, hxp⟩⟩

theorem cover_right {a b : Geom} {M : List Geom} (hM : parts b = M.flatMap parts) :
    Cover a b (M.map (fun h => (a, h))) := by
  constructor
  · intro s hs
    obtain ⟨p, hp, rfl⟩ := List.mem_map.mp hs
    exact Or.inl ⟨fun z hz => hz, fun z hz => by rw [hM]; exact List.mem_flatMap.mpr ⟨p, hp, hz⟩⟩
  · intro x hx y hy
    rw [hM] at hy
    obtain ⟨p, hp, hyp⟩ := List.mem_flatMap.mp hy
    exact ⟨(a, p), List.mem_map.mpr ⟨p, hp, rfl⟩, Or.inl ⟨hx, hyp⟩⟩

theorem cover_right_swapped {a b : Geom} {M : List Geom} (hM : parts b = M.flatMap parts) :
    Cover a b (M.map (fun q => (q, a))) := by
  constructor
  · intro s hs
    obtain ⟨p, hp, rfl⟩ := List.mem_map.mp hs
    exact Or.inr ⟨fun z hz => by rw [hM]; exact List.mem_flatMap.mpr ⟨p, hp, hz⟩, fun z hz => hz⟩
  · intro x hx y hy
    rw [hM] at hy
    obtain ⟨p, hp, hyp⟩ := List.mem_flatMap.mp hy
    exact ⟨(p, a), List.mem_map.mpr ⟨p, hp, rfl⟩, Or.inr ⟨hyp, hx⟩⟩

theorem cover_both_swapped {a b : Geom} {M N : List Geom} (hM : parts a = M.flatMap parts)
    (hN : parts b = N.flatMap parts) :
    Cover a b (M.flatMap (fun p => N.map (fun q => (q, p)))) := by
  constructor
  · intro s hs
    obtain ⟨p, hp, hs'⟩ := List.mem_flatMap.mp hs
    obtain ⟨q, hq, rfl⟩ := List.mem_map.mp hs'
    exact Or.inr ⟨fun z hz => by rw [hN]; exact List.mem_flatMap.mpr ⟨q, hq, hz⟩,
      fun z hz => by rw [hM]; exact List.mem_flatMap.mpr ⟨p, hp, hz⟩⟩
  · intro x hx y hy
    rw [hM] at hx; rw [hN] at hy
    obtain ⟨p, hp, hxp⟩ := List.mem_flatMap.mp hx
    obtain ⟨q, hq, hyq⟩ := List.mem_flatMap.mp hy
    exact ⟨(q, p), List.mem_flatMap.mpr ⟨p, hp, List.mem_map.mpr ⟨q, hq, rfl⟩⟩, Or.inr ⟨hyq, hxp⟩⟩

/-- every delegating dispatch step covers the pairs of parts -/
theorem expand_cover {a b : Geom} {subs : List (Geom × Geom)} (h : expand a b = .inr subs) :
    Cover a b subs := by
  cases a <;> cases b <;>
    simp only [expand, kindOf, multiMembers, collMembers, Sum.inr.injEq, reduceCtorEq] at h <;>
    subst h <;>
    first
      | exact cover_both_swapped (parts_multiPoint _) (parts_multiPoint _)
      | exact cover_both_swapped (parts_multiLineString _) (parts_multiLineString _)
      | exact cover_both_swapped (parts_multiPolygon _) (parts_multiPolygon _)
      | exact cover_left (parts_multiPoint _)
      | exact cover_left (parts_multiLineString _)
      | exact cover_left (parts_multiPolygon _)
      | exact cover_right_swapped (parts_multiPoint _)
      | exact cover_right_swapped (parts_multiLineString _)
      | exact cover_right_swapped (parts_multiPolygon _)
      | exact cover_left_swapped (parts_collection _)
      | exact cover_right (parts_collection _)

/-- a non-delegating step is one call on the two single-part operands -/
theorem expand_inl {a b : Geom} {r : List (Base × Base)} (h : expand a b = .inl r) :
    ∃ x y, r = [(x, y)] ∧ parts a = [x] ∧ parts b = [y] := by
  cases a <;> cases b <;>
    simp only [expand, kindOf, Base.ofGeom?, Sum.inl.injEq, reduceCtorEq] at h <;>
    subst h <;> exact ⟨_, _, rfl, rfl, rfl⟩

theorem calls_inl {a b : Geom} {r : List (Base × Base)} (h : expand a b = .inl r) : calls a b = r := by
  unfold calls callsFuel
  have pa := geomW_pos a
  obtain ⟨k, hk⟩ : ∃ k, geomW a + geomW b = k + 1 := ⟨geomW a + geomW b - 1, by omega⟩
  rw [hk, callsF, h]

theorem calls_inr {a b : Geom} {subs : List (Geom × Geom)} (h : expand a b = .inr subs) :
    calls a b = subs.flatMap (fun xy => calls xy.1 xy.2) := by
  have hd := expand_decreases h
  unfold calls callsFuel
  have pa := geomW_pos a
  obtain ⟨k, hk⟩ : ∃ k, geomW a + geomW b = k + 1 := ⟨geomW a + geomW b - 1, by omega⟩
  rw [hk, callsF, h]
  simp only
  apply flatMap_congr'
  intro xy hxy
  exact callsF_fuel k xy.1 xy.2 (by have := hd xy hxy; omega)

/-- **the dispatch visits exactly the pairs of parts** (in one of the two operand orders) -/
theorem calls_cover : ∀ (n : Nat) (a b : Geom), geomW a + geomW b ≤ n →
    (∀ xy ∈ calls a b, (xy.1 ∈ parts a ∧ xy.2 ∈ parts b) ∨ (xy.1 ∈ parts b ∧ xy.2 ∈ parts a)) ∧
    (∀ x ∈ parts a, ∀ y ∈ parts b, (x, y) ∈ calls a b ∨ (y, x) ∈ calls a b) := by
  intro n
  induction n with
  | zero =>
    intro a b h
    have := geomW_pos a
    omega
  | succ n ih =>
    intro a b hW
    cases he : expand a b with
    | inl r =>
      obtain ⟨x, y, rfl, hpa, hpb⟩ := expand_inl he
      rw [calls_inl he, hpa, hpb]
      constructor
      · intro xy hxy
        simp only [List.mem_singleton] at hxy
        subst hxy
        exact Or.inl ⟨List.mem_singleton.mpr rfl, List.mem_singleton.mpr rfl⟩
      · intro x' hx' y' hy'
        simp only [List.mem_singleton] at hx' hy'
        subst hx'; subst hy'
        exact Or.inl (List.mem_singleton.mpr rfl)
    | inr subs =>
      have hd := expand_decreases he
      obtain ⟨c1, c2⟩ := expand_cover he
      rw [calls_inr he]
      constructor
      · intro xy hxy
        obtain ⟨s, hs, hxy'⟩ := List.mem_flatMap.mp hxy
        have hI := (ih s.1 s.2 (by have := hd s hs; omega)).1 xy hxy'
        rcases c1 s hs with ⟨k1, k2⟩ | ⟨k1, k2⟩ <;> rcases hI with ⟨i1, i2⟩ | ⟨i1, i2⟩
        · exact Or.inl ⟨k1 _ i1, k2 _ i2⟩
        · exact Or.inr ⟨k2 _ i1, k1 _ i2⟩
        · exact Or.inr ⟨k1 _ i1, k2 _ i2⟩
        · exact Or.inl ⟨k2 _ i1, k1 _ i2⟩
      · intro x hx y hy
        obtain ⟨s, hs, hxy⟩ := c2 x hx y hy
        have hI := (ih s.1 s.2 (by have := hd s hs; omega)).2
        rcases hxy with ⟨k1, k2⟩ | ⟨k1, k2⟩
        · rcases hI x k1 y k2 with h | h
          · exact Or.inl (List.mem_flatMap.mpr ⟨s, hs, h⟩)
          · exact Or.inr (List.mem_flatMap.mpr ⟨s, hs, h⟩)
        · rcases hI y k1 x k2 with h | h
          · exact Or.inr (List.mem_flatMap.mpr ⟨s, hs, h⟩)
          · exact Or.inl (List.mem_flatMap.mpr ⟨s, hs, h⟩)

/-! ### the true minimum for geometries of dimension ≤ 1 -/

/-- the point set of a geometry all of whose parts have dimension ≤ 1 -/
def GeomPts (g : Geom) (x : Pt) : Prop := ∃ p ∈ parts g, linPts p x

theorem tolOk_symm {x y : Base} (h : tolOk x y) : tolOk y x := by
  cases x <;> cases y <;> exact h

/-- **`distG` is the true minimum distance** of two geometries whose parts are Points, Lines and
LineStrings with a segment (Point, Line, LineString, MultiPoint, MultiLineString, nested collections
of these), provided no Point × LineString pair hits finding K4 -/
theorem distG_IsMinDist {a b : Geom} (ha : ∀ p ∈ parts a, linOk p) (hb : ∀ q ∈ parts b, linOk q)
    (ht : ∀ p ∈ parts a, ∀ q ∈ parts b, tolOk p q) {m : Rat} (hm : distG a b = .fin m) :
    IsMinDist (GeomPts a) (GeomPts b) m := by
  obtain ⟨c1, c2⟩ := calls_cover _ a b (le_refl _)
  have hcalls : ∀ xy ∈ calls a b, linOk xy.1 ∧ linOk xy.2 ∧ tolOk xy.1 xy.2 := by
    intro xy hxy
    rcases c1 xy hxy with ⟨h1, h2⟩ | ⟨h1, h2⟩
    · exact ⟨ha _ h1, hb _ h2, ht _ h1 _ h2⟩
    · exact ⟨hb _ h1, ha _ h2, tolOk_symm (ht _ h2 _ h1)⟩
  obtain ⟨lb, xy, hxy, x, y, hx, hy, e⟩ := callFold_IsMinDist hcalls hm
  constructor
  · rintro x' y' ⟨p, hp, hx'⟩ ⟨q, hq, hy'⟩
    rcases c2 p hp q hq with h | h
    · exact lb (p, q) h x' y' hx' hy'
    · rw [dist2_symm]; exact lb (q, p) h y' x' hy' hx'
  · rcases c1 xy hxy with ⟨h1, h2⟩ | ⟨h1, h2⟩
    · exact ⟨x, y, ⟨_, h1, hx⟩, ⟨_, h2, hy⟩, e⟩
    · exact ⟨y, x, ⟨_, h2, hy⟩, ⟨_, h1, hx⟩, by rw [dist2_symm]; exact e⟩

/-- …and the distance is finite as soon as both geometries have a part -/
theorem distG_lin_finite {a b : Geom} (ha : ∀ p ∈ parts a, linOk p) (hb : ∀ q ∈ parts b, linOk q)
    (ht : ∀ p ∈ parts a, ∀ q ∈ parts b, tolOk p q) (na : parts a ≠ []) (nb : parts b ≠ []) :
    ∃ m, distG a b = .fin m := by
  obtain ⟨c1, c2⟩ := calls_cover _ a b (le_refl _)
  unfold distG
  apply foldMin_finite
  · obtain ⟨p, hp⟩ := List.exists_mem_of_ne_nil _ na
    obtain ⟨q, hq⟩ := List.exists_mem_of_ne_nil _ nb
    rcases c2 p hp q hq with h | h <;> exact List.ne_nil_of_mem h
  · intro xy hxy
    rcases c1 xy hxy with ⟨h1, h2⟩ | ⟨h1, h2⟩
    · obtain ⟨q, hq, _⟩ := baseD_lin_IsMinDist (ha _ h1) (hb _ h2) (ht _ h1 _ h2)
      exact ⟨q, hq⟩
    · obtain ⟨q, hq, _⟩ := baseD_lin_IsMinDist (hb _ h1) (ha _ h2) (tolOk_symm (ht _ h2 _ h1))
      exact ⟨q, hq⟩

end Geo.Proofs.C07
