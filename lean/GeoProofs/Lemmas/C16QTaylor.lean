/-
  C16Q — part 2: the exact Taylor polynomials of degree 65 / 64 against `Real.sin` / `Real.cos`
  (Mathlib's `Complex.exp_bound'` on `exp (y·I)`), and with part 1 the accuracy of the rounded series.
-/
import GeoProofs.Lemmas.C16QSeries
import Mathlib.Analysis.Complex.Exponential
import Mathlib.Analysis.Complex.Trigonometric
import Mathlib.Tactic.NormNum.NatFactorial
import Mathlib.Data.Rat.BigOperators

namespace Geo.Proofs.C16Q
open Geo Geo.Geodesy Geo.GeodesyNum

/-- real Taylor terms -/
noncomputable def TkR (s : ℕ) (y : ℝ) (k : ℕ) : ℝ := (-1) ^ k * y ^ (2 * k + s) / ((2 * k + s).factorial : ℝ)

theorem cast_abs_le {y c : ℚ} (h : |y| ≤ c) : |(y : ℝ)| ≤ (c : ℝ) := by
  have := (Rat.cast_le (K := ℝ)).mpr h
  rwa [Rat.cast_abs] at this

theorem Tk_cast (s : ℕ) (y : ℚ) (k : ℕ) : ((Tk s y k : ℚ) : ℝ) = TkR s (y : ℝ) k := by
  unfold Tk TkR; push_cast; ring

/-- the even partial sums of `exp (y·I)` split into the cosine and sine Taylor polynomials -/
theorem exp_I_partial (y : ℝ) (n : ℕ) :
    ∑ m ∈ Finset.range (2 * n), ((y : ℂ) * Complex.I) ^ m / (m.factorial : ℂ) =
      ((∑ k ∈ Finset.range n, TkR 0 y k : ℝ) : ℂ) + ((∑ k ∈ Finset.range n, TkR 1 y k : ℝ) : ℂ) * Complex.I := by
  induction n with
  | zero => simp
  | succ n ih =>
    rw [show 2 * (n + 1) = 2 * n + 1 + 1 from by ring, Finset.sum_range_succ, Finset.sum_range_succ, ih,
      Finset.sum_range_succ, Finset.sum_range_succ]
    have e1 : ((y : ℂ) * Complex.I) ^ (2 * n) = (-1) ^ n * (y : ℂ) ^ (2 * n) := by
      rw [mul_pow, pow_mul Complex.I, Complex.I_sq]; ring
    have e2 : ((y : ℂ) * Complex.I) ^ (2 * n + 1) = (-1) ^ n * (y : ℂ) ^ (2 * n + 1) * Complex.I := by
      rw [pow_succ, e1]; ring
    rw [e1, e2]
    unfold TkR
    push_cast
    ring_nf

theorem taylor_norm (y : ℝ) (hy : |y| ≤ 63 / 20) :
    ‖Complex.exp ((y : ℂ) * Complex.I) -
      (((∑ k ∈ Finset.range 33, TkR 0 y k : ℝ) : ℂ) + ((∑ k ∈ Finset.range 33, TkR 1 y k : ℝ) : ℂ) * Complex.I)‖
      ≤ 1 / 2 ^ 190 := by
  rw [← exp_I_partial]
  have hn : ‖(y : ℂ) * Complex.I‖ = |y| := by simp
  have hx : ‖(y : ℂ) * Complex.I‖ / ((2 * 33 : ℕ).succ : ℝ) ≤ 1 / 2 := by
    rw [hn]; push_cast; rw [div_le_iff₀ (by norm_num)]; linarith
  refine le_trans (Complex.exp_bound' hx) ?_
  rw [hn]
  have h1 : |y| ^ (2 * 33) ≤ (63 / 20 : ℝ) ^ (2 * 33) := pow_le_pow_left₀ (abs_nonneg y) hy _
  have h2 : (63 / 20 : ℝ) ^ (2 * 33) / ((2 * 33 : ℕ).factorial : ℝ) * 2 ≤ 1 / 2 ^ 190 := by
    norm_num [Nat.factorial]
  refine le_trans ?_ h2
  have : (0 : ℝ) < ((2 * 33 : ℕ).factorial : ℝ) := by positivity
  gcongr

/-- [T] the degree-65 Taylor polynomial of sine on |y| ≤ 3.15 -/
theorem sin_taylor (y : ℝ) (hy : |y| ≤ 63 / 20) :
    |Real.sin y - ∑ k ∈ Finset.range 33, TkR 1 y k| ≤ 1 / 2 ^ 190 := by
  have h := taylor_norm y hy
  refine le_trans ?_ h
  refine le_trans ?_ (Complex.abs_im_le_norm _)
  rw [Complex.sub_im, Complex.exp_ofReal_mul_I_im]
  simp

/-- [T] the degree-64 Taylor polynomial of cosine on |y| ≤ 3.15 -/
theorem cos_taylor (y : ℝ) (hy : |y| ≤ 63 / 20) :
    |Real.cos y - ∑ k ∈ Finset.range 33, TkR 0 y k| ≤ 1 / 2 ^ 190 := by
  have h := taylor_norm y hy
  refine le_trans ?_ h
  refine le_trans ?_ (Complex.abs_re_le_norm _)
  rw [Complex.sub_re, Complex.exp_ofReal_mul_I_re]
  simp

/-- the accuracy of the series on a reduced argument: rounding (64 grid steps) + truncation -/
noncomputable def epsSeries : ℝ := 1 / 2 ^ 93

theorem sinSeries_close (y : ℚ) (hy : |y| ≤ 63 / 20) :
    |((series (y * y) 1 32 0 y y : ℚ) : ℝ) - Real.sin (y : ℝ)| ≤ epsSeries := by
  have h1 := sinSeries_taylor y hy
  have hyR : |(y : ℝ)| ≤ 63 / 20 := by have := cast_abs_le hy; push_cast at this; exact this
  have h2 := sin_taylor (y : ℝ) hyR
  have h1R : |((series (y * y) 1 32 0 y y : ℚ) : ℝ) - ∑ k ∈ Finset.range 33, TkR 1 (y : ℝ) k| ≤ 64 * (u : ℝ) := by
    have := (Rat.cast_le (K := ℝ)).mpr h1
    rw [Rat.cast_abs, Rat.cast_sub, Rat.cast_sum] at this
    push_cast at this
    simpa [Tk_cast] using this
  have hu : (u : ℝ) = 1 / 2 ^ 100 := by unfold u; push_cast; ring
  rw [hu] at h1R
  unfold epsSeries
  rw [abs_le] at h1R h2 ⊢
  constructor <;> norm_num at * <;> linarith [h1R.1, h1R.2, h2.1, h2.2]

theorem cosSeries_close (y : ℚ) (hy : |y| ≤ 63 / 20) :
    |((series (y * y) 0 32 0 1 1 : ℚ) : ℝ) - Real.cos (y : ℝ)| ≤ epsSeries := by
  have h1 := cosSeries_taylor y hy
  have hyR : |(y : ℝ)| ≤ 63 / 20 := by have := cast_abs_le hy; push_cast at this; exact this
  have h2 := cos_taylor (y : ℝ) hyR
  have h1R : |((series (y * y) 0 32 0 1 1 : ℚ) : ℝ) - ∑ k ∈ Finset.range 33, TkR 0 (y : ℝ) k| ≤ 64 * (u : ℝ) := by
    have := (Rat.cast_le (K := ℝ)).mpr h1
    rw [Rat.cast_abs, Rat.cast_sub, Rat.cast_sum] at this
    push_cast at this
    simpa [Tk_cast] using this
  have hu : (u : ℝ) = 1 / 2 ^ 100 := by unfold u; push_cast; ring
  rw [hu] at h1R
  unfold epsSeries
  rw [abs_le] at h1R h2 ⊢
  constructor <;> norm_num at * <;> linarith [h1R.1, h1R.2, h2.1, h2.2]

end Geo.Proofs.C16Q
