/-
  MONO2 (C10, builder of the monotone pieces): the ownership predicate of the builder state, the chain invariant
  `WInv` that makes every emitted piece `wellFormed`, and the ghost trace of the states between two calls of
  `process_next_pt`.

  A *holder* is a segment that has started and not ended: its `LineLeft` event is no longer queued and some queued
  event lies at or before its right end. A holder references chain slots in three roles: `chain_idx` (role 0) and
  the two components of a registered `help` (roles 1, 2). Ownership (`ownB`): every such reference is in range, no
  live slot is referenced twice, and a live slot referenced as `help` is closed (its tip lies before every queued
  event). `helper_chain` is a non-owning reference (only `swap_at_top` goes through it, which keeps the tip).
-/
import GeoProofs.Lemmas.MONOAtPoint
import GeoProofs.Lemmas.MONOChain

namespace Geo.Proofs.MONO2
open Geo Geo.Mono Geo.MonoBuild Geo.Proofs.C10 Geo.Proofs.MONO

/-- the chain slot referenced by a payload in role `a` (0 = `chain_idx`, 1 / 2 = the components of `help`) -/
def refOf (inf : Info) : Nat → Option Nat
  | 0 => some inf.chainIdx
  | 1 => inf.help.map (·.1)
  | 2 => inf.help.map (·.2)
  | _ => none

/-- segment `i` has started (its `LineLeft` event is not queued) and not ended (an event is queued at or before its
right end) -/
def holds (st : St) (i : Nat) : Bool :=
  match st.segs[i]? with
  | none => false
  | some s => !(st.events.any (fun e => e.ty == .lineLeft && e.seg == i)) &&
              st.events.any (fun e => lexLe e.pt s.line.right)

/-- the content of a live slot -/
def chainAt (st : St) (k : Nat) : Option (List Pt) :=
  match st.chains[k]? with
  | some (some ch) => some ch
  | _ => none

/-- all references `(segment, role, slot)` of the holders -/
def holderRefs (st : St) : List (Nat × Nat × Nat) :=
  (List.range st.segs.length).flatMap (fun i =>
    match st.segs[i]? with
    | some s => if holds st i then (List.range 3).filterMap (fun a => (refOf s.info a).map (fun k => (i, a, k))) else []
    | none => [])

/-- the ownership check of a state between two calls of `process_next_pt` -/
def ownB (st : St) : Bool :=
  let R := holderRefs st
  R.all (fun r => decide (r.2.2 < st.chains.length)) &&
  R.all (fun r => r.2.1 == 0 ||
    (match (chainAt st r.2.2).bind List.getLast? with
     | some t => st.events.all (fun e => lexLt t e.pt)
     | none => true)) &&
  R.all (fun r => R.all (fun r' => !(r.2.2 == r'.2.2) || (chainAt st r.2.2).isNone || (r.1 == r'.1 && r.2.1 == r'.2.1)))

/-- the states between the calls of `process_next_pt` (ghost trace of `buildLoop`), the initial state first -/
def boundaryStates (hf : Nat) : Nat → St → List St
  | 0, _ => []
  | f + 1, st =>
    st :: (match processNextPt hf st with
           | some (st', true) => boundaryStates hf f st'
           | _ => [])

/-- the ownership check holds in every state between two calls of `process_next_pt` of `monotone_subdivision(ps)` -/
def ownedRun (ps : List Poly) : Bool :=
  let st := initState ps
  (boundaryStates (fuelFor st.segs.length) (fuelFor st.segs.length) st).all ownB

/-- the chain invariant: every live chain is increasing, has at least two coordinates, and all its coordinates but
the last lie before every queued event; every emitted piece is `wellFormed` -/
structure WInv (st : St) : Prop where
  chains : ∀ k ch, chainAt st k = some ch →
    lexSorted ch = true ∧ 2 ≤ ch.length ∧ ∀ q ∈ ch.dropLast, ∀ e ∈ st.events, lexLt q e.pt = true
  outs : ∀ m ∈ st.outputs, wellFormed m = true

/-- the references `(segment, role, slot)` of the segments in `S` -/
def refsOf (st : St) (S : List Nat) : List (Nat × Nat × Nat) :=
  S.flatMap (fun i =>
    match st.segs[i]? with
    | some s => (List.range 3).filterMap (fun a => (refOf s.info a).map (fun k => (i, a, k)))
    | none => [])

/-- the segments whose payload `process_next_pt` reads at the point `pt`, in the state `next_point` returned: the
segments reported as ending, and the active segment just below `pt` -/
def handSegs (pt : Pt) (st : St) : List Nat := st.incoming ++ (st.prevActive pt).toList

/-- ownership as `process_next_pt` uses it, checked in the state returned by `next_point` for the point `pt`: every
ending segment is reported once and is not the segment below; the segment below is not reported as starting; the chain
references of these segments (and the `helper_chain` of the segment below) are in range and pairwise different; a live
chain referenced as `help` has its tip strictly before `pt` -/
def handsB (pt : Pt) (st : St) : Bool :=
  let R := refsOf st (handSegs pt st)
  decide (handSegs pt st).Nodup &&
  (st.prevActive pt).all (fun b => !st.outgoing.contains b &&
    (match st.infoOf b with
     | some bi => (match bi.helperChain with | some k => decide (k < st.chains.length) | none => true)
     | none => true)) &&
  R.all (fun r => decide (r.2.2 < st.chains.length)) &&
  R.all (fun r => r.2.1 == 0 ||
    (match (chainAt st r.2.2).bind List.getLast? with
     | some t => lexLt t pt
     | none => true)) &&
  R.all (fun r => R.all (fun r' => !(r.2.2 == r'.2.2) || (r.1 == r'.1 && r.2.1 == r'.2.1)))

/-- the states returned by the successive calls of `next_point`, with the point (ghost trace of `buildLoop`) -/
def midStates (hf : Nat) : Nat → St → List (Pt × St)
  | 0, _ => []
  | f + 1, st =>
    (match nextPoint hf { st with incoming := [], outgoing := [] } with
     | some (st1, some pt) => [(pt, st1)]
     | _ => []) ++
    (match processNextPt hf st with
     | some (st', true) => midStates hf f st'
     | _ => [])

/-- `handsB` holds after every `next_point` of `monotone_subdivision(ps)` -/
def ownedSteps (ps : List Poly) : Bool :=
  let st := initState ps
  (midStates (fuelFor st.segs.length) (fuelFor st.segs.length) st).all (fun r => handsB r.1 r.2)

/-- while the events of the point `pt` are handled: every live chain is increasing, has at least two coordinates, and
all its coordinates but the last lie strictly before `pt` -/
def CB (pt : Pt) (st : St) : Prop :=
  ∀ k ch, chainAt st k = some ch →
    lexSorted ch = true ∧ 2 ≤ ch.length ∧ ∀ q ∈ ch.dropLast, lexLt q pt = true

/-- the chain of every segment reported as ending at `pt` has its tip at `pt` (`fix_top`) -/
def TipInc (pt : Pt) (st : St) : Prop :=
  ∀ i ∈ st.incoming, ∀ s ch, st.segs[i]? = some s → chainAt st s.info.chainIdx = some ch → ch.getLast? = some pt

end Geo.Proofs.MONO2
