/-
  GeoProofs.Lemmas.C07Dispatch — the dispatch recursion `callsF`: every step lowers the measure
  `geomW a + geomW b`, hence the list of single-part calls does not depend on the fuel once there
  is enough of it.
-/
import GeoModel.Distance
import Mathlib.Tactic.Linarith

namespace Geo.Proofs.C07
open Geo

theorem geomW_pos (g : Geom) : 1 ≤ geomW g := by
  cases g <;> simp [geomW]

theorem geomW_mem {g : Geom} {gs : List Geom} (h : g ∈ gs) : geomW g ≤ geomWList gs := by
  induction gs with
  | nil => cases h
  | cons x xs ih =>
    simp only [geomWList]
    rcases List.mem_cons.mp h with rfl | h'
    · exact Nat.le_max_left _ _
    · exact le_trans (ih h') (Nat.le_max_right _ _)

theorem multiMembers_W {a g : Geom} (h : g ∈ multiMembers a) : geomW g = 1 ∧ geomW a = 2 := by
  cases a <;> simp [multiMembers] at h <;> obtain ⟨_, _, rfl⟩ := h <;> simp [geomW]

theorem collMembers_W {a g : Geom} (h : g ∈ collMembers a) : geomW g + 2 ≤ geomW a := by
  cases a <;> simp [collMembers] at h
  simp only [geomW]
  have := geomW_mem h
  omega

/-- every dispatch step lowers the measure -/
theorem expand_decreases {a b : Geom} {subs : List (Geom × Geom)} (h : expand a b = .inr subs) :
    ∀ xy ∈ subs, geomW xy.1 + geomW xy.2 < geomW a + geomW b := by
  intro xy hxy
  have pa := geomW_pos a
  have pb := geomW_pos b
  unfold expand at h
  split at h <;> simp only [Sum.inr.injEq, reduceCtorEq] at h <;> subst h
  all_goals
    simp only [List.mem_flatMap, List.mem_map] at hxy
  -- same-kind Multi* pairs
  all_goals first
    | (obtain ⟨p, hp, q, hq, rfl⟩ := hxy
       have := multiMembers_W hp; have := multiMembers_W hq
       simp only; omega)
    | (obtain ⟨p, hp, rfl⟩ := hxy
       first
         | (have := multiMembers_W hp; simp only; omega)
         | (have := collMembers_W hp; simp only; omega))

theorem flatMap_congr' {α β} {f g : α → List β} {l : List α} (h : ∀ x ∈ l, f x = g x) :
    l.flatMap f = l.flatMap g := by
  induction l with
  | nil => rfl
  | cons x xs ih =>
    rw [List.flatMap_cons, List.flatMap_cons, h x List.mem_cons_self,
      ih (fun y hy => h y (List.mem_cons_of_mem _ hy))]

/-- **fuel independence**: with enough fuel one more unit changes nothing -/
theorem callsF_succ : ∀ (n : Nat) (a b : Geom), geomW a + geomW b ≤ n → callsF (n + 1) a b = callsF n a b := by
  intro n
  induction n with
  | zero =>
    intro a b h
    have := geomW_pos a; have := geomW_pos b
    omega
  | succ n ih =>
    intro a b h
    rw [callsF, callsF]
    cases he : expand a b with
    | inl r => rfl
    | inr subs =>
      simp only
      have hd := expand_decreases he
      apply flatMap_congr'
      intro xy hxy
      exact ih xy.1 xy.2 (by have := hd xy hxy; omega)

theorem callsF_fuel (n : Nat) (a b : Geom) (h : geomW a + geomW b ≤ n) : callsF n a b = calls a b := by
  unfold calls callsFuel
  induction n with
  | zero =>
    have := geomW_pos a; have := geomW_pos b
    omega
  | succ n ih =>
    by_cases hn : geomW a + geomW b ≤ n
    · rw [callsF_succ n a b hn]; exact ih hn
    · have : geomW a + geomW b = n + 1 := by omega
      rw [this]

end Geo.Proofs.C07
