/-
  MONO3 (C10, builder of the monotone pieces): `next_point` reports every ending segment once — for all inputs.

  Invariant `NInv`: the queued events are pairwise different; a queued `LineRight` event of a segment lies at or after the
  segment's current right end (`split_at` only ever moves a right end to the left, to a point strictly inside, and queues
  one `LineRight` event there — the older ones become the "spurious events" that `handle_event` drops); the segments
  reported as ending are pairwise different and their `LineRight` event at their right end is no longer queued.
-/
import GeoProofs.Lemmas.MONO3Bot

namespace Geo.Proofs.MONO3
open Geo Geo.Mono Geo.MonoBuild Geo.Proofs.C10 Geo.Proofs.MONO Geo.Proofs.MONO2

structure NInv (st : St) : Prop where
  nd : st.events.Nodup
  ge : ∀ e ∈ st.events, e.ty = .lineRight → ∀ s, st.segs[e.seg]? = some s → lexLt e.pt s.line.right = false
  inc : st.incoming.Nodup
  fresh : ∀ i ∈ st.incoming, ∀ s, st.segs[i]? = some s → (⟨s.line.right, .lineRight, i⟩ : Ev) ∉ st.events

theorem NInv.congr {st st' : St} (h : NInv st) (hs : st'.segs = st.segs) (he : st'.events.Perm st.events)
    (hi : st'.incoming = st.incoming) : NInv st' := by
  refine ⟨he.nodup_iff.2 h.nd, ?_, hi ▸ h.inc, ?_⟩
  · intro e hm hty s hsg
    rw [hs] at hsg
    exact h.ge e (he.mem_iff.1 hm) hty s hsg
  · intro i hm s hsg hmem
    rw [hs] at hsg; rw [hi] at hm
    exact h.fresh i hm s hsg (he.mem_iff.1 hmem)

theorem sameLines_back {st st' : St} (hl : SameLines st st') {j : Nat} {s' : Seg} (h : st'.segs[j]? = some s') :
    ∃ s, st.segs[j]? = some s ∧ s.line = s'.line := by
  have hj : j < st.segs.length := by rw [← hl.1]; exact (List.getElem?_eq_some_iff.1 h).1
  obtain ⟨s'', h1, h2⟩ := hl.2 j st.segs[j] (List.getElem?_eq_getElem hj)
  rw [h] at h1; cases h1
  exact ⟨st.segs[j], List.getElem?_eq_getElem hj, h2.symm⟩

theorem NInv.same {st st' : St} (h : NInv st) (hl : SameLines st st') (he : st'.events = st.events)
    (hi : st'.incoming = st.incoming) : NInv st' := by
  refine ⟨he ▸ h.nd, ?_, hi ▸ h.inc, ?_⟩
  · intro e hm hty s' hsg
    obtain ⟨s, h1, h2⟩ := sameLines_back hl hsg
    rw [← h2]
    exact h.ge e (he ▸ hm) hty s h1
  · intro i hm s' hsg hmem
    obtain ⟨s, h1, h2⟩ := sameLines_back hl hsg
    rw [hi] at hm; rw [he, ← h2] at hmem
    exact h.fresh i hm s h1 hmem

/-- the event just popped is put aside -/
theorem NInv.drop {st : St} {ev : Ev} {evs : Heap} (h : NInv { st with events := ev :: evs }) :
    NInv { st with events := evs } := by
  refine ⟨(List.nodup_cons.1 h.nd).2, ?_, h.inc, ?_⟩
  · intro e hm hty s hsg
    exact h.ge e (List.mem_cons_of_mem _ hm) hty s hsg
  · intro i hm s hsg hmem
    exact h.fresh i hm s hsg (List.mem_cons_of_mem _ hmem)

theorem NInv.popped {st : St} {e : Ev} {evs : Heap} (h : NInv st) (hp : heapPop st.events = some (e, evs)) :
    NInv { st with events := e :: evs } :=
  h.congr rfl (heapPop_perm hp).symm rfl

theorem getElem?_set_append_back {α} (l : List α) (i : Nat) (a b : α) (j : Nat) (x : α)
    (h : (l.set i a ++ [b])[j]? = some x) :
    (j = i ∧ j < l.length ∧ x = a) ∨ (j = l.length ∧ x = b) ∨ (j ≠ i ∧ l[j]? = some x) := by
  by_cases hj : j < l.length
  · rw [List.getElem?_append_left (by rw [List.length_set]; exact hj), List.getElem?_set] at h
    by_cases e : i = j
    · subst e
      simp [hj] at h
      exact Or.inl ⟨rfl, hj, h.symm⟩
    · simp [e] at h
      exact Or.inr (Or.inr ⟨fun e' => e e'.symm, by simpa using h⟩)
  · have hl : (l.set i a).length = l.length := List.length_set
    rw [List.getElem?_append_right (by rw [hl]; omega), hl] at h
    by_cases e : j = l.length
    · subst e
      simp at h
      exact Or.inr (Or.inl ⟨rfl, h.symm⟩)
    · have : j - l.length ≠ 0 := by omega
      rw [List.getElem?_singleton] at h
      simp [this] at h

/-- `split_at` of segment `i` at `p` strictly inside it, with the three events it queues -/
theorem split_ninv {st : St} {i : Nat} {s : Seg} {p : Pt} (hn : NInv st)
    (hev : ∀ e ∈ st.events, e.seg < st.segs.length) (hinc : ∀ j ∈ st.incoming, j < st.segs.length)
    (hs : st.segs[i]? = some s) (h2 : lexLt p s.line.right = true) (hni : i ∉ st.incoming)
    (a b : Seg) (ha : a.line.right = p) (hb : b.line.right = s.line.right) (evs' : Heap)
    (hevs : evs'.Perm (⟨p, .lineLeft, st.segs.length⟩ :: ⟨s.line.right, .lineRight, st.segs.length⟩ ::
      ⟨p, .lineRight, i⟩ :: st.events)) :
    NInv { st with segs := st.segs.set i a ++ [b], events := evs' } := by
  have hil : i < st.segs.length := (List.getElem?_eq_some_iff.1 hs).1
  refine ⟨hevs.nodup_iff.2 ?_, ?_, hn.inc, ?_⟩
  · refine List.nodup_cons.2 ⟨?_, List.nodup_cons.2 ⟨?_, List.nodup_cons.2 ⟨?_, hn.nd⟩⟩⟩
    · intro hm
      simp only [List.mem_cons, Ev.mk.injEq, reduceCtorEq, and_false, false_and, false_or] at hm
      have := hev _ hm
      simp at this
    · intro hm
      simp only [List.mem_cons, Ev.mk.injEq] at hm
      rcases hm with ⟨_, _, e⟩ | hm
      · omega
      · have := hev _ hm
        simp at this
    · intro hm
      have := hn.ge _ hm rfl s hs
      simp only at this
      rw [h2] at this; cases this
  · intro e hm hty s' hsg
    simp only at hsg
    have hm' := hevs.mem_iff.1 hm
    simp only [List.mem_cons] at hm'
    rcases hm' with e1 | e1 | e1 | e1
    · rw [e1] at hty; cases hty
    · rw [e1] at hsg ⊢
      rcases getElem?_set_append_back _ _ _ _ _ _ hsg with ⟨g, _, _⟩ | ⟨_, g⟩ | ⟨_, g⟩
      · simp only at g; omega
      · rw [g, hb]; exact lexLt_irrefl _
      · have := (List.getElem?_eq_some_iff.1 g).1
        simp at this
    · rw [e1] at hsg ⊢
      rcases getElem?_set_append_back _ _ _ _ _ _ hsg with ⟨_, _, g⟩ | ⟨g, _⟩ | ⟨g, _⟩
      · rw [g, ha]; exact lexLt_irrefl _
      · simp only at g; omega
      · exact absurd rfl g
    · have hlt := hev e e1
      rcases getElem?_set_append_back _ _ _ _ _ _ hsg with ⟨g1, _, g⟩ | ⟨g, _⟩ | ⟨_, g⟩
      · rw [g, ha]
        have := hn.ge e e1 hty s (g1 ▸ hs)
        cases hx : lexLt e.pt p with
        | false => rfl
        | true => rw [lexLt_trans hx h2] at this; cases this
      · omega
      · exact hn.ge e e1 hty s' g
  · intro j hm s' hsg hmem
    simp only at hsg hm
    have hjl := hinc j hm
    have hmem' := hevs.mem_iff.1 hmem
    rcases getElem?_set_append_back _ _ _ _ _ _ hsg with ⟨g, _, _⟩ | ⟨g, _⟩ | ⟨g1, g⟩
    · exact hni (g ▸ hm)
    · omega
    · simp only [List.mem_cons, Ev.mk.injEq, reduceCtorEq, and_false, false_and, false_or] at hmem'
      rcases hmem' with ⟨_, _, e⟩ | ⟨_, _, e⟩ | hmem'
      · omega
      · exact g1 e
      · exact hn.fresh j hm s' g hmem'

theorem from_right {a b : Pt} (h : lexLt a b = true) : (LoP.from a b).right = b := by rw [from_of_lt h]; rfl

theorem evs_lt {st : St} (hi : SInv st) : ∀ e ∈ st.events, e.seg < st.segs.length := by
  intro e he
  obtain ⟨s, hs, _⟩ := hi.evs e he
  exact (List.getElem?_eq_some_iff.1 hs).1

theorem inc_lt {st : St} {pt : Pt} (hio : IO pt st) : ∀ j ∈ st.incoming, j < st.segs.length := by
  intro j hj
  obtain ⟨l, hl, _⟩ := hio.inc j hj
  obtain ⟨s, hs, _⟩ := lineOf_seg hl
  exact (List.getElem?_eq_some_iff.1 hs).1

/-- the split made for a `LineLeft` event keeps `NInv` -/
theorem applySplit_ninv {st st' : St} {act seg : Nat} {la lb : LoP} (hi : SInv st) (hio : IO lb.left st) (hn : NInv st)
    (hla : st.lineOf act = some la) (hlb : st.lineOf seg = some lb) (hlo : Lo lb.left st)
    (h : st.applySplit act seg (checkInterior la lb) = some st') : NInv st' := by
  obtain ⟨sa, hsa, hsal⟩ := lineOf_seg hla
  obtain ⟨sb, hsb, hsbl⟩ := lineOf_seg hlb
  subst hsal hsbl
  have okb : LineOk sb.line := hi.lines sb (mem_of_getElem? hsb)
  have hblt := lineOk_lt okb
  unfold St.applySplit at h
  split at h
  · cases h; exact hn
  · rename_i pt hck
    obtain ⟨c1, c2, c3⟩ := checkInterior_spec_a hck
    osplit h
    rename_i st1 nw h1
    obtain ⟨_, _, _, s, hs, l1, l2⟩ := splitAt_sinv hi h1 (by
      intro s hs; rw [hsa] at hs; cases hs; exact ⟨c1, c2⟩)
    rw [hsa] at hs; cases hs
    rw [eventsOf_line l1, eventsOf_line l2] at h
    simp only [Option.some.injEq] at h
    subst h
    have hge : lexLt pt sb.line.left = false := by
      rcases c3 with e | e
      · rw [e]; exact lexLt_irrefl _
      · rw [e]; exact lexLt_asymm hblt
    have hni : act ∉ st.incoming := by
      intro hmem
      obtain ⟨l, hl, e⟩ := hio.inc act hmem
      rw [hla] at hl; cases hl
      rw [e] at c2
      rw [c2] at hge; cases hge
    obtain ⟨s', hs', hnw, hst⟩ := splitAt_spec h1
    rw [hsa] at hs'; cases hs'
    subst hst hnw
    exact split_ninv hn (evs_lt hi) (inc_lt hio) hsa c2 hni _ _ (from_right c1) (from_right c2) _
      ((heapExtend2_perm _ _ _).trans (((heapPush_perm _ _).cons _).cons _))
  · rename_i pt hck
    obtain ⟨c1, c2⟩ := checkInterior_spec_b hck
    osplit h
    rename_i st1 nw h1
    obtain ⟨_, _, _, s, hs, l1, l2⟩ := splitAt_sinv hi h1 (by
      intro s hs; rw [hsb] at hs; cases hs; exact ⟨c1, c2⟩)
    rw [hsb] at hs; cases hs
    rw [eventsOf_line l1, eventsOf_line l2] at h
    simp only [Option.some.injEq] at h
    subst h
    have hni : seg ∉ st.incoming := by
      intro hmem
      obtain ⟨l, hl, e⟩ := hio.inc seg hmem
      rw [hlb] at hl; cases hl
      rw [e] at hblt
      rw [lexLt_irrefl] at hblt; cases hblt
    obtain ⟨s', hs', hnw, hst⟩ := splitAt_spec h1
    rw [hsb] at hs'; cases hs'
    subst hst hnw
    exact split_ninv hn (evs_lt hi) (inc_lt hio) hsb c2 hni _ _ (from_right c1) (from_right c2) _
      ((heapExtend2_perm _ _ _).trans (((heapPush_perm _ _).cons _).cons _))

end Geo.Proofs.MONO3
