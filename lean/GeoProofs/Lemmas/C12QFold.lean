/-
  GeoProofs.Lemmas.C12QFold — a `ringSimple` ring does not lie on one vertical or horizontal line
  (1-dimensional fold-back argument: at a vertex of extreme ordinate both incident edges leave in
  the same direction along the line, so they share more than their common vertex). Hence the
  bounding box of a simple ring has positive width and height.
-/
import GeoModel.Valid
import GeoProofs.Lemmas.C12QSimple
import Mathlib.Tactic.Linarith

namespace Geo.Proofs.C12
open Geo Geo.IP Geo.Proofs.Kernel

/-! ### list bookkeeping -/

theorem dedup_segs_ne : ∀ l : List Pt, ∀ s ∈ segs (dedupConsecutive l), s.1 ≠ s.2
  | [], s, h => by simp [dedupConsecutive, segs] at h
  | [_], s, h => by simp [dedupConsecutive, segs] at h
  | a :: b :: rest, s, h => by
    simp only [dedupConsecutive] at h
    by_cases hab : (a == b) = true
    · rw [if_pos hab] at h; exact dedup_segs_ne (b :: rest) s h
    · rw [if_neg hab] at h
      obtain ⟨t, ht⟩ := dedup_cons_ne_nil b rest
      rw [ht] at h
      simp only [segs, List.mem_cons] at h
      rcases h with rfl | h
      · simpa using hab
      · exact dedup_segs_ne (b :: rest) s (by rw [ht]; exact h)

theorem segs_length : ∀ l : List Pt, (segs l).length = l.length - 1
  | [] => rfl
  | [_] => rfl
  | a :: b :: t => by
    simp only [segs, List.length_cons, segs_length (b :: t)]
    omega

theorem segs_getElem?_of : ∀ (l : List Pt) (i : Nat) (a b : Pt),
    l[i]? = some a → l[i + 1]? = some b → (segs l)[i]? = some (a, b)
  | [], i, a, b, h, _ => by simp at h
  | [x], i, a, b, _, h2 => by simp at h2
  | x :: y :: t, 0, a, b, h1, h2 => by
    simp only [List.getElem?_cons_zero, Option.some.injEq, zero_add, List.getElem?_cons_succ] at h1 h2
    simp [segs, h1, h2]
  | x :: y :: t, i + 1, a, b, h1, h2 => by
    simp only [List.getElem?_cons_succ] at h1 h2
    simp only [segs, List.getElem?_cons_succ]
    exact segs_getElem?_of (y :: t) i a b h1 h2

theorem exists_max_key (k : Pt → Rat) : ∀ l : List Pt, l ≠ [] → ∃ v ∈ l, ∀ u ∈ l, k u ≤ k v
  | [], h => absurd rfl h
  | [a], _ => ⟨a, by simp, by intro u hu; simp only [List.mem_singleton] at hu; rw [hu]⟩
  | a :: b :: t, _ => by
    obtain ⟨v, hv, hmax⟩ := exists_max_key k (b :: t) (List.cons_ne_nil _ _)
    rcases le_total (k a) (k v) with h | h
    · refine ⟨v, List.mem_cons_of_mem _ hv, ?_⟩
      intro u hu
      rcases List.mem_cons.1 hu with rfl | hu
      · exact h
      · exact hmax u hu
    · refine ⟨a, by simp, ?_⟩
      intro u hu
      rcases List.mem_cons.1 hu with rfl | hu
      · exact le_refl _
      · exact le_trans (hmax u hu) h

/-! ### the adjacency clauses of `ringSimple` -/

theorem ringSimple_adjacent {r0 : List Pt} (h : ringSimple r0 = true) :
    (∀ (i : Nat) (s t : Pt × Pt), (segs (dedupConsecutive r0))[i]? = some s →
      (segs (dedupConsecutive r0))[i + 1]? = some t →
      ∀ z, SegMem z s.1 s.2 → SegMem z t.1 t.2 → z = s.2) ∧
    (∀ (s t : Pt × Pt), (segs (dedupConsecutive r0))[0]? = some s →
      (segs (dedupConsecutive r0))[(segs (dedupConsecutive r0)).length - 1]? = some t →
      ∀ z, SegMem z t.1 t.2 → SegMem z s.1 s.2 → z = t.2) := by
  unfold ringSimple at h
  simp only [Bool.and_eq_true, decide_eq_true_eq] at h
  obtain ⟨⟨_, h2⟩, h3⟩ := h
  constructor
  · intro i s t hs ht z hz1 hz2
    have hok := allPairs_spec h3 (Nat.lt_succ_self i) hs ht
    simp only [beq_self_eq_true, if_true] at hok
    exact adjacentOk_spec hok z hz1 hz2
  · intro s t hs ht z hz1 hz2
    have hlt : 0 < (segs (dedupConsecutive r0)).length - 1 := by omega
    have hok := allPairs_spec h3 hlt hs ht
    have e1 : ((segs (dedupConsecutive r0)).length - 1 == 0 + 1) = false := by
      rw [beq_eq_false_iff_ne]; omega
    have e2 : ((0 : Nat) == 0) = true ∧ ((segs (dedupConsecutive r0)).length - 1 + 1
        == (segs (dedupConsecutive r0)).length) = true := by
      refine ⟨rfl, ?_⟩
      rw [beq_iff_eq]; omega
    rw [e1] at hok
    simp only [Bool.false_eq_true, if_false] at hok
    rw [if_pos e2] at hok
    exact adjacentOk_spec hok z hz1 hz2

/-! ### fold-back -/

/-- two edges `u–v`, `v–w` leaving the extreme vertex `v` of a line in the same direction share
more than `v` -/
theorem fold_contra (k : Pt → Rat) (L : Pt → Prop) {u v w : Pt} (hu : k u < k v) (hw : k w < k v)
    (hLu : L u) (hLv : L v) (hLw : L w)
    (hbtw : ∀ a b z, L a → L b → L z → k b ≤ k z → k z ≤ k a → SegMem z a b)
    (huniq : ∀ z, SegMem z u v → SegMem z v w → z = v) : False := by
  rcases le_total (k w) (k u) with h | h
  · have := huniq u (SegMem_left u v) (hbtw v w u hLv hLw hLu h hu.le)
    rw [this] at hu; exact lt_irrefl _ hu
  · have := huniq w (SegMem_symm (hbtw v u w hLv hLu hLw h hw.le)) (SegMem_right v w)
    rw [this] at hw; exact lt_irrefl _ hw

/-- a `ringSimple` ring does not lie on a line `L` along which a key `k` is injective and orders
the points -/
theorem simple_not_on_line (k : Pt → Rat) (L : Pt → Prop) {r0 : List Pt} (h : ringSimple r0 = true)
    (hL : ∀ v ∈ dedupConsecutive r0, L v)
    (hinj : ∀ a b, L a → L b → k a = k b → a = b)
    (hbtw : ∀ a b z, L a → L b → L z → k b ≤ k z → k z ≤ k a → SegMem z a b) : False := by
  obtain ⟨hclosed, hn, _⟩ := ringSimple_spec h
  obtain ⟨hadj, hwrap⟩ := ringSimple_adjacent h
  have hne := dedup_segs_ne r0
  generalize hd : dedupConsecutive r0 = d at *
  have hlen := segs_length d
  have hN : 4 ≤ d.length := by omega
  have hdne : d ≠ [] := by intro h0; rw [h0] at hN; simp at hN
  rw [List.head?_eq_getElem?, List.getLast?_eq_getElem?] at hclosed
  obtain ⟨v, hv, hmax⟩ := exists_max_key k d hdne
  obtain ⟨i, hiv⟩ := List.getElem?_of_mem hv
  have hi : i < d.length := (List.getElem?_eq_some_iff.1 hiv).1
  -- strictness of the neighbours of the extreme vertex
  have strict : ∀ a, a ∈ d → a ≠ v → k a < k v := by
    intro a ha hav
    refine lt_of_le_of_ne (hmax a ha) ?_
    intro hk
    exact hav (hinj a v (hL a ha) (hL v hv) hk)
  by_cases hwrapc : i = 0 ∨ i = d.length - 1
  · -- the extreme vertex is the closing vertex
    have h0 : d[0]? = some v := by
      rcases hwrapc with rfl | rfl
      · exact hiv
      · rw [hclosed]; exact hiv
    have hlast : d[d.length - 1]? = some v := by rw [← hclosed]; exact h0
    have h1lt : 1 < d.length := by omega
    have h2lt : d.length - 2 < d.length := by omega
    have hw1 : d[1]? = some d[1] := List.getElem?_eq_getElem h1lt
    have hu1 : d[d.length - 2]? = some d[d.length - 2] := List.getElem?_eq_getElem h2lt
    have hs := segs_getElem?_of d 0 v d[1] h0 hw1
    have hlast' : d[d.length - 2 + 1]? = some v := by
      have : d.length - 2 + 1 = d.length - 1 := by omega
      rw [this]; exact hlast
    have ht := segs_getElem?_of d (d.length - 2) d[d.length - 2] v hu1 hlast'
    have ht' : (segs d)[(segs d).length - 1]? = some (d[d.length - 2], v) := by
      have : (segs d).length - 1 = d.length - 2 := by omega
      rw [this]; exact ht
    have huniq := hwrap _ _ hs ht'
    simp only at huniq
    have hwne : d[1] ≠ v := fun e => hne _ (List.mem_of_getElem? hs) (by simp only; exact e.symm)
    have hune : d[d.length - 2] ≠ v := fun e => hne _ (List.mem_of_getElem? ht) (by simp only; exact e)
    have mw : d[1] ∈ d := List.getElem_mem h1lt
    have mu : d[d.length - 2] ∈ d := List.getElem_mem h2lt
    exact fold_contra k L (strict _ mu hune) (strict _ mw hwne) (hL _ mu) (hL _ hv) (hL _ mw) hbtw huniq
  · -- an inner vertex
    have hi0 : i ≠ 0 := fun e => hwrapc (Or.inl e)
    have hin : i ≠ d.length - 1 := fun e => hwrapc (Or.inr e)
    obtain ⟨m, rfl⟩ := Nat.exists_eq_succ_of_ne_zero hi0
    have hmlt : m < d.length := by omega
    have hm2lt : m + 1 + 1 < d.length := by omega
    have hu1 : d[m]? = some d[m] := List.getElem?_eq_getElem hmlt
    have hw1 : d[m + 1 + 1]? = some d[m + 1 + 1] := List.getElem?_eq_getElem hm2lt
    have hs := segs_getElem?_of d m d[m] v hu1 hiv
    have ht := segs_getElem?_of d (m + 1) v d[m + 1 + 1] hiv hw1
    have huniq := hadj m _ _ hs ht
    simp only at huniq
    have hune : d[m] ≠ v := fun e => hne _ (List.mem_of_getElem? hs) (by simp only; exact e)
    have hwne : d[m + 1 + 1] ≠ v := fun e => hne _ (List.mem_of_getElem? ht) (by simp only; exact e.symm)
    have mu : d[m] ∈ d := List.getElem_mem hmlt
    have mw : d[m + 1 + 1] ∈ d := List.getElem_mem hm2lt
    exact fold_contra k L (strict _ mu hune) (strict _ mw hwne) (hL _ mu) (hL _ hv) (hL _ mw) hbtw huniq

/-- a simple ring has two vertices of different abscissa -/
theorem simple_not_vertical {r0 : List Pt} (h : ringSimple r0 = true) (c : Rat) :
    ¬ ∀ v ∈ r0, v.x = c := by
  intro hall
  apply simple_not_on_line (fun p => p.y) (fun p => p.x = c) h
  · intro v hv; exact hall v (dedup_mem _ _ hv)
  · intro a b ha hb hk; exact Pt.ext' (by rw [ha, hb]) hk
  · intro a b z ha hb hz h1 h2
    rw [← lineCoord_iff]
    have ea : a = ⟨c, a.y⟩ := Pt.ext' ha rfl
    have eb : b = ⟨c, b.y⟩ := Pt.ext' hb rfl
    rw [ea, eb, Geo.Proofs.Loc.lineCoord_vert]
    exact ⟨hz, Or.inr ⟨h1, h2⟩⟩

/-- a simple ring has two vertices of different ordinate -/
theorem simple_not_horizontal {r0 : List Pt} (h : ringSimple r0 = true) (c : Rat) :
    ¬ ∀ v ∈ r0, v.y = c := by
  intro hall
  apply simple_not_on_line (fun p => p.x) (fun p => p.y = c) h
  · intro v hv; exact hall v (dedup_mem _ _ hv)
  · intro a b ha hb hk; exact Pt.ext' hk (by rw [ha, hb])
  · intro a b z ha hb hz h1 h2
    rw [← lineCoord_iff]
    have ea : a = ⟨a.x, c⟩ := Pt.ext' rfl ha
    have eb : b = ⟨b.x, c⟩ := Pt.ext' rfl hb
    rw [ea, eb, Geo.Proofs.Loc.lineCoord_horiz]
    exact ⟨hz, Or.inr ⟨h1, h2⟩⟩

/-- the bounding box of a simple ring has positive width and height -/
theorem bbox_proper_of_simple {r0 : List Pt} (h : ringSimple r0 = true) {mn mx : Pt}
    (hb : getBoundingRect r0 = some (mn, mx)) : mn.x < mx.x ∧ mn.y < mx.y := by
  obtain ⟨hbd, ⟨p, hp, _⟩, _⟩ := Geo.Proofs.C19.getBoundingRect_bounds r0 mn mx hb
  have bp := hbd p hp
  constructor
  · by_contra hge
    apply simple_not_vertical h mn.x
    intro v hv
    have := hbd v hv
    linarith [this.1, this.2.1, bp.1, bp.2.1]
  · by_contra hge
    apply simple_not_horizontal h mn.y
    intro v hv
    have := hbd v hv
    linarith [this.2.2.1, this.2.2.2, bp.2.2.1, bp.2.2.2]

end Geo.Proofs.C12
