/-
  Helper lemmas for C09 (exit invariant of the topology-preserving Visvalingam-Whyatt loop
  `visvalingam_preserve`): the queue-coverage invariant of GeoProofs/Lemmas/C09PExit.lean, with
  entries whose area may have been demoted to `-ε` by `recompute_triangles` (neighbour of a removed
  intersecting triangle). The loop has two more exits than `visvalingam_indices`
  (`counter <= INITIAL_MIN`; intersecting triangle with `counter <= MIN_POINTS`); in both the number
  of live vertices is at most `INITIAL_MIN` / `MIN_POINTS`.
-/
import GeoModel.Simplify
import GeoProofs.Lemmas.C09Vw
import GeoProofs.Lemmas.C09PHeap
import GeoProofs.Lemmas.C09PExit
import Mathlib.Tactic.Linarith

namespace Geo.Proofs.C09
open Geo Geo.Simp

/-- a queue entry of `visvalingam_preserve`: ordered valid indices; its area is the area of its
triangle or the demoted value `-ε` -/
def EP' (cs : List Pt) (eps : Rat) (n : Nat) (e : VScore) : Prop :=
  EOK n e ∧
    (e.area = triArea (coordAt cs e.left) (coordAt cs e.current) (coordAt cs e.right) ∨ e.area = -eps)

theorem recomputeOne_EP' {n : Nat} (s : VScore) (cs : List Pt) (pq : Heap) (ai : Int) (cur : Nat)
    (bi : Int) (eps : Rat) (h : AllP (EP' cs eps n) pq)
    (h1 : ai < (cur : Int)) (h2 : (cur : Int) < bi) :
    AllP (EP' cs eps n) (recomputeOne s cs pq ai cur bi n eps) := by
  unfold recomputeOne
  split
  · exact h
  · rename_i hc
    apply heapPush_allP h
    refine ⟨?_, ?_⟩
    · simp only [EOK]; omega
    · by_cases hd : (s.intersector && decide (cur < s.current)) = true
      · right; simp only [hd, if_true]
      · left; simp only [hd]; rfl

theorem recompute_EP' {n : Nat} (s : VScore) (cs : List Pt) (pq : Heap) (ll : Int) (l r : Nat)
    (rr : Int) (eps : Rat) (h : AllP (EP' cs eps n) pq)
    (h1 : ll < (l : Int)) (h2 : l < r) (h3 : (r : Int) < rr) :
    AllP (EP' cs eps n) (recompute s cs pq ll l r rr n eps) := by
  unfold recompute
  exact recomputeOne_EP' s cs _ _ _ _ eps
    (recomputeOne_EP' s cs pq _ _ _ eps h h1 (by omega)) (by omega) h3

theorem initScores_EP' (cs : List Pt) (eps : Rat) : AllP (EP' cs eps cs.length) (initScores cs) := by
  intro x hx
  simp only [initScores, List.mem_map, List.mem_range] at hx
  obtain ⟨i, hi, rfl⟩ := hx
  refine ⟨?_, Or.inl rfl⟩
  simp only [EOK]; omega

theorem vwpLoop_exit (cs : List Pt) (eps : Rat) (he : 0 < eps) (n imin mpts : Nat) :
    ∀ (fuel : Nat) (adj : Adj) (pq : Heap) (counter : Nat) (tree : List Seg) (adj' : Adj)
      (tree' : List Seg),
    AInv n adj → AInv2 n adj → AllP (EP' cs eps n) pq → HeapInv pq → Covered n adj pq →
    counter = liveCount n adj → pq.length + 2 * liveCount n adj ≤ fuel →
    vwpLoop cs eps n imin mpts fuel adj pq counter tree = some (adj', tree') →
    AInv2 n adj' ∧ (liveCount n adj' ≤ imin ∨ liveCount n adj' ≤ mpts ∨ ExitOK cs eps n adj')
  | 0, adj, pq, counter, tree, adj', tree', _, hi2, _, _, hcov, _, hm, hres => by
    have hnil : pq = [] := List.length_eq_zero_iff.1 (by omega)
    subst hnil
    simp only [vwpLoop, Option.some.injEq, Prod.mk.injEq] at hres
    rw [← hres.1]
    exact ⟨hi2, Or.inr (Or.inr (exit_of_empty hcov))⟩
  | fuel + 1, adj, pq, counter, tree, adj', tree', hi, hi2, hq, hh, hcov, hcnt, hm, hres => by
    simp only [vwpLoop] at hres
    split at hres
    · rename_i hpop
      have hnil := heapPop_none hpop
      subst hnil
      simp only [Option.some.injEq, Prod.mk.injEq] at hres
      rw [← hres.1]
      exact ⟨hi2, Or.inr (Or.inr (exit_of_empty hcov))⟩
    · rename_i s pq' hpop
      obtain ⟨hs, hq'⟩ := heapPop_allP hq hpop
      obtain ⟨hlen, hh', hmin⟩ := heapPop_heap hh hpop
      have hperm := heapPop_perm hpop
      have hcov' : Covered n adj (s :: pq') := by
        intro v l r hv hlive hav hr
        obtain ⟨e, he', f⟩ := hcov v l r hv hlive hav hr
        exact ⟨e, hperm.mem_iff.1 he', f⟩
      split at hres
      · rename_i hgt
        simp only [Option.some.injEq, Prod.mk.injEq] at hres
        rw [← hres.1]
        refine ⟨hi2, Or.inr (Or.inr ?_)⟩
        intro v l r hv hlive hav hr
        obtain ⟨e, he', f1, f2, f3⟩ := hcov v l r hv hlive hav hr
        have hse := hmin e he'
        have ha := (hq e he').2
        rw [f1, f2, f3] at ha
        have hgt' : eps < s.area := hgt
        rcases ha with ha | ha
        · rw [← ha]; linarith
        · rw [ha] at hse; linarith
      · split at hres
        · rename_i hcmin
          simp only [Option.some.injEq, Prod.mk.injEq] at hres
          rw [← hres.1]
          exact ⟨hi2, Or.inl (by omega)⟩
        · generalize hadj : adj s.current = a at hres
          obtain ⟨left, right⟩ := a
          simp only at hres
          split at hres
          · rename_i hst
            refine vwpLoop_exit cs eps he n imin mpts fuel adj pq' counter tree adj' tree' hi hi2 hq' hh'
              ?_ hcnt (by omega) hres
            intro v l r hv hlive hav hr
            obtain ⟨e, he', f1, f2, f3⟩ := hcov' v l r hv hlive hav hr
            rcases List.mem_cons.1 he' with h0 | h'
            · exfalso
              rw [h0] at f1 f2 f3
              rw [← f2, hadj] at hav
              simp only [Prod.mk.injEq] at hav
              rcases hst with hx | hx
              · exact hx (by rw [hav.1, f1])
              · exact hx (by rw [hav.2, f3])
            · exact ⟨e, h', f1, f2, f3⟩
          · rename_i hne
            have hl : left = (s.left : Int) := by
              by_contra hx; exact hne (Or.inl hx)
            have hr : right = (s.right : Int) := by
              by_contra hx; exact hne (Or.inr hx)
            subst hl hr
            obtain ⟨⟨h1, h2, h3⟩, _⟩ := hs
            obtain ⟨hinv', b1, b2, _, _⟩ := unlink_inv hi h1 h2 h3 hadj
            have hinv2' := unlink_inv2 hi hi2 h1 h2 h3 hadj
            have hlc := liveCount_unlink hi h1 h2 h3 hadj
            split at hres
            · rename_i hcond
              simp only [Bool.and_eq_true, decide_eq_true_eq] at hcond
              simp only [Option.some.injEq, Prod.mk.injEq] at hres
              rw [← hres.1]
              exact ⟨hi2, Or.inr (Or.inl (by omega))⟩
            · split at hres
              · exact absurd hres (by simp)
              · split at hres
                · exact absurd hres (by simp)
                · have hcov2 : Covered n adj
                      ({ s with intersector := treeIntersect tree s cs } :: pq') := by
                    intro v l r hv hlive hav hr
                    obtain ⟨e, he', f1, f2, f3⟩ := hcov' v l r hv hlive hav hr
                    rcases List.mem_cons.1 he' with h0 | h'
                    · exact ⟨_, List.mem_cons_self, by rw [← f1, h0], by rw [← f2, h0], by rw [← f3, h0]⟩
                    · exact ⟨e, List.mem_cons_of_mem _ h', f1, f2, f3⟩
                  have hl1 := recomputeOne_len { s with intersector := treeIntersect tree s cs } cs pq'
                    (adj s.left).1 s.left s.right n eps
                  have hl2 := recomputeOne_len { s with intersector := treeIntersect tree s cs } cs
                    (recomputeOne { s with intersector := treeIntersect tree s cs } cs pq'
                      (adj s.left).1 s.left s.right n eps) s.left s.right (adj s.right).2 n eps
                  refine vwpLoop_exit cs eps he n imin mpts fuel _ _ (counter - 1) _ adj' tree' hinv' hinv2'
                    (recompute_EP' _ cs pq' _ _ _ _ eps hq' b1 (by omega) b2)
                    (recomputeOne_heapInv _ cs _ _ _ _ n eps (recomputeOne_heapInv _ cs _ _ _ _ n eps hh'))
                    (covered_unlink (s := { s with intersector := treeIntersect tree s cs }) eps hi h1 h2 h3
                      hadj hcov2) (by omega) ?_ hres
                  show (recomputeOne { s with intersector := treeIntersect tree s cs } cs
                    (recomputeOne { s with intersector := treeIntersect tree s cs } cs pq'
                      (adj s.left).1 s.left s.right n eps) s.left s.right (adj s.right).2 n eps).length +
                    2 * liveCount n (unlink adj s.left s.current s.right (adj s.left).1 (adj s.right).2)
                      ≤ fuel
                  omega

/-! ### reading the output -/

theorem filterMap_ite_eq_map_filter {α β : Type} (q : α → Bool) (g : α → β) (l : List α) :
    l.filterMap (fun i => if q i then some (g i) else none) = (l.filter q).map g := by
  induction l with
  | nil => rfl
  | cons x t ih =>
    by_cases h : q x = true
    · simp only [List.filterMap_cons, h, if_true, List.filter_cons_of_pos, List.map_cons, ih]
    · simp only [List.filterMap_cons, h, Bool.false_eq_true, if_false, ih]
      rw [List.filter_cons_of_neg h]

theorem zipIdx_eq_map_range (cs : List Pt) :
    cs.zipIdx = (List.range cs.length).map (fun i => (coordAt cs i, i)) := by
  apply List.ext_getElem
  · simp
  · intro i h1 h2
    have hi : i < cs.length := by simpa using h1
    simp [coordAt, List.getElem?_eq_getElem hi]

/-- the coordinate output of `visvalingam_preserve` is the look-up of the live positions -/
theorem keep_eq (cs : List Pt) (q : Nat → Bool) :
    cs.zipIdx.filterMap (fun p => if q p.2 then some p.1 else none) =
      ((List.range cs.length).filter q).map (coordAt cs) := by
  rw [zipIdx_eq_map_range, List.filterMap_map]
  exact filterMap_ite_eq_map_filter q (coordAt cs) _

/-- three consecutive live positions of a final `adjacent` vector -/
theorem triple_of_exit {cs : List Pt} {eps : Rat} {n : Nat} {adj : Adj} (hinv : AInv n adj)
    (hinv2 : AInv2 n adj) (hex : ExitOK cs eps n adj) (pre post : List Nat) (i j k : Nat)
    (h : (List.range n).filter (fun i => adj i != (0, 0)) = pre ++ i :: j :: k :: post) :
    eps < triArea (coordAt cs i) (coordAt cs j) (coordAt cs k) := by
  obtain ⟨hij, _, pi, pj, g1⟩ := filter_range_consec _ _ pre (k :: post) i j h
  obtain ⟨hjk, hkn, _, pk, g2⟩ := filter_range_consec _ _ (pre ++ [i]) post j k (by simpa using h)
  have li : adj i ≠ (0, 0) := by simpa using pi
  have lj : adj j ≠ (0, 0) := by simpa using pj
  have lk : adj k ≠ (0, 0) := by simpa using pk
  have hadj := adj_of_consec hinv hinv2 hij hjk hkn li lj lk
    (fun m a b => by simpa using g1 m a b) (fun m a b => by simpa using g2 m a b)
  exact hex j i k (by omega) lj hadj hkn

/-- the same on coordinates -/
theorem triple_of_exit_coords {cs : List Pt} {eps : Rat} {n : Nat} {adj : Adj} (hinv : AInv n adj)
    (hinv2 : AInv2 n adj) (hex : ExitOK cs eps n adj) (pre post : List Pt) (a b c : Pt)
    (h : ((List.range n).filter (fun i => adj i != (0, 0))).map (coordAt cs)
      = pre ++ a :: b :: c :: post) :
    eps < triArea a b c := by
  obtain ⟨l1, l2, hl, _, h2⟩ := List.map_eq_append_iff.1 h
  obtain ⟨i, l3, hl3, ha, h3⟩ := List.map_eq_cons_iff.1 h2
  obtain ⟨j, l4, hl4, hb, h4⟩ := List.map_eq_cons_iff.1 h3
  obtain ⟨k, l5, hl5, hc, _⟩ := List.map_eq_cons_iff.1 h4
  rw [hl3, hl4, hl5] at hl
  rw [← ha, ← hb, ← hc]
  exact triple_of_exit hinv hinv2 hex l1 l5 i j k hl

end Geo.Proofs.C09
