/-
  C02Y, part 8: interior points for the linear `contains` pairs.

  * `exists_between_avoiding`: strictly between two distinct points there is a point off any given finite list;
  * `lerp_inside_line`: a point strictly between two distinct points of a non-degenerate segment is in the interior of the line;
  * `inside_lineString`: a point on a line string that is neither its first nor its last coordinate is in its interior;
  * `exists_nd_seg`: a coordinate list with two distinct coordinates has a non-degenerate segment.
-/
import GeoProofs.Lemmas.C02YContains

set_option linter.unusedSimpArgs false
set_option linter.unusedVariables false

namespace Geo.Proofs.C02Y
open Geo Geo.Proofs.Kernel Geo.Proofs.Spec Geo.Proofs.C02X Geo.Proofs.C02Q

def lerp (u v : Pt) (t : Rat) : Pt := ⟨u.x + t * (v.x - u.x), u.y + t * (v.y - u.y)⟩

theorem lerp_inj {u v : Pt} (huv : u ≠ v) {s t : Rat} (h : lerp u v s = lerp u v t) : s = t := by
  have hx : (lerp u v s).x = (lerp u v t).x := by rw [h]
  have hy : (lerp u v s).y = (lerp u v t).y := by rw [h]
  simp only [lerp] at hx hy
  have ex : (s - t) * (v.x - u.x) = 0 := by linarith
  have ey : (s - t) * (v.y - u.y) = 0 := by linarith
  by_contra hne
  have hst : s - t ≠ 0 := fun e => hne (by linarith)
  apply huv
  have h1 : v.x - u.x = 0 := by
    rcases mul_eq_zero.mp ex with h | h
    · exact absurd h hst
    · exact h
  have h2 : v.y - u.y = 0 := by
    rcases mul_eq_zero.mp ey with h | h
    · exact absurd h hst
    · exact h
  exact Geo.Proofs.C02Y.Pt.ext' (by linarith) (by linarith)

theorem lerp_segMem (u v : Pt) {t : Rat} (h0 : 0 ≤ t) (h1 : t ≤ 1) : SegMem (lerp u v t) u v :=
  ⟨t, h0, h1, rfl, rfl⟩

theorem exists_eps {u v : Pt} (huv : u ≠ v) : ∀ (L : List Pt),
    ∃ ε : Rat, 0 < ε ∧ ε ≤ 1 ∧ ∀ t, 0 < t → t < ε → lerp u v t ∉ L
  | [] => ⟨1, by norm_num, le_refl _, fun t _ _ h => by cases h⟩
  | f :: L' => by
      obtain ⟨ε', h0, h1, hav⟩ := exists_eps huv L'
      by_cases hex : ∃ t0, 0 < t0 ∧ t0 < ε' ∧ lerp u v t0 = f
      · obtain ⟨t0, hp, hl, hf⟩ := hex
        refine ⟨t0, hp, le_trans (le_of_lt hl) h1, ?_⟩
        intro t tp tl hmem
        rcases List.mem_cons.mp hmem with e | e
        · have := lerp_inj huv (e.trans hf.symm)
          linarith
        · exact hav t tp (lt_trans tl hl) e
      · refine ⟨ε', h0, h1, ?_⟩
        intro t tp tl hmem
        rcases List.mem_cons.mp hmem with e | e
        · exact hex ⟨t, tp, tl, e⟩
        · exact hav t tp tl e

/-- strictly between two distinct points there is a point off any given finite list -/
theorem exists_between_avoiding {u v : Pt} (huv : u ≠ v) (L : List Pt) :
    ∃ t : Rat, 0 < t ∧ t < 1 ∧ lerp u v t ∉ L := by
  obtain ⟨ε, h0, h1, hav⟩ := exists_eps huv L
  exact ⟨ε / 2, by linarith, by linarith, hav _ (by linarith) (by linarith)⟩

/-- an end point of a non-degenerate segment is not strictly between two distinct points of the segment -/
theorem end_not_between {a b u v : Pt} (hab : a ≠ b) (hu : SegMem u a b) (hv : SegMem v a b) {t : Rat}
    (t0 : 0 < t) (t1 : t < 1) (hm : lerp u v t = a) : u = v := by
  obtain ⟨s, s0, s1, ux, uy⟩ := hu
  obtain ⟨r, r0, r1, vx, vy⟩ := hv
  have hx : (lerp u v t).x = a.x := by rw [hm]
  have hy : (lerp u v t).y = a.y := by rw [hm]
  simp only [lerp] at hx hy
  have ex : ((1 - t) * s + t * r) * (b.x - a.x) = 0 := by rw [ux, vx] at hx; linarith
  have ey : ((1 - t) * s + t * r) * (b.y - a.y) = 0 := by rw [uy, vy] at hy; linarith
  have hsum : (1 - t) * s + t * r = 0 := by
    by_contra hne
    apply hab
    have h1 : b.x - a.x = 0 := by
      rcases mul_eq_zero.mp ex with h | h
      · exact absurd h hne
      · exact h
    have h2 : b.y - a.y = 0 := by
      rcases mul_eq_zero.mp ey with h | h
      · exact absurd h hne
      · exact h
    exact Geo.Proofs.C02Y.Pt.ext' (by linarith) (by linarith)
  have p1 : 0 ≤ (1 - t) * s := mul_nonneg (by linarith) s0
  have p2 : 0 ≤ t * r := mul_nonneg (le_of_lt t0) r0
  have z1 : (1 - t) * s = 0 := by linarith
  have z2 : t * r = 0 := by linarith
  have hs : s = 0 := by
    rcases mul_eq_zero.mp z1 with h | h
    · linarith
    · exact h
  have hr : r = 0 := by
    rcases mul_eq_zero.mp z2 with h | h
    · linarith
    · exact h
  subst hs; subst hr
  exact Geo.Proofs.C02Y.Pt.ext' (by rw [ux, vx]) (by rw [uy, vy])

theorem lerp_swap (u v : Pt) (t : Rat) : lerp u v t = lerp v u (1 - t) := by
  simp only [lerp]
  exact Geo.Proofs.C02Y.Pt.ext' (by simp only; ring) (by simp only; ring)

/-- a point strictly between two distinct points of a non-degenerate segment is in the interior of the line -/
theorem lerp_inside_line {a b u v : Pt} (hab : a ≠ b) (hu : SegMem u a b) (hv : SegMem v a b) (huv : u ≠ v)
    {t : Rat} (t0 : 0 < t) (t1 : t < 1) : locate (.line a b) (lerp u v t) = .inside := by
  have h : lineContainsCoord a b (lerp u v t) = true := by
    have hne : (a == b) = false := by simpa using hab
    simp only [lineContainsCoord, hne, Bool.false_eq_true, if_false, Bool.and_eq_true, bne_iff_ne, ne_eq]
    refine ⟨⟨?_, ?_⟩, ?_⟩
    · intro e; exact huv (end_not_between hab hu hv t0 t1 e)
    · intro e; exact huv (end_not_between (Ne.symm hab) (SegMem_swap hu) (SegMem_swap hv) t0 t1 e)
    · rw [lineCoord_iff]
      exact SegMem_convex hu hv (lerp_segMem u v (le_of_lt t0) (le_of_lt t1))
  rw [lineContainsCoord_eq_locate] at h
  simpa using h

/-- a point on a line string that is neither its first nor its last coordinate is in its interior -/
theorem inside_lineString {cs : List Pt} {x : Pt} (hon : ∃ s ∈ segs cs, SegMem x s.1 s.2)
    (hf : cs.head? ≠ some x) (hl : cs.getLast? ≠ some x) : locate (.lineString cs) x = .inside := by
  have h := locate_lineString_inside cs x
  have h1 : onAnySeg x (segs cs) = true := by
    rw [Geo.Proofs.Spec.onAnySeg_iff]
    obtain ⟨s, hs, hx⟩ := hon
    exact ⟨s, hs, (lineCoord_iff _ _ _).mpr hx⟩
  have h2 : Geo.Proofs.Loc.epc x cs = 0 := by
    unfold Geo.Proofs.Loc.epc
    split
    · rename_i f l hf' hl'
      have e1 : (x == f) = false := by
        rw [beq_eq_false_iff_ne]; intro e; exact hf (by rw [hf', e])
      have e2 : (x == l) = false := by
        rw [beq_eq_false_iff_ne]; intro e; exact hl (by rw [hl', e])
      rw [e1, e2]
      split <;> simp
    · rfl
  rw [h1, h2] at h
  simpa using h

theorem exists_nd_seg : ∀ (cs : List Pt), (∃ c1 ∈ cs, ∃ c2 ∈ cs, c1 ≠ c2) → ∃ s ∈ segs cs, s.1 ≠ s.2
  | [], ⟨_, h, _⟩ => by cases h
  | [a], ⟨c1, h1, c2, h2, hne⟩ => by
      simp only [List.mem_singleton] at h1 h2
      exact absurd (h1.trans h2.symm) hne
  | a :: b :: t, ⟨c1, h1, c2, h2, hne⟩ => by
      by_cases hab : a = b
      · subst hab
        have h1' : c1 ∈ a :: t := by
          rcases List.mem_cons.mp h1 with rfl | h
          · exact List.mem_cons_self
          · exact h
        have h2' : c2 ∈ a :: t := by
          rcases List.mem_cons.mp h2 with rfl | h
          · exact List.mem_cons_self
          · exact h
        obtain ⟨s, hs, hne'⟩ := exists_nd_seg (a :: t) ⟨c1, h1', c2, h2', hne⟩
        exact ⟨s, by simp only [segs]; exact List.mem_cons_of_mem _ hs, hne'⟩
      · exact ⟨(a, b), by simp [segs], hab⟩

/-- a point strictly inside a non-degenerate segment of a line string, off its first and last coordinate -/
theorem exists_inside_on_seg {cs : List Pt} {u v : Pt} (huv : u ≠ v) (L : List Pt) :
    ∃ t : Rat, 0 < t ∧ t < 1 ∧ lerp u v t ∉ L ∧ cs.head? ≠ some (lerp u v t) ∧ cs.getLast? ≠ some (lerp u v t) := by
  obtain ⟨t, t0, t1, hav⟩ := exists_between_avoiding huv (L ++ cs.head?.toList ++ cs.getLast?.toList)
  refine ⟨t, t0, t1, ?_, ?_, ?_⟩
  · intro h; exact hav (by simp [h])
  · intro h; exact hav (by simp [h])
  · intro h; exact hav (by simp [h])

end Geo.Proofs.C02Y
