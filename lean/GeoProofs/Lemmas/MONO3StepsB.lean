/-
  MONO3 (C10): steps 4 and 5 of `process_next_pt` in the token view.
-/
import GeoProofs.Lemmas.MONO3Steps

namespace Geo.Proofs.MONO3
open Geo Geo.Mono Geo.MonoBuild Geo.Proofs.C10 Geo.Proofs.MONO Geo.Proofs.MONO2

theorem setInfo_len {st st' : St} {i : Nat} {f : Info → Info} (h : st.setInfo i f = some st') :
    st'.chains.length = st.chains.length := by
  obtain ⟨_, _, e⟩ := setInfo_eq h
  subst e; rfl

/-- a starting segment that is not yet counted has no `help` and no `helper_chain` -/
def Plain (st : St) (H : Nat → Prop) (l : List Nat) : Prop :=
  ∀ o ∈ l, ∀ s : Seg, st.segs[o]? = some s → H o ∨ (s.info.help = none ∧ s.info.helperChain = none)

theorem Plain.step {st st' : St} {H : Nat → Prop} {l : List Nat} {o : Nat} {f : Info → Info}
    (h : Plain st H l) (hset : st.setInfo o f = some st') : Plain st' (fun j => H j ∨ j = o) l := by
  intro x hx s hs
  by_cases e : x = o
  · exact Or.inl (Or.inr e)
  · rw [setInfo_other hset e] at hs
    rcases h x hx s hs with g | g
    · exact Or.inl (Or.inl g)
    · exact Or.inr g

theorem Plain.sub {st : St} {H : Nat → Prop} {l l' : List Nat} (h : Plain st H l) (hs : ∀ x ∈ l', x ∈ l) :
    Plain st H l' := fun o ho => h o (hs o ho)

theorem Plain.congr {st st' : St} {H : Nat → Prop} {l : List Nat} (h : Plain st H l) (hs : st'.segs = st.segs) :
    Plain st' H l := by
  intro o ho s hso; rw [hs] at hso; exact h o ho s hso

/-- Step 4: every drained pair of starting segments takes two fresh chain indices -/
theorem startOutgoing_tok (pt : Pt) : ∀ (l : List Nat) (st st' : St) (H : Nat → Prop) (T : List Nat) (l' : List Nat),
    Tok st H T st.chains.length → Plain st H (l ++ l') → startOutgoing pt l st = some st' →
    Tok st' (fun j => H j ∨ j ∈ l) T st'.chains.length ∧ Plain st' (fun j => H j ∨ j ∈ l) l'
  | [], st, st', H, T, l', ht, hp, h => by
    simp only [startOutgoing] at h; cases h
    refine ⟨ht.relax (fun j hj => by simpa using hj) ht.tnd (fun _ h => h) (Nat.le_refl _) (Nat.le_refl _), ?_⟩
    intro o ho s hs
    rcases hp o (by simpa using ho) s hs with g | g
    · exact Or.inl (Or.inl g)
    · exact Or.inr g
  | [_], st, st', H, T, l', ht, hp, h => by
    simp only [startOutgoing] at h; cases h
  | first :: second :: rest, st, st', H, T, l', ht, hp, h => by
    simp only [startOutgoing] at h
    osplit h
    rename_i bot top hb htp
    osplit h
    rename_i st1 e1
    osplit h
    rename_i st2 e2
    have t0 : Tok { st with chains := st.chains ++ [some [pt, bot], some [pt, top]] } H T st.chains.length :=
      ht.congr rfl (by simp)
    obtain ⟨s1, hs1, _⟩ := setInfo_eq e1
    have p0 : Plain { st with chains := st.chains ++ [some [pt, bot], some [pt, top]] } H
        (first :: second :: rest ++ l') := hp.congr rfl
    have t1 := t0.setChainIdx (m' := st.chains.length + 1) (T' := T) e1 hs1 (p0 first (by simp) s1 hs1)
      (Or.inl ⟨Nat.le_refl _, rfl⟩) (by omega) (by omega) (by simp)
    have p1 := p0.step e1
    obtain ⟨s2, hs2, _⟩ := setInfo_eq e2
    have len1 : st1.chains.length = st.chains.length + 2 := by rw [setInfo_len e1]; simp
    have t2 := t1.setChainIdx (m' := st.chains.length + 2) (T' := T) e2 hs2 (p1 second (by simp) s2 hs2)
      (Or.inl ⟨Nat.le_refl _, rfl⟩) (by omega) (by omega) (by omega)
    have p2 := p1.step e2
    have len2 : st2.chains.length = st.chains.length + 2 := by rw [setInfo_len e2, len1]
    rw [← len2] at t2
    obtain ⟨r1, r2⟩ := startOutgoing_tok pt rest st2 st' _ T l' t2
      (p2.sub (fun x hx => by
        simp only [List.mem_append, List.mem_cons] at hx ⊢
        rcases hx with hx | hx
        · exact Or.inl (Or.inr (Or.inr hx))
        · exact Or.inr hx)) h
    refine ⟨r1.relax ?_ r1.tnd (fun _ h => h) (Nat.le_refl _) (Nat.le_refl _), ?_⟩
    · intro j hj
      simp only [List.mem_cons] at hj
      rcases hj with hj | hj | hj | hj
      · exact Or.inl (Or.inl (Or.inl hj))
      · exact Or.inl (Or.inl (Or.inr hj))
      · exact Or.inl (Or.inr hj)
      · exact Or.inr hj
    · intro o ho s hs
      rcases r2 o ho s hs with g | g
      · left
        rcases g with ((g | g) | g) | g
        · exact Or.inl g
        · exact Or.inr (by simp [g])
        · exact Or.inr (by simp [g])
        · exact Or.inr (by simp [g])
      · exact Or.inr g

theorem setHelper_tok {bot : Option Nat} {idx : Nat} {st st' : St} {H : Nat → Prop} {T : List Nat} {m : Nat}
    (ht : Tok st H T m) (hb : ∀ b, bot = some b → H b) (hk : idx < m) (h : setHelper bot idx st = some st') :
    Tok st' H T m ∧ st'.chains.length = st.chains.length := by
  unfold setHelper at h
  split at h
  · rename_i b
    obtain ⟨s, hs, _⟩ := setInfo_eq h
    exact ⟨ht.setHelperChain h hs (hb b rfl) hk, setInfo_len h⟩
  · cases h; exact ⟨ht, rfl⟩

/-- Step 5: the starting segments left over take the tokens or two fresh indices; with no starting segment the tokens go to
the `help` of the segment below -/
theorem tieUp_tok {pt : Pt} {bot : Option Nat} {br : Bool} {out : List Nat} {st st' : St}
    {ic : Option Nat × Option Nat} {H : Nat → Prop}
    (ht : Tok st H (ic.1.toList ++ ic.2.toList) st.chains.length) (hb : ∀ b, bot = some b → H b)
    (hp : Plain st H out) (h : tieUp pt bot br out st ic = some st') :
    ∃ T', Tok st' (fun j => H j ∨ j ∈ out) T' st'.chains.length := by
  unfold tieUp at h
  split at h
  · -- (none, none)
    simp only [Option.toList_none, List.append_nil] at ht
    osplit h
    · cases h
      exact ⟨_, ht.relax (fun j hj => by simpa using hj) ht.tnd (fun _ h => h) (Nat.le_refl _) (Nat.le_refl _)⟩
    · rename_i first second
      osplit h
      rename_i b
      osplit h
      rename_i bi r1 r2 hbi hr1 hr2
      simp only at h
      osplit h
      rename_i c hc
      osplit h
      rename_i self' n0 n1 hsw
      osplit h
      rename_i st1 e1
      osplit h
      rename_i st2 e2
      have t0 : Tok { st with chains := st.chains.set (bi.helperChain.getD bi.chainIdx) (some self') ++
          [some (n0 ++ [r1]), some (n1 ++ [r2])] } H [] st.chains.length := by
        exact ht.congr rfl (by simp)
      have p0 : Plain { st with chains := st.chains.set (bi.helperChain.getD bi.chainIdx) (some self') ++
          [some (n0 ++ [r1]), some (n1 ++ [r2])] } H [first, second] := hp.congr rfl
      obtain ⟨s1, hs1, _⟩ := setInfo_eq e1
      have t1 := t0.setChainIdx (m' := st.chains.length + 1) (T' := []) e1 hs1 (p0 first (by simp) s1 hs1)
        (Or.inl ⟨Nat.le_refl _, rfl⟩) (by omega) (by omega) (by simp)
      have p1 := p0.step e1
      obtain ⟨s2, hs2, _⟩ := setInfo_eq e2
      have len1 : st1.chains.length = st.chains.length + 2 := by rw [setInfo_len e1]; simp
      have t2 := t1.setChainIdx (m' := st.chains.length + 2) (T' := []) e2 hs2 (p1 second (by simp) s2 hs2)
        (Or.inl ⟨Nat.le_refl _, rfl⟩) (by omega) (by omega) (by omega)
      have len2 : st2.chains.length = st.chains.length + 2 := by rw [setInfo_len e2, len1]
      obtain ⟨sb, hsb, _⟩ := setInfo_eq h
      have t3 := t2.setHelperChain h hsb (Or.inl (Or.inl (hb b rfl))) (by omega)
      have len3 : st'.chains.length = st.chains.length + 2 := by rw [setInfo_len h, len2]
      rw [← len3] at t3
      refine ⟨_, t3.relax ?_ t3.tnd (fun _ h => h) (Nat.le_refl _) (Nat.le_refl _)⟩
      intro j hj
      simp only [List.mem_cons, List.not_mem_nil, or_false] at hj
      rcases hj with hj | hj | hj
      · exact Or.inl (Or.inl hj)
      · exact Or.inl (Or.inr hj)
      · exact Or.inr hj
  · -- (some idx, none)
    rename_i idx
    simp only [Option.toList_some, Option.toList_none, List.append_nil] at ht
    osplit h
    rename_i first
    osplit h
    rename_i r hr
    osplit h
    rename_i st1 e1
    obtain ⟨a1, b1⟩ := pushChain_sl e1
    have t1 : Tok st1 H [idx] st1.chains.length := by
      rw [b1]; exact ht.congr a1 (by rw [b1])
    osplit h
    rename_i st2 e2
    obtain ⟨s2, hs2, _⟩ := setInfo_eq e2
    have hidx : idx < st1.chains.length := t1.tlt idx (by simp)
    have t2 := t1.setChainIdx (m' := st1.chains.length) (T' := [idx].erase idx) e2 hs2
      ((hp.congr a1) first (by simp) s2 hs2) (Or.inr ⟨by simp, rfl⟩) (Nat.le_refl _) hidx (Nat.le_refl _)
    obtain ⟨t3, len3⟩ := setHelper_tok t2 (fun b hb' => Or.inl (hb b hb')) hidx h
    rw [← setInfo_len e2, ← len3] at t3
    refine ⟨_, t3.relax ?_ t3.tnd (fun _ h => h) (Nat.le_refl _) (Nat.le_refl _)⟩
    intro j hj
    simp only [List.mem_cons, List.not_mem_nil, or_false] at hj
    exact hj
  · -- (some idx, some jdx)
    rename_i idx jdx
    simp only [Option.toList_some, List.cons_append, List.nil_append] at ht
    have hne : idx ≠ jdx := by
      have := ht.tnd
      simp only [List.nodup_cons, List.mem_singleton] at this
      exact this.1
    osplit h
    · osplit h
      rename_i b
      osplit h
      rename_i st1 e1
      obtain ⟨s1, hs1, _⟩ := setInfo_eq e1
      have t1 := ht.setHelp e1 hs1 (hb b rfl) (by simp) (by simp) hne
      have hidx : idx < st.chains.length := ht.tlt idx (by simp)
      obtain ⟨t2, len2⟩ := setHelper_tok t1 hb hidx h
      rw [← setInfo_len e1, ← len2] at t2
      exact ⟨_, t2.relax (fun j hj => by simpa using hj) t2.tnd (fun _ h => h) (Nat.le_refl _) (Nat.le_refl _)⟩
    · rename_i first second
      osplit h
      rename_i r1 r2 hr1 hr2
      osplit h
      rename_i st1 e1
      obtain ⟨a1, b1⟩ := pushChain_sl e1
      osplit h
      rename_i st2 e2
      obtain ⟨a2, b2⟩ := pushChain_sl e2
      have t2 : Tok st2 H [idx, jdx] st2.chains.length := by
        rw [b2, b1]; exact ht.congr (by rw [a2, a1]) (by rw [b2, b1])
      have p2 : Plain st2 H [first, second] := hp.congr (by rw [a2, a1])
      have hidx : idx < st2.chains.length := t2.tlt idx (by simp)
      have hjdx : jdx < st2.chains.length := t2.tlt jdx (by simp)
      osplit h
      rename_i st3 e3
      obtain ⟨s3, hs3, _⟩ := setInfo_eq e3
      have t3 := t2.setChainIdx (m' := st2.chains.length) (T' := [idx, jdx].erase idx) e3 hs3
        (p2 first (by simp) s3 hs3) (Or.inr ⟨by simp, rfl⟩) (Nat.le_refl _) hidx (Nat.le_refl _)
      have p3 := p2.step e3
      osplit h
      rename_i st4 e4
      obtain ⟨s4, hs4, _⟩ := setInfo_eq e4
      have herase : [idx, jdx].erase idx = [jdx] := by simp
      rw [herase] at t3
      have t4 := t3.setChainIdx (m' := st2.chains.length) (T' := [jdx].erase jdx) e4 hs4
        (p3 second (by simp) s4 hs4) (Or.inr ⟨by simp, rfl⟩) (Nat.le_refl _) hjdx
        (by rw [setInfo_len e3])
      obtain ⟨t5, len5⟩ := setHelper_tok t4 (fun b hb' => Or.inl (Or.inl (hb b hb'))) hidx h
      rw [← setInfo_len e3, ← setInfo_len e4, ← len5] at t5
      refine ⟨_, t5.relax ?_ t5.tnd (fun _ h => h) (Nat.le_refl _) (Nat.le_refl _)⟩
      intro j hj
      simp only [List.mem_cons, List.not_mem_nil, or_false] at hj
      rcases hj with hj | hj | hj
      · exact Or.inl (Or.inl hj)
      · exact Or.inl (Or.inr hj)
      · exact Or.inr hj
  · cases h

end Geo.Proofs.MONO3
