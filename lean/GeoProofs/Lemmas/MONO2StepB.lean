/-
  MONO2 (C10, builder of the monotone pieces), part B of the step lemmas: `lastIdx` and `inChains` (step 3 of
  `process_next_pt`): the chains stay increasing, and the chain indices handed on to step 5 are different, in range,
  and have their tip at the current point.
-/
import GeoProofs.Lemmas.MONO2Step

namespace Geo.Proofs.MONO2
open Geo Geo.Mono Geo.MonoBuild Geo.Proofs.C10 Geo.Proofs.MONO

theorem HP.mono {pt : Pt} {I S S' : List Nat} {n : Nat} {st : St} (h : HP pt I S n st) (hs : ∀ i ∈ S', i ∈ S) :
    HP pt I S' n st :=
  ⟨fun i hi => h.lt i (hs i hi), fun i hi j hj => h.inj i (hs i hi) j (hs j hj), fun i hi => h.cl i (hs i hi), h.t0⟩

/-- pushing onto a slot that no segment of `S` references keeps the ownership facts -/
theorem HP.frame {pt : Pt} {I : List Nat} {n : Nat} {st st' : St} {k : Nat} (h : HP pt I I n st)
    (hseg : st'.segs = st.segs) (hfr : ∀ j, j ≠ k → chainAt st' j = chainAt st j)
    (hk : ∀ i ∈ I, ∀ s a k', st.segs[i]? = some s → refOf s.info a = some k' → k' ≠ k) : HP pt I I n st' := by
  refine ⟨?_, ?_, ?_, ?_⟩
  · intro i hi s a k' hs hr; rw [hseg] at hs; exact h.lt i hi s a k' hs hr
  · intro i hi j hj s t a b k' hs ht hr hr'; rw [hseg] at hs ht; exact h.inj i hi j hj s t a b k' hs ht hr hr'
  · intro i hi s a k' hs ha hr
    rw [hseg] at hs
    have hne := hk i hi s a k' hs hr
    intro c t hc ht
    rw [hfr k' hne] at hc
    exact h.cl i hi s a k' hs ha hr c t hc ht
  · intro i hi s hs
    rw [hseg] at hs
    have hne := hk i hi s 0 s.info.chainIdx hs rfl
    intro c hc
    rw [hfr _ hne] at hc
    exact h.t0 i hi s hs c hc

/-! ### `lastIdx` -/

theorem lastIdx_spec {pt : Pt} {I : List Nat} {n : Nat} {seg : Nat} {st st' : St} {li : Nat}
    (hseg : seg ∈ I) (hcb : CB pt st) (hp : HP pt I I n st) (h : lastIdx pt seg st = some (st', li)) :
    (∃ s a, st.segs[seg]? = some s ∧ refOf s.info a = some li) ∧
    CB pt st' ∧ TipIs pt st' li ∧
    (∀ j, j ≠ li → ∀ c, chainAt st' j = some c → chainAt st j = some c) ∧
    st'.segs = st.segs ∧ st'.chains.length = st.chains.length ∧
    (∀ m ∈ st'.outputs, m ∈ st.outputs ∨ wellFormed m = true) := by
  unfold lastIdx at h
  osplit h
  rename_i inf hinf
  obtain ⟨s, hs, hsi⟩ := infoOf_seg hinf
  osplit h
  · rename_i h0 h1 hh
    osplit h
    rename_i fhc st1 e1
    obtain ⟨hfhc, _⟩ := takeChain_eq e1
    have r1 := takeChain_shr e1
    obtain ⟨_, g1, _, _⟩ := takeChain_sub e1
    osplit h
    rename_i fc st2 e2
    obtain ⟨hfc, _⟩ := takeChain_eq e2
    have r2 := r1.trans (takeChain_shr e2)
    obtain ⟨_, g2, _, _⟩ := takeChain_sub e2
    osplit h
    rename_i st3 e3
    osplit h
    rename_i m hm
    simp only [Option.some.injEq, Prod.mk.injEq] at h
    obtain ⟨h, hli⟩ := h
    subst h hli
    have c0 : TipLt pt st h0 := hp.cl seg hseg s 1 h0 hs (by decide) (by simp only [refOf]; rw [hsi, hh]; rfl)
    have c1 : TipLt pt st h1 := hp.cl seg hseg s 2 h1 hs (by decide) (by simp only [refOf]; rw [hsi, hh]; rfl)
    obtain ⟨p1, p2, p3, p4, p5, p6⟩ := push_cb (hcb.sub r2.sub) (c1.sub r2.sub) e3
    have e0 := sorted_concat_pt hcb c0 hfhc
    have wfc := hcb _ fc (r1.sub _ _ hfc)
    have w := finishWith_wellFormed hm wfc.1 e0.1 wfc.2.1 e0.2
    refine ⟨⟨s, 2, hs, by simp only [refOf]; rw [hsi, hh]; rfl⟩, p1, p2, ?_, ?_, ?_, ?_⟩
    · intro j hj c hc
      have : chainAt st3 j = some c := hc
      rw [p3 j hj] at this
      exact r2.sub j c this
    · show st3.segs = st.segs
      rw [p4, g2, g1]
    · show st3.chains.length = st.chains.length
      rw [p5, r2.len]
    · intro m' hm'
      have hm'' : m' ∈ st3.outputs ++ [m] := hm'
      rcases List.mem_append.1 hm'' with g | g
      · rw [p6] at g
        exact r2.outs m' g
      · simp only [List.mem_cons, List.not_mem_nil, or_false] at g
        rw [g]; exact Or.inr w
  · simp only [Option.some.injEq, Prod.mk.injEq] at h
    obtain ⟨h, hli⟩ := h
    subst h hli
    refine ⟨⟨s, 0, hs, by simp only [refOf]; rw [hsi]⟩, hcb, ?_, fun _ _ _ hc => hc, rfl, rfl, fun m hm => Or.inl hm⟩
    rw [← hsi]
    exact hp.t0 seg hseg s hs

/-! ### `inChains` -/

/-- what step 5 needs to know about the chain indices it gets from step 3 -/
structure IcOk (pt : Pt) (n : Nat) (st : St) (ic : Option Nat × Option Nat) : Prop where
  fst : ∀ x, ic.1 = some x → x < n ∧ TipIs pt st x
  snd : ∀ y, ic.2 = some y → y < n ∧ TipIs pt st y
  ne : ∀ x y, ic.1 = some x → ic.2 = some y → x ≠ y

/-- the facts about a registered `help` of the segment below, read before step 3 -/
def BotHelpOk (pt : Pt) (I : List Nat) (n : Nat) (st : St) (bh : Option (Nat × Nat)) : Prop :=
  ∀ h0 h1, bh = some (h0, h1) → TipLt pt st h0 ∧ TipLt pt st h1 ∧ h0 ≠ h1 ∧ h0 < n ∧ h1 < n ∧
    ∀ i ∈ I, ∀ s a k, st.segs[i]? = some s → refOf s.info a = some k → k ≠ h0 ∧ k ≠ h1

theorem BotHelpOk.shrink {pt : Pt} {I : List Nat} {n : Nat} {st st' : St} {bh : Option (Nat × Nat)}
    (h : BotHelpOk pt I n st bh) (hi : InfoSub st st') (hs : Sub st st') : BotHelpOk pt I n st' bh := by
  intro h0 h1 e
  obtain ⟨a, b, c, d, f, g⟩ := h h0 h1 e
  refine ⟨a.sub hs, b.sub hs, c, d, f, ?_⟩
  intro i hiI s' r k hs' hr
  obtain ⟨s, e', _, cc, p⟩ := hi i s' hs'
  exact g i hiI s r k e' (refOf_sub cc p hr)

theorem head_ne_last {l : List Nat} {a b : Nat} (hnd : l.Nodup) (hlen : ¬ (l.length == 1) = true)
    (ha : l.head? = some a) (hb : l.getLast? = some b) : a ≠ b := by
  match l, hnd, hlen, ha, hb with
  | [], _, _, ha, _ => simp at ha
  | [x], _, hlen, _, _ => simp at hlen
  | x :: y :: t, hnd, _, ha, hb =>
    simp only [List.head?_cons, Option.some.injEq] at ha
    rw [List.getLast?_cons_cons] at hb
    intro e
    have : b ∈ y :: t := List.mem_of_getLast? hb
    rw [← e, ← ha] at this
    exact (List.nodup_cons.1 hnd).1 this

theorem inChains_spec {pt : Pt} {I : List Nat} {n : Nat} {bot : Option Nat} {bh : Option (Nat × Nat)}
    {inc : List Nat} {st st' : St} {ic : Option Nat × Option Nat}
    (hinc : ∀ x ∈ inc, x ∈ I) (hnd : inc.Nodup) (hbI : ∀ b, bot = some b → b ∉ I)
    (hcb : CB pt st) (hp : HP pt I I n st) (hbh : BotHelpOk pt I n st bh)
    (h : inChains pt bot bh inc st = some (st', ic)) :
    CB pt st' ∧ IcOk pt n st' ic ∧ st'.chains.length = st.chains.length ∧
    (∀ m ∈ st'.outputs, m ∈ st.outputs ∨ wellFormed m = true) ∧ (ic.1 = none → st' = st) := by
  unfold inChains at h
  osplit h
  · rename_i h0 h1
    obtain ⟨t0, t1, hne, l0, l1, hfree⟩ := hbh h0 h1 rfl
    osplit h
    rename_i b
    osplit h
    rename_i st1 e1
    have r1 := setInfo_help_shr e1
    have hcb1 := hcb.sub r1.sub
    have hp1 := hp.shrink r1.info r1.sub
    have hfree1 : ∀ i ∈ I, ∀ s a k, st1.segs[i]? = some s → refOf s.info a = some k → k ≠ h0 ∧ k ≠ h1 := by
      intro i hiI s' r k hs' hr
      obtain ⟨s, e', _, cc, p⟩ := r1.info i s' hs'
      exact hfree i hiI s r k e' (refOf_sub cc p hr)
    osplit h
    · rename_i in0 restIn
      osplit h
      rename_i i0 hi0
      osplit h
      rename_i sc st2 e2
      obtain ⟨hsc, _⟩ := takeChain_eq e2
      have r2 := r1.trans (takeChain_shr e2)
      osplit h
      rename_i shc st3 e3
      obtain ⟨hshc, _⟩ := takeChain_eq e3
      have r3 := r2.trans (takeChain_shr e3)
      osplit h
      rename_i st4 e4
      obtain ⟨p1, p2, p3, p4, p5, p6⟩ := push_cb (hcb.sub r3.sub) (t0.sub r3.sub) e4
      osplit h
      rename_i m hm
      have es := sorted_concat_pt hcb t1 (r2.sub _ _ hshc)
      have wsc := hcb _ sc (r1.sub _ _ hsc)
      have w := finishWith_wellFormed hm es.1 wsc.1 es.2 wsc.2.1
      have houts : ∀ m' ∈ st4.outputs ++ [m], m' ∈ st.outputs ∨ wellFormed m' = true := by
        intro m' hm'
        rcases List.mem_append.1 hm' with g | g
        · rw [p6] at g; exact r3.outs m' g
        · simp only [List.mem_cons, List.not_mem_nil, or_false] at g
          rw [g]; exact Or.inr w
      simp only at h
      osplit h
      · simp only [Option.some.injEq, Prod.mk.injEq] at h
        obtain ⟨h, hic⟩ := h
        subst h hic
        refine ⟨p1, ⟨?_, ?_, ?_⟩, ?_, houts, by intro e; simp at e⟩
        · intro x hx; cases hx; exact ⟨l0, p2⟩
        · intro y hy; cases hy
        · intro x y _ hy; cases hy
        · show st4.chains.length = st.chains.length
          rw [p5, r3.len]
      · rename_i in1 rest'
        osplit h
        rename_i st6 li e6
        simp only [Option.some.injEq, Prod.mk.injEq] at h
        obtain ⟨h, hic⟩ := h
        subst h hic
        have hin1 : in1 ∈ I := hinc in1 (by simp)
        -- ownership facts in the state handed to `lastIdx`
        have hp3 : HP pt I I n st3 := hp.shrink r3.info r3.sub
        have hfree3 : ∀ i ∈ I, ∀ s a k, st3.segs[i]? = some s → refOf s.info a = some k → k ≠ h0 := by
          intro i hiI s' r k hs' hr
          obtain ⟨s, e', _, cc, p⟩ := r3.info i s' hs'
          exact (hfree i hiI s r k e' (refOf_sub cc p hr)).1
        have hp4 : HP pt I I n { st4 with outputs := st4.outputs ++ [m] } :=
          HP.frame (st' := { st4 with outputs := st4.outputs ++ [m] }) hp3 p4 (fun j hj => p3 j hj) hfree3
        have hcb4 : CB pt { st4 with outputs := st4.outputs ++ [m] } := fun k c hc => p1 k c hc
        obtain ⟨⟨s, a, hs, hr⟩, q1, q2, q3, q4, q5, q6⟩ := lastIdx_spec hin1 hcb4 hp4 e6
        have hs3 : st3.segs[in1]? = some s := by
          have : st4.segs[in1]? = some s := hs
          rw [p4] at this; exact this
        have hlih : li ≠ h0 := hfree3 in1 hin1 s a li hs3 hr
        refine ⟨q1, ⟨?_, ?_, ?_⟩, ?_, ?_, by intro e; simp at e⟩
        · intro x hx; cases hx
          refine ⟨l0, ?_⟩
          intro c hc
          exact p2 c (q3 h0 (Ne.symm hlih) c hc)
        · intro y hy; cases hy
          exact ⟨hp3.lt in1 hin1 s a li hs3 hr, q2⟩
        · intro x y hx hy; cases hx; cases hy; exact Ne.symm hlih
        · rw [q5]
          show st4.chains.length = st.chains.length
          rw [p5, r3.len]
        · intro m' hm'
          rcases q6 m' hm' with g | g
          · exact houts m' g
          · exact Or.inr g
    · osplit h
      rename_i st2 e2
      obtain ⟨p1, p2, p3, p4, p5, p6⟩ := push_cb hcb1 (t0.sub r1.sub) e2
      osplit h
      rename_i st3 e3
      have t1' : TipLt pt st2 h1 := by
        intro c t hc ht
        rw [p3 h1 (Ne.symm hne)] at hc
        exact (t1.sub r1.sub) c t hc ht
      obtain ⟨q1, q2, q3, q4, q5, q6⟩ := push_cb p1 t1' e3
      simp only [Option.some.injEq, Prod.mk.injEq] at h
      obtain ⟨h, hic⟩ := h
      subst h hic
      refine ⟨q1, ⟨?_, ?_, ?_⟩, ?_, ?_, by intro e; simp at e⟩
      · intro x hx; cases hx
        refine ⟨l0, ?_⟩
        intro c hc
        rw [q3 h0 hne] at hc
        exact p2 c hc
      · intro y hy; cases hy; exact ⟨l1, q2⟩
      · intro x y hx hy; cases hx; cases hy; exact hne
      · rw [q5, p5, r1.len]
      · intro m hm
        rw [q6, p6] at hm
        exact r1.outs m hm
  · osplit h
    · simp only [Option.some.injEq, Prod.mk.injEq] at h
      obtain ⟨h, hic⟩ := h
      subst h hic
      refine ⟨hcb, ⟨?_, ?_, ?_⟩, rfl, fun m hm => Or.inl hm, fun _ => rfl⟩
      · intro x hx; cases hx
      · intro y hy; cases hy
      · intro x y hx; cases hx
    · rename_i lastIn hl
      have hlI : lastIn ∈ I := hinc lastIn (List.mem_of_getLast? hl)
      osplit h
      rename_i st1 li e1
      obtain ⟨⟨s, a, hs, hr⟩, q1, q2, q3, q4, q5, q6⟩ := lastIdx_spec hlI hcb hp e1
      split at h
      · simp only [Option.some.injEq, Prod.mk.injEq] at h
        obtain ⟨h, hic⟩ := h
        subst h hic
        refine ⟨q1, ⟨?_, ?_, ?_⟩, q5, q6, by intro e; simp at e⟩
        · intro x hx; cases hx; exact ⟨hp.lt lastIn hlI s a li hs hr, q2⟩
        · intro y hy; cases hy
        · intro x y _ hy; cases hy
      · rename_i hlen
        osplit h
        rename_i in0 hhd
        osplit h
        rename_i i0 hi0
        simp only [Option.some.injEq, Prod.mk.injEq] at h
        obtain ⟨h, hic⟩ := h
        subst h hic
        have hin0 : in0 ∈ I := hinc in0 (List.mem_of_mem_head? hhd)
        obtain ⟨s0, hs0, hs0i⟩ := infoOf_seg hi0
        rw [q4] at hs0
        have hne : in0 ≠ lastIn := head_ne_last hnd hlen hhd hl
        have hcne : i0.chainIdx ≠ li := by
          intro e
          have := hp.inj in0 hin0 lastIn hlI s0 s 0 a li hs0 hs (by simp only [refOf]; rw [hs0i, e]) hr
          exact hne this.1
        refine ⟨q1, ⟨?_, ?_, ?_⟩, q5, q6, by intro e; simp at e⟩
        · intro x hx; cases hx
          refine ⟨hp.lt in0 hin0 s0 0 _ hs0 (by simp only [refOf]; rw [hs0i]), ?_⟩
          intro c hc
          have := hp.t0 in0 hin0 s0 hs0
          rw [hs0i] at this
          exact this c (q3 _ hcne c hc)
        · intro y hy; cases hy; exact ⟨hp.lt lastIn hlI s a li hs hr, q2⟩
        · intro x y hx hy; cases hx; cases hy; exact hcne

end Geo.Proofs.MONO2
