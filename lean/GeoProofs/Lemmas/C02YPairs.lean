/-
  C02Y, part 2: EVERY pair of geometries of the validity domain (the 15 areal × areal type pairs and collections
  with areal members included):

      intersects(a, b)  ⇔  a and b have a common point  ⇔  "not `FF*FF****`" on the DE-9IM specification.

  The dispatch proofs of C02XPairs (left operand split into pieces, `Y: Intersects<piece>` of the right operand)
  are repeated without the `thin` hypothesis: an areal `Y` against an areal piece reaches `polyPoly` (through
  `to_polygon` for Rect / Triangle) or `rectRect`, which are point-set statements by `polyPoly_common` (C02YAreal)
  and `rectRect_iff`.
-/
import GeoProofs.Lemmas.C02YAreal

set_option linter.unusedSimpArgs false
set_option linter.unusedVariables false

namespace Geo.Proofs.C02Y
open Geo Geo.Proofs.Kernel Geo.Proofs.Spec Geo.Proofs.C02X Geo.Proofs.C07

/-! ### what the dispatch needs of an areal piece, areal `Y` included -/

structure PieceFactsA (piece : Geom) : Prop where
  pf : PieceFacts piece
  kpoly : ∀ q, inDomain (.polygon q) = true → (polyX q piece = true ↔ Common (.polygon q) piece)
  krect : ∀ mn mx, inDomain (.rect mn mx) = true → (rectX mn mx piece = true ↔ Common (.rect mn mx) piece)
  ktri : ∀ a b c, inDomain (.triangle a b c) = true → (triX a b c piece = true ↔ Common (.triangle a b c) piece)

theorem common_comm {a b : Geom} : Common a b ↔ Common b a := ⟨Common.symm, Common.symm⟩

theorem pieceFactsA_polygon (p : Poly) (hd : inDomain (.polygon p) = true) : PieceFactsA (.polygon p) where
  pf := pieceFacts_polygon p hd
  kpoly := fun q hq => by
    simp only [polyX]
    exact polyPoly_common q p (arealFacts_polygon q hq) (arealFacts_polygon p hd)
  krect := fun mn mx _ => by
    simp only [rectX]
    rw [polyPoly_common p (rectPoly mn mx) (arealFacts_polygon p hd) (arealFacts_rectPoly mn mx)]
    exact common_comm
  ktri := fun a b c _ => by
    simp only [triX]
    rw [polyPoly_common p (triPoly a b c) (arealFacts_polygon p hd) (arealFacts_triPoly a b c)]
    exact common_comm

theorem pieceFactsA_rect (mn mx : Pt) (hd : inDomain (.rect mn mx) = true) : PieceFactsA (.rect mn mx) where
  pf := pieceFacts_rect mn mx hd
  kpoly := fun q hq => by
    simp only [polyX]
    exact polyPoly_common q (rectPoly mn mx) (arealFacts_polygon q hq) (arealFacts_rectPoly mn mx)
  krect := fun amn amx ha => by
    simp only [rectX]
    exact rectRect_iff amn amx mn mx (rect_dom ha).1 (rect_dom ha).2 (rect_dom hd).1 (rect_dom hd).2
  ktri := fun a b c _ => by
    simp only [triX]
    exact polyPoly_common (triPoly a b c) (rectPoly mn mx) (arealFacts_triPoly a b c) (arealFacts_rectPoly mn mx)

theorem pieceFactsA_triangle (t0 t1 t2 : Pt) (hd : inDomain (.triangle t0 t1 t2) = true) :
    PieceFactsA (.triangle t0 t1 t2) where
  pf := pieceFacts_triangle t0 t1 t2 hd
  kpoly := fun q hq => by
    simp only [polyX]
    exact polyPoly_common q (triPoly t0 t1 t2) (arealFacts_polygon q hq) (arealFacts_triPoly t0 t1 t2)
  krect := fun mn mx _ => by
    simp only [rectX]
    rw [polyPoly_common (triPoly t0 t1 t2) (rectPoly mn mx) (arealFacts_triPoly t0 t1 t2) (arealFacts_rectPoly mn mx)]
    exact common_comm
  ktri := fun a b c _ => by
    simp only [triX]
    exact polyPoly_common (triPoly a b c) (triPoly t0 t1 t2) (arealFacts_triPoly a b c) (arealFacts_triPoly t0 t1 t2)

/-! ### any `Y` of the domain against an areal piece -/

mutual
theorem vsPiece_any : ∀ (y piece : Geom), inDomain y = true → PieceFactsA piece →
    (vsPiece y piece = true ↔ Common y piece)
  | .point c, piece, hd, pf => vsPiece_thin (.point c) piece hd rfl pf.pf
  | .line a b, piece, hd, pf => vsPiece_thin (.line a b) piece hd rfl pf.pf
  | .multiPoint cs, piece, hd, pf => vsPiece_thin (.multiPoint cs) piece hd rfl pf.pf
  | .lineString cs, piece, hd, pf => vsPiece_thin (.lineString cs) piece hd rfl pf.pf
  | .multiLineString ls, piece, hd, pf => vsPiece_thin (.multiLineString ls) piece hd rfl pf.pf
  | .polygon q, piece, hd, pf => by
      simp only [vsPiece, isxFlat]
      exact pf.kpoly q hd
  | .rect mn mx, piece, hd, pf => by
      simp only [vsPiece, isxFlat]
      exact pf.krect mn mx hd
  | .triangle a b c, piece, hd, pf => by
      simp only [vsPiece, isxFlat]
      exact pf.ktri a b c hd
  | .multiPolygon ps, piece, hd, pf => by
      simp only [vsPiece, isxFlat]
      constructor
      · intro h
        split at h
        · cases h
        · rw [List.any_eq_true] at h
          obtain ⟨q, hq, h⟩ := h
          obtain ⟨p, h1, h2⟩ := (pf.kpoly q (mpg_member_dom hd q hq)).mp h
          exact ⟨p, (located_multiPolygon ps p).mpr ⟨q, hq, h1⟩, h2⟩
      · rintro ⟨p, h1, h2⟩
        rw [disjointBB_false_of_common_facts (dom_facts _ hd) pf.pf.facts h1 h2]
        simp only [Bool.false_eq_true, if_false]
        obtain ⟨q, hq, h⟩ := (located_multiPolygon ps p).mp h1
        rw [List.any_eq_true]
        exact ⟨q, hq, (pf.kpoly q (mpg_member_dom hd q hq)).mpr ⟨p, h, h2⟩⟩
  | .collection gs, piece, hd, pf => by
      obtain ⟨hok, hl⟩ := inDomain_collection hd
      have hm := vsPiece_any_list gs piece hl pf
      simp only [vsPiece]
      rw [isxColl, isxCollAny_eq]
      constructor
      · intro h
        split at h
        · cases h
        · rw [List.any_eq_true] at h
          obtain ⟨g, hg, h⟩ := h
          obtain ⟨p, h1, h2⟩ := (hm g hg).mp h
          exact ⟨p, (located_collection hd p).mpr ⟨g, hg, h1⟩, h2⟩
      · rintro ⟨p, h1, h2⟩
        rw [disjointBB_false_of_common_facts (dom_facts _ hd) pf.pf.facts h1 h2]
        simp only [Bool.false_eq_true, if_false]
        obtain ⟨g, hg, h⟩ := (located_collection hd p).mp h1
        rw [List.any_eq_true]
        exact ⟨g, hg, (hm g hg).mpr ⟨p, h, h2⟩⟩
theorem vsPiece_any_list : ∀ (gs : List Geom) (piece : Geom), inDomainList gs = true →
    PieceFactsA piece → ∀ g ∈ gs, (vsPiece g piece = true ↔ Common g piece)
  | [], _, _, _ => fun g hg => by cases hg
  | a :: t, piece, h, pf => by
      simp only [inDomainList, Bool.and_eq_true] at h
      intro g hg
      rcases List.mem_cons.mp hg with e | hg
      · rw [e]; exact vsPiece_any a piece h.1 pf
      · exact vsPiece_any_list t piece h.2 pf g hg
end

/-! ### the left operand -/

mutual
/-- **`intersects(a, b)` ⇔ common point, for every pair of the validity domain** -/
theorem intersectsM_common_all : ∀ (a b : Geom), inDomain a = true → inDomain b = true →
    (intersectsM a b = true ↔ Common a b)
  | .point c, b, ha, hb => intersectsM_common (.point c) b ha hb (Or.inl rfl)
  | .line x y, b, ha, hb => intersectsM_common (.line x y) b ha hb (Or.inl rfl)
  | .multiPoint cs, b, ha, hb => intersectsM_common (.multiPoint cs) b ha hb (Or.inl rfl)
  | .lineString cs, b, ha, hb => intersectsM_common (.lineString cs) b ha hb (Or.inl rfl)
  | .multiLineString ls, b, ha, hb => intersectsM_common (.multiLineString ls) b ha hb (Or.inl rfl)
  | .polygon q, b, ha, hb => by
      rw [intersectsM, vsPiece_any b (.polygon q) hb (pieceFactsA_polygon q ha)]
      exact common_comm
  | .rect mn mx, b, ha, hb => by
      rw [intersectsM, vsPiece_any b (.rect mn mx) hb (pieceFactsA_rect mn mx ha)]
      exact common_comm
  | .triangle t0 t1 t2, b, ha, hb => by
      rw [intersectsM, vsPiece_any b (.triangle t0 t1 t2) hb (pieceFactsA_triangle t0 t1 t2 ha)]
      exact common_comm
  | .multiPolygon ps, b, ha, hb => by
      rw [intersectsM]
      constructor
      · intro h
        split at h
        · cases h
        · rw [List.any_eq_true] at h
          obtain ⟨q, hq, h⟩ := h
          obtain ⟨p, h1, h2⟩ := (vsPiece_any b (.polygon q) hb
            (pieceFactsA_polygon q (mpg_member_dom ha q hq))).mp h
          exact ⟨p, (located_multiPolygon ps p).mpr ⟨q, hq, h2⟩, h1⟩
      · rintro ⟨p, h1, h2⟩
        rw [disjointBB_false_of_common_facts (dom_facts _ ha) (dom_facts _ hb) h1 h2]
        simp only [Bool.false_eq_true, if_false]
        obtain ⟨q, hq, h⟩ := (located_multiPolygon ps p).mp h1
        rw [List.any_eq_true]
        exact ⟨q, hq, (vsPiece_any b (.polygon q) hb
          (pieceFactsA_polygon q (mpg_member_dom ha q hq))).mpr ⟨p, h2, h⟩⟩
  | .collection gs, b, ha, hb => by
      obtain ⟨hok, hl⟩ := inDomain_collection ha
      have hm := intersectsM_common_all_list gs b hl hb
      rw [Geo.Proofs.Loc.intersectsM_collection]
      constructor
      · intro h
        rw [Bool.and_eq_true, List.any_eq_true] at h
        obtain ⟨_, g, hg, h⟩ := h
        obtain ⟨p, h1, h2⟩ := (hm g hg).mp h
        exact ⟨p, (located_collection ha p).mpr ⟨g, hg, h1⟩, h2⟩
      · rintro ⟨p, h1, h2⟩
        rw [disjointBB_false_of_common_facts (dom_facts _ ha) (dom_facts _ hb) h1 h2]
        simp only [Bool.not_false, Bool.true_and, List.any_eq_true]
        obtain ⟨g, hg, h⟩ := (located_collection ha p).mp h1
        exact ⟨g, hg, (hm g hg).mpr ⟨p, h, h2⟩⟩
theorem intersectsM_common_all_list : ∀ (gs : List Geom) (b : Geom), inDomainList gs = true →
    inDomain b = true → ∀ g ∈ gs, (intersectsM g b = true ↔ Common g b)
  | [], _, _, _ => fun g hg => by cases hg
  | a :: t, b, h, hb => by
      simp only [inDomainList, Bool.and_eq_true] at h
      intro g hg
      rcases List.mem_cons.mp hg with e | hg
      · rw [e]; exact intersectsM_common_all a b h.1 hb
      · exact intersectsM_common_all_list t b h.2 hb g hg
end

/-! ### the specification -/

/-- **every pair of the validity domain: `intersects` is the mask "not `FF*FF****`" on the DE-9IM
specification** -/
theorem intersectsM_all_eq_spec (a b : Geom) (ha : inDomain a = true) (hb : inDomain b = true) :
    intersectsM a b = Gen.isIntersects (relateSpec a b) := by
  rw [Bool.eq_iff_iff, intersectsM_common_all a b ha hb]
  exact (isIntersects_iff_common_point_closed (dom_facts a ha).closed (dom_facts b hb).closed).symm

/-- … and `intersects` is symmetric on the domain -/
theorem intersectsM_all_symm (a b : Geom) (ha : inDomain a = true) (hb : inDomain b = true) :
    intersectsM a b = intersectsM b a := by
  rw [Bool.eq_iff_iff, intersectsM_common_all a b ha hb, intersectsM_common_all b a hb ha]
  exact common_comm

end Geo.Proofs.C02Y
