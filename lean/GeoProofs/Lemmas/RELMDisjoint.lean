/-
  RELM — the disjoint-envelope shortcut of the implementation is sound: for operands whose
  bounding rectangles (as `bounding_rect` computes them) do not intersect, the model of the
  implementation returns the matrix of the specification.

  Chain: `envelopesMeet a b = false` with both rectangles present  ⇒  the rectangles are separated
  along an axis (`rectRect`)  ⇒  every written coordinate lies in its operand's rectangle
  (`bbox_bounds_coords`, C19; polygons without hole coordinates outside the shell's box — here:
  `noInteriors`, or the hypothesis `CoordsInBox`)  ⇒  `Spec.Sep`  ⇒  `relateSpec_disjoint_of_dimsSpec`.
-/
import GeoProofs.Lemmas.RELMMono
import GeoProofs.Lemmas.C01QTypes
import GeoProofs.Props.C19

namespace Geo.Proofs.RELM
open Geo Geo.RI Geo.Proofs.Spec

/-- every coordinate written in `g` lies in the rectangle `bounding_rect` reports -/
def CoordsInBox (g : Geom) : Prop :=
  ∀ mn mx, boundingRect g = some (mn, mx) →
    ∀ c ∈ allCoords (parts g), mn.x ≤ c.x ∧ c.x ≤ mx.x ∧ mn.y ≤ c.y ∧ c.y ≤ mx.y

theorem mem_allCoords_append {pa pb : Parts} {c : Pt} :
    c ∈ allCoords (pa.append pb) ↔ c ∈ allCoords pa ∨ c ∈ allCoords pb := by
  simp only [allCoords, Parts.append, List.mem_append, List.flatten_append, List.flatMap_append]
  tauto

mutual
/-- the coordinates of the parts are coordinates of the traversal -/
theorem mem_coordsIter_of_parts : ∀ (g : Geom) (c : Pt), c ∈ allCoords (parts g) → c ∈ coordsIter g
  | .point p, c, h => by simpa [allCoords, parts, coordsIter] using h
  | .line a b, c, h => by simpa [allCoords, parts, coordsIter] using h
  | .lineString cs, c, h => by simpa [allCoords, parts, coordsIter] using h
  | .polygon p, c, h => by
      simp only [allCoords, parts, coordsIter, Poly.coords, Poly.rings, List.flatMap_cons, List.flatMap_nil,
        List.append_nil, List.flatten_cons, List.flatten_nil, List.nil_append, List.mem_append] at h ⊢
      exact h
  | .multiPoint ps, c, h => by simpa [allCoords, parts, coordsIter] using h
  | .multiLineString ls, c, h => by simpa [allCoords, parts, coordsIter] using h
  | .multiPolygon ps, c, h => by
      simp only [allCoords, parts, coordsIter, List.flatten_nil, List.nil_append, List.append_nil,
        List.mem_flatten, List.mem_flatMap, List.mem_map] at h ⊢
      obtain ⟨r, ⟨q, hq, hr⟩, hc⟩ := h
      refine ⟨q.coords, ⟨q, hq, rfl⟩, ?_⟩
      simp only [Poly.rings, List.mem_cons] at hr
      simp only [Poly.coords, List.mem_append, List.mem_flatten]
      rcases hr with rfl | hr
      · exact Or.inl hc
      · exact Or.inr ⟨r, hr, hc⟩
  | .rect mn mx, c, h => by
      simp only [allCoords, parts, coordsIter, rectCoords, SM.rectToPolygon, Poly.rings, List.flatMap_cons,
        List.flatMap_nil, List.append_nil, List.flatten_cons, List.flatten_nil, List.nil_append,
        List.mem_cons, List.not_mem_nil, or_false] at h ⊢
      rcases h with h | h | h | h | h <;> simp [h]
  | .triangle a b d, c, h => by
      simp only [allCoords, parts, coordsIter, Poly.rings, List.flatMap_cons, List.flatMap_nil,
        List.append_nil, List.flatten_cons, List.flatten_nil, List.nil_append,
        List.mem_cons, List.not_mem_nil, or_false] at h ⊢
      rcases h with h | h | h | h <;> simp [h]
  | .collection gs, c, h => by
      simp only [parts, coordsIter] at h ⊢
      exact mem_coordsIterList_of_parts gs c h
theorem mem_coordsIterList_of_parts : ∀ (gs : List Geom) (c : Pt), c ∈ allCoords (partsList gs) → c ∈ coordsIterList gs
  | [], c, h => by simp [allCoords, partsList] at h
  | g :: gs, c, h => by
      simp only [partsList, coordsIterList, List.mem_append] at h ⊢
      rcases mem_allCoords_append.1 h with h | h
      · exact Or.inl (mem_coordsIter_of_parts g c h)
      · exact Or.inr (mem_coordsIterList_of_parts gs c h)
end

/-- geometries whose polygons have no hole coordinates (in particular: without polygons) and whose
`Rect`s satisfy `min ≤ max` keep all their coordinates in the reported rectangle (C19). -/
theorem coordsInBox_of_noInteriors (g : Geom) (hv : Geo.Proofs.C19.rectsValid g = true)
    (hn : Geo.Proofs.C19.noInteriors g = true) : CoordsInBox g := by
  intro mn mx h c hc
  exact (Geo.Proofs.C19.bbox_bounds_coords g hv hn mn mx h).1 c (mem_coordsIter_of_parts g c hc)

theorem rectRect_false {amn amx bmn bmx : Pt} (h : rectRect amn amx bmn bmx = false) :
    amx.x < bmn.x ∨ amx.y < bmn.y ∨ bmx.x < amn.x ∨ bmx.y < amn.y := by
  unfold rectRect at h
  split at h
  · left; assumption
  · split at h
    · right; left; assumption
    · split at h
      · right; right; left; assumption
      · split at h
        · right; right; right; assumption
        · cases h

/-- disjoint reported rectangles separate the written coordinates along an axis -/
theorem sep_of_envelopes {a b : Geom} {ra rb : Pt × Pt} (ha : boundingRect a = some ra) (hb : boundingRect b = some rb)
    (h : envelopesMeet a b = false) (ca : CoordsInBox a) (cb : CoordsInBox b) :
    Sep (parts a) (parts b) := by
  unfold envelopesMeet at h
  rw [ha, hb] at h
  simp only at h
  obtain ⟨amn, amx⟩ := ra
  obtain ⟨bmn, bmx⟩ := rb
  have ca' := ca amn amx ha
  have cb' := cb bmn bmx hb
  rcases rectRect_false h with h | h | h | h
  · exact Or.inl fun p hp q hq => lt_of_le_of_lt (ca' p hp).2.1 (lt_of_lt_of_le h (cb' q hq).1)
  · exact Or.inr (Or.inr (Or.inl fun p hp q hq =>
      lt_of_le_of_lt (ca' p hp).2.2.2 (lt_of_lt_of_le h (cb' q hq).2.2.1)))
  · exact Or.inr (Or.inl fun p hp q hq => lt_of_le_of_lt (cb' q hq).2.1 (lt_of_lt_of_le h (ca' p hp).1))
  · exact Or.inr (Or.inr (Or.inr fun p hp q hq =>
      lt_of_le_of_lt (cb' q hq).2.2.2 (lt_of_lt_of_le h (ca' p hp).2.2.1)))

/-- **The disjoint-envelope shortcut is sound**: for operands with rectangles that do not
intersect, the model of the implementation (in any arithmetic — the shortcut does not compute)
returns the specification's matrix. Hypotheses: the operands have coordinates (`bounding_rect` is
`Some`), all of them inside the reported rectangle, exterior rings closed, and `HasDimensions`
agrees with the specification (`Spec.DimsSpec`, proved per type in Props/C01). -/
theorem relateImplWith_disjoint_eq_spec (ar : Arith) {a b : Geom} {ra rb : Pt × Pt}
    (ha : boundingRect a = some ra) (hb : boundingRect b = some rb)
    (h : envelopesMeet a b = false) (ia : CoordsInBox a) (ib : CoordsInBox b)
    (ca : ClosedExt (parts a)) (cb : ClosedExt (parts b)) (da : DimsSpec a) (db : DimsSpec b) :
    relateImplWith ar a b = some (relateSpec a b) := by
  rw [relateImplWith_of_disjoint ar a b h,
    relateSpec_disjoint_of_dimsSpec (sep_of_envelopes ha hb h ia ib) ca cb da db]

/-- the same for every pair of operands without hole coordinates, empty ones included (an operand
without coordinates has no bounding rectangle and is separated from everything) -/
theorem sep_of_envelopes_noInteriors {a b : Geom} (h : envelopesMeet a b = false)
    (hva : Geo.Proofs.C19.rectsValid a = true) (hna : Geo.Proofs.C19.noInteriors a = true)
    (hvb : Geo.Proofs.C19.rectsValid b = true) (hnb : Geo.Proofs.C19.noInteriors b = true) :
    Sep (parts a) (parts b) := by
  cases ha : boundingRect a with
  | none =>
    have : coordsIter a = [] := (Geo.Proofs.C19.bbox_none_iff_coords a hna).1 ha
    left
    intro p hp
    have := mem_coordsIter_of_parts a p hp
    simp_all
  | some ra =>
    cases hb : boundingRect b with
    | none =>
      have : coordsIter b = [] := (Geo.Proofs.C19.bbox_none_iff_coords b hnb).1 hb
      left
      intro p _ q hq
      have := mem_coordsIter_of_parts b q hq
      simp_all
    | some rb =>
      exact sep_of_envelopes ha hb h (coordsInBox_of_noInteriors a hva hna) (coordsInBox_of_noInteriors b hvb hnb)

/-- **the disjoint-envelope shortcut is sound** for operands without hole coordinates (all types
but polygons with holes), empty operands included -/
theorem relateImplWith_disjoint_eq_spec_noInteriors (ar : Arith) {a b : Geom} (h : envelopesMeet a b = false)
    (hva : Geo.Proofs.C19.rectsValid a = true) (hna : Geo.Proofs.C19.noInteriors a = true)
    (hvb : Geo.Proofs.C19.rectsValid b = true) (hnb : Geo.Proofs.C19.noInteriors b = true)
    (ca : ClosedExt (parts a)) (cb : ClosedExt (parts b)) (da : DimsSpec a) (db : DimsSpec b) :
    relateImplWith ar a b = some (relateSpec a b) := by
  rw [relateImplWith_of_disjoint ar a b h,
    relateSpec_disjoint_of_dimsSpec (sep_of_envelopes_noInteriors h hva hna hvb hnb) ca cb da db]

end Geo.Proofs.RELM
