/-
  C06P helper layer 5: hull membership. "In the hull" is an explicit convex combination:
  non-negative weights summing to 1 on points of the coordinate list.
-/
import GeoProofs.Lemmas.C06PSpec
import Mathlib.Tactic.FieldSimp

namespace Geo.Proofs.C06
open Geo Geo.Cen

/-- `c` is a convex combination of points of `S`: explicit non-negative weights summing to 1 -/
def InHull (S : List Pt) (c : Pt) : Prop :=
  ∃ ws : List (Rat × Pt), (∀ e ∈ ws, 0 ≤ e.1 ∧ e.2 ∈ S) ∧ sumR (ws.map (·.1)) = 1 ∧
    c = sumP (ws.map (fun e => Pt.smul e.1 e.2))

theorem sumR_append (a b : List Rat) : sumR (a ++ b) = sumR a + sumR b := by
  induction a with
  | nil => simp [sumR]
  | cons x t ih => simp only [List.cons_append, sumR, ih]; ring

theorem sumP_append (a b : List Pt) : sumP (a ++ b) = sumP a + sumP b := by
  induction a with
  | nil => simp [sumP]
  | cons x t ih => simp only [List.cons_append, sumP, ih, padd_assoc]

theorem inHull_mem {S : List Pt} {p : Pt} (h : p ∈ S) : InHull S p := by
  refine ⟨[(1, p)], ?_, ?_, ?_⟩
  · intro e he; simp at he; subst he; exact ⟨by norm_num, h⟩
  · simp [sumR]
  · apply Pt.ext' <;> simp [sumP]

theorem inHull_mono {S S' : List Pt} {c : Pt} (hs : ∀ p ∈ S, p ∈ S') (h : InHull S c) : InHull S' c := by
  obtain ⟨ws, h1, h2, h3⟩ := h
  exact ⟨ws, fun e he => ⟨(h1 e he).1, hs _ (h1 e he).2⟩, h2, h3⟩

theorem inHull_convex {S : List Pt} {a b : Pt} (ha : InHull S a) (hb : InHull S b) {s t : Rat}
    (hs : 0 ≤ s) (ht : 0 ≤ t) (hst : s + t = 1) : InHull S (Pt.smul s a + Pt.smul t b) := by
  obtain ⟨wa, a1, a2, a3⟩ := ha
  obtain ⟨wb, b1, b2, b3⟩ := hb
  refine ⟨wa.map (fun e => (s * e.1, e.2)) ++ wb.map (fun e => (t * e.1, e.2)), ?_, ?_, ?_⟩
  · intro e he
    rcases List.mem_append.1 he with h | h
    · rcases List.mem_map.1 h with ⟨x, hx, rfl⟩
      exact ⟨mul_nonneg hs (a1 x hx).1, (a1 x hx).2⟩
    · rcases List.mem_map.1 h with ⟨x, hx, rfl⟩
      exact ⟨mul_nonneg ht (b1 x hx).1, (b1 x hx).2⟩
  · rw [List.map_append, sumR_append, List.map_map, List.map_map]
    have e1 : sumR (wa.map ((fun e : Rat × Pt => e.1) ∘ fun e => (s * e.1, e.2))) = s * sumR (wa.map (·.1)) :=
      sumR_map_mul_left s (fun e : Rat × Pt => e.1) wa
    have e2 : sumR (wb.map ((fun e : Rat × Pt => e.1) ∘ fun e => (t * e.1, e.2))) = t * sumR (wb.map (·.1)) :=
      sumR_map_mul_left t (fun e : Rat × Pt => e.1) wb
    rw [e1, e2, a2, b2]; linarith
  · rw [List.map_append, sumP_append, List.map_map, List.map_map, a3, b3]
    have e1 : ∀ (k : Rat) (w : List (Rat × Pt)),
        sumP (w.map ((fun e : Rat × Pt => Pt.smul e.1 e.2) ∘ fun e => (k * e.1, e.2))) =
          Pt.smul k (sumP (w.map (fun e => Pt.smul e.1 e.2))) := by
      intro k w
      induction w with
      | nil => apply Pt.ext' <;> simp [sumP]
      | cons x t ih =>
        simp only [List.map_cons, sumP, ih, Function.comp]
        apply Pt.ext' <;> simp <;> ring
    rw [e1, e1]

/-! ### a weighted mean with non-negative weights of points in the hull is in the hull -/

private theorem mean_aux (S : List Pt) (as : List Atom) (hw : ∀ a ∈ as, 0 ≤ a.w)
    (hc : ∀ a ∈ as, InHull S a.c) :
    (sumR (as.map (·.w)) = 0 ∧ sumP (as.map (fun a => Pt.smul a.w a.c)) = zeroPt) ∨
      (0 < sumR (as.map (·.w)) ∧
        InHull S (Pt.divS (sumP (as.map (fun a => Pt.smul a.w a.c))) (sumR (as.map (·.w))))) := by
  induction as with
  | nil => left; exact ⟨rfl, rfl⟩
  | cons a t ih =>
    have hwa := hw a (by simp)
    have hca := hc a (by simp)
    have iht := ih (fun x hx => hw x (by simp [hx])) (fun x hx => hc x (by simp [hx]))
    simp only [List.map_cons, sumR, sumP]
    rcases iht with ⟨hW, hA⟩ | ⟨hW, hH⟩
    · rw [hW, hA]
      by_cases h0 : a.w = 0
      · left
        constructor
        · rw [h0]; ring
        · rw [h0]; apply Pt.ext' <;> simp
      · right
        have hpos : 0 < a.w := lt_of_le_of_ne hwa (Ne.symm h0)
        constructor
        · linarith
        · have : Pt.divS (Pt.smul a.w a.c + zeroPt) (a.w + 0) = a.c := by
            apply Pt.ext' <;> simp <;> field_simp
          rw [this]; exact hca
    · right
      have hWpos : 0 < a.w + sumR (t.map (·.w)) := by linarith
      refine ⟨hWpos, ?_⟩
      have hne : a.w + sumR (t.map (·.w)) ≠ 0 := ne_of_gt hWpos
      have hne' : sumR (t.map (·.w)) ≠ 0 := ne_of_gt hW
      have key : Pt.divS (Pt.smul a.w a.c + sumP (t.map (fun a => Pt.smul a.w a.c))) (a.w + sumR (t.map (·.w))) =
          Pt.smul (a.w / (a.w + sumR (t.map (·.w)))) a.c +
            Pt.smul (sumR (t.map (·.w)) / (a.w + sumR (t.map (·.w))))
              (Pt.divS (sumP (t.map (fun a => Pt.smul a.w a.c))) (sumR (t.map (·.w)))) := by
        apply Pt.ext' <;> simp <;> field_simp
      rw [key]
      apply inHull_convex hca hH
      · exact div_nonneg hwa (le_of_lt hWpos)
      · exact div_nonneg (le_of_lt hW) (le_of_lt hWpos)
      · field_simp

/-- [T] a weighted mean with non-negative weights (positive total) of points in the hull is in the
hull -/
theorem mean_in_hull (S : List Pt) (as : List Atom) (hw : ∀ a ∈ as, 0 ≤ a.w)
    (hc : ∀ a ∈ as, InHull S a.c) (hpos : 0 < sumR (as.map (·.w))) : InHull S (weightedMean as) := by
  rcases mean_aux S as hw hc with ⟨h0, _⟩ | ⟨_, h⟩
  · rw [h0] at hpos; exact absurd hpos (lt_irrefl _)
  · exact h

/-! ### atoms of dimension 0 and 1 sit in the hull of the coordinates, with positive weight -/

/-- what is shown of every atom below dimension 2 -/
def LowOK (S : List Pt) (a : Atom) : Prop := 0 < a.w ∧ InHull S a.c

theorem mid_in_hull {S : List Pt} {a b : Pt} (ha : a ∈ S) (hb : b ∈ S) : InHull S (mid a b) := by
  have : mid a b = Pt.smul (1 / 2) a + Pt.smul (1 / 2) b := by
    apply Pt.ext' <;> simp [mid] <;> ring
  rw [this]
  exact inHull_convex (inHull_mem ha) (inHull_mem hb) (by norm_num) (by norm_num) (by norm_num)

theorem segAtom_ok (len : Pt → Pt → Rat) (hpos : ∀ a b, a ≠ b → 0 < len a b) {S : List Pt} {a b : Pt}
    (ha : a ∈ S) (hb : b ∈ S) : LowOK S (segAtom len a b) := by
  unfold segAtom
  by_cases h : a = b
  · rw [if_pos h]; exact ⟨by norm_num, inHull_mem ha⟩
  · rw [if_neg h]; exact ⟨hpos a b h, mid_in_hull ha hb⟩

theorem windows2_mem (cs : List Pt) : ∀ l ∈ windows2 cs, l.1 ∈ cs ∧ l.2 ∈ cs := by
  match cs with
  | [] => intro l hl; simp [windows2] at hl
  | [a] => intro l hl; simp [windows2] at hl
  | a :: b :: t =>
    intro l hl
    simp only [windows2, List.mem_cons] at hl
    rcases hl with rfl | hl
    · simp
    · have := windows2_mem (b :: t) l hl
      exact ⟨List.mem_cons_of_mem _ this.1, List.mem_cons_of_mem _ this.2⟩

theorem lineStringAtoms_ok (len : Pt → Pt → Rat) (hpos : ∀ a b, a ≠ b → 0 < len a b) (cs : List Pt) :
    ∀ a ∈ lineStringAtoms len cs, LowOK cs a := by
  intro a ha
  match cs with
  | [] => simp [lineStringAtoms, windows2] at ha
  | [c] =>
    simp [lineStringAtoms] at ha; subst ha
    exact ⟨by norm_num, inHull_mem (by simp)⟩
  | x :: y :: t =>
    have : lineStringAtoms len (x :: y :: t) = (windows2 (x :: y :: t)).map (fun l => segAtom len l.1 l.2) := by
      simp [lineStringAtoms]
    rw [this] at ha
    rcases List.mem_map.1 ha with ⟨l, hl, rfl⟩
    have := windows2_mem _ l hl
    exact segAtom_ok len hpos this.1 this.2

theorem lowOK_mono {S S' : List Pt} {a : Atom} (hs : ∀ p ∈ S, p ∈ S') (h : LowOK S a) : LowOK S' a :=
  ⟨h.1, inHull_mono hs h.2⟩

theorem ringAtoms_ok (len : Pt → Pt → Rat) (hpos : ∀ a b, a ≠ b → 0 < len a b) (r : List Pt) :
    ∀ a ∈ ringAtoms len r, a.dim ≤ 2 → LowOK r a := by
  intro a ha hd
  unfold ringAtoms at ha
  by_cases h : twiceAreaText r = 0
  · rw [if_pos h] at ha
    cases r with
    | nil => simp at ha
    | cons f t =>
      simp only at ha
      split at ha
      · simp at ha; subst ha; exact ⟨by norm_num, inHull_mem (by simp)⟩
      · exact lineStringAtoms_ok len hpos _ a ha
  · rw [if_neg h] at ha
    simp at ha; subst ha
    simp at hd

theorem polyAtoms_ok (len : Pt → Pt → Rat) (hpos : ∀ a b, a ≠ b → 0 < len a b) (p : Poly) :
    ∀ a ∈ polyAtoms len p, a.dim ≤ 2 → LowOK p.coords a := by
  intro a ha hd
  have hsub : ∀ q ∈ p.ext, q ∈ p.coords := fun q hq => by simp [Poly.coords, hq]
  unfold polyAtoms at ha
  by_cases he : p.ext.isEmpty = true
  · rw [if_pos he] at ha; simp at ha
  · rw [if_neg he] at ha
    simp only at ha
    split at ha
    · exact lowOK_mono hsub (ringAtoms_ok len hpos p.ext a ha hd)
    · split at ha
      · rcases List.mem_map.1 ha with ⟨x, _, rfl⟩
        simp at hd
      · split at ha
        · exact lowOK_mono hsub (lineStringAtoms_ok len hpos p.ext a ha)
        · rcases List.mem_cons.1 ha with rfl | ha
          · simp at hd
          · rcases List.mem_map.1 ha with ⟨x, _, rfl⟩
            simp at hd

theorem rectAtoms_ok (len : Pt → Pt → Rat) (hpos : ∀ a b, a ≠ b → 0 < len a b) (mn mx : Pt) :
    ∀ a ∈ rectAtoms len mn mx, a.dim ≤ 2 → LowOK (rectCoords mn mx) a := by
  intro a ha hd
  have hmn : mn ∈ rectCoords mn mx := by
    have : mn = ⟨mn.x, mn.y⟩ := rfl
    simp only [rectCoords]; rw [this]; simp
  have hmx : mx ∈ rectCoords mn mx := by
    have : mx = ⟨mx.x, mx.y⟩ := rfl
    simp only [rectCoords]; rw [this]; simp
  unfold rectAtoms at ha
  split at ha
  · simp at ha; subst ha; exact ⟨by norm_num, inHull_mem hmn⟩
  · split at ha
    · simp only [List.mem_cons, List.not_mem_nil, or_false] at ha
      rcases ha with rfl | rfl
      · exact segAtom_ok len hpos hmn hmx
      · exact segAtom_ok len hpos hmx hmn
    · simp at ha; subst ha; simp at hd

theorem triAtoms_ok (len : Pt → Pt → Rat) (hpos : ∀ a b, a ≠ b → 0 < len a b) (a b c : Pt) :
    ∀ x ∈ triAtoms len a b c, x.dim ≤ 2 → LowOK [a, b, c] x := by
  intro x hx hd
  unfold triAtoms at hx
  split at hx
  · split at hx
    · simp at hx; subst hx; exact ⟨by norm_num, inHull_mem (by simp)⟩
    · simp only [List.mem_cons, List.not_mem_nil, or_false] at hx
      rcases hx with rfl | rfl | rfl
      · exact segAtom_ok len hpos (by simp) (by simp)
      · exact segAtom_ok len hpos (by simp) (by simp)
      · exact segAtom_ok len hpos (by simp) (by simp)
  · simp at hx; subst hx; simp at hd

mutual
theorem atoms_ok (len : Pt → Pt → Rat) (hpos : ∀ a b, a ≠ b → 0 < len a b) :
    ∀ (g : Geom), ∀ a ∈ atoms len g, a.dim ≤ 2 → LowOK (coordsIter g) a
  | .point p => by
      intro a ha _
      simp [atoms] at ha; subst ha
      exact ⟨by norm_num, inHull_mem (by simp [coordsIter])⟩
  | .line p q => by
      intro a ha _
      simp [atoms] at ha; subst ha
      exact segAtom_ok len hpos (by simp [coordsIter]) (by simp [coordsIter])
  | .lineString cs => by
      intro a ha _
      simp only [atoms] at ha
      exact lineStringAtoms_ok len hpos cs a ha
  | .polygon p => by
      intro a ha hd
      simp only [atoms] at ha
      exact polyAtoms_ok len hpos p a ha hd
  | .multiPoint ps => by
      intro a ha _
      simp only [atoms] at ha
      rcases List.mem_map.1 ha with ⟨p, hp, rfl⟩
      exact ⟨by norm_num, inHull_mem (by simpa [coordsIter] using hp)⟩
  | .multiLineString ls => by
      intro a ha _
      simp only [atoms, List.mem_flatten, List.mem_map] at ha
      obtain ⟨_, ⟨l, hl, rfl⟩, hal⟩ := ha
      refine lowOK_mono ?_ (lineStringAtoms_ok len hpos l a hal)
      intro q hq
      simp only [coordsIter, List.mem_flatten]
      exact ⟨l, hl, hq⟩
  | .multiPolygon ps => by
      intro a ha hd
      simp only [atoms, List.mem_flatten, List.mem_map] at ha
      obtain ⟨_, ⟨p, hp, rfl⟩, hap⟩ := ha
      refine lowOK_mono ?_ (polyAtoms_ok len hpos p a hap hd)
      intro q hq
      simp only [coordsIter, List.mem_flatten, List.mem_map]
      exact ⟨p.coords, ⟨p, hp, rfl⟩, hq⟩
  | .rect mn mx => by
      intro a ha hd
      simp only [atoms] at ha
      exact rectAtoms_ok len hpos mn mx a ha hd
  | .triangle p q r => by
      intro a ha hd
      simp only [atoms] at ha
      exact triAtoms_ok len hpos p q r a ha hd
  | .collection gs => by
      intro a ha hd
      simp only [atoms] at ha
      simp only [coordsIter]
      exact atomsList_ok len hpos gs a ha hd
theorem atomsList_ok (len : Pt → Pt → Rat) (hpos : ∀ a b, a ≠ b → 0 < len a b) :
    ∀ (gs : List Geom), ∀ a ∈ atomsList len gs, a.dim ≤ 2 → LowOK (coordsIterList gs) a
  | [] => by intro a ha; simp [atomsList] at ha
  | g :: gs => by
      intro a ha hd
      simp only [atomsList, List.mem_append] at ha
      simp only [coordsIterList]
      rcases ha with h | h
      · exact lowOK_mono (fun q hq => List.mem_append_left _ hq) (atoms_ok len hpos g a h hd)
      · exact lowOK_mono (fun q hq => List.mem_append_right _ hq) (atomsList_ok len hpos gs a h hd)
end

theorem exists_mem_maxDim (as : List Atom) (h : as ≠ []) : ∃ a ∈ as, a.dim = maxDim as := by
  induction as with
  | nil => exact absurd rfl h
  | cons a t ih =>
    by_cases ht : t = []
    · subst ht; exact ⟨a, by simp, by simp [maxDim]⟩
    · obtain ⟨b, hb, hbd⟩ := ih ht
      by_cases hle : maxDim t ≤ a.dim
      · exact ⟨a, by simp, by simp only [maxDim]; omega⟩
      · exact ⟨b, by simp [hb], by simp only [maxDim]; omega⟩

/-- [T] hull membership of the specification's centroid when the result has dimension 0 or 1 -/
theorem spec_in_hull_low (len : Pt → Pt → Rat) (hpos : ∀ a b, a ≠ b → 0 < len a b) (g : Geom)
    (hd : maxDim (atoms len g) ≤ 2) (c : Pt) (h : centroidSpec len g = some c) :
    InHull (coordsIter g) c := by
  unfold centroidSpec at h
  simp only at h
  by_cases he : (atoms len g).isEmpty = true
  · rw [if_pos he] at h; cases h
  · rw [if_neg he] at h
    have hc : c = weightedMean (topAtoms (atoms len g)) := (Option.some.inj h).symm
    rw [hc]
    have hne : atoms len g ≠ [] := by
      intro h0; rw [h0] at he; simp at he
    have hall : ∀ a ∈ topAtoms (atoms len g), LowOK (coordsIter g) a := by
      intro a ha
      have hm := List.mem_filter.1 ha
      have hdim : a.dim = maxDim (atoms len g) := by simpa using hm.2
      exact atoms_ok len hpos g a hm.1 (by omega)
    have htop : topAtoms (atoms len g) ≠ [] := by
      obtain ⟨a, ha, had⟩ := exists_mem_maxDim _ hne
      intro h0
      have : a ∈ topAtoms (atoms len g) := List.mem_filter.2 ⟨ha, by simpa using had⟩
      rw [h0] at this; simp at this
    apply mean_in_hull
    · intro a ha; exact le_of_lt (hall a ha).1
    · intro a ha; exact (hall a ha).2
    · exact sumR_pos_of_pos _ _ htop (fun a ha => (hall a ha).1)

/-- the dimension of the accumulator is the maximal dimension of the atoms -/
theorem acc_dims_eq_maxDim (len : Pt → Pt → Rat) (g : Geom) :
    (addGeom len none g).dims = maxDim (atoms len g) := by
  rw [addGeom_eq, contribs_equiv_atoms len g none, foldWC_none, ← mDim_atoms]
  cases (atoms len g).map Atom.toWC with
  | nil => rfl
  | cons c t => rfl

/-! ### a convex ring: fan triangulation from the first vertex -/

/-- convex position, counter-clockwise: every vertex lies on or to the left of every edge -/
def ConvexCCW (r : List Pt) : Prop := ∀ l ∈ windows2 r, ∀ p ∈ r, 0 ≤ crossProd l.1 l.2 p

/-- convex position, clockwise: every vertex lies on or to the right of every edge -/
def ConvexCW (r : List Pt) : Prop := ∀ l ∈ windows2 r, ∀ p ∈ r, crossProd l.1 l.2 p ≤ 0

/-- the fan from `s`: one triangle `(s, a, b)` per edge, weighted by its doubled signed area (times
`σ = ±1`), at its centroid -/
def fanAtoms (σ : Rat) (s : Pt) (r : List Pt) : List Atom :=
  (windows2 r).map (fun l => ⟨3, σ * det (l.1 - s) (l.2 - s), Pt.divS (s + l.1 + l.2) 3⟩)

theorem det_shift_crossProd (s a b : Pt) : det (a - s) (b - s) = crossProd a b s := by
  simp only [det, crossProd, sub_x, sub_y]; ring

theorem twiceArea_of_ne_zero (s : Pt) (t : List Pt) (h : twiceArea (s :: t) ≠ 0) :
    twiceArea (s :: t) = sumR ((windows2 (s :: t)).map (fun l => det (l.1 - s) (l.2 - s))) := by
  unfold twiceArea at h ⊢
  by_cases h3 : (s :: t).length < 3
  · rw [if_pos h3] at h; exact absurd rfl h
  · rw [if_neg h3] at h ⊢
    by_cases hc : (!isClosed (s :: t)) = true
    · rw [if_pos hc] at h; exact absurd rfl h
    · rw [if_neg hc]
      simp only
      rw [foldl_add_sumR (fun l : Pt × Pt => det (l.1 - s) (l.2 - s))]
      ring

theorem tri_centroid_in_hull {S : List Pt} {s a b : Pt} (hs : s ∈ S) (ha : a ∈ S) (hb : b ∈ S) :
    InHull S (Pt.divS (s + a + b) 3) := by
  have e : Pt.divS (s + a + b) 3 =
      Pt.smul (1 / 3) s + Pt.smul (2 / 3) (Pt.smul (1 / 2) a + Pt.smul (1 / 2) b) := by
    apply Pt.ext' <;> simp <;> ring
  rw [e]
  apply inHull_convex (inHull_mem hs) _ (by norm_num) (by norm_num) (by norm_num)
  exact inHull_convex (inHull_mem ha) (inHull_mem hb) (by norm_num) (by norm_num) (by norm_num)

/-- the code's ring centroid (moments of the ring shifted to its first vertex, divided by `6·area`,
shifted back) is the weighted mean of the fan triangles' centroids -/
theorem ring_centroid_is_fan_mean (σ : Rat) (hσ : σ ≠ 0) (s : Pt) (t : List Pt) (h : twiceArea (s :: t) ≠ 0) :
    Pt.divS (ringAccum s (s :: t)) (6 * ringArea (s :: t)) + s = weightedMean (fanAtoms σ s (s :: t)) := by
  have hT := twiceArea_of_ne_zero s t h
  have hne : sumR ((windows2 (s :: t)).map (fun l => det (l.1 - s) (l.2 - s))) ≠ 0 := by rw [← hT]; exact h
  unfold weightedMean fanAtoms ringAccum ringArea
  rw [hT, foldl_add_sumP (fun l : Pt × Pt => Pt.smul (det (l.1 - s) (l.2 - s)) ((l.2 - s) + (l.1 - s)))]
  simp only [List.map_map]
  have hw : sumR ((windows2 (s :: t)).map ((fun a : Atom => a.w) ∘
      fun l => (⟨3, σ * det (l.1 - s) (l.2 - s), Pt.divS (s + l.1 + l.2) 3⟩ : Atom))) =
        σ * sumR ((windows2 (s :: t)).map (fun l => det (l.1 - s) (l.2 - s))) :=
    sumR_map_mul_left σ (fun l : Pt × Pt => det (l.1 - s) (l.2 - s)) _
  rw [hw]
  apply Pt.ext'
  · simp only [add_x, divS_x, zeroPt_x, zero_add, sumP_x, List.map_map]
    have h1 : sumR ((windows2 (s :: t)).map ((fun p : Pt => p.x) ∘ (fun a : Atom => Pt.smul a.w a.c) ∘
        fun l => (⟨3, σ * det (l.1 - s) (l.2 - s), Pt.divS (s + l.1 + l.2) 3⟩ : Atom))) =
        σ / 3 * sumR ((windows2 (s :: t)).map ((fun p : Pt => p.x) ∘
          fun l : Pt × Pt => Pt.smul (det (l.1 - s) (l.2 - s)) ((l.2 - s) + (l.1 - s)))) +
        σ * s.x * sumR ((windows2 (s :: t)).map (fun l => det (l.1 - s) (l.2 - s))) := by
      rw [← sumR_map_mul_left, ← sumR_map_mul_left, ← sumR_map_add]
      apply sumR_congr
      intro l
      simp only [Function.comp, smul_x, divS_x, add_x, sub_x]
      ring
    rw [h1]
    field_simp
    ring
  · simp only [add_y, divS_y, zeroPt_y, zero_add, sumP_y, List.map_map]
    have h1 : sumR ((windows2 (s :: t)).map ((fun p : Pt => p.y) ∘ (fun a : Atom => Pt.smul a.w a.c) ∘
        fun l => (⟨3, σ * det (l.1 - s) (l.2 - s), Pt.divS (s + l.1 + l.2) 3⟩ : Atom))) =
        σ / 3 * sumR ((windows2 (s :: t)).map ((fun p : Pt => p.y) ∘
          fun l : Pt × Pt => Pt.smul (det (l.1 - s) (l.2 - s)) ((l.2 - s) + (l.1 - s)))) +
        σ * s.y * sumR ((windows2 (s :: t)).map (fun l => det (l.1 - s) (l.2 - s))) := by
      rw [← sumR_map_mul_left, ← sumR_map_mul_left, ← sumR_map_add]
      apply sumR_congr
      intro l
      simp only [Function.comp, smul_y, divS_y, add_y, sub_y]
      ring
    rw [h1]
    field_simp
    ring

theorem sumR_nonneg {α : Type} (f : α → Rat) (L : List α) (h : ∀ x ∈ L, 0 ≤ f x) : 0 ≤ sumR (L.map f) := by
  induction L with
  | nil => simp [sumR]
  | cons a t ih =>
    simp only [List.map_cons, sumR]
    have := h a (by simp)
    have := ih (fun x hx => h x (by simp [hx]))
    linarith

/-- [T] the centroid the code computes for a ring in convex position (either orientation) that has
area is a convex combination of the ring's vertices -/
theorem convex_ring_centroid_in_hull (s : Pt) (t : List Pt) (hconv : ConvexCCW (s :: t) ∨ ConvexCW (s :: t))
    (h : ringArea (s :: t) ≠ 0) :
    InHull (s :: t) (Pt.divS (ringAccum s (s :: t)) (6 * ringArea (s :: t)) + s) := by
  have hT : twiceArea (s :: t) ≠ 0 := by
    intro h0; apply h; unfold ringArea; rw [h0]; simp
  have hTe := twiceArea_of_ne_zero s t hT
  rcases hconv with hc | hc
  · rw [ring_centroid_is_fan_mean 1 one_ne_zero s t hT]
    have hw : ∀ l ∈ windows2 (s :: t), 0 ≤ det (l.1 - s) (l.2 - s) := by
      intro l hl; rw [det_shift_crossProd]; exact hc l hl s (by simp)
    apply mean_in_hull
    · intro a ha
      rcases List.mem_map.1 ha with ⟨l, hl, rfl⟩
      simp only [one_mul]; exact hw l hl
    · intro a ha
      rcases List.mem_map.1 ha with ⟨l, hl, rfl⟩
      have := windows2_mem _ l hl
      exact tri_centroid_in_hull (by simp) this.1 this.2
    · have hs : sumR ((fanAtoms 1 s (s :: t)).map (·.w)) =
          sumR ((windows2 (s :: t)).map (fun l => det (l.1 - s) (l.2 - s))) := by
        simp only [fanAtoms, List.map_map]
        apply sumR_congr; intro l; simp [Function.comp]
      rw [hs, ← hTe]
      have : 0 ≤ twiceArea (s :: t) := by rw [hTe]; exact sumR_nonneg _ _ hw
      exact lt_of_le_of_ne this (Ne.symm hT)
  · rw [ring_centroid_is_fan_mean (-1) (by norm_num) s t hT]
    have hw : ∀ l ∈ windows2 (s :: t), 0 ≤ -1 * det (l.1 - s) (l.2 - s) := by
      intro l hl; rw [det_shift_crossProd]
      have := hc l hl s (by simp); linarith
    apply mean_in_hull
    · intro a ha
      rcases List.mem_map.1 ha with ⟨l, hl, rfl⟩
      exact hw l hl
    · intro a ha
      rcases List.mem_map.1 ha with ⟨l, hl, rfl⟩
      have := windows2_mem _ l hl
      exact tri_centroid_in_hull (by simp) this.1 this.2
    · have hs : sumR ((fanAtoms (-1) s (s :: t)).map (·.w)) =
          -1 * sumR ((windows2 (s :: t)).map (fun l => det (l.1 - s) (l.2 - s))) := by
        simp only [fanAtoms, List.map_map]
        exact sumR_map_mul_left (-1) (fun l : Pt × Pt => det (l.1 - s) (l.2 - s)) _
      rw [hs, ← hTe]
      have h0 : 0 ≤ sumR ((windows2 (s :: t)).map (fun l => -1 * det (l.1 - s) (l.2 - s))) :=
        sumR_nonneg _ _ hw
      rw [sumR_map_mul_left, ← hTe] at h0
      exact lt_of_le_of_ne h0 (fun h' => hT (by linarith))

end Geo.Proofs.C06
