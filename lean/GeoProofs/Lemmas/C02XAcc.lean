/-
  C02X, part 9: the `CoordinatePosition` accumulator on collections.

  * every clause of `calculate_coordinate_position` is *additive* in the accumulator: it ORs its own
    `is_inside` into the flag and adds its own boundary hits to the counter (`calcPos_add`, all ten
    types, nested collections included);
  * the specification's location of the concatenation of two part lists, when the point is `Outside`
    of one of them, is the location relative to the other (`locateParts_append_outside_left/right`);
  * hence, for a member list in which at most one member is not `Outside` at `p` (pairwise disjoint
    members) and whose members' positions are the specification's, the fold over the members gives
    the specification's location of the collection (`coordPos_list`).
-/
import GeoProofs.Lemmas.LocateLemmas
import GeoProofs.Lemmas.RelateSpecLocate
import GeoProofs.Lemmas.C01QDisjoint

set_option linter.unusedSimpArgs false
set_option linter.unusedVariables false

namespace Geo.Proofs.C02X
open Geo Geo.Proofs.Kernel Geo.Proofs.Spec Geo.Proofs.Loc

/-! ### additive accumulator transformers -/

/-- `f` ORs a flag into `inside` and adds a number of hits to `bcount`, both independent of `acc` -/
def Additive (f : PosAcc → PosAcc) : Prop :=
  ∀ acc, f acc = ⟨acc.inside || (f ⟨false, 0⟩).inside, acc.bcount + (f ⟨false, 0⟩).bcount⟩

theorem add_id : Additive (fun acc => acc) := by
  intro acc; cases acc; simp

theorem add_inside : Additive (fun acc => { acc with inside := true }) := by
  intro acc; cases acc; simp

theorem add_bnd : Additive (fun acc => { acc with bcount := acc.bcount + 1 }) := by
  intro acc; cases acc; simp

theorem add_ite (c : Prop) [Decidable c] {f g : PosAcc → PosAcc} (hf : Additive f) (hg : Additive g) :
    Additive (fun acc => if c then f acc else g acc) := by
  intro acc
  by_cases h : c
  · simp only [h, if_true]; exact hf acc
  · simp only [h, if_false]; exact hg acc

theorem add_comp {f g : PosAcc → PosAcc} (hf : Additive f) (hg : Additive g) :
    Additive (fun acc => g (f acc)) := by
  intro acc
  show g (f acc) = ⟨acc.inside || (g (f ⟨false, 0⟩)).inside, acc.bcount + (g (f ⟨false, 0⟩)).bcount⟩
  rw [hg (f acc), hf acc, hg (f ⟨false, 0⟩)]
  simp only [Bool.or_assoc, Nat.add_assoc, Bool.false_or, Nat.zero_add]

theorem add_foldl {α : Type} (step : PosAcc → α → PosAcc) (l : List α)
    (h : ∀ x ∈ l, Additive (fun acc => step acc x)) : Additive (fun acc => l.foldl step acc) := by
  induction l with
  | nil => exact add_id
  | cons x t ih =>
    simp only [List.foldl_cons]
    exact add_comp (h x (by simp)) (ih (fun y hy => h y (List.mem_cons_of_mem _ hy)))

theorem add_calcPoint (q p : Pt) : Additive (calcPoint q p) := by
  unfold calcPoint
  exact add_ite _ add_inside add_id

theorem add_calcLine (a b p : Pt) : Additive (calcLine a b p) := by
  unfold calcLine
  exact add_ite _ (add_calcPoint a p) (add_ite _ add_bnd (add_ite _ add_inside add_id))

theorem add_calcLineString (cs : List Pt) (p : Pt) : Additive (calcLineString cs p) := by
  have : calcLineString cs p = fun acc =>
      if epc p cs = 1 then { acc with bcount := acc.bcount + 1 }
      else if onAnySeg p (segs cs) then { acc with inside := true } else acc := by
    funext acc; exact calcLineString_eq cs p acc
  rw [this]
  exact add_ite _ add_bnd (add_ite _ add_inside add_id)

theorem add_calcTriangle (a b c p : Pt) : Additive (calcTriangle a b c p) := by
  have : calcTriangle a b c p = fun acc =>
      if (lineCoord a b p || lineCoord b c p || lineCoord c a p) = true then
        { acc with bcount := acc.bcount + 1 }
      else if triContainsCoord a b c p = true then { acc with inside := true } else acc := by
    funext acc; exact calcTriangle_eq a b c p acc
  rw [this]
  exact add_ite _ add_bnd (add_ite _ add_inside add_id)

theorem add_calcRect (mn mx p : Pt) : Additive (calcRect mn mx p) := by
  unfold calcRect
  exact add_ite _ add_id (add_ite _ add_id (add_ite _ add_id (add_ite _ add_id
    (add_ite _ add_bnd add_inside))))

theorem add_calcPolygon (poly : Poly) (p : Pt) : Additive (calcPolygon poly p) := by
  intro acc
  rw [calcPolygon_acc poly p acc, calcPolygon_acc poly p ⟨false, 0⟩]
  cases coordPos (.polygon poly) p <;> cases acc <;> simp

theorem add_calcMultiPolygon (ps : List Poly) (p : Pt) : Additive (calcMultiPolygon ps p) := by
  intro acc
  unfold calcMultiPolygon
  simp only [mpoly_fold, Bool.false_or, Nat.zero_add]
  cases acc with
  | mk i b =>
    by_cases h : 0 < (ps.filter (fun m => coordPos (.polygon m) p == .onBoundary)).length
    · simp [h]
    · simp [h]

mutual
/-- **every clause of `calculate_coordinate_position` is additive in the accumulator** -/
theorem calcPos_add : ∀ (g : Geom) (p : Pt), Additive (calcPos g p)
  | .point q, p => by
      have : calcPos (.point q) p = calcPoint q p := by funext acc; simp only [calcPos]
      rw [this]; exact add_calcPoint q p
  | .line a b, p => by
      have : calcPos (.line a b) p = calcLine a b p := by funext acc; simp only [calcPos]
      rw [this]; exact add_calcLine a b p
  | .lineString cs, p => by
      have : calcPos (.lineString cs) p = calcLineString cs p := by funext acc; simp only [calcPos]
      rw [this]; exact add_calcLineString cs p
  | .polygon poly, p => by
      have : calcPos (.polygon poly) p = calcPolygon poly p := by funext acc; simp only [calcPos]
      rw [this]; exact add_calcPolygon poly p
  | .multiPoint qs, p => by
      have : calcPos (.multiPoint qs) p =
          fun acc => if qs.any (· == p) then { acc with inside := true } else acc := by
        funext acc; simp only [calcPos]
      rw [this]; exact add_ite _ add_inside add_id
  | .multiLineString ls, p => by
      have : calcPos (.multiLineString ls) p =
          fun acc => ls.foldl (fun a cs => calcLineString cs p a) acc := by
        funext acc; simp only [calcPos]
      rw [this]
      exact add_foldl _ ls (fun cs _ => add_calcLineString cs p)
  | .multiPolygon ps, p => by
      have : calcPos (.multiPolygon ps) p = calcMultiPolygon ps p := by funext acc; simp only [calcPos]
      rw [this]; exact add_calcMultiPolygon ps p
  | .rect mn mx, p => by
      have : calcPos (.rect mn mx) p = calcRect mn mx p := by funext acc; simp only [calcPos]
      rw [this]; exact add_calcRect mn mx p
  | .triangle a b c, p => by
      have : calcPos (.triangle a b c) p = calcTriangle a b c p := by funext acc; simp only [calcPos]
      rw [this]; exact add_calcTriangle a b c p
  | .collection gs, p => by
      have : calcPos (.collection gs) p = calcPosList gs p := by funext acc; simp only [calcPos]
      rw [this]; exact calcPosList_add gs p
theorem calcPosList_add : ∀ (gs : List Geom) (p : Pt), Additive (calcPosList gs p)
  | [], p => by
      have : calcPosList [] p = fun acc => acc := by funext acc; simp only [calcPosList]
      rw [this]; exact add_id
  | g :: gs, p => by
      have : calcPosList (g :: gs) p = fun acc => calcPosList gs p (calcPos g p acc) := by
        funext acc; simp only [calcPosList]
      rw [this]
      exact add_comp (calcPos_add g p) (calcPosList_add gs p)
end

/-! ### accumulators up to the parity of the counter -/

/-- same flag, same parity of the boundary counter -/
def Same (a b : PosAcc) : Prop := a.inside = b.inside ∧ a.bcount % 2 = b.bcount % 2

theorem Same.refl (a : PosAcc) : Same a a := ⟨rfl, rfl⟩

theorem Same.result {a b : PosAcc} (h : Same a b) : a.result = b.result := by
  unfold PosAcc.result
  rw [h.1, h.2]

theorem Additive.same {f : PosAcc → PosAcc} (hf : Additive f) {a b : PosAcc} (h : Same a b) :
    Same (f a) (f b) := by
  rw [hf a, hf b]
  refine ⟨by simp only [h.1], ?_⟩
  have := h.2
  simp only
  omega

/-- a transformer whose own result is `Outside` leaves flag and parity unchanged -/
theorem Additive.same_of_outside {f : PosAcc → PosAcc} (hf : Additive f)
    (ho : (f ⟨false, 0⟩).result = .outside) (a : PosAcc) : Same (f a) a := by
  rw [hf a]
  unfold PosAcc.result at ho
  have hb : ¬ ((f ⟨false, 0⟩).bcount % 2 == 1) = true := by
    intro hb; rw [if_pos hb] at ho; cases ho
  rw [if_neg hb] at ho
  have hi : (f ⟨false, 0⟩).inside = false := by
    cases hin : (f ⟨false, 0⟩).inside with
    | false => rfl
    | true => rw [hin] at ho; simp at ho
  have hb' : (f ⟨false, 0⟩).bcount % 2 = 0 := by
    have : (f ⟨false, 0⟩).bcount % 2 ≠ 1 := by simpa using hb
    omega
  refine ⟨by simp [hi], ?_⟩
  simp only
  omega

theorem coordPos_eq_result (g : Geom) (p : Pt) : coordPos g p = (calcPos g p ⟨false, 0⟩).result := rfl

/-- members that are all `Outside` leave flag and parity unchanged -/
theorem calcPosList_same_of_outside (gs : List Geom) (p : Pt)
    (h : ∀ g ∈ gs, coordPos g p = .outside) (a : PosAcc) : Same (calcPosList gs p a) a := by
  induction gs generalizing a with
  | nil => simp only [calcPosList]; exact Same.refl a
  | cons g t ih =>
    simp only [calcPosList]
    have h1 := (calcPos_add g p).same_of_outside (h g (by simp)) a
    have h2 := ih (fun x hx => h x (List.mem_cons_of_mem _ hx)) (calcPos g p a)
    exact ⟨h2.1.trans h1.1, h2.2.trans h1.2⟩

/-! ### `locateParts` of a concatenation -/

theorem locateParts_outside_iff (ps : Parts) (p : Pt) :
    locateParts ps p = .outside ↔
      inAnyPoly ps.areas p = false ∧ onAnyRing ps.areas p = false ∧ onAnyCurve ps.curves p = false ∧
        ps.pts.any (· == p) = false := by
  rw [locateParts_eq]
  cases h1 : inAnyPoly ps.areas p <;> cases h2 : onAnyRing ps.areas p <;>
    cases h3 : onAnyCurve ps.curves p <;> cases h4 : ps.pts.any (· == p) <;> simp
  all_goals split <;> simp

theorem inAnyPoly_append (a b : List Poly) (p : Pt) :
    inAnyPoly (a ++ b) p = (inAnyPoly a p || inAnyPoly b p) := by
  unfold inAnyPoly; rw [List.any_append]

theorem onAnyRing_append (a b : List Poly) (p : Pt) :
    onAnyRing (a ++ b) p = (onAnyRing a p || onAnyRing b p) := by
  unfold onAnyRing
  rw [List.any_append, List.any_append]
  cases a.any (fun q => onAnySeg p (q.rings.flatMap segs)) <;>
    cases b.any (fun q => onAnySeg p (q.rings.flatMap segs)) <;>
    cases a.any (fun q => q.rings.any fun r => r == [p]) <;>
    cases b.any (fun q => q.rings.any fun r => r == [p]) <;> rfl

theorem onAnyCurve_append (a b : List (List Pt)) (p : Pt) :
    onAnyCurve (a ++ b) p = (onAnyCurve a p || onAnyCurve b p) := by
  unfold onAnyCurve; rw [List.any_append]

theorem esum_append (p : Pt) (a b : List (List Pt)) : esum p (a ++ b) = esum p a + esum p b := by
  induction a with
  | nil => simp [esum]
  | cons c t ih => simp only [List.cons_append, esum, ih]; omega

/-- off all curves, no curve end point is hit -/
theorem esum_zero_of_off {p : Pt} {cs : List (List Pt)} (h : onAnyCurve cs p = false) : esum p cs = 0 := by
  by_contra hne
  obtain ⟨c, hc, hec⟩ := exists_endC_of_esum hne
  obtain ⟨hopen, he⟩ := endC_ne_zero hec
  have h2 := length_of_head_ne_last hopen
  have hpc : p ∈ c := by
    rcases he with e | e
    · exact List.mem_of_mem_head? e
    · exact List.mem_of_mem_getLast? e
  obtain ⟨s, hs, hps⟩ := mem_seg_end h2 hpc
  have : onAnyCurve cs p = true := by
    unfold onAnyCurve
    rw [List.any_eq_true]
    refine ⟨c, hc, ?_⟩
    rw [Geo.Proofs.Spec.onAnySeg_iff]
    refine ⟨s, hs, ?_⟩
    rcases hps with e | e
    · rw [e]; exact lineCoord_left _ _
    · rw [e]; exact lineCoord_right _ _
  rw [h] at this; cases this

theorem locateParts_append_outside_right (A B : Parts) (p : Pt) (h : locateParts B p = .outside) :
    locateParts (A.append B) p = locateParts A p := by
  obtain ⟨h1, h2, h3, h4⟩ := (locateParts_outside_iff B p).mp h
  rw [locateParts_eq, locateParts_eq]
  simp only [Parts.append, inAnyPoly_append, onAnyRing_append, onAnyCurve_append, esum_append,
    List.any_append, h1, h2, h3, h4, esum_zero_of_off h3, Bool.or_false, Nat.add_zero]

theorem locateParts_append_outside_left (A B : Parts) (p : Pt) (h : locateParts A p = .outside) :
    locateParts (A.append B) p = locateParts B p := by
  obtain ⟨h1, h2, h3, h4⟩ := (locateParts_outside_iff A p).mp h
  rw [locateParts_eq, locateParts_eq]
  simp only [Parts.append, inAnyPoly_append, onAnyRing_append, onAnyCurve_append, esum_append,
    List.any_append, h1, h2, h3, h4, esum_zero_of_off h3, Bool.false_or, Nat.zero_add]

theorem locateParts_nil (p : Pt) : locateParts ⟨[], [], []⟩ p = .outside := by
  simp [locateParts, Parts.areaSegs, Parts.curveSegs, onAnySeg]

theorem partsList_outside (gs : List Geom) (p : Pt) (h : ∀ g ∈ gs, locate g p = .outside) :
    locateParts (partsList gs) p = .outside := by
  induction gs with
  | nil => simp only [partsList]; exact locateParts_nil p
  | cons g t ih =>
    simp only [partsList]
    rw [locateParts_append_outside_right _ _ _ (ih (fun x hx => h x (List.mem_cons_of_mem _ hx)))]
    exact h g (by simp)

/-! ### the fold over pairwise disjoint members -/

/-- at `p`, at most one of the two is not `Outside` -/
def ApartAt (p : Pt) (g1 g2 : Geom) : Prop := locate g1 p = .outside ∨ locate g2 p = .outside

/-- **the member fold of a collection**: members' positions are the specification's, at most one member
is not `Outside` at `p`: from an accumulator with clear flag and even counter the fold ends in the
specification's location of the concatenated parts. -/
theorem coordPos_list (gs : List Geom) (p : Pt)
    (hm : ∀ g ∈ gs, coordPos g p = locate g p) (hap : gs.Pairwise (ApartAt p))
    (acc : PosAcc) (hacc : Same acc ⟨false, 0⟩) :
    (calcPosList gs p acc).result = locateParts (partsList gs) p := by
  induction gs generalizing acc with
  | nil =>
    simp only [calcPosList, partsList]
    rw [hacc.result, locateParts_nil]; rfl
  | cons g t ih =>
    simp only [calcPosList, partsList]
    rw [List.pairwise_cons] at hap
    have hmt : ∀ x ∈ t, coordPos x p = locate x p := fun x hx => hm x (List.mem_cons_of_mem _ hx)
    by_cases hg : locate g p = .outside
    · have hcg : coordPos g p = .outside := by rw [hm g (by simp)]; exact hg
      have hs := (calcPos_add g p).same_of_outside hcg acc
      rw [ih hmt hap.2 _ ⟨hs.1.trans hacc.1, hs.2.trans hacc.2⟩]
      exact (locateParts_append_outside_left _ _ _ hg).symm
    · have hout : ∀ x ∈ t, locate x p = .outside := by
        intro x hx
        rcases hap.1 x hx with h | h
        · exact absurd h hg
        · exact h
      have hs := calcPosList_same_of_outside t p (fun x hx => by rw [hmt x hx]; exact hout x hx)
        (calcPos g p acc)
      rw [hs.result, ((calcPos_add g p).same hacc).result, ← coordPos_eq_result, hm g (by simp)]
      exact (locateParts_append_outside_right _ _ _ (partsList_outside t p hout)).symm

/-- with pairwise disjoint members the location of the concatenation is `Outside` iff every member's is -/
theorem partsList_located (gs : List Geom) (p : Pt) (hap : gs.Pairwise (ApartAt p)) :
    (∀ g ∈ gs, locate g p = .outside) ∧ locateParts (partsList gs) p = .outside ∨
    ∃ g ∈ gs, locate g p ≠ .outside ∧ locateParts (partsList gs) p = locate g p := by
  induction gs with
  | nil => left; exact ⟨fun g hg => (by cases hg), locateParts_nil p⟩
  | cons g t ih =>
    rw [List.pairwise_cons] at hap
    simp only [partsList]
    by_cases hg : locate g p = .outside
    · rcases ih hap.2 with ⟨h1, h2⟩ | ⟨x, hx, h1, h2⟩
      · left
        refine ⟨?_, ?_⟩
        · intro y hy
          rcases List.mem_cons.mp hy with rfl | hy
          · exact hg
          · exact h1 y hy
        · rw [locateParts_append_outside_left _ _ _ hg]; exact h2
      · right
        exact ⟨x, List.mem_cons_of_mem _ hx, h1, by rw [locateParts_append_outside_left _ _ _ hg]; exact h2⟩
    · right
      have hout : ∀ x ∈ t, locate x p = .outside := by
        intro x hx
        rcases hap.1 x hx with h | h
        · exact absurd h hg
        · exact h
      exact ⟨g, by simp, hg, locateParts_append_outside_right _ _ _ (partsList_outside t p hout)⟩

end Geo.Proofs.C02X
