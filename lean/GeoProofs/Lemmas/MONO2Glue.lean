/-
  MONO2 (C10, builder of the monotone pieces): one `process_next_pt` keeps the chain invariant `WInv` when the chain
  references it reads are owned (`handsB` in the state returned by `next_point`), hence every piece of a run whose
  steps are owned (`ownedSteps`) is `wellFormed`.
-/
import GeoProofs.Lemmas.MONO2StepC
import GeoProofs.Lemmas.MONO2Sort
import GeoProofs.Lemmas.MONO2Next

namespace Geo.Proofs.MONO2
open Geo Geo.Mono Geo.MonoBuild Geo.Proofs.C10 Geo.Proofs.MONO

theorem mem_refsOf {st : St} {S : List Nat} {i a k : Nat} :
    (i, a, k) ∈ refsOf st S ↔ i ∈ S ∧ ∃ s, st.segs[i]? = some s ∧ refOf s.info a = some k := by
  unfold refsOf
  simp only [List.mem_flatMap]
  constructor
  · rintro ⟨j, hj, hm⟩
    split at hm
    · rename_i s hs
      simp only [List.mem_filterMap, List.mem_range, Option.map_eq_some_iff, Prod.mk.injEq] at hm
      obtain ⟨a', _, k', hk, e1, e2, e3⟩ := hm
      subst e1 e2 e3
      exact ⟨hj, s, hs, hk⟩
    · cases hm
  · rintro ⟨hi, s, hs, hr⟩
    refine ⟨i, hi, ?_⟩
    rw [hs]
    simp only [List.mem_filterMap, List.mem_range, Option.map_eq_some_iff, Prod.mk.injEq]
    have ha : a < 3 := by
      match a, hr with
      | 0, _ => omega
      | 1, _ => omega
      | 2, _ => omega
      | n + 3, hr => simp [refOf] at hr
    refine ⟨a, ha, k, hr, ?_⟩
    simp

/-- the content of `handsB` -/
theorem handsB_spec {pt : Pt} {st : St} (h : handsB pt st = true) :
    (handSegs pt st).Nodup ∧
    (∀ b, st.prevActive pt = some b → b ∉ st.outgoing ∧
      ∀ bi k, st.infoOf b = some bi → bi.helperChain = some k → k < st.chains.length) ∧
    HP pt [] (handSegs pt st) st.chains.length st := by
  unfold handsB at h
  simp only [Bool.and_eq_true, List.all_eq_true, decide_eq_true_eq] at h
  obtain ⟨⟨⟨⟨nd, hb⟩, hlt⟩, hcl⟩, hinj⟩ := h
  refine ⟨nd, ?_, ⟨?_, ?_, ?_, ?_⟩⟩
  · intro b hbot
    rw [hbot] at hb
    simp only [Option.all_some, Bool.and_eq_true, Bool.not_eq_eq_eq_not, Bool.not_true,
      List.contains_eq_mem, decide_eq_false_iff_not] at hb
    refine ⟨hb.1, ?_⟩
    intro bi k hbi hk
    have := hb.2
    rw [hbi] at this
    simp only [hk, decide_eq_true_eq] at this
    exact this
  · intro i hi s a k hs hr
    exact hlt (i, a, k) (mem_refsOf.2 ⟨hi, s, hs, hr⟩)
  · intro i hi j hj s t a b k hs ht hr hr'
    have := hinj (i, a, k) (mem_refsOf.2 ⟨hi, s, hs, hr⟩) (j, b, k) (mem_refsOf.2 ⟨hj, t, ht, hr'⟩)
    simpa using this
  · intro i hi s a k hs ha hr c t hc ht
    have := hcl (i, a, k) (mem_refsOf.2 ⟨hi, s, hs, hr⟩)
    simp only [Bool.or_eq_true, beq_iff_eq] at this
    rcases this with g | g
    · exact absurd g ha
    · rw [hc] at g
      simp only [Option.bind_some, ht] at g
      exact g
  · intro i hi; cases hi

theorem perm_forall {l l' : List Nat} {P : Nat → Prop} (hp : l'.Perm l) (h : ∀ x ∈ l, P x) : ∀ x ∈ l', P x :=
  fun x hx => h x (hp.mem_iff.1 hx)

/-- one call of `process_next_pt` -/
theorem processNextPt_winv {fuel : Nat} {st st' : St} {b : Bool} (hi : SInv st) (hw : WInv st)
    (hown : ∀ st1 pt, nextPoint fuel { st with incoming := [], outgoing := [] } = some (st1, some pt) →
      handsB pt st1 = true)
    (h : processNextPt fuel st = some (st', b)) : WInv st' := by
  unfold processNextPt at h
  osplit h
  · -- no event left
    rename_i st1 e1
    cases h
    unfold nextPoint at e1
    split at e1
    · cases e1
      exact ⟨fun k c hc => hw.chains k c hc, hw.outs⟩
    · osplit e1
  · rename_i st1 pt e1
    have hb0 := hown st1 pt e1
    have hi0 : SInv { st with incoming := [], outgoing := [] } :=
      ⟨hi.heap, hi.lines, fun e he => (hi.evs e he).congr rfl⟩
    obtain ⟨i1, _, a1, hd⟩ := nextPoint_sinv hi0 e1
    have io := nextPoint_io hi0 ⟨rfl, rfl⟩ e1
    -- the chain invariant at the point
    have hcb0 : CB pt { st with incoming := [], outgoing := [] } := by
      intro k c hc
      obtain ⟨s1, s2, s3⟩ := hw.chains k c hc
      refine ⟨s1, s2, ?_⟩
      intro q hq
      have hd' : (st.events.head?).map (·.pt) = some pt := hd
      cases hh : st.events.head? with
      | none => rw [hh] at hd'; cases hd'
      | some e =>
        rw [hh] at hd'
        simp only [Option.map_some, Option.some.injEq] at hd'
        rw [← hd']
        exact s3 q hq e (List.mem_of_mem_head? hh)
    obtain ⟨hcb1, htip1, hout1, hlen1⟩ := nextPoint_chains hi0 ⟨rfl, rfl⟩ hcb0 e1
    obtain ⟨nd, hbot, hp0⟩ := handsB_spec hb0
    osplit h
    rename_i incoming outgoing hin hout
    have pin := sortBy_perm hin
    have pout := sortBy_perm hout
    simp only at h
    -- names
    generalize hbd : st1.prevActive pt = bot at h hbot nd hp0
    have hS : handSegs pt st1 = st1.incoming ++ bot.toList := by unfold handSegs; rw [hbd]
    rw [hS] at nd hp0
    have hIS : ∀ i ∈ st1.incoming, i ∈ st1.incoming ++ bot.toList := fun i hi' => List.mem_append_left _ hi'
    have hpS : HP pt st1.incoming (st1.incoming ++ bot.toList) st1.chains.length st1 :=
      ⟨hp0.lt, hp0.inj, hp0.cl, fun i hi' s hs ch hc => htip1 i hi' s ch hs hc⟩
    have hpI : HP pt st1.incoming st1.incoming st1.chains.length st1 := hpS.mono hIS
    have hbI : ∀ b', bot = some b' → b' ∉ st1.incoming := by
      intro b' e hm
      rw [e] at nd
      have := List.nodup_append.1 nd
      exact this.2.2 b' hm b' (by simp) rfl
    have ndI : st1.incoming.Nodup := (List.nodup_append.1 nd).1
    have ndin : incoming.Nodup := pin.nodup_iff.2 ndI
    have hinI : ∀ x ∈ incoming, x ∈ st1.incoming := fun x hx => pin.mem_iff.1 hx
    -- the help of the segment below
    have hbh : BotHelpOk pt st1.incoming st1.chains.length st1 ((bot.bind st1.infoOf).bind (·.help)) := by
      intro h0 h1 e
      cases hbot' : bot with
      | none => rw [hbot'] at e; cases e
      | some b' =>
        rw [hbot'] at e
        simp only [Option.bind_some] at e
        cases hbi : st1.infoOf b' with
        | none => rw [hbi] at e; cases e
        | some bi =>
          rw [hbi] at e
          simp only [Option.bind_some] at e
          obtain ⟨sb, hsb, hsbi⟩ := infoOf_seg hbi
          have hbS : b' ∈ st1.incoming ++ bot.toList := by rw [hbot']; simp
          have r1 : refOf sb.info 1 = some h0 := by simp only [refOf]; rw [hsbi, e]; rfl
          have r2 : refOf sb.info 2 = some h1 := by simp only [refOf]; rw [hsbi, e]; rfl
          refine ⟨hpS.cl b' hbS sb 1 h0 hsb (by decide) r1, hpS.cl b' hbS sb 2 h1 hsb (by decide) r2, ?_,
            hpS.lt b' hbS sb 1 h0 hsb r1, hpS.lt b' hbS sb 2 h1 hsb r2, ?_⟩
          · intro e'
            have := hpS.inj b' hbS b' hbS sb sb 1 2 h0 hsb hsb r1 (by rw [e']; exact r2)
            exact absurd this.2 (by decide)
          · intro i hiI s a k hs hr
            refine ⟨?_, ?_⟩
            · intro e'
              have := hpS.inj i (hIS i hiI) b' hbS s sb a 1 h0 hs hsb (by rw [← e']; exact hr) r1
              exact hbI b' hbot' (this.1 ▸ hiI)
            · intro e'
              have := hpS.inj i (hIS i hiI) b' hbS s sb a 2 h1 hs hsb (by rw [← e']; exact hr) r2
              exact hbI b' hbot' (this.1 ▸ hiI)
    -- Step 3a
    osplit h
    rename_i st2 e2
    have hdr : ∀ x ∈ (drainRange incoming (if ((bot.bind st1.infoOf).map (·.nextIsInside)).getD false = true then 1 else 0)
        (incoming.length - (incoming.length - (if ((bot.bind st1.infoOf).map (·.nextIsInside)).getD false = true then 1 else 0)) % 2)).1,
        x ∈ st1.incoming := fun x hx => hinI x ((drainRange_drained_sublist _ _ _).subset hx)
    have r2 : Shr st1 st2 := by
      split at e2
      · cases e2; exact Shr.refl _
      · exact reduceIncoming_shr pt st1.incoming st1.incoming _ (fun i hi' => hi') _ _ _ hdr hcb1 hpI e2
    have q2 : Quiet st1 st2 := by
      split at e2
      · cases e2; exact Quiet.refl _
      · exact reduceIncoming_quiet pt _ _ _ e2
    -- Step 3b
    osplit h
    rename_i st3 ic e3
    have hsub3 : ∀ x ∈ (if incoming.isEmpty = true then incoming else
        (drainRange incoming (if ((bot.bind st1.infoOf).map (·.nextIsInside)).getD false = true then 1 else 0)
        (incoming.length - (incoming.length - (if ((bot.bind st1.infoOf).map (·.nextIsInside)).getD false = true then 1 else 0)) % 2)).2),
        x ∈ incoming := by
      intro x hx
      split at hx
      · exact hx
      · rename_i hne
        refine (drainRange_rest_sublist _ _ _ ?_).subset hx
        have : incoming.length ≠ 0 := by
          intro e0; apply hne; simp [List.length_eq_zero_iff.1 e0]
        split <;> omega
    have hnd3 : (if incoming.isEmpty = true then incoming else
        (drainRange incoming (if ((bot.bind st1.infoOf).map (·.nextIsInside)).getD false = true then 1 else 0)
        (incoming.length - (incoming.length - (if ((bot.bind st1.infoOf).map (·.nextIsInside)).getD false = true then 1 else 0)) % 2)).2).Nodup := by
      split
      · exact ndin
      · rename_i hne
        refine (drainRange_rest_sublist _ _ _ ?_).nodup ndin
        have : incoming.length ≠ 0 := by
          intro e0; apply hne; simp [List.length_eq_zero_iff.1 e0]
        split <;> omega
    obtain ⟨hcb3, hic3, hlen3, houts3, hnone3⟩ := inChains_spec (I := st1.incoming) (n := st1.chains.length)
      (fun x hx => hinI x (hsub3 x hx)) hnd3 hbI (hcb1.sub r2.sub) (hpI.shrink r2.info r2.sub)
      (hbh.shrink r2.info r2.sub) e3
    have q3 := q2.trans (inChains_quiet e3)
    -- the starting segments
    have ho1 : OutOk pt st1 outgoing := by
      intro o ho
      obtain ⟨l, hl, e⟩ := io.out o (pout.mem_iff.1 ho)
      obtain ⟨s, hs, hsl⟩ := lineOf_seg hl
      have := lineOk_lt (i1.lines s (mem_of_getElem? hs))
      rw [hsl, e] at this
      exact ⟨l, hl, e, this⟩
    -- Step 4
    osplit h
    rename_i st4 e4
    have hdo : ∀ x ∈ (drainRange outgoing (if ((bot.bind st1.infoOf).map (·.nextIsInside)).getD false = true then 1 else 0)
        (outgoing.length - (outgoing.length - (if ((bot.bind st1.infoOf).map (·.nextIsInside)).getD false = true then 1 else 0)) % 2)).1,
        x ∈ outgoing := fun x hx => (drainRange_drained_sublist _ _ _).subset hx
    have s4 : CW pt st4 ∧ (∀ k, k < st3.chains.length → chainAt st4 k = chainAt st3 k) ∧
        st4.outputs = st3.outputs ∧ Quiet st3 st4 ∧
        (∀ j, j ∉ outgoing → st4.segs[j]? = st3.segs[j]?) := by
      split at e4
      · cases e4; exact ⟨hcb3.cw, fun _ _ => rfl, rfl, Quiet.refl _, fun _ _ => rfl⟩
      · have ho3 : OutOk pt st3 _ := fun o ho => (ho1.same q3.1) o (hdo o ho)
        obtain ⟨a, b', _, d⟩ := startOutgoing_spec pt _ _ _ ho3 hcb3.cw e4
        exact ⟨a, b', d, startOutgoing_quiet pt _ _ _ e4,
          fun j hj => startOutgoing_other pt _ _ _ e4 j (fun hm => hj (hdo j hm))⟩
    obtain ⟨hcw4, hfr4, hout4, q4, hoth4⟩ := s4
    -- Step 5
    osplit h
    rename_i st5 e5
    simp only [Option.some.injEq, Prod.mk.injEq] at h
    obtain ⟨h, _⟩ := h
    subst h
    have hn3 : st3.chains.length = st1.chains.length := by rw [hlen3, r2.len]
    have ho4 : OutOk pt st4 (if outgoing.isEmpty = true then outgoing else
        (drainRange outgoing (if ((bot.bind st1.infoOf).map (·.nextIsInside)).getD false = true then 1 else 0)
        (outgoing.length - (outgoing.length - (if ((bot.bind st1.infoOf).map (·.nextIsInside)).getD false = true then 1 else 0)) % 2)).2) := by
      intro o ho
      refine (ho1.same (q3.trans q4).1) o ?_
      split at ho
      · exact ho
      · rename_i hne
        refine (drainRange_rest_sublist _ _ _ ?_).subset ho
        have : outgoing.length ≠ 0 := by
          intro e0; apply hne; simp [List.length_eq_zero_iff.1 e0]
        split <;> omega
    have hcbn4 : CBn pt st1.chains.length st4 := by
      intro k hk c hc
      rw [hfr4 k (by rw [hn3]; exact hk)] at hc
      exact (hcb3 k c hc).2.2
    have hic4 : IcOk pt st1.chains.length st4 ic := by
      refine ⟨?_, ?_, hic3.ne⟩
      · intro x hx
        obtain ⟨a, b'⟩ := hic3.fst x hx
        refine ⟨a, ?_⟩
        intro c hc
        rw [hfr4 x (by rw [hn3]; exact a)] at hc
        exact b' c hc
      · intro y hy
        obtain ⟨a, b'⟩ := hic3.snd y hy
        refine ⟨a, ?_⟩
        intro c hc
        rw [hfr4 y (by rw [hn3]; exact a)] at hc
        exact b' c hc
    have hhelper : ic.1 = none → ∀ b' bi, bot = some b' → st4.infoOf b' = some bi →
        bi.helperChain.getD bi.chainIdx < st1.chains.length := by
      intro hnone b' bi hb' hbi
      have e32 : st3 = st2 := hnone3 hnone
      obtain ⟨hbo, hhc⟩ := hbot b' hb'
      have hbo' : b' ∉ outgoing := fun hm => hbo (pout.mem_iff.1 hm)
      have hseg2 : st2.segs[b']? = st1.segs[b']? := by
        split at e2
        · cases e2; rfl
        · exact reduceIncoming_other pt _ _ _ e2 b' (fun hm => hbI b' hb' (hdr b' hm))
      have hseg4 : st4.segs[b']? = st1.segs[b']? := by rw [hoth4 b' hbo', e32, hseg2]
      have hbi1 : st1.infoOf b' = some bi := by
        unfold St.infoOf at hbi ⊢; rw [← hseg4]; exact hbi
      obtain ⟨sb, hsb, hsbi⟩ := infoOf_seg hbi1
      have hbS : b' ∈ st1.incoming ++ bot.toList := by rw [hb']; simp
      cases hk : bi.helperChain with
      | none =>
        simp only [Option.getD_none]
        exact hpS.lt b' hbS sb 0 _ hsb (by simp only [refOf]; rw [hsbi])
      | some k =>
        simp only [Option.getD_some]
        exact hhc bi k hbi1 hk
    obtain ⟨hcw5, hout5⟩ := tieUp_spec ho4 hcw4 hcbn4 hic4 hhelper e5
    have q5 := (q3.trans q4).trans (tieUp_quiet e5)
    refine ⟨?_, ?_⟩
    · intro k c hc
      obtain ⟨s1, s2, s3⟩ := hcw5 k c hc
      refine ⟨s1, s2, ?_⟩
      intro q hq e he
      rw [q5.2.1] at he
      exact lexLe_lt_trans (s3 q hq) (a1 e he)
    · intro m hm
      rw [hout5, hout4] at hm
      rcases houts3 m hm with g | g
      · rcases r2.outs m g with g' | g'
        · rw [hout1] at g'
          exact hw.outs m g'
        · exact g'
      · exact g

theorem initGo_chains : ∀ (ls : List LoP) (st : St), (initGo ls st).chains = st.chains ∧
    (initGo ls st).outputs = st.outputs
  | [], st => by simp [initGo]
  | l :: ls, st => by
    simp only [initGo]
    exact initGo_chains ls _

theorem initState_winv (ps : List Poly) : WInv (initState ps) := by
  obtain ⟨a, b⟩ := initGo_chains (inputLines ps) ⟨[], [], [], [], [], [], []⟩
  refine ⟨?_, ?_⟩
  · intro k c hc
    have := chainAt_eq.1 hc
    unfold initState at this
    rw [a] at this
    simp at this
  · intro m hm
    unfold initState at hm
    rw [b] at hm
    simp at hm

/-- `build`: the chain invariant holds in the final state when every step is owned -/
theorem buildLoop_winv (hf : Nat) : ∀ (fuel : Nat) (st st' : St), SInv st → WInv st →
    (∀ r ∈ midStates hf fuel st, handsB r.1 r.2 = true) → buildLoop hf fuel st = some st' → WInv st'
  | 0, st, st', _, _, _, h => by simp [buildLoop] at h
  | fuel + 1, st, st', hi, hw, hown, h => by
    have hown1 : ∀ st1 pt, nextPoint hf { st with incoming := [], outgoing := [] } = some (st1, some pt) →
        handsB pt st1 = true := by
      intro st1 pt e
      refine hown (pt, st1) ?_
      unfold midStates
      rw [e]
      simp
    unfold buildLoop at h
    osplit h
    · rename_i st1 e1
      cases h
      exact processNextPt_winv hi hw hown1 e1
    · rename_i st1 e1
      have hw1 := processNextPt_winv hi hw hown1 e1
      obtain ⟨_, _, i1, _⟩ := processNextPt_sinv hi e1
      refine buildLoop_winv hf fuel st1 st' i1 hw1 ?_ h
      intro r hr
      refine hown r ?_
      unfold midStates
      rw [e1]
      exact List.mem_append_right _ hr

end Geo.Proofs.MONO2
