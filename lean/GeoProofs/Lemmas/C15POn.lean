/-
  C15 helper lemmas: "lies on the line string" (`OnLS`, stated with geo's `Line: Intersects<Coord>`
  kernel `lineCoord`) and its invariance under reversal.
-/
import GeoModel.Interp
import GeoModel.Segment
import GeoProofs.Lemmas.C15
import GeoProofs.Lemmas.C15PSimple
import GeoProofs.Lemmas.SegmentSpec
import Mathlib.Tactic.Linarith
import Mathlib.Tactic.Ring

namespace Geo.Proofs.C15
open Geo Geo.Interp Geo.Proofs.Kernel

/-- `p` lies on the line string `cs`: on one of its segments (closed; `lineCoord` is geo's
`Line: Intersects<Coord>`), or `cs` is the single coordinate `p`. -/
def OnLS (cs : List Pt) (p : Pt) : Prop :=
  cs = [p] ∨ ∃ s ∈ Interp.segs cs, lineCoord s.1 s.2 p = true

theorem lineCoord_lerp (a b : Pt) (t : Rat) (h0 : 0 ≤ t) (h1 : t ≤ 1) :
    lineCoord a b (lerp a b t) = true :=
  (lineCoord_iff a b _).2 (segMem_lerp a b t h0 h1)

theorem lineCoord_start (a b : Pt) : lineCoord a b a = true := (lineCoord_iff a b a).2 (SegMem_left a b)
theorem lineCoord_end (a b : Pt) : lineCoord a b b = true := (lineCoord_iff a b b).2 (SegMem_right a b)

theorem lineCoord_swap (a b p : Pt) : lineCoord b a p = lineCoord a b p := by
  rw [Bool.eq_iff_iff, lineCoord_iff, lineCoord_iff]; exact SegMem_comm p b a

/-- a point of the form `lerp s.1 s.2 t`, `t ∈ [0,1]`, on a segment of `cs` lies on `cs`. -/
theorem onLS_of_lerp {cs : List Pt} {p : Pt}
    (h : ∃ s ∈ Interp.segs cs, ∃ t : Rat, 0 ≤ t ∧ t ≤ 1 ∧ p = lerp s.1 s.2 t) : OnLS cs p := by
  obtain ⟨s, hs, t, h0, h1, rfl⟩ := h
  exact Or.inr ⟨s, hs, lineCoord_lerp s.1 s.2 t h0 h1⟩

theorem mem_flipRev {s : Pt × Pt} {ss : List (Pt × Pt)} : s ∈ flipRev ss ↔ (s.2, s.1) ∈ ss := by
  unfold flipRev
  simp only [List.mem_map, List.mem_reverse]
  constructor
  · rintro ⟨t, ht, rfl⟩; exact ht
  · intro h; exact ⟨(s.2, s.1), h, rfl⟩

/-- reversal does not change the point set of a line string. -/
theorem onLS_reverse (cs : List Pt) (p : Pt) : OnLS cs.reverse p ↔ OnLS cs p := by
  unfold OnLS
  rw [segs_reverse]
  constructor
  · rintro (h | ⟨s, hs, hc⟩)
    · left
      have := congrArg List.reverse h
      simpa using this
    · right
      exact ⟨(s.2, s.1), mem_flipRev.1 hs, by rw [lineCoord_swap]; exact hc⟩
  · rintro (h | ⟨s, hs, hc⟩)
    · left; rw [h]; rfl
    · right
      exact ⟨(s.2, s.1), mem_flipRev.2 hs, by rw [lineCoord_swap]; exact hc⟩

theorem segs_eq_nil {cs : List Pt} (h : Interp.segs cs = []) : cs = [] ∨ ∃ a, cs = [a] := by
  match cs, h with
  | [], _ => exact Or.inl rfl
  | [a], _ => exact Or.inr ⟨a, rfl⟩

end Geo.Proofs.C15
