/-
  C16Q — part 4: inverting the cosine / sine a posteriori.

  If `A` is within `t` of `[0, π]`, `C ∈ [0, π]` and `|cos A − cos C| ≤ η` then
  `|A − C| ≤ 2t + π·√(η/2)` (the square root is the price of the flat ends of the cosine; it is sharp
  there). With it the engine's Newton arcsine is bounded against `Real.arcsin` from the certificate
  `GeodesyNum.asinCert` (range up to `asinTol`, residual of the engine's own sine up to `asinResTol`).
-/
import GeoProofs.Lemmas.C16QTrig
import Mathlib.Analysis.SpecialFunctions.Trigonometric.Inverse

namespace Geo.Proofs.C16Q
open Geo Geo.Geodesy Geo.GeodesyNum

/-- the sine on `[w, π − w]` is at least `sin w` -/
theorem sin_ge_on {w x : ℝ} (hw : 0 ≤ w) (h1 : w ≤ x) (h2 : x ≤ Real.pi - w) : Real.sin w ≤ Real.sin x := by
  have hpi := Real.pi_pos
  by_cases hx : x ≤ Real.pi / 2
  · exact Real.sin_le_sin_of_le_of_le_pi_div_two (by linarith) hx h1
  · rw [← Real.sin_pi_sub x]
    exact Real.sin_le_sin_of_le_of_le_pi_div_two (by linarith) (by linarith [not_le.mp hx]) (by linarith)

/-- ordered core of the inversion -/
theorem cos_inv_core (X Y t η : ℝ) (ht : 0 ≤ t) (_hXY : X ≤ Y) (hX : -t ≤ X) (hY : Y ≤ Real.pi + t)
    (hd : Y - X ≤ Real.pi + t) (h : Real.cos X - Real.cos Y ≤ η) :
    Y - X ≤ 2 * t + Real.pi * Real.sqrt (η / 2) := by
  have hpi := Real.pi_pos
  have hsq := Real.sqrt_nonneg (η / 2)
  by_cases hD : (Y - X) / 2 ≤ t
  · nlinarith
  · have hw : 0 < (Y - X) / 2 - t := by linarith [not_le.mp hD]
    set w := (Y - X) / 2 - t with hwdef
    have hM1 : w ≤ (X + Y) / 2 := by rw [hwdef]; linarith
    have hM2 : (X + Y) / 2 ≤ Real.pi - w := by rw [hwdef]; linarith
    have hD1 : w ≤ (Y - X) / 2 := by rw [hwdef]; linarith
    have hD2 : (Y - X) / 2 ≤ Real.pi - w := by rw [hwdef]; linarith
    have hw2 : w ≤ Real.pi / 2 := by linarith
    have s1 := sin_ge_on hw.le hM1 hM2
    have s2 := sin_ge_on hw.le hD1 hD2
    have j := Real.mul_le_sin hw.le hw2
    have hsw : 0 ≤ Real.sin w := le_trans (by positivity) j
    have e : Real.cos X - Real.cos Y = 2 * Real.sin ((X + Y) / 2) * Real.sin ((Y - X) / 2) := by
      rw [Real.cos_sub_cos]
      have : (X - Y) / 2 = -((Y - X) / 2) := by ring
      rw [this, Real.sin_neg]; ring
    have h2 : 2 * (2 / Real.pi * w) ^ 2 ≤ η := by
      have a1 : (2 / Real.pi * w) ^ 2 ≤ Real.sin w ^ 2 := by
        apply pow_le_pow_left₀ (by positivity) j
      have a2 : Real.sin w * Real.sin w ≤ Real.sin ((X + Y) / 2) * Real.sin ((Y - X) / 2) :=
        mul_le_mul s1 s2 hsw (le_trans hsw s1)
      nlinarith
    have h3 : 2 / Real.pi * w ≤ Real.sqrt (η / 2) := Real.le_sqrt_of_sq_le (by linarith)
    have h4 : w ≤ Real.pi / 2 * Real.sqrt (η / 2) := by
      have := mul_le_mul_of_nonneg_left h3 (by positivity : (0 : ℝ) ≤ Real.pi / 2)
      have e2 : Real.pi / 2 * (2 / Real.pi * w) = w := by field_simp
      rw [e2] at this; exact this
    have : Y - X = 2 * w + 2 * t := by rw [hwdef]; ring
    rw [this]; linarith

/-- [T] a posteriori inversion of the cosine: `A` within `t` of `[0, π]`, `C ∈ [0, π]`. -/
theorem cos_inv_global (A C t η : ℝ) (ht : 0 ≤ t) (hA1 : -t ≤ A) (hA2 : A ≤ Real.pi + t)
    (hC1 : 0 ≤ C) (hC2 : C ≤ Real.pi) (h : |Real.cos A - Real.cos C| ≤ η) :
    |A - C| ≤ 2 * t + Real.pi * Real.sqrt (η / 2) := by
  rw [abs_le] at h
  rcases le_total A C with hAC | hCA
  · have := cos_inv_core A C t η ht hAC hA1 (by linarith) (by linarith) h.2
    rw [abs_le]; constructor <;> linarith [Real.pi_pos, Real.sqrt_nonneg (η / 2)]
  · have := cos_inv_core C A t η ht hCA (by linarith) hA2 (by linarith) (by linarith [h.1])
    rw [abs_le]; constructor <;> linarith [Real.pi_pos, Real.sqrt_nonneg (η / 2)]

/-- [T] against `arccos` -/
theorem arccos_post (A x t η : ℝ) (ht : 0 ≤ t) (hA1 : -t ≤ A) (hA2 : A ≤ Real.pi + t)
    (hx1 : -1 ≤ x) (hx2 : x ≤ 1) (h : |Real.cos A - x| ≤ η) :
    |A - Real.arccos x| ≤ 2 * t + Real.pi * Real.sqrt (η / 2) := by
  apply cos_inv_global A (Real.arccos x) t η ht hA1 hA2 (Real.arccos_nonneg x) (Real.arccos_le_pi x)
  rw [Real.cos_arccos hx1 hx2]; exact h

/-- [T] against `arcsin`: `a` within `t` of `[-π/2, π/2]`, `|sin a − x| ≤ η`. -/
theorem arcsin_post (a x t η : ℝ) (ht : 0 ≤ t) (ha1 : -(Real.pi / 2) - t ≤ a) (ha2 : a ≤ Real.pi / 2 + t)
    (hx1 : -1 ≤ x) (hx2 : x ≤ 1) (h : |Real.sin a - x| ≤ η) :
    |a - Real.arcsin x| ≤ 2 * t + Real.pi * Real.sqrt (η / 2) := by
  have := arccos_post (Real.pi / 2 - a) x t η ht (by linarith) (by linarith) hx1 hx2
    (by rw [Real.cos_pi_div_two_sub]; exact h)
  rw [Real.arccos_eq_pi_div_two_sub_arcsin] at this
  have e : Real.pi / 2 - a - (Real.pi / 2 - Real.arcsin x) = -(a - Real.arcsin x) := by ring
  rw [e, abs_neg] at this
  exact this

/-! ### the certificate -/

theorem rabs_eq (q : ℚ) : rabs q = |q| := by
  unfold rabs
  by_cases h : q < 0
  · simp [h, abs_of_neg h]
  · simp [h, abs_of_nonneg (not_lt.mp h)]

theorem asinTol_eq : asinTol = 1 / 2 ^ 44 := by norm_num [asinTol]
theorem asinResTol_eq : asinResTol = 1 / 2 ^ 90 := by norm_num [asinResTol]

/-- what the certificate says, as propositions -/
theorem asinCert_spec (x : ℚ) (h : asinCert x = true) :
    (if 0 ≤ x then -(1 / 2 ^ 44 : ℚ) else -(piQ / 2) - 1 / 2 ^ 44) ≤ asinQ x ∧
    asinQ x ≤ (if x ≤ 0 then (1 / 2 ^ 44 : ℚ) else piQ / 2 + 1 / 2 ^ 44) ∧
    |sinQ (asinQ x) - x| ≤ 1 / 2 ^ 90 := by
  unfold asinCert at h
  simp only [Bool.and_eq_true, decide_eq_true_eq] at h
  rw [rabs_eq, asinTol_eq, asinResTol_eq] at h
  exact ⟨h.1.1, h.1.2, h.2⟩

/-- the certified result is in `[-π/2 − 2^-44, π/2 + 2^-44]` and its real sine is within
`2^-90 + 2^-92` of the target -/
theorem asinCert_real (x : ℚ) (h : asinCert x = true) :
    -(Real.pi / 2) - 1 / 2 ^ 44 ≤ ((asinQ x : ℚ) : ℝ) ∧ ((asinQ x : ℚ) : ℝ) ≤ Real.pi / 2 + 1 / 2 ^ 44 ∧
    |Real.sin ((asinQ x : ℚ) : ℝ) - (x : ℝ)| ≤ 1 / 2 ^ 90 + 1 / 2 ^ 92 := by
  obtain ⟨c1, c2, c3⟩ := asinCert_spec x h
  have hp := piQ_pos
  have hpb := piQ_bounds
  have lo : -(piQ / 2) - 1 / 2 ^ 44 ≤ asinQ x := by
    split_ifs at c1 <;> linarith
  have hi : asinQ x ≤ piQ / 2 + 1 / 2 ^ 44 := by
    split_ifs at c2 <;> linarith
  have loR : -((piQ : ℝ) / 2) - 1 / 2 ^ 44 ≤ ((asinQ x : ℚ) : ℝ) := by
    have := (Rat.cast_le (K := ℝ)).mpr lo; push_cast at this; exact this
  have hiR : ((asinQ x : ℚ) : ℝ) ≤ (piQ : ℝ) / 2 + 1 / 2 ^ 44 := by
    have := (Rat.cast_le (K := ℝ)).mpr hi; push_cast at this; exact this
  have hpi := piQ_lt_pi
  refine ⟨by linarith, by linarith, ?_⟩
  have hs := ratSin_close_reduced (asinQ x) (by nlinarith) (by nlinarith)
  have c3R := cast_abs_le c3
  push_cast at c3R
  have e : Real.sin ((asinQ x : ℚ) : ℝ) - (x : ℝ) =
      -(((sinQ (asinQ x) : ℚ) : ℝ) - Real.sin ((asinQ x : ℚ) : ℝ)) + (((sinQ (asinQ x) : ℚ) : ℝ) - (x : ℝ)) := by
    ring
  rw [e]
  refine le_trans (abs_add_le _ _) ?_
  rw [abs_neg]; linarith

theorem sqrt_small_bound : Real.pi * Real.sqrt ((1 / 2 ^ 90 + 1 / 2 ^ 92) / 2) ≤ 3 / 2 ^ 45 := by
  have h1 : Real.sqrt ((1 / 2 ^ 90 + 1 / 2 ^ 92) / 2) ≤ 4 / 5 / 2 ^ 45 := by
    apply Real.sqrt_le_iff.mpr
    constructor <;> norm_num
  have h2 : Real.pi ≤ 3.15 := by linarith [pi_lt_piQ_add, (show ((piQ : ℚ) : ℝ) < ((3142 / 1000 : ℚ) : ℝ) from
    Rat.cast_lt.mpr piQ_bounds.2), (show ((3142 / 1000 : ℚ) : ℝ) + 2 / 10 ^ 40 ≤ 3.15 by norm_num)]
  have := Real.pi_pos
  calc Real.pi * Real.sqrt ((1 / 2 ^ 90 + 1 / 2 ^ 92) / 2) ≤ 3.15 * (4 / 5 / 2 ^ 45) := by
        apply mul_le_mul h2 h1 (Real.sqrt_nonneg _) (by norm_num)
    _ ≤ 3 / 2 ^ 45 := by norm_num

/-- [T] (a posteriori) the engine's Newton arcsine against `Real.arcsin`, GIVEN the certificate:
`2·2^-44 + π·√((2^-90 + 2^-92)/2) ≤ 2^-42` (about 2.3e-13 rad; the true error is about 1e-14 next to
`|x| = 1` and 1e-29 elsewhere).
Full statement (not proved — the convergence of the Newton iteration is not): the same without the
hypothesis `asinCert x = true`. The driver evaluates `asinCert` on every Haversine pair. -/
theorem ratAsin_close_partial (x : ℚ) (hx : |x| ≤ 1) (hc : asinCert x = true) :
    |((asinQ x : ℚ) : ℝ) - Real.arcsin (x : ℝ)| ≤ 1 / 2 ^ 42 := by
  obtain ⟨r1, r2, r3⟩ := asinCert_real x hc
  have hxR := cast_abs_le hx
  push_cast at hxR
  rw [abs_le] at hxR
  have := arcsin_post ((asinQ x : ℚ) : ℝ) (x : ℝ) (1 / 2 ^ 44) (1 / 2 ^ 90 + 1 / 2 ^ 92) (by positivity)
    r1 r2 hxR.1 hxR.2 r3
  have hb := sqrt_small_bound
  have : (2 : ℝ) * (1 / 2 ^ 44) + 3 / 2 ^ 45 ≤ 1 / 2 ^ 42 := by norm_num
  linarith

end Geo.Proofs.C16Q
