/-
  C02Y, part 9: `Line: Contains<LineString>` = the mask `T*****FF*` on the specification (valid operands), and the
  specification side of `LineString: Contains<Line>` / `LineString: Contains<LineString>`:

      is_contains (relateSpec (LineString cs) (Line c d))  ⇔  every point of the segment is a point of the line string

  (`isContains_lineString_line`), so that the equality for the two-pass truncation loop `lsContainsLine` is reduced to
  the point-set statement about the loop (`containsM_lineString_line_partial`).
-/
import GeoProofs.Lemmas.C02YAvoid
import GeoProofs.Lemmas.C02YCoords

set_option linter.unusedSimpArgs false
set_option linter.unusedVariables false

namespace Geo.Proofs.C02Y
open Geo Geo.Proofs.Kernel Geo.Proofs.Spec Geo.Proofs.C02X Geo.Proofs.C02Q

theorem locate_lineString_nil (x : Pt) : locate (.lineString []) x = .outside := by
  by_contra h
  obtain ⟨s, hs, _⟩ := (located_lineString [] x).mp h
  simp [segs] at hs

/-! ### Line × LineString -/

theorem lineContainsLineString_two {a b : Pt} {cs : List Pt} (h2 : ∃ c1 ∈ cs, ∃ c2 ∈ cs, c1 ≠ c2) :
    lineContainsLineString a b cs = true ↔ ∀ c ∈ cs, lineCoord a b c = true := by
  obtain ⟨c1, h1, c2, h2', hne⟩ := h2
  cases cs with
  | nil => cases h1
  | cons first t =>
    simp only [lineContainsLineString]
    have hall : (first :: t).all (· == first) = false := by
      cases hb : (first :: t).all (· == first) with
      | false => rfl
      | true =>
        rw [List.all_eq_true] at hb
        have e1 := hb c1 h1
        have e2 := hb c2 h2'
        rw [beq_iff_eq] at e1 e2
        exact absurd (e1.trans e2.symm) hne
    rw [hall]
    simp only [Bool.not_false, Bool.true_or, Bool.and_true, List.all_eq_true]

/-- **`Line: Contains<LineString>` is the mask `T*****FF*` on the specification** (valid operands) -/
theorem containsM_line_lineString (a b : Pt) (cs : List Pt) (ha : inDomain (.line a b) = true)
    (hb : inDomain (.lineString cs) = true) :
    containsM (.line a b) (.lineString cs) = Gen.isContains (relateSpec (.line a b) (.lineString cs)) := by
  have hab : a ≠ b := by simpa [inDomain, validGeom] using ha
  have e : containsM (.line a b) (.lineString cs) = lineContainsLineString a b cs := rfl
  have hs : Gen.isContains (relateSpec (.line a b) (.lineString cs)) = true ↔
      (∃ x, locate (.line a b) x = .inside ∧ locate (.lineString cs) x = .inside) ∧
      (∀ x, locate (.lineString cs) x ≠ .outside → locate (.line a b) x ≠ .outside) :=
    isContains_iff_thin_right (pa := parts (.line a b)) (pb := parts (.lineString cs)) (dom_facts _ ha).closed rfl
  rw [e, Bool.eq_iff_iff, hs]
  have hv : cs.isEmpty = true ∨ lineStringSimple cs = true := by simpa [inDomain, validGeom] using hb
  rcases hv with he | hsimple
  · have : cs = [] := List.isEmpty_iff.mp he
    subst this
    simp only [lineContainsLineString, Bool.false_eq_true, false_iff, not_and]
    rintro ⟨x, _, hx⟩
    rw [locate_lineString_nil] at hx
    cases hx
  · have h2 := lineStringSimple_two hsimple
    rw [lineContainsLineString_two h2]
    simp only [located_line, located_lineString]
    constructor
    · intro hall
      have hsub : ∀ x, (∃ s ∈ segs cs, SegMem x s.1 s.2) → SegMem x a b := by
        rintro x ⟨s, hs', hx⟩
        have hm := mem_of_mem_segs hs'
        exact SegMem_convex ((lineCoord_iff _ _ _).mp (hall _ hm.1)) ((lineCoord_iff _ _ _).mp (hall _ hm.2)) hx
      refine ⟨?_, hsub⟩
      obtain ⟨s, hs', hne⟩ := exists_nd_seg cs h2
      have hm := mem_of_mem_segs hs'
      obtain ⟨t, t0, t1, _, hf, hl⟩ := exists_inside_on_seg (cs := cs) hne []
      exact ⟨lerp s.1 s.2 t,
        lerp_inside_line hab ((lineCoord_iff _ _ _).mp (hall _ hm.1)) ((lineCoord_iff _ _ _).mp (hall _ hm.2)) hne t0 t1,
        inside_lineString ⟨s, hs', lerp_segMem _ _ (le_of_lt t0) (le_of_lt t1)⟩ hf hl⟩
    · rintro ⟨_, hsub⟩ c hc
      rw [lineCoord_iff]
      exact hsub c (coord_on_segs (two_length h2) hc)

/-! ### LineString × Line: the specification side -/

/-- **the mask on the specification of `(LineString, Line)`**: every point of the segment is a point of the line string
(non-degenerate line, any line string) -/
theorem isContains_lineString_line (cs : List Pt) (c d : Pt) (hcd : c ≠ d) :
    Gen.isContains (relateSpec (.lineString cs) (.line c d)) = true ↔
      ∀ x, SegMem x c d → ∃ s ∈ segs cs, SegMem x s.1 s.2 := by
  have hs : Gen.isContains (relateSpec (.lineString cs) (.line c d)) = true ↔
      (∃ x, locate (.lineString cs) x = .inside ∧ locate (.line c d) x = .inside) ∧
      (∀ x, locate (.line c d) x ≠ .outside → locate (.lineString cs) x ≠ .outside) :=
    isContains_iff_thin_right (pa := parts (.lineString cs)) (pb := parts (.line c d))
      (closedRings_of_noAreas rfl) rfl
  rw [hs]
  simp only [located_line, located_lineString]
  constructor
  · rintro ⟨_, h⟩; exact h
  · intro hsub
    refine ⟨?_, hsub⟩
    obtain ⟨t, t0, t1, _, hf, hl⟩ := exists_inside_on_seg (cs := cs) hcd []
    exact ⟨lerp c d t, inside_lineString (hsub _ (lerp_segMem _ _ (le_of_lt t0) (le_of_lt t1))) hf hl,
      lerp_inside_line hcd (SegMem_left c d) (SegMem_right c d) hcd t0 t1⟩

/-- `LineString: Contains<Line>` is the mask on the specification, given the point-set statement about the two-pass
truncation loop (`hloop`). Full statement (no `hloop`, valid line string): the loop invariant of `cutStep` ("the part of
the query segment not yet covered is `[s, e]`") is not proved. -/
theorem containsM_lineString_line_of_loop (cs : List Pt) (c d : Pt) (hb : inDomain (.line c d) = true)
    (hloop : lsContainsLine cs c d = true ↔ ∀ x, SegMem x c d → ∃ s ∈ segs cs, SegMem x s.1 s.2) :
    containsM (.lineString cs) (.line c d) = Gen.isContains (relateSpec (.lineString cs) (.line c d)) := by
  have hcd : c ≠ d := by simpa [inDomain, validGeom] using hb
  have e : containsM (.lineString cs) (.line c d) = lsContainsLine cs c d := rfl
  rw [e, Bool.eq_iff_iff, hloop, isContains_lineString_line cs c d hcd]

end Geo.Proofs.C02Y
