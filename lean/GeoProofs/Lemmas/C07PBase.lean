/-
  GeoProofs.Lemmas.C07PBase — single-part operands:
  * the point sets of the operands of dimension ≤ 1 and "`baseD` is the true minimum" for all nine pairs;
  * `Polygon × Polygon` is symmetric for polygons without holes (hence for Rect / Triangle operands).
-/
import GeoProofs.Lemmas.C07PMin

namespace Geo.Proofs.C07
open Geo Geo.Proofs.Kernel

/-! ### operands of dimension ≤ 1 -/

/-- Point, Line, or a LineString with at least one segment (on which no call panics) -/
def linOk : Base → Prop
  | .pt _ => True
  | .ln _ _ => True
  | .ls cs => segs cs ≠ []
  | _ => False

/-- the point set of an operand of dimension ≤ 1 -/
def linPts : Base → Pt → Prop
  | .pt p => fun x => x = p
  | .ln a b => fun x => SegMem x a b
  | .ls cs => LsPts cs
  | _ => fun _ => False

/-- finding K4 excluded: the tolerance test of `line_string_contains_point` has no false positive on
this pair (vacuous unless the pair is Point × LineString) -/
def tolOk : Base → Base → Prop
  | .pt p, .ls cs => lsContainsPointTol cs p = true → OnLs p cs
  | .ls cs, .pt p => lsContainsPointTol cs p = true → OnLs p cs
  | _, _ => True

theorem ne_nil_of_segs {cs : List Pt} (h : segs cs ≠ []) : cs ≠ [] := by
  rintro rfl; exact h rfl

/-- **every pair of operands of dimension ≤ 1**: the value is finite and is the true minimum of
`|x − y|²` over all pairs of points of the two operands -/
theorem baseD_lin_IsMinDist {x y : Base} (hx : linOk x) (hy : linOk y) (ht : tolOk x y) :
    ∃ q, baseD x y = .fin q ∧ IsMinDist (linPts x) (linPts y) q := by
  cases x with
  | pg _ => exact hx.elim
  | rc _ _ => exact hx.elim
  | tr _ _ _ => exact hx.elim
  | pt p =>
    cases y with
    | pg _ => exact hy.elim
    | rc _ _ => exact hy.elim
    | tr _ _ _ => exact hy.elim
    | pt q => exact ⟨_, rfl, ptPt2_IsMinDist p q⟩
    | ln a b => exact ⟨_, rfl, psd2_IsMinDist p a b⟩
    | ls cs =>
      obtain ⟨q, hq⟩ := ptLs2_finite p hy
      exact ⟨q, hq, ptLs2_IsMinDist (ne_nil_of_segs hy) ht hq⟩
  | ln a b =>
    cases y with
    | pg _ => exact hy.elim
    | rc _ _ => exact hy.elim
    | tr _ _ _ => exact hy.elim
    | pt p => exact ⟨_, rfl, (psd2_IsMinDist p a b).swap⟩
    | ln c d =>
      obtain ⟨q, hq⟩ := lineLine2_finite a b c d
      exact ⟨q, hq, lineLine2_IsMinDist a b c d hq⟩
    | ls cs =>
      obtain ⟨q, hq⟩ := lineLs2_finite a b hy
      exact ⟨q, hq, lineLs2_IsMinDist a b cs hq⟩
  | ls cs =>
    cases y with
    | pg _ => exact hy.elim
    | rc _ _ => exact hy.elim
    | tr _ _ _ => exact hy.elim
    | pt p =>
      obtain ⟨q, hq⟩ := ptLs2_finite p hx
      exact ⟨q, hq, (ptLs2_IsMinDist (ne_nil_of_segs hx) ht hq).swap⟩
    | ln a b =>
      obtain ⟨q, hq⟩ := lineLs2_finite a b hx
      exact ⟨q, hq, (lineLs2_IsMinDist a b cs hq).swap⟩
    | ls ds =>
      obtain ⟨q, hq⟩ := lsLs2_finite hx hy
      exact ⟨q, hq, lsLs2_IsMinDist hx hy hq⟩

/-- **minimum through the dispatch fold**: if every single-part call is between operands of
dimension ≤ 1, the fold over the calls is the minimum over all pairs of points of all calls -/
theorem callFold_IsMinDist {l : List (Base × Base)}
    (h : ∀ xy ∈ l, linOk xy.1 ∧ linOk xy.2 ∧ tolOk xy.1 xy.2) {m : Rat}
    (hm : foldMin (fun (xy : Base × Base) => baseD xy.1 xy.2) l = .fin m) :
    (∀ xy ∈ l, ∀ x y, linPts xy.1 x → linPts xy.2 y → m ≤ dist2 x y) ∧
    ∃ xy ∈ l, ∃ x y, linPts xy.1 x ∧ linPts xy.2 y ∧ m = dist2 x y := by
  have hG : ∀ xy ∈ l, (baseD xy.1 xy.2).Ge0 := by
    intro xy hxy
    obtain ⟨q, hq, hmin⟩ := baseD_lin_IsMinDist (h xy hxy).1 (h xy hxy).2.1 (h xy hxy).2.2
    rw [hq]; exact hmin.nonneg
  obtain ⟨⟨e, he, hfe⟩, hlb⟩ := foldMin_fin hG hm
  constructor
  · intro xy hxy x y hx hy
    obtain ⟨q, hq, hmin⟩ := baseD_lin_IsMinDist (h xy hxy).1 (h xy hxy).2.1 (h xy hxy).2.2
    have h1 := hlb xy hxy
    rw [hq] at h1
    exact le_trans h1 (hmin.1 x y hx hy)
  · obtain ⟨q, hq, hmin⟩ := baseD_lin_IsMinDist (h e he).1 (h e he).2.1 (h e he).2.2
    rw [hfe] at hq
    obtain rfl := DV.fin.inj hq
    obtain ⟨x, y, hx, hy, e'⟩ := hmin.2
    exact ⟨e, he, x, y, hx, hy, e'⟩

/-! ### Polygon × Polygon without holes -/

theorem rectRect_comm (amn amx bmn bmx : Pt) : rectRect amn amx bmn bmx = rectRect bmn bmx amn amx := by
  rw [Bool.eq_iff_iff, rectRect_eq, rectRect_eq]
  constructor <;> rintro ⟨h1, h2, h3, h4⟩ <;> exact ⟨h3, h4, h1, h2⟩

theorem bboxDisjoint_comm (ra rb : Option (Pt × Pt)) : bboxDisjoint ra rb = bboxDisjoint rb ra := by
  cases ra with
  | none => cases rb <;> rfl
  | some a =>
    cases rb with
    | none => rfl
    | some b =>
      obtain ⟨amn, amx⟩ := a; obtain ⟨bmn, bmx⟩ := b
      simp only [bboxDisjoint]
      rw [rectRect_comm]

/-- `Polygon: Intersects<Polygon>` is symmetric when the **second** operand's holes are not looked
at differently, i.e. for two polygons without holes -/
theorem polyPolyIntersects_symm_noholes {a b : Poly} (ha : a.ints = []) (hb : b.ints = []) :
    polyPolyIntersects a b = polyPolyIntersects b a := by
  unfold polyPolyIntersects
  rw [ha, hb, bboxDisjoint_comm]
  simp only [List.any_nil, Bool.or_false]
  rw [Bool.or_comm]

/-- **dist2_symm**, `Polygon × Polygon` without holes — unconditional (empty exteriors included:
without holes the code never indexes `exterior().0[0]`) -/
theorem polyPoly2_symm_noholes {a b : Poly} (ha : a.ints = []) (hb : b.ints = []) :
    polyPoly2 a b = polyPoly2 b a := by
  unfold polyPoly2
  rw [polyPolyIntersects_symm_noholes ha hb, ha, hb, nnDist2_symm]
  simp

end Geo.Proofs.C07
