/-
  GeoProofs.Lemmas.C07PSegSeg — DESIGN §7 C07 T2 `segseg_min_at_endpoint`:
  for two closed segments without a common point, the squared distance
  `f(s,t) = |a + s(b−a) − (c + t(d−c))|²` on the unit square is bounded below by the smallest of the
  four end-point–to–segment distances `psd2`.

  Proof. `f` is a positive semi-definite quadratic. If the directions are not parallel, the carrier
  lines meet at parameters `(s⋆, t⋆)` outside the square (inside would be a common point) and `f` is
  homogeneous of degree 2 about `(s⋆, t⋆)`: on the straight path from `(s⋆, t⋆)` to `(s, t)` the
  value at parameter `l` is `l²·f(s,t)`; that path meets the boundary of the square
  (`ray_hits_boundary`). If the directions are parallel, `f` is constant on the lines
  `s − k·t = const`, which meet the boundary (`shear_hits_boundary`). On each edge of the square `f`
  is the distance of an end point to a point of the other segment, hence at least `psd2`.
-/
import GeoProofs.Lemmas.C07Psd
import GeoProofs.Lemmas.C07PSquare
import Mathlib.Tactic.LinearCombination

namespace Geo.Proofs.C07
open Geo Geo.Proofs.Kernel

/-- the smallest of the four end-point distances that `Line × Line` looks at -/
def min4 (a b c d : Pt) : Rat := min (min (psd2 a c d) (psd2 b c d)) (min (psd2 c a b) (psd2 d a b))

theorem min4_le (a b c d : Pt) :
    min4 a b c d ≤ psd2 a c d ∧ min4 a b c d ≤ psd2 b c d ∧
    min4 a b c d ≤ psd2 c a b ∧ min4 a b c d ≤ psd2 d a b := by
  unfold min4
  exact ⟨le_trans (min_le_left _ _) (min_le_left _ _), le_trans (min_le_left _ _) (min_le_right _ _),
    le_trans (min_le_right _ _) (min_le_left _ _), le_trans (min_le_right _ _) (min_le_right _ _)⟩

theorem min4_cases (a b c d : Pt) :
    min4 a b c d = psd2 a c d ∨ min4 a b c d = psd2 b c d ∨
    min4 a b c d = psd2 c a b ∨ min4 a b c d = psd2 d a b := by
  unfold min4
  rcases min_choice (min (psd2 a c d) (psd2 b c d)) (min (psd2 c a b) (psd2 d a b)) with h | h
  · rw [h]
    rcases min_choice (psd2 a c d) (psd2 b c d) with h' | h'
    · exact Or.inl h'
    · exact Or.inr (Or.inl h')
  · rw [h]
    rcases min_choice (psd2 c a b) (psd2 d a b) with h' | h'
    · exact Or.inr (Or.inr (Or.inl h'))
    · exact Or.inr (Or.inr (Or.inr h'))

/-- `f(s,t)` in coordinates -/
theorem dist2_segPt_segPt (a b c d : Pt) (s t : Rat) :
    dist2 (segPt a b s) (segPt c d t) =
      ((a.x - c.x) + s * (b.x - a.x) - t * (d.x - c.x)) * ((a.x - c.x) + s * (b.x - a.x) - t * (d.x - c.x)) +
      ((a.y - c.y) + s * (b.y - a.y) - t * (d.y - c.y)) * ((a.y - c.y) + s * (b.y - a.y) - t * (d.y - c.y)) := by
  unfold dist2 segPt; ring

/-- Cramer's rule for `w + s·u − t·v = 0` -/
theorem cramer2 {ux uy vx vy wx wy D : Rat} (hdef : D = ux * vy - uy * vx) (hD : D ≠ 0) :
    ∃ ss ts : Rat, wx + ss * ux - ts * vx = 0 ∧ wy + ss * uy - ts * vy = 0 := by
  refine ⟨(vx * wy - wx * vy) / D, (ux * wy - wx * uy) / D, ?_, ?_⟩
  · field_simp
    rw [hdef]; ring
  · field_simp
    rw [hdef]; ring

/-- parallel directions: `v = k·u` when `u ≠ 0` -/
theorem parallel_factor {ux uy vx vy : Rat} (hD : ux * vy - uy * vx = 0) (hL : ux * ux + uy * uy ≠ 0) :
    ∃ k : Rat, vx = k * ux ∧ vy = k * uy := by
  refine ⟨(ux * vx + uy * vy) / (ux * ux + uy * uy), ?_, ?_⟩
  · rw [div_mul_eq_mul_div, eq_div_iff hL]
    linear_combination (-uy) * hD
  · rw [div_mul_eq_mul_div, eq_div_iff hL]
    linear_combination ux * hD

/-- non-parallel carrier lines meet -/
theorem lines_meet {a b c d : Pt}
    (hD : (b.x - a.x) * (d.y - c.y) - (b.y - a.y) * (d.x - c.x) ≠ 0) :
    ∃ ss ts : Rat, (a.x - c.x) + ss * (b.x - a.x) - ts * (d.x - c.x) = 0 ∧
                   (a.y - c.y) + ss * (b.y - a.y) - ts * (d.y - c.y) = 0 :=
  cramer2 rfl hD

/-- **the parameter square has no interior minimum**: without a common point, every value of `f` on
the closed unit square is matched or undercut on the boundary of the square -/
theorem segseg_boundary_reach {a b c d : Pt} (hno : ¬ ∃ p, SegMem p a b ∧ SegMem p c d)
    {s0 t0 : Rat} (hs0 : 0 ≤ s0 ∧ s0 ≤ 1) (ht0 : 0 ≤ t0 ∧ t0 ≤ 1) :
    ∃ s t : Rat, (0 ≤ s ∧ s ≤ 1) ∧ (0 ≤ t ∧ t ≤ 1) ∧ (s = 0 ∨ s = 1 ∨ t = 0 ∨ t = 1) ∧
      dist2 (segPt a b s) (segPt c d t) ≤ dist2 (segPt a b s0) (segPt c d t0) := by
  by_cases hD : (b.x - a.x) * (d.y - c.y) - (b.y - a.y) * (d.x - c.x) = 0
  · -- parallel (or degenerate) directions
    by_cases hab : a = b
    · subst hab
      refine ⟨0, t0, ⟨le_refl _, zero_le_one⟩, ht0, Or.inl rfl, ?_⟩
      rw [segPt_self, segPt_self]
    · have hl := len2_pos hab
      have hl' : (b.x - a.x) * (b.x - a.x) + (b.y - a.y) * (b.y - a.y) ≠ 0 := ne_of_gt hl
      -- d − c = k (b − a)
      obtain ⟨k, hkx, hky⟩ := parallel_factor hD hl'
      obtain ⟨s, t, hs, ht, hbd, he⟩ := shear_hits_boundary k hs0 ht0
      refine ⟨s, t, hs, ht, hbd, le_of_eq ?_⟩
      rw [dist2_segPt_segPt, dist2_segPt_segPt, hkx, hky]
      have e1 : ∀ w u : Rat, w + s * u - t * (k * u) = w + (s - k * t) * u := by intro w u; ring
      have e2 : ∀ w u : Rat, w + s0 * u - t0 * (k * u) = w + (s0 - k * t0) * u := by intro w u; ring
      rw [e1, e1, e2, e2, he]
  · -- the carrier lines meet at (ss, ts), outside the square
    obtain ⟨ss, ts, hx, hy⟩ := lines_meet hD
    have hout : ¬ ((0 ≤ ss ∧ ss ≤ 1) ∧ (0 ≤ ts ∧ ts ≤ 1)) := by
      rintro ⟨⟨h1, h2⟩, ⟨h3, h4⟩⟩
      apply hno
      refine ⟨segPt a b ss, ⟨ss, h1, h2, rfl, rfl⟩, ⟨ts, h3, h4, ?_, ?_⟩⟩
      · show a.x + ss * (b.x - a.x) = c.x + ts * (d.x - c.x)
        linarith
      · show a.y + ss * (b.y - a.y) = c.y + ts * (d.y - c.y)
        linarith
    obtain ⟨l, l0, l1, hs, ht, hbd⟩ := ray_hits_boundary hs0 ht0 hout
    refine ⟨ss + l * (s0 - ss), ts + l * (t0 - ts), hs, ht, hbd, ?_⟩
    rw [dist2_segPt_segPt, dist2_segPt_segPt]
    -- homogeneity about (ss, ts)
    have ex : (a.x - c.x) + (ss + l * (s0 - ss)) * (b.x - a.x) - (ts + l * (t0 - ts)) * (d.x - c.x) =
        l * ((a.x - c.x) + s0 * (b.x - a.x) - t0 * (d.x - c.x)) := by
      linear_combination (1 - l) * hx
    have ey : (a.y - c.y) + (ss + l * (s0 - ss)) * (b.y - a.y) - (ts + l * (t0 - ts)) * (d.y - c.y) =
        l * ((a.y - c.y) + s0 * (b.y - a.y) - t0 * (d.y - c.y)) := by
      linear_combination (1 - l) * hy
    rw [ex, ey]
    generalize (a.x - c.x) + s0 * (b.x - a.x) - t0 * (d.x - c.x) = X
    generalize (a.y - c.y) + s0 * (b.y - a.y) - t0 * (d.y - c.y) = Y
    have hll : l * l ≤ 1 := by nlinarith
    have hXY : 0 ≤ X * X + Y * Y := by nlinarith [mul_self_nonneg X, mul_self_nonneg Y]
    nlinarith [mul_nonneg (sub_nonneg.mpr hll) hXY]

/-- **T2, lower bound in parameters**: `min4 ≤ f(s,t)` on the closed unit square -/
theorem segseg_min4_le_param {a b c d : Pt} (hno : ¬ ∃ p, SegMem p a b ∧ SegMem p c d)
    {s t : Rat} (hs : 0 ≤ s ∧ s ≤ 1) (ht : 0 ≤ t ∧ t ≤ 1) :
    min4 a b c d ≤ dist2 (segPt a b s) (segPt c d t) := by
  obtain ⟨s', t', hs', ht', hbd, hle⟩ := segseg_boundary_reach hno hs ht
  refine le_trans ?_ hle
  obtain ⟨m1, m2, m3, m4⟩ := min4_le a b c d
  rcases hbd with h | h | h | h
  · rw [h, segPt_zero]
    exact le_trans m1 (psd2_le_segPt a c d t' ht'.1 ht'.2)
  · rw [h, segPt_one]
    exact le_trans m2 (psd2_le_segPt b c d t' ht'.1 ht'.2)
  · rw [h, segPt_zero, dist2_symm]
    exact le_trans m3 (psd2_le_segPt c a b s' hs'.1 hs'.2)
  · rw [h, segPt_one, dist2_symm]
    exact le_trans m4 (psd2_le_segPt d a b s' hs'.1 hs'.2)

/-- **T2, lower bound**: no two points of two disjoint segments are closer than the smallest of the
four end-point distances -/
theorem segseg_min4_le {a b c d : Pt} (hno : ¬ ∃ p, SegMem p a b ∧ SegMem p c d)
    {x y : Pt} (hx : SegMem x a b) (hy : SegMem y c d) : min4 a b c d ≤ dist2 x y := by
  obtain ⟨s, s0, s1, rfl⟩ := (SegMem_iff_segPt x a b).mp hx
  obtain ⟨t, t0, t1, rfl⟩ := (SegMem_iff_segPt y c d).mp hy
  exact segseg_min4_le_param hno ⟨s0, s1⟩ ⟨t0, t1⟩

/-- **T2, attainment**: the smallest end-point distance is the distance of two points of the segments
(needs no hypothesis) -/
theorem min4_attained (a b c d : Pt) :
    ∃ x y, SegMem x a b ∧ SegMem y c d ∧ min4 a b c d = dist2 x y := by
  rcases min4_cases a b c d with h | h | h | h
  · obtain ⟨y, hy, e⟩ := psd2_attained a c d
    exact ⟨a, y, SegMem_left a b, hy, by rw [h, e]⟩
  · obtain ⟨y, hy, e⟩ := psd2_attained b c d
    exact ⟨b, y, SegMem_right a b, hy, by rw [h, e]⟩
  · obtain ⟨x, hx, e⟩ := psd2_attained c a b
    exact ⟨x, c, hx, SegMem_left c d, by rw [h, e, dist2_symm]⟩
  · obtain ⟨x, hx, e⟩ := psd2_attained d a b
    exact ⟨x, d, hx, SegMem_right c d, by rw [h, e, dist2_symm]⟩

end Geo.Proofs.C07
