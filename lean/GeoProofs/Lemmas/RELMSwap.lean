/-
  RELM — label-swap invariance of the model of the implementation: the graph a prepared geometry
  hands out (`clone_for_arg_index` of the cache built and self-noded for argument index 0) is the
  graph `relate` builds and self-nodes for the plain operand, in either position; hence the
  prepared path of the model equals the plain path. Builds on C17's `swap_buildGraph` /
  `swap_selfNodes` (GeoProofs/Props/C17.lean, Lemmas/C17Graph.lean).
-/
import GeoModel.RelateImplTop
import GeoProofs.Props.C17

namespace Geo.Proofs.RELM
open Geo Geo.GG Geo.RI

/-- forget the mutable state of an edge -/
def toEdge (e : REdge) : Edge := ⟨e.coords, e.label⟩

theorem toEdge_ofEdge (e : Edge) : toEdge (REdge.ofEdge e) = e := by cases e; rfl

theorem map_toEdge_ofEdge (es : List Edge) : (es.map REdge.ofEdge).map toEdge = es := by
  rw [List.map_map]
  conv_rhs => rw [← List.map_id es]
  exact List.map_congr_left fun e _ => toEdge_ofEdge e

theorem ofEdge_swap (e : Edge) : REdge.ofEdge e.swap = (REdge.ofEdge e).swap := rfl

/-! ### list plumbing -/

theorem updAt_map {α β} (g : α → β) (f : α → α) (f' : β → β) (h : ∀ x, g (f x) = f' (g x)) :
    ∀ (l : List α) (i : Nat), (updAt l i f).map g = updAt (l.map g) i f'
  | [], _ => rfl
  | x :: xs, 0 => by simp [updAt, h]
  | x :: xs, i + 1 => by simp [updAt, updAt_map g f f' h xs i]

theorem toEdge_addIntersection (ar : Arith) (e : REdge) (p a b : Pt) (k : Nat) :
    toEdge (e.addIntersection ar p a b k) = toEdge e := rfl

theorem toEdge_addIntersections (ar : Arith) (e : REdge) (li : LI) (a b : Pt) (k : Nat) :
    toEdge (e.addIntersections ar li a b k) = toEdge e := by
  cases li <;> rfl

theorem swap_addIntersection (ar : Arith) (e : REdge) (p a b : Pt) (k : Nat) :
    (e.addIntersection ar p a b k).swap = e.swap.addIntersection ar p a b k := rfl

theorem swap_addIntersections (ar : Arith) (e : REdge) (li : LI) (a b : Pt) (k : Nat) :
    (e.addIntersections ar li a b k).swap = e.swap.addIntersections ar li a b k := by
  cases li <;> rfl

theorem isTrivial_swap (li : LI) (same : Bool) (s0 s1 : Nat) (e : REdge) :
    isTrivial li same s0 s1 e.swap = isTrivial li same s0 s1 e := rfl

/-! ### self-noding neither reads nor writes labels -/

theorem selfAdd_swap (ar : Arith) (es : List REdge) (s0 s1 : Seg) :
    (selfAdd ar es s0 s1).map REdge.swap = selfAdd ar (es.map REdge.swap) s0 s1 := by
  unfold selfAdd
  split
  · rfl
  · split
    · rfl
    · rename_i li _
      rw [List.getElem?_map]
      cases h : es[s0.edge]? with
      | none => rfl
      | some e0 =>
        have ht : isTrivial li (s0.edge == s1.edge) s0.idx s1.idx e0.swap =
            isTrivial li (s0.edge == s1.edge) s0.idx s1.idx e0 := rfl
        cases hb : isTrivial li (s0.edge == s1.edge) s0.idx s1.idx e0
        · have hb' := ht.trans hb
          simp only [Option.map_some, hb, hb', Bool.false_eq_true, if_false]
          rw [updAt_map REdge.swap _ (fun e => e.addIntersections ar li s1.p s1.q s1.idx)
              (fun x => swap_addIntersections ar x li s1.p s1.q s1.idx),
            updAt_map REdge.swap _ (fun e => e.addIntersections ar li s0.p s0.q s0.idx)
              (fun x => swap_addIntersections ar x li s0.p s0.q s0.idx)]
        · have hb' := ht.trans hb
          simp only [Option.map_some, hb, hb', if_true]

theorem selfRow_swap (ar : Arith) (check : Bool) (s0 : Seg) :
    ∀ (l : List Seg) (es : List REdge),
      (selfRow ar check s0 l es).map REdge.swap = selfRow ar check s0 l (es.map REdge.swap)
  | [], _ => rfl
  | s1 :: rest, es => by
      simp only [selfRow]
      rw [selfRow_swap ar check s0 rest]
      split
      · rw [selfAdd_swap]
      · rfl

theorem selfRows_swap (ar : Arith) (check : Bool) (all : List Seg) :
    ∀ (l : List Seg) (es : List REdge),
      (selfRows ar check all l es).map REdge.swap = selfRows ar check all l (es.map REdge.swap)
  | [], _ => rfl
  | s0 :: rest, es => by
      simp only [selfRows]
      rw [selfRows_swap ar check all rest, selfRow_swap]

theorem edgeSegs_swap (i : Nat) (e : REdge) : edgeSegs i e.swap = edgeSegs i e := rfl

theorem allSegsFrom_swap : ∀ (es : List REdge) (i : Nat), allSegsFrom i (es.map REdge.swap) = allSegsFrom i es
  | [], _ => rfl
  | e :: es, i => by simp only [List.map_cons, allSegsFrom, edgeSegs_swap, allSegsFrom_swap es]

theorem selfIntersections_swap (ar : Arith) (check : Bool) (es : List REdge) :
    (selfIntersections ar check es).map REdge.swap = selfIntersections ar check (es.map REdge.swap) := by
  unfold selfIntersections allSegs
  simp only [allSegsFrom_swap]
  exact selfRows_swap ar check _ _ _

theorem selfAdd_toEdge (ar : Arith) (es : List REdge) (s0 s1 : Seg) :
    (selfAdd ar es s0 s1).map toEdge = es.map toEdge := by
  unfold selfAdd
  split
  · rfl
  · split
    · rfl
    · split
      · rfl
      · split
        · rfl
        · rename_i li _ _ _ _ _
          rw [updAt_map toEdge _ id (fun x => toEdge_addIntersections ar x li s1.p s1.q s1.idx),
            updAt_map toEdge _ id (fun x => toEdge_addIntersections ar x li s0.p s0.q s0.idx)]
          have hid : ∀ (l : List Edge) (i : Nat), updAt l i id = l := by
            intro l; induction l with
            | nil => intro i; rfl
            | cons x xs ih => intro i; cases i <;> simp [updAt, ih]
          rw [hid, hid]

theorem selfRow_toEdge (ar : Arith) (check : Bool) (s0 : Seg) :
    ∀ (l : List Seg) (es : List REdge), (selfRow ar check s0 l es).map toEdge = es.map toEdge
  | [], _ => rfl
  | s1 :: rest, es => by
      simp only [selfRow]
      rw [selfRow_toEdge ar check s0 rest]
      split
      · rw [selfAdd_toEdge]
      · rfl

theorem selfRows_toEdge (ar : Arith) (check : Bool) (all : List Seg) :
    ∀ (l : List Seg) (es : List REdge), (selfRows ar check all l es).map toEdge = es.map toEdge
  | [], _ => rfl
  | s0 :: rest, es => by
      simp only [selfRows]
      rw [selfRows_toEdge ar check all rest, selfRow_toEdge]

/-- self-noding leaves coordinates and labels of the edges as `GeometryGraph::new` made them -/
theorem selfIntersections_toEdge (ar : Arith) (check : Bool) (es : List REdge) :
    (selfIntersections ar check es).map toEdge = es.map toEdge :=
  selfRows_toEdge ar check _ _ _

/-! ### the graph handed out by a prepared geometry -/

theorem eis_swap (es : List REdge) :
    (es.map REdge.swap).map (fun e => e.eis.map (·.coord)) = es.map (fun e => e.eis.map (·.coord)) := by
  rw [List.map_map]; rfl

/-- the self-noded graph for index 0 with its labels swapped is the self-noded graph for index 1 -/
theorem swap_freshGraph (ar : Arith) (g : Geom) :
    { (freshGraph ar 0 g).swapLabels with idx := 1 } = freshGraph ar 1 g := by
  unfold freshGraph RGraph.selfNode RGraph.new RGraph.swapLabels
  simp only
  have h1 : buildGraph 1 g = (buildGraph 0 g).swapLabels := (Geo.Proofs.C17.swap_buildGraph g).symm
  have he1 : (buildGraph 1 g).edges.map REdge.ofEdge = ((buildGraph 0 g).edges.map REdge.ofEdge).map REdge.swap := by
    rw [h1]
    simp only [Graph.swapLabels, List.map_map]
    rfl
  have hn1 : (buildGraph 1 g).nodes = (buildGraph 0 g).nodes.map Node.swap := by rw [h1]; rfl
  have hr1 : (buildGraph 1 g).useRule = (buildGraph 0 g).useRule := by rw [h1]; rfl
  -- the edges after self-noding
  have hes : selfIntersections ar (!isRings g) ((buildGraph 1 g).edges.map REdge.ofEdge) =
      (selfIntersections ar (!isRings g) ((buildGraph 0 g).edges.map REdge.ofEdge)).map REdge.swap := by
    rw [he1, selfIntersections_swap]
  -- the graphs handed to `add_self_intersection_nodes` are the built graphs
  have hG (idx : Nat) :
      (⟨(buildGraph idx g).nodes,
        (selfIntersections ar (!isRings g) ((buildGraph idx g).edges.map REdge.ofEdge)).map
          (fun e => (⟨e.coords, e.label⟩ : Edge)),
        (buildGraph idx g).useRule⟩ : Graph) = buildGraph idx g := by
    have : (selfIntersections ar (!isRings g) ((buildGraph idx g).edges.map REdge.ofEdge)).map
        (fun e => (⟨e.coords, e.label⟩ : Edge)) = (buildGraph idx g).edges := by
      have := selfIntersections_toEdge ar (!isRings g) ((buildGraph idx g).edges.map REdge.ofEdge)
      rw [map_toEdge_ofEdge] at this
      exact this
    rw [this]
  rw [hG 0, hG 1, hes, eis_swap]
  have key := Geo.Proofs.C17.swap_selfNodes g
    ((selfIntersections ar (!isRings g) ((buildGraph 0 g).edges.map REdge.ofEdge)).map (fun e => e.eis.map (·.coord)))
  rw [← key, hr1]
  rfl

/-- **prepared graph = fresh graph**, for both operand positions -/
theorem preparedGraph_eq_fresh (ar : Arith) (idx : Nat) (h : idx = 0 ∨ idx = 1) (g : Geom) :
    preparedGraph ar idx g = freshGraph ar idx g := by
  rcases h with rfl | rfl
  · rfl
  · simpa [preparedGraph, RGraph.cloneForArg] using swap_freshGraph ar g

/-- **prepared path = plain path** for the model of the implementation: whichever operands are
prepared, `relate` computes the matrix of the plain geometries. -/
theorem relatePreparedWith_eq (ar : Arith) (pa pb : Bool) (a b : Geom) :
    relatePreparedWith ar pa pb a b = relateImplWith ar a b := by
  unfold relatePreparedWith relateImplWith relateGraph
  rw [preparedGraph_eq_fresh ar 0 (Or.inl rfl), preparedGraph_eq_fresh ar 1 (Or.inr rfl)]
  simp

end Geo.Proofs.RELM
