/-
  C02Y, part 5: coordinates of the geometries of the validity domain.

  * `coords_located`: every written coordinate of a geometry of the domain is located in it (interior or boundary);
  * valid line strings, rings, Rects, Triangles have two distinct coordinates (`lineStringSimple_two`, `ringSimple_two`);
  * `locate_collection_inside`: a point is interior to a collection of the domain iff it is interior to a member.
-/
import GeoProofs.Lemmas.C02XPairs
import GeoProofs.Lemmas.C02XAreal

set_option linter.unusedSimpArgs false
set_option linter.unusedVariables false

namespace Geo.Proofs.C02Y
open Geo Geo.Proofs.Kernel Geo.Proofs.Spec Geo.Proofs.C02X

/-! ### two distinct coordinates -/

theorem two_of_segs_dedup {cs : List Pt} (h : 1 ≤ (segs (dedupConsecutive cs)).length) :
    ∃ c1 ∈ cs, ∃ c2 ∈ cs, c1 ≠ c2 := by
  obtain ⟨s, hs⟩ := List.exists_mem_of_length_pos (l := segs (dedupConsecutive cs)) (by omega)
  have hne := Geo.Proofs.C12.dedup_segs_ne cs s hs
  have hm := mem_of_mem_segs hs
  exact ⟨s.1, Geo.Proofs.C12.dedup_mem _ _ hm.1, s.2, Geo.Proofs.C12.dedup_mem _ _ hm.2, hne⟩

theorem lineStringSimple_two {cs : List Pt} (h : lineStringSimple cs = true) :
    ∃ c1 ∈ cs, ∃ c2 ∈ cs, c1 ≠ c2 := by
  unfold lineStringSimple at h
  simp only [Bool.and_eq_true, decide_eq_true_eq] at h
  exact two_of_segs_dedup h.1.1

theorem ringSimple_two {r : List Pt} (h : ringSimple r = true) : ∃ c1 ∈ r, ∃ c2 ∈ r, c1 ≠ c2 := by
  have h3 := (Geo.Proofs.C12.ringSimple_spec h).2.1
  exact two_of_segs_dedup (by omega)

theorem two_length {cs : List Pt} (h : ∃ c1 ∈ cs, ∃ c2 ∈ cs, c1 ≠ c2) : 2 ≤ cs.length := by
  obtain ⟨c1, h1, c2, h2, hne⟩ := h
  match cs, h1, h2 with
  | [], h1, _ => cases h1
  | [x], h1, h2 =>
    simp only [List.mem_singleton] at h1 h2
    exact absurd (h1.trans h2.symm) hne
  | _ :: _ :: _, _, _ => simp

/-- a coordinate of a list with at least two coordinates lies on one of its segments -/
theorem coord_on_segs {cs : List Pt} (h2 : 2 ≤ cs.length) {c : Pt} (hc : c ∈ cs) :
    ∃ s ∈ segs cs, SegMem c s.1 s.2 := by
  obtain ⟨s, hs, h⟩ := Geo.Proofs.C12.mem_segs_end cs c h2 hc
  rcases h with rfl | rfl
  · exact ⟨s, hs, SegMem_left _ _⟩
  · exact ⟨s, hs, SegMem_right _ _⟩

/-! ### every coordinate is located -/

theorem lineString_coord_located {cs : List Pt} (hd : inDomain (.lineString cs) = true) {c : Pt} (hc : c ∈ cs) :
    locate (.lineString cs) c ≠ .outside := by
  rcases lineString_dom_length hd with he | h2
  · rw [he] at hc; cases hc
  · exact (located_lineString cs c).mpr (coord_on_segs h2 hc)

theorem polygon_coord_located {q : Poly} (hd : inDomain (.polygon q) = true) {r : List Pt} (hr : r ∈ q.rings)
    {c : Pt} (hc : c ∈ r) : locate (.polygon q) c ≠ .outside := by
  rcases polygon_dom_cases hd with ⟨he, hi⟩ | hv
  · exfalso
    simp only [Poly.rings, he, hi, List.mem_singleton] at hr
    rw [hr] at hc; cases hc
  · obtain ⟨s, hs, h⟩ := coord_on_segs (rings_ok hv r hr).2 hc
    exact located_on_ring hr hs h

theorem ringPoly_coord_located {r : List Pt} (hok : Geo.Proofs.Loc.RingOK r) {c : Pt} (hc : c ∈ r) :
    locate (.polygon ⟨r, []⟩) c ≠ .outside := by
  obtain ⟨s, hs, h⟩ := coord_on_segs hok.2 hc
  exact located_on_ring (q := ⟨r, []⟩) (by simp [Poly.rings]) hs h

theorem mem_allCoords_partsList : ∀ {gs : List Geom} {c : Pt}, c ∈ allCoords (partsList gs) →
    ∃ g ∈ gs, c ∈ allCoords (parts g)
  | [], c, h => by simp [partsList, allCoords] at h
  | g :: t, c, h => by
      simp only [partsList] at h
      rcases mem_allCoords_append.mp h with h | h
      · exact ⟨g, List.mem_cons_self, h⟩
      · obtain ⟨g', hg', h'⟩ := mem_allCoords_partsList h
        exact ⟨g', List.mem_cons_of_mem _ hg', h'⟩

theorem allCoords_partsList_of_mem : ∀ {gs : List Geom} {g : Geom} {c : Pt}, g ∈ gs → c ∈ allCoords (parts g) →
    c ∈ allCoords (partsList gs)
  | x :: t, g, c, hg, hc => by
      simp only [partsList]
      rcases List.mem_cons.mp hg with e | hg
      · exact mem_allCoords_append.mpr (Or.inl (e ▸ hc))
      · exact mem_allCoords_append.mpr (Or.inr (allCoords_partsList_of_mem hg hc))

mutual
/-- **every written coordinate of a geometry of the validity domain is located in it** -/
theorem coords_located : ∀ (g : Geom), inDomain g = true → ∀ c ∈ allCoords (parts g), locate g c ≠ .outside
  | .point p, _, c, hc => by
      have : c = p := by simpa [allCoords, parts] using hc
      exact (located_point p c).mpr this
  | .multiPoint ps, _, c, hc => by
      have : c ∈ ps := by simpa [allCoords, parts] using hc
      exact (located_multiPoint ps c).mpr this
  | .line a b, _, c, hc => by
      have : c = a ∨ c = b := by simpa [allCoords, parts] using hc
      rw [located_line]
      rcases this with rfl | rfl
      · exact SegMem_left _ _
      · exact SegMem_right _ _
  | .lineString cs, hd, c, hc => by
      have : c ∈ cs := by simpa [allCoords, parts] using hc
      exact lineString_coord_located hd this
  | .multiLineString ls, hd, c, hc => by
      have : ∃ cs ∈ ls, c ∈ cs := by simpa [allCoords, parts] using hc
      obtain ⟨cs, hcs, h⟩ := this
      exact (located_mls ls c).mpr ⟨cs, hcs, lineString_coord_located (mls_member_dom hd cs hcs) h⟩
  | .polygon q, hd, c, hc => by
      have : ∃ r ∈ q.rings, c ∈ r := by simpa [allCoords, parts] using hc
      obtain ⟨r, hr, h⟩ := this
      exact polygon_coord_located hd hr h
  | .multiPolygon ps, hd, c, hc => by
      have : ∃ r, (∃ q ∈ ps, r ∈ q.rings) ∧ c ∈ r := by simpa [allCoords, parts] using hc
      obtain ⟨r, ⟨q, hq, hr⟩, h⟩ := this
      exact (located_multiPolygon ps c).mpr ⟨q, hq, polygon_coord_located (mpg_member_dom hd q hq) hr h⟩
  | .rect mn mx, _, c, hc => by
      have : c ∈ SM.rectToPolygon ⟨mn, mx⟩ := by simpa [allCoords, parts, Poly.rings] using hc
      exact ringPoly_coord_located (rectPoly_ok mn mx _ (by simp [rectPoly, Poly.rings])) this
  | .triangle t0 t1 t2, _, c, hc => by
      have : c ∈ [t0, t1, t2, t0] := by simpa [allCoords, parts, Poly.rings] using hc
      exact ringPoly_coord_located (triPoly_ok t0 t1 t2 _ (by simp [triPoly, Poly.rings])) this
  | .collection gs, hd, c, hc => by
      obtain ⟨hok, hl⟩ := inDomain_collection hd
      have hc' : c ∈ allCoords (partsList gs) := hc
      obtain ⟨g, hg, h⟩ := mem_allCoords_partsList hc'
      exact (located_collection hd c).mpr ⟨g, hg, coords_located_list gs hl g hg c h⟩
theorem coords_located_list : ∀ (gs : List Geom), inDomainList gs = true → ∀ g ∈ gs,
    ∀ c ∈ allCoords (parts g), locate g c ≠ .outside
  | [], _ => fun g hg => by cases hg
  | a :: t, h => by
      simp only [inDomainList, Bool.and_eq_true] at h
      intro g hg
      rcases List.mem_cons.mp hg with e | hg
      · rw [e]; exact coords_located a h.1
      · exact coords_located_list t h.2 g hg
end

/-! ### the interior of a collection -/

theorem apart_same {gs : List Geom} {p : Pt} (hap : gs.Pairwise (ApartAt p)) {g g' : Geom} (hg : g ∈ gs)
    (hg' : g' ∈ gs) (h : locate g p ≠ .outside) (h' : locate g' p ≠ .outside) : locate g p = locate g' p := by
  obtain ⟨i, hi, rfl⟩ := List.getElem_of_mem hg
  obtain ⟨j, hj, rfl⟩ := List.getElem_of_mem hg'
  rw [List.pairwise_iff_getElem] at hap
  rcases Nat.lt_trichotomy i j with hij | hij | hij
  · rcases hap i j hi hj hij with e | e
    · exact absurd e h
    · exact absurd e h'
  · subst hij; rfl
  · rcases hap j i hj hi hij with e | e
    · exact absurd e h'
    · exact absurd e h

theorem locate_collection_inside {gs : List Geom} (hd : inDomain (.collection gs) = true) (p : Pt) :
    locate (.collection gs) p = .inside ↔ ∃ g ∈ gs, locate g p = .inside := by
  obtain ⟨hok, hl⟩ := inDomain_collection hd
  have hap := collection_apart hok hl p
  have hloc : locate (.collection gs) p = locateParts (partsList gs) p := rfl
  rw [hloc]
  rcases partsList_located gs p hap with ⟨h1, h2⟩ | ⟨g, hg, h1, h2⟩
  · rw [h2]
    constructor
    · intro h; cases h
    · rintro ⟨g, hg, h⟩; rw [h1 g hg] at h; cases h
  · rw [h2]
    constructor
    · intro h; exact ⟨g, hg, h⟩
    · rintro ⟨g', hg', h⟩
      rw [apart_same hap hg hg' h1 (by rw [h]; intro e; cases e)]; exact h

end Geo.Proofs.C02Y
