/-
  GeoProofs.Lemmas.C07PSquare — pure rational arithmetic about the unit square `[0,1]²`, used by the
  segment–segment minimum (`C07PSegSeg.lean`):

  * `ray_hits_boundary`: the straight path from a point `(s⋆, t⋆)` outside the closed square to a
    point `(s₀, t₀)` of the square meets the boundary of the square (at parameter `l ∈ [0,1]`);
  * `shear_hits_boundary`: every level line `s − k·t = const` that meets the square meets its boundary.
-/
import Mathlib.Tactic.Linarith
import Mathlib.Tactic.Ring
import Mathlib.Tactic.FieldSimp
import Mathlib.Tactic.Positivity
import Mathlib.Tactic.NormNum

namespace Geo.Proofs.C07

/-- a convex combination of two numbers of `[0,1]` is in `[0,1]` -/
theorem unit_convex {y1 y0 m : Rat} (h1 : 0 ≤ y1 ∧ y1 ≤ 1) (h0 : 0 ≤ y0 ∧ y0 ≤ 1) (hm : 0 ≤ m ∧ m ≤ 1) :
    0 ≤ y1 + m * (y0 - y1) ∧ y1 + m * (y0 - y1) ≤ 1 := by
  obtain ⟨a1, b1⟩ := h1; obtain ⟨a0, b0⟩ := h0; obtain ⟨am, bm⟩ := hm
  have hm' : 0 ≤ 1 - m := by linarith
  constructor
  · nlinarith [mul_nonneg am a0, mul_nonneg hm' a1]
  · nlinarith [mul_nonneg am (sub_nonneg.mpr b0), mul_nonneg hm' (sub_nonneg.mpr b1)]

/-- one coordinate: walking from `y1 ∉ [0,1]` to `y0 ∈ [0,1]` one passes `0` or `1` -/
theorem clip_one {y1 y0 : Rat} (h0 : 0 ≤ y0 ∧ y0 ≤ 1) (h1 : y1 < 0 ∨ 1 < y1) :
    ∃ m : Rat, 0 ≤ m ∧ m ≤ 1 ∧ (y1 + m * (y0 - y1) = 0 ∨ y1 + m * (y0 - y1) = 1) := by
  obtain ⟨a0, b0⟩ := h0
  rcases h1 with h | h
  · have hd : 0 < y0 - y1 := by linarith
    refine ⟨-y1 / (y0 - y1), div_nonneg (by linarith) hd.le, ?_, Or.inl ?_⟩
    · rw [div_le_one hd]; linarith
    · field_simp; ring
  · have hd : 0 < y1 - y0 := by linarith
    refine ⟨(y1 - 1) / (y1 - y0), div_nonneg (by linarith) hd.le, ?_, Or.inr ?_⟩
    · rw [div_le_one hd]; linarith
    · field_simp; ring

/-- The straight path from `(s⋆, t⋆)` outside the closed unit square to `(s₀, t₀)` inside it meets
the boundary of the square. -/
theorem ray_hits_boundary {ss ts s0 t0 : Rat} (hs0 : 0 ≤ s0 ∧ s0 ≤ 1) (ht0 : 0 ≤ t0 ∧ t0 ≤ 1)
    (hout : ¬ ((0 ≤ ss ∧ ss ≤ 1) ∧ (0 ≤ ts ∧ ts ≤ 1))) :
    ∃ l : Rat, 0 ≤ l ∧ l ≤ 1 ∧
      (0 ≤ ss + l * (s0 - ss) ∧ ss + l * (s0 - ss) ≤ 1) ∧
      (0 ≤ ts + l * (t0 - ts) ∧ ts + l * (t0 - ts) ≤ 1) ∧
      (ss + l * (s0 - ss) = 0 ∨ ss + l * (s0 - ss) = 1 ∨
       ts + l * (t0 - ts) = 0 ∨ ts + l * (t0 - ts) = 1) := by
  -- two-step clipping: first the coordinate that is outside, then (if needed) the other one
  have two : ∀ {p q p0 q0 : Rat}, (0 ≤ p0 ∧ p0 ≤ 1) → (0 ≤ q0 ∧ q0 ≤ 1) → (p < 0 ∨ 1 < p) →
      ∃ l : Rat, 0 ≤ l ∧ l ≤ 1 ∧
        (0 ≤ p + l * (p0 - p) ∧ p + l * (p0 - p) ≤ 1) ∧
        (0 ≤ q + l * (q0 - q) ∧ q + l * (q0 - q) ≤ 1) ∧
        ((p + l * (p0 - p) = 0 ∨ p + l * (p0 - p) = 1) ∨
         (q + l * (q0 - q) = 0 ∨ q + l * (q0 - q) = 1)) := by
    intro p q p0 q0 hp0 hq0 hp
    obtain ⟨m1, m1a, m1b, hm1⟩ := clip_one hp0 hp
    have hp1 : 0 ≤ p + m1 * (p0 - p) ∧ p + m1 * (p0 - p) ≤ 1 := by
      rcases hm1 with h | h <;> rw [h] <;> norm_num
    by_cases hq1 : 0 ≤ q + m1 * (q0 - q) ∧ q + m1 * (q0 - q) ≤ 1
    · exact ⟨m1, m1a, m1b, hp1, hq1, Or.inl hm1⟩
    · have hq1' : q + m1 * (q0 - q) < 0 ∨ 1 < q + m1 * (q0 - q) := by
        by_contra hc
        push Not at hc
        exact hq1 ⟨hc.1, hc.2⟩
      obtain ⟨m2, m2a, m2b, hm2⟩ := clip_one hq0 hq1'
      have hl : 0 ≤ m1 + m2 * (1 - m1) ∧ m1 + m2 * (1 - m1) ≤ 1 := by
        have := unit_convex ⟨m1a, m1b⟩ ⟨zero_le_one, le_refl (1 : Rat)⟩ ⟨m2a, m2b⟩
        exact this
      have ep : p + (m1 + m2 * (1 - m1)) * (p0 - p) =
          (p + m1 * (p0 - p)) + m2 * (p0 - (p + m1 * (p0 - p))) := by ring
      have eq : q + (m1 + m2 * (1 - m1)) * (q0 - q) =
          (q + m1 * (q0 - q)) + m2 * (q0 - (q + m1 * (q0 - q))) := by ring
      refine ⟨m1 + m2 * (1 - m1), hl.1, hl.2, ?_, ?_, Or.inr ?_⟩
      · rw [ep]; exact unit_convex hp1 hp0 ⟨m2a, m2b⟩
      · rw [eq]; rcases hm2 with h | h <;> rw [h] <;> norm_num
      · rw [eq]; exact hm2
  by_cases hs : 0 ≤ ss ∧ ss ≤ 1
  · have ht : ts < 0 ∨ 1 < ts := by
      by_contra hc
      push Not at hc
      exact hout ⟨hs, hc.1, hc.2⟩
    obtain ⟨l, la, lb, h1, h2, h3⟩ := two ht0 hs0 ht
    refine ⟨l, la, lb, h2, h1, ?_⟩
    rcases h3 with (h | h) | (h | h)
    · exact Or.inr (Or.inr (Or.inl h))
    · exact Or.inr (Or.inr (Or.inr h))
    · exact Or.inl h
    · exact Or.inr (Or.inl h)
  · have hs' : ss < 0 ∨ 1 < ss := by
      by_contra hc
      push Not at hc
      exact hs ⟨hc.1, hc.2⟩
    obtain ⟨l, la, lb, h1, h2, h3⟩ := two hs0 ht0 hs'
    refine ⟨l, la, lb, h1, h2, ?_⟩
    rcases h3 with (h | h) | (h | h)
    · exact Or.inl h
    · exact Or.inr (Or.inl h)
    · exact Or.inr (Or.inr (Or.inl h))
    · exact Or.inr (Or.inr (Or.inr h))

example : ∃ l : Rat, 0 ≤ l ∧ l ≤ 1 ∧
      (0 ≤ (-1) + l * (1/2 - (-1)) ∧ (-1) + l * (1/2 - (-1)) ≤ 1) ∧
      (0 ≤ 3 + l * (1/2 - 3) ∧ 3 + l * (1/2 - 3) ≤ 1) ∧
      ((-1) + l * (1/2 - (-1)) = 0 ∨ (-1) + l * (1/2 - (-1)) = 1 ∨
       3 + l * (1/2 - 3) = 0 ∨ 3 + l * (1/2 - 3) = 1) :=
  ray_hits_boundary (by norm_num) (by norm_num) (by norm_num)

/-- Every level line `s − k·t = const` through a point of the closed unit square meets the boundary
of the square. -/
theorem shear_hits_boundary (k : Rat) {s0 t0 : Rat} (hs0 : 0 ≤ s0 ∧ s0 ≤ 1) (ht0 : 0 ≤ t0 ∧ t0 ≤ 1) :
    ∃ s t : Rat, (0 ≤ s ∧ s ≤ 1) ∧ (0 ≤ t ∧ t ≤ 1) ∧ (s = 0 ∨ s = 1 ∨ t = 0 ∨ t = 1) ∧
      s - k * t = s0 - k * t0 := by
  obtain ⟨sa, sb⟩ := hs0; obtain ⟨ta, tb⟩ := ht0
  rcases lt_trichotomy k 0 with hk | hk | hk
  · -- k < 0: z0 = s0 − k t0 ≥ s0
    have hkt : 0 ≤ -k * t0 := mul_nonneg (by linarith) ta
    by_cases hz : s0 - k * t0 ≤ 1
    · exact ⟨s0 - k * t0, 0, ⟨by linarith, hz⟩, ⟨le_refl _, zero_le_one⟩, Or.inr (Or.inr (Or.inl rfl)), by ring⟩
    · push Not at hz
      have hk' : 0 < -k := by linarith
      have hkne : k ≠ 0 := ne_of_lt hk
      refine ⟨1, (s0 - k * t0 - 1) / (-k), ⟨zero_le_one, le_refl _⟩,
        ⟨div_nonneg (by linarith) hk'.le, ?_⟩, Or.inr (Or.inl rfl), ?_⟩
      · rw [div_le_one hk']
        nlinarith [mul_nonneg hk'.le (sub_nonneg.mpr tb)]
      · field_simp; ring
  · subst hk
    exact ⟨s0, 0, ⟨sa, sb⟩, ⟨le_refl _, zero_le_one⟩, Or.inr (Or.inr (Or.inl rfl)), by ring⟩
  · have hkt : 0 ≤ k * t0 := mul_nonneg hk.le ta
    by_cases hz : 0 ≤ s0 - k * t0
    · exact ⟨s0 - k * t0, 0, ⟨hz, by linarith⟩, ⟨le_refl _, zero_le_one⟩, Or.inr (Or.inr (Or.inl rfl)), by ring⟩
    · push Not at hz
      have hkne : k ≠ 0 := ne_of_gt hk
      refine ⟨0, (k * t0 - s0) / k, ⟨le_refl _, zero_le_one⟩,
        ⟨div_nonneg (by linarith) hk.le, ?_⟩, Or.inl rfl, ?_⟩
      · rw [div_le_one hk]
        nlinarith [mul_nonneg hk.le (sub_nonneg.mpr tb)]
      · field_simp; ring

example : ∃ s t : Rat, (0 ≤ s ∧ s ≤ 1) ∧ (0 ≤ t ∧ t ≤ 1) ∧ (s = 0 ∨ s = 1 ∨ t = 0 ∨ t = 1) ∧
      s - 2 * t = 1/3 - 2 * (1/2) :=
  shear_hits_boundary 2 (by norm_num) (by norm_num)

end Geo.Proofs.C07
