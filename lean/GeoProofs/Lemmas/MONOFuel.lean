/-
  MONO (C10, builder of the monotone pieces): the termination measure of the sweep.

  `inside V l` counts the coordinates of a fixed list `V` that lie strictly between the end points of the line `l`
  (lexicographically); `phi` sums it over the segment store. `split_at` cuts a segment at a coordinate of `V` strictly
  inside it, so `phi` drops by at least one per split while three events are queued:
  `mu = #events + 3·phi` never grows, and drops with every event popped.
-/
import GeoProofs.Lemmas.MONOSweepC
import GeoProofs.Lemmas.MONOInit

namespace Geo.Proofs.MONO
open Geo Geo.Mono Geo.MonoBuild Geo.Proofs.C10

def inside (V : List Pt) (l : LoP) : Nat := V.countP (fun v => lexLt l.left v && lexLt v l.right)

def phi (V : List Pt) (st : St) : Nat := (st.segs.map (fun s => inside V s.line)).sum

def mu (V : List Pt) (st : St) : Nat := st.events.length + 3 * phi V st

theorem inside_le (V : List Pt) (l : LoP) : inside V l ≤ V.length := List.countP_le_length

theorem inside_split_count {a p b : Pt} (h1 : lexLt a p = true) (h2 : lexLt p b = true) : ∀ (V : List Pt),
    inside V (.line a p) + inside V (.line p b) + V.count p ≤ inside V (.line a b)
  | [] => by simp [inside]
  | v :: V => by
    have ih := inside_split_count h1 h2 V
    unfold inside at ih ⊢
    simp only [LoP.left, LoP.right] at ih ⊢
    rw [List.countP_cons, List.countP_cons, List.countP_cons, List.count_cons]
    have key : (if (lexLt a v && lexLt v p) = true then 1 else 0) + (if (lexLt p v && lexLt v b) = true then 1 else 0)
        + (if (v == p) = true then 1 else 0) ≤ (if (lexLt a v && lexLt v b) = true then 1 else 0) := by
      by_cases e : v = p
      · subst e
        simp [lexLt_irrefl, h1, h2]
      · have e' : (v == p) = false := by simpa using e
        by_cases c1 : (lexLt a v && lexLt v p) = true
        · simp only [Bool.and_eq_true] at c1
          have : lexLt v b = true := lexLt_trans c1.2 h2
          have n2 : lexLt p v = false := lexLt_asymm c1.2
          simp [c1.1, c1.2, this, n2, e']
        · by_cases c2 : (lexLt p v && lexLt v b) = true
          · simp only [Bool.and_eq_true] at c2
            have : lexLt a v = true := lexLt_trans h1 c2.1
            have n2 : lexLt v p = false := lexLt_asymm c2.1
            simp [c2.1, c2.2, this, n2, e']
          · simp [c1, c2, e']
    omega

theorem inside_split {a p b : Pt} {V : List Pt} (h1 : lexLt a p = true) (h2 : lexLt p b = true) (hp : p ∈ V) :
    inside V (.line a p) + inside V (.line p b) + 1 ≤ inside V (.line a b) := by
  have := inside_split_count h1 h2 V
  have : 0 < V.count p := List.count_pos_iff.2 hp
  omega

theorem sum_map_set {α} (f : α → Nat) : ∀ (l : List α) (i : Nat) (a x : α), l[i]? = some x →
    ((l.set i a).map f).sum + f x = (l.map f).sum + f a
  | [], i, a, x, h => by simp at h
  | y :: t, 0, a, x, h => by
    simp only [List.getElem?_cons_zero, Option.some.injEq] at h
    subst h
    simp only [List.set_cons_zero, List.map_cons, List.sum_cons]
    omega
  | y :: t, i + 1, a, x, h => by
    simp only [List.getElem?_cons_succ] at h
    have := sum_map_set f t i a x h
    simp only [List.set_cons_succ, List.map_cons, List.sum_cons]
    omega

/-- the lines of the store, as a list -/
def linesOf (st : St) : List LoP := st.segs.map (·.line)

theorem phi_eq (V : List Pt) (st : St) : phi V st = ((linesOf st).map (inside V)).sum := by
  unfold phi linesOf; rw [List.map_map]; rfl

theorem SameLines.linesOf {st st' : St} (h : SameLines st st') : linesOf st' = linesOf st := by
  unfold MONO.linesOf
  apply List.ext_getElem?
  intro i
  simp only [List.getElem?_map]
  cases hs : st.segs[i]? with
  | none =>
    have : st.segs.length ≤ i := List.getElem?_eq_none_iff.1 hs
    have : st'.segs[i]? = none := List.getElem?_eq_none_iff.2 (by rw [h.1]; exact this)
    rw [this]
  | some s =>
    obtain ⟨s', e, l⟩ := h.2 i s hs
    rw [e]; simp [l]

theorem SameLines.phi {st st' : St} (V : List Pt) (h : SameLines st st') : phi V st' = phi V st := by
  rw [phi_eq, phi_eq, h.linesOf]

theorem mu_same {st st' : St} (V : List Pt) (h : SameLines st st') (he : st'.events = st.events) :
    mu V st' = mu V st := by
  unfold mu; rw [h.phi V, he]

/-- `split_at` at a coordinate of `V` strictly inside a proper line: `phi` drops -/
theorem splitAt_phi {V : List Pt} {st st' : St} {i nw : Nat} {pt : Pt} {a b : Pt}
    (h : st.splitAt i pt = some (st', nw)) (hl : st.lineOf i = some (.line a b))
    (h1 : lexLt a pt = true) (h2 : lexLt pt b = true) (hp : pt ∈ V) :
    phi V st' + 1 ≤ phi V st ∧ st'.events = st.events := by
  obtain ⟨s, hs, _, hst⟩ := splitAt_spec h
  obtain ⟨s0, hs0, hl0⟩ := lineOf_seg hl
  rw [hs] at hs0; cases hs0
  refine ⟨?_, by rw [hst]⟩
  rw [hst]
  unfold phi
  simp only [List.map_append, List.map_cons, List.map_nil, List.sum_append, List.sum_cons, List.sum_nil]
  have e1 := sum_map_set (fun s => inside V s.line) st.segs i { s with line := LoP.from s.line.left pt } s hs
  simp only at e1
  rw [hl0] at e1 ⊢
  simp only [LoP.left, LoP.right] at e1 ⊢
  rw [from_of_lt h1] at e1 ⊢
  rw [from_of_lt h2]
  have := inside_split h1 h2 hp
  omega

end Geo.Proofs.MONO
