/-
  C09X helper layer 1 (RDP): from the local guarantee `Within` (every dropped vertex is within the tolerance
  of the retained segment that replaces it) to the global one: every input vertex is within the tolerance
  of the output polyline — it is kept, or a segment between two consecutive output vertices is that close.
-/
import GeoProofs.Lemmas.C09Rdp
import GeoModel.Traverse
import Mathlib.Tactic.Linarith
import Mathlib.Tactic.Ring

namespace Geo.Proofs.C09
open Geo Geo.Simp

theorem within_global {ok : Pt → Pt → Pt → Prop} {xs out : List Pt} (h : Within ok xs out) :
    ∀ r ∈ xs, r ∈ out ∨ ∃ s ∈ windows2 out, ok r s.1 s.2 := by
  induction h with
  | nil => intro r hr; cases hr
  | single p => intro r hr; exact Or.inl hr
  | step p q mid rest out hmid _ ih =>
    intro r hr
    rcases List.mem_cons.1 hr with rfl | hr
    · exact Or.inl List.mem_cons_self
    · rcases List.mem_append.1 hr with hm | hq
      · exact Or.inr ⟨(p, q), by simp [windows2], hmid r hm⟩
      · rcases ih r hq with h1 | ⟨s, hs, hok⟩
        · exact Or.inl (List.mem_cons_of_mem _ h1)
        · exact Or.inr ⟨s, by simp only [windows2]; exact List.mem_cons_of_mem _ hs, hok⟩

theorem segDist2_left (p q : Pt) : segDist2 p p q = 0 := by
  unfold segDist2
  by_cases h : p = q
  · simp [h, dist2]
  · simp only [if_neg h]
    have : (p.x - p.x) * (q.x - p.x) + (p.y - p.y) * (q.y - p.y) ≤ 0 := by
      have : (p.x - p.x) * (q.x - p.x) + (p.y - p.y) * (q.y - p.y) = 0 := by ring
      linarith
    simp only [if_pos this, dist2]
    ring

theorem segDist2_right (p q : Pt) : segDist2 q p q = 0 := by
  unfold segDist2
  by_cases h : p = q
  · simp [h, dist2]
  · simp only [if_neg h]
    have hd : 0 < (q.x - p.x) * (q.x - p.x) + (q.y - p.y) * (q.y - p.y) := by
      by_contra hn
      have h0 : (q.x - p.x) * (q.x - p.x) + (q.y - p.y) * (q.y - p.y) ≤ 0 := not_lt.1 hn
      have hx : q.x - p.x = 0 := by nlinarith [mul_self_nonneg (q.x - p.x), mul_self_nonneg (q.y - p.y)]
      have hy : q.y - p.y = 0 := by nlinarith [mul_self_nonneg (q.x - p.x), mul_self_nonneg (q.y - p.y)]
      apply h
      cases p; cases q
      simp only [Pt.mk.injEq]
      simp only at hx hy
      exact ⟨by linarith, by linarith⟩
    have n1 : ¬ (q.x - p.x) * (q.x - p.x) + (q.y - p.y) * (q.y - p.y) ≤ 0 := not_le.2 hd
    simp only [if_neg n1, le_refl, if_true, dist2]
    ring

/-- a vertex of a polyline with at least two vertices is at distance 0 from one of its segments -/
theorem mem_windows2_dist0 : ∀ (out : List Pt), 2 ≤ out.length → ∀ r ∈ out,
    ∃ s ∈ windows2 out, segDist2 r s.1 s.2 = 0
  | [], h, _, _ => by simp at h
  | [_], h, _, _ => by simp at h
  | [a, b], _, r, hr => by
    simp only [List.mem_cons, List.not_mem_nil, or_false] at hr
    rcases hr with rfl | rfl
    · exact ⟨(r, b), by simp [windows2], segDist2_left r b⟩
    · exact ⟨(a, r), by simp [windows2], segDist2_right a r⟩
  | a :: b :: c :: t, _, r, hr => by
    rcases List.mem_cons.1 hr with rfl | hr
    · exact ⟨(r, b), by simp [windows2], segDist2_left r b⟩
    · obtain ⟨s, hs, h0⟩ := mem_windows2_dist0 (b :: c :: t) (by simp) r hr
      exact ⟨s, by simp only [windows2] at hs ⊢; exact List.mem_cons_of_mem _ hs, h0⟩

end Geo.Proofs.C09
