/-
  MONO3 (C10): `AInv` through `handle_event` / its neighbour rounds / its `while` loop and `next_point`.
-/
import GeoProofs.Lemmas.MONO3Keep
import GeoProofs.Lemmas.MONO2Next

namespace Geo.Proofs.MONO3
open Geo Geo.Mono Geo.MonoBuild Geo.Proofs.C10 Geo.Proofs.MONO Geo.Proofs.MONO2

variable {pt : Pt} {st0 : St}

/-- the event just popped is put aside, when it is not the `LineLeft` event of a segment at its left end -/
theorem AInv.dropEv {P : Nat → Prop} {st : St} {ev : Ev} {evs : Heap}
    (h : AInv pt st0 P { st with events := ev :: evs })
    (hne : ∀ (j : Nat) (s : Seg), st.segs[j]? = some s → ev ≠ ⟨s.line.left, .lineLeft, j⟩) :
    AInv pt st0 P { st with events := evs } := by
  refine ⟨h.keep, h.new, ?_, h.outs, h.len⟩
  intro j s hj
  rcases h.lefts j s hj with g | g | g | g
  · simp only [List.mem_cons] at g
    rcases g with g | g
    · exact absurd g.symm (hne j s hj)
    · exact Or.inl g
  · exact Or.inr (Or.inl g)
  · exact Or.inr (Or.inr (Or.inl g))
  · exact Or.inr (Or.inr (Or.inr g))

/-- the `LineLeft` event just popped: its segment is pending -/
theorem AInv.pend {P : Nat → Prop} {st : St} {ev : Ev} {evs : Heap}
    (h : AInv pt st0 P { st with events := ev :: evs }) :
    AInv pt st0 (fun j => P j ∨ j = ev.seg) { st with events := evs } := by
  refine ⟨h.keep, h.new, ?_, h.outs, h.len⟩
  intro j s hj
  rcases h.lefts j s hj with g | g | g | g
  · simp only [List.mem_cons] at g
    rcases g with g | g
    · exact Or.inr (Or.inr (Or.inr (Or.inr (by rw [← g]))))
    · exact Or.inl g
  · exact Or.inr (Or.inl g)
  · exact Or.inr (Or.inr (Or.inl g))
  · exact Or.inr (Or.inr (Or.inr (Or.inl g)))

/-- the callback at a `LineLeft` event: the segment is reported as starting, its `help` / `helper_chain` are cleared -/
theorem onEventLeft_ainv {P : Nat → Prop} {st : St} {seg : Nat} {s : Seg}
    (h : AInv pt st0 (fun j => P j ∨ j = seg) st) (hs : st.segs[seg]? = some s) (hl : s.line.left = pt) :
    AInv pt st0 P { st with
      segs := st.segs.set seg { s with info := { s.info with help := none, helperChain := none } },
      outgoing := st.outgoing ++ [seg] } := by
  have hsl : seg < st.segs.length := (List.getElem?_eq_some_iff.1 hs).1
  refine ⟨?_, ?_, ?_, ?_, h.len⟩
  · intro j s0 h0
    obtain ⟨sj, hj, e1, e2, e3⟩ := h.keep j s0 h0
    simp only
    rw [List.getElem?_set]
    by_cases e : seg = j
    · subst e
      rw [hs] at hj; cases hj
      simp only [hsl, if_true]
      refine ⟨_, rfl, e1, e2, ?_⟩
      intro hlt
      rw [← e1, hl, lexLt_irrefl] at hlt; cases hlt
    · simp only [e, if_false]
      exact ⟨sj, hj, e1, e2, e3⟩
  · intro j s' hj hge
    simp only at hj
    rw [List.getElem?_set] at hj
    by_cases e : seg = j
    · subst e
      simp only [hsl, if_true, Option.some.injEq] at hj
      rw [← hj]; exact h.new seg s hs hge
    · simp only [e, if_false] at hj
      exact h.new j s' hj hge
  · intro j s' hj
    simp only at hj ⊢
    rw [List.getElem?_set] at hj
    by_cases e : seg = j
    · subst e
      exact Or.inr (Or.inr (Or.inl (by simp)))
    · simp only [e, if_false] at hj
      rcases h.lefts j s' hj with g | g | g | g | g
      · exact Or.inl g
      · exact Or.inr (Or.inl g)
      · exact Or.inr (Or.inr (Or.inl (by simp [g])))
      · exact Or.inr (Or.inr (Or.inr g))
      · exact absurd g.symm e
  · intro o hm s' hj
    simp only at hj hm
    rw [List.getElem?_set] at hj
    by_cases e : seg = o
    · subst e
      simp only [hsl, if_true, Option.some.injEq] at hj
      rw [← hj]; exact ⟨rfl, rfl⟩
    · simp only [e, if_false] at hj
      simp only [List.mem_append, List.mem_singleton] at hm
      rcases hm with hm | hm
      · exact h.outs o hm s' hj
      · exact absurd hm.symm e

theorem handle_ainv (st0 : St) : ∀ (fuel : Nat),
    (∀ (P : Nat → Prop) (st st' : St) (ev : Ev), SInv st → EvOk st ev → Lo ev.pt st → IO ev.pt st →
        AInv ev.pt st0 P { st with events := ev :: st.events } → handleEvent fuel st ev = some st' →
        AInv ev.pt st0 P st') ∧
    (∀ (P : Nat → Prop) (st st' : St) (ev : Ev) (b : Bool) (idx idx' : Nat), SInv st → EvOk st ev →
        ev.ty = .lineLeft → Lo ev.pt st → IO ev.pt st → AInv ev.pt st0 P st →
        neighbour fuel st ev b idx = some (st', idx') → AInv ev.pt st0 P st') ∧
    (∀ (P : Nat → Prop) (st st' : St) (ev : Ev) (b : Bool) (idx idx' : Nat), SInv st → EvOk st ev → Lo ev.pt st →
        IO ev.pt st → AInv ev.pt st0 P st → drain fuel st ev b idx = some (st', idx') → AInv ev.pt st0 P st')
  | 0 => by
    refine ⟨?_, ?_, ?_⟩ <;> intros <;> rename_i h <;> simp [handleEvent, neighbour, drain] at h
  | fuel + 1 => by
    obtain ⟨ihH, ihN, ihD⟩ := handle_ainv st0 fuel
    refine ⟨?_, ?_, ?_⟩
    · intro P st st' ev hi hev hlo hio hn h
      unfold handleEvent at h
      split at h
      · cases h
      · rename_i ln hln
        obtain ⟨s0, hs0, hc⟩ := hev
        obtain ⟨s2, hs2, hl2⟩ := lineOf_seg hln
        rw [hs0] at hs2; cases hs2
        split at h
        · rename_i hsp
          cases h
          refine hn.dropEv ?_
          intro j s hj e
          have e1 : ev.seg = j := by rw [e]
          have e2 : ev.pt = s.line.left := by rw [e]
          subst e1
          rw [hs0] at hj; cases hj
          rw [← hl2, e2] at hsp
          simp at hsp
        · split at h
          · rename_i hty
            have hn0 := hn.pend
            osplit h
            osplit h
            rename_i st1 idx1 hn1
            obtain ⟨i1, x1, l1⟩ := (handle_sinv fuel).2.1 _ _ _ _ _ _ hi ⟨s0, hs0, hc⟩ hty hlo hn1
            have o1 := (handle_io fuel).2.1 _ _ _ _ _ _ hi ⟨s0, hs0, hc⟩ hty hlo hio hn1
            have n1 := ihN _ _ _ _ _ _ _ hi ⟨s0, hs0, hc⟩ hty hlo hio hn0 hn1
            osplit h
            rename_i st2 idx2 hn2
            obtain ⟨i2, x2, l2⟩ := (handle_sinv fuel).2.1 _ _ _ _ _ _ i1 (EvOk.ext ⟨s0, hs0, hc⟩ x1) hty l1 hn2
            have n2 := ihN _ _ _ _ _ _ _ i1 (EvOk.ext ⟨s0, hs0, hc⟩ x1) hty l1 o1 n1 hn2
            osplit h
            rename_i act hact
            obtain ⟨s3, hs3, hc3⟩ := EvOk.ext ⟨s0, hs0, hc⟩ (x1.trans x2)
            unfold St.onEvent at h
            rw [hty] at h
            simp only at h
            osplit h
            rename_i s4 hs4
            rw [hs3] at hs4; cases hs4
            cases h
            have hl3 : s3.line.left = ev.pt := by
              rcases hc3 with ⟨_, e⟩ | ⟨e, _⟩
              · exact e.symm
              · rw [hty] at e; cases e
            exact (onEventLeft_ainv n2 hs3 hl3).congr rfl (fun _ he => he) rfl rfl
          · rename_i hty
            osplit h
            rename_i idx hidx
            have hn0 : AInv ev.pt st0 P st := by
              refine hn.dropEv ?_
              intro j s hj e
              rw [e] at hty; cases hty
            unfold St.onEvent at h
            rw [hty] at h
            simp only at h
            osplit h
            obtain ⟨_, e2⟩ := modifyChain_lists h
            obtain ⟨g1, g2, _⟩ := modifyChain_same h
            obtain ⟨c, c', hcc, _, hst⟩ := modifyChain_spec h
            refine hn0.congr g1 (fun e he => by rw [g2]; exact he) e2 ?_
            rw [hst]; simp
          · unfold St.onEvent at h
            split at h
            · rename_i hty _ e; exact absurd e hty
            · rename_i hty _ _ e; exact absurd e hty
            · cases h
    · intro P st st' ev b idx idx' hi hev hty hlo hio hn h
      unfold neighbour at h
      simp only at h
      split at h
      · cases h; exact hn
      · osplit h
        split at h
        · rename_i la lb hla hlb
          obtain ⟨s, hs, hc⟩ := hev
          obtain ⟨sb, hsb, hsbl⟩ := lineOf_seg hlb
          rw [hs] at hsb; cases hsb
          have hpt : lb.left = ev.pt := by
            rcases hc with ⟨_, e⟩ | ⟨e, _⟩
            · rw [← hsbl]; exact e.symm
            · rw [hty] at e; cases e
          osplit h
          rename_i st1 hs1
          obtain ⟨i1, x1, l1⟩ := applySplit_sinv hi hla hlb (by rw [hpt]; exact hlo) hs1
          have o1 := applySplit_io hi (by rw [hpt]; exact hio) hla hlb (by rw [hpt]; exact hlo) hs1
          have n1 := applySplit_ainv (st0 := st0) (P := P) hi (by rw [hpt]; exact hio) (by rw [hpt]; exact hn) hla hlb hs1
          rw [hpt] at l1 o1 n1
          exact ihD _ _ _ _ _ _ _ i1 (EvOk.ext ⟨s, hs, hc⟩ x1) l1 o1 n1 h
        · cases h
    · intro P st st' ev b idx idx' hi hev hlo hio hn h
      unfold drain at h
      osplit h
      rename_i top htop
      split at h
      · rename_i hlt
        osplit h
        rename_i e evs hpop
        obtain ⟨i0, ok0, lo0, hd0⟩ := popped_sinv hi hpop
        rw [htop] at hd0; cases hd0
        have hle : lexLt ev.pt top.pt = false := pt_le_of_ev_le (le_of_lt ((ev_lt_iff _ _).2 hlt))
        have hge : lexLt top.pt ev.pt = false := hlo top (List.mem_of_mem_head? htop)
        have hpt : top.pt = ev.pt := lex_antisymm hge hle
        osplit h
        rename_i st1 hh
        obtain ⟨i1, x1, l1⟩ := (handle_sinv fuel).1 { st with events := evs } st1 top i0 (ok0.congr rfl) lo0 hh
        have o1 := (handle_io fuel).1 { st with events := evs } st1 top i0 (ok0.congr rfl) lo0
          (by rw [hpt]; exact ⟨hio.inc, hio.out⟩) hh
        have n1 := ihH P { st with events := evs } st1 top i0 (ok0.congr rfl) lo0
          (by rw [hpt]; exact ⟨hio.inc, hio.out⟩)
          (by rw [hpt]; exact hn.congr rfl (fun x hx => (heapPop_perm hpop).mem_iff.1 hx) rfl rfl) hh
        rw [hpt] at l1 o1 n1
        have x1' : Ext st st1 := fun i s hs => x1 i s hs
        split at h
        · exact ihD _ _ _ _ _ _ _ i1 (hev.ext x1') l1 o1 n1 h
        · osplit h
          exact ihD _ _ _ _ _ _ _ i1 (hev.ext x1') l1 o1 n1 h
      · cases h; exact hn

end Geo.Proofs.MONO3
