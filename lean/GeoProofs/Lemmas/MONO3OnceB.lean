/-
  MONO3 (C10): `NInv` through `handle_event` / its neighbour rounds / its `while` loop, `next_point` and
  `process_next_pt`; consequence: the segments that `next_point` reports as ending are pairwise different.
-/
import GeoProofs.Lemmas.MONO3Once

namespace Geo.Proofs.MONO3
open Geo Geo.Mono Geo.MonoBuild Geo.Proofs.C10 Geo.Proofs.MONO Geo.Proofs.MONO2

theorem handle_ninv : ∀ (fuel : Nat),
    (∀ (st st' : St) (ev : Ev), SInv st → EvOk st ev → Lo ev.pt st → IO ev.pt st →
        NInv { st with events := ev :: st.events } → handleEvent fuel st ev = some st' → NInv st') ∧
    (∀ (st st' : St) (ev : Ev) (b : Bool) (idx idx' : Nat), SInv st → EvOk st ev → ev.ty = .lineLeft → Lo ev.pt st →
        IO ev.pt st → NInv st → neighbour fuel st ev b idx = some (st', idx') → NInv st') ∧
    (∀ (st st' : St) (ev : Ev) (b : Bool) (idx idx' : Nat), SInv st → EvOk st ev → Lo ev.pt st → IO ev.pt st →
        NInv st → drain fuel st ev b idx = some (st', idx') → NInv st')
  | 0 => by
    refine ⟨?_, ?_, ?_⟩ <;> intros <;> rename_i h <;> simp [handleEvent, neighbour, drain] at h
  | fuel + 1 => by
    obtain ⟨ihH, ihN, ihD⟩ := handle_ninv fuel
    refine ⟨?_, ?_, ?_⟩
    · intro st st' ev hi hev hlo hio hn h
      have hn0 : NInv st := hn.drop
      unfold handleEvent at h
      split at h
      · cases h
      · rename_i ln hln
        split at h
        · cases h; exact hn0
        · rename_i hsp
          have hsp' : (ev.pt != ln.left && ev.pt != ln.right) = false := by simpa using hsp
          split at h
          · rename_i hty
            osplit h
            osplit h
            rename_i st1 idx1 hn1
            obtain ⟨i1, x1, l1⟩ := (handle_sinv fuel).2.1 _ _ _ _ _ _ hi hev hty hlo hn1
            have o1 := (handle_io fuel).2.1 _ _ _ _ _ _ hi hev hty hlo hio hn1
            have n1 := ihN _ _ _ _ _ _ hi hev hty hlo hio hn0 hn1
            osplit h
            rename_i st2 idx2 hn2
            have n2 := ihN _ _ _ _ _ _ i1 (hev.ext x1) hty l1 o1 n1 hn2
            osplit h
            rename_i act hact
            obtain ⟨sl, he, _⟩ := onEvent_same h
            unfold St.onEvent at h
            rw [hty] at h
            simp only at h
            osplit h
            cases h
            exact (n2.congr (st' := { st2 with active := act }) rfl (List.Perm.refl _) rfl).same sl he rfl
          · rename_i hty
            osplit h
            rename_i idx hidx
            obtain ⟨sl, he, _⟩ := onEvent_same h
            unfold St.onEvent at h
            rw [hty] at h
            simp only at h
            osplit h
            rename_i s hs
            obtain ⟨e1, _⟩ := modifyChain_lists h
            obtain ⟨g1, g2, _⟩ := modifyChain_same h
            -- the event is at the right end of its segment
            obtain ⟨s0, hs0, hc⟩ := hev
            rw [hs0] at hs; cases hs
            obtain ⟨s2, hs2, hl2⟩ := lineOf_seg hln
            rw [hs0] at hs2; cases hs2
            have hpt : ev.pt = s.line.right := by
              rcases hc with ⟨e, _⟩ | ⟨_, hlt⟩
              · rw [hty] at e; cases e
              · have hne : ev.pt ≠ s.line.left := by
                  intro e; rw [e] at hlt; rw [lexLt_irrefl] at hlt; cases hlt
                rw [← hl2] at hsp'
                simp only [Bool.and_eq_false_iff, bne_eq_false_iff_eq] at hsp'
                rcases hsp' with e | e
                · exact absurd e hne
                · exact e
            have hev' : ev = ⟨s.line.right, .lineRight, ev.seg⟩ := by
              cases ev; simp only [Ev.mk.injEq] at *; exact ⟨hpt, hty, trivial⟩
            have hnot : ev.seg ∉ st.incoming := by
              intro hm
              have := hn.fresh ev.seg hm s hs0
              rw [← hev'] at this
              exact this (List.mem_cons_self ..)
            refine ⟨?_, ?_, ?_, ?_⟩
            · rw [g2]; exact hn0.nd
            · intro e hm hty' s' hsg
              rw [g2] at hm; rw [g1] at hsg
              exact hn0.ge e hm hty' s' hsg
            · rw [e1]
              simp only
              exact List.nodup_append.2 ⟨hn0.inc, by simp, by
                intro a ha b hb; simp only [List.mem_singleton] at hb; subst hb
                intro e; exact hnot (e ▸ ha)⟩
            · intro j hm s' hsg hmem
              rw [e1] at hm; rw [g1] at hsg; rw [g2] at hmem
              simp only [List.mem_append, List.mem_singleton] at hm
              rcases hm with hm | hm
              · exact hn0.fresh j hm s' hsg hmem
              · subst hm
                simp only at hsg
                rw [hs0] at hsg; cases hsg
                rw [← hev'] at hmem
                exact (List.nodup_cons.1 hn.nd).1 hmem
          · unfold St.onEvent at h
            split at h
            · rename_i hty _ e; exact absurd e hty
            · rename_i hty _ _ e; exact absurd e hty
            · cases h
    · intro st st' ev b idx idx' hi hev hty hlo hio hn h
      unfold neighbour at h
      simp only at h
      split at h
      · cases h; exact hn
      · osplit h
        split at h
        · rename_i la lb hla hlb
          obtain ⟨s, hs, hc⟩ := hev
          obtain ⟨sb, hsb, hsbl⟩ := lineOf_seg hlb
          rw [hs] at hsb; cases hsb
          have hpt : lb.left = ev.pt := by
            rcases hc with ⟨_, e⟩ | ⟨e, _⟩
            · rw [← hsbl]; exact e.symm
            · rw [hty] at e; cases e
          osplit h
          rename_i st1 hs1
          obtain ⟨i1, x1, l1⟩ := applySplit_sinv hi hla hlb (by rw [hpt]; exact hlo) hs1
          have o1 := applySplit_io hi (by rw [hpt]; exact hio) hla hlb (by rw [hpt]; exact hlo) hs1
          have n1 := applySplit_ninv hi (by rw [hpt]; exact hio) hn hla hlb (by rw [hpt]; exact hlo) hs1
          rw [hpt] at l1 o1
          exact ihD _ _ _ _ _ _ i1 (EvOk.ext ⟨s, hs, hc⟩ x1) l1 o1 n1 h
        · cases h
    · intro st st' ev b idx idx' hi hev hlo hio hn h
      unfold drain at h
      osplit h
      rename_i top htop
      split at h
      · rename_i hlt
        osplit h
        rename_i e evs hpop
        obtain ⟨i0, ok0, lo0, hd0⟩ := popped_sinv hi hpop
        rw [htop] at hd0; cases hd0
        have hle : lexLt ev.pt top.pt = false := pt_le_of_ev_le (le_of_lt ((ev_lt_iff _ _).2 hlt))
        have hge : lexLt top.pt ev.pt = false := hlo top (List.mem_of_mem_head? htop)
        have hpt : top.pt = ev.pt := lex_antisymm hge hle
        osplit h
        rename_i st1 hh
        obtain ⟨i1, x1, l1⟩ := (handle_sinv fuel).1 { st with events := evs } st1 top i0 (ok0.congr rfl) lo0 hh
        have o1 := (handle_io fuel).1 { st with events := evs } st1 top i0 (ok0.congr rfl) lo0
          (by rw [hpt]; exact ⟨hio.inc, hio.out⟩) hh
        have n1 := ihH { st with events := evs } st1 top i0 (ok0.congr rfl) lo0
          (by rw [hpt]; exact ⟨hio.inc, hio.out⟩) (hn.popped hpop) hh
        rw [hpt] at l1 o1
        have x1' : Ext st st1 := fun i s hs => x1 i s hs
        split at h
        · exact ihD _ _ _ _ _ _ i1 (hev.ext x1') l1 o1 n1 h
        · osplit h
          exact ihD _ _ _ _ _ _ i1 (hev.ext x1') l1 o1 n1 h
      · cases h; exact hn

theorem nextPointLoop_ninv (hf : Nat) (pt : Pt) : ∀ (fuel : Nat) (st st' : St), SInv st → Lo pt st →
    (st.events.head?).map (·.pt) = some pt → IO pt st → NInv st →
    nextPointLoop hf pt fuel st = some st' → NInv st'
  | 0, st, st', _, _, _, _, _, h => by simp [nextPointLoop] at h
  | fuel + 1, st, st', hi, hlo, hhd, hio, hn, h => by
    unfold nextPointLoop at h
    osplit h
    rename_i e evs hpop
    obtain ⟨i0, ok0, lo0, hd0⟩ := popped_sinv hi hpop
    have hpt : e.pt = pt := by rw [hd0] at hhd; simpa using hhd
    osplit h
    rename_i st1 hh
    obtain ⟨i1, x1, l1⟩ := (handle_sinv hf).1 { st with events := evs } st1 e i0 (ok0.congr rfl) lo0 hh
    have o1 := (handle_io hf).1 { st with events := evs } st1 e i0 (ok0.congr rfl) lo0
      (by rw [hpt]; exact ⟨hio.inc, hio.out⟩) hh
    have n1 := (handle_ninv hf).1 { st with events := evs } st1 e i0 (ok0.congr rfl) lo0
      (by rw [hpt]; exact ⟨hio.inc, hio.out⟩) (hn.popped hpop) hh
    rw [hpt] at l1 o1
    split at h
    · cases h; exact n1
    · rename_i heq
      have : (st1.events.head?).map (·.pt) = some pt := by simpa using heq
      exact nextPointLoop_ninv hf pt fuel st1 st' i1 l1 this o1 n1 h

/-- the part of `NInv` that lives between two calls of `process_next_pt` -/
structure EInv (st : St) : Prop where
  nd : st.events.Nodup
  ge : ∀ e ∈ st.events, e.ty = .lineRight → ∀ s, st.segs[e.seg]? = some s → lexLt e.pt s.line.right = false

theorem NInv.einv {st : St} (h : NInv st) : EInv st := ⟨h.nd, h.ge⟩

theorem EInv.quiet {st st' : St} (h : EInv st) (q : Quiet st st') : EInv st' := by
  refine ⟨q.2.1 ▸ h.nd, ?_⟩
  intro e hm hty s' hsg
  obtain ⟨s, h1, h2⟩ := sameLines_back q.1 hsg
  rw [← h2]
  exact h.ge e (q.2.1 ▸ hm) hty s h1

/-- `next_point` called with empty `incoming` / `outgoing` (as `process_next_pt` does) -/
theorem nextPoint_ninv {fuel : Nat} {st st' : St} {pt : Pt} (hi : SInv st) (he : EInv st)
    (h0 : st.incoming = [] ∧ st.outgoing = [])
    (h : nextPoint fuel st = some (st', some pt)) : NInv st' := by
  unfold nextPoint at h
  split at h
  · cases h
  · rename_i e hhe
    osplit h
    rename_i st1 hl
    simp only [Option.some.injEq, Prod.mk.injEq] at h
    obtain ⟨h1, h2⟩ := h
    subst h1 h2
    have hd0 : st.events[0]? = some e := by rw [← List.head?_eq_getElem?]; exact hhe
    have hlo : Lo e.pt st := fun x hx => pt_le_of_ev_le (heapInv_root_min hi.heap hd0 x hx)
    have hhd : (st.events.head?).map (·.pt) = some e.pt := by rw [hhe]; rfl
    refine nextPointLoop_ninv fuel e.pt fuel st st1 hi hlo hhd ⟨?_, ?_⟩ ⟨he.nd, he.ge, ?_, ?_⟩ hl
    · intro i hi'; rw [h0.1] at hi'; cases hi'
    · intro o ho; rw [h0.2] at ho; cases ho
    · rw [h0.1]; exact List.nodup_nil
    · intro i hi'; rw [h0.1] at hi'; cases hi'

/-- the initial state: one `LineLeft` and one `LineRight` event per input line, at its ends -/
theorem initGo_einv : ∀ (ls : List LoP) (st : St), EInv st → (∀ e ∈ st.events, e.seg < st.segs.length) →
    EInv (initGo ls st) ∧ ∀ e ∈ (initGo ls st).events, e.seg < (initGo ls st).segs.length
  | [], st, h, hl => by simp only [initGo]; exact ⟨h, hl⟩
  | l :: ls, st, h, hl => by
    simp only [initGo]
    refine initGo_einv ls _ ?_ ?_
    · have hp := heapExtend2_perm st.events
        ⟨l.left, if l.isLine = true then EvTy.lineLeft else EvTy.pointLeft, st.segs.length⟩
        ⟨l.right, if l.isLine = true then EvTy.lineRight else EvTy.pointRight, st.segs.length⟩
      refine ⟨hp.nodup_iff.2 ?_, ?_⟩
      · refine List.nodup_cons.2 ⟨?_, List.nodup_cons.2 ⟨?_, h.nd⟩⟩
        · intro hm
          simp only [List.mem_cons, Ev.mk.injEq] at hm
          rcases hm with ⟨_, e, _⟩ | hm
          · cases hl' : l.isLine <;> simp [hl'] at e
          · have := hl _ hm; simp at this
        · intro hm
          have := hl _ hm; simp at this
      · intro e hm hty s hsg
        simp only at hsg
        have hm' := hp.mem_iff.1 hm
        simp only [List.mem_cons] at hm'
        rcases hm' with e1 | e1 | e1
        · rw [e1] at hty; simp only at hty
          cases hl' : l.isLine <;> simp [hl'] at hty
        · rw [e1] at hsg ⊢
          simp only at hsg ⊢
          rw [List.getElem?_append_right (Nat.le_refl _)] at hsg
          simp at hsg
          rw [← hsg]; exact lexLt_irrefl _
        · have hlt := hl e e1
          rw [List.getElem?_append_left hlt] at hsg
          exact h.ge e e1 hty s hsg
    · intro e hm
      have hp := heapExtend2_perm st.events
        ⟨l.left, if l.isLine = true then EvTy.lineLeft else EvTy.pointLeft, st.segs.length⟩
        ⟨l.right, if l.isLine = true then EvTy.lineRight else EvTy.pointRight, st.segs.length⟩
      have hm' := hp.mem_iff.1 hm
      simp only [List.length_append, List.length_singleton]
      simp only [List.mem_cons] at hm'
      rcases hm' with e1 | e1 | e1
      · rw [e1]; simp
      · rw [e1]; simp
      · have := hl e e1; omega

theorem initState_einv (ps : List Poly) : EInv (initState ps) :=
  (initGo_einv (inputLines ps) ⟨[], [], [], [], [], [], []⟩ ⟨List.nodup_nil, fun _ h => by cases h⟩
    (fun _ h => by cases h)).1

/-- one `process_next_pt` keeps `EInv`, and the ending segments it was handed are pairwise different -/
theorem processNextPt_einv {fuel : Nat} {st st' : St} (hi : SInv st) (he : EInv st)
    (h : processNextPt fuel st = some (st', true)) : EInv st' := by
  unfold processNextPt at h
  osplit h
  rename_i st1 pt e1
  have n1 := nextPoint_ninv (st := { st with incoming := [], outgoing := [] })
    ⟨hi.heap, hi.lines, fun e he' => (hi.evs e he').congr rfl⟩ ⟨he.nd, he.ge⟩ ⟨rfl, rfl⟩ e1
  osplit h
  simp only at h
  osplit h
  rename_i st2 e2
  have q2 : Quiet st1 st2 := by
    split at e2
    · cases e2; exact Quiet.refl _
    · exact reduceIncoming_quiet pt _ _ _ e2
  osplit h
  rename_i st3 ic e3
  have q3 := q2.trans (inChains_quiet e3)
  osplit h
  rename_i st4 e4
  have q4 : Quiet st1 st4 := by
    split at e4
    · cases e4; exact q3
    · exact q3.trans (startOutgoing_quiet pt _ _ _ e4)
  osplit h
  rename_i st5 e5
  cases h
  exact n1.einv.quiet (q4.trans (tieUp_quiet e5))

/-- [T] in every state that `next_point` returns during a run, the segments reported as ending are pairwise different -/
theorem midStates_incoming_nodup (hf : Nat) : ∀ (fuel : Nat) (st : St), SInv st → EInv st →
    ∀ r ∈ midStates hf fuel st, r.2.incoming.Nodup ∧
      ∀ b, r.2.prevActive r.1 = some b → b ∉ r.2.incoming ∧ b ∉ r.2.outgoing
  | 0, st, _, _, r, hr => by simp [midStates] at hr
  | fuel + 1, st, hi, he, r, hr => by
    unfold midStates at hr
    rcases List.mem_append.1 hr with hr | hr
    · split at hr
      · rename_i st1 pt e1
        simp only [List.mem_singleton] at hr
        subst hr
        have hi0 : SInv { st with incoming := [], outgoing := [] } :=
          ⟨hi.heap, hi.lines, fun e he' => (hi.evs e he').congr rfl⟩
        refine ⟨(nextPoint_ninv hi0 ⟨he.nd, he.ge⟩ ⟨rfl, rfl⟩ e1).inc, ?_⟩
        intro b hb
        exact prevActive_not_hand hi0 ⟨rfl, rfl⟩ e1 hb
      · cases hr
    · split at hr
      · rename_i st1 e1
        obtain ⟨_, _, i1, _⟩ := processNextPt_sinv hi e1
        exact midStates_incoming_nodup hf fuel st1 i1 (processNextPt_einv hi he e1) r hr
      · cases hr

end Geo.Proofs.MONO3
