/-
  MONO (C10, builder of the monotone pieces): `next_point` returns strictly increasing points; the builder steps of
  `process_next_pt` touch neither the event queue, nor the active set, nor the lines of the segments (`Quiet`).
-/
import GeoProofs.Lemmas.MONOSweep

namespace Geo.Proofs.MONO
open Geo Geo.Mono Geo.MonoBuild Geo.Proofs.C10

/-- every queued event lies strictly after `lo` -/
def After (lo : Pt) (st : St) : Prop := ∀ e ∈ st.events, lexLt lo e.pt = true

theorem after_of_head {st : St} {pt : Pt} (hi : SInv st) (hlo : Lo pt st)
    (hne : (st.events.head?).map (·.pt) ≠ some pt) : After pt st := by
  intro x hx
  cases hh : st.events.head? with
  | none =>
    have : st.events = [] := List.head?_eq_none_iff.1 hh
    rw [this] at hx; cases hx
  | some top =>
    have h0 : st.events[0]? = some top := by rw [← List.head?_eq_getElem?]; exact hh
    have hmin := heapInv_root_min hi.heap h0 x hx
    have h1 : lexLt top.pt pt = false := hlo top (List.mem_of_mem_head? hh)
    have h2 : top.pt ≠ pt := by
      intro e; apply hne; rw [hh]; simp [e]
    have h3 : lexLt pt top.pt = true := by
      cases hx' : lexLt pt top.pt with
      | true => rfl
      | false => exact absurd (lex_antisymm h1 hx') h2
    exact lexLt_le_trans h3 (pt_le_of_ev_le hmin)

theorem nextPointLoop_sinv (hf : Nat) (pt : Pt) : ∀ (fuel : Nat) (st st' : St), SInv st → Lo pt st →
    (st.events.head?).map (·.pt) = some pt →
    nextPointLoop hf pt fuel st = some st' → SInv st' ∧ Ext st st' ∧ After pt st'
  | 0, st, st', _, _, _, h => by simp [nextPointLoop] at h
  | fuel + 1, st, st', hi, hlo, hhd, h => by
    unfold nextPointLoop at h
    osplit h
    rename_i e evs hpop
    obtain ⟨i0, ok0, lo0, hd0⟩ := popped_sinv hi hpop
    have hpt : e.pt = pt := by rw [hd0] at hhd; simpa using hhd
    osplit h
    rename_i st1 hh
    obtain ⟨i1, x1, l1⟩ := (handle_sinv hf).1 { st with events := evs } st1 e i0 (ok0.congr rfl) lo0 hh
    rw [hpt] at l1
    have x1' : Ext st st1 := fun i s hs => x1 i s hs
    split at h
    · rename_i hne
      cases h
      refine ⟨i1, x1', after_of_head i1 l1 ?_⟩
      simpa using hne
    · rename_i heq
      have : (st1.events.head?).map (·.pt) = some pt := by simpa using heq
      obtain ⟨i2, x2, a2⟩ := nextPointLoop_sinv hf pt fuel st1 st' i1 l1 this h
      exact ⟨i2, x1'.trans x2, a2⟩

/-- `next_point`: the point returned is the point of the first queued event, and all events left lie strictly
after it -/
theorem nextPoint_sinv {fuel : Nat} {st st' : St} {pt : Pt} (hi : SInv st)
    (h : nextPoint fuel st = some (st', some pt)) :
    SInv st' ∧ Ext st st' ∧ After pt st' ∧ (st.events.head?).map (·.pt) = some pt := by
  unfold nextPoint at h
  split at h
  · cases h
  · rename_i e he
    osplit h
    rename_i st1 hl
    simp only [Option.some.injEq, Prod.mk.injEq] at h
    obtain ⟨h1, h2⟩ := h
    subst h1 h2
    have h0 : st.events[0]? = some e := by rw [← List.head?_eq_getElem?]; exact he
    have hlo : Lo e.pt st := fun x hx => pt_le_of_ev_le (heapInv_root_min hi.heap h0 x hx)
    have hhd : (st.events.head?).map (·.pt) = some e.pt := by rw [he]; rfl
    obtain ⟨a, b, c⟩ := nextPointLoop_sinv fuel e.pt fuel st st1 hi hlo hhd hl
    exact ⟨a, b, c, hhd⟩

/-! ### the builder steps are quiet -/

@[reducible] def Quiet (st st' : St) : Prop :=
  SameLines st st' ∧ st'.events = st.events ∧ st'.active = st.active

theorem Quiet.refl (st : St) : Quiet st st := ⟨SameLines.refl _, rfl, rfl⟩

theorem Quiet.trans {a b c : St} (h1 : Quiet a b) (h2 : Quiet b c) : Quiet a c :=
  ⟨h1.1.trans h2.1, by rw [h2.2.1, h1.2.1], by rw [h2.2.2, h1.2.2]⟩

theorem quiet_of_eq {st st' : St} (h1 : st'.segs = st.segs) (h2 : st'.events = st.events)
    (h3 : st'.active = st.active) : Quiet st st' := ⟨sameLines_of_segs h1, h2, h3⟩

theorem quiet_outputs (st : St) (o : List MonoPoly) : Quiet st { st with outputs := o } := quiet_of_eq rfl rfl rfl
theorem quiet_chains (st : St) (c : List ChainSlot) : Quiet st { st with chains := c } := quiet_of_eq rfl rfl rfl

theorem setInfo_quiet {st st' : St} {i : Nat} {f : Info → Info} (h : st.setInfo i f = some st') : Quiet st st' :=
  setInfo_same h

theorem takeChain_quiet {st st' : St} {i : Nat} {c : List Pt} (h : st.takeChain i = some (c, st')) : Quiet st st' := by
  unfold St.takeChain at h
  osplit h
  cases h
  exact quiet_of_eq rfl rfl rfl

theorem pushChain_quiet {st st' : St} {i : Nat} {pt : Pt} (h : st.pushChain i pt = some st') : Quiet st st' := by
  unfold St.pushChain at h
  obtain ⟨a, b, c⟩ := modifyChain_same h
  exact quiet_of_eq a b c

theorem reduceIncoming_quiet (pt : Pt) : ∀ (l : List Nat) (st st' : St),
    reduceIncoming pt l st = some st' → Quiet st st'
  | [], st, st', h => by simp only [reduceIncoming] at h; cases h; exact Quiet.refl _
  | [_], st, st', h => by simp only [reduceIncoming] at h; cases h
  | first :: second :: rest, st, st', h => by
    simp only [reduceIncoming] at h
    osplit h
    osplit h
    rename_i fc st1 h1
    have q1 := takeChain_quiet h1
    osplit h
    rename_i sc st2 h2
    have q2 := q1.trans (takeChain_quiet h2)
    osplit h
    · osplit h
      rename_i st3 h3
      have q3 := q2.trans (setInfo_quiet h3)
      osplit h
      rename_i fhc st4 h4
      have q4 := q3.trans (takeChain_quiet h4)
      osplit h
      rename_i shc st5 h5
      have q5 := q4.trans (takeChain_quiet h5)
      osplit h
      have qr := reduceIncoming_quiet pt rest _ _ h
      exact (q5.trans (quiet_outputs _ _)).trans qr
    · osplit h
      have qr := reduceIncoming_quiet pt rest _ _ h
      exact (q2.trans (quiet_outputs _ _)).trans qr

theorem lastIdx_quiet {pt : Pt} {seg : Nat} {st st' : St} {k : Nat}
    (h : lastIdx pt seg st = some (st', k)) : Quiet st st' := by
  unfold lastIdx at h
  osplit h
  osplit h
  · osplit h
    rename_i fhc st1 e1
    have q1 := takeChain_quiet e1
    osplit h
    rename_i fc st2 e2
    have q2 := q1.trans (takeChain_quiet e2)
    osplit h
    rename_i st3 e3
    have q3 := q2.trans (pushChain_quiet e3)
    osplit h
    cases h
    exact q3.trans (quiet_outputs _ _)
  · cases h; exact Quiet.refl _

theorem inChains_quiet {pt : Pt} {bot : Option Nat} {bh : Option (Nat × Nat)} {incoming : List Nat}
    {st st' : St} {ic : Option Nat × Option Nat}
    (h : inChains pt bot bh incoming st = some (st', ic)) : Quiet st st' := by
  unfold inChains at h
  osplit h
  · osplit h
    osplit h
    rename_i st1 e1
    have q1 := setInfo_quiet e1
    osplit h
    · osplit h
      osplit h
      rename_i sc st2 e2
      have q2 := q1.trans (takeChain_quiet e2)
      osplit h
      rename_i shc st3 e3
      have q3 := q2.trans (takeChain_quiet e3)
      osplit h
      rename_i st4 e4
      have q4 := q3.trans (pushChain_quiet e4)
      osplit h
      rename_i m hm
      have q5 : Quiet st { st4 with outputs := st4.outputs ++ [m] } := q4.trans (quiet_outputs _ _)
      simp only at h
      osplit h
      · cases h; exact q5
      · osplit h
        rename_i st6 li e6
        cases h
        exact q5.trans (lastIdx_quiet e6)
    · osplit h
      rename_i st2 e2
      osplit h
      rename_i st3 e3
      cases h
      exact (q1.trans (pushChain_quiet e2)).trans (pushChain_quiet e3)
  · osplit h
    · cases h; exact Quiet.refl _
    · osplit h
      rename_i st1 li e1
      have q1 := lastIdx_quiet e1
      split at h
      · cases h; exact q1
      · osplit h
        osplit h
        cases h; exact q1

theorem startOutgoing_quiet (pt : Pt) : ∀ (l : List Nat) (st st' : St),
    startOutgoing pt l st = some st' → Quiet st st'
  | [], st, st', h => by simp only [startOutgoing] at h; cases h; exact Quiet.refl _
  | [_], st, st', h => by simp only [startOutgoing] at h; cases h
  | first :: second :: rest, st, st', h => by
    simp only [startOutgoing] at h
    osplit h
    osplit h
    rename_i st1 e1
    osplit h
    rename_i st2 e2
    have qr := startOutgoing_quiet pt rest _ _ h
    exact (((quiet_chains _ _).trans (setInfo_quiet e1)).trans (setInfo_quiet e2)).trans qr

theorem setHelper_quiet {bot : Option Nat} {idx : Nat} {st st' : St}
    (h : setHelper bot idx st = some st') : Quiet st st' := by
  unfold setHelper at h
  split at h
  · exact setInfo_quiet h
  · cases h; exact Quiet.refl _

theorem tieUp_quiet {pt : Pt} {bot : Option Nat} {br : Bool} {outgoing : List Nat} {st st' : St}
    {ic : Option Nat × Option Nat} (h : tieUp pt bot br outgoing st ic = some st') : Quiet st st' := by
  unfold tieUp at h
  split at h
  · osplit h
    · cases h; exact Quiet.refl _
    · osplit h
      osplit h
      simp only at h
      osplit h
      osplit h
      osplit h
      rename_i st1 e1
      osplit h
      rename_i st2 e2
      exact (((quiet_chains _ _).trans (setInfo_quiet e1)).trans (setInfo_quiet e2)).trans (setInfo_quiet h)
  · osplit h
    osplit h
    osplit h
    rename_i st1 e1
    osplit h
    rename_i st2 e2
    exact ((pushChain_quiet e1).trans (setInfo_quiet e2)).trans (setHelper_quiet h)
  · osplit h
    · osplit h
      osplit h
      rename_i st1 e1
      exact (setInfo_quiet e1).trans (setHelper_quiet h)
    · osplit h
      osplit h
      rename_i st1 e1
      osplit h
      rename_i st2 e2
      osplit h
      rename_i st3 e3
      osplit h
      rename_i st4 e4
      exact ((((pushChain_quiet e1).trans (pushChain_quiet e2)).trans (setInfo_quiet e3)).trans
        (setInfo_quiet e4)).trans (setHelper_quiet h)
  · cases h

/-- one `process_next_pt`: the sweep invariant is kept; the point handled is the point of the first queued event and
every event still queued lies strictly after it -/
theorem processNextPt_sinv {fuel : Nat} {st st' : St} (hi : SInv st)
    (h : processNextPt fuel st = some (st', true)) :
    ∃ pt, (st.events.head?).map (·.pt) = some pt ∧ SInv st' ∧ After pt st' := by
  unfold processNextPt at h
  osplit h
  rename_i st1 pt e1
  obtain ⟨i1, _, a1, hd⟩ := nextPoint_sinv (st := { st with incoming := [], outgoing := [] })
    ⟨hi.heap, hi.lines, fun e he => (hi.evs e he).congr rfl⟩ e1
  refine ⟨pt, hd, ?_⟩
  osplit h
  simp only at h
  osplit h
  rename_i st2 e2
  have q2 : Quiet st1 st2 := by
    split at e2
    · cases e2; exact Quiet.refl _
    · exact reduceIncoming_quiet pt _ _ _ e2
  osplit h
  rename_i st3 ic e3
  have q3 := q2.trans (inChains_quiet e3)
  osplit h
  rename_i st4 e4
  have q4 : Quiet st1 st4 := by
    split at e4
    · cases e4; exact q3
    · exact q3.trans (startOutgoing_quiet pt _ _ _ e4)
  osplit h
  rename_i st5 e5
  cases h
  have q5 := q4.trans (tieUp_quiet e5)
  refine ⟨sinv_same i1 q5.1 q5.2.1, ?_⟩
  unfold After; rw [q5.2.1]; exact a1

end Geo.Proofs.MONO
