/-
  C06P helper layer 4: uniform scaling by `k ≠ 0`. Every contribution of the scaled geometry is the
  scaled contribution (weight × 1, |k|, k² for dimension 0, 1, 2; accumulated coordinate × that
  factor × k); every branch condition is scale invariant; the fold commutes with scaling.
-/
import GeoProofs.Lemmas.C06PPoly

namespace Geo.Proofs.C06
open Geo Geo.Cen

/-- the factor by which a weight of dimension rank `d` grows under scaling by `k` -/
def fac (k : Rat) : Nat → Rat
  | 2 => rabs k
  | 3 => k * k
  | _ => 1

theorem fac_ne_zero {k : Rat} (hk : k ≠ 0) (d : Nat) : fac k d ≠ 0 := by
  unfold fac
  split
  · exact fun h => hk ((rabs_eq_zero_iff k).1 h)
  · exact mul_ne_zero hk hk
  · exact one_ne_zero

/-- scale a weighted centroid by `k` -/
def scW (k : Rat) (w : WC) : WC := ⟨w.dim, fac k w.dim * w.weight, Pt.smul (fac k w.dim * k) w.acc⟩

theorem rabs_mul_sq (k q : Rat) : rabs (k * k * q) = k * k * rabs q := by
  have hk : 0 ≤ k * k := mul_self_nonneg k
  unfold rabs
  by_cases h : q < 0
  · rw [if_pos h]
    by_cases h' : k * k * q < 0
    · rw [if_pos h']; ring
    · rw [if_neg h']
      have : k * k * q ≤ 0 := mul_nonpos_of_nonneg_of_nonpos hk (le_of_lt h)
      have h0 : k * k * q = 0 := le_antisymm this (not_lt.1 h')
      have : k * k * -q = -(k * k * q) := by ring
      rw [this, h0]; simp
  · rw [if_neg h]
    have : ¬ k * k * q < 0 := by
      have := mul_nonneg hk (not_lt.1 h)
      exact not_lt.2 this
    rw [if_neg this]

theorem rabs_cases (q : Rat) : rabs q = q ∨ rabs q = -q := by
  unfold rabs; split
  · right; rfl
  · left; rfl

theorem rabs_unique {x q : Rat} (h0 : 0 ≤ x) (h : x = q ∨ x = -q) : x = rabs q := by
  unfold rabs
  split
  · rcases h with h | h <;> linarith
  · rcases h with h | h <;> linarith

theorem rabs_mul (a b : Rat) : rabs (a * b) = rabs a * rabs b := by
  symm
  apply rabs_unique (mul_nonneg (rabs_nonneg a) (rabs_nonneg b))
  rcases rabs_cases a with ha | ha <;> rcases rabs_cases b with hb | hb <;> rw [ha, hb]
  · left; ring
  · right; ring
  · right; ring
  · left; ring

theorem smul_inj {k : Rat} (hk : k ≠ 0) {a b : Pt} : Pt.smul k a = Pt.smul k b ↔ a = b := by
  constructor
  · intro h
    have hx := congrArg Pt.x h
    have hy := congrArg Pt.y h
    simp only [smul_x, smul_y] at hx hy
    exact Pt.ext' (mul_left_cancel₀ hk hx) (mul_left_cancel₀ hk hy)
  · intro h; rw [h]

theorem smul_sub (k : Rat) (a s : Pt) : Pt.smul k a - Pt.smul k s = Pt.smul k (a - s) := by
  apply Pt.ext' <;> simp <;> ring

theorem scW_addAssign (k : Rat) (a b : WC) : scW k (a.addAssign b) = (scW k a).addAssign (scW k b) := by
  by_cases h1 : a.dim < b.dim
  · have l : a.addAssign b = b := by simp [WC.addAssign, h1]
    have r : (scW k a).addAssign (scW k b) = scW k b := by
      have h1' : (scW k a).dim < (scW k b).dim := h1
      simp [WC.addAssign, h1']
    rw [l, r]
  · by_cases h2 : b.dim < a.dim
    · have l : a.addAssign b = a := by simp [WC.addAssign, h1, h2]
      have r : (scW k a).addAssign (scW k b) = scW k a := by
        have h1' : ¬ (scW k a).dim < (scW k b).dim := h1
        have h2' : (scW k b).dim < (scW k a).dim := h2
        simp [WC.addAssign, h1', h2']
      rw [l, r]
    · have he : b.dim = a.dim := by omega
      have l : a.addAssign b = ⟨a.dim, a.weight + b.weight, a.acc + b.acc⟩ := by simp [WC.addAssign, h1, h2]
      have r : (scW k a).addAssign (scW k b) =
          ⟨(scW k a).dim, (scW k a).weight + (scW k b).weight, (scW k a).acc + (scW k b).acc⟩ := by
        have h1' : ¬ (scW k a).dim < (scW k b).dim := h1
        have h2' : ¬ (scW k b).dim < (scW k a).dim := h2
        simp [WC.addAssign, h1', h2']
      rw [l, r]
      apply WC.ext'
      · rfl
      · simp only [scW, he]; ring
      · apply Pt.ext' <;> simp [scW, he] <;> ring

theorem scW_subAssign (k : Rat) (a b : WC) : scW k (a.subAssign b) = (scW k a).subAssign (scW k b) := by
  by_cases h1 : a.dim < b.dim
  · have l : a.subAssign b = b := by simp [WC.subAssign, h1]
    have r : (scW k a).subAssign (scW k b) = scW k b := by
      have h1' : (scW k a).dim < (scW k b).dim := h1
      simp [WC.subAssign, h1']
    rw [l, r]
  · by_cases h2 : b.dim < a.dim
    · have l : a.subAssign b = a := by simp [WC.subAssign, h1, h2]
      have r : (scW k a).subAssign (scW k b) = scW k a := by
        have h1' : ¬ (scW k a).dim < (scW k b).dim := h1
        have h2' : (scW k b).dim < (scW k a).dim := h2
        simp [WC.subAssign, h1', h2']
      rw [l, r]
    · have he : b.dim = a.dim := by omega
      have l : a.subAssign b = ⟨a.dim, a.weight - b.weight, a.acc - b.acc⟩ := by simp [WC.subAssign, h1, h2]
      have r : (scW k a).subAssign (scW k b) =
          ⟨(scW k a).dim, (scW k a).weight - (scW k b).weight, (scW k a).acc - (scW k b).acc⟩ := by
        have h1' : ¬ (scW k a).dim < (scW k b).dim := h1
        have h2' : ¬ (scW k b).dim < (scW k a).dim := h2
        simp [WC.subAssign, h1', h2']
      rw [l, r]
      apply WC.ext'
      · rfl
      · simp only [scW, he]; ring
      · apply Pt.ext' <;> simp [scW, he] <;> ring

theorem addWC_sc (k : Rat) (o : Op) (w : WC) : addWC (o.map (scW k)) (scW k w) = (addWC o w).map (scW k) := by
  cases o with
  | none => rfl
  | some c => simp [addWC, scW_addAssign]

theorem foldWC_sc (k : Rat) (o : Op) (l : List WC) :
    foldWC (o.map (scW k)) (l.map (scW k)) = (foldWC o l).map (scW k) := by
  induction l generalizing o with
  | nil => rfl
  | cons w t ih => simp only [List.map_cons, foldWC_cons, addWC_sc, ih]

/-! ### contributions of scaled parts -/

theorem coordC_sc (k : Rat) (c : Pt) : coordC (Pt.smul k c) = scW k (coordC c) := by
  simp only [coordC, scW, fac, WC.mk.injEq, true_and]
  constructor
  · ring
  · apply Pt.ext' <;> simp

theorem mid_sc (k : Rat) (a b : Pt) : mid (Pt.smul k a) (Pt.smul k b) = Pt.smul k (mid a b) := by
  apply Pt.ext' <;> simp [mid] <;> ring

theorem lineC_sc (len : Pt → Pt → Rat) (k : Rat) (hk : k ≠ 0)
    (hlen : ∀ a b, len (Pt.smul k a) (Pt.smul k b) = rabs k * len a b) (a b : Pt) :
    lineC len (Pt.smul k a) (Pt.smul k b) = scW k (lineC len a b) := by
  unfold lineC
  by_cases h : a = b
  · rw [if_pos h, if_pos ((smul_inj hk).2 h)]; exact coordC_sc k a
  · rw [if_neg h, if_neg (fun h' => h ((smul_inj hk).1 h'))]
    simp only [scW, fac, hlen, mid_sc, WC.mk.injEq, true_and]
    apply Pt.ext' <;> simp <;> ring

theorem lineStringC_sc (len : Pt → Pt → Rat) (k : Rat) (hk : k ≠ 0)
    (hlen : ∀ a b, len (Pt.smul k a) (Pt.smul k b) = rabs k * len a b)
    (cs : List Pt) : lineStringC len (cs.map (Pt.smul k)) = (lineStringC len cs).map (scW k) := by
  match cs with
  | [] => rfl
  | [c] => simp [lineStringC, coordC_sc]
  | a :: b :: t =>
    have h1 : lineStringC len ((a :: b :: t).map (Pt.smul k)) =
        (windows2 ((a :: b :: t).map (Pt.smul k))).map (fun l => lineC len l.1 l.2) := by
      simp [lineStringC]
    have h2 : lineStringC len (a :: b :: t) = (windows2 (a :: b :: t)).map (fun l => lineC len l.1 l.2) := by
      simp [lineStringC]
    rw [h1, h2, windows2_map, List.map_map, List.map_map]
    apply List.map_congr_left
    intro l _
    exact lineC_sc len k hk hlen l.1 l.2

theorem isClosed_sc (k : Rat) (hk : k ≠ 0) (r : List Pt) : isClosed (r.map (Pt.smul k)) = isClosed r := by
  unfold isClosed
  rw [List.head?_map, List.getLast?_map]
  cases r.head? <;> cases r.getLast? <;> simp [smul_inj hk]

theorem det_sc (k : Rat) (a b : Pt) : det (Pt.smul k a) (Pt.smul k b) = k * k * det a b := by
  simp only [det, smul_x, smul_y]; ring

theorem twiceArea_sc (k : Rat) (hk : k ≠ 0) (r : List Pt) :
    twiceArea (r.map (Pt.smul k)) = k * k * twiceArea r := by
  unfold twiceArea
  rw [List.length_map, isClosed_sc k hk]
  by_cases h3 : r.length < 3
  · simp [h3]
  · rw [if_neg h3, if_neg h3]
    by_cases hc : (!isClosed r) = true
    · simp [hc]
    · rw [if_neg hc, if_neg hc]
      cases r with
      | nil => simp
      | cons s t =>
        simp only [List.map_cons]
        have := windows2_map (Pt.smul k) (s :: t)
        simp only [List.map_cons] at this
        rw [this, List.foldl_map]
        simp only [smul_sub, det_sc]
        rw [foldl_add_sumR (fun l : Pt × Pt => k * k * det (l.1 - s) (l.2 - s)),
          foldl_add_sumR (fun l : Pt × Pt => det (l.1 - s) (l.2 - s)), sumR_map_mul_left]
        ring

theorem ringArea_sc (k : Rat) (hk : k ≠ 0) (r : List Pt) :
    ringArea (r.map (Pt.smul k)) = k * k * ringArea r := by
  unfold ringArea; rw [twiceArea_sc k hk]; ring

theorem ringArea_sc_zero (k : Rat) (hk : k ≠ 0) (r : List Pt) :
    ringArea (r.map (Pt.smul k)) = 0 ↔ ringArea r = 0 := by
  rw [ringArea_sc k hk]
  constructor
  · intro h
    rcases mul_eq_zero.1 h with h' | h'
    · exact absurd h' (mul_ne_zero hk hk)
    · exact h'
  · intro h; rw [h]; ring

theorem lsDims_sc (k : Rat) (hk : k ≠ 0) (r : List Pt) : lsDims (r.map (Pt.smul k)) = lsDims r := by
  cases r with
  | nil => rfl
  | cons f t =>
    simp only [lsDims, List.map_cons]
    have : ((Pt.smul k f) :: t.map (Pt.smul k)).any (fun c => decide (Pt.smul k f ≠ c)) =
        (f :: t).any (fun c => decide (f ≠ c)) := by
      rw [← List.map_cons (f := Pt.smul k), List.any_map]
      congr 1
      funext c
      simp [smul_inj hk]
    rw [this]

theorem sumP_map_smul {α : Type} (c : Rat) (f : α → Pt) (L : List α) :
    sumP (L.map (fun l => Pt.smul c (f l))) = Pt.smul c (sumP (L.map f)) := by
  induction L with
  | nil => apply Pt.ext' <;> simp [sumP]
  | cons a t ih =>
    simp only [List.map_cons, sumP, ih]
    apply Pt.ext' <;> simp <;> ring

theorem ringAccum_sc (k : Rat) (s : Pt) (r : List Pt) :
    ringAccum (Pt.smul k s) (r.map (Pt.smul k)) = Pt.smul (k * k * k) (ringAccum s r) := by
  unfold ringAccum
  rw [windows2_map, List.foldl_map]
  simp only [smul_sub, det_sc]
  rw [foldl_add_sumP (fun l : Pt × Pt => Pt.smul (k * k * det (l.1 - s) (l.2 - s)) (Pt.smul k (l.2 - s) + Pt.smul k (l.1 - s))),
    foldl_add_sumP (fun l : Pt × Pt => Pt.smul (det (l.1 - s) (l.2 - s)) ((l.2 - s) + (l.1 - s)))]
  have hterm : ∀ l : Pt × Pt,
      Pt.smul (k * k * det (l.1 - s) (l.2 - s)) (Pt.smul k (l.2 - s) + Pt.smul k (l.1 - s)) =
        Pt.smul (k * k * k) (Pt.smul (det (l.1 - s) (l.2 - s)) ((l.2 - s) + (l.1 - s))) := by
    intro l; apply Pt.ext' <;> simp <;> ring
  simp only [hterm]
  rw [sumP_map_smul]
  simp

theorem ringC_sc (len : Pt → Pt → Rat) (k : Rat) (hk : k ≠ 0)
    (hlen : ∀ a b, len (Pt.smul k a) (Pt.smul k b) = rabs k * len a b)
    (r : List Pt) : ringC len (r.map (Pt.smul k)) = (ringC len r).map (scW k) := by
  unfold ringC
  rw [lsDims_sc k hk]
  by_cases h : ringArea r = 0
  · rw [if_pos h, if_pos ((ringArea_sc_zero k hk r).2 h)]
    cases r with
    | nil => simp [lsDims]
    | cons f t =>
      have hd : lsDims (f :: t) = 1 ∨ lsDims (f :: t) = 2 := by
        simp only [lsDims]; split <;> simp
      rcases hd with hd | hd
      · simp [hd, coordC_sc]
      · simp only [hd]
        exact lineStringC_sc len k hk hlen (f :: t)
  · rw [if_neg h, if_neg (fun h' => h ((ringArea_sc_zero k hk r).1 h'))]
    cases r with
    | nil => rfl
    | cons s t =>
      have hacc := ringAccum_sc k s (s :: t)
      have harea := ringArea_sc k hk (s :: t)
      simp only [List.map_cons] at hacc harea ⊢
      rw [hacc, harea, rabs_mul_sq]
      simp only [List.map_nil, scW, fac, List.cons.injEq, WC.mk.injEq, true_and, and_true]
      apply Pt.ext' <;> simp <;> field_simp

theorem addRing_none_sc (len : Pt → Pt → Rat) (k : Rat) (hk : k ≠ 0)
    (hlen : ∀ a b, len (Pt.smul k a) (Pt.smul k b) = rabs k * len a b)
    (r : List Pt) : addRing len none (r.map (Pt.smul k)) = (addRing len none r).map (scW k) := by
  rw [addRing_eq, addRing_eq, ringC_sc len k hk hlen]
  exact foldWC_sc k none _

theorem ints_sc (len : Pt → Pt → Rat) (k : Rat) (hk : k ≠ 0)
    (hlen : ∀ a b, len (Pt.smul k a) (Pt.smul k b) = rabs k * len a b)
    (rs : List (List Pt)) :
    (rs.map (·.map (Pt.smul k))).foldl (addRing len) none = (rs.foldl (addRing len) none).map (scW k) := by
  rw [foldl_addRing_eq, foldl_addRing_eq]
  have : ((rs.map (·.map (Pt.smul k))).map (ringC len)).flatten = ((rs.map (ringC len)).flatten).map (scW k) := by
    rw [List.map_flatten, List.map_map, List.map_map]
    congr 1
    apply List.map_congr_left
    intro r _
    exact ringC_sc len k hk hlen r
  rw [this]
  exact foldWC_sc k none _

theorem polyC_sc (len : Pt → Pt → Rat) (k : Rat) (hk : k ≠ 0)
    (hlen : ∀ a b, len (Pt.smul k a) (Pt.smul k b) = rabs k * len a b)
    (p : Poly) : polyC len (polyMapG (Pt.smul k) p) = (polyC len p).map (scW k) := by
  unfold polyC polyMapG
  simp only
  rw [addRing_none_sc len k hk hlen, ints_sc len k hk hlen]
  cases addRing len none p.ext with
  | none => rfl
  | some e =>
    cases p.ints.foldl (addRing len) none with
    | none => rfl
    | some i =>
      simp only [Option.map_some]
      have hdim : (scW k i).dim = i.dim := rfl
      rw [hdim]
      by_cases h3 : i.dim = 3
      · rw [if_pos h3, if_pos h3, ← scW_subAssign]
        have hw : (scW k (e.subAssign i)).weight = 0 ↔ (e.subAssign i).weight = 0 := by
          show fac k _ * _ = 0 ↔ _
          constructor
          · intro h
            rcases mul_eq_zero.1 h with h' | h'
            · exact absurd h' (fac_ne_zero hk _)
            · exact h'
          · intro h; rw [h]; ring
        by_cases h0 : (e.subAssign i).weight = 0
        · rw [if_pos h0, if_pos (hw.2 h0)]; exact lineStringC_sc len k hk hlen p.ext
        · rw [if_neg h0, if_neg (fun h => h0 (hw.1 h))]; rfl
      · rw [if_neg h3, if_neg h3]; rfl

theorem rectC_sc (len : Pt → Pt → Rat) (k : Rat) (hk : k ≠ 0)
    (hlen : ∀ a b, len (Pt.smul k a) (Pt.smul k b) = rabs k * len a b)
    (mn mx : Pt) : rectC len (Pt.smul k mn) (Pt.smul k mx) = (rectC len mn mx).map (scW k) := by
  have hdims : rectDims (Pt.smul k mn) (Pt.smul k mx) = rectDims mn mx := by
    simp only [rectDims, smul_inj hk, smul_x, smul_y, mul_right_inj' hk]
  have harea : ∀ d : Nat, ([⟨3, ((Pt.smul k mx).x - (Pt.smul k mn).x) * ((Pt.smul k mx).y - (Pt.smul k mn).y),
        Pt.smul (((Pt.smul k mx).x - (Pt.smul k mn).x) * ((Pt.smul k mx).y - (Pt.smul k mn).y))
          (rectCenter (Pt.smul k mn) (Pt.smul k mx))⟩] : List WC) =
      [⟨3, (mx.x - mn.x) * (mx.y - mn.y), Pt.smul ((mx.x - mn.x) * (mx.y - mn.y)) (rectCenter mn mx)⟩].map (scW k) := by
    intro _
    simp only [List.map_cons, List.map_nil]
    congr 1
    apply WC.ext'
    · rfl
    · simp [scW, fac]; ring
    · apply Pt.ext' <;> simp [scW, fac, rectCenter] <;> ring
  unfold rectC
  rw [hdims]
  generalize rectDims mn mx = d
  match d with
  | 0 => exact harea 0
  | 1 => simp [coordC_sc]
  | 2 => simp [lineC_sc len k hk hlen]
  | n + 3 => exact harea 0

theorem crossProd_sc (k : Rat) (a b c : Pt) :
    crossProd (Pt.smul k a) (Pt.smul k b) (Pt.smul k c) = k * k * crossProd a b c := by
  simp only [crossProd, smul_x, smul_y]; ring

theorem triC_sc (len : Pt → Pt → Rat) (k : Rat) (hk : k ≠ 0)
    (hlen : ∀ a b, len (Pt.smul k a) (Pt.smul k b) = rabs k * len a b)
    (a b c : Pt) : triC len (Pt.smul k a) (Pt.smul k b) (Pt.smul k c) = (triC len a b c).map (scW k) := by
  have hcp : crossProd (Pt.smul k a) (Pt.smul k b) (Pt.smul k c) = 0 ↔ crossProd a b c = 0 := by
    rw [crossProd_sc]
    constructor
    · intro h
      rcases mul_eq_zero.1 h with h' | h'
      · exact absurd h' (mul_ne_zero hk hk)
      · exact h'
    · intro h; rw [h]; ring
  have hdims : triDims (Pt.smul k a) (Pt.smul k b) (Pt.smul k c) = triDims a b c := by
    simp only [triDims, hcp, smul_inj hk]
  have harea : triArea (Pt.smul k a) (Pt.smul k b) (Pt.smul k c) = k * k * triArea a b c := by
    simp only [triArea, smul_sub, det_sc]; ring
  have hA : ([⟨3, rabs (k * k * triArea a b c), Pt.smul (rabs (k * k * triArea a b c))
        (Pt.divS (Pt.smul k a + Pt.smul k b + Pt.smul k c) 3)⟩] : List WC) =
      [⟨3, rabs (triArea a b c), Pt.smul (rabs (triArea a b c)) (Pt.divS (a + b + c) 3)⟩].map (scW k) := by
    simp only [List.map_cons, List.map_nil, rabs_mul_sq]
    congr 1
    apply WC.ext'
    · rfl
    · rfl
    · apply Pt.ext' <;> simp [scW, fac] <;> ring
  unfold triC
  rw [hdims, harea]
  generalize triDims a b c = d
  match d with
  | 0 => exact hA
  | 1 => simp [coordC_sc]
  | 2 => simp [lineC_sc len k hk hlen]
  | n + 3 => exact hA

mutual
theorem contribs_sc (len : Pt → Pt → Rat) (k : Rat) (hk : k ≠ 0)
    (hlen : ∀ a b, len (Pt.smul k a) (Pt.smul k b) = rabs k * len a b) :
    ∀ g : Geom, contribs len (mapG (Pt.smul k) g) = (contribs len g).map (scW k)
  | .point p => by simp [mapG, contribs, coordC_sc]
  | .line a b => by simp [mapG, contribs, lineC_sc len k hk hlen]
  | .lineString cs => by simp only [mapG, contribs]; exact lineStringC_sc len k hk hlen cs
  | .polygon p => by simp only [mapG, contribs]; exact polyC_sc len k hk hlen p
  | .multiPoint ps => by
      simp only [mapG, contribs, List.map_map]
      apply List.map_congr_left; intro p _; exact coordC_sc k p
  | .multiLineString ls => by
      simp only [mapG, contribs, List.map_flatten, List.map_map]
      congr 1
      apply List.map_congr_left; intro l _; exact lineStringC_sc len k hk hlen l
  | .multiPolygon ps => by
      simp only [mapG, contribs, List.map_flatten, List.map_map]
      congr 1
      apply List.map_congr_left; intro p _; exact polyC_sc len k hk hlen p
  | .rect mn mx => by simp only [mapG, contribs]; exact rectC_sc len k hk hlen mn mx
  | .triangle a b c => by simp only [mapG, contribs]; exact triC_sc len k hk hlen a b c
  | .collection gs => by simp only [mapG, contribs]; exact contribsList_sc len k hk hlen gs
theorem contribsList_sc (len : Pt → Pt → Rat) (k : Rat) (hk : k ≠ 0)
    (hlen : ∀ a b, len (Pt.smul k a) (Pt.smul k b) = rabs k * len a b) :
    ∀ gs : List Geom, contribsList len (mapGList (Pt.smul k) gs) = (contribsList len gs).map (scW k)
  | [] => rfl
  | g :: gs => by
      simp only [mapGList, contribsList, List.map_append]
      rw [contribs_sc len k hk hlen g, contribsList_sc len k hk hlen gs]
end

/-- the accumulator of the scaled geometry is the scaled accumulator -/
theorem addGeom_sc (len : Pt → Pt → Rat) (k : Rat) (hk : k ≠ 0)
    (hlen : ∀ a b, len (Pt.smul k a) (Pt.smul k b) = rabs k * len a b) (g : Geom) :
    addGeom len none (mapG (Pt.smul k) g) = (addGeom len none g).map (scW k) := by
  rw [addGeom_eq, addGeom_eq, contribs_sc len k hk hlen]
  exact foldWC_sc k none _

/-- no condition on the weight: `x / 0 = 0` scales like everything else -/
theorem centroid_scW (k : Rat) (hk : k ≠ 0) (w : WC) :
    Pt.divS (scW k w).acc (scW k w).weight = Pt.smul k (Pt.divS w.acc w.weight) := by
  have hf := fac_ne_zero hk w.dim
  apply Pt.ext'
  · simp only [scW, divS_x, smul_x]
    rw [mul_assoc, mul_div_mul_left _ _ hf, mul_div_assoc]
  · simp only [scW, divS_y, smul_y]
    rw [mul_assoc, mul_div_mul_left _ _ hf, mul_div_assoc]

end Geo.Proofs.C06
