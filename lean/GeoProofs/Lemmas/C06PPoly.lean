/-
  C06P helper layer 2: what `add_polygon` hands to the outer accumulator (exterior operation minus
  interior operation, `sub_assign`, zero net weight ⇒ outline) is interchangeable with the
  specification's signed atoms of the polygon; the same for rectangles and triangles; hence for
  every geometry.
-/
import GeoProofs.Lemmas.C06PEquiv
import GeoProofs.Lemmas.C06Translate

namespace Geo.Proofs.C06
open Geo Geo.Cen

/-! ### `rabs` -/

theorem rabs_nonneg (q : Rat) : 0 ≤ rabs q := by
  unfold rabs; split <;> linarith

theorem rabs_pos {q : Rat} (h : q ≠ 0) : 0 < rabs q := by
  unfold rabs
  split
  · linarith
  · rcases lt_or_gt_of_ne h with h' | h'
    · contradiction
    · exact h'

theorem rabs_eq_zero_iff (q : Rat) : rabs q = 0 ↔ q = 0 := by
  constructor
  · intro h
    by_contra hne
    have := rabs_pos hne
    linarith
  · rintro rfl; simp [rabs]

theorem rabs_half (q : Rat) : rabs (q / 2) = rabs q / 2 := by
  unfold rabs
  by_cases h : q < 0
  · have : q / 2 < 0 := by linarith
    rw [if_pos h, if_pos this]; ring
  · have : ¬ q / 2 < 0 := by
      intro h'; apply h; linarith
    rw [if_neg h, if_neg this]

/-! ### the areal contribution of a ring -/

/-- the areal atom of a ring: `|A|` at the textbook centroid -/
def areaAtom (r : List Pt) : Atom := ⟨3, rabs (twiceAreaText r / 2), ringCentroidText r⟩

theorem ringC_area (len : Pt → Pt → Rat) (r : List Pt) (h : twiceAreaText r ≠ 0) :
    ringC len r = [(areaAtom r).toWC] := by
  rw [ringC_eq_atoms]
  simp only [ringAtoms, if_neg h, areaAtom, List.map_cons, List.map_nil]

theorem ringC_flat_dim_le (len : Pt → Pt → Rat) (r : List Pt) (h : twiceAreaText r = 0) :
    ∀ w ∈ ringC len r, w.dim ≤ 2 := by
  intro w hw
  rw [ringC_eq_atoms] at hw
  simp only [ringAtoms, if_pos h] at hw
  cases r with
  | nil => simp at hw
  | cons f t =>
    simp only at hw
    split at hw
    · simp at hw; subst hw; simp [Atom.toWC]
    · rw [← lineStringC_eq_atoms] at hw
      exact lineStringC_dim_le len _ w hw

/-- the interiors that count as holes -/
def holesOf (p : Poly) : List (List Pt) := p.ints.filter (fun h => twiceAreaText h ≠ 0)

/-- everything the interior sub-operation of `add_polygon` sees -/
def intC (len : Pt → Pt → Rat) (rs : List (List Pt)) : List WC := (rs.map (ringC len)).flatten

theorem intC_cons (len : Pt → Pt → Rat) (r : List Pt) (rs : List (List Pt)) :
    intC len (r :: rs) = ringC len r ++ intC len rs := by
  simp [intC]

theorem intC_mDim_le (len : Pt → Pt → Rat) (rs : List (List Pt)) : mDim (intC len rs) ≤ 3 := by
  induction rs with
  | nil => simp [intC, mDim]
  | cons r t ih =>
    rw [intC_cons, mDim_append]
    have : mDim (ringC len r) ≤ 3 := by
      by_cases h : twiceAreaText r = 0
      · have := mDim_le 2 _ (ringC_flat_dim_le len r h); omega
      · rw [ringC_area len r h]; simp [mDim, Atom.toWC, areaAtom]
    omega

theorem intC_wSum (len : Pt → Pt → Rat) (rs : List (List Pt)) :
    wSum 3 (intC len rs) =
      sumR ((rs.filter (fun h => twiceAreaText h ≠ 0)).map (fun h => rabs (twiceAreaText h / 2))) := by
  induction rs with
  | nil => rfl
  | cons r t ih =>
    rw [intC_cons, wSum_append, ih, List.filter_cons]
    by_cases h : twiceAreaText r = 0
    · have hm : mDim (ringC len r) < 3 := by
        have := mDim_le 2 _ (ringC_flat_dim_le len r h); omega
      rw [wSum_gt 3 _ hm]
      simp [h]
    · rw [ringC_area len r h]
      simp [h, wSum, sumR, Atom.toWC, areaAtom]

theorem intC_aSum (len : Pt → Pt → Rat) (rs : List (List Pt)) :
    aSum 3 (intC len rs) =
      sumP ((rs.filter (fun h => twiceAreaText h ≠ 0)).map
        (fun h => Pt.smul (rabs (twiceAreaText h / 2)) (ringCentroidText h))) := by
  induction rs with
  | nil => rfl
  | cons r t ih =>
    rw [intC_cons, aSum_append, ih, List.filter_cons]
    by_cases h : twiceAreaText r = 0
    · have hm : mDim (ringC len r) < 3 := by
        have := mDim_le 2 _ (ringC_flat_dim_le len r h); omega
      rw [aSum_gt 3 _ hm]
      simp [h]
    · rw [ringC_area len r h]
      simp [h, aSum, sumP, Atom.toWC, areaAtom]

theorem intC_mDim_eq_three (len : Pt → Pt → Rat) (rs : List (List Pt)) :
    mDim (intC len rs) = 3 ↔ rs.filter (fun h => twiceAreaText h ≠ 0) ≠ [] := by
  induction rs with
  | nil => simp [intC, mDim]
  | cons r t ih =>
    rw [intC_cons, mDim_append, List.filter_cons]
    have ht := intC_mDim_le len t
    by_cases h : twiceAreaText r = 0
    · have hm : mDim (ringC len r) ≤ 2 := mDim_le 2 _ (ringC_flat_dim_le len r h)
      have hdec : decide (twiceAreaText r ≠ 0) = false := by simp [h]
      simp only [hdec, Bool.false_eq_true, if_false]
      rw [← ih]
      omega
    · have hdec : decide (twiceAreaText r ≠ 0) = true := by simp [h]
      rw [ringC_area len r h]
      simp only [hdec, if_true, mDim, Atom.toWC, areaAtom]
      constructor
      · intro _; simp
      · intro _; omega

theorem sumR_pos_of_pos {α : Type} (f : α → Rat) (L : List α) (hne : L ≠ []) (h : ∀ x ∈ L, 0 < f x) :
    0 < sumR (L.map f) := by
  induction L with
  | nil => exact absurd rfl hne
  | cons a t ih =>
    simp only [List.map_cons, sumR]
    have ha := h a (by simp)
    by_cases ht : t = []
    · subst ht; simp [sumR]; exact ha
    · have := ih ht (fun x hx => h x (by simp [hx])); linarith

theorem holes_weight_pos (rs : List (List Pt)) (hne : rs.filter (fun h => twiceAreaText h ≠ 0) ≠ []) :
    0 < sumR ((rs.filter (fun h => twiceAreaText h ≠ 0)).map (fun h => rabs (twiceAreaText h / 2))) := by
  apply sumR_pos_of_pos _ _ hne
  intro x hx
  have hx' : twiceAreaText x ≠ 0 := by
    have := (List.mem_filter.1 hx).2
    simpa using this
  apply rabs_pos
  intro h0; apply hx'; linarith

/-! ### sums of mapped atom lists -/

theorem mDim_map_const {α : Type} (f : α → WC) (k : Nat) (L : List α) (hne : L ≠ []) (h : ∀ x, (f x).dim = k) :
    mDim (L.map f) = k := by
  induction L with
  | nil => exact absurd rfl hne
  | cons a t ih =>
    simp only [List.map_cons, mDim, h]
    by_cases ht : t = []
    · subst ht; simp [mDim]
    · rw [ih ht]; omega

theorem wSum_map_const {α : Type} (f : α → WC) (k : Nat) (L : List α) (h : ∀ x, (f x).dim = k) :
    wSum k (L.map f) = sumR (L.map (fun x => (f x).weight)) := by
  induction L with
  | nil => rfl
  | cons a t ih => simp only [List.map_cons, wSum, sumR, h, if_true, ih]

theorem aSum_map_const {α : Type} (f : α → WC) (k : Nat) (L : List α) (h : ∀ x, (f x).dim = k) :
    aSum k (L.map f) = sumP (L.map (fun x => (f x).acc)) := by
  induction L with
  | nil => rfl
  | cons a t ih => simp only [List.map_cons, aSum, sumP, h, if_true, ih]

theorem sumR_map_neg {α : Type} (f : α → Rat) (L : List α) :
    sumR (L.map (fun x => - f x)) = - sumR (L.map f) := by
  induction L with
  | nil => simp [sumR]
  | cons a t ih => simp only [List.map_cons, sumR, ih]; ring

theorem sumP_map_neg {α : Type} (w : α → Rat) (c : α → Pt) (L : List α) :
    sumP (L.map (fun x => Pt.smul (- w x) (c x))) = zeroPt - sumP (L.map (fun x => Pt.smul (w x) (c x))) := by
  induction L with
  | nil => apply Pt.ext' <;> simp [sumP]
  | cons a t ih =>
    simp only [List.map_cons, sumP, ih]
    apply Pt.ext' <;> simp <;> ring

/-! ### the polygon -/

/-- [T] `add_polygon` against the specification: the contribution list of a polygon — computed by the
code from an exterior operation, an interior operation, `sub_assign` and the zero-weight fallback —
is interchangeable with the specification's signed atoms, for every polygon (no validity
assumption: any rings, holes of any total area, flat or empty exterior). -/
theorem polyC_equiv_atoms (len : Pt → Pt → Rat) (p : Poly) :
    Equiv (polyC len p) ((polyAtoms len p).map Atom.toWC) := by
  unfold polyC polyAtoms
  rw [addRing_eq, foldWC_none, foldl_addRing_eq, foldWC_none]
  show Equiv (match dominant (ringC len p.ext) with
    | none => []
    | some e =>
      match dominant (intC len p.ints) with
      | some i =>
        if i.dim = 3 then
          (if (e.subAssign i).weight = 0 then lineStringC len p.ext else [e.subAssign i])
        else [e]
      | none => [e]) _
  by_cases hext : p.ext = []
  · rw [hext]
    have : ringC len [] = [] := (ringC_eq_nil len []).2 rfl
    rw [this]
    simp [dominant]
    exact Equiv.refl _
  · have hE : ringC len p.ext ≠ [] := fun h => hext ((ringC_eq_nil len _).1 h)
    have hemp : p.ext.isEmpty = false := by
      cases hp : p.ext with
      | nil => exact absurd hp hext
      | cons _ _ => rfl
    rw [hemp]
    simp only [Bool.false_eq_true, if_false]
    obtain ⟨e, he⟩ : ∃ e, dominant (ringC len p.ext) = some e := by
      cases hd : dominant (ringC len p.ext) with
      | none => exact absurd ((dominant_eq_none_iff _).1 hd) hE
      | some e => exact ⟨e, rfl⟩
    rw [he]
    simp only
    have hE_equiv : Equiv [e] ((ringAtoms len p.ext).map Atom.toWC) := by
      rw [← ringC_eq_atoms]; exact equiv_dominant _ e he
    have h3iff := intC_mDim_eq_three len p.ints
    by_cases hholes : p.ints.filter (fun h => twiceAreaText h ≠ 0) = []
    · -- no interior has area: the exterior alone
      rw [hholes]
      simp only [List.isEmpty_nil, if_true]
      have hne3 : mDim (intC len p.ints) ≠ 3 := fun h => (h3iff.1 h) hholes
      cases hi : dominant (intC len p.ints) with
      | none => exact hE_equiv
      | some i =>
        have hidim : i.dim = mDim (intC len p.ints) := by
          rw [((dominant_some_iff _ i).1 hi).2]
        have : ¬ i.dim = 3 := by rw [hidim]; exact hne3
        simp only [if_neg this]
        exact hE_equiv
    · have hH3 : mDim (intC len p.ints) = 3 := h3iff.2 hholes
      have hemp2 : (p.ints.filter (fun h => twiceAreaText h ≠ 0)).isEmpty = false := by
        cases hp : p.ints.filter (fun h => twiceAreaText h ≠ 0) with
        | nil => exact absurd hp hholes
        | cons _ _ => rfl
      rw [hemp2]
      simp only [Bool.false_eq_true, if_false]
      obtain ⟨i, hi⟩ : ∃ i, dominant (intC len p.ints) = some i := by
        cases hd : dominant (intC len p.ints) with
        | none =>
          have := (dominant_eq_none_iff _).1 hd
          rw [this] at hH3; simp [mDim] at hH3
        | some i => exact ⟨i, rfl⟩
      rw [hi]
      have hival := ((dominant_some_iff _ i).1 hi).2
      rw [hH3, intC_wSum, intC_aSum] at hival
      have hidim : i.dim = 3 := by rw [hival]
      simp only [if_pos hidim]
      have hpos := holes_weight_pos p.ints hholes
      have hholes_dim : mDim ((p.ints.filter (fun h => twiceAreaText h ≠ 0)).map
          (fun h => (areaAtom h).toWC)) = 3 :=
        mDim_map_const _ 3 _ hholes (fun _ => rfl)
      by_cases hA : twiceAreaText p.ext = 0
      · -- exterior without area, interiors with area: `sub_assign` takes the interiors (sic)
        rw [if_pos hA]
        have hedim : e.dim < 3 := by
          have h1 := ((dominant_some_iff _ e).1 he).2
          have h2 := mDim_le 2 _ (ringC_flat_dim_le len p.ext hA)
          rw [h1]; show mDim (ringC len p.ext) < 3; omega
        have hsub : e.subAssign i = i := by
          simp only [WC.subAssign, hidim, hedim, if_true]
        rw [hsub]
        have hw0 : ¬ i.weight = 0 := by
          rw [hival]; show ¬ sumR _ = 0; intro h0; rw [h0] at hpos; exact lt_irrefl _ hpos
        simp only [if_neg hw0]
        rw [List.map_map]
        apply equiv_of_sums
        · show mDim [i] = mDim ((p.ints.filter (fun h => twiceAreaText h ≠ 0)).map (fun h => (areaAtom h).toWC))
          rw [hholes_dim]; simp [mDim, hidim]
        · constructor
          · intro h; cases h
          · intro h; exact absurd (List.map_eq_nil_iff.1 h) hholes
        · intro m hm
          simp only [mDim, hidim, Nat.max_zero] at hm
          show wSum m [i] = wSum m ((p.ints.filter (fun h => twiceAreaText h ≠ 0)).map (fun h => (areaAtom h).toWC)) ∧
            aSum m [i] = aSum m ((p.ints.filter (fun h => twiceAreaText h ≠ 0)).map (fun h => (areaAtom h).toWC))
          by_cases hm3 : m = 3
          · subst hm3
            rw [wSum_map_const _ 3 _ (fun _ => rfl), aSum_map_const _ 3 _ (fun _ => rfl)]
            simp only [wSum, aSum, hidim, if_true]
            rw [hival]
            simp [Atom.toWC, areaAtom]
          · have h1 : mDim [i] < m := by simp only [mDim, hidim, Nat.max_zero]; omega
            have h2 : mDim ((p.ints.filter (fun h => twiceAreaText h ≠ 0)).map (fun h => (areaAtom h).toWC)) < m := by
              rw [hholes_dim]; omega
            rw [wSum_gt m _ h1, aSum_gt m _ h1, wSum_gt m _ h2, aSum_gt m _ h2]
            exact ⟨rfl, rfl⟩
      · -- exterior with area minus the interiors with area
        rw [if_neg hA]
        have heq : e = (areaAtom p.ext).toWC := by
          have := he
          rw [ringC_area len p.ext hA, dominant_singleton] at this
          exact (Option.some.inj this).symm
        have hsub : e.subAssign i = ⟨3, e.weight - i.weight, e.acc - i.acc⟩ := by
          have hed : e.dim = 3 := by rw [heq]; rfl
          simp only [WC.subAssign, hidim, hed, Nat.lt_irrefl, if_false]
        rw [hsub]
        have hwnet : e.weight - i.weight =
            rabs (twiceAreaText p.ext / 2) -
              sumR ((p.ints.filter (fun h => twiceAreaText h ≠ 0)).map (fun h => rabs (twiceAreaText h / 2))) := by
          rw [heq, hival]; rfl
        simp only [hwnet]
        by_cases hnet : rabs (twiceAreaText p.ext / 2) -
              sumR ((p.ints.filter (fun h => twiceAreaText h ≠ 0)).map (fun h => rabs (twiceAreaText h / 2))) = 0
        · rw [if_pos hnet, if_pos hnet, lineStringC_eq_atoms]
          exact Equiv.refl _
        · rw [if_neg hnet, if_neg hnet]
          simp only [List.map_cons, List.map_map]
          have hnegdim : ∀ L : List (List Pt), mDim (L.map
              (Atom.toWC ∘ fun h => (⟨3, -rabs (twiceAreaText h / 2), ringCentroidText h⟩ : Atom))) ≤ 3 := by
            intro L
            apply mDim_le
            intro w hw
            rcases List.mem_map.1 hw with ⟨x, _, rfl⟩
            simp [Atom.toWC]
          have hR : mDim (Atom.toWC ⟨3, rabs (twiceAreaText p.ext / 2), ringCentroidText p.ext⟩ ::
              (p.ints.filter (fun h => twiceAreaText h ≠ 0)).map
                (Atom.toWC ∘ fun h => (⟨3, -rabs (twiceAreaText h / 2), ringCentroidText h⟩ : Atom))) = 3 := by
            have := hnegdim (p.ints.filter (fun h => twiceAreaText h ≠ 0))
            simp only [mDim, Atom.toWC]
            omega
          apply equiv_of_sums
          · rw [hR]; simp [mDim]
          · simp
          · intro m hm
            simp only [mDim, Nat.max_zero] at hm
            by_cases hm3 : m = 3
            · subst hm3
              simp only [wSum, aSum, if_true]
              rw [wSum_map_const _ 3 _ (fun _ => rfl), aSum_map_const _ 3 _ (fun _ => rfl)]
              simp only [Function.comp, Atom.toWC, if_true]
              rw [sumR_map_neg, sumP_map_neg, heq, hival]
              constructor
              · ring
              · apply Pt.ext' <;> simp [Atom.toWC, areaAtom] <;> ring
            · have h1 : mDim [(⟨3, rabs (twiceAreaText p.ext / 2) -
                  sumR ((p.ints.filter (fun h => twiceAreaText h ≠ 0)).map (fun h => rabs (twiceAreaText h / 2))),
                  e.acc - i.acc⟩ : WC)] < m := by
                simp only [mDim, Nat.max_zero]; omega
              have h2 := hR
              rw [wSum_gt m _ h1, aSum_gt m _ h1, wSum_gt m _ (by rw [h2]; omega), aSum_gt m _ (by rw [h2]; omega)]
              exact ⟨rfl, rfl⟩

end Geo.Proofs.C06
