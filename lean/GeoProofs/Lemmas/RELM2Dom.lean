/-
  RELM2 — `Point × B` on the validity domain: for `B` a Point, MultiPoint, Line, Polygon,
  MultiPolygon, Rect or Triangle of the domain, the rows Interior / Boundary of the model of the
  implementation are the specification's at EVERY point, nodes of `B`'s graph included.
-/
import GeoProofs.Lemmas.RELM2Linear
import GeoProofs.Lemmas.C02XPoint

namespace Geo.Proofs.RELM2
open Geo Geo.GG Geo.RI Geo.Proofs.Spec Geo.Proofs.RELM

/-- the types for which the node labels of the self-noded graph are tied to the specification's
location (`NodesLocate`): all but LineString, MultiLineString and GeometryCollection -/
def nodeTypeOk : Geom → Bool
  | .point _ | .multiPoint _ | .line _ _ | .polygon _ | .multiPolygon _ | .rect _ _ | .triangle _ _ _ => true
  | _ => false

theorem nodesLocate_dom (b : Geom) (hd : inDomain b = true) (ht : nodeTypeOk b = true) :
    NodesLocate Arith.exact b ∧ EisAreNodes Arith.exact b := by
  cases b with
  | point q => exact ⟨nodesLocate_point _ q, eisAreNodes_point _ q⟩
  | multiPoint qs => exact ⟨nodesLocate_multiPoint _ qs, eisAreNodes_multiPoint _ qs⟩
  | line a b =>
    have hab : a ≠ b := by simpa [inDomain, validGeom] using hd
    exact ⟨nodesLocate_line _ a b hab, eisAreNodes_line _ a b⟩
  | polygon q => exact ⟨nodesLocate_areal _ hd, eisAreNodes_areal _ _ rfl⟩
  | multiPolygon ps => exact ⟨nodesLocate_areal _ hd, eisAreNodes_areal _ _ rfl⟩
  | rect mn mx => exact ⟨nodesLocate_areal _ rfl, eisAreNodes_areal _ _ rfl⟩
  | triangle a b c => exact ⟨nodesLocate_areal _ rfl, eisAreNodes_areal _ _ rfl⟩
  | lineString _ => cases ht
  | multiLineString _ => cases ht
  | collection _ => cases ht

theorem noK9_of_nodeTypeOk (p : Pt) (b : Geom) (ht : nodeTypeOk b = true) : Geo.Proofs.C02X.noK9 p b = true := by
  cases b <;> first | rfl | cases ht

/-- **rows Interior / Boundary of `relate(Point p, B)` are the specification's, at every `p`** -/
theorem point_rows_eq_spec_dom (p : Pt) (b : Geom) (hd : inDomain b = true) (ht : nodeTypeOk b = true) {m : IM}
    (h : relateGraph Arith.exact (.point p) b = some m) (X Y : Pos) (hX : X ≠ .outside) :
    m.get X Y = (relateSpec (.point p) b).get X Y :=
  point_rows_eq_spec_of_nodesLocate _ p b h (nodesLocate_dom b hd ht).1 (nodesLocate_dom b hd ht).2
    (Geo.Proofs.C02X.coordPos_dom b p hd (noK9_of_nodeTypeOk p b ht)) X Y hX

end Geo.Proofs.RELM2
