/-
  C02Y, part 4: hand-written `Contains` bodies = the mask `T*****FF*` on the DE-9IM specification.

  * `MultiPolygon: Contains<MultiPoint>` (`mpolyContainsMultiPoint`: no point `Outside`, one `Inside`), valid MultiPolygon;
  * `Line: Contains<Line>` (`lineContainsLine`), both lines non-degenerate.

  Both through `isContains_iff_thin_right` (C02YMask).
-/
import GeoProofs.Lemmas.C02YMask
import GeoProofs.Lemmas.C02XPairs
import GeoProofs.Lemmas.C02QContains
import Mathlib.Tactic.Linarith
import Mathlib.Tactic.NormNum

set_option linter.unusedSimpArgs false
set_option linter.unusedVariables false

namespace Geo.Proofs.C02Y
open Geo Geo.Proofs.Kernel Geo.Proofs.Spec Geo.Proofs.C02X Geo.Proofs.C02Q

/-! ### MultiPolygon × MultiPoint -/

theorem locate_multiPoint_eq (cs : List Pt) (x : Pt) :
    locate (.multiPoint cs) x = if x ∈ cs then .inside else .outside := by
  unfold locate
  simp only [parts]
  rw [locateParts_eq]
  simp only [inAnyPoly, onAnyRing, onAnyCurve, List.any_nil, Bool.or_self, Bool.false_eq_true, if_false]
  by_cases h : x ∈ cs
  · have : cs.any (· == x) = true := List.any_eq_true.mpr ⟨x, h, by simp⟩
    simp [this, h]
  · have : cs.any (· == x) = false := by
      rw [List.any_eq_false]; intro y hy hyx; rw [beq_iff_eq] at hyx; exact h (hyx ▸ hy)
    simp [this, h]

theorem mpolyGo_iff (ps : List Poly) : ∀ (cs : List Pt) (acc : Bool),
    mpolyContainsMultiPoint.go ps cs acc = true ↔
      (∀ c ∈ cs, coordPos (.multiPolygon ps) c ≠ .outside) ∧
        (acc = true ∨ ∃ c ∈ cs, coordPos (.multiPolygon ps) c = .inside)
  | [], acc => by simp [mpolyContainsMultiPoint.go]
  | c :: rest, acc => by
      rw [mpolyContainsMultiPoint.go]
      cases h : coordPos (.multiPolygon ps) c with
      | outside =>
        simp only [Bool.false_eq_true, false_iff, not_and]
        intro hall
        exact absurd h (hall c List.mem_cons_self)
      | inside =>
        simp only
        rw [mpolyGo_iff ps rest true]
        constructor
        · rintro ⟨h1, _⟩
          refine ⟨?_, Or.inr ⟨c, List.mem_cons_self, h⟩⟩
          intro d hd
          rcases List.mem_cons.mp hd with rfl | hd
          · rw [h]; intro e; cases e
          · exact h1 d hd
        · rintro ⟨h1, _⟩
          exact ⟨fun d hd => h1 d (List.mem_cons_of_mem _ hd), Or.inl rfl⟩
      | onBoundary =>
        simp only
        rw [mpolyGo_iff ps rest acc]
        constructor
        · rintro ⟨h1, h2⟩
          refine ⟨?_, ?_⟩
          · intro d hd
            rcases List.mem_cons.mp hd with rfl | hd
            · rw [h]; intro e; cases e
            · exact h1 d hd
          · rcases h2 with h2 | ⟨d, hd, h2⟩
            · exact Or.inl h2
            · exact Or.inr ⟨d, List.mem_cons_of_mem _ hd, h2⟩
        · rintro ⟨h1, h2⟩
          refine ⟨fun d hd => h1 d (List.mem_cons_of_mem _ hd), ?_⟩
          rcases h2 with h2 | ⟨d, hd, h2⟩
          · exact Or.inl h2
          · rcases List.mem_cons.mp hd with rfl | hd
            · rw [h] at h2; cases h2
            · exact Or.inr ⟨d, hd, h2⟩

/-- **`MultiPolygon: Contains<MultiPoint>` is the mask `T*****FF*` on the specification** (valid MultiPolygon) -/
theorem containsM_multiPolygon_multiPoint (ps : List Poly) (cs : List Pt)
    (hd : inDomain (.multiPolygon ps) = true) :
    containsM (.multiPolygon ps) (.multiPoint cs) =
      Gen.isContains (relateSpec (.multiPolygon ps) (.multiPoint cs)) := by
  have hv := multiPolygon_dom hd
  have e : containsM (.multiPolygon ps) (.multiPoint cs) = mpolyContainsMultiPoint ps cs := rfl
  rw [e, Bool.eq_iff_iff]
  unfold mpolyContainsMultiPoint
  rw [mpolyGo_iff ps cs false]
  have hs : Gen.isContains (relateSpec (.multiPolygon ps) (.multiPoint cs)) = true ↔
      (∃ x, locate (.multiPolygon ps) x = .inside ∧ locate (.multiPoint cs) x = .inside) ∧
      (∀ x, locate (.multiPoint cs) x ≠ .outside → locate (.multiPolygon ps) x ≠ .outside) :=
    isContains_iff_thin_right (pa := parts (.multiPolygon ps)) (pb := parts (.multiPoint cs))
      (dom_facts _ hd).closed rfl
  rw [hs]
  simp only [coordPos_multiPolygon_valid ps _ hv, locate_multiPoint_eq, Bool.false_eq_true, false_or]
  constructor
  · rintro ⟨h1, c, hc, h2⟩
    refine ⟨⟨c, h2, by simp [hc]⟩, ?_⟩
    intro x hx
    by_cases hm : x ∈ cs
    · exact h1 x hm
    · simp [hm] at hx
  · rintro ⟨⟨x, h1, h2⟩, h3⟩
    have hx : x ∈ cs := by
      by_contra hm
      simp [hm] at h2
    exact ⟨fun c hc => h3 c (by simp [hc]), x, hx, h1⟩

/-! ### Line × Line -/

theorem lineContainsCoord_eq_locate (a b c : Pt) :
    lineContainsCoord a b c = (locate (.line a b) c == .inside) := by
  have h := Geo.Proofs.Loc.containsM_line_point a b c
  rw [Geo.Proofs.Loc.isContains_relate_point] at h
  exact h

theorem Pt.ext' {p q : Pt} (hx : p.x = q.x) (hy : p.y = q.y) : p = q := by
  cases p; cases q; simp only at hx hy; subst hx; subst hy; rfl

/-- the midpoint of a non-degenerate segment is in the interior of the line -/
theorem midpoint_inside (c d : Pt) (hcd : c ≠ d) : locate (.line c d) (midpoint c d) = .inside := by
  have h : lineContainsCoord c d (midpoint c d) = true := by
    have hne : (c == d) = false := by simpa using hcd
    simp only [lineContainsCoord, hne, Bool.false_eq_true, if_false, Bool.and_eq_true, bne_iff_ne, ne_eq]
    refine ⟨⟨?_, ?_⟩, ?_⟩
    · intro e
      apply hcd
      have hx : (midpoint c d).x = c.x := by rw [e]
      have hy : (midpoint c d).y = c.y := by rw [e]
      simp only [midpoint] at hx hy
      exact Pt.ext' (by linarith) (by linarith)
    · intro e
      apply hcd
      have hx : (midpoint c d).x = d.x := by rw [e]
      have hy : (midpoint c d).y = d.y := by rw [e]
      simp only [midpoint] at hx hy
      exact Pt.ext' (by linarith) (by linarith)
    · rw [lineCoord_iff]
      exact ⟨1 / 2, by norm_num, by norm_num, by simp only [midpoint]; ring, by simp only [midpoint]; ring⟩
  rw [lineContainsCoord_eq_locate] at h
  simpa using h

/-- an end point of a non-degenerate segment is not the midpoint of two distinct points of the segment -/
theorem end_not_midpoint {a b c d : Pt} (hab : a ≠ b) (hc : SegMem c a b) (hd : SegMem d a b)
    (hm : midpoint c d = a) : c = d := by
  obtain ⟨s, s0, s1, cx, cy⟩ := hc
  obtain ⟨t, t0, t1, dx, dy⟩ := hd
  have hx : (midpoint c d).x = a.x := by rw [hm]
  have hy : (midpoint c d).y = a.y := by rw [hm]
  simp only [midpoint] at hx hy
  have ex : (s + t) * (b.x - a.x) = 0 := by rw [cx, dx] at hx; linarith
  have ey : (s + t) * (b.y - a.y) = 0 := by rw [cy, dy] at hy; linarith
  have hst : s + t = 0 := by
    by_contra hne
    apply hab
    have h1 : b.x - a.x = 0 := by
      rcases mul_eq_zero.mp ex with h | h
      · exact absurd h hne
      · exact h
    have h2 : b.y - a.y = 0 := by
      rcases mul_eq_zero.mp ey with h | h
      · exact absurd h hne
      · exact h
    exact Pt.ext' (by linarith) (by linarith)
  have hs : s = 0 := by linarith
  have ht : t = 0 := by linarith
  subst hs; subst ht
  exact Pt.ext' (by rw [cx, dx]) (by rw [cy, dy])

theorem SegMem_swap {p a b : Pt} (h : SegMem p a b) : SegMem p b a := by
  obtain ⟨t, t0, t1, hx, hy⟩ := h
  exact ⟨1 - t, by linarith, by linarith, by rw [hx]; ring, by rw [hy]; ring⟩

/-- the midpoint of two distinct points of a non-degenerate segment is in the interior of the line -/
theorem midpoint_inside_of_sub {a b c d : Pt} (hab : a ≠ b) (hcd : c ≠ d) (hc : SegMem c a b)
    (hd : SegMem d a b) : locate (.line a b) (midpoint c d) = .inside := by
  have h : lineContainsCoord a b (midpoint c d) = true := by
    have hne : (a == b) = false := by simpa using hab
    simp only [lineContainsCoord, hne, Bool.false_eq_true, if_false, Bool.and_eq_true, bne_iff_ne, ne_eq]
    refine ⟨⟨?_, ?_⟩, ?_⟩
    · intro e; exact hcd (end_not_midpoint hab hc hd e)
    · intro e; exact hcd (end_not_midpoint (Ne.symm hab) (SegMem_swap hc) (SegMem_swap hd) e)
    · rw [lineCoord_iff]
      exact SegMem_convex hc hd ⟨1 / 2, by norm_num, by norm_num, by simp only [midpoint]; ring,
        by simp only [midpoint]; ring⟩
  rw [lineContainsCoord_eq_locate] at h
  simpa using h

/-- **`Line: Contains<Line>` is the mask `T*****FF*` on the specification** (both lines non-degenerate) -/
theorem containsM_line_line (a b c d : Pt) (ha : inDomain (.line a b) = true) (hb : inDomain (.line c d) = true) :
    containsM (.line a b) (.line c d) = Gen.isContains (relateSpec (.line a b) (.line c d)) := by
  have hab : a ≠ b := by simpa [inDomain, validGeom] using ha
  have hcd : c ≠ d := by simpa [inDomain, validGeom] using hb
  have e : containsM (.line a b) (.line c d) = lineContainsLine a b c d := rfl
  rw [e, Bool.eq_iff_iff, lineContainsLine_iff_ends a b c d hcd]
  have hs : Gen.isContains (relateSpec (.line a b) (.line c d)) = true ↔
      (∃ x, locate (.line a b) x = .inside ∧ locate (.line c d) x = .inside) ∧
      (∀ x, locate (.line c d) x ≠ .outside → locate (.line a b) x ≠ .outside) :=
    isContains_iff_thin_right (pa := parts (.line a b)) (pb := parts (.line c d)) (dom_facts _ ha).closed rfl
  rw [hs]
  simp only [located_line]
  constructor
  · rintro ⟨hc, hd⟩
    exact ⟨⟨midpoint c d, midpoint_inside_of_sub hab hcd hc hd, midpoint_inside c d hcd⟩,
      fun x hx => SegMem_convex hc hd hx⟩
  · rintro ⟨_, h⟩
    exact ⟨h c (SegMem_left c d), h d (SegMem_right c d)⟩

end Geo.Proofs.C02Y
