/-
  Helper lemmas for C09 (RDP part): the `Within` relation, the farthest-vertex fold and the
  induction over `computeRdp`.
-/
import GeoModel.Simplify
import Mathlib.Tactic.Linarith

namespace Geo.Proofs.C09
open Geo Geo.Simp

/-- `Within ok xs out`: `out` is obtained from `xs` by keeping the first and the last element
and dropping runs of elements `mid` between two consecutive kept elements `p`, `q`, where every
dropped `r` satisfies `ok r p q` ("r is within tolerance of the retained segment p-q that
replaces it"). -/
inductive Within {α : Type} (ok : α → α → α → Prop) : List α → List α → Prop
  | nil : Within ok [] []
  | single (p : α) : Within ok [p] [p]
  | step (p q : α) (mid rest out : List α) :
      (∀ r ∈ mid, ok r p q) → Within ok (q :: rest) (q :: out) →
      Within ok (p :: (mid ++ q :: rest)) (p :: q :: out)

variable {α : Type} {ok : α → α → α → Prop}

theorem within_refl : ∀ xs : List α, Within ok xs xs
  | [] => .nil
  | [p] => .single p
  | p :: q :: t => by
    have h : Within ok (q :: t) (q :: t) := within_refl (q :: t)
    exact Within.step p q [] t t (by simp) h

theorem within_sublist {xs out : List α} (h : Within ok xs out) : out.Sublist xs := by
  induction h with
  | nil => exact List.Sublist.refl _
  | single p => exact List.Sublist.refl _
  | step p q mid rest out _ _ ih =>
    exact List.Sublist.cons_cons p (ih.trans (List.sublist_append_right mid _))

theorem within_head {xs out : List α} (h : Within ok xs out) : out.head? = xs.head? := by
  cases h <;> rfl

theorem within_last {xs out : List α} (h : Within ok xs out) : out.getLast? = xs.getLast? := by
  induction h with
  | nil => rfl
  | single p => rfl
  | step p q mid rest out _ _ ih =>
    rw [List.getLast?_cons_cons, ih]
    have : (p :: (mid ++ q :: rest)) = (p :: mid) ++ (q :: rest) := by simp
    rw [this, List.getLast?_append]
    cases h : (q :: rest).getLast? with
    | none => simp at h
    | some v => simp

theorem within_length_le {xs out : List α} (h : Within ok xs out) : out.length ≤ xs.length :=
  (within_sublist h).length_le

/-- gluing two simplified pieces that share the element `m` -/
theorem within_glue {xs a : List α} (h : Within ok xs a) :
    ∀ (m : α) (v b : List α), xs.getLast? = some m → Within ok (m :: v) (m :: b) →
      Within ok (xs ++ v) (a ++ b) := by
  induction h with
  | nil => intro m v b hl; simp at hl
  | single p =>
    intro m v b hl hw
    simp at hl; subst hl; simpa using hw
  | step p q mid rest out hmid _ ih =>
    intro m v b hl hw
    have hl' : (q :: rest).getLast? = some m := by
      have : (p :: (mid ++ q :: rest)) = (p :: mid) ++ (q :: rest) := by simp
      rw [this, List.getLast?_append] at hl
      cases h : (q :: rest).getLast? with
      | none => simp at h
      | some v => rw [h] at hl; simpa using hl
    have := ih m v b hl' hw
    have e1 : (p :: (mid ++ q :: rest)) ++ v = p :: (mid ++ q :: (rest ++ v)) := by simp
    have e2 : (p :: q :: out) ++ b = p :: q :: (out ++ b) := by simp
    rw [e1, e2]
    exact Within.step p q mid (rest ++ v) (out ++ b) hmid (by simpa using this)

theorem within_map {β : Type} {ok' : β → β → β → Prop} (f : α → β)
    (hf : ∀ r p q, ok r p q → ok' (f r) (f p) (f q)) {xs out : List α} (h : Within ok xs out) :
    Within ok' (xs.map f) (out.map f) := by
  induction h with
  | nil => exact .nil
  | single p => exact .single _
  | step p q mid rest out hmid _ ih =>
    simp only [List.map_cons, List.map_append]
    refine Within.step (f p) (f q) (mid.map f) (rest.map f) (out.map f) ?_ (by simpa using ih)
    intro r hr
    rcases List.mem_map.1 hr with ⟨r', hr', rfl⟩
    exact hf _ _ _ (hmid r' hr')

/-! ### segment distance -/

theorem dist2_nonneg (p q : Pt) : 0 ≤ dist2 p q := by
  unfold dist2; nlinarith [mul_self_nonneg (p.x - q.x), mul_self_nonneg (p.y - q.y)]

theorem segDist2_nonneg (p a b : Pt) : 0 ≤ segDist2 p a b := by
  unfold segDist2
  split
  · exact dist2_nonneg _ _
  · simp only
    split
    · exact dist2_nonneg _ _
    · split
      · exact dist2_nonneg _ _
      · rename_i h1 h2
        apply div_nonneg (mul_self_nonneg _)
        nlinarith [mul_self_nonneg (b.x - a.x), mul_self_nonneg (b.y - a.y)]

/-! ### the farthest-vertex fold -/

theorem farthestGo_spec (a b : Pt) : ∀ (l : List RI) (pos : Nat) (acc : Nat × Rat),
    acc.2 ≤ (farthestGo a b l pos acc).2 ∧
    (∀ x ∈ l, segDist2 x.1 a b ≤ (farthestGo a b l pos acc).2) ∧
    (farthestGo a b l pos acc = acc ∨
      (pos ≤ (farthestGo a b l pos acc).1 ∧ (farthestGo a b l pos acc).1 < pos + l.length))
  | [], pos, acc => by simp [farthestGo]
  | x :: rest, pos, acc => by
    simp only [farthestGo]
    have ih := farthestGo_spec a b rest (pos + 1)
      (if acc.2 ≤ segDist2 x.1 a b then (pos, segDist2 x.1 a b) else acc)
    obtain ⟨h1, h2, h3⟩ := ih
    by_cases hc : acc.2 ≤ segDist2 x.1 a b
    · simp only [hc, if_true] at h1 h2 h3 ⊢
      refine ⟨le_trans hc h1, ?_, ?_⟩
      · intro y hy
        rcases List.mem_cons.1 hy with rfl | hy
        · exact h1
        · exact h2 y hy
      · right
        rcases h3 with h3 | h3
        · rw [h3]; simp
        · simp only [List.length_cons]; omega
    · simp only [hc, if_false] at h1 h2 h3 ⊢
      refine ⟨h1, ?_, ?_⟩
      · intro y hy
        rcases List.mem_cons.1 hy with rfl | hy
        · exact le_trans (le_of_lt (not_le.1 hc)) h1
        · exact h2 y hy
      · rcases h3 with h3 | h3
        · left; exact h3
        · right; simp only [List.length_cons]; omega

theorem interior_length (xs : List α) : (interior xs).length = xs.length - 2 := by
  simp [interior]; omega

/-- a list with at least two elements is `first :: interior ++ [last]` -/
theorem eq_cons_interior_last (first : α) (t : List α) (h : 2 ≤ (first :: t).length) :
    first :: t = first :: (interior (first :: t) ++ [(first :: t).getLast?.getD first]) := by
  have ht : t ≠ [] := by intro e; subst e; simp at h
  simp only [interior, List.tail_cons]
  congr 1
  have hl : (first :: t).getLast? = t.getLast? := by
    cases t with
    | nil => exact absurd rfl ht
    | cons b t' => exact List.getLast?_cons_cons
  rw [hl]
  have := List.dropLast_concat_getLast (l := t) ht
  rw [List.getLast?_eq_some_getLast ht]
  simpa using this.symm

theorem farthest_bound (first last : RI) (xs : List RI) (h : 3 ≤ xs.length) :
    (farthest first last xs).1 + 2 ≤ xs.length := by
  unfold farthest
  obtain ⟨_, _, h3⟩ := farthestGo_spec first.1 last.1 (interior xs) 1 (0, 0)
  rw [interior_length] at h3
  rcases h3 with h3 | h3
  · rw [h3]; simp; omega
  · omega

theorem farthest_max (first last : RI) (xs : List RI) :
    ∀ x ∈ interior xs, segDist2 x.1 first.1 last.1 ≤ (farthest first last xs).2 :=
  (farthestGo_spec first.1 last.1 (interior xs) 1 (0, 0)).2.1

/-- when the slice has an interior, the farthest index is an interior position (`≥ 1`) -/
theorem farthest_pos (first last : RI) (xs : List RI) (h : 3 ≤ xs.length) :
    1 ≤ (farthest first last xs).1 := by
  unfold farthest
  have hl := interior_length xs
  cases hi : interior xs with
  | nil => rw [hi] at hl; simp at hl; omega
  | cons x rest =>
    simp only [farthestGo]
    have hx : (0 : Rat) ≤ segDist2 x.1 first.1 last.1 := segDist2_nonneg _ _ _
    simp only [hx, if_true]
    obtain ⟨_, _, h3⟩ := farthestGo_spec first.1 last.1 rest (1 + 1) (1, segDist2 x.1 first.1 last.1)
    rcases h3 with h3 | h3
    · rw [h3]
    · omega

/-! ### `computeRdp` -/

/-- the tolerance predicate on index/coordinate pairs -/
def okRI (e2 : Rat) (r p q : RI) : Prop := segDist2 r.1 p.1 q.1 ≤ e2

theorem computeRdp_within (mn : Nat) (e2 : Rat) : ∀ (fuel : Nat) (xs : List RI) (sl : Nat),
    Within (okRI e2) xs (computeRdp mn e2 fuel xs sl).1
  | 0, xs, sl => by simp [computeRdp]; exact within_refl xs
  | fuel + 1, [], sl => by simp [computeRdp]; exact .nil
  | fuel + 1, first :: t, sl => by
    simp only [computeRdp]
    split
    · exact within_refl _
    · rename_i hlen
      have hlen3 : 3 ≤ (first :: t).length := by omega
      generalize hlast : (first :: t).getLast?.getD first = last
      generalize hfar : farthest first last (first :: t) = far
      obtain ⟨fi, fd⟩ := far
      simp only
      split
      · -- split at the farthest vertex
        have hb := farthest_bound first last (first :: t) hlen3
        rw [hfar] at hb
        simp only at hb
        have hfi : fi < (first :: t).length := by omega
        generalize hL : computeRdp mn e2 fuel (List.take (fi + 1) (first :: t)) sl = resL
        obtain ⟨a, sl1⟩ := resL
        generalize hR : computeRdp mn e2 fuel (List.drop fi (first :: t)) sl1 = resR
        obtain ⟨b, sl2⟩ := resR
        simp only
        have wL := computeRdp_within mn e2 fuel (List.take (fi + 1) (first :: t)) sl
        have wR := computeRdp_within mn e2 fuel (List.drop fi (first :: t)) sl1
        rw [hL] at wL; rw [hR] at wR
        simp only at wL wR
        set xs := first :: t with hxs
        set m := xs[fi] with hm
        have hdrop : List.drop fi xs = m :: List.drop (fi + 1) xs := List.drop_eq_getElem_cons hfi
        have htake : List.take (fi + 1) xs = List.take fi xs ++ [m] := (List.take_append_getElem hfi).symm
        -- `b` starts with `m`
        rw [hdrop] at wR
        have hbh := within_head wR
        obtain ⟨b', rfl⟩ : ∃ b', b = m :: b' := by
          cases b with
          | nil => simp at hbh
          | cons b0 b' => simp at hbh; exact ⟨b', by rw [hbh]⟩
        -- `a` ends with `m`
        have hal := within_last wL
        have hLl : (List.take (fi + 1) xs).getLast? = some m := by rw [htake]; simp
        rw [hLl] at hal
        have ha : a = a.dropLast ++ [m] := by
          have hne : a ≠ [] := by intro e; subst e; simp at hal
          have := List.dropLast_concat_getLast (l := a) hne
          rw [List.getLast?_eq_some_getLast hne] at hal
          simp at hal
          rw [hal] at this
          exact this.symm
        have g := within_glue wL m (List.drop (fi + 1) xs) b' hLl wR
        have e1 : List.take (fi + 1) xs ++ List.drop (fi + 1) xs = xs := List.take_append_drop _ _
        rw [e1] at g
        have e2' : a.dropLast ++ m :: b' = a ++ b' := by
          conv_rhs => rw [ha]
          simp
        rw [e2']
        exact g
      · rename_i hfd
        split
        · exact within_refl _
        · -- cull everything between first and last
          have hmax := farthest_max first last (first :: t)
          rw [hfar] at hmax
          simp only at hmax
          have heq := eq_cons_interior_last first t (by omega)
          rw [hlast] at heq
          have : Within (okRI e2) (first :: (interior (first :: t) ++ last :: [])) [first, last] :=
            Within.step first last (interior (first :: t)) [] [] (by
              intro r hr
              exact le_trans (hmax r hr) (not_lt.1 hfd)) (.single last)
          rw [← heq] at this
          exact this

/-- bookkeeping of `simplified_len`: it drops by exactly the number of culled indices, never
underflows and never goes below `INITIAL_MIN`. -/
theorem computeRdp_len (mn : Nat) (e2 : Rat) : ∀ (fuel : Nat) (xs : List RI) (sl : Nat),
    xs.length ≤ sl →
    (computeRdp mn e2 fuel xs sl).2 + xs.length = sl + (computeRdp mn e2 fuel xs sl).1.length ∧
    (mn ≤ sl → mn ≤ (computeRdp mn e2 fuel xs sl).2)
  | 0, xs, sl => by intro _; simp [computeRdp]
  | fuel + 1, [], sl => by intro _; simp [computeRdp]
  | fuel + 1, first :: t, sl => by
    intro hsl
    simp only [computeRdp]
    split
    · simp
    · rename_i hlen
      have hlen3 : 3 ≤ (first :: t).length := by omega
      generalize hlast : (first :: t).getLast?.getD first = last
      generalize hfar : farthest first last (first :: t) = far
      obtain ⟨fi, fd⟩ := far
      simp only
      split
      · have hb := farthest_bound first last (first :: t) hlen3
        rw [hfar] at hb
        simp only at hb
        generalize hL : computeRdp mn e2 fuel (List.take (fi + 1) (first :: t)) sl = resL
        obtain ⟨a, sl1⟩ := resL
        generalize hR : computeRdp mn e2 fuel (List.drop fi (first :: t)) sl1 = resR
        obtain ⟨b, sl2⟩ := resR
        simp only
        set xs := first :: t with hxs
        have lenL : (List.take (fi + 1) xs).length = fi + 1 := by rw [List.length_take]; omega
        have lenR : (List.drop fi xs).length = xs.length - fi := List.length_drop
        have iL := computeRdp_len mn e2 fuel (List.take (fi + 1) xs) sl (by omega)
        rw [hL] at iL; simp only at iL
        have wL := computeRdp_within mn e2 fuel (List.take (fi + 1) xs) sl
        rw [hL] at wL; simp only at wL
        have ha1 : 1 ≤ a.length := by
          have hh := within_head wL
          cases a with
          | nil => simp [hxs] at hh
          | cons _ _ => simp
        have iR := computeRdp_len mn e2 fuel (List.drop fi xs) sl1 (by omega)
        rw [hR] at iR; simp only at iR
        refine ⟨?_, fun h => iR.2 (iL.2 h)⟩
        simp only [List.length_append, List.length_dropLast]
        omega
      · split
        · simp
        · rename_i hnl
          simp only [List.length_cons, List.length_nil]
          simp only [List.length_cons] at hnl hlen3 hsl
          constructor <;> omega

/-- the recursion never runs out of fuel when started with the slice length: any two fuels that
are at least the slice length give the same result (both sub-slices are strictly shorter because
`1 ≤ farthest_index ≤ len - 2`). -/
theorem computeRdp_fuel (mn : Nat) (e2 : Rat) : ∀ (f1 f2 : Nat) (xs : List RI) (sl : Nat),
    xs.length ≤ f1 → xs.length ≤ f2 → computeRdp mn e2 f1 xs sl = computeRdp mn e2 f2 xs sl
  | 0, f2, xs, sl => by
    intro h1 _
    have : xs = [] := List.length_eq_zero_iff.1 (by omega)
    subst this
    cases f2 <;> simp [computeRdp]
  | f1 + 1, 0, xs, sl => by
    intro _ h2
    have : xs = [] := List.length_eq_zero_iff.1 (by omega)
    subst this
    simp [computeRdp]
  | f1 + 1, f2 + 1, [], sl => by intro _ _; simp [computeRdp]
  | f1 + 1, f2 + 1, first :: t, sl => by
    intro h1 h2
    simp only [computeRdp]
    split
    · rfl
    · rename_i hlen
      have hlen3 : 3 ≤ (first :: t).length := by omega
      generalize hlast : (first :: t).getLast?.getD first = last
      generalize hfar : farthest first last (first :: t) = far
      obtain ⟨fi, fd⟩ := far
      simp only
      split
      · have hb := farthest_bound first last (first :: t) hlen3
        have hp := farthest_pos first last (first :: t) hlen3
        rw [hfar] at hb hp
        simp only at hb hp
        set xs := first :: t with hxs
        have lenL : (List.take (fi + 1) xs).length = fi + 1 := by rw [List.length_take]; omega
        have lenR : (List.drop fi xs).length = xs.length - fi := List.length_drop
        rw [computeRdp_fuel mn e2 f1 f2 (List.take (fi + 1) xs) sl (by omega) (by omega)]
        rw [computeRdp_fuel mn e2 f1 f2 (List.drop fi xs) _ (by omega) (by omega)]
      · rfl

/-- below `INITIAL_MIN` nothing is ever culled: the input comes back unchanged -/
theorem computeRdp_below_min (mn : Nat) (e2 : Rat) : ∀ (fuel : Nat) (xs : List RI) (sl : Nat),
    sl < mn → computeRdp mn e2 fuel xs sl = (xs, sl)
  | 0, xs, sl => by intro _; simp [computeRdp]
  | fuel + 1, [], sl => by intro _; simp [computeRdp]
  | fuel + 1, first :: t, sl => by
    intro hsl
    simp only [computeRdp]
    split
    · rfl
    · rename_i hlen
      have hlen3 : 3 ≤ (first :: t).length := by omega
      generalize hlast : (first :: t).getLast?.getD first = last
      generalize hfar : farthest first last (first :: t) = far
      obtain ⟨fi, fd⟩ := far
      simp only
      split
      · have hb := farthest_bound first last (first :: t) hlen3
        rw [hfar] at hb
        simp only at hb
        rw [computeRdp_below_min mn e2 fuel _ sl hsl]
        simp only
        rw [computeRdp_below_min mn e2 fuel _ sl hsl]
        simp only
        set xs := first :: t with hxs
        have hfi : fi < xs.length := by omega
        rw [← List.take_append_getElem hfi, List.dropLast_concat, List.take_append_drop]
      · split
        · rfl
        · rename_i hnl
          omega

end Geo.Proofs.C09
