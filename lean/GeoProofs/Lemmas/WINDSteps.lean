/-
  WIND, part 8: the left face samples beside a closed ring keep their winding number along an edge
  (`edge_step`) and around a vertex (`vertex_step`).

  In both cases the increments of the edges that are not involved change by potential differences
  (`ptInc_diff` / `ptInc_horiz`) along a path that stays on the ring itself (`P → P'` inside one
  edge; `P → v → Q` through the common vertex of two consecutive edges), which telescope along the
  closed ring; the rest is the local statement `vertex_local`. No smallness argument is needed.
-/
import GeoProofs.Lemmas.WINDVertex

set_option linter.unusedSimpArgs false
set_option linter.unusedVariables false

namespace Geo.Proofs.WIND
open Geo Geo.Proofs.Kernel Geo.Proofs.Loc Geo.Proofs.C02Q Geo.Proofs.Spec

/-- the difference of the increments of a family of edges between the two ends of a segment that
none of them meets, as a sum of potential differences (any direction of the segment) -/
theorem sum_ptInc_diff (l : List (Pt × Pt)) (m p : Pt)
    (hdis : ∀ se ∈ l, ¬ ∃ x, SegMem x se.1 se.2 ∧ SegMem x m p) :
    (l.map (fun se => ptInc p se.1 se.2)).sum - (l.map (fun se => ptInc m se.1 se.2)).sum =
      if m.y < p.y then
        (l.map (fun se => inR m.y p.y se.1.y (cross m p se.1) - inR m.y p.y se.2.y (cross m p se.2))).sum
      else if p.y < m.y then
        - (l.map (fun se => inR p.y m.y se.1.y (cross p m se.1) - inR p.y m.y se.2.y (cross p m se.2))).sum
      else 0 := by
  rw [sum_map_sub']
  rcases lt_trichotomy m.y p.y with hlt | heq | hgt
  · rw [if_pos hlt]
    apply sum_map_congr
    intro se hse
    exact ptInc_diff hlt (hdis se hse)
  · rw [if_neg (by linarith), if_neg (by linarith)]
    have : ∀ se ∈ l, ptInc p se.1 se.2 - ptInc m se.1 se.2 = 0 := by
      intro se hse
      have := ptInc_horiz heq (hdis se hse)
      omega
    rw [sum_map_congr _ _ (fun _ => (0 : Int)) this, sum_map_const_zero]
  · rw [if_neg (by linarith), if_pos hgt]
    have : ∀ se ∈ l, ptInc p se.1 se.2 - ptInc m se.1 se.2 =
        - (inR p.y m.y se.1.y (cross p m se.1) - inR p.y m.y se.2.y (cross p m se.2)) := by
      intro se hse
      have hd : ¬ ∃ x, SegMem x se.1 se.2 ∧ SegMem x p m := by
        rintro ⟨x, h1, h2⟩
        exact hdis se hse ⟨x, h1, SegMem_symm h2⟩
      have := ptInc_diff hgt hd
      omega
    rw [sum_map_congr _ _ _ this]
    generalize l = l'
    induction l' with
    | nil => simp
    | cons a t ih => simp only [List.map_cons, List.sum_cons, ih]; omega

/-- a point on the line through two points has no potential relative to a segment on that line -/
theorem inR_collinear (ym yp y : Rat) : inR ym yp y 0 = 0 := by
  unfold inR
  rw [if_neg]
  intro h
  exact lt_irrefl _ h.2.2

/-! ### along an edge -/

/-- **the left face sample keeps its winding number along an edge** -/
theorem edge_step (ring : List Pt) (hc : ring.head? = ring.getLast?) {a b P P' : Pt}
    (hone : (segs ring).filter (onE P) = [(a, b)]) (hone' : (segs ring).filter (onE P') = [(a, b)])
    (hab : a ≠ b) (hP : SegMem P a b) (hPa : P ≠ a) (hPb : P ≠ b)
    (hP' : SegMem P' a b) (hPa' : P' ≠ a) (hPb' : P' ≠ b)
    (hclear : ∀ se ∈ segs ring, onE P se = false → ¬ ∃ x, SegMem x se.1 se.2 ∧ SegMem x P P') :
    windingE (faceL a b P) ring = windingE (faceL a b P') ring := by
  obtain ⟨f1, _⟩ := windingE_faces ring hc hone hab hP hPa hPb
  obtain ⟨f2, _⟩ := windingE_faces ring hc hone' hab hP' hPa' hPb'
  rw [f1, f2]
  -- the two families of off-edges coincide
  have hsame : ∀ se ∈ segs ring, onE P' se = onE P se := by
    intro se hse
    cases h1 : onE P se with
    | true =>
      have : se ∈ (segs ring).filter (onE P) := List.mem_filter.mpr ⟨hse, h1⟩
      rw [hone, List.mem_singleton] at this
      rw [this]; exact (lineCoord_iff _ _ _).mpr hP'
    | false =>
      cases h2 : onE P' se with
      | false => rfl
      | true =>
        have : se ∈ (segs ring).filter (onE P') := List.mem_filter.mpr ⟨hse, h2⟩
        rw [hone', List.mem_singleton] at this
        rw [this] at h1
        have : onE P (a, b) = true := (lineCoord_iff _ _ _).mpr hP
        rw [h1] at this; cases this
  have hfl : (segs ring).filter (fun se => !onE P' se) = (segs ring).filter (fun se => !onE P se) :=
    List.filter_congr (fun se hse => by rw [hsame se hse])
  rw [hfl]
  have hdis : ∀ se ∈ (segs ring).filter (fun se => !onE P se),
      ¬ ∃ x, SegMem x se.1 se.2 ∧ SegMem x P P' := by
    intro se hse
    rw [List.mem_filter] at hse
    exact hclear se hse.1 (by simpa using hse.2)
  have hd := sum_ptInc_diff _ P P' hdis
  -- the potential differences of the off-edges telescope to the contribution of `(a, b)`, which is
  -- zero because `a` and `b` are collinear with `P P'`
  obtain ⟨t, _, _, hx, hy⟩ := hP
  obtain ⟨t', _, _, hx', hy'⟩ := hP'
  have ca : cross P P' a = 0 := by unfold cross; rw [hx, hy, hx', hy']; ring
  have cb : cross P P' b = 0 := by unfold cross; rw [hx, hy, hx', hy']; ring
  have ca' : cross P' P a = 0 := by unfold cross; rw [hx, hy, hx', hy']; ring
  have cb' : cross P' P b = 0 := by unfold cross; rw [hx, hy, hx', hy']; ring
  rw [sum_off_potential ring hc hone (fun v => inR P.y P'.y v.y (cross P P' v)),
    sum_off_potential ring hc hone (fun v => inR P'.y P.y v.y (cross P' P v))] at hd
  simp only [ca, cb, ca', cb', inR_collinear] at hd
  split_ifs at hd <;> omega

/-! ### around a vertex -/

/-- the sum over the edges through neither `P` nor `Q` of a potential difference -/
theorem sum_oth_potential (ring : List Pt) (hc : ring.head? = ring.getLast?) {a v b P Q : Pt}
    (honeP : (segs ring).filter (onE P) = [(a, v)]) (honeQ : (segs ring).filter (onE Q) = [(v, b)])
    (hPQ : onE P (v, b) = false) (φ : Pt → Int) :
    (((segs ring).filter (fun se => !onE P se && !onE Q se)).map (fun se => φ se.1 - φ se.2)).sum =
      φ b - φ a := by
  have h1 := sum_off_potential ring hc honeP φ
  rw [sum_filter_split ((segs ring).filter (fun se => !onE P se)) (onE Q)] at h1
  have e1 : ((segs ring).filter (fun se => !onE P se)).filter (onE Q) = [(v, b)] := by
    rw [List.filter_filter, ← honeQ]
    apply List.filter_congr
    intro se hse
    cases hq : onE Q se with
    | false => simp
    | true =>
      have : se ∈ (segs ring).filter (onE Q) := List.mem_filter.mpr ⟨hse, hq⟩
      rw [honeQ, List.mem_singleton] at this
      rw [this, hPQ]; rfl
  have e2 : ((segs ring).filter (fun se => !onE P se)).filter (fun se => !onE Q se) =
      (segs ring).filter (fun se => !onE P se && !onE Q se) := by
    rw [List.filter_filter]
    apply List.filter_congr
    intro se _
    rw [Bool.and_comm]
  rw [e1, e2] at h1
  simp only [List.map_cons, List.map_nil, List.sum_cons, List.sum_nil, add_zero] at h1
  omega

/-- split of the off-edges of `P` into the other edge and the rest -/
theorem sum_off_split (ring : List Pt) {v b P Q : Pt}
    (honeQ : (segs ring).filter (onE Q) = [(v, b)]) (hPQ : onE P (v, b) = false) (f : Pt × Pt → Int) :
    (((segs ring).filter (fun se => !onE P se)).map f).sum =
      f (v, b) + (((segs ring).filter (fun se => !onE P se && !onE Q se)).map f).sum := by
  rw [sum_filter_split ((segs ring).filter (fun se => !onE P se)) (onE Q)]
  have e1 : ((segs ring).filter (fun se => !onE P se)).filter (onE Q) = [(v, b)] := by
    rw [List.filter_filter, ← honeQ]
    apply List.filter_congr
    intro se hse
    cases hq : onE Q se with
    | false => simp
    | true =>
      have : se ∈ (segs ring).filter (onE Q) := List.mem_filter.mpr ⟨hse, hq⟩
      rw [honeQ, List.mem_singleton] at this
      rw [this, hPQ]; rfl
  have e2 : ((segs ring).filter (fun se => !onE P se)).filter (fun se => !onE Q se) =
      (segs ring).filter (fun se => !onE P se && !onE Q se) := by
    rw [List.filter_filter]
    apply List.filter_congr
    intro se _
    rw [Bool.and_comm]
  rw [e1, e2]
  simp only [List.map_cons, List.map_nil, List.sum_cons, List.sum_nil, add_zero]

/-- **the left face sample keeps its winding number around a vertex**: consecutive edges `(a, v)`,
`(v, b)` that share only `v` (`hU`), no other edge through `v` or meeting `P v` or `v Q` -/
theorem vertex_step (ring : List Pt) (hc : ring.head? = ring.getLast?) {a v b P Q : Pt}
    (honeP : (segs ring).filter (onE P) = [(a, v)]) (honeQ : (segs ring).filter (onE Q) = [(v, b)])
    (hav : a ≠ v) (hvb : v ≠ b)
    (hP : SegMem P a v) (hPa : P ≠ a) (hPv : P ≠ v)
    (hQ : SegMem Q v b) (hQv : Q ≠ v) (hQb : Q ≠ b)
    (hPQ : onE P (v, b) = false) (hQP : onE Q (a, v) = false)
    (hclearP : ∀ se ∈ segs ring, onE P se = false → onE Q se = false →
      ¬ ∃ x, SegMem x se.1 se.2 ∧ SegMem x P v)
    (hclearQ : ∀ se ∈ segs ring, onE P se = false → onE Q se = false →
      ¬ ∃ x, SegMem x se.1 se.2 ∧ SegMem x v Q)
    (hU : cross a v b = 0 → 0 < (v.x - a.x) * (b.x - v.x) + (v.y - a.y) * (b.y - v.y)) :
    windingE (faceL a v P) ring = windingE (faceL v b Q) ring := by
  obtain ⟨f1, _⟩ := windingE_faces ring hc honeP hav hP hPa hPv
  obtain ⟨f2, _⟩ := windingE_faces ring hc honeQ hvb hQ hQv hQb
  rw [f1, f2]
  -- off-edges of `P`: the edge `(v, b)` and the rest; off-edges of `Q`: `(a, v)` and the rest
  have hfQ : (segs ring).filter (fun se => !onE Q se && !onE P se) =
      (segs ring).filter (fun se => !onE P se && !onE Q se) :=
    List.filter_congr (fun se _ => by rw [Bool.and_comm])
  rw [sum_off_split ring honeQ hPQ (fun se => ptInc P se.1 se.2),
    sum_off_split ring honeP hQP (fun se => ptInc Q se.1 se.2), hfQ]
  simp only
  set Oth := (segs ring).filter (fun se => !onE P se && !onE Q se) with hOth
  have hmemO : ∀ se ∈ Oth, se ∈ segs ring ∧ onE P se = false ∧ onE Q se = false := by
    intro se hse
    rw [hOth, List.mem_filter] at hse
    have := hse.2
    simp only [Bool.and_eq_true, Bool.not_eq_true'] at this
    exact ⟨hse.1, this.1, this.2⟩
  have hd1 := sum_ptInc_diff Oth P v (fun se hse => by
    obtain ⟨h1, h2, h3⟩ := hmemO se hse
    exact hclearP se h1 h2 h3)
  have hd2 := sum_ptInc_diff Oth v Q (fun se hse => by
    obtain ⟨h1, h2, h3⟩ := hmemO se hse
    exact hclearQ se h1 h2 h3)
  rw [sum_oth_potential ring hc honeP honeQ hPQ (fun w => inR P.y v.y w.y (cross P v w)),
    sum_oth_potential ring hc honeP honeQ hPQ (fun w => inR v.y P.y w.y (cross v P w))] at hd1
  rw [sum_oth_potential ring hc honeP honeQ hPQ (fun w => inR v.y Q.y w.y (cross v Q w)),
    sum_oth_potential ring hc honeP honeQ hPQ (fun w => inR Q.y v.y w.y (cross Q v w))] at hd2
  obtain ⟨t, t0, t1, hPx, hPy⟩ := strict_param hP hPa hPv
  obtain ⟨t', t0', t1', hQx, hQy⟩ := strict_param hQ hQv hQb
  have hloc := vertex_local t0 t1 t0' t1' hPx hPy hQx hQy hav hvb hU
  generalize (Oth.map (fun se => ptInc P se.1 se.2)).sum = SP at *
  generalize (Oth.map (fun se => ptInc v se.1 se.2)).sum = SV at *
  generalize (Oth.map (fun se => ptInc Q se.1 se.2)).sum = SQ at *
  split_ifs at hd1 hd2 hloc <;> omega

end Geo.Proofs.WIND
