/-
  C16Q — part 6: `atan2Q` against Mathlib's `Complex.arg` (a posteriori, through the certificate of the
  arcsine it calls on the better conditioned of `y/r`, `x/r`).
-/
import GeoProofs.Lemmas.C16QHav
import Mathlib.Analysis.SpecialFunctions.Complex.Arg

namespace Geo.Proofs.C16Q
open Geo Geo.Geodesy Geo.GeodesyNum

/-- `arcsin` is 4-Lipschitz on `[-3/4, 3/4]` -/
theorem arcsin_lip (p q : ℝ) (hp : |p| ≤ 3 / 4) (hq : |q| ≤ 3 / 4) :
    |Real.arcsin p - Real.arcsin q| ≤ 4 * |p - q| := by
  rw [abs_le] at hp hq
  have hpi3 : (3 : ℝ) < Real.pi := by
    have : ((3 : ℚ) : ℝ) < ((piQ : ℚ) : ℝ) := Rat.cast_lt.mpr piQ_bounds.1
    push_cast at this; linarith [piQ_lt_pi]
  have hP := arccos_interior p (7 / 10) (by norm_num) (by linarith) (by norm_num; linarith [hp.2])
    (by norm_num; linarith [hp.1])
  have hQ := arccos_interior q (7 / 10) (by norm_num) (by linarith) (by norm_num; linarith [hq.2])
    (by norm_num; linarith [hq.1])
  have hc : |Real.cos (Real.arccos p) - Real.cos (Real.arccos q)| ≤ |p - q| := by
    rw [Real.cos_arccos (by linarith [hp.1]) (by linarith [hp.2]),
      Real.cos_arccos (by linarith [hq.1]) (by linarith [hq.2])]
  have h := cos_inv_interior (Real.arccos p) (Real.arccos q) (7 / 10) (|p - q|) (by norm_num)
    hP.1 hP.2 hQ.1 hQ.2 hc
  rw [Real.arccos_eq_pi_div_two_sub_arcsin, Real.arccos_eq_pi_div_two_sub_arcsin] at h
  have e : Real.pi / 2 - Real.arcsin p - (Real.pi / 2 - Real.arcsin q) = -(Real.arcsin p - Real.arcsin q) := by
    ring
  rw [e, abs_neg] at h
  refine le_trans h ?_
  have hpi2 : Real.pi ^ 2 ≤ 10 := by
    have : Real.pi ≤ 3.15 := by linarith [pi_lt_piQ_add, (show ((piQ : ℚ) : ℝ) < ((3142 / 1000 : ℚ) : ℝ) from
      Rat.cast_lt.mpr piQ_bounds.2), (show ((3142 / 1000 : ℚ) : ℝ) + 2 / 10 ^ 40 ≤ 3.15 by norm_num)]
    nlinarith [Real.pi_pos]
  have : Real.pi ^ 2 / (4 * (7 / 10)) ≤ 4 := by
    rw [div_le_iff₀ (by norm_num)]; linarith
  exact mul_le_mul_of_nonneg_right this (abs_nonneg _)

/-- the arcsine branch: `w` the smaller coordinate (`w² ≤ ρ²/2`), `r` the grid root of `ρ²` -/
theorem asin_branch (w r : ℚ) (ρ : ℝ) (hr : 1 / 2 ^ 40 ≤ r) (h1 : (r : ℝ) ≤ ρ) (h2 : ρ < (r : ℝ) + 1 / 2 ^ 100)
    (hw : (w : ℝ) ^ 2 ≤ ρ ^ 2 / 2) (hc : asinCert (w / r) = true) :
    |((asinQ (w / r) : ℚ) : ℝ) - Real.arcsin ((w : ℝ) / ρ)| ≤ 1 / 2 ^ 42 + 1 / 2 ^ 57 := by
  have hrR : (1 : ℝ) / 2 ^ 40 ≤ (r : ℝ) := by
    have := (Rat.cast_le (K := ℝ)).mpr hr; push_cast at this; exact this
  have hrpos : (0 : ℝ) < (r : ℝ) := lt_of_lt_of_le (by positivity) hrR
  have hρpos : 0 < ρ := lt_of_lt_of_le hrpos h1
  -- |w/ρ| ≤ 0.7072
  have hp2 : ((w : ℝ) / ρ) ^ 2 ≤ (7072 / 10000 : ℝ) ^ 2 := by
    rw [div_pow, div_le_iff₀ (by positivity)]; nlinarith
  have hp := abs_le_of_sq_le_sq hp2 (by norm_num)
  -- |w/r − w/ρ| ≤ 2^-60
  have hd : |(w : ℝ) / (r : ℝ) - (w : ℝ) / ρ| ≤ 1 / 2 ^ 60 := by
    have e : (w : ℝ) / (r : ℝ) - (w : ℝ) / ρ = ((w : ℝ) / ρ) * ((ρ - (r : ℝ)) / (r : ℝ)) := by
      field_simp
    rw [e, abs_mul]
    have b1 : |(w : ℝ) / ρ| ≤ 1 := le_trans hp (by norm_num)
    have b2 : |(ρ - (r : ℝ)) / (r : ℝ)| ≤ 1 / 2 ^ 60 := by
      rw [abs_div, abs_of_pos hrpos, abs_of_nonneg (by linarith), div_le_iff₀ hrpos]
      have : (1 : ℝ) / 2 ^ 60 * (1 / 2 ^ 40) = 1 / 2 ^ 100 := by norm_num
      nlinarith
    calc |(w : ℝ) / ρ| * |(ρ - (r : ℝ)) / (r : ℝ)| ≤ 1 * (1 / 2 ^ 60) :=
          mul_le_mul b1 b2 (abs_nonneg _) (by norm_num)
      _ = 1 / 2 ^ 60 := one_mul _
  have hq : |(w : ℝ) / (r : ℝ)| ≤ 3 / 4 := by
    have := abs_sub_abs_le_abs_sub ((w : ℝ) / (r : ℝ)) ((w : ℝ) / ρ)
    have : (7072 / 10000 : ℝ) + 1 / 2 ^ 60 ≤ 3 / 4 := by norm_num
    linarith
  have hq1 : |w / r| ≤ 1 := by
    have : |((w / r : ℚ) : ℝ)| ≤ ((1 : ℚ) : ℝ) := by push_cast; linarith
    rw [← Rat.cast_abs] at this
    exact_mod_cast this
  have k1 := ratAsin_close_partial (w / r) hq1 hc
  push_cast at k1
  have k2 := arcsin_lip ((w : ℝ) / (r : ℝ)) ((w : ℝ) / ρ) hq (le_trans hp (by norm_num))
  have e : ((asinQ (w / r) : ℚ) : ℝ) - Real.arcsin ((w : ℝ) / ρ) =
      (((asinQ (w / r) : ℚ) : ℝ) - Real.arcsin ((w : ℝ) / (r : ℝ))) +
      (Real.arcsin ((w : ℝ) / (r : ℝ)) - Real.arcsin ((w : ℝ) / ρ)) := by ring
  rw [e]
  refine le_trans (abs_add_le _ _) ?_
  have : (4 : ℝ) * (1 / 2 ^ 60) ≤ 1 / 2 ^ 57 := by norm_num
  linarith

/-- Mathlib's two-argument arctangent: the argument of `x + y·i` -/
noncomputable def arg2 (y x : ℝ) : ℝ := Complex.arg ⟨x, y⟩

theorem norm_mk (x y : ℝ) : ‖(⟨x, y⟩ : ℂ)‖ = Real.sqrt (x ^ 2 + y ^ 2) := Complex.norm_eq_sqrt_sq_add_sq _

theorem atan2Q_eq (y x : ℚ) : atan2Q y x =
    if x == 0 && y == 0 then 0 else
    if sqrtQ (x * x + y * y) == 0 then 0 else
    if rabs y ≤ rabs x then
      (if x > 0 then asinQ (y / sqrtQ (x * x + y * y)) else
        if y ≥ 0 then piQ - asinQ (y / sqrtQ (x * x + y * y)) else -piQ - asinQ (y / sqrtQ (x * x + y * y)))
    else
      (if y > 0 then piQ / 2 - asinQ (x / sqrtQ (x * x + y * y)) else -piQ / 2 + asinQ (x / sqrtQ (x * x + y * y))) := rfl

/-- [T] (a posteriori) `atan2Q y x` against `Complex.arg (x + y·i)`, for `√(x²+y²) ≥ 2^-40` on the
grid and GIVEN the certificate of the arcsine that the branch calls: `2^-41`. -/
theorem ratAtan2_close (y x : ℚ) (hr : 1 / 2 ^ 40 ≤ sqrtQ (x * x + y * y))
    (hc : asinCert ((if rabs y ≤ rabs x then y else x) / sqrtQ (x * x + y * y)) = true) :
    |((atan2Q y x : ℚ) : ℝ) - arg2 (y : ℝ) (x : ℝ)| ≤ 1 / 2 ^ 41 := by
  set r := sqrtQ (x * x + y * y) with hrdef
  have hrpos : 0 < r := lt_of_lt_of_le (by positivity) hr
  have hq0 : 0 ≤ x * x + y * y := add_nonneg (mul_self_nonneg x) (mul_self_nonneg y)
  obtain ⟨s1, s2⟩ := ratSqrt_real (x * x + y * y) hq0
  rw [← hrdef] at s1 s2
  set ρ : ℝ := Real.sqrt (((x * x + y * y : ℚ)) : ℝ) with hρdef
  have hρ2 : ρ ^ 2 = (x : ℝ) ^ 2 + (y : ℝ) ^ 2 := by
    rw [hρdef, Real.sq_sqrt (by exact_mod_cast hq0)]; push_cast; ring
  have hnorm : ‖(⟨(x : ℝ), (y : ℝ)⟩ : ℂ)‖ = ρ := by
    rw [norm_mk, hρdef]; congr 1; push_cast; ring
  have hne : ¬ (x = 0 ∧ y = 0) := by
    rintro ⟨rfl, rfl⟩
    have : r = 0 := by rw [hrdef]; exact sqrtQ_nonpos _ (by norm_num)
    linarith
  have hpe := abs_pi_sub_piQ
  rw [abs_le] at hpe
  have hsmall : (1 : ℝ) / 2 ^ 42 + 1 / 2 ^ 57 + 2 / 10 ^ 40 ≤ 1 / 2 ^ 41 := by norm_num
  rw [atan2Q_eq, ← hrdef]
  have c1 : (x == 0 && y == 0) = false := by
    simp only [Bool.and_eq_false_iff, beq_eq_false_iff_ne]
    by_cases hx : x = 0
    · right; exact fun hy => hne ⟨hx, hy⟩
    · left; exact hx
  have c2 : (r == 0) = false := by simp [hrpos.ne']
  simp only [c1, c2, Bool.false_eq_true, if_false]
  rw [rabs_eq, rabs_eq] at hc ⊢
  unfold arg2
  by_cases hyx : |y| ≤ |x|
  · simp only [hyx, if_true] at hc ⊢
    have hw : (y : ℝ) ^ 2 ≤ ρ ^ 2 / 2 := by
      have : y ^ 2 ≤ x ^ 2 := sq_le_sq.mpr hyx
      have : (y : ℝ) ^ 2 ≤ (x : ℝ) ^ 2 := by exact_mod_cast this
      rw [hρ2]; linarith
    have hb := asin_branch y r ρ hr s1 s2 hw hc
    have hx0 : x ≠ 0 := by
      intro h0; rw [h0, abs_zero] at hyx
      exact hne ⟨h0, abs_eq_zero.mp (le_antisymm hyx (abs_nonneg y))⟩
    by_cases hxp : x > 0
    · simp only [hxp, if_true]
      rw [Complex.arg_of_re_nonneg (by show (0 : ℝ) ≤ (x : ℝ); exact_mod_cast hxp.le), hnorm]
      show |((asinQ (y / r) : ℚ) : ℝ) - Real.arcsin ((y : ℝ) / ρ)| ≤ _
      linarith
    · simp only [hxp, if_false]
      have hxn : x < 0 := lt_of_le_of_ne (not_lt.mp hxp) hx0
      have hxnR : (x : ℝ) < 0 := by exact_mod_cast hxn
      by_cases hy0 : y ≥ 0
      · simp only [hy0, if_true]
        rw [Complex.arg_of_re_neg_of_im_nonneg (by exact hxnR) (by show (0 : ℝ) ≤ (y : ℝ); exact_mod_cast hy0), hnorm]
        have e : ((-(⟨(x : ℝ), (y : ℝ)⟩ : ℂ)).im) / ρ = -((y : ℝ) / ρ) := by simp [neg_div]
        rw [e, Real.arcsin_neg]
        push_cast
        rw [abs_le] at hb ⊢
        constructor <;> linarith [hb.1, hb.2]
      · simp only [hy0, if_false]
        have hyn : (y : ℝ) < 0 := by exact_mod_cast not_le.mp hy0
        rw [Complex.arg_of_re_neg_of_im_neg (by exact hxnR) (by exact hyn), hnorm]
        have e : ((-(⟨(x : ℝ), (y : ℝ)⟩ : ℂ)).im) / ρ = -((y : ℝ) / ρ) := by simp [neg_div]
        rw [e, Real.arcsin_neg]
        push_cast
        rw [abs_le] at hb ⊢
        constructor <;> linarith [hb.1, hb.2]
  · simp only [hyx, if_false] at hc ⊢
    have hw : (x : ℝ) ^ 2 ≤ ρ ^ 2 / 2 := by
      have : x ^ 2 ≤ y ^ 2 := sq_le_sq.mpr (not_le.mp hyx).le
      have : (x : ℝ) ^ 2 ≤ (y : ℝ) ^ 2 := by exact_mod_cast this
      rw [hρ2]; linarith
    have hb := asin_branch x r ρ hr s1 s2 hw hc
    have hy0 : y ≠ 0 := by
      intro h0; rw [h0, abs_zero] at hyx; exact hyx (abs_nonneg x)
    by_cases hyp : y > 0
    · simp only [hyp, if_true]
      rw [Complex.arg_of_im_pos (by show (0 : ℝ) < (y : ℝ); exact_mod_cast hyp), hnorm,
        Real.arccos_eq_pi_div_two_sub_arcsin]
      show |((piQ / 2 - asinQ (x / r) : ℚ) : ℝ) - (Real.pi / 2 - Real.arcsin ((x : ℝ) / ρ))| ≤ _
      push_cast
      rw [abs_le] at hb ⊢
      constructor <;> linarith [hb.1, hb.2]
    · simp only [hyp, if_false]
      have hyn : y < 0 := lt_of_le_of_ne (not_lt.mp hyp) hy0
      rw [Complex.arg_of_im_neg (by show (y : ℝ) < 0; exact_mod_cast hyn), hnorm,
        Real.arccos_eq_pi_div_two_sub_arcsin]
      show |((-piQ / 2 + asinQ (x / r) : ℚ) : ℝ) - -(Real.pi / 2 - Real.arcsin ((x : ℝ) / ρ))| ≤ _
      push_cast
      rw [abs_le] at hb ⊢
      constructor <;> linarith [hb.1, hb.2]

end Geo.Proofs.C16Q
