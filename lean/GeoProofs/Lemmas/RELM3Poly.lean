/-
  RELM3 — `DimsSpec` for every OGC-valid polygon (holes included): `HasDimensions` reports dimension 2 (a simple ring
  has three different coordinates among its first ones), and the specification has an interior face sample beside an
  elementary sub-segment of the shell (C02X `valid_side_inside`: one side of every boundary edge of a valid polygon is
  interior), whatever the other operand adds to the arrangement.
-/
import GeoProofs.Lemmas.RELM3ArealFull
import GeoProofs.Lemmas.C02XSide
import GeoProofs.Lemmas.C01QAreal

namespace Geo.Proofs.RELM3
open Geo Geo.GG Geo.RI Geo.Proofs.Spec Geo.Proofs.RELM Geo.Proofs.RELM2 Geo.Proofs.Kernel

theorem dedupFrom_dropWhile (p : Pt) : ∀ l : List Pt, dedupFrom p l = dedupFrom p (l.dropWhile (· == p))
  | [] => rfl
  | c :: rest => by
      by_cases h : c = p
      · subst h
        simp only [dedupFrom, if_true, List.dropWhile_cons, beq_self_eq_true]
        exact dedupFrom_dropWhile c rest
      · have : (c == p) = false := by simpa using h
        simp only [List.dropWhile_cons, this]
        rfl

/-- **`HasDimensions` of a polygon whose shell is a simple ring: dimension 2** -/
theorem polyDims_of_simple {q : Poly} (hs : ringSimple q.ext = true) : polyDims q = .two := by
  obtain ⟨ext, ints⟩ := q
  simp only at hs
  have hs' := hs
  unfold ringSimple at hs'
  simp only [Bool.and_eq_true, decide_eq_true_eq] at hs'
  obtain ⟨⟨_, hn3⟩, hpairs⟩ := hs'
  rw [← dedup_eq_dedupConsecutive] at hn3 hpairs
  unfold polyDims
  simp only
  cases ext with
  | nil => simp [dedup, segs] at hn3
  | cons first rest =>
    simp only
    have hd : dedup (first :: rest) = first :: dedupFrom first (rest.dropWhile (· == first)) := by
      simp only [dedup]; rw [← dedupFrom_dropWhile]
    cases hD : rest.dropWhile (· == first) with
    | nil =>
      rw [hD] at hd
      rw [hd] at hn3
      simp [dedupFrom, segs] at hn3
    | cons second rest2 =>
      simp only
      have hw : rest.dropWhile (· == first) ≠ [] := by rw [hD]; simp
      have hnot := List.head_dropWhile_not (· == first) hw
      have hne : second ≠ first := by
        simp only [hD, List.head_cons, beq_eq_false_iff_ne, ne_eq] at hnot
        exact hnot
      rw [hD] at hd
      simp only [dedupFrom, if_neg hne] at hd
      cases hT : dedupFrom second rest2 with
      | nil =>
        rw [hT] at hd
        rw [hd] at hn3
        simp [segs] at hn3
      | cons third rest3 =>
        rw [hT] at hd
        have h3mem : third ∈ rest2 := mem_of_mem_dedupFrom second rest2 third (by rw [hT]; exact List.mem_cons_self ..)
        have h32 : third ≠ second := by
          have := Geo.Proofs.C17L.dedupFrom_ne_head second rest2
          rw [hT] at this
          intro e
          exact this (by rw [e]; rfl)
        have h31 : third ≠ first := by
          intro e
          subst e
          have hok := Geo.Proofs.C12.allPairs_spec hpairs (i := 0) (j := 1) (by decide)
            (s := (third, second)) (t := (second, third)) (by rw [hd]; rfl) (by rw [hd]; rfl)
          simp only [Nat.zero_add, beq_self_eq_true, if_true] at hok
          have := Geo.Proofs.C12.adjacentOk_spec hok third (SegMem_left _ _) (SegMem_right _ _)
          exact hne this.symm
        have : rest2.any (fun c => c != first && c != second) = true :=
          List.any_eq_true.2 ⟨third, h3mem, by simp [h31, h32]⟩
        rw [this]
        rfl

/-- **an interior face sample of a valid polygon**, in every arrangement -/
theorem hasInteriorSample_polygon (q : Poly) (hv : polyValid q = true) :
    HasInteriorSample (parts (.polygon q)) := by
  intro pb
  have hse := (Geo.Proofs.C02Q.polyValid_unpack hv).1
  obtain ⟨s, hs, hne⟩ := polyDims_two_seg (polyDims_of_simple hse)
  have hext : q.ext ∈ q.rings := by simp [Poly.rings]
  have hall : s ∈ (parts (.polygon q)).allSegs ++ pb.allSegs := by
    apply List.mem_append_left
    unfold Parts.allSegs Parts.areaSegs
    apply List.mem_append_right
    simp only [parts, List.flatMap_cons, List.flatMap_nil, List.append_nil]
    exact List.mem_flatMap.2 ⟨q.ext, hext, hs⟩
  obtain ⟨m, hm, hnv, hat⟩ := exists_atoms_of_seg hall hne
  have hnr : ∀ r' ∈ q.rings, m ∉ r' := by
    intro r' hr' hmr
    apply hnv
    apply Geo.Proofs.C02X.allCoords_mem_verts_left
    simp only [allCoords, parts, List.mem_append, List.mem_flatten, List.mem_flatMap]
    right
    exact ⟨r', ⟨q, by simp, hr'⟩, hmr⟩
  have hloc : ∀ e : EPt, insidePolyE e q = true → locateFace (parts (.polygon q)) e = .inside := by
    intro e he
    unfold locateFace
    simp [parts, he]
  rcases Geo.Proofs.C02X.valid_side_inside hv hext (a := s.1) (b := s.2) (by simpa using hs) hm hnr with h | h
  · exact ⟨_, hat _ (Or.inr (Or.inl rfl)), rfl, hloc _ h⟩
  · exact ⟨_, hat _ (Or.inr (Or.inr rfl)), rfl, hloc _ h⟩

/-- **`DimsSpec` for every valid polygon** -/
theorem dimsSpec_polygon_valid (q : Poly) (hv : polyValid q = true) : DimsSpec (.polygon q) :=
  dimsSpec_polygon_partial q (polyDims_of_simple (Geo.Proofs.C02Q.polyValid_unpack hv).1)
    (hasInteriorSample_polygon q hv)

end Geo.Proofs.RELM3
