/-
  C15 helper lemmas: the geometric simplicity hypothesis `SimpleLS` of the LineString round trip
  (stated with the `Line: Intersects<Coord>` kernel `lineCoord`) and its consequence
  `EarlierApart` for every interpolated point.
-/
import GeoModel.Interp
import GeoModel.Segment
import GeoProofs.Lemmas.C15
import GeoProofs.Lemmas.SegmentSpec
import Mathlib.Tactic.Linarith
import Mathlib.Tactic.Ring
import Mathlib.Tactic.FieldSimp
import Mathlib.Tactic.LinearCombination

namespace Geo.Proofs.C15
open Geo Geo.Interp Geo.Proofs.Kernel

/-- A *simple* line string: whenever a point `q` lies on segment `i` and on a later segment `j`
(`lineCoord` is geo's `Line: Intersects<Coord>`, i.e. membership in the closed segment), it is the
junction between them — the end of segment `i`, the start of segment `j`, and everything in
between has zero length (`j = i+1`, or repeated vertices). No self-crossing, no touching, no
back-tracking, not closed. -/
def SimpleLS (cs : List Pt) : Prop :=
  ∀ (pre : List (Pt × Pt)) (a b : Pt) (mid : List (Pt × Pt)) (c d : Pt) (post : List (Pt × Pt)) (q : Pt),
    Interp.segs cs = pre ++ (a, b) :: (mid ++ (c, d) :: post) →
    lineCoord a b q = true → lineCoord c d q = true →
    q = b ∧ q = c ∧ ∀ m ∈ mid, m.1 = m.2

theorem segMem_lerp (a b : Pt) (t : Rat) (h0 : 0 ≤ t) (h1 : t ≤ 1) : SegMem (lerp a b t) a b :=
  ⟨t, h0, h1, by simp only [lerp]; ring, by simp only [lerp]; ring⟩

theorem segMem_iff_lerp (p a b : Pt) : SegMem p a b ↔ ∃ t : Rat, 0 ≤ t ∧ t ≤ 1 ∧ p = lerp a b t := by
  constructor
  · rintro ⟨t, h0, h1, hx, hy⟩
    exact ⟨t, h0, h1, Pt.ext' (by rw [hx]; simp only [lerp]; ring) (by rw [hy]; simp only [lerp]; ring)⟩
  · rintro ⟨t, h0, h1, rfl⟩
    exact segMem_lerp a b t h0 h1

theorem lerp_div' (len : Len) (a b : Pt) (x : Rat) :
    lerp a b (x / len a b) = pointAtDistanceBetween len a b x := by
  apply Pt.ext' <;> simp only [lerp, pointAtDistanceBetween] <;> ring

private theorem sq_zero_eq {p a : Pt}
    (h : (p.x - a.x) * (p.x - a.x) + (p.y - a.y) * (p.y - a.y) = 0) : p = a := by
  have hx : p.x - a.x = 0 := by nlinarith [mul_self_nonneg (p.x - a.x), mul_self_nonneg (p.y - a.y)]
  have hy : p.y - a.y = 0 := by nlinarith [mul_self_nonneg (p.x - a.x), mul_self_nonneg (p.y - a.y)]
  apply Pt.ext' <;> linarith

/-- converse of `segDistSq_on`: distance zero from a segment means membership in it. -/
theorem segMem_of_segDistSq_zero (p a b : Pt) (h : segDistSq p a b = 0) : SegMem p a b := by
  rw [segMem_iff_lerp]
  unfold segDistSq at h
  simp only at h
  by_cases hab : a = b
  · rw [if_pos hab] at h
    exact ⟨0, le_refl _, by norm_num, by rw [lerp_zero]; exact sq_zero_eq h⟩
  · rw [if_neg hab] at h
    have hv := sq_sum_ne_zero' hab
    by_cases hr0 : ((p.x - a.x) * (b.x - a.x) + (p.y - a.y) * (b.y - a.y)) /
        ((b.x - a.x) * (b.x - a.x) + (b.y - a.y) * (b.y - a.y)) ≤ 0
    · rw [if_pos hr0] at h
      exact ⟨0, le_refl _, by norm_num, by rw [lerp_zero]; exact sq_zero_eq h⟩
    · rw [if_neg hr0] at h
      by_cases hr1 : ((p.x - a.x) * (b.x - a.x) + (p.y - a.y) * (b.y - a.y)) /
          ((b.x - a.x) * (b.x - a.x) + (b.y - a.y) * (b.y - a.y)) ≥ 1
      · rw [if_pos hr1] at h
        exact ⟨1, by norm_num, le_refl _, by rw [lerp_one]; exact sq_zero_eq h⟩
      · rw [if_neg hr1] at h
        refine ⟨_, le_of_lt (not_le.1 hr0), le_of_lt (not_le.1 hr1), ?_⟩
        have hs : ((a.y - p.y) * (b.x - a.x) - (a.x - p.x) * (b.y - a.y)) /
            ((b.x - a.x) * (b.x - a.x) + (b.y - a.y) * (b.y - a.y)) = 0 := by
          rcases mul_eq_zero.1 h with h' | h'
          · rcases mul_eq_zero.1 h' with h'' | h'' <;> exact h''
          · exact absurd h' hv
        have hc : (a.y - p.y) * (b.x - a.x) - (a.x - p.x) * (b.y - a.y) = 0 := by
          rcases div_eq_zero_iff.1 hs with h' | h'
          · exact h'
          · exact absurd h' hv
        apply Pt.ext'
        · simp only [lerp]
          have : (b.x - a.x) * (((p.x - a.x) * (b.x - a.x) + (p.y - a.y) * (b.y - a.y)) /
              ((b.x - a.x) * (b.x - a.x) + (b.y - a.y) * (b.y - a.y))) = p.x - a.x := by
            rw [← mul_div_assoc, div_eq_iff hv]; linear_combination (-(b.y - a.y)) * hc
          linarith
        · simp only [lerp]
          have : (b.y - a.y) * (((p.x - a.x) * (b.x - a.x) + (p.y - a.y) * (b.y - a.y)) /
              ((b.x - a.x) * (b.x - a.x) + (b.y - a.y) * (b.y - a.y))) = p.y - a.y := by
            rw [← mul_div_assoc, div_eq_iff hv]; linear_combination (b.x - a.x) * hc
          linarith

theorem lineCoord_of_segDistSq_zero (p a b : Pt) (h : segDistSq p a b = 0) : lineCoord a b p = true :=
  (lineCoord_iff a b p).2 (segMem_of_segDistSq_zero p a b h)

theorem lerp_eq_start {a b : Pt} {t : Rat} (ht : t ≠ 0) (h : lerp a b t = a) : a = b := by
  have hx : (lerp a b t).x = a.x := by rw [h]
  have hy : (lerp a b t).y = a.y := by rw [h]
  simp only [lerp] at hx hy
  have hx' : (b.x - a.x) * t = 0 := by linarith
  have hy' : (b.y - a.y) * t = 0 := by linarith
  rcases mul_eq_zero.1 hx' with h1 | h1
  · rcases mul_eq_zero.1 hy' with h2 | h2
    · apply Pt.ext' <;> linarith
    · exact absurd h2 ht
  · exact absurd h1 ht

/-- [key] on a simple line string, the point at arc length `d ∈ (0, length]` is at positive
distance from every segment that ends before the one on which `d` falls — including `d` exactly
at a vertex (then the point is the *end* of the segment the walk stops on, and the earlier
segments do not contain it). -/
theorem earlierApart_of_simple {len : Len} (hl : LenAx len) (cs : List Pt) (hs : SimpleLS cs)
    (d : Rat) (p : Pt) (hon : OnSegs len (Interp.segs cs) d p) : EarlierApart len cs d p := by
  intro pre a b post e hlt hle s hmem
  have hlpos : 0 < len a b := by linarith
  have hab : a ≠ b := by
    intro h; rw [h, hl.self_zero] at hlpos; exact lt_irrefl _ hlpos
  -- the point is the one on segment `(a,b)` at distance `d − Σ pre` from its start
  have hon2 : OnSegs len (Interp.segs cs) d (pointAtDistanceBetween len a b (d - sumLen len pre)) := by
    rw [e, onSegs_append]
    exact Or.inr (Or.inl ⟨by linarith, by linarith, rfl⟩)
  have hp : p = lerp a b ((d - sumLen len pre) / len a b) := by
    rw [lerp_div']; exact onSegs_unique hl _ d _ _ (chain_segs cs) hon hon2
  have ht0 : 0 < (d - sumLen len pre) / len a b := div_pos (by linarith) hlpos
  have ht1 : (d - sumLen len pre) / len a b ≤ 1 := by rw [div_le_iff₀ hlpos]; linarith
  have hpab : lineCoord a b p = true := by
    rw [lineCoord_iff, hp]; exact segMem_lerp a b _ (le_of_lt ht0) ht1
  obtain ⟨pre', mid, hpre⟩ := List.append_of_mem hmem
  obtain ⟨a', b'⟩ := s
  by_contra hnot
  have hz : segDistSq p a' b' = 0 := le_antisymm (not_lt.1 hnot) (segDistSq_nonneg p a' b')
  have hpa'b' := lineCoord_of_segDistSq_zero p a' b' hz
  have e' : Interp.segs cs = pre' ++ (a', b') :: (mid ++ (a, b) :: post) := by
    rw [e, hpre]; simp
  obtain ⟨_, hpa, _⟩ := hs pre' a' b' mid a b post p e' hpa'b' hpab
  rw [hp] at hpa
  exact hab (lerp_eq_start (ne_of_gt ht0) hpa)

end Geo.Proofs.C15
