/-
  RELM2 — `Point × anything`, part 5: the position the node map records for the point when the
  point IS a node of `B`'s self-noded graph: the `on` position of that node (`copy_nodes_and_labels`
  writes it last, `label_isolated_nodes` leaves a node with two labelled slots alone).  Together
  with `point_pos_isolated` (RELMPoint4) the hypothesis "the point is not a node of `B`'s graph" of
  `relateImpl_point_rows_eq_spec_partial` becomes: the nodes of `B`'s graph carry the
  specification's location (`NodesLocate`), which is proved per type in RELM2Areal / RELM2Linear.
  Also: every intersection recorded on an edge by self-noding is a node of the self-noded graph.
-/
import GeoProofs.Lemmas.RELMPoint4
import GeoProofs.Lemmas.RELMTotal2

namespace Geo.Proofs.RELM2
open Geo Geo.GG Geo.RI Geo.Proofs.Spec Geo.Proofs.RELM

/-- after `copy_nodes_and_labels(graph, idx)`: a coordinate all of whose graph nodes carry `q` in
slot `idx` (and that is a node of the graph, or already had `q`) has `q` in the node map -/
theorem findR_copyNodes_of_mem (idx : Nat) (c : Pt) (q : Pos) : ∀ (gs : List Node) (ns ns' : List RNode),
    copyNodes idx gs ns = some ns' → SortedR ns →
    (∀ g ∈ gs, g.coord = c → g.label.onPos idx = some q) →
    ((∃ g ∈ gs, g.coord = c) ∨ ∃ n, findR c ns = some n ∧ n.label.onPos idx = some q) →
    ∃ n, findR c ns' = some n ∧ n.label.onPos idx = some q
  | [], ns, ns', h, _, _, hex => by
      simp only [copyNodes] at h
      cases h
      rcases hex with ⟨g, hg, _⟩ | h
      · cases hg
      · exact h
  | g :: gs, ns, ns', h, hs, hq, hex => by
      simp only [copyNodes] at h
      split at h
      · cases h
      · rename_i p' hp'
        have hs' := upsertR_sorted g.coord (fun n => { n with label := n.label.setOn idx p' }) (fun _ => rfl) ns hs
        apply findR_copyNodes_of_mem idx c q gs _ ns' h hs' (fun g' hg' => hq g' (List.mem_cons_of_mem _ hg'))
        rw [findR_upsertR g.coord c (fun n => { n with label := n.label.setOn idx p' }) (fun _ => rfl) ns hs]
        by_cases hc : g.coord = c
        · right
          have : p' = q := by
            have := hq g (List.mem_cons_self ..) hc
            rw [hp'] at this
            exact Option.some.inj this
          subst this
          rw [if_pos hc.symm]
          exact ⟨_, rfl, Geo.Proofs.C17L.onPos_setOn _ _ _⟩
        · rw [if_neg (Ne.symm hc)]
          rcases hex with ⟨g', hg', hc'⟩ | h
          · rcases List.mem_cons.1 hg' with rfl | hg'
            · exact absurd hc' hc
            · exact Or.inl ⟨g', hg', hc'⟩
          · exact Or.inr h

/-- `label_isolated_node` never touches a slot that is already labelled -/
theorem labelIsolatedNode_onPos1 (a b : Geom) (n : RNode) (q : Pos) (h : n.label.onPos 1 = some q) :
    (labelIsolatedNode a b n).label.onPos 1 = some q := by
  rcases n with ⟨c, ⟨la, lb⟩, st⟩
  have hb : lb.on = some q := h
  have hbe : lb.isEmpty = false := by
    cases lb with
    | area o l r => cases o <;> simp_all [TopoPos.on, TopoPos.isEmpty]
    | lineOrPoint o => cases o <;> simp_all [TopoPos.on, TopoPos.isEmpty]
  unfold labelIsolatedNode
  simp only [Label.geometryCount, Label.isEmptyAt, Label.get, hbe]
  by_cases hae : la.isEmpty = true
  · simp only [hae, if_true]
    simp only [Label.setAll, Label.set, Label.get, Label.onPos]
    simpa using hb
  · simp only [hae]
    simpa [Label.onPos, Label.get] using hb

/-- **the position recorded for the point when it is a node of `B`'s graph**: the `on` position of
that node -/
theorem point_pos_node (ar : Arith) (p : Pt) (b : Geom) (q : Pos) {labeled : List RNode} {n : RNode}
    (hl : labeledNodes (.point p) b (freshGraph ar 0 (.point p)) (freshGraph ar 1 b) = some labeled)
    (hn : findR p labeled = some n)
    (hq : ∀ g ∈ (freshGraph ar 1 b).nodes, g.coord = p → g.label.onPos 1 = some q)
    (hex : p ∈ (freshGraph ar 1 b).nodes.map (·.coord)) :
    n.label.onPos 1 = some q := by
  unfold labeledNodes at hl
  simp only at hl
  have hA : (freshGraph ar 0 (.point p)).edges = [] := rfl
  have hnodes : sortNodes (freshGraph ar 0 (.point p)).nodes = [⟨p, Label.emptyLine.setOn 0 .inside⟩] := rfl
  rw [hA, hnodes] at hl
  simp only [intersectionNodes, copyNodes] at hl
  have hon : (Label.emptyLine.setOn 0 Pos.inside).onPos 0 = some .inside := rfl
  rw [hon] at hl
  simp only at hl
  split at hl
  · cases hl
  · rename_i ns2 h2'
    cases hl
    have s1 : SortedR (intersectionNodes 1 (freshGraph ar 1 b).edges []) :=
      intersectionNodes_sorted 1 _ [] sortedR_nil
    have s2 := upsertR_sorted p (fun n => { n with label := n.label.setOn 0 .inside }) (fun _ => rfl) _ s1
    obtain ⟨g, hg, hgc⟩ := List.mem_map.1 hex
    obtain ⟨n2, hn2, hq2⟩ := findR_copyNodes_of_mem 1 p q _ _ ns2 h2' s2
      (fun g hg hc => hq g ((mem_sortNodes g _).1 hg) hc)
      (Or.inl ⟨g, (mem_sortNodes g _).2 hg, hgc⟩)
    rw [findR_map _ (fun n => by unfold labelIsolatedNode; split <;> [split <;> rfl; rfl]), hn2] at hn
    simp only [Option.map_some, Option.some.injEq] at hn
    subst hn
    exact labelIsolatedNode_onPos1 _ _ _ _ hq2

/-- **Rows Interior / Boundary of `relate(Point p, B)`** when `p` is a node of `B`'s graph whose
`on` position is `q`: a single `0`, in the column `q`. -/
theorem point_rows_node (ar : Arith) (p : Pt) (b : Geom) (q : Pos) {m : IM} (h : relateGraph ar (.point p) b = some m)
    (hq : ∀ g ∈ (freshGraph ar 1 b).nodes, g.coord = p → g.label.onPos 1 = some q)
    (hex : p ∈ (freshGraph ar 1 b).nodes.map (·.coord)) (X Y : Pos) (hX : X ≠ .outside) :
    m.get X Y = if X = .inside ∧ q = Y then .zero else .empty := by
  obtain ⟨labeled, n, q', hl, hn, hq', hrows⟩ := point_rows ar p b h
  have := point_pos_node ar p b q hl hn hq hex
  have h1 : n.label.onPos 1 = some q' := by
    simp only [Label.onPos, Label.get, hq']
    rfl
  rw [h1] at this
  cases this
  exact hrows X Y hX

/-! ### every intersection recorded by self-noding becomes a node of the graph -/

theorem findNode_mem {c : Pt} {n : Node} : ∀ {ns : List Node}, findNode c ns = some n → n ∈ ns ∧ n.coord = c
  | [], h => by simp [findNode] at h
  | x :: xs, h => by
      simp only [findNode] at h
      split at h
      · cases h; exact ⟨List.mem_cons_self .., by assumption⟩
      · have := findNode_mem h
        exact ⟨List.mem_cons_of_mem _ this.1, this.2⟩

theorem mem_coords_addSelfIntersectionNode (idx : Nat) (c : Pt) (p : Pos) (G : Graph) :
    c ∈ (addSelfIntersectionNode idx c p G).nodes.map (·.coord) := by
  unfold addSelfIntersectionNode
  split
  · rename_i hb
    unfold isBoundaryNode at hb
    split at hb
    · rename_i n hn
      obtain ⟨h1, h2⟩ := findNode_mem hn
      exact List.mem_map.2 ⟨n, h1, h2⟩
    · cases hb
  · split
    · exact mem_coords_insertBoundaryPoint idx c G
    · exact mem_coords_insertPoint idx c p G

theorem coords_mono_addSelfIntersectionNode (idx : Nat) (c x : Pt) (p : Pos) (G : Graph)
    (h : x ∈ G.nodes.map (·.coord)) : x ∈ (addSelfIntersectionNode idx c p G).nodes.map (·.coord) := by
  unfold addSelfIntersectionNode
  split
  · exact h
  · split
    · exact coords_mono_insertBoundaryPoint idx c x G h
    · exact (upsertNode_coords c _ x G.nodes).2 (Or.inr h)

theorem coords_addSelfIntersectionCoords (idx : Nat) (p : Pos) : ∀ (cs : List Pt) (G : Graph) (x : Pt),
    (x ∈ cs ∨ x ∈ G.nodes.map (·.coord)) → x ∈ (addSelfIntersectionCoords idx p cs G).nodes.map (·.coord)
  | [], _, x, h => by
      rcases h with h | h
      · cases h
      · exact h
  | c :: cs, G, x, h => by
      simp only [addSelfIntersectionCoords]
      apply coords_addSelfIntersectionCoords idx p cs _ x
      rcases h with h | h
      · rcases List.mem_cons.1 h with rfl | h
        · exact Or.inr (mem_coords_addSelfIntersectionNode idx _ p G)
        · exact Or.inl h
      · exact Or.inr (coords_mono_addSelfIntersectionNode idx c x p G h)

theorem coords_addSelfIntersectionItems (idx : Nat) : ∀ (items : List (Option Pos × List Pt)) (G : Graph) (x : Pt),
    ((∃ it ∈ items, it.1.isSome ∧ x ∈ it.2) ∨ x ∈ G.nodes.map (·.coord)) →
      x ∈ (addSelfIntersectionItems idx items G).nodes.map (·.coord)
  | [], _, x, h => by
      rcases h with ⟨it, hit, _⟩ | h
      · cases hit
      · exact h
  | (none, cs) :: rest, G, x, h => by
      simp only [addSelfIntersectionItems]
      apply coords_addSelfIntersectionItems idx rest G x
      rcases h with ⟨it, hit, hs, hx⟩ | h
      · rcases List.mem_cons.1 hit with rfl | hit
        · cases hs
        · exact Or.inl ⟨it, hit, hs, hx⟩
      · exact Or.inr h
  | (some p, cs) :: rest, G, x, h => by
      simp only [addSelfIntersectionItems]
      apply coords_addSelfIntersectionItems idx rest _ x
      rcases h with ⟨it, hit, hs, hx⟩ | h
      · rcases List.mem_cons.1 hit with rfl | hit
        · exact Or.inr (coords_addSelfIntersectionCoords idx p cs G x (Or.inl hx))
        · exact Or.inl ⟨it, hit, hs, hx⟩
      · exact Or.inr (coords_addSelfIntersectionCoords idx p cs G x (Or.inr h))

/-- the graph `add_self_intersection_nodes` starts from: the nodes of the built graph -/
def selfNodeBase (ar : Arith) (idx : Nat) (g : Geom) : Graph :=
  ⟨(buildGraph idx g).nodes, (freshGraph ar idx g).edges.map (fun e => ⟨e.coords, e.label⟩), (buildGraph idx g).useRule⟩

theorem selfNodeBase_nodes (ar : Arith) (idx : Nat) (g : Geom) :
    (selfNodeBase ar idx g).nodes = (buildGraph idx g).nodes := rfl

theorem zip_map_items (idx : Nat) : ∀ (es : List REdge),
    (((es.map (fun e => (⟨e.coords, e.label⟩ : Edge))).zip (es.map (fun e => e.eis.map (·.coord)))).map
      (fun (x : Edge × List Pt) => (x.1.label.onPos idx, x.2))) =
    es.map (fun e => (e.label.onPos idx, e.eis.map (·.coord)))
  | [] => rfl
  | e :: es => by
      simp only [List.map_cons, List.zip_cons_cons, List.cons.injEq, true_and]
      exact zip_map_items idx es

/-- the nodes of the self-noded graph, as `add_self_intersection_nodes` over the recorded
intersections -/
theorem fresh_nodes (ar : Arith) (idx : Nat) (g : Geom) :
    (freshGraph ar idx g).nodes =
      (addSelfIntersectionItems idx
        (((freshGraph ar idx g).edges).map (fun e => (e.label.onPos idx, e.eis.map (·.coord))))
        (selfNodeBase ar idx g)).nodes := by
  rw [← zip_map_items]
  rfl

/-- **every intersection recorded on an edge by self-noding is a node of the self-noded graph**,
provided the edge has an `on` position in its own slot (all edges `GeometryGraph::new` makes do) -/
theorem fresh_eis_sub_nodes (ar : Arith) (idx : Nat) (g : Geom)
    (hon : ∀ e ∈ (freshGraph ar idx g).edges, (e.label.onPos idx).isSome) :
    ∀ e ∈ (freshGraph ar idx g).edges, ∀ r ∈ e.eis, r.coord ∈ (freshGraph ar idx g).nodes.map (·.coord) := by
  intro e he r hr
  rw [fresh_nodes]
  apply coords_addSelfIntersectionItems
  left
  exact ⟨_, List.mem_map.2 ⟨e, he, rfl⟩, hon e he, List.mem_map.2 ⟨r, hr, rfl⟩⟩

/-- the nodes of the built graph stay nodes of the self-noded graph -/
theorem fresh_nodes_of_built (ar : Arith) (idx : Nat) (g : Geom) (x : Pt)
    (h : x ∈ (buildGraph idx g).nodes.map (·.coord)) : x ∈ (freshGraph ar idx g).nodes.map (·.coord) := by
  rw [fresh_nodes]
  exact coords_addSelfIntersectionItems idx _ _ x (Or.inr h)

end Geo.Proofs.RELM2
