/-
  C06P helper layer 1: interchangeable contribution lists.

  Two lists of contributions are `Equiv` when they lead every accumulator state to the same state.
  A criterion in terms of the maximal dimension and the weight / accumulator sums at and above it;
  `[dominant l]` is interchangeable with `l` (this is what `add_polygon` does with its two fresh
  sub-operations).
-/
import GeoProofs.Lemmas.C06Dom
import GeoProofs.Lemmas.C06Spec

namespace Geo.Proofs.C06
open Geo Geo.Cen

/-- interchangeable contribution lists: same final state from every starting state -/
def Equiv (l₁ l₂ : List WC) : Prop := ∀ o : Op, foldWC o l₁ = foldWC o l₂

theorem Equiv.refl (l : List WC) : Equiv l l := fun _ => rfl

theorem Equiv.of_eq {l₁ l₂ : List WC} (h : l₁ = l₂) : Equiv l₁ l₂ := by subst h; exact Equiv.refl _

theorem Equiv.symm {l₁ l₂ : List WC} (h : Equiv l₁ l₂) : Equiv l₂ l₁ := fun o => (h o).symm

theorem Equiv.trans {l₁ l₂ l₃ : List WC} (h : Equiv l₁ l₂) (h' : Equiv l₂ l₃) : Equiv l₁ l₃ :=
  fun o => (h o).trans (h' o)

theorem Equiv.append {a b c d : List WC} (h₁ : Equiv a b) (h₂ : Equiv c d) : Equiv (a ++ c) (b ++ d) := by
  intro o
  rw [foldWC_append, foldWC_append, h₁ o, h₂]

theorem Equiv.flatten_map {α : Type} (f g : α → List WC) (L : List α) (h : ∀ x ∈ L, Equiv (f x) (g x)) :
    Equiv (L.map f).flatten (L.map g).flatten := by
  induction L with
  | nil => exact Equiv.refl _
  | cons x t ih =>
    simp only [List.map_cons, List.flatten_cons]
    exact Equiv.append (h x (by simp)) (ih (fun y hy => h y (by simp [hy])))

/-! ### sums over appended lists, sums above the maximal dimension -/

theorem mDim_append (a b : List WC) : mDim (a ++ b) = max (mDim a) (mDim b) := by
  induction a with
  | nil => simp [mDim]
  | cons c t ih => simp only [List.cons_append, mDim, ih]; omega

theorem wSum_append (m : Nat) (a b : List WC) : wSum m (a ++ b) = wSum m a + wSum m b := by
  induction a with
  | nil => simp [wSum]
  | cons c t ih => simp only [List.cons_append, wSum, ih]; ring

theorem aSum_append (m : Nat) (a b : List WC) : aSum m (a ++ b) = aSum m a + aSum m b := by
  induction a with
  | nil => simp [aSum]
  | cons c t ih => simp only [List.cons_append, aSum, ih, padd_assoc]

theorem dim_le_mDim (l : List WC) : ∀ w ∈ l, w.dim ≤ mDim l := by
  induction l with
  | nil => intro w hw; simp at hw
  | cons c t ih =>
    intro w hw
    simp only [mDim]
    rcases List.mem_cons.1 hw with h | h
    · subst h; omega
    · have := ih w h; omega

theorem mDim_le (k : Nat) (l : List WC) (h : ∀ w ∈ l, w.dim ≤ k) : mDim l ≤ k := by
  induction l with
  | nil => simp [mDim]
  | cons c t ih =>
    simp only [mDim]
    have h1 := h c (by simp)
    have h2 := ih (fun w hw => h w (by simp [hw]))
    omega

theorem wSum_gt (m : Nat) (l : List WC) (h : mDim l < m) : wSum m l = 0 := by
  induction l with
  | nil => rfl
  | cons c t ih =>
    simp only [mDim] at h
    have hc : c.dim ≠ m := by omega
    simp only [wSum, if_neg hc]
    rw [ih (by omega)]; ring

theorem aSum_gt (m : Nat) (l : List WC) (h : mDim l < m) : aSum m l = zeroPt := by
  induction l with
  | nil => rfl
  | cons c t ih =>
    simp only [mDim] at h
    have hc : c.dim ≠ m := by omega
    simp only [aSum, if_neg hc]
    rw [ih (by omega)]; simp

/-! ### the criterion -/

/-- same maximal dimension, same emptiness, same sums at every dimension from the maximal one up
⇒ interchangeable (what lies below the maximal dimension never survives) -/
theorem equiv_of_sums (l₁ l₂ : List WC) (hd : mDim l₁ = mDim l₂) (hn : l₁ = [] ↔ l₂ = [])
    (hs : ∀ m, mDim l₁ ≤ m → wSum m l₁ = wSum m l₂ ∧ aSum m l₁ = aSum m l₂) : Equiv l₁ l₂ := by
  intro o
  cases o with
  | none =>
    rw [foldWC_none, foldWC_none]
    cases l₁ with
    | nil => have := hn.1 rfl; subst this; rfl
    | cons c t =>
      cases l₂ with
      | nil => exact absurd (hn.2 rfl) (by simp)
      | cons c' t' =>
        simp only [dominant]
        obtain ⟨h1, h2⟩ := hs _ (Nat.le_refl _)
        rw [← hd, h1, h2]
  | some c =>
    rw [foldWC_some, foldWC_some]
    have hd' : mDim (c :: l₂) = mDim (c :: l₁) := by simp only [mDim, hd]
    simp only [dominant]
    rw [hd']
    generalize hM : mDim (c :: l₁) = M
    have hMle : mDim l₁ ≤ M := by rw [← hM]; simp only [mDim]; omega
    obtain ⟨h1, h2⟩ := hs M hMle
    simp only [wSum, aSum, h1, h2]

theorem dominant_some_iff (l : List WC) (e : WC) :
    dominant l = some e ↔ l ≠ [] ∧ e = ⟨mDim l, wSum (mDim l) l, aSum (mDim l) l⟩ := by
  cases l with
  | nil => simp [dominant]
  | cons c t => simp only [dominant, Option.some.injEq, ne_eq, reduceCtorEq, not_false_eq_true, true_and]; exact eq_comm

theorem dominant_eq_none_iff (l : List WC) : dominant l = none ↔ l = [] := by
  cases l <;> simp [dominant]

/-- the summary of a list stands for the list: this is why `add_polygon` may accumulate its rings in
fresh sub-operations and hand over only the result -/
theorem equiv_dominant (l : List WC) (e : WC) (h : dominant l = some e) : Equiv [e] l := by
  obtain ⟨hne, rfl⟩ := (dominant_some_iff l e).1 h
  apply equiv_of_sums
  · simp [mDim]
  · simp [hne]
  · intro m hm
    simp only [mDim, Nat.max_zero] at hm
    simp only [wSum, aSum]
    by_cases hmm : mDim l = m
    · subst hmm; simp
    · have hlt : mDim l < m := by omega
      rw [wSum_gt m l hlt, aSum_gt m l hlt]
      simp [hmm]

theorem dominant_singleton (w : WC) : dominant [w] = some w := by
  simp only [dominant, mDim, wSum, aSum, Nat.max_zero, if_true]
  congr 1
  cases w
  simp

end Geo.Proofs.C06
