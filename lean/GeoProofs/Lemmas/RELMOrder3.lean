/-
  RELM — self-noding does not depend on the order in which the segment pairs are visited (exact
  arithmetic): what `compute_intersections_within_set` leaves on the edges is a function of the
  *set* of pairs visited, and pairs whose envelopes do not intersect contribute nothing. Hence an
  R-tree that reports every pair with intersecting envelopes, in any order and with any
  repetitions, gives what the all-pairs loop of the model gives.
-/
import GeoProofs.Lemmas.RELMOrder2
import GeoProofs.Props.C17

namespace Geo.Proofs.RELM
open Geo Geo.GG Geo.RI Geo.Proofs.Kernel

/-! ### list plumbing -/

theorem getElem?_updAt {α} (f : α → α) : ∀ (l : List α) (j i : Nat),
    (updAt l j f)[i]? = if i = j then (l[i]?).map f else l[i]?
  | [], _, _ => by simp [updAt]
  | x :: xs, 0, 0 => by simp [updAt]
  | x :: xs, 0, i + 1 => by simp [updAt]
  | x :: xs, j + 1, 0 => by simp [updAt]
  | x :: xs, j + 1, i + 1 => by
      simp only [updAt, List.getElem?_cons_succ, getElem?_updAt f xs j i, Nat.add_right_cancel_iff]

theorem length_updAt {α} (f : α → α) : ∀ (l : List α) (j : Nat), (updAt l j f).length = l.length
  | [], _ => rfl
  | x :: xs, 0 => rfl
  | x :: xs, j + 1 => by simp [updAt, length_updAt f xs j]

theorem updAt_congr {α} (f g : α → α) : ∀ (l : List α) (j : Nat), (∀ x, l[j]? = some x → f x = g x) →
    updAt l j f = updAt l j g
  | [], _, _ => rfl
  | x :: xs, 0, h => by simp [updAt, h x (by simp)]
  | x :: xs, j + 1, h => by
      simp only [updAt]
      rw [updAt_congr f g xs j (fun y hy => h y (by simpa using hy))]

/-! ### events -/

/-- one insertion into the intersection list of edge `ev.1` -/
def insRec (es : List REdge) (ev : Nat × EI) : List REdge :=
  updAt es ev.1 (fun e => { e with eis := eiInsert ev.2 e.eis })

def applyEvents (es : List REdge) (evs : List (Nat × EI)) : List REdge := evs.foldl insRec es

theorem applyEvents_append (es : List REdge) (a b : List (Nat × EI)) :
    applyEvents es (a ++ b) = applyEvents (applyEvents es a) b := by
  unfold applyEvents; rw [List.foldl_append]

/-- the records of edge `i` among the events -/
def recsFor (i : Nat) (evs : List (Nat × EI)) : List EI := (evs.filter (fun ev => ev.1 == i)).map (·.2)

theorem getElem?_applyEvents : ∀ (evs : List (Nat × EI)) (es : List REdge) (i : Nat),
    (applyEvents es evs)[i]? = (es[i]?).map (fun e => { e with eis := insertAll (recsFor i evs) e.eis })
  | [], es, i => by
      simp only [applyEvents, List.foldl_nil, recsFor, List.filter_nil, List.map_nil, insertAll]
      cases es[i]? <;> rfl
  | ev :: evs, es, i => by
      show (applyEvents (insRec es ev) evs)[i]? = _
      rw [getElem?_applyEvents evs (insRec es ev) i]
      unfold insRec
      rw [getElem?_updAt]
      by_cases h : i = ev.1
      · subst h
        simp only [if_true, recsFor, List.filter_cons, beq_self_eq_true, List.map_cons]
        cases es[ev.1]? with
        | none => rfl
        | some e => simp [insertAll]
      · have hne : (ev.1 == i) = false := by simpa using Ne.symm h
        simp only [if_neg h, recsFor, List.filter_cons, hne, Bool.false_eq_true, if_false]

theorem length_applyEvents : ∀ (evs : List (Nat × EI)) (es : List REdge), (applyEvents es evs).length = es.length
  | [], _ => rfl
  | ev :: evs, es => by
      show (applyEvents (insRec es ev) evs).length = _
      rw [length_applyEvents evs, insRec, length_updAt]

/-- same coordinates, edge by edge (the part of the edges self-noding never changes) -/
def SameShape (es es' : List REdge) : Prop :=
  ∀ i : Nat, (es[i]?).map (fun e : REdge => e.coords) = (es'[i]?).map (fun e : REdge => e.coords)

theorem sameShape_applyEvents (es : List REdge) (evs : List (Nat × EI)) : SameShape es (applyEvents es evs) := by
  intro i
  rw [getElem?_applyEvents]
  cases es[i]? <;> rfl

theorem SameShape.refl (es : List REdge) : SameShape es es := fun _ => rfl

/-- `s` is a segment of its edge in `es` -/
def SegIn (es : List REdge) (s : Seg) : Prop := ∃ e, es[s.edge]? = some e ∧ SegOf e.coords s

theorem SegIn.of_shape {es es' : List REdge} (h : SameShape es es') {s : Seg} (hs : SegIn es s) : SegIn es' s := by
  obtain ⟨e, he, hso⟩ := hs
  have := h s.edge
  rw [he] at this
  cases he' : es'[s.edge]? with
  | none => rw [he'] at this; cases this
  | some e' =>
    rw [he'] at this
    simp only [Option.map_some, Option.some.injEq] at this
    exact ⟨e', he', by rw [← this]; exact hso⟩

theorem isTrivial_of_coords (li : LI) (b : Bool) (i j : Nat) {e e' : REdge} (h : e.coords = e'.coords) :
    isTrivial li b i j e = isTrivial li b i j e' := by
  unfold isTrivial REdge.isClosed
  rw [h]

/-- the insertions one visit of the pair `(s0, s1)` makes -/
def pairEvents (es : List REdge) (s0 s1 : Seg) : List (Nat × EI) :=
  if s0.edge == s1.edge && s0.idx == s1.idx then [] else
  match lineIntersection s0.p s0.q s1.p s1.q with
  | none => []
  | some li =>
    match es[s0.edge]? with
    | none => []
    | some e0 =>
      if isTrivial li (s0.edge == s1.edge) s0.idx s1.idx e0 then []
      else (liRecs s0 li).map (fun r => (s0.edge, r)) ++ (liRecs s1 li).map (fun r => (s1.edge, r))

theorem pairEvents_of_shape {es es' : List REdge} (h : SameShape es es') (s0 s1 : Seg) :
    pairEvents es s0 s1 = pairEvents es' s0 s1 := by
  unfold pairEvents
  split
  · rfl
  · cases lineIntersection s0.p s0.q s1.p s1.q with
    | none => rfl
    | some li =>
      simp only
      have := h s0.edge
      cases he : es[s0.edge]? with
      | none =>
        rw [he] at this
        cases he' : es'[s0.edge]? with
        | none => rfl
        | some e' => rw [he'] at this; cases this
      | some e =>
        rw [he] at this
        cases he' : es'[s0.edge]? with
        | none => rw [he'] at this; cases this
        | some e' =>
          rw [he'] at this
          simp only [Option.map_some, Option.some.injEq] at this
          simp only [isTrivial_of_coords li _ _ _ this]

theorem updAt_insertAll (es : List REdge) (i : Nat) (rs : List EI) :
    updAt es i (fun e => { e with eis := insertAll rs e.eis }) = applyEvents es (rs.map (fun r => (i, r))) := by
  induction rs generalizing es with
  | nil =>
    simp only [insertAll, List.foldl_nil, List.map_nil, applyEvents]
    apply List.ext_getElem?
    intro j
    rw [getElem?_updAt]
    split
    · cases es[j]? <;> rfl
    · rfl
  | cons r rs ih =>
    simp only [List.map_cons]
    show _ = applyEvents (insRec es (i, r)) (rs.map (fun r => (i, r)))
    rw [← ih]
    unfold insRec
    apply List.ext_getElem?
    intro j
    simp only [getElem?_updAt]
    split
    · cases es[j]? <;> simp [insertAll]
    · rfl

/-- **one visit of a pair = its events** -/
theorem selfAdd_eq_events {es : List REdge} {s0 s1 : Seg} (h0 : SegIn es s0) (h1 : SegIn es s1) :
    selfAdd Arith.exact es s0 s1 = applyEvents es (pairEvents es s0 s1) := by
  unfold selfAdd pairEvents
  rw [lineIntersectionWith_exact]
  split
  · rfl
  · cases lineIntersection s0.p s0.q s1.p s1.q with
    | none => rfl
    | some li =>
      simp only
      obtain ⟨e0, he0, hs0⟩ := h0
      rw [he0]
      simp only
      split
      · rfl
      · rw [applyEvents_append]
        have step0 : updAt es s0.edge (fun e => e.addIntersections Arith.exact li s0.p s0.q s0.idx) =
            applyEvents es ((liRecs s0 li).map (fun r => (s0.edge, r))) := by
          rw [← updAt_insertAll]
          apply updAt_congr
          intro x hx
          rw [he0] at hx; cases hx
          exact addIntersections_eq hs0 li
        rw [step0]
        have h1' : SegIn (applyEvents es ((liRecs s0 li).map (fun r => (s0.edge, r)))) s1 :=
          h1.of_shape (sameShape_applyEvents es _)
        generalize applyEvents es ((liRecs s0 li).map (fun r => (s0.edge, r))) = es1 at h1' ⊢
        obtain ⟨e1, he1, hs1⟩ := h1'
        have step1 : updAt es1 s1.edge (fun e => e.addIntersections Arith.exact li s1.p s1.q s1.idx) =
            applyEvents es1 ((liRecs s1 li).map (fun r => (s1.edge, r))) := by
          rw [← updAt_insertAll]
          apply updAt_congr
          intro x hx
          rw [he1] at hx; cases hx
          exact addIntersections_eq hs1 li
        exact step1

/-- visiting a list of pairs, one after the other -/
def selfFold (es : List REdge) (ps : List (Seg × Seg)) : List REdge :=
  ps.foldl (fun es pr => selfAdd Arith.exact es pr.1 pr.2) es

theorem selfFold_eq_events : ∀ (ps : List (Seg × Seg)) (es0 es : List REdge), SameShape es0 es →
    (∀ pr ∈ ps, SegIn es0 pr.1 ∧ SegIn es0 pr.2) →
    selfFold es ps = applyEvents es (ps.flatMap (fun pr => pairEvents es0 pr.1 pr.2))
  | [], _, _, _, _ => rfl
  | pr :: ps, es0, es, hsh, hseg => by
      have hpr := hseg pr (List.mem_cons_self ..)
      show selfFold (selfAdd Arith.exact es pr.1 pr.2) ps = _
      rw [selfAdd_eq_events (hpr.1.of_shape hsh) (hpr.2.of_shape hsh), ← pairEvents_of_shape hsh]
      have hsh' : SameShape es0 (applyEvents es (pairEvents es0 pr.1 pr.2)) := by
        intro i
        rw [hsh i]
        exact sameShape_applyEvents es _ i
      rw [selfFold_eq_events ps es0 _ hsh' (fun x hx => hseg x (List.mem_cons_of_mem _ hx)),
        List.flatMap_cons, applyEvents_append]

/-! ### validity of the events -/

theorem pairEvents_valid {es : List REdge} {s0 s1 : Seg} (h0 : SegIn es s0) (h1 : SegIn es s1) :
    ∀ ev ∈ pairEvents es s0 s1, ∃ e, es[ev.1]? = some e ∧ ValidRec e.coords ev.2 := by
  intro ev hev
  unfold pairEvents at hev
  split at hev
  · cases hev
  · cases hli : lineIntersection s0.p s0.q s1.p s1.q with
    | none => rw [hli] at hev; cases hev
    | some li =>
      rw [hli] at hev
      simp only at hev
      obtain ⟨e0, he0, hs0⟩ := h0
      obtain ⟨e1, he1, hs1⟩ := h1
      rw [he0] at hev
      simp only at hev
      split at hev
      · cases hev
      · simp only [List.mem_append, List.mem_map] at hev
        rcases hev with ⟨r, hr, rfl⟩ | ⟨r, hr, rfl⟩
        · exact ⟨e0, he0, liRecs_valid hs0 (Or.inl hli) r hr⟩
        · exact ⟨e1, he1, liRecs_valid hs1 (Or.inr hli) r hr⟩

/-- **the result depends only on the set of events** (edges that start with a sorted list of valid
records) -/
theorem applyEvents_congr {es : List REdge} (hs : ∀ e ∈ es, SortedEI e.eis)
    (hv : ∀ e ∈ es, ∀ r ∈ e.eis, ValidRec e.coords r) {evs evs' : List (Nat × EI)}
    (hval : ∀ ev ∈ evs, ∃ e, es[ev.1]? = some e ∧ ValidRec e.coords ev.2)
    (h : ∀ ev, ev ∈ evs ↔ ev ∈ evs') : applyEvents es evs = applyEvents es evs' := by
  apply List.ext_getElem?
  intro i
  rw [getElem?_applyEvents, getElem?_applyEvents]
  cases he : es[i]? with
  | none => rfl
  | some e =>
    simp only [Option.map_some, Option.some.injEq]
    have hmem : e ∈ es := List.mem_of_getElem? he
    have hrec : ∀ x, x ∈ recsFor i evs ↔ x ∈ recsFor i evs' := by
      intro x
      simp only [recsFor, List.mem_map, List.mem_filter, h]
    congr 1
    apply insertAll_congr (hs e hmem) hrec
    apply compat_of_valid (cs := e.coords)
    intro r hr
    simp only [List.mem_append] at hr
    rcases hr with hr | hr
    · exact hv e hmem r hr
    · simp only [recsFor, List.mem_map, List.mem_filter] at hr
      obtain ⟨ev, ⟨hev, hi⟩, rfl⟩ := hr
      obtain ⟨e', he', hv'⟩ := hval ev hev
      have : ev.1 = i := by simpa using hi
      rw [this, he] at he'
      cases he'
      exact hv'

/-! ### the loops of the model as a fold over a list of pairs -/

/-- the pairs `compute_intersections_within_set` visits, in the order of the all-pairs loop -/
def selfPairs (check : Bool) (all : List Seg) (l : List Seg) : List (Seg × Seg) :=
  l.flatMap (fun s0 => (all.filter (fun s1 => check || s0.edge != s1.edge)).map (fun s1 => (s0, s1)))

theorem selfRow_eq_fold (check : Bool) (s0 : Seg) : ∀ (l : List Seg) (es : List REdge),
    selfRow Arith.exact check s0 l es =
      selfFold es ((l.filter (fun s1 => check || s0.edge != s1.edge)).map (fun s1 => (s0, s1)))
  | [], _ => rfl
  | s1 :: rest, es => by
      simp only [selfRow, List.filter_cons]
      split
      · rw [selfRow_eq_fold check s0 rest]; rfl
      · rw [selfRow_eq_fold check s0 rest]

theorem selfFold_append (es : List REdge) (a b : List (Seg × Seg)) :
    selfFold es (a ++ b) = selfFold (selfFold es a) b := by
  unfold selfFold; rw [List.foldl_append]

theorem selfRows_eq_fold (check : Bool) (all : List Seg) : ∀ (l : List Seg) (es : List REdge),
    selfRows Arith.exact check all l es = selfFold es (selfPairs check all l)
  | [], _ => rfl
  | s0 :: rest, es => by
      simp only [selfRows, selfPairs, List.flatMap_cons]
      rw [selfRows_eq_fold check all rest, selfRow_eq_fold, selfFold_append]
      rfl

/-! ### the segments of the model are segments of their edges -/

theorem segsFrom_spec (edge : Nat) : ∀ (cs : List Pt) (i : Nat) (s : Seg), s ∈ segsFrom edge i cs →
    s.edge = edge ∧ ∃ j, s.idx = i + j ∧ cs[j]? = some s.p ∧ cs[j + 1]? = some s.q
  | [], _, s, h => by simp [segsFrom] at h
  | [_], _, s, h => by simp [segsFrom] at h
  | a :: b :: rest, i, s, h => by
      simp only [segsFrom, List.mem_cons] at h
      rcases h with rfl | h
      · exact ⟨rfl, 0, rfl, rfl, rfl⟩
      · obtain ⟨he, j, hj, hp, hq⟩ := segsFrom_spec edge (b :: rest) (i + 1) s h
        exact ⟨he, j + 1, by omega, by simpa using hp, by simpa using hq⟩

theorem allSegsFrom_spec : ∀ (es : List REdge) (k : Nat) (s : Seg), s ∈ allSegsFrom k es →
    ∃ j e, es[j]? = some e ∧ s.edge = k + j ∧ SegOf e.coords s
  | [], _, s, h => by simp [allSegsFrom] at h
  | e :: es, k, s, h => by
      simp only [allSegsFrom, List.mem_append] at h
      rcases h with h | h
      · obtain ⟨he, j, hj, hp, hq⟩ := segsFrom_spec k e.coords 0 s h
        refine ⟨0, e, rfl, by simpa using he, ?_⟩
        have : s.idx = j := by omega
        rw [SegOf, this]; exact ⟨hp, hq⟩
      · obtain ⟨j, e', he', hk, hs⟩ := allSegsFrom_spec es (k + 1) s h
        exact ⟨j + 1, e', by simpa using he', by omega, hs⟩

theorem allSegs_segIn (es : List REdge) : ∀ s ∈ allSegs es, SegIn es s := by
  intro s hs
  obtain ⟨j, e, he, hk, hso⟩ := allSegsFrom_spec es 0 s hs
  exact ⟨e, by rw [hk, Nat.zero_add]; exact he, hso⟩

/-! ### the theorem -/

/-- envelopes of the two segments of a pair intersect (what an R-tree query tests) -/
def pairEnvelopesMeet (pr : Seg × Seg) : Bool :=
  Geo.Prep.envelopesIntersect (pr.1.p, pr.1.q) (pr.2.p, pr.2.q)

theorem pairEvents_nil_of_envelopes {es : List REdge} {s0 s1 : Seg} (h : pairEnvelopesMeet (s0, s1) = false) :
    pairEvents es s0 s1 = [] := by
  have : lineIntersection s0.p s0.q s1.p s1.q = none := by
    by_contra hne
    have := Geo.Proofs.C17.candidates_complete (s0.p, s0.q) (s1.p, s1.q) hne
    unfold pairEnvelopesMeet at h
    rw [h] at this; cases this
  unfold pairEvents
  rw [this]
  split <;> rfl

/-- **Self-noding is independent of the visiting order.** Start from edges without recorded
intersections (`GeometryGraph::new`). Let `cand` be any list of segment pairs that the all-pairs
loop would visit, containing at least every such pair whose envelopes intersect — in any order, with
any repetitions (the candidates an R-tree reports). Visiting `cand` leaves exactly what the
all-pairs loop of the model leaves on the edges. Exact arithmetic. -/
theorem selfNoding_order_independent (check : Bool) (es : List REdge) (hes : ∀ e ∈ es, e.eis = [])
    (cand : List (Seg × Seg))
    (hsub : ∀ pr ∈ cand, pr ∈ selfPairs check (allSegs es) (allSegs es))
    (hsup : ∀ pr ∈ selfPairs check (allSegs es) (allSegs es), pairEnvelopesMeet pr = true → pr ∈ cand) :
    selfFold es cand = selfIntersections Arith.exact check es := by
  have hseg : ∀ pr ∈ selfPairs check (allSegs es) (allSegs es), SegIn es pr.1 ∧ SegIn es pr.2 := by
    intro pr hpr
    simp only [selfPairs, List.mem_flatMap, List.mem_map, List.mem_filter] at hpr
    obtain ⟨s0, hs0, s1, ⟨hs1, _⟩, rfl⟩ := hpr
    exact ⟨allSegs_segIn es s0 hs0, allSegs_segIn es s1 hs1⟩
  unfold selfIntersections
  simp only
  rw [selfRows_eq_fold, selfFold_eq_events _ es es (SameShape.refl es) hseg,
    selfFold_eq_events _ es es (SameShape.refl es) (fun pr hpr => hseg pr (hsub pr hpr))]
  apply applyEvents_congr
  · intro e he; rw [hes e he]; exact List.Pairwise.nil
  · intro e he r hr; rw [hes e he] at hr; cases hr
  · intro ev hev
    simp only [List.mem_flatMap] at hev
    obtain ⟨pr, hpr, hev⟩ := hev
    have := hseg pr (hsub pr hpr)
    exact pairEvents_valid this.1 this.2 ev hev
  · intro ev
    simp only [List.mem_flatMap]
    constructor
    · rintro ⟨pr, hpr, hev⟩
      exact ⟨pr, hsub pr hpr, hev⟩
    · rintro ⟨pr, hpr, hev⟩
      refine ⟨pr, hsup pr hpr ?_, hev⟩
      by_contra hne
      have hf : pairEnvelopesMeet (pr.1, pr.2) = false := by simpa using hne
      rw [pairEvents_nil_of_envelopes hf] at hev
      cases hev

end Geo.Proofs.RELM
