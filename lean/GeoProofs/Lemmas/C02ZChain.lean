/-
  C02Z, part 1: the form in which the simplicity of a line string is used by the completeness proof of the truncation
  loop of `LineString: Contains<Line>`.

  `SimpleChain w L`: a segment of the list `L` meets a LATER segment of `L` only in its own end point `seg.2` — or in the
  exceptional point `w` (the closure point of a closed line string: there the last segment comes back to the start of
  the first one).
-/
import GeoProofs.Lemmas.C02YLoop

set_option linter.unusedSimpArgs false
set_option linter.unusedVariables false

namespace Geo.Proofs.C02Z
open Geo Geo.Proofs.Kernel Geo.Proofs.Spec

/-- a segment meets a later segment of the list only in its end point, or in `w` -/
def SimpleChain (w : Pt) (L : List (Pt × Pt)) : Prop :=
  ∀ (pre : List (Pt × Pt)) (seg : Pt × Pt) (post : List (Pt × Pt)), L = pre ++ seg :: post →
    ∀ x, SegMem x seg.1 seg.2 → (∃ t ∈ post, SegMem x t.1 t.2) → x = seg.2 ∨ x = w

theorem SimpleChain.tail {w : Pt} {seg : Pt × Pt} {L : List (Pt × Pt)} (h : SimpleChain w (seg :: L)) :
    SimpleChain w L := by
  intro pre s post e x hx ht
  exact h (seg :: pre) s post (by rw [e]; rfl) x hx ht

theorem SimpleChain.head {w : Pt} {seg : Pt × Pt} {L : List (Pt × Pt)} (h : SimpleChain w (seg :: L)) :
    ∀ x, SegMem x seg.1 seg.2 → (∃ t ∈ L, SegMem x t.1 t.2) → x = seg.2 ∨ x = w :=
  h [] seg L rfl

end Geo.Proofs.C02Z
