/-
  C02Q, part 4: off a closed ring, the specification's winding number of a point perturbed by the
  symbolic infinitesimal (`m + δ·n`, the face samples of `relateParts`) is the winding number of the
  point itself, for every direction `n`.

  For `n.y ≥ 0` the increments agree edge by edge. For `n.y < 0` the perturbed point uses the other
  half-open convention (`s.y < y ≤ e.y`); per edge the two conventions differ by a potential
  difference `ψ(e) − ψ(s)`, `ψ v = 1` iff `v` is at the height of `m` strictly to its right, which
  telescopes along the closed ring.
-/
import GeoProofs.Lemmas.C02QWinding

namespace Geo.Proofs.C02Q
open Geo Geo.Proofs.Kernel Geo.Proofs.Loc

/-- the increment with the lower half-open convention -/
def ptIncLo (p s e : Pt) : Int :=
  if s.y < p.y then (if p.y ≤ e.y then (if 0 < cross s e p then 1 else 0) else 0)
  else (if e.y < p.y then (if cross s e p < 0 then -1 else 0) else 0)

theorem lineCoord_rev {s e p : Pt} (h : lineCoord e s p = true) : lineCoord s e p = true := by
  rw [lineCoord_iff] at h ⊢
  exact SegMem_symm h

/-- collinear and within the lower half-open y-range: on the edge -/
theorem lineCoord_of_cross_lo {s e p : Pt} (hc : cross s e p = 0) (h1 : s.y < p.y) (h2 : p.y ≤ e.y) :
    lineCoord s e p = true := by
  rcases lt_or_eq_of_le h2 with h | h
  · exact lineCoord_of_cross_up hc h1.le h
  · have hx : p.x = e.x := by
      unfold cross at hc
      rw [h] at hc
      have : (e.y - s.y) * (p.x - e.x) = 0 := by linarith
      rcases mul_eq_zero.mp this with h' | h'
      · linarith
      · linarith
    have : p = e := Pt.ext' hx h
    rw [this]; exact lineCoord_right s e

theorem eCrossSign_perturb (s e m : Pt) (x1 y1 : Rat) (hc : cross s e m ≠ 0) :
    eCrossSign s e ⟨m.x, x1, m.y, y1⟩ = if 0 < cross s e m then 1 else -1 := by
  have h : (e.x - s.x) * (m.y - e.y) - (e.y - s.y) * (m.x - e.x) = cross s e m := rfl
  simp only [eCrossSign, h, gt_iff_lt]
  rcases lt_or_gt_of_ne hc with hlt | hgt
  · have : ¬ 0 < cross s e m := by linarith
    simp [hlt, this]
  · simp [hgt]

/-- perturbation with `n.y ≥ 0`: the same increment -/
theorem specInc_perturb_up (s e m : Pt) (x1 y1 : Rat) (hy : 0 ≤ y1) (hoff : lineCoord s e m = false) :
    specInc ⟨m.x, x1, m.y, y1⟩ s e = ptInc m s e := by
  have e1 : ∀ a : Rat, eLe a 0 m.y y1 = decide (a ≤ m.y) := by
    intro a
    rcases lt_trichotomy a m.y with h | h | h
    · simp [eLe, h, h.le]
    · simp [eLe, h, hy]
    · have h1 : ¬ a ≤ m.y := not_le.mpr h
      have h2 : ¬ a < m.y := by linarith
      simp [eLe, h1, h2, h.ne']
  have e2 : ∀ a : Rat, eLt m.y y1 a 0 = decide (m.y < a) := by
    intro a
    have : ¬ y1 < 0 := not_lt.mpr hy
    by_cases h : m.y < a <;> simp [eLt, h, this]
  unfold specInc ptInc
  simp only [e1, e2, decide_eq_true_eq]
  by_cases h1 : s.y ≤ m.y
  · rw [if_pos h1, if_pos h1]
    by_cases h2 : m.y < e.y
    · rw [if_pos h2, if_pos h2]
      have hc : cross s e m ≠ 0 := by
        intro hc
        rw [lineCoord_of_cross_up hc h1 h2] at hoff; cases hoff
      rw [eCrossSign_perturb s e m x1 y1 hc]
      by_cases hp : 0 < cross s e m <;> simp [hp]
    · rw [if_neg h2, if_neg h2]
  · rw [if_neg h1, if_neg h1]
    by_cases h2 : e.y ≤ m.y
    · rw [if_pos h2, if_pos h2]
      have hc : cross s e m ≠ 0 := by
        intro hc
        rw [lineCoord_of_cross_down hc h2 (not_le.mp h1)] at hoff; cases hoff
      rw [eCrossSign_perturb s e m x1 y1 hc]
      rcases lt_or_gt_of_ne hc with hlt | hgt
      · have : ¬ 0 < cross s e m := by linarith
        simp [hlt, this]
      · have : ¬ cross s e m < 0 := by linarith
        simp [hgt, this]
    · rw [if_neg h2, if_neg h2]

/-- perturbation with `n.y < 0`: the increment with the lower convention -/
theorem specInc_perturb_down (s e m : Pt) (x1 y1 : Rat) (hy : y1 < 0) (hoff : lineCoord s e m = false) :
    specInc ⟨m.x, x1, m.y, y1⟩ s e = ptIncLo m s e := by
  have e1 : ∀ a : Rat, eLe a 0 m.y y1 = decide (a < m.y) := by
    intro a
    have : ¬ 0 ≤ y1 := not_le.mpr hy
    by_cases h : a < m.y <;> simp [eLe, h, this]
  have e2 : ∀ a : Rat, eLt m.y y1 a 0 = decide (m.y ≤ a) := by
    intro a
    rcases lt_trichotomy m.y a with h | h | h
    · simp [eLt, h, h.le]
    · simp [eLt, h, hy]
    · have h1 : ¬ m.y ≤ a := not_le.mpr h
      have h2 : ¬ m.y < a := by linarith
      simp [eLt, h1, h2, h.ne']
  unfold specInc ptIncLo
  simp only [e1, e2, decide_eq_true_eq]
  by_cases h1 : s.y < m.y
  · rw [if_pos h1, if_pos h1]
    by_cases h2 : m.y ≤ e.y
    · rw [if_pos h2, if_pos h2]
      have hc : cross s e m ≠ 0 := by
        intro hc
        rw [lineCoord_of_cross_lo hc h1 h2] at hoff; cases hoff
      rw [eCrossSign_perturb s e m x1 y1 hc]
      by_cases hp : 0 < cross s e m <;> simp [hp]
    · rw [if_neg h2, if_neg h2]
  · rw [if_neg h1, if_neg h1]
    by_cases h2 : e.y < m.y
    · rw [if_pos h2, if_pos h2]
      have hc : cross s e m ≠ 0 := by
        intro hc
        have hc' : cross e s m = 0 := by rw [cross_rev, hc, neg_zero]
        rw [lineCoord_rev (lineCoord_of_cross_lo hc' h2 (not_lt.mp h1))] at hoff; cases hoff
      rw [eCrossSign_perturb s e m x1 y1 hc]
      rcases lt_or_gt_of_ne hc with hlt | hgt
      · have : ¬ 0 < cross s e m := by linarith
        simp [hlt, this]
      · have : ¬ cross s e m < 0 := by linarith
        simp [hgt, this]
    · rw [if_neg h2, if_neg h2]

/-- the potential: at the height of `m`, strictly to its right -/
def psi (m v : Pt) : Int := if v.y = m.y ∧ m.x < v.x then 1 else 0

/-- the two half-open conventions differ by a potential difference on every edge not through `m` -/
theorem ptIncLo_sub (s e m : Pt) (hoff : lineCoord s e m = false) :
    ptIncLo m s e - ptInc m s e = psi m e - psi m s := by
  unfold ptIncLo ptInc psi
  rcases lt_trichotomy s.y m.y with hs | hs | hs
  · have ns : ¬ (s.y = m.y ∧ m.x < s.x) := fun h => by linarith [h.1]
    rw [if_pos hs, if_pos hs.le, if_neg ns]
    rcases lt_trichotomy e.y m.y with he | he | he
    · have ne' : ¬ (e.y = m.y ∧ m.x < e.x) := fun h => by linarith [h.1]
      rw [if_neg (not_le.mpr he), if_neg (not_lt.mpr he.le), if_neg ne']
    · have hc : cross s e m = (e.y - s.y) * (e.x - m.x) := by unfold cross; rw [he]; ring
      rw [if_pos he.ge, if_neg (by linarith : ¬ m.y < e.y)]
      have hpos : 0 < e.y - s.y := by linarith
      by_cases hx : m.x < e.x
      · have : 0 < cross s e m := by rw [hc]; exact mul_pos hpos (by linarith)
        rw [if_pos this, if_pos ⟨he, hx⟩]
      · have : ¬ 0 < cross s e m := by
          rw [hc]; intro h
          have := (mul_pos_iff_of_pos_left hpos).mp h
          linarith
        rw [if_neg this, if_neg (fun h => hx h.2)]
    · have ne' : ¬ (e.y = m.y ∧ m.x < e.x) := fun h => by linarith [h.1]
      rw [if_pos he.le, if_pos he, if_neg ne']
      omega
  · have n1 : ¬ s.y < m.y := by linarith
    rw [if_neg n1, if_pos hs.le]
    rcases lt_trichotomy e.y m.y with he | he | he
    · have ne' : ¬ (e.y = m.y ∧ m.x < e.x) := fun h => by linarith [h.1]
      have hc : cross s e m = (e.y - s.y) * (s.x - m.x) := by unfold cross; rw [← hs]; ring
      have hneg : e.y - s.y < 0 := by linarith
      rw [if_pos he, if_neg (by linarith : ¬ m.y < e.y), if_neg ne']
      by_cases hx : m.x < s.x
      · have : cross s e m < 0 := by rw [hc]; exact mul_neg_of_neg_of_pos hneg (by linarith)
        rw [if_pos this, if_pos ⟨hs, hx⟩]; rfl
      · have : ¬ cross s e m < 0 := by
          rw [hc]; intro h
          have : 0 ≤ (e.y - s.y) * (s.x - m.x) := mul_nonneg_of_nonpos_of_nonpos hneg.le (by linarith)
          linarith
        rw [if_neg this, if_neg (fun h => hx h.2)]
    · -- horizontal edge at the height of `m`, not through `m`: both ends on one side
      rw [if_neg (by linarith : ¬ e.y < m.y), if_neg (by linarith : ¬ m.y < e.y)]
      have hside : m.x < e.x ↔ m.x < s.x := by
        have hse : s = ⟨s.x, m.y⟩ := Pt.ext' rfl hs
        have hee : e = ⟨e.x, m.y⟩ := Pt.ext' rfl he
        have hnot : ¬ lineCoord ⟨s.x, m.y⟩ ⟨e.x, m.y⟩ m = true := by
          rw [← hse, ← hee, hoff]; simp
        rw [lineCoord_horiz] at hnot
        constructor
        · intro h
          by_contra hc
          exact hnot ⟨rfl, Or.inl ⟨not_lt.mp hc, h.le⟩⟩
        · intro h
          by_contra hc
          exact hnot ⟨rfl, Or.inr ⟨not_lt.mp hc, h.le⟩⟩
      by_cases hx : m.x < e.x
      · rw [if_pos ⟨he, hx⟩, if_pos ⟨hs, hside.mp hx⟩]; rfl
      · rw [if_neg (fun h => hx h.2), if_neg (fun h => hx (hside.mpr h.2))]
    · have ne' : ¬ (e.y = m.y ∧ m.x < e.x) := fun h => by linarith [h.1]
      have hc : cross s e m = (e.y - s.y) * (s.x - m.x) := by unfold cross; rw [← hs]; ring
      have hpos : 0 < e.y - s.y := by linarith
      rw [if_neg (by linarith : ¬ e.y < m.y), if_pos he, if_neg ne']
      by_cases hx : m.x < s.x
      · have : 0 < cross s e m := by rw [hc]; exact mul_pos hpos (by linarith)
        rw [if_pos this, if_pos ⟨hs, hx⟩]
      · have : ¬ 0 < cross s e m := by
          rw [hc]; intro h
          have := (mul_pos_iff_of_pos_left hpos).mp h
          linarith
        rw [if_neg this, if_neg (fun h => hx h.2)]
  · have ns : ¬ (s.y = m.y ∧ m.x < s.x) := fun h => by linarith [h.1]
    rw [if_neg (by linarith : ¬ s.y < m.y), if_neg (by linarith : ¬ s.y ≤ m.y), if_neg ns]
    rcases lt_trichotomy e.y m.y with he | he | he
    · have ne' : ¬ (e.y = m.y ∧ m.x < e.x) := fun h => by linarith [h.1]
      rw [if_pos he, if_pos he.le, if_neg ne']
      omega
    · have hc : cross s e m = (e.y - s.y) * (e.x - m.x) := by unfold cross; rw [he]; ring
      have hneg : e.y - s.y < 0 := by linarith
      rw [if_neg (by linarith : ¬ e.y < m.y), if_pos he.le]
      by_cases hx : m.x < e.x
      · have : cross s e m < 0 := by rw [hc]; exact mul_neg_of_neg_of_pos hneg (by linarith)
        rw [if_pos this, if_pos ⟨he, hx⟩]; rfl
      · have : ¬ cross s e m < 0 := by
          rw [hc]; intro h
          have : 0 ≤ (e.y - s.y) * (e.x - m.x) := mul_nonneg_of_nonpos_of_nonpos hneg.le (by linarith)
          linarith
        rw [if_neg this, if_neg (fun h => hx h.2)]
    · have ne' : ¬ (e.y = m.y ∧ m.x < e.x) := fun h => by linarith [h.1]
      rw [if_neg (by linarith : ¬ e.y < m.y), if_neg (by linarith : ¬ e.y ≤ m.y), if_neg ne']

/-- **Off a closed ring, perturbing the point by the symbolic infinitesimal in any direction does
not change the specification's winding number** (so the two face samples beside a point that is not
on the ring are located like the point). -/
theorem windingE_perturb (ring : List Pt) (hc : ring.head? = ring.getLast?) (m : Pt) (x1 y1 : Rat)
    (hoff : onAnySeg m (segs ring) = false) :
    windingE ⟨m.x, x1, m.y, y1⟩ ring = windingE (EPt.ofPt m) ring := by
  have hoff' : ∀ se ∈ segs ring, lineCoord se.1 se.2 m = false := by
    intro se hse
    cases hl : lineCoord se.1 se.2 m with
    | false => rfl
    | true =>
      have : onAnySeg m (segs ring) = true := (Loc.onAnySeg_iff _ _).mpr ⟨se, hse, hl⟩
      rw [hoff] at this; cases this
  rw [windingE_eq_sum, windingE_ofPt]
  by_cases hy : 0 ≤ y1
  · congr 1
    apply List.map_congr_left
    intro se hse
    exact specInc_perturb_up se.1 se.2 m x1 y1 hy (hoff' se hse)
  · have hy : y1 < 0 := not_le.mp hy
    have h0 := sum_potential_closed (fun v => - psi m v) ring hc
    have h1 : ((segs ring).map (fun se => ptIncLo m se.1 se.2 - ptInc m se.1 se.2)).sum = 0 := by
      rw [← h0]
      congr 1
      apply List.map_congr_left
      intro se hse
      rw [ptIncLo_sub se.1 se.2 m (hoff' se hse)]
      omega
    rw [sum_map_sub] at h1
    have h2 : (segs ring).map (fun se => specInc ⟨m.x, x1, m.y, y1⟩ se.1 se.2) =
        (segs ring).map (fun se => ptIncLo m se.1 se.2) := by
      apply List.map_congr_left
      intro se hse
      exact specInc_perturb_down se.1 se.2 m x1 y1 hy (hoff' se hse)
    rw [h2]
    omega

example : windingE ⟨1, -1, 1, -3⟩ [⟨0, 0⟩, ⟨4, 0⟩, ⟨0, 4⟩, ⟨0, 0⟩] =
    windingE (EPt.ofPt ⟨1, 1⟩) [⟨0, 0⟩, ⟨4, 0⟩, ⟨0, 4⟩, ⟨0, 0⟩] :=
  windingE_perturb _ rfl ⟨1, 1⟩ (-1) (-3) (by decide +kernel)

end Geo.Proofs.C02Q
