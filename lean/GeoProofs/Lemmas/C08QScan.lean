/-
  C08 helper lemmas (Graham scan, global correctness) — the stack pass.

  The stack (top first) is `up ++ [o]`: the pivot `o` at the bottom and above it points `up`
  lexicographically greater than `o`. Invariant `UpOk o up`: the pivot followed by `up` (bottom
  first) is in strictly convex position — every ordered triple turns strictly left.
  Containment is kept in dual form: `Inside S q` — every closed half-plane `cross u v · ≥ 0` that
  contains all of `S` contains `q` (`q` is in the convex hull of `S`). A popped point lies in the
  triangle pivot – point below it – new point, so the hull of the stack only grows.
-/
import GeoModel.Hull
import GeoProofs.Lemmas.C08QSort
import Mathlib.Tactic.Linarith
import Mathlib.Tactic.Ring

namespace Geo.Proofs.C08
open Geo Geo.Hull
open scoped List

/-! ### containment in dual form -/

/-- every closed half-plane (left of or on the directed line `u v`) containing `S` contains `q` -/
def Inside (S : List Pt) (q : Pt) : Prop :=
  ∀ u v : Pt, (∀ s ∈ S, 0 ≤ cross u v s) → 0 ≤ cross u v q

theorem Inside.of_mem {S : List Pt} {q : Pt} (h : q ∈ S) : Inside S q := fun _ _ hs => hs q h

theorem Inside.trans {S S' : List Pt} {q : Pt} (h : Inside S q) (hS : ∀ s ∈ S, Inside S' s) :
    Inside S' q :=
  fun u v hs => h u v (fun s hsS => hS s hsS u v hs)

theorem Inside.mono {S S' : List Pt} {q : Pt} (h : Inside S q) (hS : ∀ s ∈ S, s ∈ S') :
    Inside S' q :=
  h.trans (fun s hs => Inside.of_mem (hS s hs))

/-- a point of the (non-degenerate, counter-clockwise) triangle `o s t` -/
theorem inside_triangle {o s t q : Pt} (hD : 0 < cross o s t) (h1 : 0 ≤ cross o s q)
    (h2 : 0 ≤ cross s t q) (h3 : 0 ≤ cross t o q) : Inside [o, s, t] q := by
  intro u v hs
  have ho := hs o (by simp)
  have hs' := hs s (by simp)
  have ht := hs t (by simp)
  have hb := bary u v o s t q
  have h0 : 0 ≤ cross u v q * cross o s t := by
    rw [hb]
    exact add_nonneg (add_nonneg (mul_nonneg ho h2) (mul_nonneg hs' h3)) (mul_nonneg ht h1)
  by_contra hneg
  have := mul_neg_of_neg_of_pos (not_le.1 hneg) hD
  linarith

/-- a point of the segment from the pivot to a farther point on the same ray -/
theorem inside_segment {o s p : Pt} (hs : InH o s) (hp : InH o p) (h0 : cross o s p = 0)
    (hd : dist2 o s ≤ dist2 o p) : Inside [o, p] s := by
  obtain ⟨t, ht, hx, hy⟩ := le0_ray hs hp h0 hd
  intro u v hS
  have ho := hS o (by simp)
  have hp' := hS p (by simp)
  have hpx : p.x = o.x + t * (s.x - o.x) := by linarith
  have hpy : p.y = o.y + t * (s.y - o.y) := by linarith
  have key : t * cross u v s = (t - 1) * cross u v o + cross u v p := by
    unfold cross; rw [hpx, hpy]; ring
  have h1 : 0 ≤ t * cross u v s := by
    rw [key]
    have : 0 ≤ (t - 1) * cross u v o := mul_nonneg (by linarith) ho
    linarith
  by_contra hneg
  have := mul_neg_of_pos_of_neg (lt_of_lt_of_le one_pos ht) (not_le.1 hneg)
  linarith

/-- **the popped point** lies in the triangle pivot – point below it – new point -/
theorem pop_inside {o snd top p : Pt} (hsnd : snd = o ∨ (InH o snd ∧ 0 < cross o snd top))
    (htop : InH o top) (hp : InH o p) (hle : Le0 o top p) (hpop : cross snd top p ≤ 0) :
    Inside [o, snd, p] top := by
  rcases hsnd with hsnd | ⟨hsH, hst⟩
  · subst hsnd
    have h0 : cross snd top p = 0 := le_antisymm hpop hle.cross_nonneg
    rcases hle with hle | ⟨_, hd⟩
    · linarith
    · exact (inside_segment htop hp h0 hd).mono (by intro s hs; simp at hs ⊢; tauto)
  · have hD : 0 < cross o snd p := cross_trans_pos_left hsH htop hp hst hle.cross_nonneg
    refine inside_triangle hD (le_of_lt hst) ?_ ?_
    · rw [cross_swap]; linarith
    · rw [← cross_cyc, ← cross_cyc]; exact hle.cross_nonneg

/-! ### the invariant of the stack -/

/-- the pivot `o` followed by `up` reversed is in strictly convex position, `up` in the half-plane -/
structure UpOk (o : Pt) (up : List Pt) : Prop where
  inH : ∀ s ∈ up, InH o s
  pair : ∀ b a, [b, a] <+ up → 0 < cross o a b
  tri : ∀ c b a, [c, b, a] <+ up → 0 < cross a b c

theorem UpOk.nil (o : Pt) : UpOk o [] :=
  ⟨by simp, by intro b a h; simp at h, by intro c b a h; simp at h⟩

theorem UpOk.sublist {o : Pt} {up up' : List Pt} (h : UpOk o up) (hs : up' <+ up) : UpOk o up' :=
  ⟨fun s hm => h.inH s (hs.subset hm), fun b a hba => h.pair b a (hba.trans hs),
    fun c b a hcba => h.tri c b a (hcba.trans hs)⟩

theorem UpOk.tail {o x : Pt} {t : List Pt} (h : UpOk o (x :: t)) : UpOk o t :=
  h.sublist (List.sublist_cons_self _ _)

/-- the `while` loop of `graham_hull(.., false)` on a stack `up ++ [o]`: what is left is a suffix,
it stops at a strict left turn, and the hull of stack + new point has not shrunk -/
theorem popWhile_main {o p : Pt} (hp : InH o p) : ∀ up : List Pt, UpOk o up →
    (∀ s ∈ up, Le0 o s p) →
    ∃ up1, up1 <:+ up ∧ popWhile false p (up ++ [o]) = up1 ++ [o] ∧
      (∀ top snd rest, up1 ++ [o] = top :: snd :: rest → 0 < cross snd top p) ∧
      ∀ q, Inside (p :: (up ++ [o])) q → Inside (p :: (up1 ++ [o])) q := by
  intro up
  induction up with
  | nil =>
    intro _ _
    exact ⟨[], List.suffix_refl _, by simp [popWhile], by intro top snd rest h; simp at h,
      fun q h => h⟩
  | cons top t ih =>
    intro hok hle
    have hle' : ∀ s ∈ t, Le0 o s p := fun s hs => hle s (List.mem_cons_of_mem _ hs)
    obtain ⟨up1, hsuf, hpw, hstop, hins⟩ := ih hok.tail hle'
    obtain ⟨snd, rest, hsr, hsnd⟩ : ∃ snd rest, t ++ [o] = snd :: rest ∧
        (snd = o ∨ (InH o snd ∧ 0 < cross o snd top)) := by
      cases t with
      | nil => exact ⟨o, [], rfl, Or.inl rfl⟩
      | cons s' t' =>
        refine ⟨s', t' ++ [o], rfl, Or.inr ⟨hok.inH s' (by simp), ?_⟩⟩
        exact hok.pair top s' (by simp)
    have hpopcase : cross snd top p ≤ 0 →
        ∃ up1, up1 <:+ top :: t ∧ popWhile false p (snd :: rest) = up1 ++ [o] ∧
          (∀ top' snd' rest', up1 ++ [o] = top' :: snd' :: rest' → 0 < cross snd' top' p) ∧
          ∀ q, Inside (p :: top :: snd :: rest) q → Inside (p :: (up1 ++ [o])) q := by
      intro hpop
      refine ⟨up1, hsuf.trans (List.suffix_cons _ _), by rw [← hsr]; exact hpw, hstop, ?_⟩
      intro q hq
      apply hins
      rw [hsr]
      apply hq.trans
      intro s hs
      rcases List.mem_cons.1 hs with hs | hs
      · subst hs; exact Inside.of_mem (by simp)
      · rcases List.mem_cons.1 hs with hs | hs
        · subst hs
          have := pop_inside hsnd (hok.inH _ (by simp)) hp (hle _ (by simp)) hpop
          refine this.mono ?_
          intro x hx
          have ho : o ∈ snd :: rest := by rw [← hsr]; simp
          simp only [List.mem_cons, List.not_mem_nil, or_false] at hx
          rcases hx with hx | hx | hx
          · subst hx; exact List.mem_cons_of_mem _ ho
          · subst hx; simp
          · subst hx; simp
        · exact Inside.of_mem (List.mem_cons_of_mem _ hs)
    rw [List.cons_append, hsr]
    simp only [popWhile]
    split
    · rename_i hccw
      refine ⟨top :: t, List.suffix_refl _, by rw [List.cons_append, hsr], ?_, fun q h => ?_⟩
      · intro top' snd' rest' heq
        rw [List.cons_append, hsr] at heq
        injection heq with h1 h2
        injection h2 with h2 h3
        subst h1 h2
        exact (orient_ccw_iff' _ _ _).1 hccw
      · rw [List.cons_append, hsr]; exact h
    · rename_i hcw
      exact hpopcase (le_of_lt ((orient_cw_iff _ _ _).1 hcw))
    · rename_i hcol
      simp only [Bool.false_eq_true, if_false]
      exact hpopcase (le_of_eq ((orient_col_iff _ _ _).1 hcol))

/-- pushing the new point keeps strictly convex position -/
theorem upOk_push {o p : Pt} (hp : InH o p) {up1 : List Pt} (hok : UpOk o up1)
    (hle : ∀ s ∈ up1, Le0 o s p)
    (hstop : ∀ top snd rest, up1 ++ [o] = top :: snd :: rest → 0 < cross snd top p) :
    UpOk o (p :: up1) := by
  cases up1 with
  | nil =>
    refine ⟨by simpa using hp, ?_, ?_⟩
    · intro b a h; simp at h
    · intro c b a h; simp at h
  | cons top rest1 =>
    have htopH := hok.inH top (by simp)
    -- the new point is strictly after the top
    have htp : 0 < cross o top p := by
      cases rest1 with
      | nil => exact hstop top o [] rfl
      | cons snd rest2 =>
        have hs := hstop top snd (rest2 ++ [o]) rfl
        have hst : 0 < cross o snd top := hok.pair top snd (by simp)
        rcases hle top (by simp) with h | ⟨h0, hd⟩
        · exact h
        · exfalso
          obtain ⟨t, ht, hx, hy⟩ := le0_ray htopH hp h0 hd
          have h1 : cross o snd p = t * cross o snd top := by
            rw [cross_vec, cross_vec, hx, hy]; ring
          have h2 := cross_via o snd top p
          have : 0 ≤ (t - 1) * cross o snd top := mul_nonneg (by linarith) (le_of_lt hst)
          nlinarith
    -- … and strictly after everything on the stack
    have hpos : ∀ a ∈ top :: rest1, 0 < cross o a p := by
      intro a ha
      rcases List.mem_cons.1 ha with ha | ha
      · subst ha; exact htp
      · exact cross_trans_pos_left (hok.inH a (List.mem_cons_of_mem _ ha)) htopH hp
          (hok.pair top a (by simp [ha])) (le_of_lt htp)
    -- step 1: strictly left of every chord into the top
    have hstep1 : ∀ b ∈ rest1, 0 < cross b top p := by
      intro b hb
      cases rest1 with
      | nil => simp at hb
      | cons snd rest2 =>
        have hs := hstop top snd (rest2 ++ [o]) rfl
        rcases List.mem_cons.1 hb with hb | hb
        · subst hb; exact hs
        · have hpl := plucker_fan top p o b snd
          have e1 : 0 < cross top o snd := by
            rw [← cross_cyc, ← cross_cyc]; exact hok.pair top snd (by simp)
          have e2 : 0 < cross top p o := by rw [← cross_cyc]; exact htp
          have e3 : 0 < cross top b snd := by
            rw [← cross_cyc, ← cross_cyc]
            exact hok.tri top snd b (by simp [hb])
          have e4 : 0 < cross top p snd := by rw [← cross_cyc]; exact hs
          have e5 : 0 < cross top o b := by
            rw [← cross_cyc, ← cross_cyc]; exact hok.pair top b (by simp [hb])
          have e6 : 0 < cross top p b * cross top o snd := by
            rw [hpl]; exact add_pos (mul_pos e2 e3) (mul_pos e4 e5)
          have e7 : 0 < cross top p b := by
            by_contra hneg
            have := mul_nonpos_of_nonpos_of_nonneg (not_lt.1 hneg) (le_of_lt e1)
            linarith
          rw [cross_cyc]; exact e7
    refine ⟨?_, ?_, ?_⟩
    · intro s hs
      rcases List.mem_cons.1 hs with hs | hs
      · subst hs; exact hp
      · exact hok.inH s hs
    · intro b a hba
      rcases List.sublist_cons_iff.1 hba with h | ⟨r, hr, h⟩
      · exact hok.pair b a h
      · injection hr with h1 h2
        subst h1 h2
        exact hpos a (List.singleton_sublist.1 h)
    · intro c b a hcba
      rcases List.sublist_cons_iff.1 hcba with h | ⟨r, hr, h⟩
      · exact hok.tri c b a h
      · injection hr with h1 h2
        subst h1 h2
        -- `[b, a] <+ top :: rest1`, new point `c`
        rcases List.sublist_cons_iff.1 h with h' | ⟨r', hr', h'⟩
        · -- step 2
          have hb : b ∈ rest1 := h'.subset (by simp)
          have hpl := plucker_apex o a b top c
          have e1 : 0 < cross a b top := hok.tri top b a (h'.cons_cons top)
          have e2 : 0 < cross o b c := hpos b (List.mem_cons_of_mem _ hb)
          have e3 : 0 < cross o a b := hok.pair b a (h'.cons top)
          have e4 : 0 < cross b top c := hstep1 b hb
          have e5 : 0 < cross o b top := hok.pair top b (by simp [hb])
          have e6 : 0 < cross o b top * cross a b c := by
            have := mul_pos e1 e2
            have := mul_pos e3 e4
            linarith
          by_contra hneg
          have := mul_nonpos_of_nonneg_of_nonpos (le_of_lt e5) (not_lt.1 hneg)
          linarith
        · injection hr' with h1 h2
          subst h1 h2
          exact hstep1 a (List.singleton_sublist.1 h')

/-- one step of the scan (`include_on_hull = false`) -/
theorem grahamStep_main {o p : Pt} (hp0 : InH0 o p) (up : List Pt) (hok : UpOk o up)
    (hle : ∀ s ∈ up, Le0 o s p) :
    ∃ up2, grahamStep false (up ++ [o]) p = up2 ++ [o] ∧ UpOk o up2 ∧
      (∀ s ∈ up2, s = p ∨ s ∈ up) ∧
      (∀ q, Inside (up ++ [o]) q → Inside (up2 ++ [o]) q) ∧ Inside (up2 ++ [o]) p := by
  rcases hp0 with hp | hp
  · -- a repetition of the pivot: only possible while the stack is `[o]`; it is not pushed
    subst hp
    have hnil : up = [] := by
      cases up with
      | nil => rfl
      | cons s t =>
        exfalso
        exact (hok.inH s (by simp)).ne (le0_pivot_right (Or.inr (hok.inH s (by simp))) (hle s (by simp)))
    subst hnil
    refine ⟨[], ?_, hok, by simp, fun q h => h, Inside.of_mem (by simp)⟩
    simp [grahamStep, popWhile]
  · obtain ⟨up1, hsuf, hpw, hstop, hins⟩ := popWhile_main hp up hok hle
    have hok1 : UpOk o up1 := hok.sublist hsuf.sublist
    have hle1 : ∀ s ∈ up1, Le0 o s p := fun s hs => hle s (hsuf.subset hs)
    have hhead : (up1 ++ [o]).head? ≠ some p := by
      cases up1 with
      | nil => simp; exact fun h => hp.ne h.symm
      | cons top rest1 =>
        simp only [List.cons_append, List.head?_cons, ne_eq, Option.some.injEq]
        intro heq
        subst heq
        obtain ⟨snd, rest, hsr⟩ : ∃ snd rest, rest1 ++ [o] = snd :: rest := by
          cases rest1 <;> simp
        have := hstop top snd rest (by rw [List.cons_append, hsr])
        rw [cross_self_right] at this
        exact lt_irrefl _ this
    refine ⟨p :: up1, ?_, upOk_push hp hok1 hle1 hstop, ?_, ?_, Inside.of_mem (by simp)⟩
    · unfold grahamStep
      dsimp only
      rw [hpw]
      have hb : (false || (up1 ++ [o]).head? != some p) = true := by
        rw [Bool.false_or, bne_iff_ne]; exact hhead
      rw [if_pos hb]; rfl
    · intro s hs
      rcases List.mem_cons.1 hs with hs | hs
      · exact Or.inl hs
      · exact Or.inr (hsuf.subset hs)
    · intro q hq
      exact hins q (hq.mono (fun s hs => List.mem_cons_of_mem _ hs))

/-- the whole pass over a list that is pairwise sorted around the pivot -/
theorem grahamFold_main {o : Pt} : ∀ (l up : List Pt), l.Pairwise (Le0 o) → (∀ x ∈ l, InH0 o x) →
    UpOk o up → (∀ s ∈ up, ∀ x ∈ l, Le0 o s x) →
    ∃ upF, l.foldl (grahamStep false) (up ++ [o]) = upF ++ [o] ∧ UpOk o upF ∧
      (∀ q, Inside (up ++ [o]) q → Inside (upF ++ [o]) q) ∧ ∀ x ∈ l, Inside (upF ++ [o]) x := by
  intro l
  induction l with
  | nil =>
    intro up _ _ hok _
    exact ⟨up, rfl, hok, fun q h => h, by simp⟩
  | cons p t ih =>
    intro up hpw hH hok hle
    obtain ⟨up2, hstep, hok2, hmem2, hins2, hp2⟩ :=
      grahamStep_main (hH p (by simp)) up hok (fun s hs => hle s hs p (by simp))
    have hpw' := List.pairwise_cons.1 hpw
    obtain ⟨upF, hfold, hokF, hinsF, hallF⟩ := ih up2 hpw'.2
      (fun x hx => hH x (List.mem_cons_of_mem _ hx)) hok2 (by
        intro s hs x hx
        rcases hmem2 s hs with h | h
        · subst h; exact hpw'.1 x hx
        · exact hle s h x (List.mem_cons_of_mem _ hx))
    refine ⟨upF, by simp only [List.foldl]; rw [hstep]; exact hfold, hokF,
      fun q h => hinsF q (hins2 q h), ?_⟩
    intro x hx
    rcases List.mem_cons.1 hx with hx | hx
    · subst hx; exact hinsF _ hp2
    · exact hallF x hx

end Geo.Proofs.C08
