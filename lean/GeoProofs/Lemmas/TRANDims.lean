/-
  Translator tie for `HasDimensions` (geo/src/algorithm/dimensions.rs) and `LineString::is_closed` (geo-types): the
  clauses of `dims` / `boundaryDims` / `isEmptyG` in GeoModel/Locate.lean equal the definitions regenerated from the Rust
  bodies on this run (GeoModel/Gen/DimsGen.lean).
-/
import GeoModel.Locate
import GeoModel.Gen.DimsGen

namespace Geo.Proofs.TRANDims
open Geo

theorem isClosedLS_eq (cs : List Pt) : isClosedLS cs = Gen.lineStringIsClosed cs := by
  unfold isClosedLS Gen.lineStringIsClosed
  by_cases h : cs.head? = cs.getLast? <;> simp [h]

theorem lineDims_eq (a b : Pt) : dims (.line a b) = Gen.lineDimensions a b := by
  simp [dims, Gen.lineDimensions]

theorem lineBoundaryDims_eq (a b : Pt) : boundaryDims (.line a b) = Gen.lineBoundaryDimensions a b := by
  simp [boundaryDims, Gen.lineBoundaryDimensions]

theorem lsDims_eq (cs : List Pt) : lsDims cs = Gen.lineStringDimensions cs := by
  unfold lsDims Gen.lineStringDimensions
  cases cs with
  | nil => simp
  | cons f rest =>
    simp only [List.isEmpty_cons, Bool.false_eq_true, if_false, Gen.idx, List.getD_cons_zero]
    have : (f :: rest).any (fun x => x != f) = (f :: rest).any (fun coord => f != coord) := by
      congr 1; funext x; simp [bne, BEq.comm]
    rw [this]

theorem lsBoundaryDims_eq (cs : List Pt) : lsBoundaryDims cs = Gen.lineStringBoundaryDimensions cs := by
  unfold lsBoundaryDims Gen.lineStringBoundaryDimensions
  rw [← isClosedLS_eq, ← lsDims_eq]
  by_cases h : isClosedLS cs <;> simp [h] <;> cases lsDims cs <;> rfl

theorem dropWhile_not_nil {α : Type} (f : α → Bool) (l : List α) :
    (l.dropWhile (fun x => !f x) = []) ↔ l.any f = false := by
  induction l with
  | nil => simp
  | cons a t ih =>
    by_cases h : f a <;> simp [List.dropWhile, h, ih]

theorem polyDims_eq (q : Poly) : polyDims q = Gen.polygonDimensions q := by
  unfold polyDims Gen.polygonDimensions
  cases q.ext with
  | nil => rfl
  | cons first rest =>
    simp only
    have e1 : rest.dropWhile (· == first) = rest.dropWhile (fun next => !(next != first)) := by
      congr 1; funext x; simp [bne]
    rw [e1]
    cases h2 : rest.dropWhile (fun next => !(next != first)) with
    | nil => rfl
    | cons second rest2 =>
      simp only
      cases h3 : rest2.dropWhile (fun next => !(next != first && next != second)) with
      | nil =>
        have := (dropWhile_not_nil (fun c => c != first && c != second) rest2).1 h3
        simp [this]
      | cons third rest3 =>
        have : rest2.any (fun c => c != first && c != second) = true := by
          cases h : rest2.any (fun c => c != first && c != second) with
          | true => rfl
          | false => rw [(dropWhile_not_nil (fun c => c != first && c != second) rest2).2 h] at h3; cases h3
        simp [this]

theorem polyBoundaryDims_eq (q : Poly) : boundaryOfDims (polyDims q) = Gen.polygonBoundaryDimensions q := by
  unfold Gen.polygonBoundaryDimensions
  rw [← polyDims_eq]
  cases polyDims q <;> rfl

theorem lsDims_ne_two (cs : List Pt) : (lsDims cs == .two) = false := by
  unfold lsDims
  cases cs with
  | nil => rfl
  | cons f rest => by_cases h : (f :: rest).any (· != f) <;> simp [h]

theorem mlsLoop (ls : List (List Pt)) (m : Dim) (hm : m = .empty ∨ m = .zero) :
    (match Gen.loop (σ := Dim) (ρ := Dim) ls (fun line s =>
        match lsDims line with
        | .empty => .next s
        | .zero => .next .zero
        | .one => .ret .one
        | .two => .ret .empty) m with
      | .ret r => r
      | .next s => s) =
    if ls.any (fun l => lsDims l == .one) then .one
    else if ls.any (fun l => lsDims l == .zero) then .zero else m := by
  induction ls generalizing m with
  | nil => simp [Gen.loop]
  | cons l ls ih =>
    simp only [Gen.loop]
    cases h : lsDims l with
    | two => have := lsDims_ne_two l; simp [h] at this
    | empty => simp [h, ih, hm]
    | zero => simp [h, ih]
    | one => simp [h]

theorem mlsDims_eq (ls : List (List Pt)) : mlsDims ls = Gen.multiLineStringDimensions ls := by
  unfold mlsDims Gen.multiLineStringDimensions
  simp only [← lsDims_eq]
  exact (mlsLoop ls .empty (Or.inl rfl)).symm

/-- a loop `max = max.max(f x)` with the short cut `return TwoDimensional` is the plain left fold of `max` -/
theorem dimLoop {β : Type} (f : β → Dim) (xs : List β) (m : Dim) (hm : m ≠ .two) :
    (match Gen.loop (σ := Dim) (ρ := Dim) xs (fun g s =>
        if (f g == .two) then .ret .two else .next (Dim.max s (f g))) m with
      | .ret r => r
      | .next s => s) = xs.foldl (fun (m : Dim) x => m.max (f x)) m := by
  induction xs generalizing m with
  | nil => simp [Gen.loop]
  | cons q qs ih =>
    simp only [Gen.loop, List.foldl_cons]
    by_cases h : f q = .two
    · simp only [h, beq_self_eq_true, if_true]
      have hmax : m.max .two = .two := by cases m <;> first | rfl | exact absurd rfl hm
      rw [hmax]
      have : ∀ (l : List β), l.foldl (fun (m : Dim) x => m.max (f x)) .two = .two := by
        intro l
        induction l with
        | nil => rfl
        | cons a t iht =>
          simp only [List.foldl_cons]
          have : Dim.two.max (f a) = .two := by cases f a <;> rfl
          rw [this, iht]
      rw [this]
    · have hb : (f q == .two) = false := by simpa using h
      simp only [hb, Bool.false_eq_true, if_false]
      apply ih
      intro hc
      cases m <;> cases hq : f q <;> simp_all [Dim.max, Dim.rank]

theorem mpolyDims_eq (ps : List Poly) : mpolyDims ps = Gen.multiPolygonDimensions ps := by
  unfold mpolyDims Gen.multiPolygonDimensions
  simp only [← polyDims_eq]
  exact (dimLoop polyDims ps .empty (by decide)).symm

theorem mpolyBoundaryDims_eq (ps : List Poly) : boundaryOfDims (mpolyDims ps) = Gen.multiPolygonBoundaryDimensions ps := by
  unfold Gen.multiPolygonBoundaryDimensions
  rw [← mpolyDims_eq]
  cases mpolyDims ps <;> rfl

theorem Dim.max_assoc (a b c : Dim) : (a.max b).max c = a.max (b.max c) := by
  cases a <;> cases b <;> cases c <;> rfl

theorem foldl_max_dimsList (gs : List Geom) (m : Dim) :
    gs.foldl (fun (m : Dim) g => m.max (dims g)) m = m.max (dimsList gs) := by
  induction gs generalizing m with
  | nil => cases m <;> rfl
  | cons g gs ih => simp only [List.foldl_cons, ih, dimsList, Dim.max_assoc]

/-- `GeometryCollection::dimensions`, the recursive call through the `Geometry` enum being `dims` itself -/
theorem gcDims_eq (gs : List Geom) : dims (.collection gs) = Gen.geometryCollectionDimensions dims gs := by
  unfold Gen.geometryCollectionDimensions
  simp only [dims]
  have h := dimLoop dims gs .empty (by decide)
  rw [foldl_max_dimsList] at h
  have e : Dim.empty.max (dimsList gs) = dimsList gs := by cases dimsList gs <;> rfl
  rw [e] at h
  exact h.symm

/-- a loop `max = max.max(f x)` with the short cut `return OneDimensional`, over values that are never `TwoDimensional` -/
theorem dimLoopOne {β : Type} (f : β → Dim) (xs : List β) (m : Dim) (hm : m ≠ .two) (hf : ∀ x ∈ xs, f x ≠ .two) :
    (match Gen.loop (σ := Dim) (ρ := Dim) xs (fun g s =>
        if (f g == .one) then .ret .one else .next (Dim.max s (f g))) m with
      | .ret r => r
      | .next s => s) = xs.foldl (fun (m : Dim) x => m.max (f x)) m := by
  induction xs generalizing m with
  | nil => simp [Gen.loop]
  | cons q qs ih =>
    have hq : f q ≠ .two := hf q (by simp)
    have hqs : ∀ x ∈ qs, f x ≠ .two := fun x hx => hf x (by simp [hx])
    simp only [Gen.loop, List.foldl_cons]
    by_cases h : f q = .one
    · simp only [h, beq_self_eq_true, if_true]
      have hmax : m.max .one = .one := by cases m <;> first | rfl | exact absurd rfl hm
      rw [hmax]
      have : ∀ (l : List β), (∀ x ∈ l, f x ≠ .two) → l.foldl (fun (m : Dim) x => m.max (f x)) .one = .one := by
        intro l
        induction l with
        | nil => intro _; rfl
        | cons a t iht =>
          intro hl
          simp only [List.foldl_cons]
          have ha : f a ≠ .two := hl a (by simp)
          have : Dim.one.max (f a) = .one := by cases hfa : f a <;> first | rfl | exact absurd hfa ha
          rw [this, iht (fun x hx => hl x (by simp [hx]))]
      rw [this qs hqs]
    · have hb : (f q == .one) = false := by simpa using h
      simp only [hb, Bool.false_eq_true, if_false]
      apply ih _ _ hqs
      intro hc
      cases m <;> cases hq' : f q <;> simp_all [Dim.max, Dim.rank]

theorem lsBoundaryDims_ne_two (cs : List Pt) : lsBoundaryDims cs ≠ .two := by
  unfold lsBoundaryDims
  by_cases h : isClosedLS cs <;> simp [h]
  cases lsDims cs <;> simp

theorem boundaryOfDims_ne_two (d : Dim) : boundaryOfDims d ≠ .two := by cases d <;> simp [boundaryOfDims]

theorem max_ne_two {a b : Dim} (ha : a ≠ .two) (hb : b ≠ .two) : a.max b ≠ .two := by
  cases a <;> cases b <;> simp_all [Dim.max, Dim.rank]

mutual
theorem boundaryDims_ne_two : ∀ g : Geom, boundaryDims g ≠ .two
  | .point _ => by simp [boundaryDims]
  | .line a b => by by_cases h : a = b <;> simp [boundaryDims, h]
  | .lineString cs => by simp only [boundaryDims]; exact lsBoundaryDims_ne_two cs
  | .polygon q => by simp only [boundaryDims]; exact boundaryOfDims_ne_two _
  | .multiPoint _ => by simp [boundaryDims]
  | .multiLineString ls => by
      simp only [boundaryDims]
      split
      · simp
      · split <;> simp
  | .multiPolygon ps => by simp only [boundaryDims]; exact boundaryOfDims_ne_two _
  | .rect mn mx => by simp only [boundaryDims]; exact boundaryOfDims_ne_two _
  | .triangle a b c => by simp only [boundaryDims]; exact boundaryOfDims_ne_two _
  | .collection gs => by simp only [boundaryDims]; exact boundaryDimsList_ne_two gs
theorem boundaryDimsList_ne_two : ∀ gs : List Geom, boundaryDimsList gs ≠ .two
  | [] => by simp [boundaryDimsList]
  | g :: gs => by
      simp only [boundaryDimsList]
      exact max_ne_two (boundaryDims_ne_two g) (boundaryDimsList_ne_two gs)
end

theorem foldl_max_boundaryDimsList (gs : List Geom) (m : Dim) :
    gs.foldl (fun (m : Dim) g => m.max (boundaryDims g)) m = m.max (boundaryDimsList gs) := by
  induction gs generalizing m with
  | nil => cases m <;> rfl
  | cons g gs ih => simp only [List.foldl_cons, ih, boundaryDimsList, Dim.max_assoc]

/-- `GeometryCollection::boundary_dimensions`, the recursive call through the `Geometry` enum being `boundaryDims` itself -/
theorem gcBoundaryDims_eq (gs : List Geom) :
    boundaryDims (.collection gs) = Gen.geometryCollectionBoundaryDimensions boundaryDims gs := by
  unfold Gen.geometryCollectionBoundaryDimensions
  simp only [boundaryDims]
  have h := dimLoopOne boundaryDims gs .empty (by decide) (fun x _ => boundaryDims_ne_two x)
  rw [foldl_max_boundaryDimsList] at h
  have e : Dim.empty.max (boundaryDimsList gs) = boundaryDimsList gs := by cases boundaryDimsList gs <;> rfl
  rw [e] at h
  exact h.symm

theorem multiPoint_eq (ps : List Pt) :
    dims (.multiPoint ps) = Gen.multiPointDimensions ps ∧ isEmptyG (.multiPoint ps) = Gen.multiPointIsEmpty ps := by
  simp [dims, isEmptyG, Gen.multiPointDimensions, Gen.multiPointIsEmpty]

theorem multiIsEmpty_eq : (∀ ls : List (List Pt), isEmptyG (.multiLineString ls) = Gen.multiLineStringIsEmpty ls) ∧
    (∀ ps : List Poly, isEmptyG (.multiPolygon ps) = Gen.multiPolygonIsEmpty ps) := by
  refine ⟨fun ls => ?_, fun ps => ?_⟩
  · simp only [isEmptyG, Gen.multiLineStringIsEmpty]
    congr 1
  · simp only [isEmptyG, Gen.multiPolygonIsEmpty]
    congr 1

theorem rectDims_eq (mn mx : Pt) : rectDims mn mx = Gen.rectDimensions mn mx := rfl

theorem rectBoundaryDims_eq (mn mx : Pt) : boundaryOfDims (rectDims mn mx) = Gen.rectBoundaryDimensions mn mx := by
  unfold Gen.rectBoundaryDimensions
  rw [← rectDims_eq]
  cases rectDims mn mx <;> rfl

theorem triDims_eq (a b c : Pt) : triDims a b c = Gen.triangleDimensions a b c := by
  unfold triDims Gen.triangleDimensions
  by_cases h : orient a b c = .col
  · simp [h]
  · have h' : ¬ Ori.col = orient a b c := fun e => h e.symm
    simp [h, h']

theorem triBoundaryDims_eq (a b c : Pt) : boundaryOfDims (triDims a b c) = Gen.triangleBoundaryDimensions a b c := by
  unfold Gen.triangleBoundaryDimensions
  rw [← triDims_eq]
  cases triDims a b c <;> rfl

theorem isEmpty_eq : (∀ cs : List Pt, isEmptyG (.lineString cs) = Gen.lineStringIsEmpty cs) ∧
    (∀ q : Poly, isEmptyG (.polygon q) = Gen.polygonIsEmpty q) := ⟨fun _ => rfl, fun _ => rfl⟩

end Geo.Proofs.TRANDims
