/-
  C01Q, part 6: a non-degenerate Triangle has a face sample of the arrangement in its interior —
  the sample beside its first edge, on the side of the third vertex, has winding number ±1.
-/
import GeoProofs.Lemmas.C01QAreal

namespace Geo.Proofs.Spec
open Geo Geo.Proofs.Kernel

/-- the contribution of an edge in terms of the levels of its end points (at-or-below / above the
sweep line through the perturbed point) -/
theorem edgeW_lvl (p : EPt) (s e : Pt) : edgeW p (s, e) =
    if eLe s.y 0 p.y0 p.y1 then
      (if eLe e.y 0 p.y0 p.y1 then 0 else (if eCrossSign s e p > 0 then 1 else 0))
    else (if eLe e.y 0 p.y0 p.y1 then (if eCrossSign s e p < 0 then -1 else 0) else 0) := by
  unfold edgeW
  simp only
  by_cases h : eLe e.y 0 p.y0 p.y1 = true
  · have : ¬ eLt p.y0 p.y1 e.y 0 = true := by rw [eLt_iff_not_eLe]; exact not_not.mpr h
    simp [h, this]
  · have : eLt p.y0 p.y1 e.y 0 = true := (eLt_iff_not_eLe _ _ _ _).mpr h
    simp [h, this]

/-- a closed three-edge ring all of whose edges see the point on the same side `σ`, and whose
vertices are not all on the same side of the sweep line, winds `σ` times around the point -/
theorem tri_winding (p : EPt) (a b c : Pt) (σ : Int) (hσ : σ = 1 ∨ σ = -1)
    (h1 : eCrossSign a b p = σ) (h2 : eCrossSign b c p = σ) (h3 : eCrossSign c a p = σ)
    (hl : ¬ ((eLe a.y 0 p.y0 p.y1 = eLe b.y 0 p.y0 p.y1) ∧ (eLe b.y 0 p.y0 p.y1 = eLe c.y 0 p.y0 p.y1))) :
    windingE p [a, b, c, a] = σ := by
  rw [windingE_eq_wsum]
  simp only [segs, wsum, edgeW_lvl, h1, h2, h3]
  generalize eLe a.y 0 p.y0 p.y1 = la at *
  generalize eLe b.y 0 p.y0 p.y1 = lb at *
  generalize eLe c.y 0 p.y0 p.y1 = lc at *
  rcases hσ with rfl | rfl <;> cases la <;> cases lb <;> cases lc <;> simp at hl ⊢

/-- the vertices of the triangle are not all on the same side of the sweep line through a perturbed
interior point of the edge `(a, b)`, if the perturbation points to the side of `c` when the edge is
horizontal -/
theorem tri_levels (a b c m : Pt) (py1 t : Rat) (t0 : 0 < t) (t1 : t < 1)
    (hy : m.y = a.y + t * (b.y - a.y))
    (hh : a.y = b.y → c.y ≠ a.y ∧ (0 ≤ py1 ↔ a.y < c.y)) :
    ¬ ((eLe a.y 0 m.y py1 = eLe b.y 0 m.y py1) ∧ (eLe b.y 0 m.y py1 = eLe c.y 0 m.y py1)) := by
  rintro ⟨e1, e2⟩
  rw [Bool.eq_iff_iff, eLe_iff, eLe_iff] at e1 e2
  rcases lt_trichotomy a.y b.y with h | h | h
  · have h1 : a.y < m.y := by
      have := mul_pos t0 (sub_pos.mpr h); linarith
    have h2 : m.y < b.y := by
      have : t * (b.y - a.y) < 1 * (b.y - a.y) := mul_lt_mul_of_pos_right t1 (sub_pos.mpr h)
      linarith
    rcases e1.mp (Or.inl h1) with h3 | ⟨h3, _⟩ <;> linarith
  · obtain ⟨hc, hiff⟩ := hh h
    have hm : m.y = a.y := by rw [hy, h]; ring
    by_cases hp : 0 ≤ py1
    · have hac := hiff.mp hp
      rcases e2.mp (Or.inr ⟨by rw [hm, h], hp⟩) with h3 | ⟨h3, _⟩ <;> linarith
    · have hca : c.y < a.y := by
        rcases lt_or_gt_of_ne hc with h' | h'
        · exact h'
        · exact absurd (hiff.mpr h') hp
      rcases e2.mpr (Or.inl (by rw [hm]; exact hca)) with h3 | ⟨_, h3⟩
      · rw [hm, h] at h3; exact lt_irrefl _ h3
      · exact hp h3
  · have h1 : m.y < a.y := by
      have := mul_pos t0 (sub_pos.mpr h); linarith
    have h2 : b.y < m.y := by
      have : t * (a.y - b.y) < 1 * (a.y - b.y) := mul_lt_mul_of_pos_right t1 (sub_pos.mpr h)
      linarith
    rcases e1.mpr (Or.inl h2) with h3 | ⟨h3, _⟩ <;> linarith

theorem ne_of_cross_ne_zero {a b c : Pt} (hD : cross a b c ≠ 0) : a ≠ b := by
  intro e
  apply hD
  rw [e]; unfold cross; ring

/-- counter-clockwise triangle: the left sample beside `(a, b)` has winding number 1 -/
theorem tri_faceL (a b c m : Pt) (t : Rat) (t0 : 0 < t) (t1 : t < 1)
    (hx : m.x = a.x + t * (b.x - a.x)) (hy : m.y = a.y + t * (b.y - a.y)) (hD : 0 < cross a b c) :
    windingE (faceL a b m) [a, b, c, a] = 1 := by
  have hab : a ≠ b := ne_of_cross_ne_zero (ne_of_gt hD)
  have hL := seg_len_pos hab
  apply tri_winding _ _ _ _ 1 (Or.inl rfl)
  · unfold eCrossSign faceL
    simp only
    have c0 : (b.x - a.x) * (m.y - b.y) - (b.y - a.y) * (m.x - b.x) = 0 := by rw [hx, hy]; ring
    have c1 : 0 < (b.x - a.x) * (b.x - a.x) - (b.y - a.y) * -(b.y - a.y) := by linarith
    rw [c0, if_neg (lt_irrefl _), if_neg (lt_irrefl _), if_pos c1]
  · apply eCrossSign_of_pos
    have : c0 b c (faceL a b m) = (1 - t) * cross a b c := by
      unfold c0 faceL cross; simp only; rw [hx, hy]; ring
    rw [this]
    exact mul_pos (by linarith) hD
  · apply eCrossSign_of_pos
    have : c0 c a (faceL a b m) = t * cross a b c := by
      unfold c0 faceL cross; simp only; rw [hx, hy]; ring
    rw [this]
    exact mul_pos t0 hD
  · apply tri_levels a b c m _ t t0 t1 hy
    intro h
    have hDe : cross a b c = (b.x - a.x) * (c.y - a.y) := by unfold cross; rw [h]; ring
    rw [hDe] at hD
    refine ⟨?_, ?_, ?_⟩
    · intro e; rw [e] at hD; simp at hD
    · intro hp
      have hy1 : (faceL a b m).y1 = b.x - a.x := rfl
      rw [hy1] at hp
      by_contra hc
      have : (b.x - a.x) * (c.y - a.y) ≤ 0 := mul_nonpos_of_nonneg_of_nonpos hp (by linarith)
      linarith
    · intro hc
      have hy1 : (faceL a b m).y1 = b.x - a.x := rfl
      rw [hy1]
      by_contra hp
      have : (b.x - a.x) * (c.y - a.y) < 0 := mul_neg_of_neg_of_pos (by linarith) (by linarith)
      linarith

/-- clockwise triangle: the right sample beside `(a, b)` has winding number −1 -/
theorem tri_faceR (a b c m : Pt) (t : Rat) (t0 : 0 < t) (t1 : t < 1)
    (hx : m.x = a.x + t * (b.x - a.x)) (hy : m.y = a.y + t * (b.y - a.y)) (hD : cross a b c < 0) :
    windingE (faceR a b m) [a, b, c, a] = -1 := by
  have hab : a ≠ b := ne_of_cross_ne_zero (ne_of_lt hD)
  have hL := seg_len_pos hab
  apply tri_winding _ _ _ _ (-1) (Or.inr rfl)
  · unfold eCrossSign faceR
    simp only
    have c0 : (b.x - a.x) * (m.y - b.y) - (b.y - a.y) * (m.x - b.x) = 0 := by rw [hx, hy]; ring
    have c1 : (b.x - a.x) * -(b.x - a.x) - (b.y - a.y) * - -(b.y - a.y) < 0 := by
      have : (b.x - a.x) * -(b.x - a.x) - (b.y - a.y) * - -(b.y - a.y) =
          -((b.x - a.x) * (b.x - a.x) + (b.y - a.y) * (b.y - a.y)) := by ring
      rw [this]; linarith
    rw [c0, if_neg (lt_irrefl _), if_neg (lt_irrefl _), if_neg (not_lt.mpr c1.le), if_pos c1]
  · apply eCrossSign_of_neg
    have : c0 b c (faceR a b m) = (1 - t) * cross a b c := by
      unfold c0 faceR cross; simp only; rw [hx, hy]; ring
    rw [this]
    exact mul_neg_of_pos_of_neg (by linarith) hD
  · apply eCrossSign_of_neg
    have : c0 c a (faceR a b m) = t * cross a b c := by
      unfold c0 faceR cross; simp only; rw [hx, hy]; ring
    rw [this]
    exact mul_neg_of_pos_of_neg t0 hD
  · apply tri_levels a b c m _ t t0 t1 hy
    intro h
    have hDe : cross a b c = (b.x - a.x) * (c.y - a.y) := by unfold cross; rw [h]; ring
    rw [hDe] at hD
    refine ⟨?_, ?_, ?_⟩
    · intro e; rw [e] at hD; simp at hD
    · intro hp
      have hy1 : (faceR a b m).y1 = -(b.x - a.x) := rfl
      rw [hy1] at hp
      by_contra hc
      have : 0 ≤ (b.x - a.x) * (c.y - a.y) := mul_nonneg_of_nonpos_of_nonpos (by linarith) (by linarith)
      linarith
    · intro hc
      have hy1 : (faceR a b m).y1 = -(b.x - a.x) := rfl
      rw [hy1]
      by_contra hp
      have : 0 < (b.x - a.x) * (c.y - a.y) := mul_pos (by linarith) (by linarith)
      linarith

theorem parts_triangle_eq (a b c : Pt) : parts (.triangle a b c) = ⟨[], [], [⟨[a, b, c, a], []⟩]⟩ := by
  simp [parts]

/-- a non-degenerate Triangle has a face sample in its interior -/
theorem triangle_interior_sample (a b c : Pt) (hD : cross a b c ≠ 0) :
    HasInteriorSample (parts (.triangle a b c)) := by
  intro pb
  rw [parts_triangle_eq]
  have hs : (a, b) ∈ (Parts.allSegs ⟨[], [], [⟨[a, b, c, a], []⟩]⟩) ++ pb.allSegs := by
    apply List.mem_append_left
    rw [allSegs_single]
    simp [Poly.rings, segs]
  have hne : a ≠ b := ne_of_cross_ne_zero hD
  obtain ⟨v1, v2⟩ := ends_mem_vertsOf hs
  obtain ⟨m, hm, hnv, hall⟩ := exists_atoms_of_seg hs hne
  simp only at hm hall v1 v2
  have hma : m ≠ a := fun e => hnv (e ▸ v1)
  have hmb : m ≠ b := fun e => hnv (e ▸ v2)
  obtain ⟨t, t0, t1, hmx, hmy⟩ := hm
  have ht0 : t ≠ 0 := by
    intro e
    apply hma
    apply Pt.ext'
    · rw [hmx, e]; ring
    · rw [hmy, e]; ring
  have ht1 : t ≠ 1 := by
    intro e
    apply hmb
    apply Pt.ext'
    · rw [hmx, e]; ring
    · rw [hmy, e]; ring
  have ht0' : 0 < t := lt_of_le_of_ne t0 (Ne.symm ht0)
  have ht1' : t < 1 := lt_of_le_of_ne t1 ht1
  rcases lt_or_gt_of_ne hD with hneg | hpos
  · refine ⟨_, hall _ (Or.inr (Or.inr rfl)), rfl, ?_⟩
    simp only
    have hw := tri_faceR a b c m t ht0' ht1' hmx hmy hneg
    unfold locateFace
    simp only [List.any_cons, List.any_nil, insidePolyE, hw, List.all_nil]
    rfl
  · refine ⟨_, hall _ (Or.inr (Or.inl rfl)), rfl, ?_⟩
    simp only
    have hw := tri_faceL a b c m t ht0' ht1' hmx hmy hpos
    unfold locateFace
    simp only [List.any_cons, List.any_nil, insidePolyE, hw, List.all_nil]
    rfl

theorem triDims_two {a b c : Pt} (hD : cross a b c ≠ 0) : triDims a b c = .two := by
  have : orient a b c ≠ .col := fun e => hD ((orient_col_iff a b c).mp e)
  simp [triDims, this]

/-- Triangle with non-collinear vertices -/
theorem dimsSpec_triangle (a b c : Pt) (hD : cross a b c ≠ 0) : DimsSpec (.triangle a b c) where
  inside := by
    intro pb
    have : dims (.triangle a b c) = .two := by simp [dims, triDims_two hD]
    rw [this]
    exact rowMax_inside_two (triangle_interior_sample a b c hD pb)
  boundary := by
    intro pb
    have : boundaryDims (.triangle a b c) = .one := by simp [boundaryDims, triDims_two hD, boundaryOfDims]
    rw [this, parts_triangle_eq]
    apply rowMax_boundary_one
    apply poly_boundary_sample _ pb (s := (a, b))
    · simp [Poly.rings, segs]
    · exact ne_of_cross_ne_zero hD
  ne := by
    intro _
    simp [dims, triDims_two hD]

end Geo.Proofs.Spec
