/-
  RELM — `EdgeEndKey::compare_direction` is a strict weak order on the edge ends of one node
  (common origin, non-zero direction vectors), in exact arithmetic: quadrant first, then the sign of
  the cross product of the direction vectors.
-/
import GeoModel.RelateImplTop
import GeoProofs.Lemmas.SegmentSpec
import Mathlib.Tactic.Linarith
import Mathlib.Tactic.NormNum
import Mathlib.Tactic.Ring

namespace Geo.Proofs.RELM
open Geo Geo.GG Geo.RI Geo.Proofs.Kernel

/-- cross product of two direction vectors -/
def vcross (u v : Pt) : Rat := u.x * v.y - u.y * v.x
def vdot (u v : Pt) : Rat := u.x * v.x + u.y * v.y

/-- same quadrant (`Quadrant::new` looks at `dy >= 0`, `dx >= 0`) -/
def SameQuad (u v : Pt) : Prop := (0 ≤ u.x ↔ 0 ≤ v.x) ∧ (0 ≤ u.y ↔ 0 ≤ v.y)

def NonZero (u : Pt) : Prop := u.x ≠ 0 ∨ u.y ≠ 0

theorem quadrant_some {u : Pt} (h : NonZero u) : ∃ q, quadrant u = some q := by
  unfold quadrant
  have : (u.x == 0 && u.y == 0) = false := by
    rcases h with h | h <;> simp [h]
  rw [this]
  simp only [Bool.false_eq_true, if_false]
  split <;> split <;> exact ⟨_, rfl⟩

theorem quadrant_eq_iff {u v : Pt} (hu : NonZero u) (hv : NonZero v) :
    quadrant u = quadrant v ↔ SameQuad u v := by
  unfold quadrant SameQuad
  have h1 : (u.x == 0 && u.y == 0) = false := by rcases hu with h | h <;> simp [h]
  have h2 : (v.x == 0 && v.y == 0) = false := by rcases hv with h | h <;> simp [h]
  rw [h1, h2]
  simp only [Bool.false_eq_true, if_false, ge_iff_le]
  by_cases a : 0 ≤ u.y <;> by_cases b : 0 ≤ u.x <;> by_cases c : 0 ≤ v.y <;> by_cases d : 0 ≤ v.x <;>
    simp [a, b, c, d]

theorem SameQuad.refl (u : Pt) : SameQuad u u := ⟨Iff.rfl, Iff.rfl⟩
theorem SameQuad.symm {u v : Pt} (h : SameQuad u v) : SameQuad v u := ⟨h.1.symm, h.2.symm⟩
theorem SameQuad.trans {u v w : Pt} (h1 : SameQuad u v) (h2 : SameQuad v w) : SameQuad u w :=
  ⟨h1.1.trans h2.1, h1.2.trans h2.2⟩

theorem mul_nonneg_of_iff {a b : Rat} (h : 0 ≤ a ↔ 0 ≤ b) : 0 ≤ a * b := by
  by_cases ha : 0 ≤ a
  · exact mul_nonneg ha (h.1 ha)
  · have hb : ¬ 0 ≤ b := fun hb => ha (h.2 hb)
    exact le_of_lt (mul_pos_of_neg_of_neg (not_le.1 ha) (not_le.1 hb))

theorem vdot_nonneg {u v : Pt} (h : SameQuad u v) : 0 ≤ vdot u v := by
  unfold vdot
  exact add_nonneg (mul_nonneg_of_iff h.1) (mul_nonneg_of_iff h.2)

/-- `sin(α+β) = sin α cos β + cos α sin β`, scaled -/
theorem vcross_identity (u v w : Pt) :
    vcross u w * vdot v v = vcross u v * vdot v w + vdot u v * vcross v w := by
  unfold vcross vdot; ring

theorem lagrange (u v : Pt) : vdot u v * vdot u v + vcross u v * vcross u v = vdot u u * vdot v v := by
  unfold vcross vdot; ring

theorem vdot_self_pos {v : Pt} (h : NonZero v) : 0 < vdot v v := by
  unfold vdot
  rcases h with h | h
  · have := mul_self_pos.2 h
    have := mul_self_nonneg v.y
    linarith
  · have := mul_self_pos.2 h
    have := mul_self_nonneg v.x
    linarith

/-- **transitivity inside a quadrant** -/
theorem vcross_pos_trans {u v w : Pt} (hv : NonZero v) (huv : SameQuad u v) (hvw : SameQuad v w)
    (h1 : 0 < vcross u v) (h2 : 0 < vcross v w) : 0 < vcross u w := by
  have hid := vcross_identity u v w
  have hvv := vdot_self_pos hv
  have d1 := vdot_nonneg huv
  have d2 := vdot_nonneg hvw
  have huw : SameQuad u w := huv.trans hvw
  by_contra hneg
  have hle : vcross u w ≤ 0 := not_lt.1 hneg
  have hprod : vcross u w * vdot v v ≤ 0 := mul_nonpos_of_nonpos_of_nonneg hle (le_of_lt hvv)
  have t1 : 0 ≤ vcross u v * vdot v w := mul_nonneg (le_of_lt h1) d2
  have t2 : 0 ≤ vdot u v * vcross v w := mul_nonneg d1 (le_of_lt h2)
  have z1 : vcross u v * vdot v w = 0 := by linarith
  have z2 : vdot u v * vcross v w = 0 := by linarith
  have e1 : vdot v w = 0 := by
    rcases mul_eq_zero.1 z1 with h | h
    · linarith
    · exact h
  have e2 : vdot u v = 0 := by
    rcases mul_eq_zero.1 z2 with h | h
    · exact h
    · linarith
  -- both dot products vanish: componentwise
  unfold vdot at e1 e2
  have a1 := mul_nonneg_of_iff hvw.1
  have a2 := mul_nonneg_of_iff hvw.2
  have b1 := mul_nonneg_of_iff huv.1
  have b2 := mul_nonneg_of_iff huv.2
  have vxwx : v.x * w.x = 0 := by linarith
  have vywy : v.y * w.y = 0 := by linarith
  have uxvx : u.x * v.x = 0 := by linarith
  have uyvy : u.y * v.y = 0 := by linarith
  unfold vcross at h1 h2
  by_cases hvx : v.x = 0
  · have hvy : v.y ≠ 0 := by
      rcases hv with h | h
      · exact absurd hvx h
      · exact h
    have wy : w.y = 0 := by
      rcases mul_eq_zero.1 vywy with h | h
      · exact absurd h hvy
      · exact h
    have uy : u.y = 0 := by
      rcases mul_eq_zero.1 uyvy with h | h
      · exact h
      · exact absurd h hvy
    rw [hvx, uy] at h1
    rw [hvx, wy] at h2
    -- `u.x * v.y > 0` and `- v.y * w.x > 0`
    have p1 : 0 < u.x * v.y := by linarith
    have p2 : v.y * w.x < 0 := by linarith
    rcases lt_or_gt_of_ne hvy with hn | hp
    · have ux : u.x < 0 := by
        by_contra hc; have := mul_nonpos_of_nonneg_of_nonpos (not_lt.1 hc) (le_of_lt hn); linarith
      have wx : 0 < w.x := by
        by_contra hc
        have := mul_nonneg_of_nonpos_of_nonpos (le_of_lt hn) (not_lt.1 hc); linarith
      have := huw.1.2 (le_of_lt wx)
      linarith
    · have ux : 0 < u.x := by
        by_contra hc; have := mul_nonpos_of_nonpos_of_nonneg (not_lt.1 hc) (le_of_lt hp); linarith
      have wx : w.x < 0 := by
        by_contra hc
        have := mul_nonneg (le_of_lt hp) (not_lt.1 hc); linarith
      have := huw.1.1 (le_of_lt ux)
      linarith
  · have wx : w.x = 0 := by
      rcases mul_eq_zero.1 vxwx with h | h
      · exact absurd h hvx
      · exact h
    have ux : u.x = 0 := by
      rcases mul_eq_zero.1 uxvx with h | h
      · exact h
      · exact absurd h hvx
    rw [ux] at h1
    rw [wx] at h2
    have p1 : u.y * v.x < 0 := by linarith
    have p2 : 0 < v.x * w.y := by linarith
    rcases lt_or_gt_of_ne hvx with hn | hp
    · have uy : 0 < u.y := by
        by_contra hc
        have := mul_nonneg_of_nonpos_of_nonpos (not_lt.1 hc) (le_of_lt hn); linarith
      have wy : w.y < 0 := by
        by_contra hc
        have := mul_nonpos_of_nonpos_of_nonneg (le_of_lt hn) (not_lt.1 hc); linarith
      have := huw.2.1 (le_of_lt uy)
      linarith
    · have uy : u.y < 0 := by
        by_contra hc
        have := mul_nonneg (not_lt.1 hc) (le_of_lt hp); linarith
      have wy : 0 < w.y := by
        by_contra hc
        have := mul_nonpos_of_nonneg_of_nonpos (le_of_lt hp) (not_lt.1 hc); linarith
      have := huw.2.2 (le_of_lt wy)
      linarith

/-- parallel vectors of one quadrant have a positive dot product -/
theorem vdot_pos_of_parallel {u v : Pt} (hu : NonZero u) (hv : NonZero v) (hq : SameQuad u v)
    (hc : vcross u v = 0) : 0 < vdot u v := by
  have hl := lagrange u v
  rw [hc] at hl
  have := mul_pos (vdot_self_pos hu) (vdot_self_pos hv)
  have h0 := vdot_nonneg hq
  rcases lt_or_eq_of_le h0 with h | h
  · exact h
  · rw [← h] at hl; linarith

theorem vcross_antisymm (u v : Pt) : vcross v u = - vcross u v := by unfold vcross; ring

/-! ### the order -/

/-- rank of the quadrant of a non-zero vector (`0` for the zero vector) -/
def quadRank (u : Pt) : Nat := (quadrant u).getD 0

/-- `u` comes strictly before `v` in `compare_direction` order -/
def DirLt (u v : Pt) : Prop := quadRank u < quadRank v ∨ (quadRank u = quadRank v ∧ 0 < vcross u v)

/-- same direction -/
def DirEq (u v : Pt) : Prop := quadRank u = quadRank v ∧ vcross u v = 0

theorem sameQuad_of_rank {u v : Pt} (hu : NonZero u) (hv : NonZero v) (h : quadRank u = quadRank v) :
    SameQuad u v := by
  obtain ⟨a, ha⟩ := quadrant_some hu
  obtain ⟨b, hb⟩ := quadrant_some hv
  unfold quadRank at h
  rw [ha, hb] at h
  simp only [Option.getD_some] at h
  exact (quadrant_eq_iff hu hv).1 (by rw [ha, hb, h])

theorem DirLt.trans {u v w : Pt} (hu : NonZero u) (hv : NonZero v) (hw : NonZero w)
    (h1 : DirLt u v) (h2 : DirLt v w) : DirLt u w := by
  rcases h1 with h1 | ⟨q1, c1⟩ <;> rcases h2 with h2 | ⟨q2, c2⟩
  · left; omega
  · left; omega
  · left; omega
  · right
    exact ⟨q1.trans q2, vcross_pos_trans hv (sameQuad_of_rank hu hv q1) (sameQuad_of_rank hv hw q2) c1 c2⟩

theorem DirLt.irrefl (u : Pt) : ¬ DirLt u u := by
  rintro (h | ⟨_, h⟩)
  · omega
  · unfold vcross at h; linarith

theorem DirEq.refl (u : Pt) : DirEq u u := ⟨rfl, by unfold vcross; ring⟩

theorem DirEq.symm {u v : Pt} (h : DirEq u v) : DirEq v u :=
  ⟨h.1.symm, by rw [vcross_antisymm, h.2, neg_zero]⟩

theorem DirLt.of_eq_left {u v w : Pt} (hu : NonZero u) (hv : NonZero v) (hw : NonZero w)
    (h : DirEq u v) (h2 : DirLt v w) : DirLt u w := by
  rcases h2 with h2 | ⟨q2, c2⟩
  · left; rw [h.1]; exact h2
  · right
    refine ⟨h.1.trans q2, ?_⟩
    have hid := vcross_identity u v w
    rw [h.2, zero_mul, zero_add] at hid
    have hd := vdot_pos_of_parallel hu hv (sameQuad_of_rank hu hv h.1) h.2
    have hvv := vdot_self_pos hv
    have : 0 < vcross u w * vdot v v := by rw [hid]; exact mul_pos hd c2
    by_contra hneg
    have := mul_nonpos_of_nonpos_of_nonneg (not_lt.1 hneg) (le_of_lt hvv)
    linarith

theorem DirLt.of_eq_right {u v w : Pt} (hu : NonZero u) (hv : NonZero v) (hw : NonZero w)
    (h1 : DirLt u v) (h : DirEq v w) : DirLt u w := by
  rcases h1 with h1 | ⟨q1, c1⟩
  · left; rw [← h.1]; exact h1
  · right
    refine ⟨q1.trans h.1, ?_⟩
    have hid := vcross_identity u v w
    rw [h.2, mul_zero, add_zero] at hid
    have hd := vdot_pos_of_parallel hv hw (sameQuad_of_rank hv hw h.1) h.2
    have hvv := vdot_self_pos hv
    have : 0 < vcross u w * vdot v v := by rw [hid]; exact mul_pos c1 hd
    by_contra hneg
    have := mul_nonpos_of_nonpos_of_nonneg (not_lt.1 hneg) (le_of_lt hvv)
    linarith

theorem DirEq.trans {u v w : Pt} (hu : NonZero u) (hv : NonZero v) (hw : NonZero w)
    (h1 : DirEq u v) (h2 : DirEq v w) : DirEq u w := by
  refine ⟨h1.1.trans h2.1, ?_⟩
  have hid := vcross_identity u v w
  rw [h1.2, h2.2, zero_mul, mul_zero, add_zero] at hid
  have hvv := vdot_self_pos hv
  rcases mul_eq_zero.1 hid with h | h
  · exact h
  · linarith

theorem dir_trichotomy (u v : Pt) : DirLt u v ∨ DirEq u v ∨ DirLt v u := by
  unfold DirLt DirEq
  rcases Nat.lt_trichotomy (quadRank u) (quadRank v) with h | h | h
  · exact Or.inl (Or.inl h)
  · rcases lt_trichotomy (vcross u v) 0 with c | c | c
    · right; right; right
      exact ⟨h.symm, by rw [vcross_antisymm]; linarith⟩
    · exact Or.inr (Or.inl ⟨h, c⟩)
    · exact Or.inl (Or.inr ⟨h, c⟩)
  · exact Or.inr (Or.inr (Or.inl h))

theorem DirLt.asymm {u v : Pt} (h1 : DirLt u v) (h2 : DirLt v u) : False := by
  rcases h1 with h1 | ⟨q1, c1⟩ <;> rcases h2 with h2 | ⟨q2, c2⟩
  · omega
  · omega
  · omega
  · rw [vcross_antisymm] at c2; linarith

theorem DirEq.not_lt {u v : Pt} (h : DirEq u v) : ¬ DirLt u v := by
  rintro (h1 | ⟨_, c⟩)
  · rw [h.1] at h1; omega
  · rw [h.2] at c; exact lt_irrefl _ c

/-! ### `compare_direction` in these terms -/

/-- the direction vector of an edge end, exactly -/
def dirOf (e : EdgeEnd) : Pt := ⟨e.c1.x - e.c0.x, e.c1.y - e.c0.y⟩

theorem delta_exact (e : EdgeEnd) : e.delta Arith.exact = dirOf e := rfl

theorem cross_common_origin (x y : EdgeEnd) (h : x.c0 = y.c0) :
    cross y.c0 y.c1 x.c1 = vcross (dirOf y) (dirOf x) := by
  unfold cross vcross dirOf
  rw [h]; ring

theorem cmpDir_spec (x y : EdgeEnd) (h0 : x.c0 = y.c0) (hx : NonZero (dirOf x)) (hy : NonZero (dirOf y)) :
    (cmpDir Arith.exact x y = .lt ↔ DirLt (dirOf x) (dirOf y)) ∧
    (cmpDir Arith.exact x y = .eq ↔ DirEq (dirOf x) (dirOf y)) ∧
    (cmpDir Arith.exact x y = .gt ↔ DirLt (dirOf y) (dirOf x)) := by
  obtain ⟨qx, hqx⟩ := quadrant_some hx
  obtain ⟨qy, hqy⟩ := quadrant_some hy
  have rx : quadRank (dirOf x) = qx := by unfold quadRank; rw [hqx]; rfl
  have ry : quadRank (dirOf y) = qy := by unfold quadRank; rw [hqy]; rfl
  have hco : cmpOrient x y = if vcross (dirOf y) (dirOf x) > 0 then .gt
      else if vcross (dirOf y) (dirOf x) < 0 then .lt else .eq := by
    unfold cmpOrient
    rw [orient_def, cross_common_origin x y h0]
    by_cases c1 : vcross (dirOf y) (dirOf x) > 0
    · simp only [c1, if_true]
    · by_cases c2 : vcross (dirOf y) (dirOf x) < 0
      · simp only [c1, c2, if_true, if_false]
      · simp only [c1, c2, if_false]
  unfold cmpDir
  rw [delta_exact, delta_exact]
  by_cases hd : dirOf x = dirOf y
  · have hb : (dirOf x == dirOf y) = true := by simpa using hd
    rw [hb]
    simp only [if_true, reduceCtorEq, false_iff, true_iff]
    rw [hd]
    exact ⟨DirLt.irrefl _, DirEq.refl _, DirLt.irrefl _⟩
  · have hb : (dirOf x == dirOf y) = false := by simpa using hd
    rw [hb, hqx, hqy]
    simp only [Bool.false_eq_true, if_false]
    unfold DirLt DirEq
    rw [rx, ry]
    have hanti : vcross (dirOf x) (dirOf y) = - vcross (dirOf y) (dirOf x) := vcross_antisymm _ _
    by_cases h1 : qx > qy
    · rw [if_pos h1]
      simp only [reduceCtorEq, false_iff, true_iff]
      refine ⟨?_, ?_, ?_⟩
      · rintro (h | ⟨h, _⟩) <;> omega
      · rintro ⟨h, _⟩; omega
      · exact Or.inl h1
    · rw [if_neg h1]
      by_cases h2 : qx < qy
      · rw [if_pos h2]
        simp only [reduceCtorEq, false_iff, true_iff]
        refine ⟨Or.inl h2, ?_, ?_⟩
        · rintro ⟨h, _⟩; omega
        · rintro (h | ⟨h, _⟩) <;> omega
      · rw [if_neg h2, hco]
        have hq : qx = qy := by omega
        by_cases c1 : vcross (dirOf y) (dirOf x) > 0
        · rw [if_pos c1]
          simp only [reduceCtorEq, false_iff, true_iff]
          refine ⟨?_, ?_, Or.inr ⟨hq.symm, c1⟩⟩
          · rintro (h | ⟨_, h⟩)
            · omega
            · linarith
          · rintro ⟨_, h⟩; linarith
        · rw [if_neg c1]
          by_cases c2 : vcross (dirOf y) (dirOf x) < 0
          · rw [if_pos c2]
            simp only [reduceCtorEq, false_iff, true_iff]
            refine ⟨Or.inr ⟨hq, by linarith⟩, ?_, ?_⟩
            · rintro ⟨_, h⟩; linarith
            · rintro (h | ⟨_, h⟩)
              · omega
              · linarith
          · rw [if_neg c2]
            have c0 : vcross (dirOf y) (dirOf x) = 0 := le_antisymm (not_lt.1 c1) (not_lt.1 c2)
            simp only [reduceCtorEq, false_iff, true_iff]
            refine ⟨?_, ⟨hq, by rw [hanti, c0]; ring⟩, ?_⟩
            · rintro (h | ⟨_, h⟩)
              · omega
              · linarith
            · rintro (h | ⟨_, h⟩)
              · omega
              · linarith

end Geo.Proofs.RELM
