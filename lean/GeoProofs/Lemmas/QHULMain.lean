/-
  C08 helper lemmas (quick-hull) — assembly: a ring that passed `is_strict_ccw_hull` and spans the
  input is accepted by the checker `isStrictHull`; hence `quick_hull` (ring kept after
  verification, or Graham fallback) returns the strict convex hull.
-/
import GeoModel.Hull
import GeoProofs.Lemmas.C08Mem
import GeoProofs.Lemmas.C08QHull
import GeoProofs.Lemmas.C08QQuick
import GeoProofs.Lemmas.C08QRound
import GeoProofs.Lemmas.QHULSet
import GeoProofs.Lemmas.QHULRing

namespace Geo.Proofs.C08
open Geo Geo.Hull

/-- a closed ring that passes `is_strict_ccw_hull`, consists of input coordinates and spans the input
(every input coordinate in the convex hull of its vertices) is accepted by the checker -/
theorem verified_ring_isStrictHull (ring pts : List Pt) (hc : ring.head? = ring.getLast?)
    (hv : isStrictCcwHull ring = true) (hsub : ∀ v ∈ ring, v ∈ pts)
    (hins : ∀ p ∈ pts, Inside ring p) : isStrictHull ring pts = true := by
  have hconv := isStrictCcwHull_convex ring hc hv
  unfold isStrictCcwHull at hv
  simp only [Bool.and_eq_true, beq_iff_eq] at hv
  have h3 := cyc_turn_three _ hv.1
  unfold isStrictHull
  simp only [Bool.and_eq_true, List.all_eq_true, List.contains_eq_mem, decide_eq_true_eq, beq_iff_eq]
  refine ⟨⟨⟨⟨?_, hc⟩, hv.1⟩, hsub⟩, ?_⟩
  · rw [List.length_dropLast] at h3; omega
  · intro p hp e he
    exact hins p hp e.1 e.2 (fun s hs => hconv e he s hs)

/-- **the ring quick-hull keeps after verification is the strict hull** — any rounding function,
any tie-break of the farthest-point search -/
theorem quickHullRaw_verified (rnd : Rat → Rat) (pts : List Pt) (h2 : 2 ≤ pts.length)
    (hv : isStrictCcwHull (quickHullRaw rnd pts).2 = true) :
    isStrictHull (quickHullRaw rnd pts).2 pts = true :=
  verified_ring_isStrictHull _ pts (by unfold quickHullRaw; exact close_closed _) hv
    (quickHullRaw_subset rnd pts h2).2 (quickHullRaw_inside rnd pts h2)

/-- `quick_hull` under the hypothesis the Graham fallback needs from the scalar arithmetic -/
theorem quickHull_correct_of_distExact (rnd : Rat → Rat) (pts : List Pt)
    (ht : hasTriangle pts = true) (h4 : 4 ≤ pts.length)
    (hg : isStrictHull (grahamHull rnd (quickHullRaw rnd pts).1 false) pts = true) :
    isStrictHull (quickHull rnd pts) pts = true := by
  unfold quickHull
  rw [if_neg (by omega)]
  dsimp only
  split
  · exact hg
  · rename_i hc
    have hlong := quickHullRaw_ring_long rnd pts (by omega) ht
    apply quickHullRaw_verified rnd pts (by omega)
    cases hv : isStrictCcwHull (quickHullRaw rnd pts).2 with
    | true => rfl
    | false =>
      exfalso
      apply hc
      simp only [hv, Bool.not_false, Bool.and_true, decide_eq_true_eq]
      omega

/-- the pivot of `graham_hull` is the only lexicographically least coordinate -/
theorem pivot_unique (pts : List Pt) (o : Pt) (ho : o ∈ pts)
    (hmin : ∀ q ∈ pts, ¬ lexLt q o = true) : o = (swapRemove pts (leastIndex pts)).1 := by
  have hne : pts ≠ [] := by intro h; rw [h] at ho; simp at ho
  exact eq_of_not_lexLt (pivot_least pts o ho) (hmin _ (swapRemove_fst_mem _ _ hne))

/-- a monotone rounding that fixes 0 gives `DistExactPivot` outside the driver's SKIP class -/
theorem distExactPivot_of_notie (rnd : Rat → Rat) (hmono : ∀ x y, x ≤ y → rnd x ≤ rnd y)
    (h0 : rnd 0 = 0) (pts : List Pt)
    (hnt : grahamTie rnd (swapRemove pts (leastIndex pts)).1 pts = false) :
    DistExactPivot rnd pts := by
  intro o ho hmin
  have ho' := pivot_unique pts o ho hmin
  rw [← ho'] at hnt
  have hH : ∀ x ∈ pts, InH0 o x := by
    intro x hx
    rcases lexLt_tricho x o (hmin x hx) with h | h
    · exact Or.inl h
    · exact Or.inr ((inH_iff_lexLt o x).2 h)
  exact distExact_of_monotone rnd hmono h0 o pts hH (by
    intro q hq r hr hc hd
    rw [grahamTie_false hnt q hq r hr hc hd])

end Geo.Proofs.C08
