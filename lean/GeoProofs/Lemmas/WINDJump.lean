/-
  WIND, part 1: the specification's winding number *jumps by one* across an edge.

  `windingE_local`: for a base point `m` (on the ring or not) and any perturbation direction, the
  winding number of the perturbed point splits into a part that does not depend on the direction
  (edges not through `m`, with a potential correction for downward directions) and the increments
  of the edges through `m`.

  `windingE_jump`: if `m` lies strictly inside the edge `(a, b)` of a closed ring and on no other
  edge occurrence, the two face samples `m ± δ·n` of `relateParts` (`n` the left normal of `a → b`)
  have winding numbers that differ by exactly one (left = right + 1).
-/
import GeoProofs.Lemmas.C02QPerturb
import GeoProofs.Lemmas.C01QAtoms

set_option linter.unusedSimpArgs false

namespace Geo.Proofs.WIND
open Geo Geo.Proofs.Kernel Geo.Proofs.Loc Geo.Proofs.C02Q Geo.Proofs.Spec

/-- the edge `se` passes through `m` -/
def onE (m : Pt) (se : Pt × Pt) : Bool := lineCoord se.1 se.2 m

theorem sum_filter_split {α : Type} (l : List α) (p : α → Bool) (f : α → Int) :
    (l.map f).sum = ((l.filter p).map f).sum + ((l.filter (fun x => !p x)).map f).sum := by
  induction l with
  | nil => simp
  | cons a t ih =>
    by_cases h : p a = true
    · simp only [List.map_cons, List.sum_cons, List.filter_cons, h, if_true, Bool.not_true,
        Bool.false_eq_true, if_false, ih]
      omega
    · have h' : p a = false := by simpa using h
      simp only [List.map_cons, List.sum_cons, List.filter_cons, h', Bool.false_eq_true, if_false,
        Bool.not_false, if_true]
      rw [ih]
      omega

theorem sum_map_congr {α : Type} (l : List α) (f g : α → Int) (h : ∀ x ∈ l, f x = g x) :
    (l.map f).sum = (l.map g).sum := by
  rw [List.map_congr_left h]

theorem sum_map_add {α : Type} (l : List α) (f g : α → Int) :
    (l.map (fun x => f x + g x)).sum = (l.map f).sum + (l.map g).sum := by
  induction l with
  | nil => simp
  | cons a t ih => simp only [List.map_cons, List.sum_cons, ih]; omega

theorem sum_map_const_zero {α : Type} (l : List α) : (l.map (fun _ => (0 : Int))).sum = 0 := by
  induction l with
  | nil => simp
  | cons a t ih => simp [ih]

/-- the increment of an edge not through the base point, for a perturbed point -/
theorem specInc_off (s e m : Pt) (x1 y1 : Rat) (hoff : lineCoord s e m = false) :
    specInc ⟨m.x, x1, m.y, y1⟩ s e =
      ptInc m s e + (if y1 < 0 then psi m e - psi m s else 0) := by
  by_cases hy : y1 < 0
  · rw [if_pos hy, specInc_perturb_down s e m x1 y1 hy hoff]
    have := ptIncLo_sub s e m hoff
    omega
  · rw [if_neg hy, specInc_perturb_up s e m x1 y1 (not_lt.mp hy) hoff]
    omega

/-- **local form of the winding number of a perturbed point** -/
theorem windingE_local (ring : List Pt) (hc : ring.head? = ring.getLast?) (m : Pt) (x1 y1 : Rat) :
    windingE ⟨m.x, x1, m.y, y1⟩ ring =
      (((segs ring).filter (fun se => !onE m se)).map (fun se => ptInc m se.1 se.2)).sum
      + (if y1 < 0 then (((segs ring).filter (onE m)).map (fun se => psi m se.1 - psi m se.2)).sum else 0)
      + (((segs ring).filter (onE m)).map (fun se => specInc ⟨m.x, x1, m.y, y1⟩ se.1 se.2)).sum := by
  rw [windingE_eq_sum, sum_filter_split (segs ring) (onE m)]
  have hoff : (((segs ring).filter (fun se => !onE m se)).map
        (fun se => specInc ⟨m.x, x1, m.y, y1⟩ se.1 se.2)).sum =
      (((segs ring).filter (fun se => !onE m se)).map (fun se => ptInc m se.1 se.2)).sum +
      (((segs ring).filter (fun se => !onE m se)).map
        (fun se => if y1 < 0 then psi m se.2 - psi m se.1 else 0)).sum := by
    rw [← sum_map_add]
    apply sum_map_congr
    intro se hse
    rw [List.mem_filter] at hse
    have : lineCoord se.1 se.2 m = false := by simpa [onE] using hse.2
    exact specInc_off se.1 se.2 m x1 y1 this
  rw [hoff]
  by_cases hy : y1 < 0
  · simp only [if_pos hy]
    have h0 := sum_potential_closed (fun v => psi m v) ring hc
    rw [sum_filter_split (segs ring) (onE m)] at h0
    have h1 : (((segs ring).filter (fun se => !onE m se)).map (fun se => psi m se.2 - psi m se.1)).sum =
        - (((segs ring).filter (fun se => !onE m se)).map (fun se => psi m se.1 - psi m se.2)).sum := by
      generalize (segs ring).filter (fun se => !onE m se) = l
      induction l with
      | nil => simp
      | cons a t ih => simp only [List.map_cons, List.sum_cons, ih]; omega
    rw [h1]
    omega
  · simp only [if_neg hy, sum_map_const_zero]
    omega

/-! ### the edge through the base point -/

theorem eCrossSign_faceL {a b m : Pt} (hab : a ≠ b) (hm : SegMem m a b) :
    eCrossSign a b (faceL a b m) = 1 := by
  have h0 : (b.x - a.x) * (m.y - b.y) - (b.y - a.y) * (m.x - b.x) = 0 := hm.cross_eq_zero
  have hL := seg_len_pos hab
  have h1 : 0 < (b.x - a.x) * (b.x - a.x) - (b.y - a.y) * -(b.y - a.y) := by linarith
  simp only [eCrossSign, faceL, h0, lt_irrefl, if_false, gt_iff_lt, h1, if_true]

theorem eCrossSign_faceR {a b m : Pt} (hab : a ≠ b) (hm : SegMem m a b) :
    eCrossSign a b (faceR a b m) = -1 := by
  have h0 : (b.x - a.x) * (m.y - b.y) - (b.y - a.y) * (m.x - b.x) = 0 := hm.cross_eq_zero
  have hL := seg_len_pos hab
  have h1 : (b.x - a.x) * -(b.x - a.x) - (b.y - a.y) * - -(b.y - a.y) < 0 := by linarith
  have h2 : ¬ 0 < (b.x - a.x) * -(b.x - a.x) - (b.y - a.y) * - -(b.y - a.y) := by linarith
  simp only [eCrossSign, faceR, h0, lt_irrefl, if_false, gt_iff_lt, h1, h2, if_true]

/-- strictly inside an edge: the parameter is strictly between 0 and 1 -/
theorem strict_param {a b m : Pt} (hm : SegMem m a b) (hma : m ≠ a) (hmb : m ≠ b) :
    ∃ t : Rat, 0 < t ∧ t < 1 ∧ m.x = a.x + t * (b.x - a.x) ∧ m.y = a.y + t * (b.y - a.y) := by
  obtain ⟨t, t0, t1, hx, hy⟩ := hm
  refine ⟨t, ?_, ?_, hx, hy⟩
  · rcases lt_or_eq_of_le t0 with h | h
    · exact h
    · exfalso; apply hma; apply Pt.ext'
      · rw [hx, ← h]; ring
      · rw [hy, ← h]; ring
  · rcases lt_or_eq_of_le t1 with h | h
    · exact h
    · exfalso; apply hmb; apply Pt.ext'
      · rw [hx, h]; ring
      · rw [hy, h]; ring

/-- the contribution of the edge through `m` and of the potential correction, left minus right -/
theorem edge_jump {a b m : Pt} (hab : a ≠ b) (hm : SegMem m a b) (hma : m ≠ a) (hmb : m ≠ b) :
    (if b.x - a.x < 0 then psi m a - psi m b else 0) + specInc (faceL a b m) a b =
      (if -(b.x - a.x) < 0 then psi m a - psi m b else 0) + specInc (faceR a b m) a b + 1 := by
  obtain ⟨t, t0, t1, hx, hy⟩ := strict_param hm hma hmb
  have hcl := eCrossSign_faceL hab hm
  have hcr := eCrossSign_faceR hab hm
  have fl : faceL a b m = ⟨m.x, -(b.y - a.y), m.y, b.x - a.x⟩ := rfl
  have fr : faceR a b m = ⟨m.x, - -(b.y - a.y), m.y, -(b.x - a.x)⟩ := rfl
  unfold specInc
  rw [hcl, hcr]
  simp only [fl, fr]
  rcases lt_trichotomy (b.y - a.y) 0 with hdy | hdy | hdy
  · -- downward edge
    have h1 : b.y < m.y := by rw [hy]; nlinarith
    have h2 : m.y < a.y := by rw [hy]; nlinarith
    have pa : psi m a = 0 := by unfold psi; rw [if_neg]; intro h; linarith [h.1]
    have pb : psi m b = 0 := by unfold psi; rw [if_neg]; intro h; linarith [h.1]
    have n1 : ¬ a.y < m.y := by linarith
    have n2 : ¬ a.y = m.y := by intro h; linarith
    simp [eLe, eLt, pa, pb, h1, n1, n2]
  · -- horizontal edge
    have hay : a.y = m.y := by rw [hy, hdy]; ring
    have hby : b.y = m.y := by linarith
    have hdx : b.x - a.x ≠ 0 := by
      intro h
      apply hab
      apply Pt.ext' <;> linarith
    rcases lt_or_gt_of_ne hdx with hneg | hpos
    · have hxa : m.x < a.x := by rw [hx]; nlinarith
      have hxb : b.x < m.x := by rw [hx]; nlinarith
      have pa : psi m a = 1 := by unfold psi; rw [if_pos ⟨hay, hxa⟩]
      have pb : psi m b = 0 := by unfold psi; rw [if_neg]; intro h; linarith [h.2]
      have n1 : ¬ 0 ≤ b.x - a.x := by linarith
      have n2 : ¬ -(b.x - a.x) < 0 := by linarith
      have n3 : 0 ≤ -(b.x - a.x) := by linarith
      have q1 : b.x < a.x := by linarith
      have q2 : ¬ a.x < b.x := by linarith
      have q3 : b.x ≤ a.x := by linarith
      simp [eLe, eLt, pa, pb, hay, hby, hneg, n1, n2, n3, q1, q2, q3]
    · have hxa : a.x < m.x := by rw [hx]; nlinarith
      have hxb : m.x < b.x := by rw [hx]; nlinarith
      have pa : psi m a = 0 := by unfold psi; rw [if_neg]; intro h; linarith [h.2]
      have pb : psi m b = 1 := by unfold psi; rw [if_pos ⟨hby, hxb⟩]
      have n1 : ¬ b.x - a.x < 0 := by linarith
      have n2 : -(b.x - a.x) < 0 := by linarith
      have n3 : ¬ 0 ≤ -(b.x - a.x) := by linarith
      have n4 : 0 ≤ b.x - a.x := by linarith
      have q1 : a.x < b.x := by linarith
      have q2 : ¬ b.x ≤ a.x := by linarith
      have q3 : ¬ b.x < a.x := by linarith
      simp [eLe, eLt, pa, pb, hay, hby, n1, n2, n3, n4, q1, q2, q3]
  · -- upward edge
    have h1 : a.y < m.y := by rw [hy]; nlinarith
    have h2 : m.y < b.y := by rw [hy]; nlinarith
    have pa : psi m a = 0 := by unfold psi; rw [if_neg]; intro h; linarith [h.1]
    have pb : psi m b = 0 := by unfold psi; rw [if_neg]; intro h; linarith [h.1]
    simp [eLe, eLt, pa, pb, h1, h2]

/-- **The winding number jumps by one across an edge**: `m` strictly inside the edge `(a, b)` of the
closed ring and on no other edge occurrence; the left face sample winds once more than the right
one. -/
theorem windingE_jump (ring : List Pt) (hc : ring.head? = ring.getLast?) {a b m : Pt}
    (hone : (segs ring).filter (onE m) = [(a, b)]) (hab : a ≠ b)
    (hm : SegMem m a b) (hma : m ≠ a) (hmb : m ≠ b) :
    windingE (faceL a b m) ring = windingE (faceR a b m) ring + 1 := by
  have fl : faceL a b m = ⟨m.x, -(b.y - a.y), m.y, b.x - a.x⟩ := rfl
  have fr : faceR a b m = ⟨m.x, - -(b.y - a.y), m.y, -(b.x - a.x)⟩ := rfl
  have key := edge_jump hab hm hma hmb
  rw [fl, fr] at key ⊢
  rw [windingE_local ring hc m, windingE_local ring hc m, hone]
  simp only [List.map_cons, List.map_nil, List.sum_cons, List.sum_nil, add_zero]
  generalize (((segs ring).filter (fun se => !onE m se)).map (fun se => ptInc m se.1 se.2)).sum = C
  omega

example : windingE (faceL ⟨0, 0⟩ ⟨4, 0⟩ ⟨2, 0⟩) [⟨0, 0⟩, ⟨4, 0⟩, ⟨0, 4⟩, ⟨0, 0⟩] =
    windingE (faceR ⟨0, 0⟩ ⟨4, 0⟩ ⟨2, 0⟩) [⟨0, 0⟩, ⟨4, 0⟩, ⟨0, 4⟩, ⟨0, 0⟩] + 1 :=
  windingE_jump _ rfl (by decide +kernel) (by decide) ⟨1 / 2, by norm_num, by norm_num, by norm_num, by norm_num⟩
    (by decide) (by decide)

end Geo.Proofs.WIND
