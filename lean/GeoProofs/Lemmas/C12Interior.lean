/-
  GeoProofs.Lemmas.C12Interior — `min_by` selection, the polygon scan loop and the `None` cases
  of `interior_point`.
-/
import GeoModel.InteriorPoint
import GeoProofs.Props.C06
import Mathlib.Tactic.Linarith

namespace Geo.Proofs.C12
open Geo Geo.IP

/-! ### `Iterator::min_by` -/

theorem foldPick_mem {α : Type} (lt : α → α → Bool) :
    ∀ (as : List α) (a : α), as.foldl (fun x y => if lt y x then y else x) a ∈ a :: as
  | [], a => by simp
  | b :: bs, a => by
    simp only [List.foldl_cons]
    have ih := foldPick_mem lt bs (if lt b a then b else a)
    rcases List.mem_cons.1 ih with h | h
    · rw [h]; split <;> simp
    · exact List.mem_cons_of_mem _ (List.mem_cons_of_mem _ h)

theorem minByKey_mem {α : Type} (lt : α → α → Bool) {l : List α} {a : α}
    (h : minByKey lt l = some a) : a ∈ l := by
  cases l with
  | nil => simp [minByKey] at h
  | cons b bs =>
    simp only [minByKey, Option.some.injEq] at h
    rw [← h]; exact foldPick_mem lt bs b

theorem minByKey_eq_none {α : Type} (lt : α → α → Bool) (l : List α) :
    minByKey lt l = none ↔ l = [] := by
  cases l <;> simp [minByKey]

theorem minByKey_isSome {α : Type} (lt : α → α → Bool) {l : List α} (h : l ≠ []) :
    ∃ a, minByKey lt l = some a := by
  cases l with
  | nil => exact absurd rfl h
  | cons b bs => exact ⟨_, rfl⟩

/-- with a comparison that is "smaller key", the fold returns an element of minimal key -/
theorem foldPick_min {α : Type} (key : α → Rat) :
    ∀ (as : List α) (a : α),
      ∀ b ∈ a :: as, key (as.foldl (fun x y => if decide (key y < key x) then y else x) a) ≤ key b
  | [], a => by
    intro b hb
    simp only [List.mem_singleton] at hb
    simp [hb]
  | c :: cs, a => by
    intro b hb
    simp only [List.foldl_cons]
    have ih := foldPick_min key cs (if decide (key c < key a) then c else a)
    have hstart : key (if decide (key c < key a) then c else a) ≤ key a ∧
        key (if decide (key c < key a) then c else a) ≤ key c := by
      by_cases h : key c < key a
      · simp only [h, decide_true, if_true]; exact ⟨le_of_lt h, le_refl _⟩
      · simp only [h, decide_false]; exact ⟨le_refl _, not_lt.1 h⟩
    rcases List.mem_cons.1 hb with rfl | hb
    · exact le_trans (ih _ List.mem_cons_self) hstart.1
    · rcases List.mem_cons.1 hb with rfl | hb
      · exact le_trans (ih _ List.mem_cons_self) hstart.2
      · exact ih b (List.mem_cons_of_mem _ hb)

theorem minByKey_min {α : Type} (key : α → Rat) {l : List α} {a : α}
    (h : minByKey (fun y x => decide (key y < key x)) l = some a) : ∀ b ∈ l, key a ≤ key b := by
  cases l with
  | nil => simp [minByKey] at h
  | cons c cs =>
    simp only [minByKey, Option.some.injEq] at h
    rw [← h]; exact foldPick_min key cs c

/-! ### the verification loop of the polygon scan -/

theorem firstVerified_some {loc : Pt → Pos} {cands : List (Pt × Rat)} {x : Pt} {w : Rat}
    (h : firstVerified loc cands = some (x, w)) :
    ∃ w', (x, w') ∈ cands ∧ loc x ≠ .outside ∧ w = (if loc x == .inside then w' else 0) := by
  unfold firstVerified at h
  split at h
  · rename_i c hc
    simp only [Option.some.injEq, Prod.mk.injEq] at h
    have hm := List.mem_of_find?_eq_some hc
    have hp := List.find?_some hc
    refine ⟨c.2, ?_, ?_, ?_⟩
    · rw [← h.1]; exact hm
    · rw [← h.1]; simpa using hp
    · rw [← h.2, ← h.1]
  · simp at h

theorem firstVerified_none {loc : Pt → Pos} {cands : List (Pt × Rat)}
    (h : firstVerified loc cands = none) : ∀ c ∈ cands, loc c.1 = .outside := by
  unfold firstVerified at h
  split at h
  · simp at h
  · rename_i hn
    intro c hc
    have := List.find?_eq_none.1 hn c hc
    simpa using this

theorem firstVerified_of_mem {loc : Pt → Pos} {cands : List (Pt × Rat)} {c : Pt × Rat}
    (hc : c ∈ cands) (hl : loc c.1 ≠ .outside) : ∃ r, firstVerified loc cands = some r := by
  cases h : firstVerified loc cands with
  | some r => exact ⟨r, rfl⟩
  | none => exact absurd (firstVerified_none h c hc) hl

/-! ### bounding rect -/

theorem getBoundingRect_eq_none (cs : List Pt) : getBoundingRect cs = none ↔ cs = [] := by
  cases cs <;> simp [getBoundingRect]

/-! ### `None` exactly for empty geometries -/

open Geo.Cen in
theorem lsInterior_eq_none (len : Pt → Pt → Rat) (cs : List Pt) : lsInterior len cs = none ↔ cs = [] := by
  match cs with
  | [] => simp [lsInterior]
  | [a] => simp [lsInterior]
  | [a, b] => simp [lsInterior]
  | a :: b :: c :: rest =>
    simp only [lsInterior, reduceCtorEq, iff_false]
    cases h : Cen.centroid len (.lineString (a :: b :: c :: rest)) with
    | none =>
      have := (Geo.Proofs.C06.centroid_none_iff len _).1 h
      simp [Cen.isEmpty] at this
    | some cc => simp [minByKey, List.dropLast]

open Geo.Cen in
theorem mlsInterior_eq_none (len : Pt → Pt → Rat) (ls : List (List Pt)) :
    mlsInterior len ls = none ↔ ls.all List.isEmpty = true := by
  unfold mlsInterior
  cases h : Cen.centroid len (.multiLineString ls) with
  | none =>
    have := (Geo.Proofs.C06.centroid_none_iff len _).1 h
    simpa [Cen.isEmpty] using this
  | some c =>
    have hne : ¬ (Cen.isEmpty (.multiLineString ls) = true) := by
      intro he
      have := (Geo.Proofs.C06.centroid_none_iff len _).2 he
      rw [h] at this; simp at this
    simp only [Cen.isEmpty] at hne
    rw [minByKey_eq_none]
    refine ⟨fun hnil => ?_, fun h => absurd h hne⟩
    have : ∀ cs ∈ ls, lsInterior len cs = none := by
      intro cs hcs
      cases hi : lsInterior len cs with
      | none => rfl
      | some x =>
        have : x ∈ ls.filterMap (lsInterior len) := List.mem_filterMap.2 ⟨cs, hcs, hi⟩
        rw [hnil] at this; simp at this
    rw [List.all_eq_true]
    intro cs hcs
    rw [(lsInterior_eq_none len cs).1 (this cs hcs)]; rfl

theorem polyScan_eq_none (loc : Pt → Pos) (poly : Poly) : polyScan loc poly = none ↔ poly.ext = [] := by
  unfold polyScan
  split
  · rename_i c hc; simp [hc]
  · rename_i hns
    cases hb : getBoundingRect poly.ext with
    | none => simpa using (getBoundingRect_eq_none _).1 hb
    | some r =>
      have hne : poly.ext ≠ [] := fun he => by rw [he] at hb; simp [getBoundingRect] at hb
      obtain ⟨mn, mx⟩ := r
      simp only [hne, iff_false]
      cases hf : firstVerified loc (scanCands poly mn mx) with
      | some r => simp
      | none =>
        simp only [Option.map_eq_none_iff, List.head?_eq_none_iff, Poly.coords, List.append_eq_nil_iff]
        exact fun h => hne h.1

theorem mpolyInterior_eq_none (locOf : Poly → Pt → Pos) (ps : List Poly) :
    mpolyInterior locOf ps = none ↔ ps.all (fun p => p.ext.isEmpty) = true := by
  unfold mpolyInterior
  rw [Option.map_eq_none_iff, minByKey_eq_none, List.filterMap_eq_nil_iff, List.all_eq_true]
  constructor
  · intro h p hp; rw [(polyScan_eq_none _ p).1 (h p hp)]; rfl
  · intro h p hp; exact (polyScan_eq_none _ p).2 (List.isEmpty_iff.1 (h p hp))

end Geo.Proofs.C12
