/-
  MONO (C10, builder of the monotone pieces): the answer of the builder model does not depend on its fuel once the
  fuel is at least `fuelFor n` — `none` always stands for a panic of the code, never for an exhausted bound.
-/
import GeoProofs.Lemmas.MONOFuelC

namespace Geo.Proofs.MONO
open Geo Geo.Mono Geo.MonoBuild Geo.Proofs.C10

theorem good_popped {V : List Pt} {st : St} {e : Ev} {evs : Heap} (g : Good V st)
    (hpop : heapPop st.events = some (e, evs)) :
    Good V { st with events := evs } ∧ Cur { st with events := evs } e ∧
      mu V { st with events := evs } + 1 = mu V st ∧ st.events.head? = some e := by
  obtain ⟨i0, ok0, lo0, hd0⟩ := popped_sinv g.s hpop
  refine ⟨g.events i0 (heapPop_forall (P := fun e => e.pt ∈ V) g.v.evs hpop).2, ⟨ok0.congr rfl, lo0⟩, ?_, hd0⟩
  unfold mu
  have := heapPop_length hpop
  show evs.length + 3 * phi V st + 1 = _
  omega

/-- the loop of `next_point`: what comes out is good, and at least one event was popped -/
theorem nextPointLoop_good {V : List Pt} (hf : Nat) (pt : Pt) : ∀ (fuel : Nat) (st st' : St), Good V st →
    nextPointLoop hf pt fuel st = some st' → Good V st' ∧ mu V st' + 1 ≤ mu V st
  | 0, st, st', _, h => by simp [nextPointLoop] at h
  | fuel + 1, st, st', g, h => by
    unfold nextPointLoop at h
    osplit h
    rename_i e evs hpop
    obtain ⟨g0, c0, m0, _⟩ := good_popped g hpop
    osplit h
    rename_i st1 hh
    have m1 := (handle_mu V hf).1 _ _ _ g0 c0 hh
    obtain ⟨i1, _, _⟩ := (handle_sinv hf).1 _ _ _ g0.s c0.ok c0.lo hh
    have v1 := (handle_inv hf).1 _ _ _ g0.v hh
    split at h
    · cases h; exact ⟨⟨i1, v1⟩, by omega⟩
    · obtain ⟨g2, m2⟩ := nextPointLoop_good hf pt fuel st1 st' ⟨i1, v1⟩ h
      exact ⟨g2, by omega⟩

theorem nextPointLoop_fuel {V : List Pt} (hf hf' : Nat) (pt : Pt) : ∀ (f f' : Nat) (st : St), Good V st →
    3 * mu V st + 3 ≤ hf → 3 * mu V st + 3 ≤ hf' → mu V st + 1 ≤ f → mu V st + 1 ≤ f' →
    nextPointLoop hf pt f st = nextPointLoop hf' pt f' st
  | 0, _, _, _, _, _, _, _ => by omega
  | _ + 1, 0, _, _, _, _, _, _ => by omega
  | f + 1, f' + 1, st, g, h1, h2, h3, h4 => by
    unfold nextPointLoop
    cases hpop : heapPop st.events with
    | none => rfl
    | some r =>
      obtain ⟨e, evs⟩ := r
      simp only
      obtain ⟨g0, c0, m0, _⟩ := good_popped g hpop
      rw [← (handle_fuel V hf hf').1 { st with events := evs } e g0 c0 (by omega) (by omega)]
      cases hh : handleEvent hf { st with events := evs } e with
      | none => rfl
      | some st1 =>
        simp only
        have m1 := (handle_mu V hf).1 _ _ _ g0 c0 hh
        obtain ⟨i1, _, _⟩ := (handle_sinv hf).1 _ _ _ g0.s c0.ok c0.lo hh
        have v1 := (handle_inv hf).1 _ _ _ g0.v hh
        split
        · rfl
        · exact nextPointLoop_fuel hf hf' pt f f' st1 ⟨i1, v1⟩ (by omega) (by omega) (by omega) (by omega)

theorem nextPoint_fuel {V : List Pt} (hf hf' : Nat) (st : St) (g : Good V st)
    (h1 : 3 * mu V st + 3 ≤ hf) (h2 : 3 * mu V st + 3 ≤ hf') : nextPoint hf st = nextPoint hf' st := by
  unfold nextPoint
  split
  · rfl
  · rename_i e _
    rw [nextPointLoop_fuel hf hf' e.pt hf hf' st g h1 h2 (by omega) (by omega)]

theorem nextPoint_good {V : List Pt} {hf : Nat} {st st' : St} {pt : Pt} (g : Good V st)
    (h : nextPoint hf st = some (st', some pt)) : Good V st' ∧ mu V st' + 1 ≤ mu V st := by
  unfold nextPoint at h
  split at h
  · cases h
  · osplit h
    rename_i st1 hl
    simp only [Option.some.injEq, Prod.mk.injEq] at h
    rw [← h.1]
    exact nextPointLoop_good hf _ hf st st1 g hl

theorem good_reset {V : List Pt} {st : St} (g : Good V st) :
    Good V { st with incoming := [], outgoing := [] } :=
  ⟨⟨g.s.heap, g.s.lines, fun e he => (g.s.evs e he).congr rfl⟩, ⟨g.v.segs, g.v.evs, g.v.chains, g.v.outs⟩⟩

theorem processNextPt_fuel {V : List Pt} (hf hf' : Nat) (st : St) (g : Good V st)
    (h1 : 3 * mu V st + 3 ≤ hf) (h2 : 3 * mu V st + 3 ≤ hf') : processNextPt hf st = processNextPt hf' st := by
  unfold processNextPt
  rw [nextPoint_fuel (V := V) hf hf' { st with incoming := [], outgoing := [] } (good_reset g) h1 h2]

/-- the builder part of `process_next_pt` is quiet: what `next_point` left is what the next call finds -/
theorem processNextPt_quiet {fuel : Nat} {st st' : St} (h : processNextPt fuel st = some (st', true)) :
    ∃ st1 pt, nextPoint fuel { st with incoming := [], outgoing := [] } = some (st1, some pt) ∧ Quiet st1 st' := by
  unfold processNextPt at h
  osplit h
  rename_i st1 pt e1
  refine ⟨st1, pt, e1, ?_⟩
  osplit h
  simp only at h
  osplit h
  rename_i st2 e2
  have q2 : Quiet st1 st2 := by
    split at e2
    · cases e2; exact Quiet.refl _
    · exact reduceIncoming_quiet pt _ _ _ e2
  osplit h
  rename_i st3 ic e3
  have q3 := q2.trans (inChains_quiet e3)
  osplit h
  rename_i st4 e4
  have q4 : Quiet st1 st4 := by
    split at e4
    · cases e4; exact q3
    · exact q3.trans (startOutgoing_quiet pt _ _ _ e4)
  osplit h
  rename_i st5 e5
  cases h
  exact q4.trans (tieUp_quiet e5)

theorem processNextPt_good {V : List Pt} {fuel : Nat} {st st' : St} (g : Good V st)
    (h : processNextPt fuel st = some (st', true)) : Good V st' ∧ mu V st' + 1 ≤ mu V st := by
  obtain ⟨st1, pt, e1, q⟩ := processNextPt_quiet h
  obtain ⟨g1, m1⟩ := nextPoint_good (good_reset g) e1
  have hv := processNextPt_inv g.v h
  have hm : mu V st' = mu V st1 := mu_same V q.1 q.2.1
  refine ⟨⟨sinv_same g1.s q.1 q.2.1, hv⟩, ?_⟩
  have : mu V { st with incoming := [], outgoing := [] } = mu V st := rfl
  omega

theorem buildLoop_fuel {V : List Pt} (hf hf' : Nat) : ∀ (f f' : Nat) (st : St), Good V st →
    3 * mu V st + 3 ≤ hf → 3 * mu V st + 3 ≤ hf' → mu V st + 1 ≤ f → mu V st + 1 ≤ f' →
    buildLoop hf f st = buildLoop hf' f' st
  | 0, _, _, _, _, _, _, _ => by omega
  | _ + 1, 0, _, _, _, _, _, _ => by omega
  | f + 1, f' + 1, st, g, h1, h2, h3, h4 => by
    unfold buildLoop
    rw [← processNextPt_fuel hf hf' st g h1 h2]
    cases hp : processNextPt hf st with
    | none => rfl
    | some r =>
      obtain ⟨st1, b⟩ := r
      cases b with
      | false => rfl
      | true =>
        simp only
        obtain ⟨g1, m1⟩ := processNextPt_good g hp
        exact buildLoop_fuel hf hf' f f' st1 g1 (by omega) (by omega) (by omega) (by omega)

/-! ### the initial measure -/

/-- the end points of the input lines -/
def endPts (ps : List Poly) : List Pt := (inputLines ps).flatMap (fun l => [l.left, l.right])

theorem endPts_length (ps : List Poly) : (endPts ps).length = 2 * (inputLines ps).length := by
  unfold endPts
  induction inputLines ps with
  | nil => rfl
  | cons l t ih => simp only [List.flatMap_cons, List.length_append, List.length_cons, List.length_nil, ih]; omega

/-- one step of `SimpleSweep::new` -/
def initStep (l : LoP) (st : St) : St :=
  { st with segs := st.segs ++ [⟨l, {}⟩], events := heapExtend2 st.events ⟨l.left, if l.isLine then .lineLeft else .pointLeft, st.segs.length⟩ ⟨l.right, if l.isLine then .lineRight else .pointRight, st.segs.length⟩ }

theorem initGo_cons (l : LoP) (ls : List LoP) (st : St) : initGo (l :: ls) st = initGo ls (initStep l st) := rfl

theorem initGo_counts (V : List Pt) : ∀ (ls : List LoP) (st : St),
    (initGo ls st).segs.length = st.segs.length + ls.length ∧
    (initGo ls st).events.length = st.events.length + 2 * ls.length ∧
    phi V (initGo ls st) ≤ phi V st + ls.length * V.length
  | [], st => by simp [initGo]
  | l :: ls, st => by
    rw [initGo_cons]
    obtain ⟨a, b, c⟩ := initGo_counts V ls (initStep l st)
    have e1 : (initStep l st).segs.length = st.segs.length + 1 := by simp [initStep]
    have e2 : (initStep l st).events.length = st.events.length + 2 := by
      unfold initStep; simp only; exact heapExtend2_length _ _ _
    have e3 : phi V (initStep l st) = phi V st + inside V l := by unfold phi initStep; simp
    refine ⟨?_, ?_, ?_⟩
    · rw [a, e1]; simp only [List.length_cons]; omega
    · rw [b, e2]; simp only [List.length_cons]; omega
    · refine Nat.le_trans c ?_
      rw [e3]
      have := inside_le V l
      simp only [List.length_cons, Nat.add_mul, Nat.one_mul]
      omega

theorem initState_good (ps : List Poly) : Good (endPts ps) (initState ps) := by
  refine ⟨initState_sinv ps, ?_⟩
  unfold initState
  refine initGo_inv _ _ ⟨?_, ?_, ?_, ?_⟩ ?_
  · intro x hx; simp at hx
  · intro x hx; simp at hx
  · intro x hx; simp at hx
  · intro x hx; simp at hx
  · intro l hl
    unfold endPts
    exact ⟨List.mem_flatMap.2 ⟨l, hl, by simp⟩, List.mem_flatMap.2 ⟨l, hl, by simp⟩⟩

theorem initState_bound (ps : List Poly) :
    3 * mu (endPts ps) (initState ps) + 3 ≤ fuelFor (initState ps).segs.length := by
  obtain ⟨a, b, c⟩ := initGo_counts (endPts ps) (inputLines ps) ⟨[], [], [], [], [], [], []⟩
  have hphi0 : phi (endPts ps) (⟨[], [], [], [], [], [], []⟩ : St) = 0 := rfl
  unfold mu fuelFor initState
  rw [a, b]
  rw [hphi0, endPts_length] at c
  simp only [List.length_nil, Nat.zero_add] at c ⊢
  generalize (inputLines ps).length = n at c ⊢
  generalize phi (endPts ps) (initGo (inputLines ps) ⟨[], [], [], [], [], [], []⟩) = p at c ⊢
  have : n * (2 * n) = 2 * (n * n) := by ring
  have h18 : 18 * n * n = 18 * (n * n) := by ring
  rw [this] at c
  rw [h18]
  omega

/-- the answer of the model is the same for every fuel at or above `fuelFor n` -/
theorem buildState_fuel (ps : List Poly) (F : Nat) (hF : fuelFor (initState ps).segs.length ≤ F) :
    buildLoop F F (initState ps) = buildState ps := by
  have hb := initState_bound ps
  unfold buildState
  exact buildLoop_fuel (V := endPts ps) F _ F _ (initState ps) (initState_good ps)
    (by omega) (by omega) (by omega) (by omega)

end Geo.Proofs.MONO
