/-
  C02Y, part 11: `Rect: Contains<Rect>` (four non-strict comparisons) is the mask `T*****FF*` on the DE-9IM
  specification, both Rects of positive width and height (`containsM_rect_rect`). For degenerate operands it is not
  (K7, `rectContainsRect_degenerate_witness` in Props/C02).

  Both operands are areal, so the atoms include face samples `m ± δ·n`; their location relative to a Rect is computed
  exactly (`rect_windingE`, C02YRectWind): inside the inner Rect ⇒ inside the outer one (`face_mono`), and the face
  sample above the bottom edge of the inner Rect is inside both (`II ≠ F`).
-/
import GeoProofs.Lemmas.C02YRectWind
import GeoProofs.Lemmas.C02YMask
import GeoProofs.Lemmas.C02YCoords

set_option linter.unusedSimpArgs false
set_option linter.unusedVariables false

namespace Geo.Proofs.C02Y
open Geo Geo.Proofs.Kernel Geo.Proofs.Spec Geo.Proofs.C02X

/-- a face sample inside `Rect::to_polygon` -/
theorem insidePolyE_rect (mn mx : Pt) (hx : mn.x < mx.x) (hy : mn.y < mx.y) (e : EPt) :
    insidePolyE e ⟨SM.rectToPolygon ⟨mn, mx⟩, []⟩ = true ↔
      ELe mn.y 0 e.y0 e.y1 ∧ ELt e.y0 e.y1 mx.y 0 ∧ ELt e.x0 e.x1 mx.x 0 ∧ ¬ ELt e.x0 e.x1 mn.x 0 := by
  unfold insidePolyE
  simp only [List.all_nil, Bool.and_true, bne_iff_ne, ne_eq]
  obtain ⟨a, b⟩ := mn
  obtain ⟨c, d⟩ := mx
  exact rect_windingE a b c d hx hy e

theorem locateFace_rect (mn mx : Pt) (e : EPt) :
    locateFace (parts (.rect mn mx)) e =
      if insidePolyE e ⟨SM.rectToPolygon ⟨mn, mx⟩, []⟩ = true then .inside else .outside := by
  simp [locateFace, parts]

/-- the inner box inside the outer box: a face sample inside the inner Rect is inside the outer one -/
theorem face_mono {amn amx bmn bmx : Pt} (hax : amn.x < amx.x) (hay : amn.y < amx.y) (hbx : bmn.x < bmx.x)
    (hby : bmn.y < bmx.y) (h1 : amn.x ≤ bmn.x) (h2 : bmx.x ≤ amx.x) (h3 : amn.y ≤ bmn.y) (h4 : bmx.y ≤ amx.y)
    {e : EPt} (h : insidePolyE e ⟨SM.rectToPolygon ⟨bmn, bmx⟩, []⟩ = true) :
    insidePolyE e ⟨SM.rectToPolygon ⟨amn, amx⟩, []⟩ = true := by
  rw [insidePolyE_rect _ _ hbx hby] at h
  rw [insidePolyE_rect _ _ hax hay]
  obtain ⟨g1, g2, g3, g4⟩ := h
  exact ⟨ELe_of_le h3 g1, ELt_of_le h4 g2, ELt_of_le h2 g3, fun g => g4 (ELt_of_le h1 g)⟩

theorem located_rect_iff {mn mx : Pt} (hd : inDomain (.rect mn mx) = true) (c : Pt) :
    locate (.rect mn mx) c ≠ .outside ↔ mn.x ≤ c.x ∧ c.x ≤ mx.x ∧ mn.y ≤ c.y ∧ c.y ≤ mx.y := by
  rw [← (pieceFacts_rect mn mx hd).kp c, ← rectCoord_iff]
  simp only [coordX]

/-- **`Rect: Contains<Rect>` is the mask `T*****FF*` on the specification** (both of positive width and height) -/
theorem containsM_rect_rect (amn amx bmn bmx : Pt) (ha : inDomain (.rect amn amx) = true)
    (hb : inDomain (.rect bmn bmx) = true) :
    containsM (.rect amn amx) (.rect bmn bmx) =
      Gen.isContains (relateSpec (.rect amn amx) (.rect bmn bmx)) := by
  obtain ⟨hax, hay⟩ := rect_dom ha
  obtain ⟨hbx, hby⟩ := rect_dom hb
  have ca := (dom_facts _ ha).closed
  have cb := (dom_facts _ hb).closed
  have e : containsM (.rect amn amx) (.rect bmn bmx) = rectContainsRect amn amx bmn bmx := rfl
  have hr : relateSpec (.rect amn amx) (.rect bmn bmx) =
      relateParts (parts (.rect amn amx)) (parts (.rect bmn bmx)) := rfl
  rw [e, hr]
  cases hm : rectContainsRect amn amx bmn bmx with
  | false =>
    symm
    have hcorner : ∃ c ∈ SM.rectToPolygon ⟨bmn, bmx⟩,
        ¬ (amn.x ≤ c.x ∧ c.x ≤ amx.x ∧ amn.y ≤ c.y ∧ c.y ≤ amx.y) := by
      simp only [rectContainsRect, Bool.and_eq_false_iff, decide_eq_false_iff_not, ge_iff_le] at hm
      rcases hm with ((h | h) | h) | h
      · exact ⟨⟨bmn.x, bmn.y⟩, by simp [SM.rectToPolygon], fun g => h g.1⟩
      · exact ⟨⟨bmx.x, bmx.y⟩, by simp [SM.rectToPolygon], fun g => h g.2.1⟩
      · exact ⟨⟨bmn.x, bmn.y⟩, by simp [SM.rectToPolygon], fun g => h g.2.2.1⟩
      · exact ⟨⟨bmx.x, bmx.y⟩, by simp [SM.rectToPolygon], fun g => h g.2.2.2⟩
    obtain ⟨c, hc, hout⟩ := hcorner
    have hc' : c ∈ allCoords (parts (.rect bmn bmx)) := by
      simpa [allCoords, parts, Poly.rings] using hc
    apply isContains_false_of_vertex ca cb (allCoords_mem_verts_right hc') (coords_located _ hb c hc')
    by_contra hl
    exact hout ((located_rect_iff ha c).mp hl)
  | true =>
    symm
    simp only [rectContainsRect, Bool.and_eq_true, decide_eq_true_eq, ge_iff_le] at hm
    obtain ⟨⟨⟨h1, h2⟩, h3⟩, h4⟩ := hm
    have hsub : ∀ v, locateParts (parts (.rect bmn bmx)) v ≠ .outside →
        locateParts (parts (.rect amn amx)) v ≠ .outside := by
      intro v hv
      have hv' := (located_rect_iff hb v).mp hv
      exact (located_rect_iff ha v).mpr ⟨by linarith [hv'.1], by linarith [hv'.2.1], by linarith [hv'.2.2.1],
        by linarith [hv'.2.2.2]⟩
    have hface : ∀ e : EPt, locateFace (parts (.rect bmn bmx)) e ≠ .outside →
        locateFace (parts (.rect amn amx)) e = .inside := by
      intro e he
      rw [locateFace_rect] at he ⊢
      by_cases hi : insidePolyE e ⟨SM.rectToPolygon ⟨bmn, bmx⟩, []⟩ = true
      · rw [if_pos (face_mono hax hay hbx hby h1 h2 h3 h4 hi)]
      · rw [if_neg hi] at he; exact absurd rfl he
    have hfaceB : ∀ e : EPt, locateFace (parts (.rect bmn bmx)) e ≠ .onBoundary := by
      intro e
      rw [locateFace_rect]
      split <;> (intro g; cases g)
    -- no atom is outside the outer Rect and not outside the inner one
    have hno : ∀ x ∈ atomsOf (parts (.rect amn amx)) (parts (.rect bmn bmx)), x.posB ≠ .outside →
        x.posA ≠ .outside := by
      intro x hx hB
      rcases mem_atomsOf_cases hx with ⟨v, _, rfl⟩ | ⟨s, _, _, m, _, _, rfl | rfl | rfl⟩
      · exact hsub v hB
      · exact hsub m hB
      · simp only at hB ⊢
        rw [hface _ hB]; intro g; cases g
      · simp only at hB ⊢
        rw [hface _ hB]; intro g; cases g
    rw [isContains_cells]
    refine ⟨?_, ?_, ?_⟩
    · -- the face sample above the bottom edge of the inner Rect
      have hs : ((⟨bmn.x, bmn.y⟩, ⟨bmx.x, bmn.y⟩) : Pt × Pt) ∈
          (parts (.rect amn amx)).allSegs ++ (parts (.rect bmn bmx)).allSegs := by
        apply List.mem_append_right
        simp [Parts.allSegs, Parts.areaSegs, Parts.curveSegs, parts, Poly.rings, SM.rectToPolygon, segs]
      have hne : ((⟨bmn.x, bmn.y⟩, ⟨bmx.x, bmn.y⟩) : Pt × Pt).1 ≠
          ((⟨bmn.x, bmn.y⟩, ⟨bmx.x, bmn.y⟩) : Pt × Pt).2 := by
        intro g
        have := congrArg Pt.x g
        simp only at this
        linarith
      obtain ⟨m, hm, hnv, hall⟩ := exists_atoms_of_seg hs hne
      obtain ⟨hv1, hv2⟩ := ends_mem_vertsOf hs
      simp only at hm hv1 hv2 hall
      obtain ⟨t, t0, t1, mx', my'⟩ := hm
      simp only [sub_self, mul_zero, add_zero] at my'
      simp only at mx'
      have hm1 : m.x ≠ bmn.x := by
        intro g
        exact hnv (by rw [Geo.Proofs.Kernel.Pt.ext' (p := m) (q := ⟨bmn.x, bmn.y⟩) g my']; exact hv1)
      have hm2 : m.x ≠ bmx.x := by
        intro g
        exact hnv (by rw [Geo.Proofs.Kernel.Pt.ext' (p := m) (q := ⟨bmx.x, bmn.y⟩) g my']; exact hv2)
      have hw : 0 < bmx.x - bmn.x := by linarith
      have hlo : bmn.x ≤ m.x := by rw [mx']; nlinarith [mul_nonneg t0 hw.le]
      have hhi : m.x ≤ bmx.x := by rw [mx']; nlinarith [mul_nonneg (sub_nonneg.mpr t1) hw.le]
      have hlo' : bmn.x < m.x := lt_of_le_of_ne hlo (Ne.symm hm1)
      have hhi' : m.x < bmx.x := lt_of_le_of_ne hhi hm2
      have hinB : insidePolyE (faceL ⟨bmn.x, bmn.y⟩ ⟨bmx.x, bmn.y⟩ m) ⟨SM.rectToPolygon ⟨bmn, bmx⟩, []⟩ = true := by
        rw [insidePolyE_rect _ _ hbx hby]
        simp only [faceL]
        refine ⟨Or.inr ⟨my'.symm, hw.le⟩, Or.inl (by rw [my']; exact hby), Or.inl hhi', ?_⟩
        rintro (g | ⟨g, _⟩)
        · linarith
        · exact hm1 g
      have hinA := face_mono hax hay hbx hby h1 h2 h3 h4 hinB
      intro hE
      refine Geo.Proofs.C02Q.cell_empty_no_atom hE (hall _ (Or.inr (Or.inl rfl))) ?_ ?_
      · simp only
        rw [locateFace_rect, if_pos hinA]
      · simp only
        rw [locateFace_rect, if_pos hinB]
    · by_contra hne
      obtain ⟨x, hx, hA, hB⟩ := atom_of_cell_right (by intro g; cases g) hne
      exact hno x hx (by rw [hB]; intro g; cases g) hA
    · by_contra hne
      obtain ⟨x, hx, hA, hB⟩ := atom_of_cell_right (by intro g; cases g) hne
      exact hno x hx (by rw [hB]; intro g; cases g) hA

end Geo.Proofs.C02Y
