/-
  C02Q, part 1: hand-written `Contains` bodies against point-set statements.

  * `LineString: Contains<Coord>` (`lsContainsCoord`, index argument over `zipIdx`) and the fixed
    `MultiLineString: Contains<Point>` (`mlsContainsPoint`, mod-2 rule) = "located in the interior";
  * `Rect: Contains<Rect>` ⇔ every point of the inner closed rect is a point of the outer one;
  * `Line: Contains<Line>` ⇔ both end points (⇔ every point) of the inner segment on the outer one.
-/
import GeoProofs.Lemmas.LocateLemmas
import GeoProofs.Lemmas.LISpec

namespace Geo.Proofs.C02Q
open Geo Geo.Proofs.Kernel Geo.Proofs.Loc

/-! ### LineString × Coord -/

/-- one step of the `enumerate().any(...)` closure of `LineString: Contains<Coord>` -/
def lsStep (c : Pt) (si : (Pt × Pt) × Nat) : Bool :=
  lineContainsCoord si.1.1 si.1.2 c || (decide (si.2 > 0) && c == si.1.1)

theorem lineContainsCoord_imp (a b c : Pt) (h : lineContainsCoord a b c = true) :
    lineCoord a b c = true := by
  unfold lineContainsCoord at h
  by_cases hab : a = b
  · subst hab
    simp only [beq_self_eq_true, if_true, beq_iff_eq] at h
    subst h; exact lineCoord_left _ _
  · have : (a == b) = false := by simpa using hab
    rw [this] at h
    simp only [Bool.false_eq_true, if_false, Bool.and_eq_true] at h
    exact h.2

/-- on a segment but not "contained": an end point of a non-degenerate segment -/
theorem end_of_not_contains {a b c : Pt} (h : lineCoord a b c = true)
    (hn : lineContainsCoord a b c = false) : a ≠ b ∧ (c = a ∨ c = b) := by
  unfold lineContainsCoord at hn
  by_cases hab : a = b
  · subst hab
    have := (lineCoord_degenerate a c).mp h
    subst this
    simp at hn
  · refine ⟨hab, ?_⟩
    have : (a == b) = false := by simpa using hab
    rw [this] at hn
    simp only [Bool.false_eq_true, if_false, h, Bool.and_true] at hn
    by_cases h1 : c = a
    · exact Or.inl h1
    · by_cases h2 : c = b
      · exact Or.inr h2
      · simp [h1, h2] at hn

/-- the index argument: away from the last coordinate, and away from the first one unless the
enumeration does not start at `0`, the closure finds `c` exactly when `c` is on some segment -/
theorem lsStep_any (c : Pt) (a b : Pt) (rest : List Pt) (k : Nat)
    (hl : c ≠ (a :: b :: rest).getLast (by simp)) (hk : 0 < k ∨ c ≠ a) :
    ((segs (a :: b :: rest)).zipIdx k).any (lsStep c) = onAnySeg c (segs (a :: b :: rest)) := by
  induction rest generalizing a b k with
  | nil =>
    simp only [List.getLast_cons_cons, List.getLast_singleton] at hl
    simp only [segs, List.zipIdx_cons, List.zipIdx_nil, List.any_cons, List.any_nil, Bool.or_false,
      onAnySeg, lsStep]
    by_cases hon : lineCoord a b c = true
    · rw [hon]
      by_cases hcc : lineContainsCoord a b c = true
      · simp [hcc]
      · have hcc' : lineContainsCoord a b c = false := by simpa using hcc
        obtain ⟨_, h | h⟩ := end_of_not_contains hon hcc'
        · rcases hk with hk | hk
          · simp [h, hk]
          · exact absurd h hk
        · exact absurd h hl
    · have hon' : lineCoord a b c = false := by simpa using hon
      have hcc : lineContainsCoord a b c = false := by
        by_contra hcc
        exact hon (lineContainsCoord_imp a b c (by simpa using hcc))
      rw [hon', hcc]
      have hca : ¬ c = a := fun h => hon (h ▸ lineCoord_left a b)
      simp [hca]
  | cons d rest' ih =>
    have hl' : c ≠ (b :: d :: rest').getLast (by simp) := by
      simpa [List.getLast_cons_cons] using hl
    have ih' := ih b d (k + 1) hl' (Or.inl (Nat.succ_pos k))
    have hs : segs (a :: b :: d :: rest') = (a, b) :: segs (b :: d :: rest') := rfl
    rw [hs, List.zipIdx_cons, List.any_cons, ih']
    have ho : onAnySeg c ((a, b) :: segs (b :: d :: rest')) =
        (lineCoord a b c || onAnySeg c (segs (b :: d :: rest'))) := by
      simp [onAnySeg]
    rw [ho]
    by_cases hon : lineCoord a b c = true
    · rw [hon]
      by_cases hcc : lineContainsCoord a b c = true
      · simp [lsStep, hcc]
      · have hcc' : lineContainsCoord a b c = false := by simpa using hcc
        obtain ⟨_, h | h⟩ := end_of_not_contains hon hcc'
        · rcases hk with hk | hk
          · simp [lsStep, h, hk]
          · exact absurd h hk
        · have : onAnySeg c (segs (b :: d :: rest')) = true := by
            rw [h]; exact head_onAnySeg _ _ _
          simp [this]
    · have hon' : lineCoord a b c = false := by simpa using hon
      have hcc : lineContainsCoord a b c = false := by
        by_contra hcc
        exact hon (lineContainsCoord_imp a b c (by simpa using hcc))
      have hca : ¬ c = a := fun h => hon (h ▸ lineCoord_left a b)
      simp [lsStep, hon', hcc, hca]

/-- `LineString: Contains<Coord>` for a line string with at least two coordinates (open or closed,
simple or not): on some segment, and not an end point of the open curve. -/
theorem lsContainsCoord_eq (cs : List Pt) (c : Pt) (h2 : 2 ≤ cs.length) :
    lsContainsCoord cs c = (onAnySeg c (segs cs) && !(epc c cs == 1)) := by
  match cs, h2 with
  | a :: b :: rest, _ =>
    have hne : a :: b :: rest ≠ [] := by simp
    have hf : (a :: b :: rest).head? = some a := rfl
    have hl : (a :: b :: rest).getLast? = some ((a :: b :: rest).getLast hne) :=
      List.getLast?_eq_getLast_of_ne_nil hne
    have hfon := head_onAnySeg a b rest
    have hlon := last_onAnySeg a b rest
    have hstep : ∀ L : List ((Pt × Pt) × Nat),
        L.any (fun (x : (Pt × Pt) × Nat) =>
          match x with
          | (s, i) => lineContainsCoord s.1 s.2 c || (decide (i > 0) && c == s.1)) = L.any (lsStep c) := by
      intro L; congr 1
    unfold lsContainsCoord
    rw [hf, hl]
    simp only
    generalize hlast : (a :: b :: rest).getLast hne = l at hl hlon
    have hclosed : isClosedLS (a :: b :: rest) = decide (a = l) := by
      unfold isClosedLS; rw [hf, hl]; simp
    have hepc := epc_eq_one_iff (p := c) hf hl
    by_cases h1 : c = a ∨ c = l
    · have hc : (c == a || c == l) = true := by
        rcases h1 with h | h <;> simp [h]
      rw [if_pos hc, hclosed]
      have hon : onAnySeg c (segs (a :: b :: rest)) = true := by
        rcases h1 with h | h
        · rw [h]; exact hfon
        · rw [h]; exact hlon
      rw [hon]
      by_cases hal : a = l
      · have : ¬ epc c (a :: b :: rest) = 1 := by rw [hepc]; exact fun h => h.1 hal
        have hd : decide (a = l) = true := by simpa using hal
        rw [hd]; simp [this]
      · have : epc c (a :: b :: rest) = 1 := hepc.mpr ⟨hal, h1⟩
        have hd : decide (a = l) = false := by simpa using hal
        rw [hd]; simp [this]
    · have hc : ¬ (c == a || c == l) = true := by
        intro h; apply h1; simpa using h
      rw [if_neg hc]
      simp only [not_or] at h1
      have hzero : (segs (a :: b :: rest)).zipIdx = (segs (a :: b :: rest)).zipIdx 0 := rfl
      rw [hstep, hzero, lsStep_any c a b rest 0 (by rw [hlast]; exact h1.2) (Or.inr h1.1)]
      have : ¬ epc c (a :: b :: rest) = 1 := by
        rw [hepc]; rintro ⟨_, h | h⟩
        · exact h1.1 h
        · exact h1.2 h
      simp [this]

/-- the specification's location on a single curve -/
theorem locate_lineString_inside (cs : List Pt) (c : Pt) :
    (locate (.lineString cs) c == .inside) = (onAnySeg c (segs cs) && !(epc c cs == 1)) := by
  unfold locate
  simp only [parts]
  rw [locateParts_noAreas, endpointCount_eq_sum]
  simp only [List.flatMap_cons, List.flatMap_nil, List.append_nil, List.map_cons, List.map_nil,
    List.sum_cons, List.sum_nil, Nat.add_zero, List.any_nil]
  have h1 := epc_le_one c cs
  by_cases he : epc c cs = 1
  · have hon : onAnySeg c (segs cs) = true := onAnySeg_of_epc he
    simp [he, hon]
  · have he0 : epc c cs = 0 := by omega
    by_cases hon : onAnySeg c (segs cs) = true <;> simp [he0, hon]

/-- LineString × Point, at least two coordinates. -/
theorem containsM_lineString_point (cs : List Pt) (c : Pt) (h2 : 2 ≤ cs.length) :
    containsM (.lineString cs) (.point c) = (locate (.lineString cs) c == .inside) := by
  rw [containsM_point_rhs, locate_lineString_inside]
  simp only [containsCoord, containsCoordFlat]
  exact lsContainsCoord_eq cs c h2

/-! ### MultiLineString × Point -/

theorem isxFlat_lineString_point (cs : List Pt) (c : Pt) :
    isxFlat (.lineString cs) (.point c) = onAnySeg c (segs cs) := by
  have h := intersectsM_lineString cs (.point c)
  have h' : intersectsM (.lineString cs) (.point c) = isxFlat (.lineString cs) (.point c) := by
    simp only [intersectsM, vsPiece, isxFlat, coordX, lineX]
  rw [← h']
  have h1 : intersectsM (.lineString cs) (.point c) = lineStringCoord cs c := by
    have hr : rectNewPts c c = (c, c) := by simp [rectNewPts, SM.rectNew]
    have hd : disjointBB (.lineString cs) (.point c) =
        (match getBoundingRect cs with
         | none => false
         | some (mn, mx) => !rectRect mn mx c c) := by
      simp only [disjointBB, boundingRect]
      rw [hr]
      cases getBoundingRect cs with
      | none => rfl
      | some r => rfl
    simp only [intersectsM, vsPiece, isxFlat, coordX, lineStringCoord]
    rw [hd]
    cases getBoundingRect cs with
    | none => simp only [Bool.false_eq_true, if_false]
    | some r => rfl
  rw [h1, lineStringCoord_eq]

/-- one step of the fold of `MultiLineString: Contains<Point>` -/
def mlsStep (c : Pt) (acc : Bool × Nat) (cs : List Pt) : Bool × Nat :=
  match cs.head?, cs.getLast? with
  | some f, some l =>
    if !isClosedLS cs && (c == f || c == l) then (true, acc.2 + 1)
    else if isxFlat (.lineString cs) (.point c) then (true, acc.2)
    else acc
  | _, _ => acc

theorem mlsStep_eq (c : Pt) (acc : Bool × Nat) (cs : List Pt) :
    mlsStep c acc cs = (acc.1 || onAnySeg c (segs cs), acc.2 + epc c cs) := by
  unfold mlsStep
  match cs with
  | [] => simp [epc, segs, onAnySeg]
  | [a] =>
    simp only [List.head?_cons, List.getLast?_singleton, isxFlat_lineString_point]
    simp [isClosedLS, epc, segs, onAnySeg]
  | a :: b :: rest =>
    have hne : a :: b :: rest ≠ [] := by simp
    have hf : (a :: b :: rest).head? = some a := rfl
    have hl : (a :: b :: rest).getLast? = some ((a :: b :: rest).getLast hne) :=
      List.getLast?_eq_getLast_of_ne_nil hne
    rw [hf, hl]
    simp only [isxFlat_lineString_point]
    generalize (a :: b :: rest).getLast hne = l at hl
    have hclosed : isClosedLS (a :: b :: rest) = decide (a = l) := by
      unfold isClosedLS; rw [hf, hl]; simp
    have hepc := epc_eq_one_iff (p := c) hf hl
    have hle := epc_le_one c (a :: b :: rest)
    rw [hclosed]
    by_cases h1 : a ≠ l ∧ (c = a ∨ c = l)
    · have he : epc c (a :: b :: rest) = 1 := hepc.mpr h1
      have hon := onAnySeg_of_epc he
      have : (!decide (a = l) && (c == a || c == l)) = true := by
        rcases h1 with ⟨h1, h | h⟩ <;> simp [h1, h]
      rw [if_pos this, he, hon]; simp
    · have he : epc c (a :: b :: rest) = 0 := by
        have : ¬ epc c (a :: b :: rest) = 1 := fun h => h1 (hepc.mp h)
        omega
      have : ¬ (!decide (a = l) && (c == a || c == l)) = true := by
        intro h; apply h1; simpa using h
      rw [if_neg this, he]
      by_cases hon : onAnySeg c (segs (a :: b :: rest)) = true
      · simp [hon]
      · simp [hon]

theorem mls_fold_eq (c : Pt) (ls : List (List Pt)) (acc : Bool × Nat) :
    ls.foldl (mlsStep c) acc =
      (acc.1 || onAnySeg c (ls.flatMap segs), acc.2 + (ls.map (epc c)).sum) := by
  induction ls generalizing acc with
  | nil => simp [onAnySeg]
  | cons cs t ih =>
    rw [List.foldl_cons, ih, mlsStep_eq]
    simp only [List.flatMap_cons, List.map_cons, List.sum_cons]
    have : onAnySeg c (segs cs ++ t.flatMap segs) =
        (onAnySeg c (segs cs) || onAnySeg c (t.flatMap segs)) := by
      simp [onAnySeg]
    rw [this, Bool.or_assoc, Nat.add_assoc]

/-- the fixed `MultiLineString: Contains<Point>`: on some member, and an end point of an even
number of open members. -/
theorem mlsContainsPoint_eq (ls : List (List Pt)) (c : Pt) :
    mlsContainsPoint ls c = (onAnySeg c (ls.flatMap segs) && (endpointCount c ls % 2 == 0)) := by
  have h : mlsContainsPoint ls c =
      ((ls.foldl (mlsStep c) (false, 0)).1 && (ls.foldl (mlsStep c) (false, 0)).2 % 2 == 0) := rfl
  rw [h, mls_fold_eq, endpointCount_eq_sum]
  simp

/-- MultiLineString × Point (every member list: empty, single-coordinate, closed and non-simple
members included). -/
theorem containsM_mls_point (ls : List (List Pt)) (c : Pt) :
    containsM (.multiLineString ls) (.point c) = (locate (.multiLineString ls) c == .inside) := by
  rw [containsM_point_rhs]
  simp only [containsCoord, containsCoordFlat]
  rw [mlsContainsPoint_eq]
  unfold locate
  simp only [parts]
  rw [locateParts_noAreas]
  by_cases hon : onAnySeg c (ls.flatMap segs) = true
  · rw [hon]
    by_cases he : endpointCount c ls % 2 = 1
    · simp [he]
    · have he0 : endpointCount c ls % 2 = 0 := by omega
      simp [he0]
  · simp [hon]

/-! ### Rect × Rect -/

/-- `Rect: Contains<Rect>` (four non-strict comparisons) for an inner rect with `min ≤ max`
(guaranteed by `Rect::new`): every point of the inner closed rect is a point of the outer one. -/
theorem rectContainsRect_iff (amn amx bmn bmx : Pt) (hx : bmn.x ≤ bmx.x) (hy : bmn.y ≤ bmx.y) :
    rectContainsRect amn amx bmn bmx = true ↔
      ∀ p, rectCoord bmn bmx p = true → rectCoord amn amx p = true := by
  simp only [rectContainsRect, rectCoord, Bool.and_eq_true, decide_eq_true_eq, ge_iff_le]
  constructor
  · rintro ⟨⟨⟨h1, h2⟩, h3⟩, h4⟩ p ⟨⟨⟨p1, p2⟩, p3⟩, p4⟩
    exact ⟨⟨⟨le_trans h1 p1, le_trans h3 p2⟩, le_trans p3 h2⟩, le_trans p4 h4⟩
  · intro h
    have hmn := h bmn ⟨⟨⟨le_refl _, le_refl _⟩, hx⟩, hy⟩
    have hmx := h bmx ⟨⟨⟨hx, hy⟩, le_refl _⟩, le_refl _⟩
    exact ⟨⟨⟨hmn.1.1.1, hmx.1.2⟩, hmn.1.1.2⟩, hmx.2⟩

/-! ### Line × Line -/

/-- `Line: Contains<Line>`, inner line not a single point: both end points on the outer segment. -/
theorem lineContainsLine_iff_ends (a b c d : Pt) (hcd : c ≠ d) :
    lineContainsLine a b c d = true ↔ SegMem c a b ∧ SegMem d a b := by
  have : (c == d) = false := by simpa using hcd
  simp only [lineContainsLine, this, Bool.false_eq_true, if_false, Bool.and_eq_true, lineCoord_iff]

/-- … equivalently every point of the inner segment is a point of the outer one. -/
theorem lineContainsLine_iff_subset (a b c d : Pt) (hcd : c ≠ d) :
    lineContainsLine a b c d = true ↔ ∀ p, SegMem p c d → SegMem p a b := by
  rw [lineContainsLine_iff_ends a b c d hcd]
  constructor
  · rintro ⟨hc, hd⟩ p hp
    exact SegMem_convex hc hd hp
  · intro h
    exact ⟨h c (SegMem_left c d), h d (SegMem_right c d)⟩

/-- `Line: Contains<Line>`, inner line a single point: `Line: Contains<Coord>`, i.e. the point is
located in the interior of the outer line (an end point of a non-degenerate outer line is not). -/
theorem lineContainsLine_degenerate (a b c : Pt) :
    lineContainsLine a b c c = (locate (.line a b) c == .inside) := by
  simp only [lineContainsLine, beq_self_eq_true, if_true]
  rw [lineContainsCoord_eq, coordPos_line_eq_locate]

end Geo.Proofs.C02Q
