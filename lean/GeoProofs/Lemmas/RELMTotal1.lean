/-
  RELM — the implementation does not panic, part 1: `compute_labeling` ("found single null side")
  never fails on a star whose edge ends carry side positions on both sides or on none.
-/
import GeoProofs.Lemmas.RELMSym2

namespace Geo.Proofs.RELM
open Geo Geo.GG Geo.RI

/-- a side position that `compute_label_side` takes into account -/
def IsIO (o : Option Pos) : Prop := o = some .inside ∨ o = some .outside

/-- left and right side are both `Inside`/`Outside`, or neither is -/
def SidesOK (t : TopoPos) : Prop := IsIO t.left ↔ IsIO t.right

/-- the label of an edge end, both slots -/
def EndOK (e : EdgeEnd) : Prop := SidesOK e.label.a ∧ SidesOK e.label.b

theorem sideT_isSome_iff (side : TopoPos → Option Pos) (d : List (Bool × TopoPos)) :
    (sideT side d).isSome ↔ ∃ x ∈ d, x.1 = true ∧ IsIO (side x.2) := by
  unfold sideT IsIO
  by_cases h1 : d.any (fun x => x.1 && side x.2 == some .inside) = true
  · rw [if_pos h1]
    simp only [Option.isSome_some, true_iff]
    rw [List.any_eq_true] at h1
    obtain ⟨x, hx, hp⟩ := h1
    simp only [Bool.and_eq_true, beq_iff_eq] at hp
    exact ⟨x, hx, hp.1, Or.inl hp.2⟩
  · rw [if_neg h1]
    by_cases h2 : d.any (fun x => x.1 && side x.2 == some .outside) = true
    · rw [if_pos h2]
      simp only [Option.isSome_some, true_iff]
      rw [List.any_eq_true] at h2
      obtain ⟨x, hx, hp⟩ := h2
      simp only [Bool.and_eq_true, beq_iff_eq] at hp
      exact ⟨x, hx, hp.1, Or.inr hp.2⟩
    · rw [if_neg h2]
      simp only [Option.isSome_none, Bool.false_eq_true, false_iff]
      rintro ⟨x, hx, hx1, hio⟩
      rcases hio with hio | hio
      · apply h1; rw [List.any_eq_true]; exact ⟨x, hx, by simp [hx1, hio]⟩
      · apply h2; rw [List.any_eq_true]; exact ⟨x, hx, by simp [hx1, hio]⟩

/-- left/right of the slot after `into_labeled`'s step -/
theorem stepT_sides (d : List (Bool × TopoPos)) :
    (stepT true d .emptyArea).left = sideT TopoPos.left d ∧ (stepT true d .emptyArea).right = sideT TopoPos.right d := by
  unfold stepT
  simp only [if_true]
  cases onT d <;> cases hl : sideT TopoPos.left d <;> cases hr : sideT TopoPos.right d <;>
    simp [TopoPos.emptyArea, TopoPos.setOn, TopoPos.setLeft, TopoPos.setRight, TopoPos.left, TopoPos.right]

theorem stepT_isArea (isArea : Bool) (d : List (Bool × TopoPos)) (t : TopoPos) :
    (stepT isArea d t).isArea = t.isArea := by
  unfold stepT
  cases isArea <;> cases onT d <;> cases sideT TopoPos.left d <;> cases sideT TopoPos.right d <;>
    cases t <;> rfl

/-- the condition `propagate_side_labels` needs of a label slot -/
def PropOK (t : TopoPos) : Prop := t.isArea = true → t.right.isSome → t.left.isSome

theorem bundleLabel_propOK {ends : List EdgeEnd} (h : ∀ e ∈ ends, EndOK e) :
    PropOK (bundleLabel ends).a ∧ PropOK (bundleLabel ends).b := by
  rw [bundleLabel_eq]
  simp only
  have key : ∀ idx, (idx = 0 ∨ idx = 1) →
      PropOK (stepT (ends.any fun e => e.label.isArea) (dataOf idx ends)
        (if (ends.any fun e => e.label.isArea) = true then TopoPos.emptyArea else TopoPos.emptyLine)) := by
    intro idx hidx
    cases hA : ends.any (fun e => e.label.isArea) with
    | false =>
      intro ha
      rw [stepT_isArea] at ha
      simp at ha
      cases ha
    | true =>
      simp only [if_true]
      intro _ hr
      obtain ⟨hl', hr'⟩ := stepT_sides (dataOf idx ends)
      rw [hr'] at hr
      rw [hl']
      rw [sideT_isSome_iff] at hr ⊢
      obtain ⟨x, hx, hx1, hio⟩ := hr
      refine ⟨x, hx, hx1, ?_⟩
      unfold dataOf at hx
      simp only [List.mem_map] at hx
      obtain ⟨e, he, rfl⟩ := hx
      have := h e he
      rcases hidx with rfl | rfl
      · exact this.1.2 hio
      · exact this.2.2 hio
  exact ⟨key 0 (Or.inl rfl), key 1 (Or.inr rfl)⟩

/-! ### the propagation never fails on such labels -/

theorem loopT_isSome : ∀ (ts : List TopoPos) (cur : Pos), (∀ t ∈ ts, PropOK t) → (loopT ts cur).isSome
  | [], _, _ => rfl
  | t :: ts, cur, h => by
      simp only [loopT]
      have ht := h t (List.mem_cons_self ..)
      have hrest : ∀ x ∈ ts, PropOK x := fun x hx => h x (List.mem_cons_of_mem _ hx)
      have h0 : PropOK (if t.on.isNone = true then t.setOn cur else t) := by
        split
        · intro ha hr
          cases t with
          | lineOrPoint _ => simp [TopoPos.setOn, TopoPos.isArea] at ha
          | area on l r => exact ht rfl hr
        · exact ht
      generalize (if t.on.isNone = true then t.setOn cur else t) = t0 at h0
      by_cases hA : t0.isArea = true
      · rw [if_pos hA]
        cases hR : t0.right with
        | some rp =>
          simp only
          have := h0 hA (by rw [hR]; rfl)
          cases hL : t0.left with
          | none => rw [hL] at this; cases this
          | some lp =>
            simp only [Option.isSome_map]
            exact loopT_isSome ts lp hrest
        | none =>
          simp only [Option.isSome_map]
          exact loopT_isSome ts cur hrest
      · rw [if_neg hA]
        simp only [Option.isSome_map]
        exact loopT_isSome ts cur hrest

theorem propT_isSome {ts : List TopoPos} (h : ∀ t ∈ ts, PropOK t) : (propT ts).isSome := by
  unfold propT
  split
  · rfl
  · exact loopT_isSome ts _ h

/-- **`compute_labeling` does not fail** on a star whose edge ends all have consistent sides -/
theorem starLabels_isSome (a b : Geom) (c : Pt) {star : List Bundle} (h : ∀ bd ∈ star, ∀ e ∈ bd.ends, EndOK e) :
    (starLabels a b c star).isSome := by
  rw [starLabels_eq_bind]
  simp only [Option.isSome_map]
  set ls := star.map (fun bd => bundleLabel bd.ends) with hls
  have hA : ∀ t ∈ ls.map (·.get 0), PropOK t := by
    intro t ht
    simp only [hls, List.map_map, List.mem_map] at ht
    obtain ⟨bd, hbd, rfl⟩ := ht
    exact (bundleLabel_propOK (h bd hbd)).1
  have hB : ∀ t ∈ ls.map (·.get 1), PropOK t := by
    intro t ht
    simp only [hls, List.map_map, List.mem_map] at ht
    obtain ⟨bd, hbd, rfl⟩ := ht
    exact (bundleLabel_propOK (h bd hbd)).2
  rw [propagate_eq]
  obtain ⟨ts, hts⟩ := Option.isSome_iff_exists.1 (propT_isSome hA)
  rw [hts]
  simp only [Option.map_some, Option.bind_some]
  rw [propagate_eq, setSlots0_get1 ls ts (by rw [propT_length hts, List.length_map])]
  simp only [Option.isSome_map]
  exact propT_isSome hB

end Geo.Proofs.RELM
