/-
  RELM3 — the Exterior row of `relate(Point p, B)` for a linear `B`, part 2: the `OnBoundary` nodes of the final node
  map away from `p` are exactly the `OnBoundary` nodes of `B`'s self-noded graph (`copy_nodes_and_labels` is the only
  step that writes `OnBoundary` into slot 1 when all edges are line edges: `compute_intersection_nodes` writes
  `Inside`, `label_isolated_nodes` touches slot 1 only at the point itself).
-/
import GeoProofs.Lemmas.RELM3Star

namespace Geo.Proofs.RELM3
open Geo Geo.GG Geo.RI Geo.Proofs.Spec Geo.Proofs.RELM Geo.Proofs.RELM2 Geo.Proofs.Kernel

theorem intersectionNodes_forall_e {P : RNode → Prop} (idx : Nat) (hnew : ∀ c, P (RNode.new c)) :
    ∀ (es : List REdge) (ns : List RNode),
      (∀ e ∈ es, ∀ n, P n → P (intersectionNodeUpdate (e.label.onPos idx) idx n)) →
      (∀ n ∈ ns, P n) → ∀ n ∈ intersectionNodes idx es ns, P n
  | [], _, _, h => h
  | e :: es, ns, hf, h =>
      intersectionNodes_forall_e idx hnew es _ (fun e' he' => hf e' (List.mem_cons_of_mem _ he'))
        (intersectionNodesOfEdge_forall _ idx (hf e (List.mem_cons_self ..)) hnew e.eis ns h)

theorem copyNodes_forall_g {P : RNode → Prop} (idx : Nat) :
    ∀ (gs : List Node) (ns ns' : List RNode), copyNodes idx gs ns = some ns' →
      (∀ g ∈ gs, ∀ q, g.label.onPos idx = some q → ∀ n, n.coord = g.coord → P n →
        P { n with label := n.label.setOn idx q }) →
      (∀ g ∈ gs, ∀ q, g.label.onPos idx = some q →
        P { RNode.new g.coord with label := (RNode.new g.coord).label.setOn idx q }) →
      (∀ n ∈ ns, P n) → ∀ n ∈ ns', P n
  | [], ns, ns', h, _, _, hP => by simp only [copyNodes] at h; cases h; exact hP
  | g :: gs, ns, ns', h, hf, hnew, hP => by
      simp only [copyNodes] at h
      split at h
      · cases h
      · rename_i q hq
        exact copyNodes_forall_g idx gs _ ns' h (fun g' hg' => hf g' (List.mem_cons_of_mem _ hg'))
          (fun g' hg' => hnew g' (List.mem_cons_of_mem _ hg'))
          (upsertR_forall g.coord _ ns hP (fun n hn hc => hf g (List.mem_cons_self ..) q hq n hc hn)
            (hnew g (List.mem_cons_self ..) q hq))

/-- slot 0 unset, or the node of the point -/
def A0 (p : Pt) (n : RNode) : Prop := n.label.a = .lineOrPoint none ∨ n.coord = p

/-- an `OnBoundary` node away from `p` comes from an `OnBoundary` node of `B`'s graph -/
def Prov (p : Pt) (N : List Node) (n : RNode) : Prop :=
  n.coord ≠ p → n.label.onPos 1 = some .onBoundary →
    ∃ g ∈ N, g.coord = n.coord ∧ g.label.onPos 1 = some .onBoundary

theorem point_nodes_prov (ar : Arith) (p : Pt) (b : Geom)
    (hE : ∀ e ∈ (freshGraph ar 1 b).edges, e.label.onPos 1 = some .inside) {labeled : List RNode}
    (h : labeledNodes (.point p) b (freshGraph ar 0 (.point p)) (freshGraph ar 1 b) = some labeled)
    (ends : List EdgeEnd) :
    ∀ n ∈ insertEdgeEnds ar ends labeled, Prov p (freshGraph ar 1 b).nodes n := by
  unfold labeledNodes at h
  simp only at h
  have hfresh : (freshGraph ar 0 (.point p)).edges = [] := rfl
  have hnodes : sortNodes (freshGraph ar 0 (.point p)).nodes = [⟨p, Label.emptyLine.setOn 0 .inside⟩] := rfl
  rw [hfresh, hnodes] at h
  simp only [intersectionNodes, copyNodes] at h
  -- step 1
  have i1 : ∀ n ∈ intersectionNodes 1 (freshGraph ar 1 b).edges [],
      A0 p n ∧ n.label.onPos 1 ≠ some .onBoundary := by
    apply intersectionNodes_forall_e (P := fun n => A0 p n ∧ n.label.onPos 1 ≠ some .onBoundary) 1
    · intro c; exact ⟨Or.inl rfl, by simp [RNode.new, Label.emptyLine, TopoPos.emptyLine, TopoPos.on]⟩
    · intro e he n hn
      rw [hE e he]
      unfold intersectionNodeUpdate
      have hne : ((some Pos.inside : Option Pos) == some .onBoundary) = false := by decide
      rw [hne]
      simp only [Bool.false_eq_true, if_false]
      split
      · refine ⟨?_, ?_⟩
        · rcases hn.1 with h1 | h1
          · exact Or.inl (by simpa using h1)
          · exact Or.inr h1
        · rw [Geo.Proofs.C17L.onPos_setOn]; simp
      · exact hn
    · intro n hn; cases hn
  -- step 2
  have hon : (Label.emptyLine.setOn 0 Pos.inside).onPos 0 = some .inside := rfl
  rw [hon] at h
  simp only at h
  have i2 : ∀ n ∈ upsertR p (fun n => { n with label := n.label.setOn 0 .inside })
      (intersectionNodes 1 (freshGraph ar 1 b).edges []), A0 p n ∧ n.label.onPos 1 ≠ some .onBoundary := by
    apply upsertR_forall (P := fun n => A0 p n ∧ n.label.onPos 1 ≠ some .onBoundary) p _ _ i1
    · intro n hn hc
      exact ⟨Or.inr hc, by simpa using hn.2⟩
    · exact ⟨Or.inr rfl, by simp [RNode.new, Label.emptyLine, TopoPos.emptyLine, TopoPos.on]⟩
  -- step 3
  split at h
  · cases h
  · rename_i ns2 h2
    cases h
    have i3 : ∀ n ∈ ns2, A0 p n ∧ Prov p (freshGraph ar 1 b).nodes n := by
      apply copyNodes_forall_g (P := fun n => A0 p n ∧ Prov p (freshGraph ar 1 b).nodes n) 1 _ _ ns2 h2
      · intro g hg q hq n hc hn
        refine ⟨?_, ?_⟩
        · rcases hn.1 with h1 | h1
          · exact Or.inl (by simpa using h1)
          · exact Or.inr h1
        · intro _ hb
          have hb' : some q = some Pos.onBoundary := by
            rw [← hb]; exact (Geo.Proofs.C17L.onPos_setOn _ _ _).symm
          exact ⟨g, (mem_sortNodes g _).1 hg, hc.symm, by rw [hq, hb']⟩
      · intro g hg q hq
        refine ⟨Or.inl rfl, ?_⟩
        intro _ hb
        have hb' : some q = some Pos.onBoundary := by
          rw [← hb]; exact (Geo.Proofs.C17L.onPos_setOn _ _ _).symm
        exact ⟨g, (mem_sortNodes g _).1 hg, rfl, by rw [hq, hb']⟩
      · intro n hn
        exact ⟨(i2 n hn).1, fun _ hb => absurd hb (i2 n hn).2⟩
    -- step 4
    have i4 : ∀ n ∈ ns2.map (labelIsolatedNode (.point p) b), Prov p (freshGraph ar 1 b).nodes n := by
      intro n hn
      simp only [List.mem_map] at hn
      obtain ⟨n0, hn0, rfl⟩ := hn
      obtain ⟨ha, hp⟩ := i3 n0 hn0
      unfold labelIsolatedNode
      split
      · split
        · intro hc hb
          exact hp hc (by simpa using hb)
        · rename_i he
          intro hc _
          rcases ha with h1 | h1
          · exfalso
            apply he
            simp [Label.isEmptyAt, h1, TopoPos.isEmpty]
          · exact absurd h1 hc
      · exact hp
    -- step 5
    apply insertEdgeEnds_forall (P := Prov p (freshGraph ar 1 b).nodes) ar _ _ ends _ i4
    · intro n e _ hn; exact hn
    · intro c _ hb
      simp [RNode.new, Label.emptyLine, TopoPos.emptyLine, TopoPos.on] at hb

/-- … and conversely every node of `B`'s graph is in the final node map, with its slot-1 label -/
theorem point_nodes_of_graph (ar : Arith) (p : Pt) (b : Geom) (hN : NInv 1 (freshGraph ar 1 b).nodes)
    {labeled : List RNode}
    (h : labeledNodes (.point p) b (freshGraph ar 0 (.point p)) (freshGraph ar 1 b) = some labeled)
    (ends : List EdgeEnd) {g : Node} (hg : g ∈ (freshGraph ar 1 b).nodes) {q : Pos} (hq : g.label.onPos 1 = some q) :
    ∃ n ∈ insertEdgeEnds ar ends labeled, n.coord = g.coord ∧ n.label.onPos 1 = some q := by
  have hsl : SortedR labeled := by
    have := (point_nodes_inv ar p b (freshGraph ar 1 b) h []).1
    simpa [insertEdgeEnds] using this
  unfold labeledNodes at h
  simp only at h
  have hA : (freshGraph ar 0 (.point p)).edges = [] := rfl
  have hnodes : sortNodes (freshGraph ar 0 (.point p)).nodes = [⟨p, Label.emptyLine.setOn 0 .inside⟩] := rfl
  rw [hA, hnodes] at h
  simp only [intersectionNodes, copyNodes] at h
  have hon : (Label.emptyLine.setOn 0 Pos.inside).onPos 0 = some .inside := rfl
  rw [hon] at h
  simp only at h
  split at h
  · cases h
  · rename_i ns2 h2'
    have s1 : SortedR (intersectionNodes 1 (freshGraph ar 1 b).edges []) :=
      intersectionNodes_sorted 1 _ [] sortedR_nil
    have s2 := upsertR_sorted p (fun n => { n with label := n.label.setOn 0 .inside }) (fun _ => rfl) _ s1
    obtain ⟨n2, hn2, hq2⟩ := findR_copyNodes_of_mem 1 g.coord q _ _ ns2 h2' s2
      (fun g' hg' hc => by
        have hg'' := (mem_sortNodes g' _).1 hg'
        have e1 := findNode_of_mem hN.1 hg''
        have e2 := findNode_of_mem hN.1 hg
        rw [hc, e2] at e1
        cases e1
        exact hq)
      (Or.inl ⟨g, (mem_sortNodes g _).2 hg, rfl⟩)
    have hfl : findR g.coord labeled = some (labelIsolatedNode (.point p) b n2) := by
      cases h
      rw [findR_map _ (fun n => by unfold labelIsolatedNode; split <;> [split <;> rfl; rfl]), hn2]
      rfl
    obtain ⟨n', hn', hlab⟩ := findR_insertEdgeEnds ar g.coord ends labeled _ hsl hfl
    obtain ⟨hmem, hc⟩ := findR_mem hn'
    exact ⟨n', hmem, hc, by rw [hlab]; exact labelIsolatedNode_onPos1 _ _ _ _ hq2⟩

end Geo.Proofs.RELM3
