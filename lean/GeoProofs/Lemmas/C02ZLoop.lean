/-
  C02Z, part 4: `LineString: Contains<Line>` — completeness of the truncation loop when the first pass suffices.

  `lsContainsLine_complete`: the segments of the line string are a `SimpleChain` with exceptional point `w`, `w` is not
  strictly inside the (non-degenerate) query segment, and every point of the query is on the line string: the loop answers
  `true` — already in its first pass over the segments (`sweep`); the second pass then changes nothing.
-/
import GeoProofs.Lemmas.C02ZSweep

set_option linter.unusedSimpArgs false
set_option linter.unusedVariables false

namespace Geo.Proofs.C02Z
open Geo Geo.Proofs.Kernel Geo.Proofs.Spec Geo.Proofs.C02Y

/-- in the first pass (`i < num_lines`) the exit test does not fire -/
theorem first_pass (n : Nat) : ∀ (L : List ((Pt × Pt) × Nat)) (st : CutState), (∀ y ∈ L, y.2 < n) →
    L.foldl (fun st (y : (Pt × Pt) × Nat) => cutStep n st y.2 y.1) st = L.foldl stepF st
  | [], _, _ => rfl
  | y :: L, st, h => by
      rw [List.foldl_cons, List.foldl_cons]
      have hy : y.2 < n := h y List.mem_cons_self
      have e : cutStep n st y.2 y.1 = stepF st y := by
        rw [cutStep_eq]
        have : stopCond n y.2 st = false := by
          unfold stopCond
          rw [if_neg (by omega)]
        rw [this]
        simp [stepF]
      rw [e]
      exact first_pass n L _ (fun z hz => h z (List.mem_cons_of_mem _ hz))

/-- once the loop has returned `true` nothing changes -/
theorem foldl_cutStep_true (n : Nat) : ∀ (L : List ((Pt × Pt) × Nat)) (st : CutState), st.result = some true →
    (L.foldl (fun st (y : (Pt × Pt) × Nat) => cutStep n st y.2 y.1) st).result = some true
  | [], _, h => h
  | y :: L, st, h => by
      rw [List.foldl_cons]
      have : cutStep n st y.2 y.1 = st := by
        rw [cutStep_eq]; simp [h]
      rw [this]
      exact foldl_cutStep_true n L st h

/-- **completeness of the first pass** -/
theorem lsContainsLine_complete (cs : List Pt) (a b : Pt) (hab : a ≠ b) (w : Pt)
    (hchain : SimpleChain w (segs cs)) (hw : lineContainsCoord a b w = false)
    (hcov : ∀ x, SegMem x a b → ∃ s ∈ segs cs, SegMem x s.1 s.2) :
    lsContainsLine cs a b = true := by
  have hne : (a == b) = false := by simpa using hab
  have hw' : ∀ γ : Rat, 0 < γ → γ < 1 → w ≠ lerp a b γ := by
    intro γ g1 g2 e
    have := (lcc_param hab (by norm_num : (0 : Rat) < 1) w).mpr ⟨γ, g1, g2, e⟩
    rw [lerp_zero, lerp_one, hw] at this
    cases this
  have hcover : Cover a b (segs cs) 0 1 := fun τ h0 h1 => hcov _ (lerp_segMem a b h0 h1)
  have hidx : ∀ y ∈ (segs cs).zipIdx, y.2 < (segs cs).length := by
    intro y hy
    have := List.mem_zipIdx_iff_getElem?.1 (show (y.1, y.2) ∈ (segs cs).zipIdx from hy)
    exact (List.getElem?_eq_some_iff.1 this).1
  have h1 : (((segs cs).zipIdx).foldl (fun st (y : (Pt × Pt) × Nat) => cutStep (segs cs).length st y.2 y.1)
      ⟨a, b, none, none⟩).result = some true := by
    rw [first_pass _ _ _ hidx]
    apply sweep hab w _ ⟨a, b, none, none⟩ 0 1 rfl (lerp_zero a b).symm (lerp_one a b).symm (by norm_num)
    · rw [List.zipIdx_map_fst]; exact hchain
    · rw [List.zipIdx_map_fst]; exact hcover
    · exact hw'
  unfold lsContainsLine
  rw [hne]
  simp only [Bool.false_eq_true, if_false]
  rw [List.zipIdx_append, List.foldl_append]
  have h2 := foldl_cutStep_true (segs cs).length (List.zipIdx (segs cs) (0 + (segs cs).length)) _ h1
  simpa using h2

end Geo.Proofs.C02Z
