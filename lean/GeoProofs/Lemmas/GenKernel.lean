/-
  Translator tie for the shared kernel: each hand-written kernel function of GeoModel/{Orient,Segment,
  Traverse}.lean equals the definition regenerated from the Rust source on this run
  (translator/rs2lean.py + rsexpr.py → GeoModel/Gen/Kernel.lean). If the Rust body changes (a `<`
  becomes `<=`, an argument is swapped, a branch is dropped …) the regenerated definition changes and
  the corresponding theorem stops checking.
-/
import GeoModel.Segment
import GeoModel.Traverse
import GeoModel.Gen.Kernel

namespace Geo.Proofs.GenKernel
open Geo

theorem valueInRange_eq (v mn mx : Rat) : valueInRange v mn mx = Gen.valueInRange v mn mx := rfl

theorem valueInBetween_eq (v a b : Rat) : valueInBetween v a b = Gen.valueInBetween v a b := by
  unfold valueInBetween Gen.valueInBetween
  by_cases h : a < b <;> simp [h, valueInRange_eq]

theorem pointInRect_eq (p a b : Pt) : pointInRect p a b = Gen.pointInRect p a b := by
  simp [pointInRect, Gen.pointInRect, valueInBetween_eq]

theorem rectCoord_eq (mn mx p : Pt) : rectCoord mn mx p = Gen.rectCoord mn mx p := rfl

theorem rectRect_eq (a b c d : Pt) : rectRect a b c d = Gen.rectRect a b c d := by
  unfold rectRect Gen.rectRect
  by_cases h1 : b.x < c.x <;> by_cases h2 : b.y < c.y <;> by_cases h3 : a.x > d.x <;>
    by_cases h4 : a.y > d.y <;> simp [h1, h2, h3, h4]

theorem rectContainsCoord_eq (mn mx p : Pt) : rectContainsCoord mn mx p = Gen.rectContainsCoord mn mx p := rfl

theorem rectContainsRect_eq (a b c d : Pt) : rectContainsRect a b c d = Gen.rectContainsRect a b c d := rfl

theorem getMinMax_eq (p mn mx : Rat) : getMinMax p mn mx = Gen.getMinMax p mn mx := by
  unfold getMinMax Gen.getMinMax
  by_cases h1 : p > mx <;> by_cases h2 : p < mn <;> simp [h1, h2]

theorem partialMax_eq (a b : Rat) : partialMax a b = Gen.partialMax a b := by
  unfold partialMax Gen.partialMax
  by_cases h : a > b <;> simp [h]

theorem partialMin_eq (a b : Rat) : partialMin a b = Gen.partialMin a b := by
  unfold partialMin Gen.partialMin
  by_cases h : a < b <;> simp [h]

/-- the default `Kernel::orient2d` formula (what `SimpleKernel` evaluates in the integer types, and whose
exact sign `RobustKernel` returns for floats) -/
theorem orient_eq (p q r : Pt) : orient p q r = Gen.orient2d p q r := by
  unfold orient Gen.orient2d cross
  by_cases h1 : (q.x - p.x) * (r.y - q.y) - (q.y - p.y) * (r.x - q.x) > 0 <;>
    by_cases h2 : (q.x - p.x) * (r.y - q.y) - (q.y - p.y) * (r.x - q.x) < 0 <;> simp [h1, h2]

theorem dist2_eq (p q : Pt) : dist2 p q = Gen.squareEuclideanDistance p q := rfl

theorem crossProd_eq (a b c : Pt) : crossProd a b c = Gen.crossProd a b c := rfl

theorem lineCoord_eq (a b p : Pt) : lineCoord a b p = Gen.lineCoord a b p := by
  simp [lineCoord, Gen.lineCoord, pointInRect_eq]

theorem lineLine_eq (a b c d : Pt) : lineLine a b c d = Gen.lineLine a b c d := by
  unfold lineLine Gen.lineLine
  by_cases h : a = b
  · simp [h, lineCoord_eq]
  · have hb : (a == b) = false := by simpa using h
    simp only [hb, Bool.false_eq_true, if_false, pointInRect_eq]

/-- the per-edge body of the winding loop of `coord_pos_relative_to_ring` (crossing rules, the `<=`/`>=`
comparisons, which orientation counts, the boundary short-circuit) -/
theorem ringEdge_eq (p s e : Pt) : ringEdge p s e = Gen.ringEdge p s e := by
  unfold ringEdge Gen.ringEdge
  by_cases h1 : s.y ≤ p.y <;> by_cases h2 : e.y ≥ p.y <;> by_cases h3 : e.y ≤ p.y <;>
    simp [h1, h2, h3, valueInBetween_eq]

end Geo.Proofs.GenKernel
