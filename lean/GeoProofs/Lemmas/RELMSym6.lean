/-
  RELM — **the transpose law** for the model of the implementation, exact arithmetic:
  `relate(b, a) = relate(a, b)ᵀ` (panic for panic) for all operands whose edge ends all have
  non-zero length — every geometry except those with a zero-length `Line`, see
  `relateImpl_transpose_fails_witness` for what happens there.
-/
import GeoProofs.Lemmas.RELMSym3
import GeoProofs.Lemmas.RELMSym5
import GeoProofs.Lemmas.RELMPoint3

namespace Geo.Proofs.RELM
open Geo Geo.GG Geo.RI Geo.Proofs.Spec

/-! ### small symmetries -/

theorem rectRect_symm (amn amx bmn bmx : Pt) : rectRect bmn bmx amn amx = rectRect amn amx bmn bmx := by
  unfold rectRect
  by_cases h1 : amx.x < bmn.x <;> by_cases h2 : amx.y < bmn.y <;> by_cases h3 : amn.x > bmx.x <;>
    by_cases h4 : amn.y > bmx.y <;> simp [h1, h2, h3, h4] <;> (try (intros; linarith))

theorem envelopesMeet_symm (a b : Geom) : envelopesMeet b a = envelopesMeet a b := by
  unfold envelopesMeet
  cases boundingRect a <;> cases boundingRect b <;> simp [rectRect_symm]

theorem computeDisjoint_transpose' (da ba db bb : Dim) :
    computeDisjoint db bb da ba = (computeDisjoint da ba db bb).transpose := by
  cases da <;> cases ba <;> cases db <;> cases bb <;> rfl

theorem foldFrom_mem_congr (m : IM) {l l' : List Atom} (h : ∀ t, t ∈ l ↔ t ∈ l') : foldFrom m l = foldFrom m l' := by
  apply IM.ext_get
  intro x y
  apply Dim.eq_of_le_iff
  intro d
  rw [foldFrom_get, foldFrom_get]
  simp only [h]

theorem emptyDisjoint_transpose : emptyDisjoint.transpose = emptyDisjoint := rfl

theorem sA1 (t : Atom) : t ∈ stringAtoms "212101212" ↔ t ∈ (stringAtoms "212101212").map swapAB := by
  simp [stringAtoms, dimOfChar, Dim.ofChar?, swapAB]; tauto
theorem sA2 (t : Atom) : t ∈ stringAtoms "F0FFFFFF2" ↔ t ∈ (stringAtoms "FFF0FFFF2").map swapAB := by
  simp [stringAtoms, dimOfChar, Dim.ofChar?, swapAB]; tauto
theorem sA2' (t : Atom) : t ∈ stringAtoms "FFF0FFFF2" ↔ t ∈ (stringAtoms "F0FFFFFF2").map swapAB := by
  simp [stringAtoms, dimOfChar, Dim.ofChar?, swapAB]; tauto
theorem sA3 (t : Atom) : t ∈ stringAtoms "1F1FFFFFF" ↔ t ∈ (stringAtoms "1FFFFF1FF").map swapAB := by
  simp [stringAtoms, dimOfChar, Dim.ofChar?, swapAB]; tauto
theorem sA3' (t : Atom) : t ∈ stringAtoms "1FFFFF1FF" ↔ t ∈ (stringAtoms "1F1FFFFFF").map swapAB := by
  simp [stringAtoms, dimOfChar, Dim.ofChar?, swapAB]; tauto
theorem sA4 (t : Atom) : t ∈ stringAtoms "0FFFFFFFF" ↔ t ∈ (stringAtoms "0FFFFFFFF").map swapAB := by
  simp [stringAtoms, dimOfChar, Dim.ofChar?, swapAB]; tauto

theorem properAtoms_swap (da db : Dim) (p q : Bool) (t : Atom) :
    t ∈ properAtoms db da p q ↔ t ∈ (properAtoms da db p q).map swapAB := by
  cases da <;> cases db <;> cases p <;> cases q <;>
    simp only [properAtoms, List.map_nil, List.map_append, List.mem_append, List.not_mem_nil, or_false, false_or,
      if_true, if_false, Bool.false_eq_true, sA1 t, sA2 t, sA2' t, sA3 t, sA3' t, sA4 t]

/-! ### isolated edges -/

theorem setAll_swap (l : Label) (idx : Nat) (p : Pos) :
    (l.swap).setAll (other idx) p = (l.setAll idx p).swap := by
  cases l; unfold Label.setAll Label.set Label.get Label.swap other
  by_cases h : idx = 0 <;> simp [h]

theorem labelIsolatedEdges_swap (t : Geom) (idx : Nat) : ∀ (es : List REdge),
    labelIsolatedEdges t (other idx) (es.map REdge.swap) =
      (labelIsolatedEdges t idx es).map (List.map Label.swap)
  | [] => rfl
  | e :: es => by
      simp only [List.map_cons, labelIsolatedEdges]
      have hi : e.swap.isolated = e.isolated := rfl
      rw [hi, labelIsolatedEdges_swap t idx es]
      have hl : labelIsolatedEdge t (other idx) e.swap = (labelIsolatedEdge t idx e).map Label.swap := by
        unfold labelIsolatedEdge
        have hc : e.swap.coords = e.coords := rfl
        have hlab : e.swap.label = e.label.swap := rfl
        rw [hc, hlab]
        split
        · cases e.coords.head? with
          | none => rfl
          | some c => simp only [Option.map_some, setAll_swap]
        · simp only [Option.map_some, setAll_swap]
      rw [hl]
      split
      · cases labelIsolatedEdge t idx e <;> cases labelIsolatedEdges t idx es <;> simp
      · rfl

/-! ### the graphs of the operands in the other order -/

theorem swapLabels_swapLabels (r : RGraph) : r.swapLabels.swapLabels = r := by
  cases r with | mk idx g ns rule es =>
  simp only [RGraph.swapLabels, List.map_map]
  have hn : (Node.swap ∘ Node.swap) = id := by
    funext n; cases n; simp [Node.swap, Geo.Proofs.C17L.label_swap_swap]
  have he : (REdge.swap ∘ REdge.swap) = id := by
    funext e; cases e; simp [REdge.swap, Geo.Proofs.C17L.label_swap_swap]
  rw [hn, he]; simp

theorem fresh1_eq (ar : Arith) (g : Geom) : freshGraph ar 1 g = swapGraph (freshGraph ar 0 g) 1 :=
  (swap_freshGraph ar g).symm

theorem fresh0_eq (ar : Arith) (g : Geom) : freshGraph ar 0 g = swapGraph (freshGraph ar 1 g) 0 := by
  rw [fresh1_eq]
  unfold swapGraph
  have h := swapLabels_swapLabels (freshGraph ar 0 g)
  have hidx : (freshGraph ar 0 g).idx = 0 := rfl
  cases hf : freshGraph ar 0 g with | mk idx gg ns rule es =>
  rw [hf] at h hidx
  simp only [RGraph.swapLabels] at h ⊢
  simp only at hidx
  subst hidx
  simp only [RGraph.mk.injEq, true_and]
  injection h with _ _ h3 _ h5
  exact ⟨h3.symm, h5.symm⟩

theorem boundaryNodes_swapGraph (r : RGraph) (idx : Nat) (h : r.idx = other idx) (hidx : idx = 0 ∨ idx = 1) :
    (swapGraph r idx).boundaryNodes = r.boundaryNodes := by
  unfold RGraph.boundaryNodes swapGraph RGraph.swapLabels
  simp only [h, List.filter_map, List.map_map]
  congr 1
  · apply List.filter_congr
    intro n _
    simp only [Function.comp]
    cases hl : n.label with | mk ta tb =>
    rcases hidx with rfl | rfl <;> simp [Node.swap, hl, Label.swap, Label.onPos, Label.get, other]

/-! ### the sorted node map before the edge ends -/

theorem labeledNodes_sorted {a b : Geom} {ga gb : RGraph} {labeled : List RNode}
    (h : labeledNodes a b ga gb = some labeled) : SortedR labeled := by
  unfold labeledNodes at h
  simp only at h
  have s1 := intersectionNodes_sorted 0 ga.edges [] sortedR_nil
  have s2 := intersectionNodes_sorted 1 gb.edges _ s1
  split at h
  · cases h
  · rename_i ns3 h3
    have s3 := copyNodes_sorted 0 _ _ ns3 h3 s2
    split at h
    · cases h
    · rename_i ns4 h4
      have s4 := copyNodes_sorted 1 _ _ ns4 h4 s3
      cases h
      exact sortedR_map _ (fun n => by unfold labelIsolatedNode; split <;> [split <;> rfl; rfl]) s4

theorem insertEdgeEnds_append (ar : Arith) : ∀ (l1 l2 : List EdgeEnd) (ns : List RNode),
    insertEdgeEnds ar l2 (insertEdgeEnds ar l1 ns) = insertEdgeEnds ar (l1 ++ l2) ns
  | [], _, _ => rfl
  | x :: l1, l2, ns => by
      simp only [List.cons_append, insertEdgeEnds]
      exact insertEdgeEnds_append ar l1 l2 _

/-! ### the theorem -/

/-- all edge ends the two graphs give rise to have a direction (false only if some `Line` has
equal end points) -/
def EndsNonZero (a b : Geom) : Prop :=
  let (ga, gb, _, _) := nodedGraphs Arith.exact a b
  match endsForEdges ga.edges, endsForEdges gb.edges with
  | some ea, some eb => ∀ x ∈ ea ++ eb, NonZero (dirOf x)
  | _, _ => True

/-- executable form of `EndsNonZero` -/
def endsNonZeroB (a b : Geom) : Bool :=
  let (ga, gb, _, _) := nodedGraphs Arith.exact a b
  match endsForEdges ga.edges, endsForEdges gb.edges with
  | some ea, some eb => (ea ++ eb).all (fun x => decide ((dirOf x).x ≠ 0) || decide ((dirOf x).y ≠ 0))
  | _, _ => true

theorem endsNonZero_of_B {a b : Geom} (h : endsNonZeroB a b = true) : EndsNonZero a b := by
  unfold endsNonZeroB at h
  unfold EndsNonZero
  generalize nodedGraphs Arith.exact a b = mg at h ⊢
  obtain ⟨ga, gb, hp, hpi⟩ := mg
  simp only at h ⊢
  generalize endsForEdges ga.edges = oa at h ⊢
  generalize endsForEdges gb.edges = ob at h ⊢
  cases oa with
  | none => trivial
  | some ea =>
    cases ob with
    | none => trivial
    | some eb =>
      simp only at h ⊢
      rw [List.all_eq_true] at h
      intro x hx
      have := h x hx
      simp only [Bool.or_eq_true, decide_eq_true_eq] at this
      exact this

/-- **transpose law on the graph path** -/
theorem relateGraph_transpose (a b : Geom) (hnz : EndsNonZero a b) :
    relateGraph Arith.exact b a = (relateGraph Arith.exact a b).map IM.transpose := by
  unfold relateGraph
  rw [relateGraphs_eq_fold, relateGraphs_eq_fold, fresh0_eq Arith.exact b, fresh1_eq Arith.exact a]
  -- the self-noded graphs of the original run
  set ga := freshGraph Arith.exact 0 a with hga
  set gb := freshGraph Arith.exact 1 b with hgb
  have wfa := freshGraph_wf 0 a
  have wfb := freshGraph_wf 1 b
  rw [← hga] at wfa
  rw [← hgb] at wfb
  -- the mutual phase
  have hbn : ∀ p, p ∈ ga.boundaryNodes ++ gb.boundaryNodes ↔
      p ∈ (swapGraph gb 0).boundaryNodes ++ (swapGraph ga 1).boundaryNodes := by
    intro p
    rw [boundaryNodes_swapGraph gb 0 rfl (Or.inl rfl), boundaryNodes_swapGraph ga 1 rfl (Or.inr rfl)]
    simp only [List.mem_append]
    exact or_comm
  have hmut : mutualGraphs Arith.exact (swapGraph gb 0) (swapGraph ga 1) =
      (swapGraph (mutualGraphs Arith.exact ga gb).2.1 0, swapGraph (mutualGraphs Arith.exact ga gb).1 1,
        (mutualGraphs Arith.exact ga gb).2.2.1, (mutualGraphs Arith.exact ga gb).2.2.2) := by
    unfold mutualGraphs edgeIntersections
    have := mutualRows_swap (ga.boundaryNodes ++ gb.boundaryNodes)
      ((swapGraph gb 0).boundaryNodes ++ (swapGraph ga 1).boundaryNodes) hbn ga.edges gb.edges
      (fun e he => (wfa e he).1) (fun e he => (wfa e he).2) (fun e he => (wfb e he).1) (fun e he => (wfb e he).2)
    have e1 : (swapGraph gb 0).edges = gb.edges.map REdge.swap := rfl
    have e2 : (swapGraph ga 1).edges = ga.edges.map REdge.swap := rfl
    simp only [e1, e2, this]
    rfl
  -- unfold both sides
  unfold EndsNonZero nodedGraphs at hnz
  rw [← hga, ← hgb] at hnz
  unfold graphAtoms
  rw [hmut]
  generalize mutualGraphs Arith.exact ga gb = mg at hnz ⊢
  obtain ⟨ga', gb', hp, hpi⟩ := mg
  simp only at hnz ⊢
  rw [labeledNodes_swap]
  have e1 : (swapGraph gb' 0).edges = gb'.edges.map REdge.swap := rfl
  have e2 : (swapGraph ga' 1).edges = ga'.edges.map REdge.swap := rfl
  rw [e1, e2, endsForEdges_swap, endsForEdges_swap]
  have i1 : labelIsolatedEdges a 1 (gb'.edges.map REdge.swap) =
      (labelIsolatedEdges a 0 gb'.edges).map (List.map Label.swap) := labelIsolatedEdges_swap a 0 _
  have i2 : labelIsolatedEdges b 0 (ga'.edges.map REdge.swap) =
      (labelIsolatedEdges b 1 ga'.edges).map (List.map Label.swap) := labelIsolatedEdges_swap b 1 _
  rw [i1, i2]
  cases hN : labeledNodes a b ga' gb' with
  | none => simp
  | some N =>
  cases hEa : endsForEdges ga'.edges with
  | none =>
    cases endsForEdges gb'.edges <;> simp
  | some endsA =>
  cases hEb : endsForEdges gb'.edges with
  | none => simp
  | some endsB =>
  rw [hEa, hEb] at hnz
  simp only at hnz
  cases hIa : labelIsolatedEdges b 1 ga'.edges with
  | none =>
    cases labelIsolatedEdges a 0 gb'.edges <;> simp
  | some isoA =>
  cases hIb : labelIsolatedEdges a 0 gb'.edges with
  | none => simp
  | some isoB =>
  simp only [Option.map_some]
  -- the node maps
  have hsN := labeledNodes_sorted hN
  have hgN : GoodNodes N := by
    intro n hn
    rw [labeledNodes_star hN n hn]
    intro b hb; cases hb
  rw [insertEdgeEnds_swap, insertEdgeEnds_swap, insertEdgeEnds_append, insertEdgeEnds_append, nodesAtoms_swap]
  have hperm : NodesEq (insertEdgeEnds Arith.exact (endsB ++ endsA) N)
      (insertEdgeEnds Arith.exact (endsA ++ endsB) N) := by
    apply insertEdgeEnds_perm List.perm_append_comm _ hsN hsN hgN hgN (NodesEq.refl N)
    intro x hx
    exact hnz x (List.perm_append_comm.mem_iff.1 hx)
  rw [nodesAtoms_of_nodesEq a b hperm]
  cases nodesAtoms a b (insertEdgeEnds Arith.exact (endsA ++ endsB) N) with
  | none => rfl
  | some na =>
    simp only [Option.map_some, Option.some.injEq]
    rw [← emptyDisjoint_transpose, ← foldFrom_swap, emptyDisjoint_transpose]
    apply foldFrom_mem_congr
    intro t
    simp only [List.mem_append, List.map_append, List.mem_flatMap, List.mem_map]
    rw [properAtoms_swap (dims a) (dims b) hp hpi t, List.mem_map]
    constructor
    · rintro ((⟨u, hu, rfl⟩ | ⟨l, hl, ht⟩) | ⟨u, hu, rfl⟩)
      · exact Or.inl (Or.inl ⟨u, hu, rfl⟩)
      · rcases hl with ⟨l', hl', rfl⟩ | ⟨l', hl', rfl⟩
        · rw [labelAtoms_swap, List.mem_map] at ht
          obtain ⟨u, hu, rfl⟩ := ht
          exact Or.inl (Or.inr ⟨u, ⟨l', Or.inr hl', hu⟩, rfl⟩)
        · rw [labelAtoms_swap, List.mem_map] at ht
          obtain ⟨u, hu, rfl⟩ := ht
          exact Or.inl (Or.inr ⟨u, ⟨l', Or.inl hl', hu⟩, rfl⟩)
      · exact Or.inr ⟨u, hu, rfl⟩
    · rintro ((⟨u, hu, rfl⟩ | ⟨u, ⟨l, hl, hu⟩, rfl⟩) | ⟨u, hu, rfl⟩)
      · exact Or.inl (Or.inl ⟨u, hu, rfl⟩)
      · rcases hl with hl | hl
        · exact Or.inl (Or.inr ⟨l.swap, Or.inr ⟨l, hl, rfl⟩, by rw [labelAtoms_swap]; exact List.mem_map_of_mem hu⟩)
        · exact Or.inl (Or.inr ⟨l.swap, Or.inl ⟨l, hl, rfl⟩, by rw [labelAtoms_swap]; exact List.mem_map_of_mem hu⟩)
      · exact Or.inr ⟨u, hu, rfl⟩

/-- **the transpose law** of the model of the implementation (exact arithmetic): the matrix for the
operands in the other order is the transposed matrix, and the code panics for one order iff it
does for the other. -/
theorem relateImpl_transpose (a b : Geom) (hnz : EndsNonZero a b) :
    relateImpl? b a = (relateImpl? a b).map IM.transpose := by
  unfold relateImpl? relateImplWith
  rw [envelopesMeet_symm]
  split
  · exact relateGraph_transpose a b hnz
  · show some (disjointIM b a) = (some (disjointIM a b)).map IM.transpose
    unfold disjointIM
    rw [computeDisjoint_transpose']
    rfl

end Geo.Proofs.RELM
